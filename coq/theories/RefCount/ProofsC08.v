(* refcount: the state invariant behind C08 / C09 / C10 (release log, stored value, delivery, progress), for every
   well-formed event list. *)
From Util Require Import Common.Base Common.ListLemmas RefCount.Model RefCount.Proofs.

(* the resolver call on goroutine g returns the generation-unique value g+1, or the empty value 0 - with an error
   (`return zero, rel, err`) or without one (handle 0, a nil pointer with a cleanup: `return zero, rel, nil`) -, and never
   context.Canceled (the codec produces only such events, see Spec.hstep) *)
Definition val_ok (g v er : nat) : Prop := v = S g \/ v = 0.
Definition wf_ev (e : ev) : Prop :=
  match e with EResReturn g v hr er => val_ok g v er /\ er <> 1 | _ => True end.

(* ------------------------------------------------------------------ *)
(* goroutine table access *)
Lemma getg_setg_same s g x : g < length (gs s) -> getg (setg s g x) g = x.
Proof. intros H. unfold getg. rewrite gs_setg. now apply nth_set_nth_same. Qed.
Lemma getg_setg_other s g x i : i <> g -> getg (setg s g x) i = getg s i.
Proof. intros H. unfold getg. rewrite gs_setg. now apply nth_set_nth_other. Qed.
Lemma length_gs_setg s g x : length (gs (setg s g x)) = length (gs s).
Proof. rewrite gs_setg. apply length_set_nth. Qed.
Lemma getg_nth_error s g x : nth_error (gs s) g = Some x -> getg s g = x /\ g < length (gs s).
Proof. intros H. split; [unfold getg; now apply nth_error_nth | eapply nth_error_nth_len; eauto]. Qed.

(* cancelling a resolve context touches one flag *)
Lemma cancel_g_rest s og :
  kctx (cancel_g s og) = kctx s /\ keep (cancel_g s og) = keep s /\ refs (cancel_g s og) = refs s /\ rcancel (cancel_g s og) = rcancel s /\
  nonce (cancel_g s og) = nonce s /\ waitch (cancel_g s og) = waitch s /\ resolved (cancel_g s og) = resolved s /\
  value (cancel_g s og) = value s /\ verr (cancel_g s og) = verr s /\ vrel (cancel_g s og) = vrel s /\ vgen (cancel_g s og) = vgen s /\
  target (cancel_g s og) = target s /\ terr (cancel_g s og) = terr s /\ rellog (cancel_g s og) = rellog s /\
  conss (cancel_g s og) = conss s /\ asyncs (cancel_g s og) = asyncs s /\ relacts (cancel_g s og) = relacts s /\ panicked (cancel_g s og) = panicked s /\
  rootc (cancel_g s og) = rootc s.
Proof. unfold cancel_g. destruct og as [g|]; [destruct (nth_error (gs s) g)|]; repeat split; reflexivity. Qed.

Lemma cancel_g_gs s og :
  length (gs (cancel_g s og)) = length (gs s) /\
  forall i, gwait (getg (cancel_g s og) i) = gwait (getg s i) /\ gnonce (getg (cancel_g s og) i) = gnonce (getg s i) /\
            gpcv (getg (cancel_g s og) i) = gpcv (getg s i) /\ grel (getg (cancel_g s og) i) = grel (getg s i) /\
            gent (getg (cancel_g s og) i) = gent (getg s i) /\
            (gcanc (getg s i) = true -> gcanc (getg (cancel_g s og) i) = true) /\
            groot (getg (cancel_g s og) i) = groot (getg s i).
Proof.
  unfold cancel_g. destruct og as [g|]; [|split; [reflexivity | intros i; repeat split; auto]].
  destruct (nth_error (gs s) g) as [x|] eqn:E; [|split; [reflexivity | intros i; repeat split; auto]].
  destruct (getg_nth_error s g x E) as [Eg Hl].
  split; [apply length_gs_setg|]. intros i. destruct (Nat.eq_dec i g) as [->|Hne].
  - rewrite getg_setg_same by exact Hl. rewrite Eg. cbn. repeat split; auto.
  - rewrite getg_setg_other by exact Hne. repeat split; auto.
Qed.

(* ------------------------------------------------------------------ *)
(* what a notification does to the references *)
Definition nonnil (k : cbkind) : bool := match k with KNil => false | _ => true end.

(* l' is l after the references selected by P have been told n *)
Definition told (P : nat -> ref -> bool) (n : notif) (l l' : list ref) : Prop :=
  length l' = length l /\
  forall r x, nth_error l r = Some x ->
    exists x', nth_error l' r = Some x' /\ rin x' = rin x /\ rkind x' = rkind x /\
               rlast x' = if P r x && nonnil (rkind x) then Some n else rlast x.

Lemma told_back P n l l' r x' : told P n l l' -> nth_error l' r = Some x' ->
  exists x, nth_error l r = Some x /\ rin x' = rin x /\ rkind x' = rkind x /\
            rlast x' = if P r x && nonnil (rkind x) then Some n else rlast x.
Proof.
  intros [HL HT] Hx'. assert (Hr : r < length l) by (rewrite <- HL; eapply nth_error_nth_len; eauto).
  destruct (nth_error l r) as [x|] eqn:E; [|apply nth_error_None in E; lia].
  destruct (HT r x E) as [y [Hy R]]. exists x. split; [reflexivity|]. congruence.
Qed.

Lemma told_refl P n l : (forall r x, nth_error l r = Some x -> P r x && nonnil (rkind x) = false) -> told P n l l.
Proof. intros H. split; [reflexivity|]. intros r x Hx. exists x. rewrite (H r x Hx). auto. Qed.

Lemma told_set_nth P n l r0 x y :
  nth_error l r0 = Some x -> rin y = rin x -> rkind y = rkind x ->
  rlast y = (if P r0 x && nonnil (rkind x) then Some n else rlast x) ->
  (forall r z, r <> r0 -> nth_error l r = Some z -> P r z && nonnil (rkind z) = false) ->
  told P n l (set_nth l r0 y).
Proof.
  intros Hx H1 H2 H3 HP. split; [apply length_set_nth|]. intros r z Hz.
  assert (Hl : r0 < length l) by (eapply nth_error_nth_len; eauto).
  destruct (Nat.eq_dec r r0) as [->|Hne].
  - exists y. rewrite nth_error_set_nth_same by exact Hl. assert (z = x) by congruence. subst z. auto.
  - exists z. rewrite nth_error_set_nth_other by exact Hne. rewrite (HP r z Hne Hz). auto.
Qed.

Definition only (r0 : nat) (r : nat) (x : ref) : bool := Nat.eqb r r0.

Lemma only_other r0 r (z : ref) k : r <> r0 -> only r0 r z && k = false.
Proof. intros H. unfold only. destruct (Nat.eqb_spec r r0); [contradiction | reflexivity]. Qed.

Lemma told_set_last s r n x : nth_error (refs s) r = Some x -> rkind x <> KNil -> told (only r) n (refs s) (refs (set_last s r n)).
Proof.
  intros Hx Hk. rewrite (set_last_refs s r n x Hx). apply (told_set_nth (only r) n (refs s) r x); auto.
  - cbn [rlast]. unfold only. rewrite Nat.eqb_refl. destruct (rkind x); [contradiction|..]; reflexivity.
  - intros q z Hq _. now apply only_other.
Qed.

Lemma told_invoke s r n : told (only r) n (refs s) (refs (invoke s r n)).
Proof.
  unfold invoke. destruct (nth_error (refs s) r) as [x|] eqn:E.
  2:{ apply told_refl. intros q z Hz. apply only_other. intros ->. congruence. }
  destruct (rkind x) as [| | |c|c|c] eqn:K.
  - apply told_refl. intros q z Hz. unfold only. destruct (Nat.eqb_spec q r) as [->|]; [|reflexivity].
    assert (z = x) by congruence. subst z. now rewrite K.
  - apply (told_set_last s r n x E); rewrite K; discriminate.
  - assert (T : told (only r) n (refs s) (refs (set_last s r n))) by (apply (told_set_last s r n x E); rewrite K; discriminate).
    destruct n; [exact T|]. rewrite refs_set_asyncs. exact T.
  - rewrite refs_setc. apply (told_set_last s r n x E); rewrite K; discriminate.
  - destruct (cb_wwr (getc (set_last s r n) c) n (nonce (set_last s r n))) as [y fired].
    assert (T : told (only r) n (refs s) (refs (set_last s r n))) by (apply (told_set_last s r n x E); rewrite K; discriminate).
    destruct fired; [destruct (rflag x)|]; rewrite refs_setc; try exact T.
    cbn [refs set_refs]. rewrite (set_last_refs s r n x E).
    assert (Hl : r < length (refs s)) by (eapply nth_error_nth_len; eauto).
    split; [now rewrite !length_set_nth|]. intros q z Hz. destruct (Nat.eq_dec q r) as [->|Hne].
    + rewrite nth_error_set_nth_same by (now rewrite length_set_nth). assert (z = x) by congruence. subst z.
      eexists. split; [reflexivity|]. cbn [rin rkind rlast]. unfold only. rewrite Nat.eqb_refl, K. auto.
    + rewrite !nth_error_set_nth_other by exact Hne. exists z. rewrite (only_other r q z _ Hne). auto.
  - rewrite refs_setc. apply (told_set_last s r n x E); rewrite K; discriminate.
Qed.

Definition insel (rs : list nat) (r : nat) (x : ref) : bool := existsb (Nat.eqb r) rs && rin x.

Lemma told_trans_step rs r0 n l l1 l2 :
  told (fun r x => Nat.eqb r r0 && rin x) n l l1 -> told (insel rs) n l1 l2 -> told (insel (r0 :: rs)) n l l2.
Proof.
  intros [L1 T1] [L2 T2]. split; [congruence|]. intros r x Hx.
  destruct (T1 r x Hx) as [x1 [Hx1 [A1 [A2 A3]]]]. destruct (T2 r x1 Hx1) as [x2 [Hx2 [B1 [B2 B3]]]].
  exists x2. split; [exact Hx2|]. split; [congruence|]. split; [congruence|].
  unfold insel in *. cbv beta in A3. cbn [existsb]. rewrite B3, A3, A1, A2.
  destruct (Nat.eqb r r0), (existsb (Nat.eqb r) rs), (rin x), (nonnil (rkind x)); reflexivity.
Qed.

Lemma told_cbs_fold n rs : forall s, told (insel rs) n (refs s) (refs (fold_left (cbs_fold n) rs s)).
Proof.
  induction rs as [|r0 rs IH]; intros s.
  - apply told_refl. intros r x _. reflexivity.
  - cbn [fold_left]. apply (told_trans_step rs r0 n _ (refs (cbs_fold n s r0))); [|apply IH].
    unfold cbs_fold. destruct (rin (nth r0 (refs s) ref0)) eqn:Er.
    + destruct (told_invoke s r0 n) as [L T]. split; [exact L|]. intros r x Hx. destruct (T r x Hx) as [x' [Hx' [A1 [A2 A3]]]].
      exists x'. split; [exact Hx'|]. split; [exact A1|]. split; [exact A2|]. rewrite A3. unfold only.
      destruct (Nat.eqb_spec r r0) as [->|]; [|reflexivity]. rewrite (nth_error_nth_d _ _ ref0 _ Hx) in Er. now rewrite Er.
    + apply told_refl. intros r x Hx. destruct (Nat.eqb_spec r r0) as [->|]; [|reflexivity].
      rewrite (nth_error_nth_d _ _ ref0 _ Hx) in Er. now rewrite Er.
Qed.

Lemma existsb_seq r n : r < n -> existsb (Nat.eqb r) (seq 0 n) = true.
Proof. intros H. apply existsb_exists. exists r. split; [apply in_seq; lia | apply Nat.eqb_refl]. Qed.

Definition inset (r : nat) (x : ref) : bool := rin x.

Lemma told_call_cbs s n : told inset n (refs s) (refs (call_cbs s n)).
Proof.
  rewrite call_cbs_fold. destruct (told_cbs_fold n (seq 0 (length (refs s))) s) as [L T]. split; [exact L|].
  intros r x Hx. destruct (T r x Hx) as [x' [Hx' [A1 [A2 A3]]]]. exists x'. split; [exact Hx'|]. split; [exact A1|]. split; [exact A2|].
  rewrite A3. unfold insel, inset. rewrite existsb_seq by (eapply nth_error_nth_len; eauto). reflexivity.
Qed.

(* ------------------------------------------------------------------ *)
(* clearResolvedState, field by field *)
Lemma cancel_g_gs_congr s1 s og : gs s1 = gs s -> gs (cancel_g s1 og) = gs (cancel_g s og).
Proof.
  intros E. unfold cancel_g. destruct og as [g|]; [|exact E]. rewrite E.
  destruct (nth_error (gs s) g); [|exact E]. rewrite !gs_setg. now rewrite E.
Qed.

Definition rel_entry (s s' : st) (id : nat) : relcall :=
  {| rc_id := id; rc_val := value s; rc_target := target s';
     rc_stale := cnt (fun x => rin x && is_res (value s) (verr s) (rlast x)) (refs s') |}.

Lemma clear_resolved_spec s :
  let s' := clear_resolved s in
  kctx s' = kctx s /\ keep s' = keep s /\ nonce s' = nonce s /\
  (if resolved s then told inset NGone (refs s) (refs s') else refs s' = refs s) /\
  gs s' = gs (cancel_g s (rcancel s)) /\
  resolved s' = false /\ vrel s' = None /\ vgen s' = vgen s /\
  value s' = (if resolved s then 0 else value s) /\ verr s' = (if resolved s then 0 else verr s) /\
  target s' = (if resolved s then (if Nat.eqb (value s) 0 then target s else 0) else target s) /\
  terr s' = (if resolved s then (if Nat.eqb (verr s) 0 then terr s else 0) else terr s) /\
  rellog s' = (match vrel s with Some id => rellog s ++ [rel_entry s s' id] | None => rellog s end) /\
  waitch s' = waitch s /\ panicked s' = panicked s /\ relacts s' = relacts s /\ rootc s' = rootc s.
Proof.
  unfold clear_resolved. destruct (resolved s) eqn:Er.
  - set (sA := set_val (set_target s _ _) false 0 0 _ _). set (s1 := call_cbs sA NGone).
    destruct (rest_fields sA s1 (rest_call_cbs sA NGone)) as [F1 [F2 [F3 [F4 [F5 [F6 [F7 [F8 [F9 [F10 [F11 [F12 [F13 [F14 [F15 [F16 F17]]]]]]]]]]]]]]]].
    destruct (cancel_g_rest s1 (rcancel s1)) as [G1 [G2 [G3 [G4 [G5 [G6 [G7 [G8 [G9 [G10 [G11 [G12 [G13 [G14 [G15 [G16 [G17 [G18 G19]]]]]]]]]]]]]]]]]].
    assert (T : told inset NGone (refs s) (refs s1)) by (apply (told_call_cbs sA NGone)).
    assert (EG : gs (cancel_g s1 (rcancel s1)) = gs (cancel_g s (rcancel s))) by (rewrite F3; apply cancel_g_gs_congr; exact F13).
    clearbody s1. subst sA.
    cbn [kctx keep rcancel nonce waitch resolved value verr vrel vgen target terr gs rellog relacts panicked rootc set_val set_target] in F1, F2, F3, F4, F5, F6, F7, F8, F9, F10, F11, F12, F13, F14, F15, F16, F17.
    unfold rel_entry.
    cbn [vrel set_rcancel]. rewrite G10, F9.
    destruct (vrel s) as [id|] eqn:Ev;
      cbn [kctx keep refs rcancel nonce waitch resolved value verr vrel vgen target terr gs rellog relacts panicked rootc set_val set_rellog log_release set_rcancel];
      rewrite ?G10, ?F9, ?G1, ?G2, ?G3, ?G5, ?G6, ?G7, ?G8, ?G9, ?G11, ?G12, ?G13, ?G14, ?G17, ?G18, ?G19,
        ?F1, ?F2, ?F4, ?F5, ?F6, ?F7, ?F8, ?F10, ?F11, ?F12, ?F14, ?F15, ?F16, ?F17; repeat split; try reflexivity; try apply T; try exact EG; try exact Ev.
  - destruct (cancel_g_rest s (rcancel s)) as [G1 [G2 [G3 [G4 [G5 [G6 [G7 [G8 [G9 [G10 [G11 [G12 [G13 [G14 [G15 [G16 [G17 [G18 G19]]]]]]]]]]]]]]]]]].
    unfold rel_entry. cbn [vrel set_rcancel]. rewrite G10.
    destruct (vrel s) as [id|] eqn:Ev;
      cbn [kctx keep refs rcancel nonce waitch resolved value verr vrel vgen target terr gs rellog relacts panicked rootc set_val set_rellog log_release set_rcancel];
      rewrite ?G10, ?F9, ?G1, ?G2, ?G3, ?G5, ?G6, ?G7, ?G8, ?G9, ?G11, ?G12, ?G13, ?G14, ?G17, ?G18, ?G19;
      repeat split; try reflexivity; try exact Er; try exact Ev.
Qed.

(* ------------------------------------------------------------------ *)
(* The invariant.  [Core] does not mention the context or the number of references; [Live] does. *)
Definition ids (s : st) : list nat := map rc_id (rellog s).

(* nonces: bounded by the container's, strictly increasing along the goroutines; a cancelled goroutine is superseded, or
   its root context was cancelled by its owner *)
Definition InvN (s : st) : Prop := forall i, i < length (gs s) ->
  gnonce (getg s i) <= nonce s /\
  (gcanc (getg s i) = true -> gnonce (getg s i) < nonce s \/ rcanc s (groot (getg s i)) = true) /\
  (forall j, j < i -> gnonce (getg s j) < gnonce (getg s i)).

Definition InvS (s : st) : Prop := forall i, i < length (gs s) ->
  (forall v hr e, gpcv (getg s i) = GStore v hr e -> val_ok i v e /\ grel (getg s i) = hr) /\
  (gpcv (getg s i) = GWaitC -> gcanc (getg s i) = true).

Definition entry_ok (s : st) (c : relcall) : Prop :=
  (rc_val c = S (rc_id c) \/ rc_val c = 0) /\ rc_target c <> S (rc_id c) /\ rc_stale c = 0 /\ rc_id c < length (gs s) /\
  gdone (getg s (rc_id c)) = true /\ grel (getg s (rc_id c)) = true.

Definition InvL123 (s : st) : Prop :=
  NoDup (ids s) /\
  (forall c, In c (rellog s) -> entry_ok s c) /\
  (forall g, vrel s = Some g -> ~ In g (ids s) /\ g < length (gs s) /\ gdone (getg s g) = true /\ grel (getg s g) = true).

(* every release function that was returned is at its store gate, stored, or called *)
Definition InvL4 (s : st) : Prop :=
  forall g, g < length (gs s) -> grel (getg s g) = true ->
    (exists v e, gpcv (getg s g) = GStore v true e) \/ vrel s = Some g \/ In g (ids s).

Definition InvV (s : st) : Prop :=
  (resolved s = true -> val_ok (vgen s) (value s) (verr s) /\ vgen s < length (gs s) /\ gdone (getg s (vgen s)) = true /\
                        gnonce (getg s (vgen s)) = nonce s) /\
  (resolved s = false -> vrel s = None /\ value s = 0 /\ verr s = 0 /\ target s = 0 /\ terr s = 0) /\
  (forall g, vrel s = Some g -> g = vgen s) /\
  (resolved s = true -> (verr s = 0 -> target s = value s /\ terr s = 0) /\ (verr s <> 0 -> target s = 0 /\ terr s = verr s)).

Definition InvR (s : st) : Prop :=
  (forall r x, nth_error (refs s) r = Some x -> rkind x = KNil -> rlast x = None) /\
  ((forall r x v e, nth_error (refs s) r = Some x -> rlast x = Some (NRes v e) ->
      v = 0 \/ exists g, v = S g /\ g < length (gs s) /\ gdone (getg s g) = true) /\
   (* while nothing is resolved no reference in the set believes in a result *)
   (resolved s = false -> forall r x v e, nth_error (refs s) r = Some x -> rin x = true -> rlast x <> Some (NRes v e))) /\
  (resolved s = true -> forall r x, nth_error (refs s) r = Some x -> rin x = true -> rkind x <> KNil ->
     rlast x = Some (NRes (value s) (verr s))).

Definition Core (s : st) : Prop := InvN s /\ InvS s /\ InvL123 s /\ InvL4 s /\ InvV s /\ InvR s.

Definition Live (s : st) : Prop :=
  (forall g, g < length (gs s) -> gnonce (getg s g) = nonce s -> gdone (getg s g) = false ->
     kctx s <> 0 /\ nrefs s > 0 /\ resolved s = false) /\
  (resolved s = true -> kctx s <> 0 /\ (nrefs s > 0 \/ (keep s = true /\ verr s = 0))) /\
  (kctx s <> 0 -> nrefs s > 0 -> resolved s = false -> rcanc s (kctx s) = false ->
     exists g, g < length (gs s) /\ gnonce (getg s g) = nonce s /\ gdone (getg s g) = false) /\
  (forall g, g < length (gs s) -> gnonce (getg s g) = nonce s -> groot (getg s g) = kctx s).

Definition Inv (s : st) : Prop := Core s /\ Live s.

Definition cfields (s : st) :=
  (gs s, nonce s, rellog s, (resolved s, value s, verr s, vrel s, vgen s), (target s, terr s), refs s, rootc s).
Definition lfields (s : st) := (gs s, nonce s, kctx s, keep s, resolved s, verr s, nrefs s, rootc s).

Lemma Core_ext s s' : cfields s' = cfields s -> Core s -> Core s'.
Proof.
  unfold cfields. intros E H. inversion E as [[E1 E2 E3 E4 E5 E6 E7 E8 E9 E10 E11 E12]].
  unfold Core, InvN, InvS, InvL123, InvL4, entry_ok, InvV, InvR, ids, getg, rcanc in *.
  rewrite E1, E2, E3, E4, E5, E6, E7, E8, E9, E10, E11, E12. exact H.
Qed.

Lemma Live_ext s s' : lfields s' = lfields s -> Live s -> Live s'.
Proof.
  unfold lfields. intros E H. inversion E as [[E1 E2 E3 E4 E5 E6 E7 E8]].
  unfold Live, getg, rcanc in *. rewrite E1, E2, E3, E4, E5, E6, E7, E8. exact H.
Qed.

Definition cfields0 (s : st) :=
  (gs s, nonce s, rellog s, (resolved s, value s, verr s, vrel s, vgen s), (target s, terr s), rootc s).

Lemma Core_refs s s' : cfields0 s' = cfields0 s -> InvR s' -> Core s -> Core s'.
Proof.
  unfold cfields0. intros E HR' [HN [HS [HL [HL4 [HV HR]]]]]. inversion E as [[E1 E2 E3 E4 E5 E6 E7 E8 E9 E10 E11]].
  unfold Core. split; [|split; [|split; [|split; [|split; [|exact HR']]]]]; clear HR HR';
    unfold InvN, InvS, InvL123, InvL4, entry_ok, InvV, ids, getg, rcanc in *; rewrite E1, ?E2, ?E3, ?E4, ?E5, ?E6, ?E7, ?E8, ?E9, ?E10, ?E11; assumption.
Qed.

Lemma Inv_ext s s' : cfields s' = cfields s -> lfields s' = lfields s -> Inv s -> Inv s'.
Proof. intros E1 E2 [H1 H2]. split; [now apply (Core_ext s) | now apply (Live_ext s)]. Qed.

Lemma init_inv k : Inv (init k).
Proof.
  unfold Inv, Core, Live, InvN, InvS, InvL123, InvL4, InvV, InvR, ids, init, nrefs. cbn.
  repeat split; try (intros; lia); try discriminate; try (intros; discriminate); try constructor; try contradiction.
  all: try (intros [|r] x H; discriminate). all: try (intros [|r] x v e H; discriminate).
  all: try (intros _ [|r] x v e H; discriminate).
  all: intros; try lia.
  all: match goal with H : nth_error [] ?r = Some _ |- _ => destruct r; discriminate end.
Qed.

(* ------------------------------------------------------------------ *)
(* shutdown *)
Definition gsame (s s' : st) : Prop :=
  length (gs s') = length (gs s) /\
  forall i, gwait (getg s' i) = gwait (getg s i) /\ gnonce (getg s' i) = gnonce (getg s i) /\
            gpcv (getg s' i) = gpcv (getg s i) /\ grel (getg s' i) = grel (getg s i) /\
            gent (getg s' i) = gent (getg s i) /\
            (gcanc (getg s i) = true -> gcanc (getg s' i) = true) /\
            groot (getg s' i) = groot (getg s i).

Lemma gsame_gdone s s' i : gsame s s' -> gdone (getg s' i) = gdone (getg s i).
Proof. intros [_ H]. destruct (H i) as [_ [_ [E _]]]. unfold gdone. now rewrite E. Qed.

Lemma shutdown_spec s :
  let s' := shutdown s in
  kctx s' = kctx s /\ keep s' = keep s /\ nonce s' = S (nonce s) /\
  (if resolved s then told inset NGone (refs s) (refs s') else refs s' = refs s) /\
  gsame s s' /\
  resolved s' = false /\ vrel s' = None /\ vgen s' = vgen s /\
  value s' = (if resolved s then 0 else value s) /\ verr s' = (if resolved s then 0 else verr s) /\
  target s' = (if resolved s then (if Nat.eqb (value s) 0 then target s else 0) else target s) /\
  terr s' = (if resolved s then (if Nat.eqb (verr s) 0 then terr s else 0) else terr s) /\
  rellog s' = (match vrel s with
               | Some id => rellog s ++ [{| rc_id := id; rc_val := value s; rc_target := target s';
                                            rc_stale := cnt (fun x => rin x && is_res (value s) (verr s) (rlast x)) (refs s') |}]
               | None => rellog s end) /\
  waitch s' = waitch s /\ panicked s' = panicked s /\ relacts s' = relacts s /\ rootc s' = rootc s.
Proof.
  unfold shutdown. set (s0 := set_nonce s (S (nonce s))).
  destruct (clear_resolved_spec s0) as [C1 [C2 [C3 [C4 [C5 [C6 [C7 [C8 [C9 [C10 [C11 [C12 [C13 [C14 [C15 [C16 C17]]]]]]]]]]]]]]]].
  unfold rel_entry in C13.
  assert (EG : gs (cancel_g s0 (rcancel s0)) = gs (cancel_g s (rcancel s))) by (apply cancel_g_gs_congr; reflexivity).
  rewrite EG in C5. clear EG. subst s0. cbv zeta.
  cbn [kctx keep refs rcancel nonce waitch resolved value verr vrel vgen target terr gs rellog relacts panicked rootc set_nonce] in C1, C2, C3, C4, C5, C6, C7, C8, C9, C10, C11, C12, C13, C14, C15, C16, C17.
  set (s' := clear_resolved (set_nonce s (S (nonce s)))) in *. clearbody s'.
  assert (GS : gsame s s').
  { destruct (cancel_g_gs s (rcancel s)) as [L F]. unfold gsame, getg in *. rewrite C5. split; [exact L | exact F]. }
  split; [exact C1|]. split; [exact C2|]. split; [exact C3|]. split; [exact C4|]. split; [exact GS|]. split; [exact C6|].
  split; [exact C7|]. split; [exact C8|]. split; [exact C9|]. split; [exact C10|]. split; [exact C11|]. split; [exact C12|].
  split; [exact C13|]. split; [exact C14|]. split; [exact C15|]. split; [exact C16 | exact C17].
Qed.

Lemma NoDup_snoc {A} (l : list A) a : NoDup l -> ~ In a l -> NoDup (l ++ [a]).
Proof.
  intros H Ha. induction H as [|x l Hx H IH]; simpl; [constructor; [intros []|constructor]|].
  constructor.
  - intros Hin. apply in_app_or in Hin. destruct Hin as [Hin|[->|[]]]; [contradiction|]. apply Ha. now left.
  - apply IH. intros Hin. apply Ha. now right.
Qed.

Lemma told_map_rin P n l l' : told P n l l' -> map rin l' = map rin l.
Proof.
  intros [HL HT]. apply (nth_ext _ _ (rin ref0) (rin ref0)); [now rewrite !map_length|].
  intros r Hr. rewrite map_length in Hr. rewrite !map_nth.
  destruct (nth_error l r) as [x|] eqn:E; [|apply nth_error_None in E; lia].
  destruct (HT r x E) as [x' [Hx' [A1 _]]].
  now rewrite (nth_error_nth_d _ _ ref0 _ E), (nth_error_nth_d _ _ ref0 _ Hx').
Qed.

Lemma map_rin_nrefs l l' : map rin l' = map rin l -> cnt rin l' = cnt rin l.
Proof.
  intros H1. assert (E : forall m, cnt rin m = cnt (fun b : bool => b) (map rin m)) by (intros m; rewrite cnt_map; reflexivity).
  rewrite (E l'), (E l), H1. reflexivity.
Qed.

Lemma told_nrefs P n l l' : told P n l l' -> cnt rin l' = cnt rin l.
Proof. intros H. apply map_rin_nrefs. eapply told_map_rin; eauto. Qed.

Lemma shutdown_nrefs s : nrefs (shutdown s) = nrefs s.
Proof.
  destruct (shutdown_spec s) as [_ [_ [_ [C4 _]]]]. unfold nrefs. destruct (resolved s); [eapply told_nrefs; eauto | now rewrite C4].
Qed.

(* the references after shutdown, uniformly *)
Lemma shutdown_refs_back s r x' :
  nth_error (refs (shutdown s)) r = Some x' ->
  exists x, nth_error (refs s) r = Some x /\ rin x' = rin x /\ rkind x' = rkind x /\
            (rlast x' = rlast x \/ rlast x' = Some NGone) /\
            (rkind x = KNil -> rlast x' = rlast x) /\
            (resolved s = true -> rin x = true -> rkind x <> KNil -> rlast x' = Some NGone).
Proof.
  intros Hx'. destruct (shutdown_spec s) as [_ [_ [_ [C4 _]]]]. destruct (resolved s).
  - destruct (told_back _ _ _ _ _ _ C4 Hx') as [x [Hx [A1 [A2 A3]]]]. exists x. split; [exact Hx|]. split; [exact A1|]. split; [exact A2|].
    unfold inset in A3. split; [|split].
    + destruct (rin x && nonnil (rkind x)); auto.
    + intros K. rewrite K in A3. cbn [nonnil] in A3. now rewrite andb_false_r in A3.
    + intros _ Hin Hk. rewrite Hin in A3. destruct (rkind x); [contradiction|..]; exact A3.
  - rewrite C4 in Hx'. exists x'. repeat split; auto. discriminate.
Qed.

Lemma entry_ok_mono s s' c :
  length (gs s) <= length (gs s') ->
  (forall i, i < length (gs s) -> gdone (getg s i) = true -> gdone (getg s' i) = true) ->
  (forall i, i < length (gs s) -> gdone (getg s i) = true -> grel (getg s' i) = grel (getg s i)) ->
  entry_ok s c -> entry_ok s' c.
Proof.
  intros HL HD HG [E1 [E2 [E3 [E4 [E5 E6]]]]]. unfold entry_ok.
  split; [exact E1|]. split; [exact E2|]. split; [exact E3|]. split; [lia|]. split; [now apply HD|]. rewrite HG; auto.
Qed.

Lemma shutdown_core s : Core s -> Core (shutdown s).
Proof.
  intros [HN [HS [[L1 [L2 L3]] [HL4 [[V1 [V2 [V3 V5]]] [R1 [[R2 R4] R3]]]]]]].
  pose proof (shutdown_refs_back s) as RB.
  destruct (shutdown_spec s) as [C1 [C2 [C3 [C4 [GS [C6 [C7 [C8 [C9 [C10 [C11 [C12 [C13 [C14 [C15 C16]]]]]]]]]]]]]]].
  set (s' := shutdown s) in *. clearbody s'.
  assert (GD : forall i, gdone (getg s' i) = gdone (getg s i)) by (intros i; now apply gsame_gdone).
  destruct GS as [GL GF].
  assert (EM : forall c, entry_ok s c -> entry_ok s' c).
  { intros c. apply entry_ok_mono; [lia | intros i _ Hd; now rewrite GD | intros i _ _; apply GF]. }
  split; [|split; [|split; [|split; [|split]]]].
  - (* InvN *) intros i Hi. rewrite GL in Hi. destruct (HN i Hi) as [N1 [N2 N3]]. destruct (GF i) as [_ [En _]].
    rewrite En, C3. split; [lia|]. split; [intros _; lia|]. intros j Hj. destruct (GF j) as [_ [Ej _]]. rewrite Ej. now apply N3.
  - (* InvS *) intros i Hi. rewrite GL in Hi. destruct (HS i Hi) as [S1 S2]. destruct (GF i) as [_ [_ [Ep [Er [_ Ec]]]]].
    rewrite Ep, Er. split; [exact S1|]. intros Hp. apply Ec. now apply S2.
  - (* InvL123 *) split; [|split; [|intros g Hg; congruence]].
    + unfold ids. rewrite C13. destruct (vrel s) as [id|] eqn:Ev; [|exact L1].
      rewrite map_app. cbn [map rc_id]. apply NoDup_snoc; [exact L1 | apply (L3 id eq_refl)].
    + intros c Hc. rewrite C13 in Hc. destruct (vrel s) as [id|] eqn:Ev; [|apply EM, L2, Hc].
      apply in_app_or in Hc. destruct Hc as [Hc|[<-|[]]]; [apply EM, L2, Hc|].
      destruct (L3 id eq_refl) as [_ [Lid [Ldone Lrel]]].
      destruct (resolved s) eqn:Er; [|destruct (V2 eq_refl) as [X _]; congruence].
      destruct (V1 eq_refl) as [Ev1 _]. destruct (V5 eq_refl) as [_ T2]. rewrite (V3 id eq_refl) in *. unfold entry_ok. cbn [rc_id rc_val rc_target rc_stale].
      split; [destruct Ev1 as [Ev1|Ev1]; auto|]. split.
      { rewrite C11. destruct Ev1 as [Ev1|Ev1]; rewrite Ev1; cbn [Nat.eqb]; [discriminate|].
        destruct (V5 eq_refl) as [T1 _]. destruct (Nat.eq_dec (verr s) 0) as [E0|E0]; [destruct (T1 E0) as [T _] | destruct (T2 E0) as [T _]]; rewrite T; [rewrite Ev1|]; discriminate. }
      split.
      * apply cnt_zero_forall. intros x' Hin. destruct (In_nth_error _ _ Hin) as [r Hr].
        destruct (RB r x' Hr) as [x [Hx [A1 [A2 [_ [A4 A5]]]]]].
        destruct (rin x') eqn:Ein; [|reflexivity]. cbn [andb]. rewrite <- A1 in A5.
        destruct (rkind x) eqn:K.
        1:{ rewrite (A4 eq_refl), (R1 r x Hx K). reflexivity. }
        all: rewrite (A5 eq_refl eq_refl ltac:(discriminate)); reflexivity.
      * split; [lia|]. split; [now rewrite GD|]. destruct (GF (vgen s)) as [_ [_ [_ [E _]]]]. now rewrite E.
  - (* InvL4 *) intros g Hg Hr. rewrite GL in Hg. destruct (GF g) as [_ [_ [Ep [Er _]]]]. rewrite Er in Hr. rewrite Ep.
    destruct (HL4 g Hg Hr) as [H|[H|H]]; [now left | | ]; right; right; unfold ids; rewrite C13.
    + rewrite H, map_app. apply in_or_app. right. now left.
    + destruct (vrel s); [rewrite map_app; apply in_or_app; now left | exact H].
  - (* InvV *) split; [intros; congruence|]. split; [|split; [intros; congruence | intros; congruence]].
    intros _. split; [exact C7|]. rewrite C9, C10, C11, C12. destruct (resolved s) eqn:Er.
    + destruct (V1 eq_refl) as [Ev1 _]. destruct (V5 eq_refl) as [T1 T2].
      split; [reflexivity|]. split; [reflexivity|]. split.
      * destruct Ev1 as [Ev1|Ev1]; rewrite Ev1; cbn [Nat.eqb]; [reflexivity|].
        destruct (Nat.eq_dec (verr s) 0) as [E0|E0]; [destruct (T1 E0) as [T _]; congruence | apply (T2 E0)].
      * destruct (Nat.eqb_spec (verr s) 0) as [E0|E0]; [apply (T1 E0) | reflexivity].
    + destruct (V2 eq_refl) as [_ [X1 [X2 [X3 X4]]]]. auto.
  - (* InvR *) split; [|split; [split|intros; congruence]].
    + intros r x' Hx' K. destruct (RB r x' Hx') as [x [Hx [A1 [A2 [_ [A4 _]]]]]]. rewrite A2 in K. rewrite (A4 K). exact (R1 r x Hx K).
    + intros r x' v e Hx' Hl. destruct (RB r x' Hx') as [x [Hx [A1 [A2 [[A3|A3] _]]]]]; [|congruence].
      rewrite A3 in Hl. destruct (R2 r x v e Hx Hl) as [Z|[g [G1 [G2 G3]]]]; [now left|]. right. exists g. split; [exact G1|]. split; [lia|]. now rewrite GD.
    + intros _ r x' v e Hx' Hin Hl. destruct (RB r x' Hx') as [x [Hx [A1 [A2 [[A3|A3] [A4 A5]]]]]]; [|congruence]. rewrite A1 in Hin.
      destruct (resolved s) eqn:Er; [|rewrite A3 in Hl; exact (R4 eq_refl r x v e Hx Hin Hl)].
      destruct (rkind x) eqn:K.
      1:{ rewrite (A4 eq_refl), (R1 r x Hx K) in Hl. discriminate. }
      all: rewrite (A5 eq_refl Hin ltac:(discriminate)) in Hl; discriminate.
Qed.

Lemma shutdown_nonces_below s : InvN s -> forall i, i < length (gs (shutdown s)) -> gnonce (getg (shutdown s) i) < nonce (shutdown s).
Proof.
  intros HN i Hi. destruct (shutdown_spec s) as [_ [_ [C3 [_ [[GL GF] _]]]]]. rewrite GL in Hi.
  destruct (GF i) as [_ [En _]]. rewrite En, C3. destruct (HN i Hi) as [N1 _]. lia.
Qed.

Lemma Live_no_current s :
  (forall i, i < length (gs s) -> gnonce (getg s i) < nonce s) -> resolved s = false -> (kctx s = 0 \/ nrefs s = 0) -> Live s.
Proof.
  intros HB Hr Hz. split; [|split; [|split]].
  - intros g Hg En. specialize (HB g Hg). lia.
  - intros H. congruence.
  - intros H1 H2. destruct Hz; [contradiction | lia].
  - intros g Hg En. specialize (HB g Hg). lia.
Qed.

Lemma shutdown_resolved s : resolved (shutdown s) = false.
Proof. apply (shutdown_spec s). Qed.

Lemma shutdown_inv s : Core s -> (kctx s = 0 \/ nrefs s = 0) -> Inv (shutdown s).
Proof.
  intros H Hz. split; [now apply shutdown_core|]. destruct H as [HN _].
  apply Live_no_current; [now apply shutdown_nonces_below | apply shutdown_resolved|].
  rewrite shutdown_nrefs. destruct (shutdown_spec s) as [C1 _]. now rewrite C1.
Qed.

(* spawning a resolve goroutine *)
Lemma getg_spawn_old s x i : i < length (gs s) -> getg (set_gs s (gs s ++ [x])) i = getg s i.
Proof. intros H. unfold getg. cbn [gs set_gs]. now apply app_nth1. Qed.
Lemma getg_spawn_new s x : getg (set_gs s (gs s ++ [x])) (length (gs s)) = x.
Proof. unfold getg. cbn [gs set_gs]. rewrite app_nth2 by lia. now rewrite Nat.sub_diag. Qed.
Lemma length_spawn s x : length (gs (set_gs s (gs s ++ [x]))) = S (length (gs s)).
Proof. cbn [gs set_gs]. rewrite app_length. cbn [length]. lia. Qed.

Lemma Core_spawn s x :
  Core s -> gnonce x = nonce s -> (forall i, i < length (gs s) -> gnonce (getg s i) < nonce s) ->
  (gcanc x = true -> rcanc s (groot x) = true) -> gpcv x = GGate0 -> grel x = false -> Core (set_gs s (gs s ++ [x])).
Proof.
  intros [HN [HS [[L1 [L2 L3]] [HL4 [[V1 [V2 [V3 V5]]] [R1 [[R2 R4] R3]]]]]]] En HB Ec Ep Er.
  set (s' := set_gs s (gs s ++ [x])).
  assert (GO : forall i, i < length (gs s) -> getg s' i = getg s i) by (intros i Hi; now apply getg_spawn_old).
  assert (GNw : getg s' (length (gs s)) = x) by apply getg_spawn_new.
  assert (GL : length (gs s') = S (length (gs s))) by apply length_spawn.
  split; [|split; [|split; [|split; [|split]]]].
  - intros i Hi. rewrite GL in Hi. change (nonce s') with (nonce s). destruct (Nat.eq_dec i (length (gs s))) as [->|Hne].
    + rewrite GNw, En. split; [lia|]. split; [intros Hc; right; exact (Ec Hc)|]. intros j Hj. rewrite (GO j Hj). now apply HB.
    + assert (Hi' : i < length (gs s)) by lia. rewrite (GO i Hi'). destruct (HN i Hi') as [N1 [N2 N3]].
      split; [exact N1|]. split; [exact N2|]. intros j Hj. rewrite (GO j ltac:(lia)). now apply N3.
  - intros i Hi. rewrite GL in Hi. destruct (Nat.eq_dec i (length (gs s))) as [->|Hne].
    + rewrite GNw, Ep. split; intros; discriminate.
    + rewrite (GO i ltac:(lia)). apply HS. lia.
  - split; [exact L1|]. split.
    + intros c Hc. apply (entry_ok_mono s s'); [lia | intros i Hi Hd; now rewrite GO | intros i Hi _; now rewrite GO | now apply L2].
    + intros g Hg. destruct (L3 g Hg) as [A1 [A2 [A3 A4]]]. rewrite (GO g A2). split; [exact A1|]. split; [lia|]. auto.
  - intros g Hg Hr. rewrite GL in Hg. destruct (Nat.eq_dec g (length (gs s))) as [->|Hne].
    + rewrite GNw in Hr. congruence.
    + rewrite (GO g ltac:(lia)) in *. apply HL4; [lia | exact Hr].
  - split; [|split; [exact V2 | split; [exact V3 | exact V5]]].
    intros Hres. destruct (V1 Hres) as [A1 [A2 [A3 A4]]]. change (vgen s') with (vgen s). change (value s') with (value s).
    change (nonce s') with (nonce s). rewrite (GO _ A2). split; [exact A1|]. split; [lia|]. auto.
  - split; [exact R1|]. split; [split; [|exact R4]|exact R3].
    intros r y v e Hy Hl. destruct (R2 r y v e Hy Hl) as [Z|[g [G1 [G2 G3]]]]; [now left|]. right. exists g. rewrite (GO g G2). split; [exact G1|]. split; [lia | exact G3].
Qed.

Lemma Live_spawn s x :
  gnonce x = nonce s -> gpcv x = GGate0 -> groot x = kctx s -> kctx s <> 0 -> nrefs s > 0 -> resolved s = false ->
  (forall i, i < length (gs s) -> gnonce (getg s i) < nonce s) -> Live (set_gs s (gs s ++ [x])).
Proof.
  intros En Ep Egr Hk Hn Hr HB. set (s' := set_gs s (gs s ++ [x])).
  assert (GNw : getg s' (length (gs s)) = x) by apply getg_spawn_new.
  assert (GL : length (gs s') = S (length (gs s))) by apply length_spawn.
  split; [|split; [|split]].
  - intros g Hg Eg _. auto.
  - intros H. change (resolved s') with (resolved s) in H. congruence.
  - intros _ _ _ _. exists (length (gs s)). split; [lia|]. rewrite GNw. split; [exact En|]. unfold gdone. now rewrite Ep.
  - intros g Hg Eg. rewrite GL in Hg. destruct (Nat.eq_dec g (length (gs s))) as [->|Hne]; [now rewrite GNw|].
    unfold s' in Eg. rewrite getg_spawn_old in Eg by lia. specialize (HB g ltac:(lia)). change (nonce (set_gs s (gs s ++ [x]))) with (nonce s) in Eg. lia.
Qed.

Lemma start_resolve_inv s : Core s -> Inv (start_resolve s).
Proof.
  intros H. unfold start_resolve. pose proof (shutdown_core s H) as H1. destruct H as [HN _].
  pose proof (shutdown_nonces_below s HN) as HB. pose proof (shutdown_resolved s) as HR.
  set (s1 := shutdown s) in *. clearbody s1.
  destruct (Nat.eqb_spec (kctx s1) 0) as [Ek|Ek]; cbn [orb].
  - split; [exact H1|]. apply Live_no_current; auto.
  - destruct (Nat.eqb_spec (nrefs s1) 0) as [En|En].
    + split; [exact H1|]. apply Live_no_current; auto.
    + set (x := {| gcanc := rcanc s1 (kctx s1); gwait := waitch s1; gnonce := nonce s1; gpcv := GGate0; gent := false; grel := false;
                   groot := kctx s1 |}).
      apply (Inv_ext (set_gs s1 (gs s1 ++ [x]))); [reflexivity | reflexivity|]. split.
      * apply Core_spawn; auto.
      * apply Live_spawn; auto. lia.
Qed.

Lemma set_context_inv s c : Inv s -> Inv (fst (set_context s c)).
Proof.
  intros H. unfold set_context. destruct (Nat.eqb (kctx s) c); [exact H|]. cbn [fst].
  apply start_resolve_inv. destruct H as [H _]. now apply (Core_ext s).
Qed.

Lemma released_section_inv s n : Inv s -> Inv (released_section s n).
Proof. intros H. unfold released_section. destruct (Nat.eqb (nonce s) n); [apply start_resolve_inv, H | exact H]. Qed.

Lemma async_section_inv s a : Inv s -> Inv (async_section s a).
Proof.
  intros H. unfold async_section. destruct (nth_error (asyncs s) a) as [x|]; [|exact H].
  destruct (as_pc x); [|exact H]. apply released_section_inv. now apply (Inv_ext s).
Qed.

(* ------------------------------------------------------------------ *)
(* a goroutine moves to another program point *)
Section SetPc.
  Variables (s : st) (g : nat) (x : gor) (p : gpc).
  Hypothesis Hx : nth_error (gs s) g = Some x.
  Hypothesis Hnd : gdone x = false.
  Let s' := setg s g (with_gpc x p).

  Lemma setpc_len : length (gs s') = length (gs s). Proof. apply length_gs_setg. Qed.
  Lemma setpc_other i : i <> g -> getg s' i = getg s i. Proof. apply getg_setg_other. Qed.
  Lemma setpc_same : getg s' g = with_gpc x p.
  Proof. apply getg_setg_same. eapply nth_error_nth_len; eauto. Qed.
  Lemma setpc_old : getg s g = x. Proof. apply (getg_nth_error s g x Hx). Qed.
  Lemma setpc_done_same i : gdone (getg s i) = true -> getg s' i = getg s i.
  Proof. intros H. apply setpc_other. intros ->. rewrite setpc_old in H. congruence. Qed.
  Lemma setpc_nonce i : gnonce (getg s' i) = gnonce (getg s i) /\ gcanc (getg s' i) = gcanc (getg s i) /\ groot (getg s' i) = groot (getg s i).
  Proof.
    destruct (Nat.eq_dec i g) as [->|Hne]; [|rewrite setpc_other by exact Hne; auto].
    rewrite setpc_same, setpc_old. auto.
  Qed.

  Lemma setpc_core5 :
    (forall v hr e, p = GStore v hr e -> val_ok g v e) -> (p = GWaitC -> gcanc x = true) ->
    InvN s -> InvS s -> InvL123 s -> InvV s -> InvR s ->
    InvN s' /\ InvS s' /\ InvL123 s' /\ InvV s' /\ InvR s'.
  Proof.
    intros Hp1 Hp2 HN HS [L1 [L2 L3]] [V1 [V2 [V3 V5]]] [R1 [[R2 R4] R3]].
    pose proof setpc_len as GL. pose proof setpc_done_same as DS.
    split; [|split; [|split; [|split]]].
    - intros i Hi. rewrite GL in Hi. destruct (HN i Hi) as [N1 [N2 N3]]. destruct (setpc_nonce i) as [E1 [E2 E0]].
      rewrite E1, E2, E0. change (nonce s') with (nonce s). change (rcanc s') with (rcanc s). split; [exact N1|]. split; [exact N2|].
      intros j Hj. destruct (setpc_nonce j) as [E3 _]. rewrite E3. now apply N3.
    - intros i Hi. rewrite GL in Hi. destruct (Nat.eq_dec i g) as [->|Hne].
      + rewrite setpc_same. cbn [gpcv gcanc with_gpc]. split.
        * intros v hr e Ep. split; [exact (Hp1 v hr e Ep)|]. rewrite Ep. reflexivity.
        * exact Hp2.
      + rewrite setpc_other by exact Hne. now apply HS.
    - split; [exact L1|]. split.
      + intros c Hc. apply (entry_ok_mono s s'); [rewrite GL; lia | intros i _ Hd; now rewrite DS | intros i _ Hd; now rewrite DS | now apply L2].
      + intros g' Hg'. destruct (L3 g' Hg') as [A1 [A2 [A3 A4]]]. rewrite (DS g' A3). rewrite GL. auto.
    - split; [|split; [exact V2 | split; [exact V3 | exact V5]]].
      intros Hres. destruct (V1 Hres) as [A1 [A2 [A3 A4]]]. change (vgen s') with (vgen s). change (value s') with (value s).
      change (nonce s') with (nonce s). rewrite (DS _ A3), GL. auto.
    - split; [exact R1|]. split; [split; [|exact R4]|exact R3].
      intros r y v e Hy Hl. destruct (R2 r y v e Hy Hl) as [Z|[g' [G1 [G2 G3]]]]; [now left|]. right. exists g'. rewrite (DS g' G3), GL. auto.
  Qed.

  Lemma setpc_L4 :
    (forall v e, gpcv x <> GStore v true e) -> InvL123 s -> InvL4 s -> InvL4 s'.
  Proof.
    intros Hns [L1 [L2 L3]] HL4 i Hi Hr. rewrite setpc_len in Hi. change (vrel s') with (vrel s). change (ids s') with (ids s).
    destruct (Nat.eq_dec i g) as [->|Hne]; [|rewrite setpc_other in * by exact Hne; now apply HL4].
    rewrite setpc_same in *. cbn [grel gpcv with_gpc] in *.
    assert (Hold : grel x = true -> vrel s = Some g \/ In g (ids s) -> False).
    { intros _ [Hv|Hin].
      - destruct (L3 g Hv) as [_ [_ [A3 _]]]. rewrite setpc_old in A3. congruence.
      - unfold ids in Hin. apply in_map_iff in Hin. destruct Hin as [c [Ec Hc]]. destruct (L2 c Hc) as [_ [_ [_ [_ [A5 _]]]]].
        rewrite Ec, setpc_old in A5. congruence. }
    assert (Hx0 : grel x = true -> False).
    { intros Hgr. rewrite <- setpc_old in Hgr. destruct (HL4 g Hi Hgr) as [[v [e H]]|H]; [rewrite setpc_old in H; exact (Hns v e H)|].
      rewrite setpc_old in Hgr. exact (Hold Hgr H). }
    destruct p; try (exfalso; exact (Hx0 Hr)). subst hasrel. left. eauto.
  Qed.

  Lemma setpc_live : (gdone (with_gpc x p) = true -> gnonce x <> nonce s \/ rcanc s (kctx s) = true) -> Live s -> Live s'.
  Proof.
    intros Hd [N3 [K [P N4]]]. split; [|split; [exact K|split]].
    - intros i Hi En Hnd'. rewrite setpc_len in Hi. destruct (setpc_nonce i) as [E1 _]. rewrite E1 in En. change (nonce s') with (nonce s) in En.
      apply (N3 i Hi En). destruct (Nat.eq_dec i g) as [->|Hne]; [now rewrite setpc_old | now rewrite setpc_other in Hnd'].
    - intros H1 H2 H3 H4. destruct (P H1 H2 H3 H4) as [w [W1 [W2 W3]]]. exists w. rewrite setpc_len. split; [exact W1|].
      destruct (setpc_nonce w) as [E1 _]. rewrite E1. split; [exact W2|].
      destruct (Nat.eq_dec w g) as [->|Hne]; [|now rewrite setpc_other].
      rewrite setpc_same. rewrite setpc_old in W2. destruct (gdone (with_gpc x p)) eqn:E; [|reflexivity]. exfalso.
      change (rcanc s' (kctx s')) with (rcanc s (kctx s)) in H4. destruct (Hd eq_refl) as [D|D]; [contradiction | congruence].
    - intros i Hi En. rewrite setpc_len in Hi. destruct (setpc_nonce i) as [E1 [_ E3]]. rewrite E1 in En. rewrite E3. exact (N4 i Hi En).
  Qed.

  Lemma setpc_inv :
    (forall v hr e, p = GStore v hr e -> val_ok g v e) -> (p = GWaitC -> gcanc x = true) ->
    (forall v e, gpcv x <> GStore v true e) -> (gdone (with_gpc x p) = true -> gnonce x <> nonce s \/ rcanc s (kctx s) = true) ->
    Inv s -> Inv s'.
  Proof.
    intros Hp1 Hp2 Hns Hd [[HN [HS [HL [HL4 [HV HR]]]]] HLive].
    destruct (setpc_core5 Hp1 Hp2 HN HS HL HV HR) as [A1 [A2 [A3 [A4 A5]]]].
    split; [|now apply setpc_live]. split; [exact A1|]. split; [exact A2|]. split; [exact A3|]. split; [now apply setpc_L4|]. split; assumption.
  Qed.
End SetPc.

Lemma move_inv s g x p :
  Inv s -> nth_error (gs s) g = Some x -> (gpcv x = GGate0 \/ gpcv x = GWait \/ gpcv x = GWaitC) ->
  (p = GInRes \/ p = GWait \/ ((p = GWaitC \/ p = GDone) /\ gcanc x = true)) -> Inv (setg s g (with_gpc x p)).
Proof.
  intros H Hx Hpc Hp.
  assert (Hnd : gdone x = false) by (unfold gdone; destruct Hpc as [->|[->| ->]]; reflexivity).
  apply (setpc_inv s g x p Hx Hnd); [| | | |exact H].
  - intros v hr e ->. destruct Hp as [Hp|[Hp|[[Hp|Hp] _]]]; discriminate.
  - intros ->. destruct Hp as [Hp|[Hp|[_ Hp]]]; [discriminate | discriminate | exact Hp].
  - intros v e Hc. destruct Hpc as [Hq|[Hq|Hq]]; congruence.
  - intros Hd. destruct Hp as [->|[->|[_ Hc]]]; [discriminate | discriminate |].
    destruct H as [[HN _] [_ [_ [_ N4]]]]. destruct (getg_nth_error s g x Hx) as [Eg Hl]. destruct (HN g Hl) as [_ [N2 _]]. rewrite Eg in N2.
    destruct (N2 Hc) as [D|D]; [left; lia|]. destruct (Nat.eq_dec (gnonce x) (nonce s)) as [E|E]; [|now left].
    right. rewrite <- Eg in E. rewrite <- (N4 g Hl E), Eg. exact D.
Qed.

Lemma proceed_go_inv s g x (en : bool) :
  Inv s -> nth_error (gs s) g = Some x -> (gpcv x = GGate0 \/ gpcv x = GWait) ->
  Inv (match gwait x with
       | None => setg s g (with_gpc x GInRes)
       | Some _ =>
         if pred_done s x && gcanc x then (if en then setg s g (with_gpc x GInRes) else setg s g (with_gpc x GDone))
         else if pred_done s x then setg s g (with_gpc x GInRes)
         else if gcanc x then (if fx_wait repaired then setg s g (with_gpc x GWaitC) else setg s g (with_gpc x GDone))
         else setg s g (with_gpc x GWait)
       end).
Proof.
  intros H Hx Hpc. assert (Hpc' : gpcv x = GGate0 \/ gpcv x = GWait \/ gpcv x = GWaitC) by (destruct Hpc; auto).
  destruct (gwait x) as [j|]; [|apply move_inv; auto].
  destruct (pred_done s x); cbn [andb].
  - destruct (gcanc x) eqn:Ec; [destruct en|]; apply move_inv; auto.
  - destruct (gcanc x) eqn:Ec; cbn [fx_wait repaired]; apply move_inv; auto.
Qed.

Lemma proceed_inv s g en : Inv s -> Inv (proceed repaired s g en).
Proof.
  intros H. unfold proceed. destruct (nth_error (gs s) g) as [x|] eqn:Ex; [|exact H].
  destruct (gpcv x) eqn:Ep; try exact H.
  - apply proceed_go_inv; auto.
  - destruct (pred_done s x || gcanc x); [|exact H]. apply proceed_go_inv; auto.
  - destruct (pred_done s x); [|exact H]. apply move_inv; auto. right. right. split; [now right|].
    destruct H as [[_ [HS _]] _]. destruct (getg_nth_error s g x Ex) as [Eg Hl]. destruct (HS g Hl) as [_ S2]. rewrite Eg in S2. now apply S2.
Qed.

Lemma resolver_return_inv s g v hr e : val_ok g v e -> Inv s -> Inv (resolver_return s g v hr e).
Proof.
  intros Hv H. unfold resolver_return. destruct (nth_error (gs s) g) as [x|] eqn:Ex; [|exact H].
  destruct (gpcv x) eqn:Ep; try exact H.
  assert (Hnd : gdone x = false) by (unfold gdone; now rewrite Ep).
  apply (setpc_inv s g x _ Ex Hnd); [| | | |exact H].
  - intros v' hr' e' E. inversion E. congruence.
  - discriminate.
  - intros v' e' Hc. congruence.
  - discriminate.
Qed.

(* ------------------------------------------------------------------ *)
(* the store section *)
Lemma InvN_inj s i j : InvN s -> i < length (gs s) -> j < length (gs s) -> gnonce (getg s i) = gnonce (getg s j) -> i = j.
Proof.
  intros HN Hi Hj E. destruct (Nat.lt_trichotomy i j) as [H|[H|H]]; [|exact H|].
  - destruct (HN j Hj) as [_ [_ N3]]. specialize (N3 i H). lia.
  - destruct (HN i Hi) as [_ [_ N3]]. specialize (N3 j H). lia.
Qed.

Lemma in_ids_done s g : InvL123 s -> In g (ids s) -> g < length (gs s) /\ gdone (getg s g) = true.
Proof.
  intros [_ [L2 _]] Hin. unfold ids in Hin. apply in_map_iff in Hin. destruct Hin as [c [Ec Hc]].
  destruct (L2 c Hc) as [_ [_ [_ [A4 [A5 _]]]]]. rewrite Ec in *. auto.
Qed.

Lemma target_not_pending s g x : InvV s -> nth_error (gs s) g = Some x -> gdone x = false -> target s <> S g.
Proof.
  intros [V1 [V2 [V3 V5]]] Hx Hnd Ht. destruct (getg_nth_error s g x Hx) as [Eg _].
  destruct (resolved s) eqn:Er.
  - destruct (V1 eq_refl) as [A1 [_ [A3 _]]]. destruct (V5 eq_refl) as [T1 T2].
    destruct (Nat.eq_dec (verr s) 0) as [E0|E0].
    + destruct (T1 E0) as [T _]. destruct A1 as [A1|A1]; [|lia]. assert (vgen s = g) by lia. subst g. congruence.
    + destruct (T2 E0) as [T _]. lia.
  - destruct (V2 eq_refl) as [_ [_ [_ [T _]]]]. lia.
Qed.

Lemma stale_zero_pending s g x e :
  InvR s -> nth_error (gs s) g = Some x -> gdone x = false ->
  cnt (fun y => rin y && is_res (S g) e (rlast y)) (refs s) = 0.
Proof.
  intros [_ [[R2 _] _]] Hx Hnd. destruct (getg_nth_error s g x Hx) as [Eg _].
  apply cnt_zero_forall. intros y Hin. destruct (In_nth_error _ _ Hin) as [r Hr].
  destruct (rlast y) as [[|v' e']|] eqn:El; cbn [is_res]; try apply andb_false_r.
  destruct (Nat.eqb_spec (S g) v') as [E|E]; [|apply andb_false_r]. exfalso.
  destruct (R2 r y v' e' Hr El) as [Z|[g' [G1 [_ G3]]]]; [lia|]. assert (g' = g) by lia. subst g'. congruence.
Qed.

(* while a value (or an error) is stored, every resolve goroutine has finished: the stored generation is the newest one
   (nonces), and it entered the resolver only after all earlier ones had finished (chain of done channels) *)
Lemma pending_unresolved s g x :
  InvCh s -> InvN s -> InvV s -> nth_error (gs s) g = Some x -> gdone x = false -> resolved s = false.
Proof.
  intros [HI _] HN [V1 _] Hx Hnd. destruct (resolved s) eqn:Er; [|reflexivity]. exfalso.
  destruct (V1 eq_refl) as [_ [A2 [A3 A4]]]. destruct (getg_nth_error s g x Hx) as [Eg Hl].
  assert (Hy : nth_error (gs s) (vgen s) = Some (getg s (vgen s))) by (unfold getg; now apply nth_error_nth').
  destruct (Nat.lt_trichotomy (vgen s) g) as [H|[H|H]].
  - destruct (HN g Hl) as [N1 [_ N3]]. specialize (N3 _ H). rewrite A4 in N3. lia.
  - subst g. rewrite Eg in A3. congruence.
  - destruct (HI _ _ Hy) as [_ G3].
    assert (Hact : act (getg s (vgen s)) = true) by (unfold act; unfold gdone in A3; destruct (gpcv (getg s (vgen s))); auto; discriminate).
    specialize (G3 Hact g x H Hx). congruence.
Qed.

Lemma stale_zero_unresolved s v e : InvR s -> resolved s = false -> cnt (fun y => rin y && is_res v e (rlast y)) (refs s) = 0.
Proof.
  intros [_ [[_ R4] _]] Er. apply cnt_zero_forall. intros y Hin. destruct (In_nth_error _ _ Hin) as [r Hr].
  destruct (rin y) eqn:Ei; [|reflexivity]. cbn [andb].
  destruct (rlast y) as [[|v' e']|] eqn:El; cbn [is_res]; try reflexivity.
  exfalso. exact (R4 Er r y v' e' Hr Ei El).
Qed.

Lemma store_inv s g : InvCh s -> Inv s -> Inv (store s g).
Proof.
  intros HCh H. unfold store. destruct (nth_error (gs s) g) as [x|] eqn:Ex; [|exact H].
  destruct (gpcv x) eqn:Ep; try exact H.
  destruct H as [[HN [HS [HL [HL4 [HV HR]]]]] HLive].
  assert (Hnd : gdone x = false) by (unfold gdone; now rewrite Ep).
  destruct (getg_nth_error s g x Ex) as [Eg Hl].
  assert (Hv : val_ok g v e /\ grel x = hasrel) by (destruct (HS g Hl) as [S1 _]; rewrite Eg in S1; exact (S1 v hasrel e Ep)).
  destruct Hv as [Hv Hgr].
  assert (Hunres : resolved s = false) by exact (pending_unresolved s g x HCh HN HV Ex Hnd).
  destruct (setpc_core5 s g x GDone Ex Hnd ltac:(intros; discriminate) ltac:(intros; discriminate) HN HS HL HV HR) as [N0 [S0 [L0 [V0 R0]]]].
  pose proof (setpc_len s g x GDone) as GL. pose proof (setpc_same s g x GDone Ex) as GS. pose proof (setpc_other s g x GDone) as GO.
  assert (NotIn : ~ In g (ids s)) by (intros Hin; destruct (in_ids_done s g HL Hin) as [_ Hd]; congruence).
  set (s0 := setg s g (with_gpc x GDone)) in *.
  assert (L4x : forall i, i <> g -> i < length (gs s0) -> grel (getg s0 i) = true ->
                  (exists v e, gpcv (getg s0 i) = GStore v true e) \/ vrel s = Some i \/ In i (ids s)).
  { intros i Hne Hi Hr. rewrite GO in * by exact Hne. rewrite GL in Hi. now apply HL4. }
  assert (Dg : gdone (getg s0 g) = true) by (rewrite GS; reflexivity).
  assert (Rg : grel (getg s0 g) = hasrel) by (rewrite GS; exact Hgr).
  change (nonce s0) with (nonce s).
  destruct (Nat.eqb_spec (nonce s) (gnonce x)) as [Enc|Enc]; cbn [negb].
  - (* the result is stored and delivered *)
    destruct HLive as [N3 [K [P N4]]]. rewrite <- Eg in Enc. destruct (N3 g Hl (eq_sym Enc) ltac:(now rewrite Eg)) as [Hk [Hnr Hres]].
    destruct HV as [V1 [V2 [V3 V5]]]. destruct (V2 Hres) as [X0 [X1 [X2 [X3 X4]]]].
    set (s1 := set_val s0 true v e (if hasrel then Some g else None) g).
    set (s2 := if Nat.eqb e 0 then set_target s1 v 0 else set_target s1 (target s1) e).
    assert (F2 : gs s2 = gs s0 /\ nonce s2 = nonce s /\ rellog s2 = rellog s /\ resolved s2 = true /\ value s2 = v /\ verr s2 = e /\
                 vrel s2 = (if hasrel then Some g else None) /\ vgen s2 = g /\ refs s2 = refs s /\ kctx s2 = kctx s /\ keep s2 = keep s /\
                 target s2 = (if Nat.eqb e 0 then v else 0) /\ terr s2 = (if Nat.eqb e 0 then 0 else e)).
    { unfold s2. destruct (Nat.eqb e 0); cbn; rewrite ?X3; repeat split; reflexivity. }
    destruct F2 as [F1 [F2 [F3 [F4 [F5 [F6 [F7 [F8 [F9 [F10 [F11 [F12 F13]]]]]]]]]]]].
    pose proof (told_call_cbs s2 (NRes v e)) as T. rewrite F9 in T.
    destruct (rest_fields s2 _ (rest_call_cbs s2 (NRes v e))) as [Q1 [Q2 [_ [Q4 [_ [Q6 [Q7 [Q8 [Q9 [Q10 [Q11 [Q12 [Q13 [Q14 [_ [_ Q17]]]]]]]]]]]]]]]].
    assert (F17 : rootc s2 = rootc s) by (unfold s2, s1; destruct (Nat.eqb e 0); reflexivity). rewrite F17 in Q17.
    set (s' := call_cbs s2 (NRes v e)) in *. clearbody s' s2 s1.
    rewrite F10 in Q1. rewrite F11 in Q2. rewrite F2 in Q4. rewrite F4 in Q6. rewrite F5 in Q7. rewrite F6 in Q8. rewrite F7 in Q9. rewrite F8 in Q10.
    rewrite F12 in Q11. rewrite F13 in Q12. rewrite F1 in Q13. rewrite F3 in Q14.
    assert (GE : forall i, getg s' i = getg s0 i) by (intros i; unfold getg; now rewrite Q13).
    split.
    + split; [|split; [|split; [|split; [|split]]]].
      * intros i Hi. rewrite Q13 in Hi. rewrite GE, Q4. destruct (N0 i Hi) as [A1 [A2 A3]]. split; [exact A1|].
        split; [unfold rcanc in *; rewrite Q17; exact A2|].
        intros j Hj. rewrite GE. now apply A3.
      * intros i Hi. rewrite Q13 in Hi. rewrite GE. now apply S0.
      * destruct L0 as [A1 [A2 A3]]. unfold InvL123, ids. rewrite Q14, Q13, Q9. split; [exact A1|]. split.
        -- intros c Hc. specialize (A2 c Hc). unfold entry_ok in *. rewrite Q13, GE. exact A2.
        -- intros g' Hg'. destruct hasrel; [|discriminate]. inversion Hg'; subst g'. rewrite GE. split; [exact NotIn|]. split; [now rewrite GL|]. auto.
      * intros i Hi Hr. rewrite Q13 in Hi. rewrite GE in *. rewrite Q9. unfold ids. rewrite Q14.
        destruct (Nat.eq_dec i g) as [->|Hne].
        -- rewrite Rg in Hr. right. left. now rewrite Hr.
        -- destruct (L4x i Hne Hi Hr) as [A|[A|A]]; [now left | congruence | right; right; exact A].
      * split; [|split; [intros; congruence | split]].
        -- intros _. rewrite Q7, Q8, Q10, Q13, GE, Q4. split; [exact Hv|]. split; [now rewrite GL|]. split; [exact Dg|]. rewrite GS. cbn [gnonce with_gpc].
           rewrite <- Eg. now rewrite <- Enc.
        -- intros g' Hg'. rewrite Q9 in Hg'. rewrite Q10. destruct hasrel; [congruence | discriminate].
        -- intros _. rewrite Q7, Q8, Q11, Q12. destruct (Nat.eqb_spec e 0) as [E0|E0]; split; intros; try contradiction; auto.
      * destruct HR as [R1 [[R2 R4] R3]]. split; [|split; [split|]].
        -- intros r y' Hy' Ky. destruct (told_back _ _ _ _ _ _ T Hy') as [y [Hy [B1 [B2 B3]]]]. rewrite B2 in Ky. rewrite Ky in B3.
           cbn [nonnil] in B3. rewrite andb_false_r in B3. rewrite B3. exact (R1 r y Hy Ky).
        -- intros r y' v' e' Hy' Hl'. destruct (told_back _ _ _ _ _ _ T Hy') as [y [Hy [B1 [B2 B3]]]]. rewrite Q13.
           destruct (inset r y && nonnil (rkind y)).
           ++ assert (Ev : v' = v /\ e' = e) by (split; congruence). destruct Ev as [-> ->].
              destruct Hv as [Hv|Hv]; [right | now left]. exists g. rewrite GE. split; [exact Hv|]. split; [now rewrite GL | exact Dg].
           ++ rewrite B3 in Hl'. destruct R0 as [_ [[R02 _] _]]. destruct (R02 r y v' e' Hy Hl') as [Z|[g' [G1 [G2 G3]]]]; [now left|]. right. exists g'. rewrite GE. auto.
        -- intros Hc. congruence.
        -- intros _ r y' Hy' Hin Hkn. destruct (told_back _ _ _ _ _ _ T Hy') as [y [Hy [B1 [B2 B3]]]]. rewrite Q7, Q8.
           unfold inset in B3. rewrite <- B1, Hin in B3. rewrite <- B2 in B3. destruct (rkind y'); [contradiction|..]; exact B3.
    + assert (NR : nrefs s' = nrefs s) by (unfold nrefs; eapply told_nrefs; eauto).
      split; [|split; [|split]].
      * intros i Hi En Hd. exfalso. rewrite Q13 in Hi. rewrite GE in *. rewrite Q4 in En. rewrite GL in Hi.
        destruct (Nat.eq_dec i g) as [->|Hne]; [congruence|]. rewrite GO in En by exact Hne. apply Hne.
        apply (InvN_inj s i g HN Hi Hl). congruence.
      * intros _. rewrite Q1, NR. split; [exact Hk|]. left. exact Hnr.
      * intros _ _ Hc. congruence.
      * intros i Hi En. rewrite Q13 in Hi. rewrite GE in *. rewrite Q4 in En. rewrite Q1. rewrite GL in Hi.
        destruct (setpc_nonce s g x GDone Ex i) as [E1 [_ E3]]. fold s0 in E1, E3. rewrite E1 in En. rewrite E3. exact (N4 i Hi En).
  - (* superseded: the result is dropped, its release function called at once *)
    assert (Live0 : Live s0) by (apply (setpc_live s g x GDone Ex Hnd); [intros _; left; congruence | exact HLive]).
    destruct hasrel.
    + set (c := {| rc_id := g; rc_val := v; rc_target := target s0;
                   rc_stale := cnt (fun y => rin y && is_res v e (rlast y)) (refs s0) |}).
      change (log_release s0 g v e) with (set_rellog s0 (rellog s0 ++ [c])).
      split; [|apply (Live_ext s0); [reflexivity | exact Live0]].
      split; [exact N0|]. split; [exact S0|]. destruct L0 as [A1 [A2 A3]]. split; [|split; [|split; [exact V0 | exact R0]]].
      * split; [|split].
        -- unfold ids. cbn [rellog set_rellog]. rewrite map_app. apply NoDup_snoc; [exact A1 | exact NotIn].
        -- intros c' Hc'. cbn [rellog set_rellog] in Hc'. apply in_app_or in Hc'. destruct Hc' as [Hc'|[<-|[]]]; [exact (A2 c' Hc')|].
           unfold entry_ok. cbn [rc_id rc_val rc_target rc_stale].
           split; [destruct Hv as [Hv|Hv]; auto|]. split; [exact (target_not_pending s g x HV Ex Hnd)|].
           split; [exact (stale_zero_unresolved s v e HR Hunres)|]. split; [exact (eq_ind_r (fun n => g < n) Hl GL)|]. split; [exact Dg | exact Rg].
        -- intros g' Hg'. destruct (A3 g' Hg') as [B1 [B2 [B3 B4]]]. split; [|auto]. unfold ids. cbn [rellog set_rellog]. rewrite map_app.
           intros Hin. apply in_app_or in Hin. destruct Hin as [Hin|[Hin|[]]]; [exact (B1 Hin)|]. cbn [rc_id c] in Hin. subst g'.
           destruct HL as [_ [_ L3]]. destruct (L3 g Hg') as [_ [_ [C3 _]]]. congruence.
      * intros i Hi Hr. change (vrel (set_rellog s0 (rellog s0 ++ [c]))) with (vrel s). unfold ids. cbn [rellog set_rellog]. rewrite map_app.
        destruct (Nat.eq_dec i g) as [->|Hne].
        -- right. right. apply in_or_app. right. now left.
        -- destruct (L4x i Hne Hi Hr) as [B|[B|B]]; [now left | right; now left | right; right; apply in_or_app; now left].
    + split; [|exact Live0]. split; [exact N0|]. split; [exact S0|]. split; [exact L0|]. split; [|split; [exact V0 | exact R0]].
      intros i Hi Hr. destruct (Nat.eq_dec i g) as [->|Hne]; [congruence|]. exact (L4x i Hne Hi Hr).
Qed.

(* ------------------------------------------------------------------ *)
(* references: add, release flag, remove *)
Lemma InvR_set_nth s r x y :
  InvR s -> nth_error (refs s) r = Some x -> rkind y = rkind x -> rlast y = rlast x -> (rin y = true -> rin x = true) ->
  InvR (set_refs s (set_nth (refs s) r y)).
Proof.
  intros [R1 [[R2 R4] R3]] Hx Ek El Ei. assert (Hl : r < length (refs s)) by (eapply nth_error_nth_len; eauto).
  assert (B : forall q z, nth_error (set_nth (refs s) r y) q = Some z ->
                exists z0, nth_error (refs s) q = Some z0 /\ rkind z = rkind z0 /\ rlast z = rlast z0 /\ (rin z = true -> rin z0 = true)).
  { intros q z Hz. destruct (Nat.eq_dec q r) as [->|Hne].
    - rewrite nth_error_set_nth_same in Hz by exact Hl. inversion Hz; subst z. exists x. auto.
    - rewrite nth_error_set_nth_other in Hz by exact Hne. exists z. auto. }
  split; [|split; [split|]]; cbn [refs set_refs resolved value verr gs].
  - intros q z Hz K. destruct (B q z Hz) as [z0 [H0 [B1 [B2 _]]]]. rewrite B2. apply (R1 q z0 H0). congruence.
  - intros q z v e Hz El'. destruct (B q z Hz) as [z0 [H0 [_ [B2 _]]]]. rewrite B2 in El'. exact (R2 q z0 v e H0 El').
  - intros Hres q z v e Hz Hin El'. destruct (B q z Hz) as [z0 [H0 [_ [B2 B3]]]]. rewrite B2 in El'. exact (R4 Hres q z0 v e H0 (B3 Hin) El').
  - intros Hres q z Hz Hin Hk. destruct (B q z Hz) as [z0 [H0 [B1 [B2 B3]]]]. rewrite B2. apply (R3 Hres q z0 H0 (B3 Hin)). congruence.
Qed.

Lemma nrefs_set_nth s r x y :
  nth_error (refs s) r = Some x -> nrefs (set_refs s (set_nth (refs s) r y)) + b2n (rin x) = nrefs s + b2n (rin y).
Proof.
  intros Hx. unfold nrefs. cbn [refs set_refs]. rewrite <- (nth_error_nth_d _ _ ref0 _ Hx).
  apply cnt_set_nth. eapply nth_error_nth_len; eauto.
Qed.

Definition newref (k : cbkind) : ref := {| rin := true; rflag := false; rkind := k; rlast := None |}.

Lemma nrefs_addref s k : nrefs (set_refs s (refs s ++ [newref k])) = S (nrefs s).
Proof. unfold nrefs. cbn [refs set_refs]. rewrite cnt_app, cnt_cons, cnt_nil. cbn. lia. Qed.

Lemma Core_addref s k : Core s -> (resolved s = false \/ k = KNil) -> Core (set_refs s (refs s ++ [newref k])).
Proof.
  intros H Hc. apply (Core_refs s); [reflexivity | | exact H]. destruct H as [_ [_ [_ [_ [_ [R1 [[R2 R4] R3]]]]]]].
  split; [|split; [split|]]; cbn [refs set_refs resolved value verr gs].
  - intros q z Hz K. destruct (nth_error_snoc_cases _ _ _ _ Hz) as [[_ H0]|[_ ->]]; [exact (R1 q z H0 K) | reflexivity].
  - intros q z v e Hz El. destruct (nth_error_snoc_cases _ _ _ _ Hz) as [[_ H0]|[_ ->]]; [exact (R2 q z v e H0 El) | discriminate].
  - intros Hres q z v e Hz Hin El. destruct (nth_error_snoc_cases _ _ _ _ Hz) as [[_ H0]|[_ ->]]; [exact (R4 Hres q z v e H0 Hin El) | discriminate].
  - intros Hres q z Hz Hin Hk. destruct (nth_error_snoc_cases _ _ _ _ Hz) as [[_ H0]|[_ ->]]; [exact (R3 Hres q z H0 Hin Hk)|].
    destruct Hc as [Hc|Hc]; [congruence | contradiction].
Qed.

Lemma Live_addref s k : Live s -> (resolved s = true \/ nrefs s > 0) -> Live (set_refs s (refs s ++ [newref k])).
Proof.
  intros [N3 [K [P N4]]] Hc. pose proof (nrefs_addref s k) as NR. set (s1 := set_refs s (refs s ++ [newref k])) in *.
  split; [|split; [|split; [|exact N4]]].
  - intros g Hg En Hd. destruct (N3 g Hg En Hd) as [A1 [A2 A3]]. split; [exact A1|]. split; [lia | exact A3].
  - intros Hres. destruct (K Hres) as [A1 A2]. split; [exact A1|]. left. lia.
  - intros H1 _ H3 H4. change (resolved s1) with (resolved s) in H3. destruct Hc as [Hc|Hc]; [congruence|]. exact (P H1 Hc H3 H4).
Qed.

Lemma add_ref_tell s k :
  Core s -> resolved s = true -> k <> KNil ->
  InvR (invoke (set_refs s (refs s ++ [newref k])) (length (refs s)) (NRes (value s) (verr s))).
Proof.
  intros HC Er Hk. set (s1 := set_refs s (refs s ++ [newref k])). set (n := NRes (value s) (verr s)). set (r := length (refs s)).
  pose proof (told_invoke s1 r n) as T.
  destruct (rest_fields s1 _ (rest_invoke s1 r n)) as [_ [_ [_ [_ [_ [Q6 [Q7 [Q8 [_ [_ [_ [_ [Q13 _]]]]]]]]]]]]].
  set (s2 := invoke s1 r n) in *.
  destruct HC as [_ [_ [_ [_ [[V1 _] [R1 [[R2 R4] R3]]]]]]]. destruct (V1 Er) as [A1 [A2 [A3 _]]].
  assert (B : forall q z', nth_error (refs s2) q = Some z' ->
           (q < r /\ exists z, nth_error (refs s) q = Some z /\ rin z' = rin z /\ rkind z' = rkind z /\ rlast z' = rlast z) \/
           (q = r /\ rkind z' <> KNil /\ rlast z' = Some n)).
  { intros q z' Hz'. destruct (told_back _ _ _ _ _ _ T Hz') as [z [Hz [B1 [B2 B3]]]]. cbn [refs set_refs s1] in Hz.
    unfold only in B3. destruct (nth_error_snoc_cases _ _ _ _ Hz) as [[Hq H0]|[Hq ->]].
    - left. split; [exact Hq|]. exists z. destruct (Nat.eqb_spec q r) as [Heq|Hneq]; [unfold r in Heq; lia|]. auto.
    - right. split; [exact Hq|]. fold r in Hq. rewrite Hq, Nat.eqb_refl in B3. cbn [rkind newref andb] in B3, B2. rewrite B2. split; [exact Hk|].
      destruct k; [contradiction|..]; exact B3. }
  assert (GE : forall i, getg s2 i = getg s i) by (intros i; unfold getg; rewrite Q13; reflexivity).
  split; [|split; [split|]]; rewrite ?Q6, ?Q7, ?Q8, ?Q13; cbn [resolved value verr gs set_refs s1].
  - intros q z' Hz' K. destruct (B q z' Hz') as [[_ [z [H0 [B1 [B2 B3]]]]]|[_ [B2 _]]]; [|contradiction]. rewrite B3. apply (R1 q z H0). congruence.
  - intros q z' v e Hz' El. destruct (B q z' Hz') as [[_ [z [H0 [B1 [B2 B3]]]]]|[_ [_ B3]]].
    + rewrite B3 in El. destruct (R2 q z v e H0 El) as [Z|[g' G']]; [now left|]. right. exists g'. rewrite GE. exact G'.
    + unfold n in B3. assert (Ev : v = value s /\ e = verr s) by (split; congruence). destruct Ev as [-> ->].
      destruct A1 as [A1|A1]; [right | now left]. exists (vgen s). rewrite GE. auto.
  - intros Hres. rewrite Er in Hres. discriminate.
  - intros _ q z' Hz' Hin Hkz. destruct (B q z' Hz') as [[_ [z [H0 [B1 [B2 B3]]]]]|[_ [_ B3]]]; [|exact B3].
    rewrite B3. apply (R3 Er q z H0); congruence.
Qed.

Lemma add_ref_inv s k : Inv s -> Inv (add_ref repaired s k).
Proof.
  intros [HC HLv]. unfold add_ref. fold (newref k). pose proof (nrefs_addref s k) as NR. pose proof (add_ref_tell s k HC) as TL.
  set (s1 := set_refs s (refs s ++ [newref k])) in *. change (resolved s1) with (resolved s).
  change (length (refs s)) with (length (refs s)) in TL. change (value s1) with (value s). change (verr s1) with (verr s).
  destruct (resolved s) eqn:Er; cbn [negb]; rewrite ?andb_false_r, ?andb_true_r.
  - (* resolved: the new reference is told the value at once *)
    assert (L1 : Live s1) by (apply Live_addref; auto).
    assert (G : k <> KNil -> Inv (invoke s1 (length (refs s)) (NRes (value s) (verr s)))).
    { intros Hk. specialize (TL eq_refl Hk).
      destruct (rest_fields s1 _ (rest_invoke s1 (length (refs s)) (NRes (value s) (verr s)))) as [Q1 [Q2 [_ [Q4 [_ [Q6 [Q7 [Q8 [Q9 [Q10 [Q11 [Q12 [Q13 [Q14 [_ [_ Q17]]]]]]]]]]]]]]]].
      pose proof (told_invoke s1 (length (refs s)) (NRes (value s) (verr s))) as T.
      set (s2 := invoke s1 _ _) in *. split.
      - apply (Core_refs s); [unfold cfields0; rewrite Q13, Q4, Q14, Q6, Q7, Q8, Q9, Q10, Q11, Q12, Q17; reflexivity | exact TL | exact HC].
      - apply (Live_ext s1); [|exact L1]. unfold lfields. rewrite Q13, Q4, Q1, Q2, Q6, Q8, Q17.
        replace (nrefs s2) with (nrefs s1) by (symmetry; unfold nrefs; eapply told_nrefs; eauto). reflexivity. }
    destruct k; cbn [fx_nilcb repaired]; try (apply G; discriminate).
    split; [apply Core_addref; auto | exact L1].
  - destruct (Nat.eqb_spec (nrefs s1) 1) as [E1|E1].
    + apply start_resolve_inv. apply Core_addref; auto.
    + split; [apply Core_addref; auto | apply Live_addref; [exact HLv | right; lia]].
Qed.

Lemma remove_ref_inv s r : Inv s -> Inv (remove_ref s r).
Proof.
  intros [HC HLv]. unfold remove_ref. destruct (nth_error (refs s) r) as [x|] eqn:Ex; [|exact (conj HC HLv)].
  destruct (rin x) eqn:Ein; [|exact (conj HC HLv)].
  set (y := {| rin := false; rflag := rflag x; rkind := rkind x; rlast := rlast x |}).
  pose proof (nrefs_set_nth s r x y Ex) as NR. rewrite Ein in NR. cbn [b2n rin y] in NR.
  assert (C1 : Core (set_refs s (set_nth (refs s) r y))).
  { apply (Core_refs s); [reflexivity | | exact HC]. destruct HC as [_ [_ [_ [_ [_ HR]]]]].
    apply (InvR_set_nth s r x y HR Ex); [reflexivity | reflexivity | discriminate]. }
  set (s1 := set_refs s (set_nth (refs s) r y)) in *.
  change (keep s1) with (keep s). change (resolved s1) with (resolved s). change (verr s1) with (verr s).
  destruct (Nat.eqb_spec (nrefs s1) 0) as [E0|E0]; cbn [andb].
  - destruct (negb (keep s) || negb (resolved s) || negb (Nat.eqb (verr s) 0)) eqn:Ec.
    + apply shutdown_inv; auto.
    + split; [exact C1|]. apply orb_false_iff in Ec. destruct Ec as [Ec E3]. apply orb_false_iff in Ec. destruct Ec as [E1 E2].
      apply negb_false_iff in E1, E2, E3. apply Nat.eqb_eq in E3. destruct HLv as [N3 [K [P N4]]]. split; [|split; [|split; [|exact N4]]].
      * intros g Hg En Hd. destruct (N3 g Hg En Hd) as [_ [_ A]]. congruence.
      * intros _. destruct (K E2) as [A _]. split; [exact A|]. right. auto.
      * intros _ H2. lia.
  - split; [exact C1|]. destruct HLv as [N3 [K [P N4]]]. split; [|split; [|split; [|exact N4]]].
    + intros g Hg En Hd. destruct (N3 g Hg En Hd) as [A1 [A2 A3]]. split; [exact A1|]. split; [lia | exact A3].
    + intros Hres. destruct (K Hres) as [A _]. split; [exact A|]. left. lia.
    + intros H1 H2 H3 H4. apply (P H1); [lia | exact H3 | exact H4].
Qed.

Lemma release_call_by_inv s r oc : Inv s -> Inv (fst (release_call_by s r oc)).
Proof.
  intros [HC HLv]. unfold release_call_by. destruct (nth_error (refs s) r) as [x|] eqn:Ex; [|exact (conj HC HLv)].
  destruct (rflag x); [exact (conj HC HLv)|]. cbn [fst].
  set (y := {| rin := rin x; rflag := true; rkind := rkind x; rlast := rlast x |}).
  pose proof (nrefs_set_nth s r x y Ex) as NR. cbn [rin y] in NR.
  split.
  - apply (Core_refs s); [reflexivity | | exact HC]. destruct HC as [_ [_ [_ [_ [_ HR]]]]].
    apply (InvR_set_nth s r x y HR Ex); [reflexivity | reflexivity | auto].
  - apply (Live_ext s); [|exact HLv]. unfold lfields. cbn [gs nonce kctx keep resolved verr set_relacts set_refs].
    replace (nrefs (set_relacts (set_refs s (set_nth (refs s) r y)) (relacts s ++ [{| ra_ref := r; ra_pc := RGate; ra_cons := oc |}])))
      with (nrefs s); [reflexivity|]. change (nrefs (set_relacts ?a ?b)) with (nrefs a). lia.
Qed.

Lemma release_section_inv s a : Inv s -> Inv (release_section s a).
Proof.
  intros H. unfold release_section. destruct (nth_error (relacts s) a) as [x|]; [|exact H].
  destruct (ra_pc x); [|exact H].
  set (s1 := remove_ref _ (ra_ref x)).
  assert (H1 : Inv s1) by (apply remove_ref_inv; now apply (Inv_ext s)).
  destruct (ra_cons x) as [c|]; [|exact H1]. destruct (cpcv (getc s1 c)); exact H1.
Qed.

Lemma cons_fail_inv s c x e : Inv s -> Inv (cons_fail s c x e).
Proof.
  intros H. unfold cons_fail.
  pose proof (release_call_by_inv (setc s c (with_cpc x (CRel e))) (cref x) (Some c)) as G.
  destruct (release_call_by (setc s c (with_cpc x (CRel e))) (cref x) (Some c)) as [s1 parked]. cbn [fst] in G.
  assert (H1 : Inv s1) by (apply G; now apply (Inv_ext s)).
  destruct parked; [exact H1|]. now apply (Inv_ext s1).
Qed.

Lemma acc_ret_inv s c x e : Inv s -> Inv (acc_ret s c x e).
Proof.
  intros H. unfold acc_ret.
  pose proof (release_call_by_inv (setc s c (with_cpc x (CRel e))) (cref x) (Some c)) as G.
  destruct (release_call_by (setc s c (with_cpc x (CRel e))) (cref x) (Some c)) as [s1 parked]. cbn [fst] in G.
  assert (H1 : Inv s1) by (apply G; now apply (Inv_ext s)).
  destruct parked; [exact H1|]. now apply (Inv_ext s1).
Qed.

Lemma acc_s1_inv s c x : Inv s -> Inv (acc_s1 s c x).
Proof.
  intros H. unfold acc_s1. destruct (negb (Nat.eqb (ac_err x) 0)); [now apply acc_ret_inv|].
  destruct (ac_res x); [now apply (Inv_ext s)|]. destruct (ccanc x); [now apply acc_ret_inv | now apply (Inv_ext s)].
Qed.

Lemma cb_return_inv fx s c res : Inv s -> Inv (cb_return fx s c res).
Proof.
  intros H. unfold cb_return. destruct (nth_error (conss s) c) as [x|]; [|exact H].
  destruct (ck x); try exact H. destruct (cpcv x); try exact H.
  destruct (ccanc x); [now apply acc_ret_inv|].
  match goal with |- Inv (if ?b then _ else _) => destruct b end; [now apply acc_ret_inv | now apply (Inv_ext s)].
Qed.

Lemma cons_step_inv s c : Inv s -> Inv (cons_step s c).
Proof.
  intros H. unfold cons_step. destruct (nth_error (conss s) c) as [x|]; [|exact H].
  destruct (ck x), (cpcv x); try exact H; try (now apply acc_s1_inv).
  3:{ destruct (negb (Nat.eqb (ac_nonce x) (ac_snap x))); [now apply acc_s1_inv|]. destruct (ccanc x); [now apply acc_ret_inv | exact H]. }
  - destruct (cw_res x) as [[v e]|].
    + destruct (Nat.eqb e 0); [now apply (Inv_ext s) | now apply cons_fail_inv].
    + destruct (ccanc x); [now apply cons_fail_inv | exact H].
  - destruct (ww_prom x) as [[v e]|].
    + destruct (Nat.eqb e 0); [now apply (Inv_ext s) | now apply cons_fail_inv].
    + destruct (ccanc x); [now apply cons_fail_inv | exact H].
Qed.

Lemma fire_section_inv s c : Inv s -> Inv (fire_section s c).
Proof.
  intros H. unfold fire_section. destruct (nth_error (conss s) c) as [x|]; [|exact H].
  destruct (ww_firepc x) as [[|]|]; try exact H. apply remove_ref_inv. now apply (Inv_ext s).
Qed.

(* ------------------------------------------------------------------ *)
(* the owner cancels a root context *)
Definition ofields (s : st) :=
  (nonce s, rellog s, (resolved s, value s, verr s, vrel s, vgen s), (target s, terr s), refs s, rootc s, kctx s, keep s).

Lemma Inv_gsame s s' :
  gsame s s' -> ofields s' = ofields s ->
  (forall i, i < length (gs s) -> gcanc (getg s' i) = true -> gcanc (getg s i) = true \/ rcanc s (groot (getg s i)) = true) ->
  Inv s -> Inv s'.
Proof.
  intros GS EO HC [[HN [HS [[L1 [L2 L3]] [HL4 [[V1 [V2 [V3 V5]]] [R1 [[R2 R4] R3]]]]]]] [N3 [K [P N4]]]].
  unfold ofields in EO. inversion EO as [[O1 O2 O3 O4 O5 O6 O7 O8 O9 O10 O11 O12 O13]].
  assert (GD : forall i, gdone (getg s' i) = gdone (getg s i)) by (intros i; now apply gsame_gdone).
  destruct GS as [GL GF].
  assert (RC : forall c, rcanc s' c = rcanc s c) by (intros c; unfold rcanc; now rewrite O11).
  assert (NR : nrefs s' = nrefs s) by (unfold nrefs; now rewrite O10).
  split.
  - split; [|split; [|split; [|split; [|split]]]].
    + intros i Hi. rewrite GL in Hi. destruct (HN i Hi) as [A1 [A2 A3]]. destruct (GF i) as [_ [En [_ [_ [_ [_ Eg]]]]]].
      rewrite En, O1, Eg, RC. split; [exact A1|]. split.
      * intros Hc. destruct (HC i Hi Hc) as [D|D]; [exact (A2 D) | now right].
      * intros j Hj. destruct (GF j) as [_ [Ej _]]. rewrite Ej. now apply A3.
    + intros i Hi. rewrite GL in Hi. destruct (HS i Hi) as [S1 S2]. destruct (GF i) as [_ [_ [Ep [Er [_ [Ec _]]]]]].
      rewrite Ep, Er. split; [exact S1|]. intros Hp. apply Ec. now apply S2.
    + unfold InvL123, ids. rewrite O2, O6. split; [exact L1|]. split.
      * intros c Hc. apply (entry_ok_mono s s'); [lia | intros i _ Hd; now rewrite GD | intros i _ _; apply GF | exact (L2 c Hc)].
      * intros g Hg. destruct (L3 g Hg) as [A1 [A2 [A3 A4]]]. rewrite GL, GD. destruct (GF g) as [_ [_ [_ [Er _]]]]. rewrite Er. auto.
    + intros g Hg Hr. rewrite GL in Hg. destruct (GF g) as [_ [_ [Ep [Er _]]]]. rewrite Er in Hr. rewrite Ep. unfold ids. rewrite O2, O6. exact (HL4 g Hg Hr).
    + unfold InvV. rewrite O3, O4, O5, O6, O7, O8, O9, O1, GL. split; [|auto].
      intros Hres. destruct (V1 Hres) as [A1 [A2 [A3 A4]]]. rewrite GD. destruct (GF (vgen s)) as [_ [En _]]. rewrite En. auto.
    + unfold InvR. rewrite O10, O3, O4, O5, GL. split; [exact R1|]. split; [split; [|exact R4]|exact R3].
      intros r y v e Hy Hl. destruct (R2 r y v e Hy Hl) as [Z|[g [G1 [G2 G3]]]]; [now left|]. right. exists g. rewrite GD. auto.
  - split; [|split; [|split]]; rewrite ?O3, ?O5, ?O12, ?O13, ?NR, ?GL, ?RC, ?O1.
    + intros g Hg En Hd. destruct (GF g) as [_ [E1 _]]. rewrite E1 in En. rewrite GD in Hd. exact (N3 g Hg En Hd).
    + exact K.
    + intros H1 H2 H3 H4. destruct (P H1 H2 H3 H4) as [w [W1 [W2 W3]]]. exists w. destruct (GF w) as [_ [E1 _]]. rewrite E1, GD. auto.
    + intros g Hg En. destruct (GF g) as [_ [E1 [_ [_ [_ [_ E6]]]]]]. rewrite E1 in En. rewrite E6. exact (N4 g Hg En).
Qed.

Lemma rcanc_cons s c d : rcanc (set_rootc s (c :: rootc s)) d = Nat.eqb d c || rcanc s d.
Proof. reflexivity. Qed.

Lemma Inv_set_rootc s c : Inv s -> Inv (set_rootc s (c :: rootc s)).
Proof.
  intros [[HN [HS [HL [HL4 [HV HR]]]]] [N3 [K [P N4]]]]. set (s' := set_rootc s (c :: rootc s)).
  assert (RC : forall d, rcanc s d = true -> rcanc s' d = true) by (intros d H; unfold s'; rewrite rcanc_cons, H; apply orb_true_r).
  split.
  - split; [|split; [exact HS | split; [exact HL | split; [exact HL4 | split; [exact HV | exact HR]]]]].
    intros i Hi. destruct (HN i Hi) as [A1 [A2 A3]]. split; [exact A1|]. split; [|exact A3].
    intros Hc. destruct (A2 Hc) as [D|D]; [now left | right; now apply RC].
  - split; [exact N3|]. split; [exact K|]. split; [|exact N4].
    intros H1 H2 H3 H4. apply (P H1 H2 H3). destruct (rcanc s (kctx s)) eqn:E; [|reflexivity]. change (kctx s') with (kctx s) in H4. rewrite (RC _ E) in H4. discriminate.
Qed.

Lemma cancel_g_only s g i :
  gcanc (getg (cancel_g s (Some g)) i) = true -> gcanc (getg s i) = true \/ (i = g /\ g < length (gs s)).
Proof.
  unfold cancel_g. destruct (nth_error (gs s) g) as [x|] eqn:E; [|now left]. destruct (getg_nth_error s g x E) as [_ Hl].
  destruct (Nat.eq_dec i g) as [->|Hne]; [right; auto | rewrite getg_setg_other by exact Hne; now left].
Qed.

Lemma cancel_root_inv s c : Inv s -> Inv (cancel_root s c).
Proof.
  intros H. unfold cancel_root. generalize (seq 0 (length (gs s))). intros l.
  assert (H0 : Inv (set_rootc s (c :: rootc s)) /\ rcanc (set_rootc s (c :: rootc s)) c = true).
  { split; [now apply Inv_set_rootc | rewrite rcanc_cons, Nat.eqb_refl; reflexivity]. }
  revert H0. generalize (set_rootc s (c :: rootc s)). induction l as [|g l IH]; intros s0 [H0 Hc]; [exact H0|]. cbn [fold_left]. apply IH.
  destruct (Nat.eqb_spec (groot (getg s0 g)) c) as [E|E]; [|auto].
  destruct (cancel_g_rest s0 (Some g)) as [G1 [G2 [G3 [G4 [G5 [G6 [G7 [G8 [G9 [G10 [G11 [G12 [G13 [G14 [G15 [G16 [G17 [G18 G19]]]]]]]]]]]]]]]]]].
  split; [|unfold rcanc; rewrite G19; exact Hc].
  apply (Inv_gsame s0); [exact (cancel_g_gs s0 (Some g)) | unfold ofields; now rewrite G5, G14, G7, G8, G9, G10, G11, G12, G13, G3, G19, G1, G2 | | exact H0].
  intros i Hi Hci. destruct (cancel_g_only s0 g i Hci) as [D|[-> _]]; [now left | right; now rewrite E].
Qed.

Lemma step_inv s e : wf_ev e -> InvCh s -> Inv s -> Inv (step repaired s e).
Proof.
  intros Hwf HCh H. destruct e; cbn [step].
  - now apply set_context_inv.
  - now apply add_ref_inv.
  - destruct (rkind (nth r (refs s) ref0)); try exact H; now apply release_call_by_inv.
  - now apply release_section_inv.
  - destruct (nth_error (gs s) g); [now apply released_section_inv | exact H].
  - now apply async_section_inv.
  - now apply proceed_inv.
  - destruct Hwf as [Hv _]. now apply resolver_return_inv.
  - now apply store_inv.
  - unfold start_consumer. apply add_ref_inv. now apply (Inv_ext s).
  - now apply cons_step_inv.
  - destruct (nth_error (conss s) c); [now apply (Inv_ext s) | exact H].
  - now apply fire_section_inv.
  - now apply cb_return_inv.
  - destruct (Nat.eqb c 0); [exact H | now apply cancel_root_inv].
  - destruct (watch_step_spec s c) as [->|[x [y [_ [-> _]]]]]; [exact H | now apply (Inv_ext s)].
Qed.

Lemma run_app fx s es e : run fx s (es ++ [e]) = step fx (run fx s es) e.
Proof. unfold run. now rewrite fold_left_app. Qed.

Theorem run_inv k es : Forall wf_ev es -> Inv (run repaired (init k) es).
Proof.
  induction es as [|e es IH] using rev_ind; intros Hwf; [apply init_inv|].
  rewrite run_app. apply Forall_app in Hwf. destruct Hwf as [H1 H2]. inversion H2; subst. apply step_inv; auto. apply run_chain.
Qed.

(* ------------------------------------------------------------------ *)
(* C08: what the invariant says about release functions *)
Section C08.
  Variables (k : bool) (es : list ev).
  Hypothesis Hwf : Forall wf_ev es.
  Let s := run repaired (init k) es.

  Theorem release_at_most_once : NoDup (map rc_id (rellog s)).
  Proof. destruct (run_inv k es Hwf) as [[_ [_ [[L1 _] _]]] _]. exact L1. Qed.

  (* at the moment a release function runs: the target no longer holds its value, no present reference still
     believes the value is current; only release functions that were returned are called, after their goroutine's end *)
  Theorem at_release_target_clear_and_refs_told c :
    In c (rellog s) ->
    (rc_val c = S (rc_id c) \/ rc_val c = 0) /\ rc_target c <> S (rc_id c) /\ (rc_val c <> 0 -> rc_target c <> rc_val c) /\ rc_stale c = 0 /\
    rc_id c < length (gs s) /\ gdone (getg s (rc_id c)) = true /\ grel (getg s (rc_id c)) = true.
  Proof.
    intros Hc. destruct (run_inv k es Hwf) as [[_ [_ [[_ [L2 _]] _]]] _]. destruct (L2 c Hc) as [E1 [E2 E3]].
    split; [exact E1|]. split; [exact E2|]. split; [|exact E3]. intros Hz. destruct E1 as [E1|E1]; [congruence | contradiction].
  Qed.

  Theorem stored_iff_unreleased g :
    g < length (gs s) -> grel (getg s g) = true ->
    (~ In g (map rc_id (rellog s)) <-> (vrel s = Some g \/ exists v e, gpcv (getg s g) = GStore v true e)).
  Proof.
    intros Hg Hr. destruct (run_inv k es Hwf) as [[_ [_ [HL [HL4 _]]]] _]. fold s in HL, HL4. split.
    - intros Hn. destruct (HL4 g Hg Hr) as [H|[H|H]]; [now right | now left | contradiction].
    - intros [H|[v [e H]]] Hin.
      + destruct HL as [_ [_ L3]]. destruct (L3 g H) as [A _]. exact (A Hin).
      + destruct (in_ids_done s g HL Hin) as [_ Hd]. unfold gdone in Hd. rewrite H in Hd. discriminate.
  Qed.

  (* no leak: an uncalled release function belongs to a result not yet stored, or to the stored value, which is
     legitimately kept: there is a context and a reference (or keep-unreferenced and no error) *)
  Theorem no_leak g :
    g < length (gs s) -> grel (getg s g) = true -> ~ In g (map rc_id (rellog s)) ->
    (exists v e, gpcv (getg s g) = GStore v true e) \/
    (vrel s = Some g /\ resolved s = true /\ val_ok g (value s) (verr s) /\ kctx s <> 0 /\ (nrefs s > 0 \/ (keep s = true /\ verr s = 0))).
  Proof.
    intros Hg Hr Hn. destruct (stored_iff_unreleased g Hg Hr) as [A _]. destruct (A Hn) as [H|H]; [right | now left].
    destruct (run_inv k es Hwf) as [[_ [_ [_ [_ [[V1 [V2 [V3 _]]] _]]]]] [_ [K _]]]. fold s in V1, V2, V3, K.
    destruct (resolved s) eqn:Er; [|destruct (V2 eq_refl) as [X _]; congruence].
    destruct (V1 eq_refl) as [B1 _]. rewrite (V3 g H). rewrite <- (V3 g H). split; [exact H|]. split; [reflexivity|]. split; [rewrite (V3 g H); exact B1|]. exact (K eq_refl).
  Qed.

  (* while a resolver result waits at its store gate, it is nowhere in circulation: nothing is stored at all, the target
     container is empty, no reference in the set believes in any result, and no reference was ever told this
     generation's value *)
  Theorem pending_value_not_in_circulation g v hr e :
    g < length (gs s) -> gpcv (getg s g) = GStore v hr e ->
    val_ok g v e /\ resolved s = false /\ target s = 0 /\
    (forall r x er, nth_error (refs s) r = Some x -> rlast x <> Some (NRes (S g) er)) /\
    (forall r x v' e', nth_error (refs s) r = Some x -> rin x = true -> rlast x <> Some (NRes v' e')).
  Proof.
    intros Hg Hp. destruct (run_inv k es Hwf) as [[HN [HS [_ [_ [HV HR]]]]] _]. pose proof (run_chain k es) as HCh. fold s in HN, HS, HV, HR, HCh.
    destruct (HS g Hg) as [S1 _]. destruct (S1 v hr e Hp) as [Hv _].
    assert (Hx : nth_error (gs s) g = Some (getg s g)) by (unfold getg; apply nth_error_nth'; exact Hg).
    assert (Hnd : gdone (getg s g) = false) by (unfold gdone; now rewrite Hp).
    pose proof (pending_unresolved s g _ HCh HN HV Hx Hnd) as Er.
    split; [exact Hv|]. split; [exact Er|]. split; [destruct HV as [_ [V2 _]]; apply (V2 Er)|]. split.
    - intros r x er Hr El. destruct HR as [_ [[R2 _] _]]. destruct (R2 r x (S g) er Hr El) as [Z|[g' [G1 [_ G3]]]]; [discriminate|].
      assert (g' = g) by lia. subst g'. congruence.
    - intros r x v' e' Hr Hin. destruct HR as [_ [[_ R4] _]]. exact (R4 Er r x v' e' Hr Hin).
  Qed.
End C08.
