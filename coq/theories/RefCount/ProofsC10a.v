(* refcount: Access (C10).  Linking of consumers and their references, the reference of a running Access call stays
   in the set, Access's private state mirrors the container, and what that gives for the callback. *)
From Util Require Import Common.Base Common.ListLemmas RefCount.Model RefCount.Proofs RefCount.ProofsC08 RefCount.ProofsC10.

(* ------------------------------------------------------------------ *)
(* Any state predicate that depends only on references, release actors and consumers and that reference callbacks
   preserve is preserved by every section of the container itself. *)
Section StPres.
  Variable Q : st -> Prop.
  Hypothesis Qext : forall s s', refs s' = refs s -> relacts s' = relacts s -> conss s' = conss s -> Q s -> Q s'.
  Hypothesis Qinv : forall s r n, Q s -> Q (invoke s r n).

  Lemma S_cbs_fold n rs : forall s, Q s -> Q (fold_left (cbs_fold n) rs s).
  Proof.
    induction rs as [|r rs IH]; intros s H; [exact H|]. cbn [fold_left]. apply IH. unfold cbs_fold.
    destruct (rin (nth r (refs s) ref0)); [now apply Qinv | exact H].
  Qed.

  Lemma S_call_cbs s n : Q s -> Q (call_cbs s n).
  Proof. rewrite call_cbs_fold. apply S_cbs_fold. Qed.

  Lemma S_clear_resolved s : Q s -> Q (clear_resolved s).
  Proof.
    intros H. unfold clear_resolved. set (s1 := if resolved s then _ else s).
    assert (H1 : Q s1).
    { unfold s1. destruct (resolved s); [|exact H]. apply S_call_cbs. apply (Qext s); auto. }
    destruct (cancel_g_rest s1 (rcancel s1)) as [_ [_ [G3 [_ [_ [_ [_ [_ [_ [_ [_ [_ [_ [_ [G15 [_ [G17 _]]]]]]]]]]]]]]]]].
    set (s2 := set_rcancel (cancel_g s1 (rcancel s1)) None).
    assert (H2 : Q s2) by (apply (Qext s1); auto).
    destruct (vrel s2); [|exact H2]. apply (Qext s2); auto.
  Qed.

  Lemma S_shutdown s : Q s -> Q (shutdown s).
  Proof. intros H. unfold shutdown. apply S_clear_resolved. apply (Qext s); auto. Qed.

  Lemma S_start_resolve s : Q s -> Q (start_resolve s).
  Proof.
    intros H. unfold start_resolve. pose proof (S_shutdown s H) as H1. set (s1 := shutdown s) in *.
    destruct (Nat.eqb (kctx s1) 0 || Nat.eqb (nrefs s1) 0); [exact H1|]. apply (Qext s1); auto.
  Qed.

  Lemma S_released_section s n : Q s -> Q (released_section s n).
  Proof. intros H. unfold released_section. destruct (Nat.eqb (nonce s) n); [now apply S_start_resolve | exact H]. Qed.

  Lemma S_proceed s g en : Q s -> Q (proceed repaired s g en).
  Proof.
    intros H. unfold proceed. destruct (nth_error (gs s) g) as [x|]; [|exact H].
    assert (E : forall y, Q (setg s g y)) by (intros y; apply (Qext s); auto).
    destruct (gpcv x); try exact H.
    - destruct (gwait x); [|apply E]. destruct (pred_done s x && gcanc x); [destruct en; apply E|].
      destruct (pred_done s x); [apply E|]. destruct (gcanc x); apply E.
    - destruct (pred_done s x || gcanc x); [|exact H].
      destruct (gwait x); [|apply E]. destruct (pred_done s x && gcanc x); [destruct en; apply E|].
      destruct (pred_done s x); [apply E|]. destruct (gcanc x); apply E.
    - destruct (pred_done s x); [apply E | exact H].
  Qed.

  Lemma S_store s g : Q s -> Q (store s g).
  Proof.
    intros H. unfold store. destruct (nth_error (gs s) g) as [x|]; [|exact H]. destruct (gpcv x); try exact H.
    set (s0 := setg s g (with_gpc x GDone)). assert (H0 : Q s0) by (apply (Qext s); auto).
    destruct (negb (Nat.eqb (nonce s0) (gnonce x))); [destruct hasrel; [apply (Qext s0); auto | exact H0]|].
    apply S_call_cbs. destruct (Nat.eqb e 0); apply (Qext s0); auto.
  Qed.

  (* AddRef / removeRef, given the predicate for the state with the reference added / taken out *)
  Lemma S_add_ref s k : Q (set_refs s (refs s ++ [newref k])) -> Q (add_ref repaired s k).
  Proof.
    intros H1. unfold add_ref. fold (newref k). set (s1 := set_refs s (refs s ++ [newref k])) in *.
    destruct (Nat.eqb (nrefs s1) 1 && negb (resolved s1)); [now apply S_start_resolve|].
    destruct (resolved s1); [|exact H1]. destruct k; cbn [fx_nilcb repaired]; try exact H1; now apply Qinv.
  Qed.

  Lemma S_remove_ref s r :
    Q s ->
    (forall x, nth_error (refs s) r = Some x -> rin x = true ->
       Q (set_refs s (set_nth (refs s) r {| rin := false; rflag := rflag x; rkind := rkind x; rlast := rlast x |}))) ->
    Q (remove_ref s r).
  Proof.
    intros H H1. unfold remove_ref. destruct (nth_error (refs s) r) as [x|]; [|exact H]. destruct (rin x) eqn:Ein; [|exact H].
    specialize (H1 x eq_refl Ein). set (s1 := set_refs s _) in *.
    destruct (Nat.eqb (nrefs s1) 0 && _); [now apply S_shutdown | exact H1].
  Qed.

  (* the sections that belong neither to a consumer nor to a reference's own Release *)
  Lemma S_step_container s e :
    match e with
    | ESetCtx _ | EReleased _ | EAsync _ | EProceed _ _ | EResReturn _ _ _ _ | EStore _ => True
    | _ => False
    end -> Q s -> Q (step repaired s e).
  Proof.
    intros He H. destruct e; try contradiction; cbn [step].
    - unfold set_context. destruct (Nat.eqb (kctx s) c); [exact H|]. cbn [fst]. apply S_start_resolve. apply (Qext s); auto.
    - destruct (nth_error (gs s) g); [now apply S_released_section | exact H].
    - unfold async_section. destruct (nth_error (asyncs s) a) as [x|]; [|exact H]. destruct (as_pc x); [|exact H].
      apply S_released_section. apply (Qext s); auto.
    - now apply S_proceed.
    - unfold resolver_return. destruct (nth_error (gs s) g) as [x|]; [|exact H]. destruct (gpcv x); try exact H. apply (Qext s); auto.
    - now apply S_store.
  Qed.
End StPres.

(* ------------------------------------------------------------------ *)
(* the footprint of the container's own sections on references, release actors and consumers *)
Definition rref (s : st) (r : nat) : ref := nth r (refs s) ref0.
Definition cons_of_kind (k : cbkind) : option nat := match k with KWait c | KWwr c | KAccess c => Some c | _ => None end.
Definition ref_of_kind (k : ckind) (c : nat) : cbkind := match k with CKWait => KWait c | CKWwr => KWwr c | CKAccess => KAccess c end.
Definition attached_pc (p : cpc) : bool := match p with CBlocked | CAccWait | CAccCb _ => true | _ => false end.

Definition fp (s s' : st) : Prop :=
  relacts s' = relacts s /\ length (refs s') = length (refs s) /\ length (conss s') = length (conss s) /\
  (forall q, rkind (rref s' q) = rkind (rref s q) /\ rin (rref s' q) = rin (rref s q) /\
             (rflag (rref s q) = true -> rflag (rref s' q) = true) /\
             (rflag (rref s' q) = true -> rflag (rref s q) = true \/ exists c, rkind (rref s q) = KWwr c)) /\
  (forall c, ck (getc s' c) = ck (getc s c) /\ cref (getc s' c) = cref (getc s c) /\ cpcv (getc s' c) = cpcv (getc s c) /\
             ccanc (getc s' c) = ccanc (getc s c)) /\
  (forall c, ww_firepc (getc s' c) = Some RGate -> ww_firepc (getc s c) = Some RGate \/
             exists r, r < length (refs s) /\ rkind (rref s r) = KWwr c /\ rflag (rref s' r) = true).

Lemma fp_refl s : fp s s.
Proof. unfold fp. repeat split; auto. Qed.

Lemma fp_ext s s' : refs s' = refs s -> relacts s' = relacts s -> conss s' = conss s -> fp s s'.
Proof. intros E1 E2 E3. unfold fp, rref, getc. rewrite E1, E2, E3. repeat split; auto. Qed.

Lemma fp_trans s1 s2 s3 : fp s1 s2 -> fp s2 s3 -> fp s1 s3.
Proof.
  intros [A1 [A2 [A3 [A4 [A5 A6]]]]] [B1 [B2 [B3 [B4 [B5 B6]]]]]. unfold fp.
  split; [congruence|]. split; [congruence|]. split; [congruence|]. split; [|split].
  - intros q. destruct (A4 q) as [P1 [P2 [P3 P4]]]. destruct (B4 q) as [Q1 [Q2 [Q3 Q4]]].
    split; [congruence|]. split; [congruence|]. split; [auto|].
    intros H. destruct (Q4 H) as [H'|[c Hc]]; [exact (P4 H') | right; exists c; congruence].
  - intros c. destruct (A5 c) as [P1 [P2 [P3 P4]]]. destruct (B5 c) as [Q1 [Q2 [Q3 Q4]]]. repeat split; congruence.
  - intros c H. destruct (B6 c H) as [H'|[r [R1 [R2 R3]]]]; [destruct (A6 c H') as [H''|[r [R1 [R2 R3]]]]|].
    + now left.
    + right. exists r. split; [exact R1|]. split; [exact R2|]. destruct (B4 r) as [_ [_ [Q3 _]]]. auto.
    + right. exists r. split; [lia|]. split; [destruct (A4 r) as [P1 _]; congruence | exact R3].
Qed.

Lemma rref_set_nth s r y q :
  r < length (refs s) -> rref (set_refs s (set_nth (refs s) r y)) q = if Nat.eqb q r then y else rref s q.
Proof.
  intros Hl. unfold rref. cbn [refs set_refs]. destruct (Nat.eqb_spec q r) as [->|Hne];
    [now apply nth_set_nth_same | now apply nth_set_nth_other].
Qed.

Lemma getc_setc s c y c' :
  c < length (conss s) -> getc (setc s c y) c' = if Nat.eqb c' c then y else getc s c'.
Proof.
  intros Hl. unfold getc. rewrite conss_setc. destruct (Nat.eqb_spec c' c) as [->|Hne];
    [now apply nth_set_nth_same | now apply nth_set_nth_other].
Qed.

Lemma getc_setc_oob s c y c' : length (conss s) <= c -> getc (setc s c y) c' = getc s c'.
Proof. intros Hl. unfold getc. rewrite conss_setc, set_nth_oob by exact Hl. reflexivity. Qed.

(* a reference keeps kind and membership; its flag does not go down, and goes up only for a WaitWithReleased reference *)
Lemma fp_refs_upd s s' r x y :
  relacts s' = relacts s -> conss s' = conss s -> refs s' = set_nth (refs s) r y -> nth_error (refs s) r = Some x ->
  rkind y = rkind x -> rin y = rin x -> (rflag x = true -> rflag y = true) ->
  (rflag y = true -> rflag x = true \/ exists c, rkind x = KWwr c) -> fp s s'.
Proof.
  intros E1 E2 E3 Hx K1 K2 K3 K4. assert (Hl : r < length (refs s)) by (eapply nth_error_nth_len; eauto).
  assert (Ex : rref s r = x) by (unfold rref; now apply nth_error_nth).
  assert (R : forall q, rref s' q = if Nat.eqb q r then y else rref s q).
  { intros q. unfold rref. rewrite E3. destruct (Nat.eqb_spec q r) as [->|Hne]; [now apply nth_set_nth_same | now apply nth_set_nth_other]. }
  unfold fp. split; [exact E1|]. split; [rewrite E3; apply length_set_nth|]. split; [now rewrite E2|]. split; [|split].
  - intros q. rewrite R. destruct (Nat.eqb_spec q r) as [->|Hne]; [rewrite Ex; auto | auto].
  - intros c. unfold getc. rewrite E2. auto.
  - intros c H. left. unfold getc in *. now rewrite E2 in H.
Qed.

(* a consumer keeps kind, reference, program point and cancellation; its fire goroutine is not spawned *)
Lemma fp_conss_upd s s' c y :
  relacts s' = relacts s -> refs s' = refs s -> conss s' = set_nth (conss s) c y ->
  ck y = ck (getc s c) -> cref y = cref (getc s c) -> cpcv y = cpcv (getc s c) -> ccanc y = ccanc (getc s c) ->
  (ww_firepc y = Some RGate -> ww_firepc (getc s c) = Some RGate) -> fp s s'.
Proof.
  intros E1 E2 E3 K1 K2 K3 K4 K5.
  assert (R : forall c', getc s' c' = getc s c' \/ (c' = c /\ getc s' c' = y)).
  { intros c'. unfold getc. rewrite E3. destruct (Nat.lt_ge_cases c (length (conss s))) as [Hl|Hl].
    - destruct (Nat.eq_dec c' c) as [->|Hne]; [right; split; [reflexivity | now apply nth_set_nth_same] | left; now apply nth_set_nth_other].
    - left. now rewrite set_nth_oob. }
  unfold fp. split; [exact E1|]. split; [now rewrite E2|]. split; [rewrite E3; apply length_set_nth|]. split; [|split].
  - intros q. unfold rref. rewrite E2. auto.
  - intros c'. destruct (R c') as [->|[-> ->]]; auto.
  - intros c' H. left. destruct (R c') as [E|[-> E]]; rewrite E in H; auto.
Qed.

Lemma fp_set_last s r n : fp s (set_last s r n).
Proof.
  unfold set_last. destruct (nth_error (refs s) r) as [x|] eqn:E; [|apply fp_refl].
  apply (fp_refs_upd s _ r x {| rin := rin x; rflag := rflag x; rkind := rkind x; rlast := Some n |}); auto.
Qed.

Lemma fp_setc_keep s c y :
  ck y = ck (getc s c) -> cref y = cref (getc s c) -> cpcv y = cpcv (getc s c) -> ccanc y = ccanc (getc s c) ->
  (ww_firepc y = Some RGate -> ww_firepc (getc s c) = Some RGate) -> fp s (setc s c y).
Proof. intros. apply (fp_conss_upd s _ c y); auto. Qed.

Lemma cb_wwr_keep x n cur :
  ck (fst (cb_wwr x n cur)) = ck x /\ cref (fst (cb_wwr x n cur)) = cref x /\ cpcv (fst (cb_wwr x n cur)) = cpcv x /\
  ccanc (fst (cb_wwr x n cur)) = ccanc x /\ ww_firepc (fst (cb_wwr x n cur)) = ww_firepc x.
Proof.
  unfold cb_wwr. destruct (ww_res x).
  - destruct (_ && negb (ww_once x)); cbn; auto.
  - destruct n; cbn; auto.
Qed.

Lemma cb_access_keep x n :
  ck (cb_access x n) = ck x /\ cref (cb_access x n) = cref x /\ cpcv (cb_access x n) = cpcv x /\
  ccanc (cb_access x n) = ccanc x /\ ww_firepc (cb_access x n) = ww_firepc x.
Proof.
  unfold cb_access. destruct n as [|v e].
  - destruct (Bool.eqb false (ac_res x) && Nat.eqb 0 (ac_val x) && Nat.eqb 0 (ac_err x)); cbn; auto.
  - destruct (Bool.eqb true (ac_res x) && Nat.eqb v (ac_val x) && Nat.eqb e (ac_err x)); cbn; auto.
Qed.

Lemma fp_invoke s r n : fp s (invoke s r n).
Proof.
  unfold invoke. destruct (nth_error (refs s) r) as [x|] eqn:E; [|apply fp_refl].
  pose proof (fp_set_last s r n) as F1. set (s1 := set_last s r n) in *.
  assert (G1 : forall c, getc s1 c = getc s c) by (intros c; apply getc_set_last).
  destruct (rkind x) as [| | |c|c|c] eqn:K; [apply fp_refl | exact F1 | | | |].
  - destruct n; [exact F1|]. apply (fp_trans s s1); [exact F1 | now apply fp_ext].
  - apply (fp_trans s s1); [exact F1|]. apply fp_setc_keep; rewrite G1; cbn; auto.
  - destruct (cb_wwr_keep (getc s1 c) n (nonce s1)) as [W1 [W2 [W3 [W4 W5]]]].
    destruct (cb_wwr (getc s1 c) n (nonce s1)) as [y fired]. cbn [fst] in *.
    destruct fired; [destruct (rflag x) eqn:Ef|].
    + apply (fp_trans s s1); [exact F1|]. apply fp_setc_keep; cbn; auto. discriminate.
    + (* the goroutine is spawned: it takes the release flag at once *)
      assert (Hl : r < length (refs s)) by (eapply nth_error_nth_len; eauto).
      assert (Ex : rref s r = x) by (unfold rref; now apply nth_error_nth).
      set (x1 := {| rin := rin x; rflag := true; rkind := KWwr c; rlast := Some n |}).
      set (s2 := set_refs s1 (set_nth (refs s1) r x1)).
      assert (R1 : refs s1 = set_nth (refs s) r {| rin := rin x; rflag := rflag x; rkind := rkind x; rlast := Some n |}) by (apply set_last_refs; exact E).
      assert (F2 : fp s s2).
      { assert (Q1 : relacts s2 = relacts s) by (unfold s2, s1; cbn [relacts set_refs]; apply (rest_fields s _ (rest_set_last s r n))).
        assert (Q2 : conss s2 = conss s) by (unfold s2, s1; cbn [conss set_refs]; apply conss_set_last).
        assert (Q3 : refs s2 = set_nth (refs s) r x1).
        { unfold s2. cbn [refs set_refs]. rewrite R1. clear. generalize (refs s). intros l. revert r.
          induction l as [|h t IH]; intros [|r]; simpl; auto. now rewrite IH. }
        apply (fp_refs_upd s s2 r x x1 Q1 Q2 Q3 E).
        - cbn. now rewrite K.
        - reflexivity.
        - reflexivity.
        - intros _. right. exists c. exact K. }
      destruct F2 as [A1 [A2 [A3 [A4 [A5 A6]]]]].
      assert (G2 : forall c', getc s2 c' = getc s c') by (intros c'; unfold getc, s2, s1; cbn [conss set_refs]; now rewrite conss_set_last).
      unfold fp. split; [exact A1|]. split; [exact A2|]. split; [rewrite conss_setc, length_set_nth; exact A3|]. split; [|split].
      * intros q. change (rref (setc s2 c (with_fire y (ww_fired y) (Some RGate))) q) with (rref s2 q). apply A4.
      * intros c'. destruct (Nat.lt_ge_cases c (length (conss s2))) as [Hc|Hc].
        -- rewrite getc_setc by exact Hc. destruct (Nat.eqb_spec c' c) as [->|Hne]; [|rewrite G2; auto].
           cbn [ck cref cpcv ccanc with_fire]. rewrite W1, W2, W3, W4, G1. auto.
        -- rewrite getc_setc_oob by exact Hc. rewrite G2. auto.
      * intros c' H. destruct (Nat.lt_ge_cases c (length (conss s2))) as [Hc|Hc].
        -- rewrite getc_setc in H by exact Hc. destruct (Nat.eqb_spec c' c) as [Heq|Hne]; [subst c'|rewrite G2 in H; now left].
           right. exists r. split; [exact Hl|]. split; [now rewrite Ex|].
           change (rref (setc s2 c (with_fire y (ww_fired y) (Some RGate))) r) with (rref s2 r).
           unfold s2. rewrite rref_set_nth by (rewrite R1, length_set_nth; exact Hl). now rewrite Nat.eqb_refl.
        -- rewrite getc_setc_oob in H by exact Hc. rewrite G2 in H. now left.
    + apply (fp_trans s s1); [exact F1|]. apply fp_setc_keep; rewrite ?W1, ?W2, ?W3, ?W4, ?W5; auto.
  - destruct (cb_access_keep (getc s c) n) as [W1 [W2 [W3 [W4 W5]]]].
    apply (fp_trans s s1); [exact F1|]. apply fp_setc_keep; rewrite G1, ?W1, ?W2, ?W3, ?W4, ?W5; auto.
Qed.

Lemma fp_Qext s0 s s' : refs s' = refs s -> relacts s' = relacts s -> conss s' = conss s -> fp s0 s -> fp s0 s'.
Proof. intros E1 E2 E3 H. apply (fp_trans s0 s); [exact H | now apply fp_ext]. Qed.
Lemma fp_Qinv s0 s r n : fp s0 s -> fp s0 (invoke s r n).
Proof. intros H. apply (fp_trans s0 s); [exact H | apply fp_invoke]. Qed.

(* ------------------------------------------------------------------ *)
(* Linking and flags:
   A1/A2  a consumer's reference has the consumer's callback, and only that reference has it;
   A3     while an Access call is running (before its final Release) its reference is in the set, not released;
   A4/A5  a Release parked before removeRef, and the goroutine spawned by WaitWithReleased, hold the release flag. *)
Definition InvA (s : st) : Prop :=
  (forall c x, nth_error (conss s) c = Some x -> cref x < length (refs s) /\ rkind (rref s (cref x)) = ref_of_kind (ck x) c) /\
  (forall r c, r < length (refs s) -> cons_of_kind (rkind (rref s r)) = Some c -> c < length (conss s) /\ cref (getc s c) = r) /\
  (forall c x, nth_error (conss s) c = Some x -> ck x = CKAccess -> attached_pc (cpcv x) = true ->
     rflag (rref s (cref x)) = false /\ rin (rref s (cref x)) = true) /\
  (forall a y, nth_error (relacts s) a = Some y -> ra_ref y < length (refs s) /\ (ra_pc y = RGate -> rflag (rref s (ra_ref y)) = true)) /\
  (forall c x, nth_error (conss s) c = Some x -> ww_firepc x = Some RGate -> rflag (rref s (cref x)) = true).

Lemma getc_iff s c x : nth_error (conss s) c = Some x <-> c < length (conss s) /\ getc s c = x.
Proof.
  split.
  - intros H. destruct (getc_nth_error s c x H) as [A B]. auto.
  - intros [Hl <-]. unfold getc. now apply nth_error_nth'.
Qed.

Lemma ref_of_kind_cons k c : cons_of_kind (ref_of_kind k c) = Some c.
Proof. destruct k; reflexivity. Qed.

Lemma InvA_fp s s' : fp s s' -> InvA s -> InvA s'.
Proof.
  intros [F1 [F2 [F3 [F4 [F5 F6]]]]] [A1 [A2 [A3 [A4 A5]]]].
  assert (B : forall c x', nth_error (conss s') c = Some x' ->
            exists x, nth_error (conss s) c = Some x /\ ck x' = ck x /\ cref x' = cref x /\ cpcv x' = cpcv x /\
                      (ww_firepc x' = Some RGate -> ww_firepc x = Some RGate \/
                       exists r, r < length (refs s) /\ rkind (rref s r) = KWwr c /\ rflag (rref s' r) = true)).
  { intros c x' Hx'. apply getc_iff in Hx'. destruct Hx' as [Hl Ex']. exists (getc s c). split; [apply getc_iff; split; [lia | reflexivity]|].
    destruct (F5 c) as [P1 [P2 [P3 _]]]. rewrite <- Ex'. split; [exact P1|]. split; [exact P2|]. split; [exact P3|]. apply F6. }
  split; [|split; [|split; [|split]]].
  - intros c x' Hx'. destruct (B c x' Hx') as [x [Hx [K1 [K2 _]]]]. destruct (A1 c x Hx) as [P1 P2]. rewrite F2, K1, K2.
    split; [exact P1|]. destruct (F4 (cref x)) as [Q1 _]. congruence.
  - intros r c Hr Hk. rewrite F2 in Hr. destruct (F4 r) as [Q1 _]. rewrite Q1 in Hk. destruct (A2 r c Hr Hk) as [P1 P2].
    rewrite F3. split; [exact P1|]. destruct (F5 c) as [_ [R2 _]]. congruence.
  - intros c x' Hx' Hk Hp. destruct (B c x' Hx') as [x [Hx [K1 [K2 [K3 _]]]]]. rewrite K2. rewrite K1 in Hk. rewrite K3 in Hp.
    destruct (A3 c x Hx Hk Hp) as [P1 P2]. destruct (F4 (cref x)) as [_ [Q2 [_ Q4]]]. split; [|congruence].
    destruct (rflag (rref s' (cref x))) eqn:Ef; [|reflexivity]. exfalso.
    destruct (Q4 eq_refl) as [H|[c' H]]; [congruence|]. destruct (A1 c x Hx) as [_ P3]. rewrite Hk in P3. cbn in P3. congruence.
  - intros a y Hy. rewrite F1 in Hy. destruct (A4 a y Hy) as [P1 P2]. rewrite F2. split; [exact P1|]. intros Hp.
    destruct (F4 (ra_ref y)) as [_ [_ [Q3 _]]]. apply Q3. exact (P2 Hp).
  - intros c x' Hx' Hf. destruct (B c x' Hx') as [x [Hx [_ [K2 [_ K5]]]]]. rewrite K2.
    destruct (K5 Hf) as [H|[r [R1 [R2 R3]]]].
    + destruct (F4 (cref x)) as [_ [_ [Q3 _]]]. apply Q3. exact (A5 c x Hx H).
    + assert (Hk : cons_of_kind (rkind (rref s r)) = Some c) by (now rewrite R2). destruct (A2 r c R1 Hk) as [_ P2].
      apply getc_iff in Hx. destruct Hx as [_ Ex]. rewrite Ex in P2. now rewrite P2.
Qed.

Lemma InvA_Qext s s' : refs s' = refs s -> relacts s' = relacts s -> conss s' = conss s -> InvA s -> InvA s'.
Proof. intros E1 E2 E3. apply InvA_fp. now apply fp_ext. Qed.
Lemma InvA_Qinv s r n : InvA s -> InvA (invoke s r n).
Proof. apply InvA_fp. apply fp_invoke. Qed.

(* (M1) a consumer is replaced by one with the same kind and reference that is attached / about to fire only if it was *)
Lemma InvA_setc s c y :
  InvA s -> ck y = ck (getc s c) -> cref y = cref (getc s c) ->
  (ck y = CKAccess -> attached_pc (cpcv y) = true -> attached_pc (cpcv (getc s c)) = true) ->
  (ww_firepc y = Some RGate -> ww_firepc (getc s c) = Some RGate) -> InvA (setc s c y).
Proof.
  intros [A1 [A2 [A3 [A4 A5]]]] K1 K2 K3 K4.
  destruct (Nat.lt_ge_cases c (length (conss s))) as [Hc|Hc].
  2:{ apply (InvA_Qext s); auto; [rewrite conss_setc; now apply set_nth_oob | exact (conj A1 (conj A2 (conj A3 (conj A4 A5))))]. }
  assert (Hx : nth_error (conss s) c = Some (getc s c)) by (apply getc_iff; auto).
  assert (B : forall c' x', nth_error (conss (setc s c y)) c' = Some x' ->
            (c' <> c /\ nth_error (conss s) c' = Some x') \/ (c' = c /\ x' = y)).
  { intros c' x' H. rewrite conss_setc in H. destruct (Nat.eq_dec c' c) as [->|Hne].
    - right. rewrite nth_error_set_nth_same in H by exact Hc. split; congruence.
    - left. rewrite nth_error_set_nth_other in H by exact Hne. auto. }
  change (rref (setc s c y)) with (rref s). change (refs (setc s c y)) with (refs s). change (relacts (setc s c y)) with (relacts s).
  split; [|split; [|split; [|split]]].
  - intros c' x' H. destruct (B c' x' H) as [[_ H0]|[-> ->]]; [exact (A1 c' x' H0)|]. rewrite K1, K2. exact (A1 c _ Hx).
  - intros r c' Hr Hk. destruct (A2 r c' Hr Hk) as [P1 P2]. rewrite conss_setc, length_set_nth. split; [exact P1|].
    rewrite getc_setc by exact Hc. destruct (Nat.eqb_spec c' c) as [->|Hne]; [congruence | exact P2].
  - intros c' x' H Hk Hp. destruct (B c' x' H) as [[_ H0]|[-> ->]]; [exact (A3 c' x' H0 Hk Hp)|]. rewrite K2.
    apply (A3 c _ Hx); [congruence | now apply K3].
  - exact A4.
  - intros c' x' H Hf. destruct (B c' x' H) as [[_ H0]|[-> ->]]; [exact (A5 c' x' H0 Hf)|]. rewrite K2. exact (A5 c _ Hx (K4 Hf)).
Qed.

(* (M2) a Release takes the flag of a reference that is not the reference of a running Access call *)
Lemma InvA_release_call_by s r oc :
  InvA s -> (forall c x, nth_error (conss s) c = Some x -> ck x = CKAccess -> attached_pc (cpcv x) = true -> cref x <> r) ->
  InvA (fst (release_call_by s r oc)).
Proof.
  intros H Hne. unfold release_call_by. destruct (nth_error (refs s) r) as [x|] eqn:Ex; [|exact H]. destruct (rflag x); [exact H|]. cbn [fst].
  destruct H as [A1 [A2 [A3 [A4 A5]]]]. assert (Hl : r < length (refs s)) by (eapply nth_error_nth_len; eauto).
  set (y := {| rin := rin x; rflag := true; rkind := rkind x; rlast := rlast x |}).
  set (s' := set_relacts (set_refs s (set_nth (refs s) r y)) _).
  assert (Exx : rref s r = x) by (unfold rref; now apply nth_error_nth).
  assert (R : forall q, rref s' q = if Nat.eqb q r then y else rref s q) by (intros q; apply (rref_set_nth s r y q Hl)).
  assert (RK : forall q, rkind (rref s' q) = rkind (rref s q) /\ rin (rref s' q) = rin (rref s q) /\ (rflag (rref s q) = true -> rflag (rref s' q) = true)).
  { intros q. rewrite R. destruct (Nat.eqb_spec q r) as [->|]; [rewrite Exx; auto | auto]. }
  assert (L : length (refs s') = length (refs s)) by (unfold s'; cbn [refs set_relacts set_refs]; apply length_set_nth).
  change (conss s') with (conss s). change (getc s') with (getc s).
  split; [|split; [|split; [|split]]].
  - intros c z Hz. destruct (A1 c z Hz) as [P1 P2]. rewrite L. split; [exact P1|]. destruct (RK (cref z)) as [Q1 _]. congruence.
  - intros q c Hq Hk. rewrite L in Hq. destruct (RK q) as [Q1 _]. rewrite Q1 in Hk. exact (A2 q c Hq Hk).
  - intros c z Hz Hk Hp. destruct (A3 c z Hz Hk Hp) as [P1 P2]. rewrite R. destruct (Nat.eqb_spec (cref z) r) as [E|_]; [exfalso; exact (Hne c z Hz Hk Hp E) | auto].
  - intros a z Hz. unfold s' in Hz. cbn [relacts set_relacts] in Hz. rewrite L. destruct (nth_error_snoc_cases _ _ _ _ Hz) as [[_ H0]|[_ ->]].
    + destruct (A4 a z H0) as [P1 P2]. split; [exact P1|]. intros Hp. destruct (RK (ra_ref z)) as [_ [_ Q3]]. apply Q3. exact (P2 Hp).
    + cbn [ra_ref]. split; [exact Hl|]. intros _. rewrite R, Nat.eqb_refl. reflexivity.
  - intros c z Hz Hf. destruct (RK (cref z)) as [_ [_ Q3]]. apply Q3. exact (A5 c z Hz Hf).
Qed.

(* (M3) removeRef of a reference whose flag is taken *)
Lemma InvA_rin_false s r x :
  InvA s -> nth_error (refs s) r = Some x -> rflag x = true ->
  InvA (set_refs s (set_nth (refs s) r {| rin := false; rflag := rflag x; rkind := rkind x; rlast := rlast x |})).
Proof.
  intros [A1 [A2 [A3 [A4 A5]]]] Ex Hf. assert (Hl : r < length (refs s)) by (eapply nth_error_nth_len; eauto).
  set (y := {| rin := false; rflag := rflag x; rkind := rkind x; rlast := rlast x |}). set (s' := set_refs s (set_nth (refs s) r y)).
  assert (Exx : rref s r = x) by (unfold rref; now apply nth_error_nth).
  assert (R : forall q, rref s' q = if Nat.eqb q r then y else rref s q) by (intros q; apply (rref_set_nth s r y q Hl)).
  assert (RK : forall q, rkind (rref s' q) = rkind (rref s q) /\ rflag (rref s' q) = rflag (rref s q)).
  { intros q. rewrite R. destruct (Nat.eqb_spec q r) as [->|]; [rewrite Exx; auto | auto]. }
  assert (L : length (refs s') = length (refs s)) by (unfold s'; cbn [refs set_refs]; apply length_set_nth).
  change (conss s') with (conss s). change (getc s') with (getc s). change (relacts s') with (relacts s).
  split; [|split; [|split; [|split]]].
  - intros c z Hz. destruct (A1 c z Hz) as [P1 P2]. rewrite L. split; [exact P1|]. destruct (RK (cref z)) as [Q1 _]. congruence.
  - intros q c Hq Hk. rewrite L in Hq. destruct (RK q) as [Q1 _]. rewrite Q1 in Hk. exact (A2 q c Hq Hk).
  - intros c z Hz Hk Hp. destruct (A3 c z Hz Hk Hp) as [P1 P2]. destruct (RK (cref z)) as [_ Q2]. split; [congruence|].
    rewrite R. destruct (Nat.eqb_spec (cref z) r) as [E|_]; [|exact P2]. rewrite E, Exx in P1. congruence.
  - intros a z Hz. destruct (A4 a z Hz) as [P1 P2]. rewrite L. split; [exact P1|]. intros Hp. destruct (RK (ra_ref z)) as [_ Q2]. rewrite Q2. exact (P2 Hp).
  - intros c z Hz Hf'. destruct (RK (cref z)) as [_ Q2]. rewrite Q2. exact (A5 c z Hz Hf').
Qed.

(* (M4) a release actor finishes *)
Lemma InvA_relact_done s a y : InvA s -> ra_pc y = RDone -> ra_ref y < length (refs s) -> InvA (set_relacts s (set_nth (relacts s) a y)).
Proof.
  intros [A1 [A2 [A3 [A4 A5]]]] Hy Hr. split; [exact A1|]. split; [exact A2|]. split; [exact A3|]. split; [|exact A5].
  intros b z Hz. cbn [relacts set_relacts] in Hz. change (rref (set_relacts s _)) with (rref s). change (refs (set_relacts s _)) with (refs s).
  destruct (Nat.lt_ge_cases a (length (relacts s))) as [Hl|Hl].
  - destruct (Nat.eq_dec b a) as [->|Hne].
    + rewrite nth_error_set_nth_same in Hz by exact Hl. inversion Hz; subst z. split; [exact Hr | congruence].
    + rewrite nth_error_set_nth_other in Hz by exact Hne. exact (A4 b z Hz).
  - rewrite set_nth_oob in Hz by exact Hl. exact (A4 b z Hz).
Qed.

Lemma rref_app_old s l q : q < length (refs s) -> rref (set_refs s (refs s ++ l)) q = rref s q.
Proof. intros H. unfold rref. cbn [refs set_refs]. now apply app_nth1. Qed.
Lemma rref_app_new s y : rref (set_refs s (refs s ++ [y])) (length (refs s)) = y.
Proof. unfold rref. cbn [refs set_refs]. rewrite app_nth2 by lia. now rewrite Nat.sub_diag. Qed.

(* (M5/M6) a new reference, possibly the reference of a new consumer *)
Lemma InvA_new_ref s k oc :
  InvA s ->
  match oc with
  | None => cons_of_kind k = None
  | Some kc => k = ref_of_kind kc (length (conss s))
  end ->
  InvA (set_refs (match oc with Some kc => set_conss s (conss s ++ [new_cons kc (length (refs s))]) | None => s end)
                 (refs s ++ [newref k])).
Proof.
  intros [A1 [A2 [A3 [A4 A5]]]] Hk.
  set (s1 := match oc with Some kc => set_conss s (conss s ++ [new_cons kc (length (refs s))]) | None => s end).
  assert (E1 : refs s1 = refs s) by (unfold s1; destruct oc; reflexivity).
  assert (E2 : relacts s1 = relacts s) by (unfold s1; destruct oc; reflexivity).
  set (s' := set_refs s1 (refs s ++ [newref k])).
  assert (RO : forall q, q < length (refs s) -> rref s' q = rref s q) by (intros q Hq; unfold rref, s'; cbn [refs set_refs]; now apply app_nth1).
  assert (RN : rref s' (length (refs s)) = newref k) by (unfold rref, s'; cbn [refs set_refs]; rewrite app_nth2 by lia; now rewrite Nat.sub_diag).
  assert (L : length (refs s') = S (length (refs s))) by (unfold s'; cbn [refs set_refs]; rewrite app_length; cbn; lia).
  assert (CO : forall c z, nth_error (conss s') c = Some z ->
                 nth_error (conss s) c = Some z \/ (exists kc, oc = Some kc /\ c = length (conss s) /\ z = new_cons kc (length (refs s)))).
  { intros c z Hz. unfold s', s1 in Hz. destruct oc as [kc|]; cbn [conss set_refs set_conss] in Hz; [|now left].
    destruct (nth_error_snoc_cases _ _ _ _ Hz) as [[_ H0]|[H1 H2]]; [now left | right; eauto]. }
  assert (E3 : relacts s' = relacts s) by (unfold s'; cbn [relacts set_refs]; exact E2).
  split; [|split; [|split; [|split]]].
  - intros c z Hz. rewrite L. destruct (CO c z Hz) as [H0|[kc [-> [-> ->]]]].
    + destruct (A1 c z H0) as [P1 P2]. split; [lia|]. now rewrite RO.
    + cbn [cref new_cons ck]. split; [lia|]. rewrite RN. cbn [rkind newref]. exact Hk.
  - intros q c Hq Hkq. rewrite L in Hq. destruct (Nat.eq_dec q (length (refs s))) as [->|Hne].
    + rewrite RN in Hkq. cbn [rkind newref] in Hkq. destruct oc as [kc|]; [|congruence]. subst k. rewrite ref_of_kind_cons in Hkq. inversion Hkq; subst c.
      unfold s', s1, getc. cbn [conss set_refs set_conss]. rewrite app_length. cbn [length]. split; [lia|].
      rewrite app_nth2 by lia. rewrite Nat.sub_diag. reflexivity.
    + rewrite RO in Hkq by lia. destruct (A2 q c ltac:(lia) Hkq) as [P1 P2].
      unfold s', s1, getc. destruct oc as [kc|]; cbn [conss set_refs set_conss]; [|auto]. rewrite app_length. cbn [length]. split; [lia|].
      rewrite app_nth1 by exact P1. exact P2.
  - intros c z Hz Hkz Hp. destruct (CO c z Hz) as [H0|[kc [-> [-> ->]]]].
    + destruct (A1 c z H0) as [P1 _]. rewrite RO by exact P1. exact (A3 c z H0 Hkz Hp).
    + cbn [cref new_cons]. rewrite RN. cbn. auto.
  - intros a z Hz. rewrite E3 in Hz. destruct (A4 a z Hz) as [P1 P2]. rewrite L. split; [lia|]. intros Hp. rewrite RO by exact P1. exact (P2 Hp).
  - intros c z Hz Hf. destruct (CO c z Hz) as [H0|[kc [-> [-> ->]]]].
    + destruct (A1 c z H0) as [P1 _]. rewrite RO by exact P1. exact (A5 c z H0 Hf).
    + cbn in Hf. discriminate.
Qed.

(* ---- the events ---- *)
Lemma InvA_acc_kind s c x : InvA s -> nth_error (conss s) c = Some x -> ck x = CKAccess -> rkind (rref s (cref x)) = KAccess c.
Proof. intros [A1 _] Hx Hk. destruct (A1 c x Hx) as [_ P]. now rewrite Hk in P. Qed.

(* the reference of consumer c is not the reference of another running Access call *)
Lemma InvA_cref_other s c x :
  InvA s -> nth_error (conss s) c = Some x ->
  forall c' x', nth_error (conss s) c' = Some x' -> ck x' = CKAccess -> c' <> c -> cref x' <> cref x.
Proof.
  intros H Hx c' x' Hx' Hk' Hne E. pose proof (InvA_acc_kind s c' x' H Hx' Hk') as K. destruct H as [A1 _].
  destruct (A1 c x Hx) as [_ P]. rewrite E in K. rewrite K in P. destruct (ck x); cbn in P; congruence.
Qed.

Lemma with_cpc_keep x p : ck (with_cpc x p) = ck x /\ cref (with_cpc x p) = cref x /\ ww_firepc (with_cpc x p) = ww_firepc x /\ cpcv (with_cpc x p) = p.
Proof. cbn. auto. Qed.

(* consumer c gives up: [own release] of its reference *)
Lemma InvA_own_release s c x p e :
  InvA s -> nth_error (conss s) c = Some x -> attached_pc p = false ->
  InvA (let '(s1, parked) := release_call_by (setc s c (with_cpc x (CRel e))) (cref x) (Some c) in
        if parked then s1 else setc s1 c (with_cpc x p)).
Proof.
  intros H Hx Hp. destruct (getc_nth_error s c x Hx) as [Eg Hl].
  assert (H1 : InvA (setc s c (with_cpc x (CRel e)))).
  { apply InvA_setc; [exact H | now rewrite Eg | now rewrite Eg | cbn; discriminate | rewrite Eg; auto]. }
  set (s0 := setc s c (with_cpc x (CRel e))) in *.
  assert (G0 : getc s0 c = with_cpc x (CRel e)) by (unfold s0; rewrite getc_setc by exact Hl; now rewrite Nat.eqb_refl).
  assert (Hx0 : nth_error (conss s0) c = Some (with_cpc x (CRel e))) by (unfold s0; rewrite conss_setc; now apply nth_error_set_nth_same).
  pose proof (InvA_release_call_by s0 (cref x) (Some c) H1) as G.
  pose proof (conss_release_call_by s0 (cref x) (Some c)) as GC.
  destruct (release_call_by s0 (cref x) (Some c)) as [s1 parked]. cbn [fst] in G, GC.
  assert (H2 : InvA s1).
  { apply G. intros c' x' Hx' Hk' Hp'. destruct (Nat.eq_dec c' c) as [->|Hne].
    - assert (x' = with_cpc x (CRel e)) by congruence. subst x'. cbn in Hp'. discriminate.
    - apply (InvA_cref_other s0 c (with_cpc x (CRel e)) H1 Hx0 c' x' Hx' Hk' Hne). }
  destruct parked; [exact H2|].
  assert (G1 : getc s1 c = with_cpc x (CRel e)) by (unfold getc in *; now rewrite GC).
  apply InvA_setc; [exact H2 | now rewrite G1 | now rewrite G1 | cbn [cpcv with_cpc]; rewrite Hp; discriminate | now rewrite G1].
Qed.

Lemma InvA_cons_fail s c x e : InvA s -> nth_error (conss s) c = Some x -> InvA (cons_fail s c x e).
Proof. intros H Hx. unfold cons_fail. now apply (InvA_own_release s c x (CRet 0 e false) e). Qed.

Lemma set_nth_twice {A} (l : list A) c a b : set_nth (set_nth l c a) c b = set_nth l c b.
Proof. revert c; induction l as [|h t IH]; intros [|c]; simpl; auto. now rewrite IH. Qed.

Lemma setc_setc s c a b : setc (setc s c a) c b = setc s c b.
Proof. unfold setc, set_conss. cbn [kctx keep refs rcancel nonce waitch resolved value verr vrel vgen target terr gs rellog asyncs relacts conss panicked]. now rewrite set_nth_twice. Qed.

Lemma InvA_acc_ret s c x y e :
  InvA s -> nth_error (conss s) c = Some x -> ck y = ck x -> cref y = cref x -> ww_firepc y = ww_firepc x ->
  InvA (acc_ret s c y e).
Proof.
  intros H Hx K1 K2 K3. destruct (getc_nth_error s c x Hx) as [Eg Hl]. unfold acc_ret.
  (* first bring y in place of x: same kind, reference, not attached afterwards anyway *)
  assert (H0 : InvA (setc s c (with_cpc y (CRel e)))).
  { apply InvA_setc; [exact H | cbn; now rewrite Eg | cbn; now rewrite Eg | cbn; discriminate | cbn; rewrite Eg; congruence]. }
  assert (Hy : nth_error (conss (setc s c (with_cpc y (CRel e)))) c = Some (with_cpc y (CRel e))) by (rewrite conss_setc; now apply nth_error_set_nth_same).
  pose proof (InvA_own_release _ c (with_cpc y (CRel e)) (CAccRet e) e H0 Hy eq_refl) as G.
  assert (E1 : setc (setc s c (with_cpc y (CRel e))) c (with_cpc (with_cpc y (CRel e)) (CRel e)) = setc s c (with_cpc y (CRel e))) by apply setc_setc.
  rewrite E1 in G. cbn [cref with_cpc] in G.
  destruct (release_call_by (setc s c (with_cpc y (CRel e))) (cref y) (Some c)) as [s1 parked]. destruct parked; exact G.
Qed.

Lemma acc_set_keep x p n sn b : ck (acc_set x p n sn b) = ck x /\ cref (acc_set x p n sn b) = cref x /\ ww_firepc (acc_set x p n sn b) = ww_firepc x /\ cpcv (acc_set x p n sn b) = p.
Proof. cbn. auto. Qed.

Lemma InvA_acc_s1 s c x :
  InvA s -> nth_error (conss s) c = Some x -> attached_pc (cpcv x) = true -> InvA (acc_s1 s c x).
Proof.
  intros H Hx Hp. destruct (getc_nth_error s c x Hx) as [Eg Hl]. unfold acc_s1.
  assert (S1 : forall p, InvA (setc s c (acc_set x p (S (ac_nonce x)) (S (ac_nonce x)) false))).
  { intros p. apply InvA_setc; [exact H | now rewrite Eg | now rewrite Eg | intros _ _; now rewrite Eg | now rewrite Eg]. }
  destruct (negb (Nat.eqb (ac_err x) 0)); [now apply (InvA_acc_ret s c x)|].
  destruct (ac_res x); [apply S1|]. destruct (ccanc x); [now apply (InvA_acc_ret s c x) | apply S1].
Qed.

Lemma InvA_cons_step s c : InvA s -> InvA (cons_step s c).
Proof.
  intros H. unfold cons_step. destruct (nth_error (conss s) c) as [x|] eqn:Ex; [|exact H].
  destruct (getc_nth_error s c x Ex) as [Eg Hl].
  assert (SR : forall v, InvA (setc s c (with_cpc x (CRet v 0 true)))).
  { intros v. apply InvA_setc; [exact H | now rewrite Eg | now rewrite Eg | cbn; discriminate | now rewrite Eg]. }
  destruct (ck x) eqn:Ek, (cpcv x) eqn:Ep; try exact H.
  - destruct (cw_res x) as [[v e]|]; [destruct (Nat.eqb e 0); [apply SR | now apply InvA_cons_fail] | destruct (ccanc x); [now apply InvA_cons_fail | exact H]].
  - destruct (ww_prom x) as [[v e]|]; [destruct (Nat.eqb e 0); [apply SR | now apply InvA_cons_fail] | destruct (ccanc x); [now apply InvA_cons_fail | exact H]].
  - apply InvA_acc_s1; auto. now rewrite Ep.
  - destruct (negb (Nat.eqb (ac_nonce x) (ac_snap x))); [apply InvA_acc_s1; auto; now rewrite Ep|].
    destruct (ccanc x); [now apply (InvA_acc_ret s c x) | exact H].
Qed.

Lemma InvA_cb_return fx s c res : InvA s -> InvA (cb_return fx s c res).
Proof.
  intros H. unfold cb_return. destruct (nth_error (conss s) c) as [x|] eqn:Ex; [|exact H].
  destruct (getc_nth_error s c x Ex) as [Eg Hl].
  destruct (ck x); try exact H. destruct (cpcv x) eqn:Ep; try exact H.
  destruct (ccanc x); [now apply (InvA_acc_ret s c x)|].
  match goal with |- InvA (if ?b then _ else _) => destruct b end; [now apply (InvA_acc_ret s c x)|].
  apply InvA_setc; [exact H | now rewrite Eg | now rewrite Eg | intros _ _; now rewrite Eg, Ep | now rewrite Eg].
Qed.

Lemma InvA_remove_ref s r : InvA s -> rflag (rref s r) = true -> InvA (remove_ref s r).
Proof.
  intros H Hf. apply (S_remove_ref InvA InvA_Qext InvA_Qinv); [exact H|]. intros x Hx _.
  apply InvA_rin_false; [exact H | exact Hx|]. unfold rref in Hf. now rewrite (nth_error_nth_d _ _ ref0 _ Hx) in Hf.
Qed.

Lemma InvA_release_section s a : InvA s -> InvA (release_section s a).
Proof.
  intros H. unfold release_section. destruct (nth_error (relacts s) a) as [x|] eqn:Ex; [|exact H]. destruct (ra_pc x) eqn:Ep; [|exact H].
  assert (HA := H). destruct HA as [_ [_ [_ [A4 _]]]]. destruct (A4 a x Ex) as [P1 P2].
  set (sa := set_relacts s _).
  assert (Ha : InvA sa) by (apply InvA_relact_done; [exact H | reflexivity | exact P1]).
  assert (H1 : InvA (remove_ref sa (ra_ref x))) by (apply InvA_remove_ref; [exact Ha | exact (P2 Ep)]).
  set (s1 := remove_ref sa (ra_ref x)) in *.
  destruct (ra_cons x) as [c|]; [|exact H1]. destruct (cpcv (getc s1 c)) eqn:Ec; try exact H1.
  change (set_conss s1 (set_nth (conss s1) c ?y)) with (setc s1 c y).
  apply InvA_setc; [exact H1 | reflexivity | reflexivity | cbn [cpcv with_cpc]; destruct (ck (getc s1 c)); cbn; discriminate | auto].
Qed.

Lemma InvA_fire_section s c : InvA s -> InvA (fire_section s c).
Proof.
  intros H. unfold fire_section. destruct (nth_error (conss s) c) as [x|] eqn:Ex; [|exact H].
  destruct (ww_firepc x) as [[|]|] eqn:Ef; try exact H. destruct (getc_nth_error s c x Ex) as [Eg Hl].
  assert (HA := H). destruct HA as [_ [_ [_ [_ A5]]]].
  apply InvA_remove_ref.
  - apply InvA_setc; [exact H | now rewrite Eg | now rewrite Eg | now rewrite Eg | cbn; discriminate].
  - change (rref (setc s c ?y)) with (rref s). exact (A5 c x Ex Ef).
Qed.

Lemma step_InvA s e : InvA s -> InvA (step repaired s e).
Proof.
  intros H. destruct e; try (apply (S_step_container InvA InvA_Qext InvA_Qinv); [exact I | exact H]); cbn [step].
  - (* AddRef *) apply (S_add_ref InvA InvA_Qext InvA_Qinv). apply (InvA_new_ref s (kind_of k) None H). destruct k as [|[|k]]; reflexivity.
  - (* Release *) destruct (rkind (nth r (refs s) ref0)) eqn:K; try exact H; apply InvA_release_call_by; try exact H;
      intros c0 x Hx Hk Hp E; pose proof (InvA_acc_kind s c0 x H Hx Hk) as K'; unfold rref in K'; rewrite E, K in K'; discriminate.
  - now apply InvA_release_section.
  - (* start a consumer *) unfold start_consumer. apply (S_add_ref InvA InvA_Qext InvA_Qinv).
    set (kc := match k with 0 => CKWait | 1 => CKWwr | _ => CKAccess end).
    pose proof (InvA_new_ref s (ref_of_kind kc (length (conss s))) (Some kc) H eq_refl) as G.
    unfold newref in *. destruct kc; exact G.
  - now apply InvA_cons_step.
  - destruct (nth_error (conss s) c) as [x|] eqn:Ex; [|exact H]. destruct (getc_nth_error s c x Ex) as [Eg Hl].
    apply InvA_setc; [exact H | now rewrite Eg | now rewrite Eg | intros _ Hp; cbn [cpcv] in Hp; now rewrite Eg | now rewrite Eg].
  - now apply InvA_fire_section.
  - now apply InvA_cb_return.
  - destruct (Nat.eqb c 0); [exact H|]. destruct (cancel_root_frame s c) as [E1 [E2 [E3 _]]]. now apply (InvA_Qext s).
  - destruct (watch_step_spec s c) as [->|[x [y [Hx [-> Hy]]]]]; [exact H|]. wsplit Hy. destruct (getc_nth_error s c x Hx) as [Eg Hl].
    apply InvA_setc; [exact H | now rewrite Eg | now rewrite Eg | intros _ Hp; now rewrite Eg, <- Wcpcv | now rewrite Eg, <- Wwfirepc].
Qed.

Lemma init_InvA k : InvA (init k).
Proof.
  unfold InvA, init. cbn. repeat split; intros; try (destruct c; discriminate); try (destruct a; discriminate); try lia.
Qed.

Theorem run_InvA k es : InvA (run repaired (init k) es).
Proof. unfold run. apply fold_inv; [intros s e; apply step_InvA | apply init_InvA]. Qed.
