(* refcount: the monitors tied to the model, part 12: WaitWithReleased / ResolveWithReleased consumers: one that was given a
   result, whose reference is still in the set and whose released callback has not fired implies that this very result is
   still stored (same generation nonce); clause 10.3 (an invalidated value's released callback has fired once at rest). *)
From Util Require Import Common.Base Common.ListLemmas RefCount.Model RefCount.Spec RefCount.Proofs RefCount.ProofsC08 RefCount.ProofsC08b
  RefCount.ProofsC09 RefCount.ProofsC10 RefCount.ProofsC10a RefCount.ProofsC10b RefCount.ProofsCodec RefCount.ProofsMon RefCount.ProofsMon2 RefCount.ProofsMon3
  RefCount.ProofsMon4 RefCount.ProofsMon5 RefCount.ProofsMon6 RefCount.ProofsMon7 RefCount.ProofsMonG RefCount.ProofsMon8 RefCount.ProofsMon11.
Open Scope nat_scope.

Definition wwf (x : cons) := (ww_res x, ww_nonce x, ww_once x, ww_prom x).

Lemma wwf_fields x y : wwf y = wwf x -> ww_res y = ww_res x /\ ww_nonce y = ww_nonce x /\ ww_once y = ww_once x /\ ww_prom y = ww_prom x.
Proof. unfold wwf. intros H. inversion H. auto. Qed.

Lemma cb_access_wwf x n : wwf (cb_access x n) = wwf x.
Proof.
  unfold cb_access. destruct n as [|v e].
  - destruct (Bool.eqb false (ac_res x) && Nat.eqb 0 (ac_val x) && Nat.eqb 0 (ac_err x)); reflexivity.
  - destruct (Bool.eqb true (ac_res x) && Nat.eqb v (ac_val x) && Nat.eqb e (ac_err x)); reflexivity.
Qed.

(* what a reference callback does to the WaitWithReleased bookkeeping of consumer c *)
Lemma invoke_wwf s r n c :
  (wwf (getc (invoke s r n) c) = wwf (getc s c) \/
   (rkind (rref s r) = KWwr c /\ c < length (conss s) /\ wwf (getc (invoke s r n) c) = wwf (fst (cb_wwr (getc s c) n (nonce s))))) /\
  (r < length (refs s) -> rkind (rref s r) = KWwr c -> c < length (conss s) ->
   wwf (getc (invoke s r n) c) = wwf (fst (cb_wwr (getc s c) n (nonce s)))).
Proof.
  unfold invoke. destruct (nth_error (refs s) r) as [x|] eqn:E.
  2:{ split; [now left|]. intros Hr. apply nth_error_None in E. lia. }
  assert (Ex : rref s r = x) by (unfold rref; now apply nth_error_nth). rewrite Ex.
  assert (G1 : forall c', getc (set_last s r n) c' = getc s c') by (intros c'; apply getc_set_last).
  assert (L1 : length (conss (set_last s r n)) = length (conss s)) by (now rewrite conss_set_last).
  assert (N1 : nonce (set_last s r n) = nonce s) by (apply (rest_fields s _ (rest_set_last s r n))).
  assert (SC : forall s2 c' y, (forall c0, getc s2 c0 = getc s c0) -> length (conss s2) = length (conss s) -> wwf y = wwf (getc s c') ->
             wwf (getc (setc s2 c' y) c) = wwf (getc s c)).
  { intros s2 c' y G2 L2 Hy. destruct (Nat.lt_ge_cases c' (length (conss s2))) as [Hl|Hl].
    - rewrite getc_setc by exact Hl. destruct (Nat.eqb_spec c c') as [->|]; [exact Hy | apply f_equal, G2].
    - rewrite getc_setc_oob by exact Hl. apply f_equal, G2. }
  destruct (rkind x) as [| | |c'|c'|c'] eqn:K.
  - split; [now left | discriminate].
  - rewrite G1. split; [now left | discriminate].
  - split; [|discriminate]. left. destruct n; [now rewrite G1|]. change (getc (set_asyncs ?a ?b) c) with (getc a c). now rewrite G1.
  - split; [|discriminate]. left. apply (SC (set_last s r n)); auto.
  - rewrite G1, N1.
    set (s2 := set_refs (set_last s r n) (set_nth (refs (set_last s r n)) r {| rin := rin x; rflag := true; rkind := KWwr c'; rlast := Some n |})).
    assert (G2 : forall c0, getc s2 c0 = getc s c0) by (intros c0; unfold getc, s2; cbn [conss set_refs]; now rewrite conss_set_last).
    assert (L2 : length (conss s2) = length (conss s)) by (unfold s2; cbn [conss set_refs]; exact L1).
    destruct (cb_wwr (getc s c') n (nonce s)) as [y fired] eqn:Ecb.
    assert (W : forall s3, (forall c0, getc s3 c0 = getc s c0) -> length (conss s3) = length (conss s) -> forall z, wwf z = wwf y ->
              (wwf (getc (setc s3 c' z) c) = wwf (getc s c) \/
               (KWwr c' = KWwr c /\ c < length (conss s) /\ wwf (getc (setc s3 c' z) c) = wwf (fst (cb_wwr (getc s c) n (nonce s))))) /\
              (r < length (refs s) -> KWwr c' = KWwr c -> c < length (conss s) ->
               wwf (getc (setc s3 c' z) c) = wwf (fst (cb_wwr (getc s c) n (nonce s))))).
    { intros s3 G3 L3 z Hz. destruct (Nat.eq_dec c c') as [->|Hne].
      - destruct (Nat.lt_ge_cases c' (length (conss s3))) as [Hl|Hl].
        + rewrite getc_setc by exact Hl. rewrite Nat.eqb_refl, Ecb. cbn [fst]. split; [right; split; [reflexivity|]; split; [lia | exact Hz] | intros; exact Hz].
        + rewrite getc_setc_oob by exact Hl. split; [left; apply f_equal, G3 | intros _ _ Hc0; lia].
      - split; [left | intros _ Hk; inversion Hk; congruence].
        destruct (Nat.lt_ge_cases c' (length (conss s3))) as [Hl|Hl].
        + rewrite getc_setc by exact Hl. destruct (Nat.eqb_spec c c'); [contradiction|]. apply f_equal, G3.
        + rewrite getc_setc_oob by exact Hl. apply f_equal, G3. }
    destruct fired; [destruct (rflag x)|].
    + apply (W (set_last s r n)); auto.
    + apply (W s2); auto.
    + apply (W (set_last s r n)); auto.
  - split; [|discriminate]. left. apply (SC (set_last s r n)); auto. rewrite cb_access_wwf. reflexivity.
Qed.

(* ------------------------------------------------------------------ *)
Definition wlive (s : st) (x : cons) : Prop := ww_res x = true /\ rin (rref s (cref x)) = true /\ ww_once x = false.
Definition wok1 (x : cons) : Prop := (ww_prom x <> None -> ww_res x = true) /\ (forall v e, cpcv x = CRet v e true -> ww_prom x <> None).
Definition K1 (l : list cons) : Prop := forall c x, nth_error l c = Some x -> ck x = CKWwr -> wok1 x.
Definition W2 (s : st) : Prop :=
  forall c x, nth_error (conss s) c = Some x -> ck x = CKWwr -> wlive s x -> resolved s = true /\ ww_nonce x = nonce s.
Definition NoLive (s : st) : Prop := forall c x, nth_error (conss s) c = Some x -> ck x = CKWwr -> ~ wlive s x.

Lemma NoLive_W2 s : NoLive s -> W2 s.
Proof. intros H c x Hx Hk Hl. destruct (H c x Hx Hk Hl). Qed.

Lemma W2_unresolved s : W2 s -> resolved s = false -> NoLive s.
Proof. intros H Er c x Hx Hk Hl. destruct (H c x Hx Hk Hl) as [E _]. congruence. Qed.

(* cb_wwr, case by case *)
Lemma cb_wwr_cases x n cur :
  let y := fst (cb_wwr x n cur) in
  (ww_res x = true ->
     ww_res y = true /\ ww_nonce y = ww_nonce x /\ ww_prom y = ww_prom x /\
     (ww_once y = ww_once x \/ ww_once y = true) /\
     ((n = NGone \/ exists v e, n = NRes v e /\ cur <> ww_nonce x) -> ww_once y = true) /\
     (ww_once x = true -> ww_once y = true)) /\
  (ww_res x = false ->
     ww_once y = ww_once x /\
     match n with
     | NGone => ww_res y = false /\ ww_prom y = ww_prom x
     | NRes v e => ww_res y = true /\ ww_nonce y = cur /\ ww_prom y <> None
     end).
Proof.
  unfold cb_wwr. destruct (ww_res x) eqn:Er; [split; [intros _ | intros E; discriminate E] | split; [intros E; discriminate E | intros _]].
  - destruct (_ && negb (ww_once x)) eqn:Ec; cbn [fst ww_res ww_nonce ww_prom ww_once].
    + repeat split; auto.
    + repeat split; auto. intros Hn. destruct (ww_once x); [reflexivity|]. rewrite andb_true_r in Ec.
      destruct Hn as [->|[v [e [-> Hne]]]]; [discriminate|]. apply negb_false_iff, Nat.eqb_eq in Ec. contradiction.
  - destruct n as [|v e]; cbn [fst ww_res ww_nonce ww_prom ww_once]; [auto|]. repeat split; auto. destruct (ww_prom x); discriminate.
Qed.

(* ------------------------------------------------------------------ *)
(* a field of the consumer records that moving to another program point does not touch is untouched by the consumers' own steps *)
Section ConsField.
  Context {B : Type}.
  Variable g : cons -> B.
  Hypothesis g_cpc : forall x p, g (with_cpc x p) = g x.
  Hypothesis g_acc : forall x p n sn b, g (acc_set x p n sn b) = g x.
  Hypothesis g_done : forall x, g (cb_done x) = g x.

  Lemma cfd_setc s c y : c < length (conss s) -> g y = g (getc s c) -> map g (conss (setc s c y)) = map g (conss s).
  Proof. intros Hl Hy. rewrite conss_setc. apply (map_set_nth_keep g _ _ _ cons0). intros _. exact Hy. Qed.

  Lemma cfd_own s c x y e' :
    nth_error (conss s) c = Some x -> g y = g x ->
    map g (conss (let '(s1, parked) := release_call_by (setc s c (with_cpc y (CRel e'))) (cref y) (Some c) in
                  if parked then s1 else setc s1 c (with_cpc y (CRet 0 e' false)))) = map g (conss s) /\
    map g (conss (let '(s1, parked) := release_call_by (setc s c (with_cpc y (CRel e'))) (cref y) (Some c) in
                  if parked then s1 else setc s1 c (with_cpc y (CAccRet e')))) = map g (conss s).
  Proof.
    intros Hx Hy. destruct (getc_nth_error s c x Hx) as [Eg Hl].
    assert (E0 : map g (conss (setc s c (with_cpc y (CRel e')))) = map g (conss s)) by (apply cfd_setc; [exact Hl | now rewrite g_cpc, Eg]).
    pose proof (conss_release_call_by (setc s c (with_cpc y (CRel e'))) (cref y) (Some c)) as Gc.
    destruct (release_call_by (setc s c (with_cpc y (CRel e'))) (cref y) (Some c)) as [s1 parked]. cbn [fst] in Gc.
    assert (Hl1 : c < length (conss s1)) by (rewrite Gc, conss_setc, length_set_nth; exact Hl).
    assert (Eg1 : getc s1 c = with_cpc y (CRel e')) by (unfold getc; rewrite Gc, conss_setc; now apply nth_set_nth_same).
    destruct parked; [split; congruence|].
    split; (rewrite cfd_setc; [congruence | exact Hl1 | now rewrite !g_cpc, Eg1, g_cpc]).
  Qed.

  Lemma cfd_cons_step s c : map g (conss (cons_step s c)) = map g (conss s).
  Proof.
    unfold cons_step. destruct (nth_error (conss s) c) as [x|] eqn:Ex; [|reflexivity]. destruct (getc_nth_error s c x Ex) as [Eg Hl].
    assert (AR : forall y e', g y = g x -> map g (conss (acc_ret s c y e')) = map g (conss s)) by (intros y e' Hy; unfold acc_ret; now apply (cfd_own s c x y e' Ex Hy)).
    assert (S1 : map g (conss (acc_s1 s c x)) = map g (conss s)).
    { unfold acc_s1. destruct (negb (Nat.eqb (ac_err x) 0)); [apply AR; apply g_acc|].
      destruct (ac_res x); [apply cfd_setc; [exact Hl | now rewrite g_acc, Eg]|].
      destruct (ccanc x); [apply AR; apply g_acc | apply cfd_setc; [exact Hl | now rewrite g_acc, Eg]]. }
    destruct (ck x), (cpcv x); try reflexivity; try exact S1.
    3:{ destruct (negb (Nat.eqb (ac_nonce x) (ac_snap x))); [exact S1|]. destruct (ccanc x); [now apply AR | reflexivity]. }
    - destruct (cw_res x) as [[v e]|]; [destruct (Nat.eqb e 0); [apply cfd_setc; [exact Hl | now rewrite g_cpc, Eg] | unfold cons_fail; now apply (cfd_own s c x x e Ex)]
                                       | destruct (ccanc x); [unfold cons_fail; now apply (cfd_own s c x x 1 Ex) | reflexivity]].
    - destruct (ww_prom x) as [[v e]|]; [destruct (Nat.eqb e 0); [apply cfd_setc; [exact Hl | now rewrite g_cpc, Eg] | unfold cons_fail; now apply (cfd_own s c x x e Ex)]
                                        | destruct (ccanc x); [unfold cons_fail; now apply (cfd_own s c x x 1 Ex) | reflexivity]].
  Qed.

  Lemma cfd_cb_return fx s c res : map g (conss (cb_return fx s c res)) = map g (conss s).
  Proof.
    unfold cb_return. destruct (nth_error (conss s) c) as [x|] eqn:Ex; [|reflexivity]. destruct (getc_nth_error s c x Ex) as [Eg Hl].
    destruct (ck x); try reflexivity. destruct (cpcv x); try reflexivity.
    assert (AR : forall e', map g (conss (acc_ret s c (cb_done x) e')) = map g (conss s)) by (intros e'; unfold acc_ret; now apply (cfd_own s c x (cb_done x) e' Ex (g_done x))).
    destruct (ccanc x); [apply AR|].
    match goal with |- _ (conss (if ?b then _ else _)) = _ => destruct b end; [apply AR | apply cfd_setc; [exact Hl | now rewrite g_cpc, g_done, Eg]].
  Qed.
End ConsField.

Lemma wwf_cons_step s c : map wwf (conss (cons_step s c)) = map wwf (conss s).
Proof. apply (cfd_cons_step wwf); reflexivity. Qed.
Lemma wwf_cb_return fx s c res : map wwf (conss (cb_return fx s c res)) = map wwf (conss s).
Proof. apply (cfd_cb_return wwf); reflexivity. Qed.

(* ------------------------------------------------------------------ *)
(* what W2 / NoLive read from the state *)
Definition cw3 (x : cons) := (ck x, cref x, wwf x).
Definition wst1 (s : st) := (map cw3 (conss s), map rin (refs s)).
Definition wst (s : st) := (wst1 s, resolved s, nonce s).

Lemma rin_rref s s' r : map rin (refs s') = map rin (refs s) -> rin (rref s' r) = rin (rref s r).
Proof. intros H. unfold rref. change (rin ref0) with (rin ref0). rewrite <- !(map_nth rin). now rewrite H. Qed.

Lemma wst1_back s s' c x' : wst1 s' = wst1 s -> nth_error (conss s') c = Some x' ->
  exists x, nth_error (conss s) c = Some x /\ ck x = ck x' /\ cref x = cref x' /\ wwf x = wwf x' /\ (wlive s' x' <-> wlive s x).
Proof.
  unfold wst1. intros H Hx'. inversion H as [[H1 H2]].
  pose proof (nth_error_map_some cw3 _ _ _ Hx') as Hm. rewrite H1 in Hm.
  destruct (nth_error (conss s) c) as [x|] eqn:Ex; [|rewrite (proj2 (nth_error_None _ _)) in Hm; [discriminate | rewrite map_length; now apply nth_error_None]].
  rewrite (nth_error_map_some cw3 _ _ _ Ex) in Hm. assert (Hm' : cw3 x = cw3 x') by congruence.
  pose proof (f_equal (fun t : ckind * nat * (bool * nat * bool * option (nat * nat)) => fst (fst t)) Hm') as A.
  pose proof (f_equal (fun t : ckind * nat * (bool * nat * bool * option (nat * nat)) => snd (fst t)) Hm') as B.
  pose proof (f_equal (fun t : ckind * nat * (bool * nat * bool * option (nat * nat)) => snd t) Hm') as C. cbn [cw3 fst snd] in A, B, C. exists x. split; [reflexivity|]. split; [exact A|]. split; [exact B|].
  split; [exact C|]. destruct (wwf_fields _ _ C) as [C1 [_ [C3 _]]]. unfold wlive. rewrite C1, C3, B, (rin_rref s s' _ H2). tauto.
Qed.

Lemma NoLive_wst1 s s' : wst1 s' = wst1 s -> NoLive s -> NoLive s'.
Proof.
  intros H HN c x' Hx' Hk Hl. destruct (wst1_back s s' c x' H Hx') as [x [Hx [A [_ [_ L]]]]]. apply (HN c x Hx); [congruence | now apply L].
Qed.

Lemma W2_wst s s' : wst s' = wst s -> W2 s -> W2 s'.
Proof.
  unfold wst. intros H HW c x' Hx' Hk Hl.
  pose proof (f_equal (fun t : (list (ckind * nat * (bool * nat * bool * option (nat * nat))) * list bool) * bool * nat => fst (fst t)) H) as H1.
  pose proof (f_equal (fun t : (list (ckind * nat * (bool * nat * bool * option (nat * nat))) * list bool) * bool * nat => snd (fst t)) H) as H2.
  pose proof (f_equal (fun t : (list (ckind * nat * (bool * nat * bool * option (nat * nat))) * list bool) * bool * nat => snd t) H) as H3.
  cbn [fst snd] in H1, H2, H3.
  destruct (wst1_back s s' c x' H1 Hx') as [x [Hx [A [_ [C L]]]]]. destruct (HW c x Hx ltac:(congruence) (proj1 L Hl)) as [E1 E2].
  destruct (wwf_fields _ _ C) as [_ [C2 _]]. split; congruence.
Qed.

(* liveness can only shrink when references leave the set *)
Lemma W2_rin_shrink s s' :
  map cw3 (conss s') = map cw3 (conss s) -> resolved s' = resolved s -> nonce s' = nonce s ->
  (forall r, rin (rref s' r) = true -> rin (rref s r) = true) -> W2 s -> W2 s'.
Proof.
  intros H1 H2 H3 Hr HW c x' Hx' Hk [L1 [L2 L3]].
  pose proof (nth_error_map_some cw3 _ _ _ Hx') as Hm. rewrite H1 in Hm.
  destruct (nth_error (conss s) c) as [x|] eqn:Ex; [|rewrite (proj2 (nth_error_None _ _)) in Hm; [discriminate | rewrite map_length; now apply nth_error_None]].
  rewrite (nth_error_map_some cw3 _ _ _ Ex) in Hm. assert (Hm' : cw3 x = cw3 x') by congruence.
  pose proof (f_equal (fun t : ckind * nat * (bool * nat * bool * option (nat * nat)) => fst (fst t)) Hm') as A.
  pose proof (f_equal (fun t : ckind * nat * (bool * nat * bool * option (nat * nat)) => snd (fst t)) Hm') as B.
  pose proof (f_equal (fun t : ckind * nat * (bool * nat * bool * option (nat * nat)) => snd t) Hm') as C. cbn [cw3 fst snd] in A, B, C. destruct (wwf_fields _ _ C) as [C1 [C2 [C3 _]]].
  destruct (HW c x Ex ltac:(congruence)) as [E1 E2]; [|split; congruence]. split; [congruence|]. split; [rewrite B; now apply Hr | congruence].
Qed.

(* ------------------------------------------------------------------ *)
(* one reference callback *)
Lemma fp_getc s s' c : fp s s' -> ck (getc s' c) = ck (getc s c) /\ cref (getc s' c) = cref (getc s c).
Proof. intros [_ [_ [_ [_ [A5 _]]]]]. destruct (A5 c) as [P1 [P2 _]]. auto. Qed.
Lemma fp_rin s s' r : fp s s' -> rin (rref s' r) = rin (rref s r).
Proof. intros [_ [_ [_ [A4 _]]]]. apply (A4 r). Qed.
Lemma fp_len s s' : fp s s' -> length (conss s') = length (conss s) /\ length (refs s') = length (refs s).
Proof. intros [_ [A2 [A3 _]]]. auto. Qed.

Lemma getc_lt s c x : nth_error (conss s) c = Some x -> c < length (conss s) /\ getc s c = x.
Proof. intros H. destruct (getc_nth_error s c x H). auto. Qed.

Lemma nth_error_getc s c : c < length (conss s) -> nth_error (conss s) c = Some (getc s c).
Proof. intros H. unfold getc. now apply nth_error_nth'. Qed.

(* "gone": a live consumer afterwards was live before, and its reference was not the one that was told *)
Lemma invoke_gone_live s r c :
  InvA s -> c < length (conss s) -> ck (getc s c) = CKWwr ->
  wlive (invoke s r NGone) (getc (invoke s r NGone) c) ->
  wlive s (getc s c) /\ cref (getc s c) <> r.
Proof.
  intros HA Hc Hk [L1 [L2 L3]]. pose proof (fp_invoke s r NGone) as F. destruct (fp_getc s _ c F) as [Fk Fr]. rewrite Fr, (fp_rin s _ _ F) in L2.
  destruct HA as [A1 _]. destruct (A1 c _ (nth_error_getc s c Hc)) as [Hrl Hrk]. rewrite Hk in Hrk. cbn [ref_of_kind] in Hrk.
  destruct (invoke_wwf s r NGone c) as [Hw Hw2].
  assert (NotCb : wwf (getc (invoke s r NGone) c) = wwf (fst (cb_wwr (getc s c) NGone (nonce s))) -> False).
  { intros E. destruct (wwf_fields _ _ E) as [E1 [_ [E3 _]]]. destruct (cb_wwr_cases (getc s c) NGone (nonce s)) as [T F0]. cbv zeta in T, F0.
    destruct (ww_res (getc s c)) eqn:Er.
    - destruct (T eq_refl) as [_ [_ [_ [_ [T5 _]]]]]. rewrite (T5 (or_introl eq_refl)) in E3. congruence.
    - destruct (F0 eq_refl) as [_ [T1 _]]. congruence. }
  destruct Hw as [E|[_ [_ E]]]; [|destruct (NotCb E)].
  destruct (wwf_fields _ _ E) as [E1 [_ [E3 _]]]. split; [split; [congruence | split; [exact L2 | congruence]]|].
  intros Er. subst r. destruct (NotCb (Hw2 Hrl Hrk Hc)).
Qed.

Lemma gone_fold rs : forall s, InvA s ->
  let s' := fold_left (cbs_fold NGone) rs s in
  length (conss s') = length (conss s) /\
  forall c, c < length (conss s) -> ck (getc s c) = CKWwr -> wlive s' (getc s' c) ->
            wlive s (getc s c) /\ ~ In (cref (getc s c)) rs.
Proof.
  induction rs as [|r0 rs IH]; intros s HA; cbn [fold_left].
  - split; [reflexivity|]. intros c _ _ H. split; [exact H | intros []].
  - assert (HA1 : InvA (cbs_fold NGone s r0)) by (unfold cbs_fold; destruct (rin (nth r0 (refs s) ref0)); [now apply InvA_Qinv | exact HA]).
    assert (F : fp s (cbs_fold NGone s r0)) by (unfold cbs_fold; destruct (rin (nth r0 (refs s) ref0)); [apply fp_invoke | apply fp_refl]).
    destruct (IH (cbs_fold NGone s r0) HA1) as [L B]. destruct (fp_len _ _ F) as [FL _]. split; [congruence|].
    intros c Hc Hk Hl. destruct (fp_getc _ _ c F) as [Fk Fr].
    destruct (B c ltac:(lia) ltac:(congruence) Hl) as [L1 N1]. rewrite Fr in N1.
    unfold cbs_fold in L1. fold (rref s r0) in L1. destruct (rin (rref s r0)) eqn:Er0.
    + destruct (invoke_gone_live s r0 c HA Hc Hk L1) as [L0 Hne]. split; [exact L0|]. intros [E|E]; [now apply Hne | now apply N1].
    + split; [exact L1|]. intros [E|E]; [|now apply N1]. destruct L1 as [_ [L2 _]]. rewrite <- E in L2. congruence.
Qed.

Lemma call_cbs_gone_nolive s : InvA s -> NoLive (call_cbs s NGone).
Proof.
  intros HA c x' Hx' Hk Hl. rewrite call_cbs_fold in *. destruct (gone_fold (seq 0 (length (refs s))) s HA) as [L B]. cbv zeta in L, B.
  destruct (getc_lt _ c x' Hx') as [Hc Eg]. rewrite <- Eg in Hk, Hl.
  assert (F : fp s (fold_left (cbs_fold NGone) (seq 0 (length (refs s))) s)) by (apply (S_cbs_fold (fp s) (fp_Qinv s)); apply fp_refl).
  destruct (fp_getc _ _ c F) as [Fk _].
  destruct (B c ltac:(lia) ltac:(congruence) Hl) as [_ Hn]. apply Hn. apply in_seq. destruct HA as [A1 _].
  destruct (A1 c _ (nth_error_getc s c ltac:(lia))) as [Hrl _]. lia.
Qed.

Lemma wst1_ext s s' : refs s' = refs s -> conss s' = conss s -> wst1 s' = wst1 s.
Proof. intros E1 E2. unfold wst1. now rewrite E1, E2. Qed.

Lemma clear_resolved_nolive s : InvA s -> (resolved s = false -> NoLive s) -> NoLive (clear_resolved s).
Proof.
  intros HA HN. unfold clear_resolved. set (s1 := if resolved s then _ else s).
  assert (H1 : NoLive s1).
  { unfold s1. destruct (resolved s) eqn:Er; [|now apply HN]. apply call_cbs_gone_nolive. apply (InvA_Qext s); auto. }
  set (s2 := set_rcancel (cancel_g s1 (rcancel s1)) None).
  assert (E2 : wst1 s2 = wst1 s1).
  { destruct (cancel_g_rest s1 (rcancel s1)) as [_ [_ [G3 [_ [_ [_ [_ [_ [_ [_ [_ [_ [_ [_ [G15 _]]]]]]]]]]]]]]]. apply wst1_ext; [exact G3 | exact G15]. }
  assert (H2 : NoLive s2) by (exact (NoLive_wst1 _ _ E2 H1)).
  destruct (vrel s2); [|exact H2]. apply (NoLive_wst1 s2); [apply wst1_ext; reflexivity | exact H2].
Qed.

Lemma shutdown_nolive s : InvA s -> W2 s -> NoLive (shutdown s).
Proof.
  intros HA HW. unfold shutdown. apply clear_resolved_nolive; [apply (InvA_Qext s); auto|].
  cbn [resolved set_nonce]. intros Er. apply (NoLive_wst1 s); [apply wst1_ext; reflexivity | now apply W2_unresolved].
Qed.

Lemma start_resolve_nolive s : InvA s -> W2 s -> NoLive (start_resolve s).
Proof.
  intros HA HW. unfold start_resolve. pose proof (shutdown_nolive s HA HW) as H. set (s1 := shutdown s) in *.
  destruct (Nat.eqb (kctx s1) 0 || Nat.eqb (nrefs s1) 0); [exact H|]. apply (NoLive_wst1 s1); [apply wst1_ext; reflexivity | exact H].
Qed.

(* a result is told while it is stored *)
Lemma invoke_W2_res s r v e : InvA s -> W2 s -> resolved s = true -> W2 (invoke s r (NRes v e)).
Proof.
  intros HA HW Er c x' Hx' Hk Hl. set (s' := invoke s r (NRes v e)) in *.
  pose proof (fp_invoke s r (NRes v e)) as F. fold s' in F. destruct (fp_len _ _ F) as [FL _]. destruct (getc_lt _ c x' Hx') as [Hc Eg]. rewrite <- Eg in *.
  destruct (fp_getc s s' c F) as [Fk Fr]. destruct Hl as [L1 [L2 L3]]. rewrite Fr, (fp_rin s s' _ F) in L2.
  destruct (rest_fields s s' (rest_invoke s r (NRes v e))) as [_ [_ [_ [En [_ [Eres _]]]]]]. rewrite Eres, En.
  assert (Hx : nth_error (conss s) c = Some (getc s c)) by (apply nth_error_getc; lia).
  destruct (invoke_wwf s r (NRes v e) c) as [[E|[_ [_ E]]] _]; fold s' in E; destruct (wwf_fields _ _ E) as [E1 [E2 [E3 _]]].
  - destruct (HW c _ Hx ltac:(congruence)) as [A B]; [split; [congruence | split; [exact L2 | congruence]]|]. split; [exact A | congruence].
  - destruct (cb_wwr_cases (getc s c) (NRes v e) (nonce s)) as [T F0]. cbv zeta in T, F0. destruct (ww_res (getc s c)) eqn:Er0.
    + destruct (T eq_refl) as [_ [T2 [_ [_ [_ T6]]]]].
      assert (O0 : ww_once (getc s c) = false) by (destruct (ww_once (getc s c)); [rewrite (T6 eq_refl) in E3; congruence | reflexivity]).
      destruct (HW c _ Hx ltac:(congruence)) as [A B]; [split; [exact Er0 | split; [exact L2 | exact O0]]|]. split; [exact A | congruence].
    + destruct (F0 eq_refl) as [_ [_ [T2 _]]]. split; [exact Er | congruence].
Qed.

Lemma cbs_fold_W2_res v e rs : forall s, InvA s -> W2 s -> resolved s = true ->
  let s' := fold_left (cbs_fold (NRes v e)) rs s in InvA s' /\ W2 s' /\ resolved s' = true.
Proof.
  induction rs as [|r0 rs IH]; intros s HA HW Er; [cbn; auto|]. cbn [fold_left]. apply IH; unfold cbs_fold; destruct (rin (nth r0 (refs s) ref0)); auto.
  - now apply InvA_Qinv.
  - now apply invoke_W2_res.
  - destruct (rest_fields s _ (rest_invoke s r0 (NRes v e))) as [_ [_ [_ [_ [_ [E _]]]]]]. congruence.
Qed.

Lemma call_cbs_W2_res s v e : InvA s -> W2 s -> resolved s = true -> W2 (call_cbs s (NRes v e)).
Proof. intros HA HW Er. rewrite call_cbs_fold. apply (cbs_fold_W2_res v e _ s HA HW Er). Qed.

(* ------------------------------------------------------------------ *)
Lemma map_cw3 l : forall l', map ck l' = map ck l -> map cref l' = map cref l -> map wwf l' = map wwf l -> map cw3 l' = map cw3 l.
Proof.
  induction l as [|a l IH]; intros [|a' l'] H1 H2 H3; try discriminate; [reflexivity|]. cbn [map] in *.
  injection H1 as A1 B1. injection H2 as A2 B2. inversion H3 as [[A3 A4 A5 A6 B3]]. unfold cw3 at 1 3. unfold wwf. rewrite A1, A2, A3, A4, A5, A6. f_equal. now apply IH.
Qed.

Lemma wst1_vw s s' : vw s' = vw s -> map wwf (conss s') = map wwf (conss s) -> wst1 s' = wst1 s.
Proof.
  intros V Hw. unfold wst1. f_equal.
  - apply map_cw3; [exact (f_equal v_ck V) | exact (f_equal v_cref V) | exact Hw].
  - exact (f_equal v_rin V).
Qed.

Lemma W2_frame s s' : vw s' = vw s -> map wwf (conss s') = map wwf (conss s) -> resolved s' = resolved s -> nonce s' = nonce s -> W2 s -> W2 s'.
Proof. intros V Hw E1 E2. apply W2_wst. unfold wst. now rewrite (wst1_vw s s' V Hw), E1, E2. Qed.

Lemma add_ref_W2 s k :
  InvA (set_refs s (refs s ++ [newref k])) -> W2 (set_refs s (refs s ++ [newref k])) -> W2 (add_ref repaired s k).
Proof.
  intros HA HW. unfold add_ref. fold (newref k). set (s1 := set_refs s (refs s ++ [newref k])) in *.
  destruct (Nat.eqb (nrefs s1) 1 && negb (resolved s1)); [apply NoLive_W2; now apply start_resolve_nolive|].
  destruct (resolved s1) eqn:Er; [|exact HW]. destruct k; cbn [fx_nilcb repaired]; try exact HW; now apply invoke_W2_res.
Qed.

Lemma W2_newref s k : InvA s -> W2 s -> W2 (set_refs s (refs s ++ [newref k])).
Proof.
  intros [A1 _] HW c x Hx Hk [L1 [L2 L3]]. cbn [conss set_refs] in Hx. destruct (A1 c x Hx) as [Hl _].
  unfold rref in L2. cbn [refs set_refs] in L2. rewrite app_nth1 in L2 by exact Hl.
  exact (HW c x Hx Hk (conj L1 (conj L2 L3))).
Qed.

Lemma remove_ref_W2 s r : InvA s -> rflag (rref s r) = true -> W2 s -> W2 (remove_ref s r).
Proof.
  intros HA Hf HW. unfold remove_ref. destruct (nth_error (refs s) r) as [x|] eqn:Ex; [|exact HW]. destruct (rin x) eqn:Ein; [|exact HW].
  set (y := {| rin := false; rflag := rflag x; rkind := rkind x; rlast := rlast x |}). set (s1 := set_refs s (set_nth (refs s) r y)).
  assert (Hl : r < length (refs s)) by (eapply nth_error_nth_len; eauto).
  assert (HA1 : InvA s1).
  { apply InvA_rin_false; [exact HA | exact Ex|]. unfold rref in Hf. now rewrite (nth_error_nth_d _ _ ref0 _ Ex) in Hf. }
  assert (HW1 : W2 s1).
  { apply (W2_rin_shrink s s1 eq_refl eq_refl eq_refl); [|exact HW]. intros q Hq. unfold s1 in Hq. rewrite rref_set_nth in Hq by exact Hl.
    destruct (Nat.eqb_spec q r) as [E|Hne]; [discriminate Hq | exact Hq]. }
  destruct (Nat.eqb (nrefs s1) 0 && _); [apply NoLive_W2; now apply shutdown_nolive | exact HW1].
Qed.

Lemma setc_W2 s c y : c < length (conss s) -> cw3 y = cw3 (getc s c) -> W2 s -> W2 (setc s c y).
Proof.
  intros Hl Hy. apply W2_wst. unfold wst, wst1. rewrite refs_setc, conss_setc. cbn [resolved nonce setc set_conss]. f_equal. f_equal. f_equal.
  apply (map_set_nth_keep cw3 _ _ _ cons0). intros _. exact Hy.
Qed.

(* ------------------------------------------------------------------ *)
From Util Require Import RefCount.ProofsMon10.

Lemma nf_nonce s s' : nf s' = nf s -> nonce s' = nonce s.
Proof. unfold nf. intros H. now inversion H. Qed.

Lemma W2_step s e : Inv s -> InvCh s -> InvA s -> W2 s -> W2 (step repaired s e).
Proof.
  intros HI HCh HA HW. destruct e as [c|k|r|a|g|a|g en|g v hr er|g|k|c|c|c|c res|c|c]; cbn [step].
  - unfold set_context. destruct (Nat.eqb (kctx s) c); [exact HW|]. cbn [fst]. apply NoLive_W2, start_resolve_nolive.
    + apply (InvA_Qext s); auto.
    + apply (W2_wst s); [reflexivity | exact HW].
  - apply add_ref_W2; [|now apply W2_newref]. apply (InvA_new_ref s (kind_of k) None HA). destruct k as [|[|k]]; reflexivity.
  - destruct (rkind (nth r (refs s) ref0)); try exact HW;
      (apply (W2_frame s); [apply vw_release_call_by | unfold release_call; now rewrite conss_release_call_by
                            | apply (vf_fields _ _ (vf_release_call_by s r None)) | apply nf_nonce, nf_release_call_by | exact HW]).
  - unfold release_section. destruct (nth_error (relacts s) a) as [x|] eqn:Ex; [|exact HW]. destruct (ra_pc x) eqn:Ep; [|exact HW].
    assert (HA' := HA). destruct HA' as [_ [_ [_ [A4 _]]]]. destruct (A4 a x Ex) as [P1 P2].
    set (sa := set_relacts s _).
    assert (Ha : InvA sa) by (apply InvA_relact_done; [exact HA | reflexivity | exact P1]).
    assert (H1 : W2 (remove_ref sa (ra_ref x))).
    { apply remove_ref_W2; [exact Ha | exact (P2 Ep) | apply (W2_wst s); [reflexivity | exact HW]]. }
    set (s1 := remove_ref sa (ra_ref x)) in *.
    destruct (ra_cons x) as [c|]; [|exact H1]. destruct (cpcv (getc s1 c)) eqn:Ec; try exact H1.
    change (set_conss s1 (set_nth (conss s1) c ?y)) with (setc s1 c y).
    destruct (Nat.lt_ge_cases c (length (conss s1))) as [Hl|Hl]; [apply setc_W2; [exact Hl | reflexivity | exact H1]|].
    apply (W2_wst s1); [|exact H1]. unfold wst, wst1. now rewrite conss_setc, set_nth_oob.
  - destruct (nth_error (gs s) g) as [x|]; [|exact HW]. unfold released_section.
    destruct (Nat.eqb (nonce s) (gnonce x)); [apply NoLive_W2; now apply start_resolve_nolive | exact HW].
  - unfold async_section. destruct (nth_error (asyncs s) a) as [x|]; [|exact HW]. destruct (as_pc x); [|exact HW].
    unfold released_section. set (sa := set_asyncs s _). destruct (Nat.eqb (nonce sa) (as_nonce x)); [|apply (W2_wst s); [reflexivity | exact HW]].
    apply NoLive_W2, start_resolve_nolive; [apply (InvA_Qext s); auto | apply (W2_wst s); [reflexivity | exact HW]].
  - apply (W2_frame s); [exact (proj1 (fp_vw s _ (fp_container s (EProceed g en) I))) | now rewrite conss_proceed
                         | apply (vf_fields _ _ (vf_proceed s g en)) | apply nf_nonce, nf_proceed | exact HW].
  - unfold resolver_return. destruct (nth_error (gs s) g) as [x|]; [|exact HW]. destruct (gpcv x); exact HW.
  - (* the store section *)
    unfold store. destruct (nth_error (gs s) g) as [x|] eqn:Ex; [|exact HW]. destruct (gpcv x) eqn:Ep; try exact HW.
    set (s0 := setg s g (with_gpc x GDone)). change (nonce s0) with (nonce s).
    destruct (Nat.eqb (nonce s) (gnonce x)); cbn [negb]; [|destruct hasrel; (apply (W2_wst s); [reflexivity | exact HW])].
    assert (Hnd : gdone x = false) by (unfold gdone; now rewrite Ep).
    destruct HI as [[HN [_ [_ [_ [HV _]]]]] _]. pose proof (pending_unresolved s g x HCh HN HV Ex Hnd) as Er.
    pose proof (W2_unresolved s HW Er) as NL.
    apply call_cbs_W2_res.
    + apply (InvA_Qext s); [| | |exact HA]; destruct (Nat.eqb e 0); reflexivity.
    + apply NoLive_W2. apply (NoLive_wst1 s); [|exact NL]. apply wst1_ext; destruct (Nat.eqb e 0); reflexivity.
    + destruct (Nat.eqb e 0); reflexivity.
  - unfold start_consumer. set (kc := match k with 0 => CKWait | 1 => CKWwr | _ => CKAccess end). set (s0 := set_conss s (conss s ++ [new_cons kc (length (refs s))])).
    assert (G : InvA (set_refs s0 (refs s0 ++ [newref (ref_of_kind kc (length (conss s)))]))).
    { pose proof (InvA_new_ref s (ref_of_kind kc (length (conss s))) (Some kc) HA eq_refl) as G. exact G. }
    replace (match kc with CKWait => KWait (length (conss s)) | CKWwr => KWwr (length (conss s)) | CKAccess => KAccess (length (conss s)) end)
      with (ref_of_kind kc (length (conss s))) by (destruct kc; reflexivity).
    apply add_ref_W2; [exact G|].
    intros c x Hx Hk [L1 [L2 L3]]. cbn [conss set_refs] in Hx. unfold s0 in Hx. cbn [conss set_conss] in Hx.
    destruct (nth_error_snoc_cases _ _ _ _ Hx) as [[_ H0]|[_ ->]]; [|discriminate L1].
    destruct HA as [A1 _]. destruct (A1 c x H0) as [Hl _]. unfold rref in L2. cbn [refs set_refs s0 set_conss] in L2. rewrite app_nth1 in L2 by exact Hl.
    exact (HW c x H0 Hk (conj L1 (conj L2 L3))).
  - apply (W2_frame s); [apply vw_cons_step | apply wwf_cons_step | apply (vf_fields _ _ (vf_cons_step s c)) | apply nf_nonce; apply (cf_cons_step nf); reflexivity | exact HW].
  - destruct (nth_error (conss s) c) as [x|] eqn:Ex; [|exact HW]. destruct (getc_nth_error s c x Ex) as [Eg Hl].
    apply setc_W2; [exact Hl | now rewrite Eg | exact HW].
  - unfold fire_section. destruct (nth_error (conss s) c) as [x|] eqn:Ex; [|exact HW]. destruct (ww_firepc x) as [[|]|] eqn:Ef; try exact HW.
    destruct (getc_nth_error s c x Ex) as [Eg Hl]. assert (HA' := HA). destruct HA' as [_ [_ [_ [_ A5]]]].
    apply remove_ref_W2.
    + apply InvA_setc; [exact HA | now rewrite Eg | now rewrite Eg | now rewrite Eg | cbn; discriminate].
    + change (rref (setc s c ?y)) with (rref s). exact (A5 c x Ex Ef).
    + apply setc_W2; [exact Hl | now rewrite Eg | exact HW].
  - apply (W2_frame s); [apply vw_cb_return | apply wwf_cb_return | apply (vf_fields _ _ (vf_cb_return repaired s c res)) | apply nf_nonce; apply (cf_cb_return nf); reflexivity | exact HW].
  - destruct (Nat.eqb c 0); [exact HW|]. destruct (cancel_root_frame s c) as [E1 [_ [E3 [_ [_ [E6 _]]]]]].
    apply (W2_wst s); [|exact HW]. unfold wst, wst1. now rewrite E1, E3, E6, (nf_nonce _ _ (nf_cancel_root s c)).
  - destruct (watch_step_spec s c) as [->|[x [y [Hx [-> Hy]]]]]; [exact HW|]. wsplit Hy. destruct (getc_nth_error s c x Hx) as [Eg Hl].
    apply setc_W2; [exact Hl | rewrite Eg; unfold cw3, wwf; now rewrite Wck, Wcref, Wwres, Wwnonce, Wwonce, Wwprom | exact HW].
Qed.

Theorem run_W2 k es : Forall wf_ev es -> W2 (run repaired (init k) es).
Proof.
  induction es as [|e es IH] using rev_ind; intros Hwf; [intros [|c] x H; discriminate|].
  rewrite run_app. apply Forall_app in Hwf. destruct Hwf as [H1 H2].
  apply W2_step; [now apply run_inv | apply run_chain | apply run_InvA | now apply IH].
Qed.

(* ------------------------------------------------------------------ *)
(* given a result => ww_res; returned a value => given a result; once fired, always fired *)
Definition cq (x : cons) := (ck x, cpcv x, wwf x).

Lemma invoke_cq s r n c :
  ck (getc (invoke s r n) c) = ck (getc s c) /\ cpcv (getc (invoke s r n) c) = cpcv (getc s c) /\
  (wwf (getc (invoke s r n) c) = wwf (getc s c) \/ wwf (getc (invoke s r n) c) = wwf (fst (cb_wwr (getc s c) n (nonce s)))).
Proof.
  pose proof (fp_invoke s r n) as [_ [_ [_ [_ [A5 _]]]]]. destruct (A5 c) as [P1 [_ [P3 _]]]. split; [exact P1|]. split; [exact P3|].
  destruct (invoke_wwf s r n c) as [[E|[_ [_ E]]] _]; auto.
Qed.

Lemma wok1_cb x y n cur : ck y = ck x -> cpcv y = cpcv x -> (wwf y = wwf x \/ wwf y = wwf (fst (cb_wwr x n cur))) -> wok1 x -> wok1 y.
Proof.
  intros Ek Ep Hw [A B]. unfold wok1. rewrite Ep.
  destruct Hw as [E|E]; destruct (wwf_fields _ _ E) as [E1 [_ [_ E4]]]; rewrite E1, E4; [auto|].
  destruct (cb_wwr_cases x n cur) as [T F0]. cbv zeta in T, F0. destruct (ww_res x) eqn:Er.
  - destruct (T eq_refl) as [T1 [_ [T3 _]]]. rewrite T1, T3. split; auto.
  - destruct (F0 eq_refl) as [_ T2]. destruct n as [|v e].
    + destruct T2 as [T2 T3]. rewrite T2, T3. split; [intros H; specialize (A H); discriminate | exact B].
    + destruct T2 as [T2 [_ T4]]. rewrite T2. split; [reflexivity | intros; exact T4].
Qed.

Lemma K1_getc s c : K1 (conss s) -> ck (getc s c) = CKWwr -> wok1 (getc s c).
Proof.
  intros H Hk. unfold getc in *. destruct (nth_error (conss s) c) as [x|] eqn:E.
  - rewrite (nth_error_nth_d _ _ cons0 _ E) in *. exact (H c x E Hk).
  - rewrite nth_overflow in Hk by (now apply nth_error_None). discriminate.
Qed.

Lemma invoke_K1 s r n : K1 (conss s) -> K1 (conss (invoke s r n)).
Proof.
  intros H c x' Hx' Hk. destruct (getc_lt _ c x' Hx') as [_ Eg]. rewrite <- Eg in *. destruct (invoke_cq s r n c) as [E1 [E2 E3]].
  apply (wok1_cb (getc s c) _ n (nonce s) E1 E2 E3). apply K1_getc; [exact H | congruence].
Qed.

Lemma K1_set l c y : K1 l -> (ck y = CKWwr -> wok1 y) -> K1 (set_nth l c y).
Proof.
  intros H Hy k x Hk. destruct (Nat.lt_ge_cases c (length l)) as [Hl|Hl].
  - destruct (Nat.eq_dec k c) as [->|Hne].
    + rewrite nth_error_set_nth_same in Hk by exact Hl. inversion Hk; subst. exact Hy.
    + rewrite nth_error_set_nth_other in Hk by exact Hne. exact (H k x Hk).
  - rewrite set_nth_oob in Hk by exact Hl. exact (H k x Hk).
Qed.

Lemma wok1_leave x p : wok1 x -> (forall v e, p <> CRet v e true) -> wok1 (with_cpc x p).
Proof. intros [A B] Hp. split; [exact A|]. intros v e E. cbn [cpcv with_cpc] in E. destruct (Hp v e E). Qed.

Lemma K1_own s c x e' :
  K1 (conss s) -> nth_error (conss s) c = Some x ->
  K1 (conss (let '(s1, parked) := release_call_by (setc s c (with_cpc x (CRel e'))) (cref x) (Some c) in
             if parked then s1 else setc s1 c (with_cpc x (CRet 0 e' false)))).
Proof.
  intros H Hx. assert (Wx : ck x = CKWwr -> wok1 x) by (intros Hk; exact (H c x Hx Hk)).
  pose proof (conss_release_call_by (setc s c (with_cpc x (CRel e'))) (cref x) (Some c)) as Gc.
  destruct (release_call_by (setc s c (with_cpc x (CRel e'))) (cref x) (Some c)) as [s1 parked]. cbn [fst] in Gc.
  assert (H1 : K1 (conss s1)) by (rewrite Gc, conss_setc; apply K1_set; [exact H | intros Hk; apply wok1_leave; [now apply Wx | intros; discriminate]]).
  destruct parked; [exact H1|]. rewrite conss_setc. apply K1_set; [exact H1|]. intros Hk. apply wok1_leave; [now apply Wx | intros; discriminate].
Qed.

(* a consumer's own steps touch its own record only *)
Lemma getc_setc_other s c y c' : c' <> c -> getc (setc s c y) c' = getc s c'.
Proof.
  intros Hne. destruct (Nat.lt_ge_cases c (length (conss s))) as [Hl|Hl].
  - rewrite getc_setc by exact Hl. destruct (Nat.eqb_spec c' c); [contradiction | reflexivity].
  - now apply getc_setc_oob.
Qed.

Lemma own_other s c y e' c' : c' <> c ->
  getc (let '(s1, parked) := release_call_by (setc s c (with_cpc y (CRel e'))) (cref y) (Some c) in
        if parked then s1 else setc s1 c (with_cpc y (CRet 0 e' false))) c' = getc s c' /\
  getc (let '(s1, parked) := release_call_by (setc s c (with_cpc y (CRel e'))) (cref y) (Some c) in
        if parked then s1 else setc s1 c (with_cpc y (CAccRet e'))) c' = getc s c'.
Proof.
  intros Hne. pose proof (conss_release_call_by (setc s c (with_cpc y (CRel e'))) (cref y) (Some c)) as Gc.
  destruct (release_call_by (setc s c (with_cpc y (CRel e'))) (cref y) (Some c)) as [s1 parked]. cbn [fst] in Gc.
  assert (E1 : getc s1 c' = getc s c') by (unfold getc at 1; rewrite Gc; fold (getc (setc s c (with_cpc y (CRel e'))) c'); now apply getc_setc_other).
  destruct parked; [split; exact E1|]. split; (rewrite getc_setc_other by exact Hne; exact E1).
Qed.

Lemma cons_step_other s c c' : c' <> c -> getc (cons_step s c) c' = getc s c'.
Proof.
  intros Hne. unfold cons_step. destruct (nth_error (conss s) c) as [x|]; [|reflexivity].
  assert (AR : forall y e', getc (acc_ret s c y e') c' = getc s c') by (intros y e'; unfold acc_ret; now apply own_other).
  assert (CF : forall e', getc (cons_fail s c x e') c' = getc s c') by (intros e'; unfold cons_fail; now apply own_other).
  assert (S1 : getc (acc_s1 s c x) c' = getc s c').
  { unfold acc_s1. destruct (negb (Nat.eqb (ac_err x) 0)); [apply AR|]. destruct (ac_res x); [now apply getc_setc_other|].
    destruct (ccanc x); [apply AR | now apply getc_setc_other]. }
  destruct (ck x), (cpcv x); try reflexivity; try exact S1.
  3:{ destruct (negb (Nat.eqb (ac_nonce x) (ac_snap x))); [exact S1|]. destruct (ccanc x); [apply AR | reflexivity]. }
  - destruct (cw_res x) as [[v e]|]; [destruct (Nat.eqb e 0); [now apply getc_setc_other | apply CF] | destruct (ccanc x); [apply CF | reflexivity]].
  - destruct (ww_prom x) as [[v e]|]; [destruct (Nat.eqb e 0); [now apply getc_setc_other | apply CF] | destruct (ccanc x); [apply CF | reflexivity]].
Qed.

Lemma cb_return_other fx s c res c' : c' <> c -> getc (cb_return fx s c res) c' = getc s c'.
Proof.
  intros Hne. unfold cb_return. destruct (nth_error (conss s) c) as [x|]; [|reflexivity].
  destruct (ck x); try reflexivity. destruct (cpcv x); try reflexivity.
  assert (AR : forall y e', getc (acc_ret s c y e') c' = getc s c') by (intros y e'; unfold acc_ret; now apply own_other).
  destruct (ccanc x); [apply AR|].
  match goal with |- getc (if ?b then _ else _) _ = _ => destruct b end; [apply AR | now apply getc_setc_other].
Qed.

Lemma map_nth_getc {B} (g : cons -> B) s s' c : map g (conss s') = map g (conss s) -> g (getc s' c) = g (getc s c).
Proof. intros H. unfold getc. change (g cons0) with (g cons0). rewrite <- !(map_nth g). now rewrite H. Qed.

Lemma step_K1 s e : K1 (conss s) -> K1 (conss (step repaired s e)).
Proof.
  intros H. destruct e as [c|k|r|a|g|a|g en|g v hr er|g|k|c|c|c|c res|c|c]; try (apply (Q_step_container K1 invoke_K1); [exact I | exact H]); cbn [step].
  - unfold release_section. destruct (nth_error (relacts s) a) as [x|]; [|exact H]. destruct (ra_pc x); [|exact H].
    set (s1 := remove_ref _ (ra_ref x)). assert (H1 : K1 (conss s1)) by (apply (Q_remove_ref K1 invoke_K1); exact H).
    destruct (ra_cons x) as [c|]; [|exact H1]. destruct (cpcv (getc s1 c)) eqn:Ec; try exact H1.
    cbn [conss set_conss]. apply K1_set; [exact H1|]. intros Hk. apply wok1_leave; [apply K1_getc; [exact H1 | exact Hk]|].
    intros v e0 E. destruct (ck (getc s1 c)); discriminate.
  - unfold start_consumer. apply (Q_add_ref K1 invoke_K1). cbn [conss set_conss].
    intros c x Hx Hk. destruct (nth_error_snoc_cases _ _ _ _ Hx) as [[_ H0]|[_ ->]]; [exact (H c x H0 Hk)|]. split; [intros E; now destruct E | intros; discriminate].
  - (* a consumer's own step *)
    intros c' y' Hy' Hk. destruct (getc_lt _ c' y' Hy') as [_ Eg]. rewrite <- Eg in *.
    destruct (Nat.eq_dec c' c) as [->|Hne]; [|rewrite cons_step_other in * by exact Hne; now apply K1_getc].
    pose proof (map_nth_getc ck s (cons_step s c) c (f_equal v_ck (vw_cons_step s c))) as Ek.
    pose proof (map_nth_getc wwf s (cons_step s c) c (wwf_cons_step s c)) as Ew.
    rewrite Ek in Hk. pose proof (K1_getc s c H Hk) as [A B]. destruct (wwf_fields _ _ Ew) as [E1 [_ [_ E4]]].
    split; [rewrite E1, E4; exact A|]. rewrite E4. intros v e E.
    destruct (nth_error (conss s) c) as [x|] eqn:Ex; [|unfold cons_step in E; rewrite Ex in E; exact (B v e E)].
    destruct (getc_nth_error s c x Ex) as [Egx _]. rewrite Egx in *.
    assert (Idle : cpcv x <> CBlocked -> cons_step s c = s).
    { intros Hp. unfold cons_step. rewrite Ex, Hk. destruct (cpcv x); try reflexivity. contradiction. }
    destruct (cpcv x) eqn:Ep; try (rewrite Idle in E by discriminate; rewrite Egx, Ep in E; exact (B v e E)).
    pose proof (cons_step_result s c x Ex Ep ltac:(rewrite Hk; discriminate)) as R. cbv zeta in R. unfold cres in R. rewrite Hk in R.
    destruct (ww_prom x) as [[v0 [|e0]]|]; [discriminate | destruct R as [R|R]; rewrite R in E; discriminate|].
    destruct (ccanc x); [destruct R as [R|R]; rewrite R in E; discriminate | rewrite R in E; discriminate].
  - destruct (nth_error (conss s) c) as [x|] eqn:Ex; [|exact H]. rewrite conss_setc. apply K1_set; [exact H|]. intros Hk. exact (H c x Ex Hk).
  - unfold fire_section. destruct (nth_error (conss s) c) as [x|] eqn:Ex; [|exact H]. destruct (ww_firepc x) as [[|]|]; try exact H.
    apply (Q_remove_ref K1 invoke_K1). rewrite conss_setc. apply K1_set; [exact H|]. intros Hk. exact (H c x Ex Hk).
  - intros c' y' Hy' Hk. destruct (getc_lt _ c' y' Hy') as [_ Eg]. rewrite <- Eg in *.
    destruct (Nat.eq_dec c' c) as [->|Hne]; [|rewrite cb_return_other in * by exact Hne; now apply K1_getc].
    pose proof (map_nth_getc ck s (cb_return repaired s c res) c (f_equal v_ck (vw_cb_return repaired s c res))) as Ek. rewrite Ek in Hk.
    unfold cb_return in *. destruct (nth_error (conss s) c) as [x|] eqn:Ex; [|now apply K1_getc].
    destruct (getc_nth_error s c x Ex) as [Egx _]. rewrite Egx in Hk. rewrite Hk. apply K1_getc; [exact H | now rewrite Egx].
  - destruct (watch_step_spec s c) as [->|[x [y [Hx [-> Hy]]]]]; [exact H|]. wsplit Hy. rewrite conss_setc. apply K1_set; [exact H|].
    intros Hk. rewrite Wck in Hk. pose proof (H c x Hx Hk) as W. unfold wok1 in *. now rewrite Wwprom, Wwres, Wcpcv.
Qed.

Theorem run_K1 k es : K1 (conss (run repaired (init k) es)).
Proof. unfold run. apply fold_inv; [intros s e; apply step_K1 | intros [|c] x H; discriminate]. Qed.

(* ------------------------------------------------------------------ *)
(* once fired, always fired *)
Definition Once (c : nat) (l : list cons) : Prop := ww_once (nth c l cons0) = true.

Lemma Once_lt c l : Once c l -> c < length l.
Proof. unfold Once. intros H. destruct (Nat.lt_ge_cases c (length l)) as [Hl|Hl]; [exact Hl|]. rewrite nth_overflow in H by exact Hl. discriminate. Qed.

Lemma invoke_Once c s r n : Once c (conss s) -> Once c (conss (invoke s r n)).
Proof.
  unfold Once. fold (getc s c) (getc (invoke s r n) c). intros H. destruct (invoke_cq s r n c) as [_ [_ [E|E]]]; destruct (wwf_fields _ _ E) as [_ [_ [E3 _]]]; rewrite E3; [exact H|].
  destruct (cb_wwr_cases (getc s c) n (nonce s)) as [T F0]. cbv zeta in T, F0. destruct (ww_res (getc s c)) eqn:Er.
  - destruct (T eq_refl) as [_ [_ [_ [_ [_ T6]]]]]. now apply T6.
  - destruct (F0 eq_refl) as [T1 _]. congruence.
Qed.

Lemma Once_set c l c' y : Once c l -> (c' = c -> ww_once y = true) -> Once c (set_nth l c' y).
Proof.
  unfold Once. intros H Hy. destruct (Nat.lt_ge_cases c' (length l)) as [Hl|Hl]; [|now rewrite set_nth_oob].
  destruct (Nat.eq_dec c c') as [->|Hne]; [rewrite nth_set_nth_same by exact Hl; now apply Hy | now rewrite nth_set_nth_other].
Qed.

Lemma step_Once c s e : Once c (conss s) -> Once c (conss (step repaired s e)).
Proof.
  intros H. destruct e as [c0|k|r|a|g|a|g en|g v hr er|g|k|c0|c0|c0|c0 res|c0|c0];
    try (apply (Q_step_container (Once c) (invoke_Once c)); [exact I | exact H]); cbn [step].
  - unfold release_section. destruct (nth_error (relacts s) a) as [x|]; [|exact H]. destruct (ra_pc x); [|exact H].
    set (s1 := remove_ref _ (ra_ref x)). assert (H1 : Once c (conss s1)) by (apply (Q_remove_ref (Once c) (invoke_Once c)); exact H).
    destruct (ra_cons x) as [c1|]; [|exact H1]. destruct (cpcv (getc s1 c1)) eqn:Ec; try exact H1.
    cbn [conss set_conss]. apply Once_set; [exact H1|]. intros ->. exact H1.
  - unfold start_consumer. apply (Q_add_ref (Once c) (invoke_Once c)). cbn [conss set_conss]. unfold Once. rewrite app_nth1 by (now apply Once_lt). exact H.
  - unfold Once. fold (getc (cons_step s c0) c) (getc s c). destruct (wwf_fields _ _ (map_nth_getc wwf s _ c (wwf_cons_step s c0))) as [_ [_ [E _]]]. rewrite E. exact H.
  - destruct (nth_error (conss s) c0) as [x|] eqn:Ex; [|exact H]. rewrite conss_setc. apply Once_set; [exact H|]. intros ->.
    unfold Once in H. fold (getc s c) in H. rewrite (getc_x s c x Ex) in H. exact H.
  - unfold fire_section. destruct (nth_error (conss s) c0) as [x|] eqn:Ex; [|exact H]. destruct (ww_firepc x) as [[|]|]; try exact H.
    apply (Q_remove_ref (Once c) (invoke_Once c)). rewrite conss_setc. apply Once_set; [exact H|]. intros ->.
    unfold Once in H. fold (getc s c) in H. rewrite (getc_x s c x Ex) in H. exact H.
  - unfold Once. fold (getc (cb_return repaired s c0 res) c) (getc s c).
    destruct (wwf_fields _ _ (map_nth_getc wwf s _ c (wwf_cb_return repaired s c0 res))) as [_ [_ [E _]]]. rewrite E. exact H.
  - destruct (watch_step_spec s c0) as [->|[x [y [Hx [-> Hy]]]]]; [exact H|]. wsplit Hy. rewrite conss_setc. apply Once_set; [exact H|]. intros ->.
    unfold Once in H. fold (getc s c) in H. rewrite (getc_x s c x Hx) in H. congruence.
Qed.

Lemma settle_Once c s : Once c (conss s) -> Once c (conss (settle s)).
Proof.
  intros H. destruct (settle_run s) as [es [-> F]]. apply (run_internal (fun s0 => Once c (conss s0))); auto.
  intros s0 e _ H0. now apply step_Once.
Qed.

Lemma HR_W2 h : HR h -> hconst h = false -> W2 (hs h).
Proof. intros [[k [es [-> Hw]]] _] Hc. apply run_W2. now apply Hw. Qed.
Lemma HR_K1 h : HR h -> K1 (conss (hs h)).
Proof. intros [[k [es [-> _]]] _]. apply run_K1. Qed.
