(* refcount: the monitors tied to the model, part 2: [mon1] taken apart.  Every let-bound piece of Spec.mon1 is given a name
   here (same expression), and [mon1_eq] (by reflexivity) says mon1 is their composition, so that the clause lemmas can talk
   about one piece at a time. *)
From Util Require Import Common.Base Common.ListLemmas RefCount.Model RefCount.Spec.
Open Scope N_scope.

Section Pieces.
  Variables (m : mst) (e : list N) (p : pobs).

  Definition u_vof (g : N) : N := if m_const m then 7 else g + 1.
  Definition u_ng : nat := length (po_gs p).
  Definition u_spawned : bool := Nat.ltb (m_ng m) u_ng.
  Definition u_ctx : N := match e with [1; c] => c | _ => m_ctx m end.
  Definition u_rootc : list N := match e with [14; c] => c :: m_rootc m | _ => m_rootc m end.
  Definition u_nref_before : nat := length (m_in m).
  Definition u_in : list bool :=
    match e with
    | [2; _] | [10; _] => (m_in m ++ [true])%list
    | [4; a] => set_nth (m_in m) (nth (n2n a) (m_raref m) 0%nat) false
    | [12; c] => set_nth (m_in m) (nth (n2n c) (m_cref m) 0%nat) false
    | _ => m_in m
    end.
  Definition u_kind : list N :=
    match e with
    | [2; k] => (m_kind m ++ [if N.eqb k 0 then 0 else 1])%list
    | [10; _] => (m_kind m ++ [0])%list
    | _ => m_kind m
    end.
  Definition u_cref : list nat := match e with [10; _] => (m_cref m ++ [u_nref_before])%list | _ => m_cref m end.
  Definition u_ckind : list N := match e with [10; k] => (m_ckind m ++ [ckind_norm k])%list | _ => m_ckind m end.
  Definition u_ncons : nat := length (po_cons p).
  Definition u_cret : list bool := map (fun x => let '(code, _, _, _, _, _) := x in N.eqb code 3) (po_cons p).
  Definition u_raref : list nat := map (fun x => n2n (snd x)) (po_relacts p).
  Definition u_nin : nat := cntb u_in.
  Definition u_out1 : list N :=
    match e with [8; g; hr; _] | [8; g; hr; _; _] => if nz hr then (m_out m ++ [g])%list else m_out m | _ => m_out m end.
  Definition u_empty : list N :=
    match e with [8; g; _; _; z] => if nz z then (m_empty m ++ [g])%list else m_empty m | _ => m_empty m end.
  Definition u_emptyok : list N :=
    match e with [8; g; _; er; z] => if nz z && N.eqb er 0 then (m_emptyok m ++ [g])%list else m_emptyok m | _ => m_emptyok m end.
  Definition u_vofe (g : N) : N := if mem g u_empty then 0 else u_vof g.
  Definition u_newcalls : list N := map (fun x => let '(id, _, _) := x in id) (po_rels p).
  Definition u_called : list N := (m_called m ++ u_newcalls)%list.
  Definition u_out : list N := filter (fun g => negb (mem g u_newcalls)) u_out1.
  Definition u_stored_now : option (N * N) :=
    match e with
    | [9; g] => if mem g u_emptyok then (if Nat.eqb (S (n2n g)) u_ng && nz u_ctx && Nat.ltb 0 u_nin then Some (g, 0) else None)
                else if N.eqb (po_target p) (u_vof g) && N.eqb (po_terr p) 0 then Some (g, 0)
                else if nz (po_terr p) && negb (match m_cur m with Some (_, e0) => N.eqb e0 (po_terr p) | None => false end) then Some (g, po_terr p)
                else None
    | _ => None
    end.
  Definition u_removed_last (r : nat) : bool := nth r (m_in m) false && Nat.eqb (cntb (m_in m)) 1.
  Definition u_cleared : bool :=
    match m_cur m with
    | None => false
    | Some (c, e0) =>
      match e with
      | [1; _] => match po_rets p with [u] => nz u | _ => false end
      | [5; g] | [6; _; g] => N.eqb c g
      | [4; a] => u_removed_last (nth (n2n a) (m_raref m) 0%nat) && negb (m_keep m && N.eqb e0 0)
      | [12; c0] => u_removed_last (nth (n2n c0) (m_cref m) 0%nat) && negb (m_keep m && N.eqb e0 0)
      | _ => false
      end
    end.
  Definition u_cur2 : option (N * N) := match u_stored_now with Some x => Some x | None => m_cur m end.
  Definition u_cur : option (N * N) :=
    if u_cleared then None
    else match u_cur2 with
         | Some (g, e0) => if (if N.eqb e0 0 then N.eqb (po_target p) (u_vofe g) && N.eqb (po_terr p) 0 else N.eqb (po_terr p) e0) then u_cur2 else None
         | None => None
         end.
  Definition u_f8_1 := fails 8 1 (nodupb u_called).
  Definition u_f8_2 := fails 8 2 (forallb (fun x => let '(id, tg, stale) := x in negb (N.eqb tg (id + 1)) && N.eqb stale 0) (po_rels p)).
  Definition u_dropped_last : bool := Nat.eqb u_nin 0.
  Definition u_f8_3 := fails 8 3 (forallb (fun id =>
                match e with
                | [1; _] => match po_rets p with [u] => nz u | _ => false end
                | [4; _] | [12; _] => u_dropped_last
                | [5; g] | [6; _; g] => N.eqb id g
                | [9; g] => N.eqb id g
                | _ => false
                end) u_newcalls).
  Definition u_at_store : list N := map (fun kx => nn (fst kx)) (filter (fun kx => N.eqb (snd kx) 4) (combine (seq 0 u_ng) (po_gs p))).
  Definition u_legit : bool :=
    nz u_ctx && (Nat.ltb 0 u_nin || (m_keep m && match u_cur with Some (_, e0) => N.eqb e0 0 | None => false end)).
  Definition u_f8_4 := fails 8 4 (forallb (fun g => mem g u_at_store || (match u_cur with Some (c, _) => N.eqb c g | None => false end && u_legit)) u_out).
  Definition u_f9_1 := fails 9 1 (Nat.leb (cnt (N.eqb 3) (po_gs p)) 1).
  Definition u_f9_2 := fails 9 2 (match e with [2; _] => match po_rets p with [x] => N.eqb x 0 | _ => false end | _ => true end).
  Definition u_quiet : bool :=
    forallb (fun c => negb (N.eqb c 1) && negb (N.eqb c 4)) (po_gs p) && N.eqb (po_async p) 0
    && forallb (fun c => negb (N.eqb (fst c) 1)) (po_relacts p)
    && forallb (fun x => let '(_, _, _, _, _, fp) := x in negb (N.eqb fp 1)) (po_cons p).
  Definition u_delivered : bool :=
    match u_cur with
    | Some (g, e0) =>
      forallb (fun t => let '(inn, k, (lc, v, er)) := t in
                 negb inn || N.eqb k 0 || (N.eqb lc 2 && N.eqb v (if mem g u_empty then 0 else g + 1) && N.eqb er e0))
              (zip3 u_in u_kind (po_refs p))
    | None => false
    end.
  Definition u_f9_3 := fails 9 3 (negb (u_quiet && nz u_ctx && negb (mem u_ctx u_rootc) && Nat.ltb 0 u_nin) || existsb (N.eqb 3) (po_gs p) || u_delivered).
  Definition u_f9_4 := fails 9 4 (match e with
                         | [5; g] => match m_cur m with
                                     | Some (c, _) => negb (N.eqb c g) || (N.eqb (po_target p) 0 && N.eqb (po_terr p) 0
                                                                           && (negb (nz u_ctx && Nat.ltb 0 u_nin) || u_spawned))
                                     | None => true
                                     end
                         | _ => true
                         end).
  Definition u_holds : list (option N) :=
    map (fun t => let '(inn, (code, v, _, h, _, _)) := t in
                      if inn && N.eqb code 3 && nz h then Some v else None)
                   (combine (map (fun r => nth r u_in false) u_cref) (po_cons p)).
  Definition u_f10_1 := fails 10 1 (match e with
                           | [4; _] | [12; _] | [9; _] | [2; _] | [3; _] | [7; _; _] | [8; _; _; _] | [8; _; _; _; _] | [10; _] | [11; _] =>
                             forallb (fun id => negb (existsb (fun hv => match hv with Some v => N.eqb v (id + 1) | None => false end) u_holds)) u_newcalls
                           | _ => true
                           end).
  Definition u_f10_2 := fails 10 2 (forallb (fun x => let '(_, _, _, _, fired, _) := x in N.leb fired 1) (po_cons p)).
  Definition u_inval1 : list bool := (m_inval m ++ repeat false (length (po_cons p) - length (m_inval m)))%list.
  Definition u_lost0 : option N :=
    match m_cur m, u_cur with
    | Some (g, _), None => Some g
    | Some (g, _), Some (g', _) => if N.eqb g g' then None else Some g
    | None, _ => None
    end.
  Definition u_lost : option N :=
    match u_lost0 with
    | Some g => Some g
    | None => match e, m_cur m with
              | [5; g], Some (c, _) => if N.eqb c g then Some g else None
              | _, _ => None
              end
    end.
  Definition u_inval : list bool :=
    map (fun t => let '(iv, hv, k) := t in
                       iv || (N.eqb k 1 && match u_lost, hv with Some g, Some v => N.eqb v (u_vofe g) | _, _ => false end))
                    (zip3 u_inval1 u_holds u_ckind).
  Definition u_f10_3 := fails 10 3 (negb u_quiet ||
                 forallb (fun t => let '(iv, (_, _, _, _, fired, _)) := t in negb iv || N.eqb fired 1)
                         (combine u_inval (po_cons p))).
  Definition u_f9_5 := fails 9 5 (match e with
                         | [5; g] => negb (Nat.eqb (S (n2n g)) (m_ng m) && (let c := nth (n2n g) (m_gs m) 0 in N.eqb c 3 || N.eqb c 4)
                                           && nz (m_ctx m) && Nat.ltb 0 (cntb (m_in m)))
                                     || u_spawned
                         | _ => true
                         end).
  Definition u_ccanc : list bool :=
    map (fun ib => snd ib || match e with [11; c] => Nat.eqb (n2n c) (fst ib) | _ => false end)
        (combine (seq 0 u_ncons) (padb (m_ccanc m) u_ncons)).
  Definition u_acb0 := padb (m_acb m) u_ncons.
  Definition u_acanc0 := padb (m_acanc m) u_ncons.
  Definition u_ainv0 := padb (m_ainv m) u_ncons.
  Definition u_ccanc0 := padb (m_ccanc m) u_ncons.
  Definition u_adec0 : list (option (N * bool)) := (m_adec m ++ repeat None (u_ncons - length (m_adec m)))%list.
  Definition u_cur_err : N := match u_cur with Some (_, e0) => e0 | None => 0 end.
  Definition u_rows :=
    combine (seq 0 u_ncons) (combine (zip5 u_acb0 u_acanc0 u_ainv0 u_ccanc0 u_adec0) (combine (combine u_ckind u_cref) (combine u_ccanc (po_cons p)))).
  Definition u_judge (row : nat * ((bool * bool * bool * bool * option (N * bool)) * ((N * nat) * (bool * (N * N * N * N * N * N)))))
    : bool * bool * bool * option (N * bool) * list (nat * nat) :=
    let '(i, ((acb, acanc, ainv, ccb, adec), ((k, r), (ccn, (code, v, _, h, _, fp))))) := row in
    if negb (N.eqb k 2) then (false, false, false, None, [])
    else
      let cbnow := N.eqb code 6 in
      let mine := match e with [13; c; _] => Nat.eqb (n2n c) i | _ => false end in
      let started := cbnow && (negb acb || mine) in
      let inv' := if started then false else ainv || (acb && match u_lost with Some _ => true | None => false end) in
      let decided := match adec with Some _ => true | None => false end in
      let decnow := negb decided && (existsb (Nat.eqb r) u_raref || N.eqb code 3) in
      let fromcb := mine && negb ccb && negb ainv in
      let rc := match e with [13; _; res] => if N.eqb res 1 then nb acanc else res | _ => 0 end in
      let expected := if mine && ccb then 1 else if fromcb then rc else if nz u_cur_err then u_cur_err else 1 in
      let adec' := if decnow then Some (expected, fromcb) else adec in
      let decided' := match adec' with Some _ => true | None => false end in
      let c4 := fails 10 4 (negb started || match u_cur with Some (g, e0) => N.eqb e0 0 && N.eqb v (u_vofe g) | None => false end) in
      let c5 := fails 10 5 (negb (cbnow && inv' && negb (N.eqb fp 1)) || nz h) in
      let c6 := fails 10 6 (negb (decnow && mine && negb ccb) || negb ainv || nz u_cur_err) in
      let c6r := fails 10 6 (match adec' with Some (x, true) => negb (N.eqb code 3) || N.eqb v x | _ => true end) in
      let c6q := fails 10 6 (negb (u_quiet && negb decided' && negb ccn && match u_cur with Some (_, e0) => N.eqb e0 0 | None => false end) || cbnow) in
      let c7 := fails 10 7 (negb (decnow && negb mine) || ccn || nz u_cur_err) in
      let c7r := fails 10 7 (match adec' with Some (x, false) => negb (N.eqb code 3) || N.eqb v x | _ => true end) in
      let c7q := fails 10 7 (negb (u_quiet && negb decided' && nz u_cur_err) || cbnow) in
      (cbnow, cbnow && nz h, inv', adec', (c4 ++ c5 ++ c6 ++ c6r ++ c6q ++ c7 ++ c7r ++ c7q)%list).
  Definition u_judged := map u_judge u_rows.
  Definition u_facc : list (nat * nat) := concat (map (fun j => let '(_, _, _, _, f) := j in f) u_judged).
  (* clause 10.8: no Wait / Resolve / ResolveWithReleased call returned a context error other than context.Canceled (status 7) *)
  Definition u_f10_8 := fails 10 8 (forallb (fun x => let '(code, _, _, _, _, _) := x in negb (N.eqb code 7)) (po_cons p)).
  Definition u_all : list (nat * nat) :=
    (u_f8_1 ++ u_f8_2 ++ u_f8_3 ++ u_f8_4 ++ u_f9_1 ++ u_f9_2 ++ u_f9_3 ++ u_f9_4 ++ u_f9_5 ++ u_f10_1 ++ u_f10_2 ++ u_f10_3)%list.
  Definition u_mst : mst :=
    {| m_keep := m_keep m; m_ctx := u_ctx; m_in := u_in; m_kind := u_kind; m_raref := u_raref; m_cref := u_cref; m_out := u_out;
       m_called := u_called; m_cur := u_cur; m_ng := u_ng; m_inval := u_inval; m_ckind := u_ckind; m_cret := u_cret;
       m_const := m_const m; m_gs := po_gs p; m_ccanc := u_ccanc;
       m_acb := map (fun j => let '(a, _, _, _, _) := j in a) u_judged;
       m_acanc := map (fun j => let '(_, a, _, _, _) := j in a) u_judged;
       m_ainv := map (fun j => let '(_, _, a, _, _) := j in a) u_judged;
       m_adec := map (fun j => let '(_, _, _, a, _) := j in a) u_judged; m_rootc := u_rootc; m_empty := u_empty; m_emptyok := u_emptyok |}.

  Lemma mon1_eq : mon1 m e p = (u_mst, ((if m_const m then [] else u_all) ++ u_facc ++ u_f10_8)%list).
  Proof. reflexivity. Qed.
End Pieces.
