(* refcount: the monitors tied to the model: the monitors' books of the goroutines whose resolver call returned the empty value
   ([m_empty]: with or without an error; [m_emptyok]: with a nil error), in every configuration. *)
From Util Require Import Common.Base Common.ListLemmas RefCount.Model RefCount.Spec RefCount.Proofs RefCount.ProofsC08 RefCount.ProofsC08b
  RefCount.ProofsC09 RefCount.ProofsC10 RefCount.ProofsC10a RefCount.ProofsC10b RefCount.ProofsCodec RefCount.ProofsMon RefCount.ProofsMon2 RefCount.ProofsMon3
  RefCount.ProofsMon4 RefCount.ProofsMon5 RefCount.ProofsMon6 RefCount.ProofsMon7 RefCount.ProofsMonG RefCount.ProofsMon10 RefCount.ProofsMon17.
Open Scope nat_scope.

Lemma mem_true x l : mem x l = true <-> In x l.
Proof.
  unfold mem. rewrite existsb_exists. split.
  - intros [y [Hy E]]. apply N.eqb_eq in E. now subst.
  - intros H. exists x. split; [exact H | apply N.eqb_refl].
Qed.

Lemma mem_filter x P l : mem x (filter P l) = true -> mem x l = true /\ P x = true.
Proof. rewrite !mem_true, filter_In. auto. Qed.

Lemma mem_app x l1 l2 : mem x (l1 ++ l2) = mem x l1 || mem x l2.
Proof. unfold mem. apply existsb_app. Qed.

(* ------------------------------------------------------------------ *)
(* the goroutines whose resolver call returned the empty value *)
Definition Pret0 (i : nat) (l : list gor) : Prop := exists x, nth_error l i = Some x /\ returned (gpcv x) = true.

Lemma Pret0_gtr i l l' : gtr l l' -> Pret0 i l -> Pret0 i l'.
Proof.
  apply (gtr_ind_prop (Pret0 i)).
  - intros l0 g x Hx [y [Hy A]]. assert (Hl : g < length l0) by (eapply nth_error_nth_len; eauto). destruct (Nat.eq_dec i g) as [->|Hne].
    + exists (gcancel x). rewrite nth_error_set_nth_same by exact Hl. assert (y = x) by congruence. subst y. auto.
    + exists y. rewrite nth_error_set_nth_other by exact Hne. auto.
  - intros l0 x _ _ _ [y [Hy A]]. exists y. split; [|exact A]. rewrite nth_error_app1; [exact Hy | eapply nth_error_nth_len; eauto].
  - intros l0 g x p Hx Hm [y [Hy A]]. assert (Hl : g < length l0) by (eapply nth_error_nth_len; eauto). destruct (Nat.eq_dec i g) as [->|Hne].
    + exists (with_gpc x p). rewrite nth_error_set_nth_same by exact Hl. assert (y = x) by congruence. subst y.
      split; [reflexivity|]. unfold okmove in Hm. destruct (gpcv x); try discriminate A; destruct p; try contradiction. reflexivity.
    + exists y. rewrite nth_error_set_nth_other by exact Hne. auto.
Qed.

Lemma Pret0_step i s e : Pret0 i (gs s) -> Pret0 i (gs (step repaired s e)).
Proof.
  intros H. destruct e as [c|k|r|a|g|a|g en|g v hr er|g|k|c|c|c|c res|c|c]; try (refine (Pret0_gtr i _ _ (gtr_step s _ _) H); intros; discriminate).
  cbn [step]. unfold resolver_return. destruct (nth_error (gs s) g) as [x|] eqn:Ex; [|exact H]. destruct (gpcv x) eqn:Ep; try exact H.
  destruct H as [y [Hy A]]. assert (Hl : g < length (gs s)) by (eapply nth_error_nth_len; eauto). rewrite gs_setg.
  destruct (Nat.eq_dec i g) as [->|Hne].
  - assert (y = x) by congruence. subst y. rewrite Ep in A. discriminate.
  - exists y. rewrite nth_error_set_nth_other by exact Hne. auto.
Qed.

(* a list of goroutines that returned a result of some shape P (value, error) *)
Section RList.
  Variable P : nat -> nat -> Prop.

  Record Rlist (L : list N) (s : st) : Prop := {
    rl_ret : forall g, mem g L = true -> Pret0 (n2n g) (gs s);
    rl_store : forall i v hr e, at_store i v hr e (gs s) -> (mem (nn i) L = true <-> P v e);
    rl_cur : resolved s = true -> (mem (nn (vgen s)) L = true <-> P (value s) (verr s));
  }.
End RList.

Definition Pz (v e : nat) : Prop := v = 0.
Definition Pzz (v e : nat) : Prop := v = 0 /\ e = 0.
Record Rempty (m : mst) (s : st) : Prop := { re_e : Rlist Pz (m_empty m) s; re_ok : Rlist Pzz (m_emptyok m) s }.

(* results at the store gate after a section: those that were there, and the one a resolver return put there *)
Lemma at_store_step s e i v hr er :
  at_store i v hr er (gs (step repaired s e)) ->
  at_store i v hr er (gs s) \/
  (e = EResReturn i v hr er /\ exists x, nth_error (gs s) i = Some x /\ gpcv x = GInRes).
Proof.
  intros H. destruct e as [c|k|r|a|g|a|g en|g v0 hr0 er0|g|k|c|c|c|c res|c|c];
    try (left; refine (no_new_store i v hr er _ _ (gtr_step s _ _) H); intros; discriminate).
  cbn [step] in H. unfold resolver_return in H. destruct (nth_error (gs s) g) as [x|] eqn:Ex; [|now left]. destruct (gpcv x) eqn:Ep; try (now left).
  destruct H as [y [Hy Ey]]. assert (Hl : g < length (gs s)) by (eapply nth_error_nth_len; eauto). rewrite gs_setg in Hy.
  destruct (Nat.eq_dec i g) as [->|Hne].
  - rewrite nth_error_set_nth_same in Hy by exact Hl. inversion Hy; subst y. cbn [gpcv with_gpc] in Ey. inversion Ey; subst. right. split; [reflexivity|]. eauto.
  - rewrite nth_error_set_nth_other in Hy by exact Hne. left. exists y. auto.
Qed.

Section RListUpd.
  Variable P : nat -> nat -> Prop.
  Variables (h : hst) (e : list N) (e0 : ev) (rets : list N) (L L' : list N).
  Hypothesis HCh : HRc h.
  Hypothesis Hd : dec h e e0 rets.
  Hypothesis HL : Rlist P L (hs h).
  Local Notation s := (hs h).
  Local Notation s1 := (step repaired (hs h) e0).
  Local Notation s' := (settle (step repaired (hs h) e0)).
  (* how the event extends the list *)
  Hypothesis UC :
    (L' = L /\ forall g v hr er, e0 = EResReturn g v hr er -> ~ P v er) \/
    (exists g v hr er x, L' = L ++ [g] /\ e0 = EResReturn (n2n g) v hr er /\ P v er /\ nth_error (gs s) (n2n g) = Some x /\ gpcv x = GInRes).

  Lemma upd_rlist : Rlist P L' s'.
  Proof.
    pose proof (gtr_settle s1) as GS. pose proof (settle_vf s1) as V'.
    destruct (HRc_lt h HCh) as [HN [HS HV0]]. pose proof (HRc_chain h HCh) as HChn.
    assert (NotRet : forall g x, nth_error (gs s) (n2n g) = Some x -> gpcv x = GInRes -> mem g L = false).
    { intros g x Hx Hp. destruct (mem g L) eqn:E; [|reflexivity]. destruct (rl_ret P L s HL g E) as [y [Hy A]].
      assert (y = x) by congruence. subst y. rewrite Hp in A. discriminate. }
    destruct HL as [E1 E2 E3]. constructor.
    - (* returned *) intros g Hg.
      assert (Old : mem g L = true -> Pret0 (n2n g) (gs s')).
      { intros Hm. apply (Pret0_gtr _ _ _ GS). apply Pret0_step. now apply E1. }
      destruct UC as [[UE _]|[g0 [v0 [hr [er [x [UE [He0 [_ [Hx Hp]]]]]]]]]]; rewrite UE in Hg; [now apply Old|].
      rewrite mem_app in Hg. apply orb_true_iff in Hg. destruct Hg as [Hg|Hg]; [now apply Old|].
      unfold mem in Hg. cbn [existsb] in Hg. rewrite orb_false_r in Hg. apply N.eqb_eq in Hg. subst g0.
      apply (Pret0_gtr _ _ _ GS). rewrite He0. cbn [step]. unfold resolver_return. rewrite Hx, Hp, gs_setg.
      eexists. split; [apply nth_error_set_nth_same; eapply nth_error_nth_len; eauto | reflexivity].
    - (* at the store gate *) intros i v hr er Hs. apply (no_new_store _ _ _ _ _ _ GS) in Hs.
      destruct (at_store_step s e0 i v hr er Hs) as [Hold|[He0 [x [Hx Hp]]]].
      + destruct UC as [[-> _]|[g0 [v0 [hr0 [er0 [x [-> [He0 [_ [Hx Hp]]]]]]]]]]; [now apply (E2 i v hr er)|].
        rewrite mem_app. unfold mem at 2. cbn [existsb]. rewrite orb_false_r.
        assert (Hne : N.eqb (nn i) g0 = false).
        { apply N.eqb_neq. intros E. subst g0. rewrite n2n_nn in Hx. destruct Hold as [y [Hy Ey]]. assert (y = x) by congruence. subst y. congruence. }
        rewrite Hne, orb_false_r. now apply (E2 i v hr er).
      + destruct UC as [[-> Hv]|[g0 [v0 [hr0 [er0 [x0 [-> [He0' [HP0 [Hx0 Hp0]]]]]]]]]].
        * rewrite (NotRet (nn i) x) by (rewrite ?n2n_nn; assumption). split; [discriminate | intros HPv; exfalso; exact (Hv _ _ _ _ He0 HPv)].
        * rewrite He0 in He0'. inversion He0'; subst. rewrite nn_n2n, mem_app. unfold mem at 2. cbn [existsb]. rewrite N.eqb_refl.
          rewrite orb_true_r. split; auto.
    - (* the stored result *) intros Er. destruct (vf_fields _ _ V') as [A [B [C [D _]]]]. rewrite A in Er. rewrite B, C, D.
      assert (Stay : forall g0 x, nth_error (gs s) (n2n g0) = Some x -> gpcv x = GInRes -> resolved s = true -> N.eqb (nn (vgen s)) g0 = false).
      { intros g0 x Hx Hp Er0. apply N.eqb_neq. intros E. destruct HV0 as [V1 _]. destruct (V1 Er0) as [_ [_ [A3 _]]].
        rewrite <- E, n2n_nn in Hx. destruct (getg_nth_error s _ x Hx) as [Eg _]. rewrite Eg in A3. unfold gdone in A3. rewrite Hp in A3. discriminate. }
      assert (Cases : (forall g, e0 <> EStore g) \/
                      exists g x v hr er, e0 = EStore g /\ nth_error (gs s) g = Some x /\ gpcv x = GStore v hr er).
      { destruct Hd; try (left; intros; discriminate). right. eauto 10. }
      destruct Cases as [Hne|[g [x [v [hr [er [He0 [Hx Hp]]]]]]]].
      + destruct (vkeep_step s _ Hne) as [Ek|Ek]; [congruence|].
        destruct (vf_fields _ _ Ek) as [A' [B' [C' [D' _]]]]. rewrite A' in Er. rewrite B', C', D'.
        destruct UC as [[-> _]|[g0 [v0 [hr0 [er0 [x0 [-> [He0' [_ [Hx0 Hp0]]]]]]]]]]; [now apply E3|].
        rewrite mem_app. unfold mem at 2. cbn [existsb]. rewrite orb_false_r, (Stay g0 x0 Hx0 Hp0 Er), orb_false_r. now apply E3.
      + (* the store section *)
        destruct UC as [[-> _]|[g0 [v0 [hr0 [er0 [x0 [_ [He0' _]]]]]]]]; [|congruence].
        assert (Hnd : gdone x = false) by (unfold gdone; now rewrite Hp).
        pose proof (store_vf s g x v hr er Hx Hp) as SV. cbv zeta in SV. rewrite He0 in *. cbn [step] in *.
        destruct (Nat.eqb (nonce s) (gnonce x)).
        * destruct SV as [_ [Bv [Cv [Dv _]]]]. rewrite Bv, Cv, Dv. apply (E2 g v hr er). exists x. auto.
        * destruct (vf_fields _ _ SV) as [A' _]. rewrite A' in Er. rewrite (pending_unresolved_c (hconst h) s g x HChn HN HV0 Hx Hnd) in Er. discriminate.
  Qed.
End RListUpd.

Section Empty.
  Variables (m : mst) (h : hst) (e : list N) (e0 : ev) (rets : list N).
  Hypothesis HCh : HRc h.
  Hypothesis Hd : dec h e e0 rets.
  Hypothesis Hem : Rempty m (hs h).
  Local Notation s := (hs h).
  Local Notation s' := (settle (step repaired (hs h) e0)).
  Local Notation p := (pobs_of rets (settle (step repaired (hs h) e0)) (hrel h)).

  Lemma res_val_zero c g z : res_val c g z = 0 <-> N.eqb z 0 = false.
  Proof. unfold res_val. destruct (N.eqb z 0); [destruct c; split; discriminate | split; reflexivity]. Qed.

  Lemma upd_empty : Rempty (u_mst m e p) s'.
  Proof.
    destruct Hem as [HE HO]. constructor; cbn [m_empty m_emptyok u_mst].
    - apply (upd_rlist Pz h e e0 rets (m_empty m) (u_empty m e) HCh Hd HE). unfold Pz.
      destruct Hd; try (left; split; [reflexivity | intros; discriminate]).
      + left. split; [reflexivity|]. intros g0 v hr0 er0 E. inversion E. rewrite res_val_zero. discriminate.
      + cbn [u_empty]. unfold nz. destruct (N.eqb z 0) eqn:Ez; cbn [negb].
        * left. split; [reflexivity|]. intros g0 v hr0 er0 E. inversion E. rewrite res_val_zero, Ez. discriminate.
        * right. exists g, (res_val (hconst h) g z), (nz hr), (n2n er), x. rewrite res_val_zero. auto.
    - apply (upd_rlist Pzz h e e0 rets (m_emptyok m) (u_emptyok m e) HCh Hd HO). unfold Pzz.
      destruct Hd; try (left; split; [reflexivity | intros; discriminate]).
      + left. split; [reflexivity|]. intros g0 v hr0 er0 E. inversion E. rewrite res_val_zero. intros [Hx _]. discriminate Hx.
      + cbn [u_emptyok]. unfold nz. destruct (N.eqb z 0) eqn:Ez; cbn [negb andb].
        * left. split; [reflexivity|]. intros g0 v hr0 er0 E. inversion E. rewrite res_val_zero, Ez. intros [Hx _]. discriminate Hx.
        * destruct (N.eqb_spec er 0) as [Ee|Ee].
          -- right. exists g, (res_val (hconst h) g z), (nz hr), (n2n er), x. rewrite res_val_zero. subst er. auto 10.
          -- left. split; [reflexivity|]. intros g0 v hr0 er0 E. inversion E. intros [_ Hx]. apply Ee. apply N2Nat.inj. exact Hx.
  Qed.
End Empty.
