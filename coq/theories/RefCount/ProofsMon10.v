(* refcount: the monitors tied to the model, part 10: with a context, a reference and nothing resolved, the newest resolve
   goroutine belongs to the current generation (also when the owner cancelled the root context); clause 9.5. *)
From Util Require Import Common.Base Common.ListLemmas RefCount.Model RefCount.Spec RefCount.Proofs RefCount.ProofsC08 RefCount.ProofsC08b
  RefCount.ProofsC09 RefCount.ProofsC10 RefCount.ProofsC10a RefCount.ProofsC10b RefCount.ProofsCodec RefCount.ProofsMon RefCount.ProofsMon2 RefCount.ProofsMon3
  RefCount.ProofsMon4 RefCount.ProofsMon5 RefCount.ProofsMon6 RefCount.ProofsMon7 RefCount.ProofsMonG.
Open Scope nat_scope.

Definition newest_current (s : st) : Prop := exists g, S g = length (gs s) /\ gnonce (getg s g) = nonce s.
Definition L5 (s : st) : Prop := kctx s = 0 \/ nrefs s = 0 \/ resolved s = true \/ newest_current s.

(* generation numbers: of the container and of every goroutine *)
Definition nf (s : st) := (nonce s, map gnonce (gs s)).

Lemma nf_newest s s' : nf s' = nf s -> newest_current s -> newest_current s'.
Proof.
  unfold nf. intros H [g [Hg Hn]]. inversion H as [[H1 H2]]. exists g.
  assert (HL : length (gs s') = length (gs s)) by (rewrite <- (map_length gnonce (gs s')), H2; apply map_length).
  split; [congruence|]. rewrite H1, <- Hn. unfold getg. change (gnonce gor0) with (gnonce gor0).
  rewrite <- !(map_nth gnonce). now rewrite H2.
Qed.

Lemma nf_rest s s' : rest s' = rest s -> nf s' = nf s.
Proof. intros H. destruct (rest_fields s s' H) as [_ [_ [_ [A [_ [_ [_ [_ [_ [_ [_ [_ [B _]]]]]]]]]]]]]. unfold nf. now rewrite A, B. Qed.

Lemma nf_setg s g x y : nth_error (gs s) g = Some x -> gnonce y = gnonce x -> nf (setg s g y) = nf s.
Proof.
  intros Hx Hy. unfold nf. rewrite gs_setg. cbn [nonce setg set_gs]. f_equal.
  apply (map_set_nth_keep gnonce _ _ _ gor0). intros _. now rewrite (nth_error_nth_d _ _ gor0 _ Hx).
Qed.

Lemma nf_cancel_g s og : nf (cancel_g s og) = nf s.
Proof.
  unfold cancel_g. destruct og as [g|]; [|reflexivity]. destruct (nth_error (gs s) g) as [x|] eqn:E; [|reflexivity]. now apply (nf_setg s g x).
Qed.

Lemma nf_proceed s g en : nf (proceed repaired s g en) = nf s.
Proof.
  unfold proceed. destruct (nth_error (gs s) g) as [x|] eqn:Ex; [|reflexivity].
  assert (E : forall p, nf (setg s g (with_gpc x p)) = nf s) by (intros p; now apply (nf_setg s g x)).
  destruct (gpcv x); try reflexivity.
  - destruct (gwait x); [|apply E]. destruct (pred_done s x && gcanc x); [destruct en; apply E|].
    destruct (pred_done s x); [apply E|]. destruct (gcanc x); apply E.
  - destruct (pred_done s x || gcanc x); [|reflexivity].
    destruct (gwait x); [|apply E]. destruct (pred_done s x && gcanc x); [destruct en; apply E|].
    destruct (pred_done s x); [apply E|]. destruct (gcanc x); apply E.
  - destruct (pred_done s x); [apply E | reflexivity].
Qed.

Lemma nf_store s g : nf (store s g) = nf s.
Proof.
  unfold store. destruct (nth_error (gs s) g) as [x|] eqn:Ex; [|reflexivity]. destruct (gpcv x); try reflexivity.
  assert (E : nf (setg s g (with_gpc x GDone)) = nf s) by (now apply (nf_setg s g x)).
  set (s0 := setg s g (with_gpc x GDone)) in *. destruct (negb (Nat.eqb (nonce s0) (gnonce x))); [destruct hasrel; exact E|].
  rewrite <- E. match goal with |- nf (call_cbs ?a ?n) = _ => rewrite (nf_rest a _ (rest_call_cbs a n)) end.
  destruct (Nat.eqb e 0); reflexivity.
Qed.

Lemma nf_cancel_root s c : nf (cancel_root s c) = nf s.
Proof. apply (cancel_root_ind (fun s0 => nf s0 = nf s)); [|reflexivity]. intros s0 og H. now rewrite nf_cancel_g. Qed.

Lemma L5_start_resolve s : L5 (start_resolve s).
Proof.
  unfold start_resolve. set (s1 := shutdown s).
  destruct (Nat.eqb_spec (kctx s1) 0) as [E|E]; cbn [orb]; [now left|].
  destruct (Nat.eqb_spec (nrefs s1) 0) as [E2|E2]; [right; now left|].
  right. right. right. exists (length (gs s1)). cbn [gs nonce set_rcancel set_waitch set_gs]. split; [rewrite app_length; cbn; lia|].
  unfold getg. cbn [gs set_rcancel set_waitch set_gs]. rewrite app_nth2 by lia. now rewrite Nat.sub_diag.
Qed.

(* a step that keeps context, number of references, generation numbers and does not unresolve *)
Lemma L5_frame s s' : kctx s' = kctx s -> nrefs s' = nrefs s -> (resolved s = true -> resolved s' = true) -> nf s' = nf s -> L5 s -> L5 s'.
Proof.
  intros E1 E2 E3 E4 [H|[H|[H|H]]]; [left; congruence | right; left; congruence | right; right; left; auto | right; right; right; now apply (nf_newest s)].
Qed.

Lemma nrefs_vw s s' : vw s' = vw s -> nrefs s' = nrefs s.
Proof. intros V. apply (f_equal v_rin) in V. cbn [v_rin vw] in V. unfold nrefs. rewrite <- !cntb_map. now rewrite V. Qed.

Lemma L5_cons_like s s' : kfr s' = kfr s -> vw s' = vw s -> vf s' = vf s -> nf s' = nf s -> L5 s -> L5 s'.
Proof.
  intros K V F N. destruct (kfr_fields _ _ K) as [K1 _]. destruct (vf_fields _ _ F) as [F1 _].
  apply L5_frame; auto using nrefs_vw. congruence.
Qed.

Lemma L5_remove_ref s r : L5 s -> L5 (remove_ref s r).
Proof.
  intros H. unfold remove_ref. destruct (nth_error (refs s) r) as [x|] eqn:Ex; [|exact H]. destruct (rin x) eqn:Ein; [|exact H].
  set (y := {| rin := false; rflag := rflag x; rkind := rkind x; rlast := rlast x |}).
  pose proof (nrefs_set_nth s r x y Ex) as NR. rewrite Ein in NR. cbn [b2n rin y] in NR.
  set (s1 := set_refs s (set_nth (refs s) r y)) in *.
  destruct (Nat.eqb_spec (nrefs s1) 0) as [E0|E0]; cbn [andb].
  - destruct (negb (keep s1) || negb (resolved s1) || negb (Nat.eqb (verr s1) 0)).
    + right. left. now rewrite shutdown_nrefs.
    + right. now left.
  - destruct H as [H|[H|[H|H]]]; [now left | lia | right; right; now left | right; right; right; exact H].
Qed.

Lemma L5_add_ref s k : L5 s -> L5 (add_ref repaired s k).
Proof.
  intros H. unfold add_ref. fold (newref k). pose proof (nrefs_addref s k) as NR. set (s1 := set_refs s (refs s ++ [newref k])) in *.
  change (resolved s1) with (resolved s).
  destruct (Nat.eqb_spec (nrefs s1) 1) as [E1|E1]; cbn [andb].
  - destruct (resolved s) eqn:Er; cbn [negb]; [|apply L5_start_resolve].
    assert (G : forall s2, resolved s2 = true -> L5 s2) by (intros s2 E; right; right; now left).
    destruct k; cbn [fx_nilcb repaired]; apply G; try exact Er;
      match goal with |- resolved (invoke ?a ?b ?c) = true => destruct (vf_fields _ _ (vf_invoke a b c)) as [-> _]; exact Er end.
  - destruct (resolved s) eqn:Er.
    + assert (G : forall s2, resolved s2 = true -> L5 s2) by (intros s2 E; right; right; now left).
      destruct k; cbn [fx_nilcb repaired]; apply G; try exact Er;
        match goal with |- resolved (invoke ?a ?b ?c) = true => destruct (vf_fields _ _ (vf_invoke a b c)) as [-> _]; exact Er end.
    + destruct H as [H|[H|[H|H]]]; [now left | lia | congruence | right; right; right; exact H].
Qed.

Lemma nf_release_call_by s r oc : nf (fst (release_call_by s r oc)) = nf s.
Proof. apply (cf_release_call_by nf); reflexivity. Qed.

Lemma L5_step s e : L5 s -> L5 (step repaired s e).
Proof.
  intros H. destruct e as [c|k|r|a|g|a|g en|g v hr er|g|k|c|c|c|c res|c|c]; cbn [step].
  - unfold set_context. destruct (Nat.eqb (kctx s) c); [exact H | apply L5_start_resolve].
  - now apply L5_add_ref.
  - destruct (rkind (nth r (refs s) ref0)); try exact H;
      (apply (L5_cons_like s); [apply kfr_release_call_by | apply vw_release_call_by | apply vf_release_call_by | apply nf_release_call_by | exact H]).
  - unfold release_section. destruct (nth_error (relacts s) a) as [x|]; [|exact H]. destruct (ra_pc x); [|exact H].
    set (sa := set_relacts s _). set (s1 := remove_ref sa (ra_ref x)).
    assert (E : L5 s1) by (exact (L5_remove_ref sa (ra_ref x) H)).
    destruct (ra_cons x) as [c|]; [|exact E]. destruct (cpcv (getc s1 c)); exact E.
  - destruct (nth_error (gs s) g) as [x|]; [|exact H]. unfold released_section.
    destruct (Nat.eqb (nonce s) (gnonce x)); [apply L5_start_resolve | exact H].
  - unfold async_section. destruct (nth_error (asyncs s) a) as [x|]; [|exact H]. destruct (as_pc x); [|exact H].
    unfold released_section. set (sa := set_asyncs s _). destruct (Nat.eqb (nonce sa) (as_nonce x)); [apply L5_start_resolve | exact H].
  - apply (L5_cons_like s); [apply kfr_proceed | exact (proj1 (fp_vw s _ (fp_container s (EProceed g en) I))) | apply vf_proceed | apply nf_proceed | exact H].
  - unfold resolver_return. destruct (nth_error (gs s) g) as [x|] eqn:Ex; [|exact H]. destruct (gpcv x); try exact H.
    apply (L5_frame s); try reflexivity; [auto | now apply (nf_setg s g x) | exact H].
  - pose proof (kfr_store s g) as K. destruct (kfr_fields _ _ K) as [K1 _].
    pose proof (proj1 (fp_vw s _ (fp_container s (EStore g) I))) as V. cbn [step] in V.
    apply (L5_frame s); [exact K1 | now apply nrefs_vw | | apply nf_store | exact H].
    intros Er. unfold store. destruct (nth_error (gs s) g) as [x|]; [|exact Er]. destruct (gpcv x); try exact Er.
    set (s0 := setg s g (with_gpc x GDone)). destruct (negb (Nat.eqb (nonce s0) (gnonce x))); [destruct hasrel; exact Er|].
    match goal with |- resolved (call_cbs ?a ?n) = true => destruct (vf_fields _ _ (vf_call_cbs a n)) as [-> _] end. destruct (Nat.eqb e 0); reflexivity.
  - unfold start_consumer. exact (L5_add_ref (set_conss s _) _ H).
  - apply (L5_cons_like s); [apply kfr_cons_step | apply vw_cons_step | apply vf_cons_step | apply (cf_cons_step nf); reflexivity | exact H].
  - destruct (nth_error (conss s) c); exact H.
  - unfold fire_section. destruct (nth_error (conss s) c) as [x|]; [|exact H]. destruct (ww_firepc x) as [[|]|]; try exact H.
    exact (L5_remove_ref (setc s c _) (cref x) H).
  - apply (L5_cons_like s); [apply kfr_cb_return | apply vw_cb_return | apply vf_cb_return | apply (cf_cb_return nf); reflexivity | exact H].
  - destruct (Nat.eqb c 0); [exact H|]. destruct (cancel_root_kfr s c) as [K1 _]. destruct (cancel_root_frame s c) as [E1 [_ [_ [_ [_ [E6 _]]]]]].
    apply (L5_frame s); [exact K1 | unfold nrefs; now rewrite E1 | congruence | apply nf_cancel_root | exact H].
  - destruct (watch_step_spec s c) as [->|[x [y [_ [-> _]]]]]; [exact H|]. apply (L5_frame s); try reflexivity; auto.
Qed.

Theorem run_L5 k es : L5 (run repaired (init k) es).
Proof. unfold run. apply fold_inv; [intros s e; apply L5_step | now left]. Qed.

Lemma HR_L5 h : HR h -> L5 (hs h).
Proof. intros [[k [es [-> _]]] _]. apply run_L5. Qed.

Section C95.
  Variables (m : mst) (h : hst) (e : list N) (e0 : ev) (rets : list N).
  Hypothesis HRh : HR h.
  Hypothesis HP : Rproj m h.
  Hypothesis Hd : dec h e e0 rets.
  Hypothesis Hc : hconst h = false.
  Local Notation s := (hs h).
  Local Notation s1 := (step repaired (hs h) e0).
  Local Notation s' := (settle (step repaired (hs h) e0)).
  Local Notation p := (pobs_of rets (settle (step repaired (hs h) e0)) (hrel h)).

  (* 9.5: released() of the newest, still running generation restarts the resolution *)
  Lemma clause_9_5 : u_f9_5 m e p = [].
  Proof.
    unfold u_f9_5. pose proof (settle_len_gs s1) as LG. pose proof (HR_inv h HRh Hc) as I0. pose proof (HR_chain h HRh) as HCh. pose proof (HR_L5 h HRh) as HL5.
    destruct Hd; try reflexivity.
    destruct (Nat.eqb (S (n2n g)) (m_ng m) && (let c := nth (n2n g) (m_gs m) 0%N in N.eqb c 3 || N.eqb c 4) && nz (m_ctx m) && Nat.ltb 0 (cntb (m_in m))) eqn:Cond;
      [|reflexivity]. cbn [negb orb].
    apply andb_true_iff in Cond. destruct Cond as [Cond C4]. apply andb_true_iff in Cond. destruct Cond as [Cond C3]. apply andb_true_iff in Cond. destruct Cond as [C1 C2].
    rewrite (rp_ng m h HP) in C1. apply Nat.eqb_eq in C1. rewrite (rp_gs m h HP), (nth_map_error gcode _ _ x 0%N H) in C2. cbv zeta in C2.
    rewrite (rp_ctx m h HP), nz_nn in C3. apply negb_true_iff, Nat.eqb_neq in C3. rewrite (rp_in m h HP), cntb_map in C4. apply Nat.ltb_lt in C4.
    assert (Hnd : gdone x = false) by (unfold gdone; unfold gcode in C2; destruct (gpcv x); try reflexivity; discriminate C2).
    destruct I0 as [[HN [HS [HL [HL4 [HV HR']]]]] HLv].
    pose proof (pending_unresolved s _ x HCh HN HV H Hnd) as Er.
    destruct HL5 as [E|[E|[E|[g' [Hg' Hn]]]]]; [contradiction | unfold nrefs in E; lia | congruence|].
    assert (g' = n2n g) by lia. subst g'. destruct (getg_nth_error s _ x H) as [Eg _]. rewrite Eg in Hn.
    cbn [step] in *. rewrite H in *. rewrite Hn in *.
    destruct (released_restarts s (conj (conj HN (conj HS (conj HL (conj HL4 (conj HV HR'))))) HLv)) as [_ [_ [_ [_ B5]]]]. cbv zeta in B5.
    destruct (B5 C3 C4) as [BL _]. unfold u_spawned, u_ng. cbn [po_gs pobs_of]. rewrite map_length, LG, (rp_ng m h HP), BL.
    destruct (Nat.ltb_spec (length (gs s)) (S (length (gs s)))) as [_|Hx]; [reflexivity | lia].
  Qed.
End C95.
