(* refcount: Access (C10), second part: the private state of a running Access call mirrors the container, its local
   invariant, and the theorems about the callback. *)
From Util Require Import Common.Base Common.ListLemmas RefCount.Model RefCount.Proofs RefCount.ProofsC08 RefCount.ProofsC10 RefCount.ProofsC10a.

Definition content (n : notif) : bool * nat * nat := match n with NGone => (false, 0, 0) | NRes v e => (true, v, e) end.
Definition acont (x : cons) : bool * nat * nat := (ac_res x, ac_val x, ac_err x).

Lemma cb_access_acont x n : acont (cb_access x n) = content n.
Proof.
  unfold cb_access, acont. destruct n as [|v e]; cbn [content].
  - destruct (Bool.eqb false (ac_res x)) eqn:E1; cbn [andb]; [|reflexivity].
    destruct (Nat.eqb_spec 0 (ac_val x)) as [E2|]; cbn [andb]; [|reflexivity]. destruct (Nat.eqb_spec 0 (ac_err x)) as [E3|]; [|reflexivity].
    apply Bool.eqb_prop in E1. congruence.
  - destruct (Bool.eqb true (ac_res x)) eqn:E1; cbn [andb]; [|reflexivity].
    destruct (Nat.eqb_spec v (ac_val x)) as [E2|]; cbn [andb]; [|reflexivity]. destruct (Nat.eqb_spec e (ac_err x)) as [E3|]; [|reflexivity].
    apply Bool.eqb_prop in E1. congruence.
Qed.

Lemma cb_wwr_acont x n cur : acont (fst (cb_wwr x n cur)) = acont x.
Proof. unfold cb_wwr. destruct (ww_res x); [destruct (_ && negb (ww_once x)) | destruct n]; reflexivity. Qed.

(* what a reference callback does to the private state of consumer c *)
Lemma invoke_acont s r n c :
  (acont (getc (invoke s r n) c) = acont (getc s c) \/ acont (getc (invoke s r n) c) = content n) /\
  (r < length (refs s) -> rkind (rref s r) = KAccess c -> c < length (conss s) -> acont (getc (invoke s r n) c) = content n).
Proof.
  unfold invoke. destruct (nth_error (refs s) r) as [x|] eqn:E.
  2:{ split; [now left|]. intros Hr. apply nth_error_None in E. lia. }
  assert (Ex : rref s r = x) by (unfold rref; now apply nth_error_nth). rewrite Ex.
  assert (G1 : forall c', getc (set_last s r n) c' = getc s c') by (intros c'; apply getc_set_last).
  assert (L1 : length (conss (set_last s r n)) = length (conss s)) by (now rewrite conss_set_last).
  assert (SC : forall c' y, acont y = acont (getc s c') ->
             acont (getc (setc (set_last s r n) c' y) c) = acont (getc s c)).
  { intros c' y Hy. destruct (Nat.lt_ge_cases c' (length (conss (set_last s r n)))) as [Hl|Hl].
    - rewrite getc_setc by exact Hl. destruct (Nat.eqb_spec c c') as [->|]; [exact Hy | apply f_equal, G1].
    - rewrite getc_setc_oob by exact Hl. apply f_equal, G1. }
  destruct (rkind x) as [| | |c'|c'|c'] eqn:K.
  - split; [now left | discriminate].
  - rewrite G1. split; [now left | discriminate].
  - split; [|discriminate]. left. destruct n; [now rewrite G1|]. change (getc (set_asyncs ?a ?b) c) with (getc a c). now rewrite G1.
  - split; [|discriminate]. left. apply SC. reflexivity.
  - split; [|discriminate]. left. pose proof (cb_wwr_acont (getc (set_last s r n) c') n (nonce (set_last s r n))) as W.
    destruct (cb_wwr (getc (set_last s r n) c') n (nonce (set_last s r n))) as [y fired]. cbn [fst] in W. rewrite G1 in W.
    destruct fired; [destruct (rflag x)|]; apply SC; exact W.
  - destruct (Nat.lt_ge_cases c' (length (conss (set_last s r n)))) as [Hl|Hl].
    + rewrite getc_setc by exact Hl. destruct (Nat.eqb_spec c c') as [->|Hne].
      * split; [right; apply cb_access_acont | intros; apply cb_access_acont].
      * split; [left; apply f_equal, G1 | intros _ Hk; congruence].
    + rewrite getc_setc_oob by exact Hl. split; [left; apply f_equal, G1|]. intros _ Hk Hc. assert (c' = c) by congruence. subst c'. lia.
Qed.

(* after callRefCbsLocked every consumer whose Access reference is in the set has been told *)
Lemma cbs_fold_acont n rs : forall s,
  let s' := fold_left (cbs_fold n) rs s in
  (forall c, acont (getc s c) = content n -> acont (getc s' c) = content n) /\
  (forall q c, In q rs -> rin (rref s q) = true -> rkind (rref s q) = KAccess c -> q < length (refs s) -> c < length (conss s) ->
               acont (getc s' c) = content n).
Proof.
  induction rs as [|r0 rs IH]; intros s; [split; [auto | intros q c []]|]. cbn [fold_left].
  destruct (IH (cbs_fold n s r0)) as [C1 T1]. set (s1 := cbs_fold n s r0) in *.
  assert (F : fp s s1) by (unfold s1, cbs_fold; destruct (rin (nth r0 (refs s) ref0)); [apply fp_invoke | apply fp_refl]).
  destruct F as [_ [F2 [F3 [F4 _]]]].
  assert (K1 : forall c, acont (getc s c) = content n -> acont (getc s1 c) = content n).
  { intros c H. unfold s1, cbs_fold. destruct (rin (nth r0 (refs s) ref0)); [|exact H]. destruct (invoke_acont s r0 n c) as [[E|E] _]; congruence. }
  split; [intros c H; apply C1, K1, H|].
  intros q c [->|Hin] Hrin Hk Hq Hc.
  - apply C1. unfold s1, cbs_fold. unfold rref in Hrin. rewrite Hrin. apply (invoke_acont s q n c); auto.
  - destruct (F4 q) as [Q1 [Q2 _]]. apply (T1 q c Hin); [congruence | congruence | lia | lia].
Qed.

Lemma call_cbs_acont s n c x' :
  nth_error (conss (call_cbs s n)) c = Some x' -> rin (rref (call_cbs s n) (cref x')) = true ->
  rkind (rref (call_cbs s n) (cref x')) = KAccess c -> acont x' = content n.
Proof.
  intros Hx Hrin Hk. assert (F : fp s (call_cbs s n)) by (apply (S_call_cbs (fp s) (fp_Qinv s)); apply fp_refl).
  destruct F as [_ [F2 [F3 [F4 _]]]]. apply getc_iff in Hx. destruct Hx as [Hl Ex]. rewrite <- Ex.
  destruct (F4 (cref x')) as [Q1 [Q2 _]].
  assert (Hq : cref x' < length (refs s)).
  { destruct (Nat.lt_ge_cases (cref x') (length (refs s))) as [H|H]; [exact H|]. unfold rref in Q2, Hrin. rewrite (nth_overflow (refs s)) in Q2 by exact H.
    cbn in Q2. congruence. }
  rewrite call_cbs_fold. destruct (cbs_fold_acont n (seq 0 (length (refs s))) s) as [_ T].
  apply (T (cref x') c); [apply in_seq; lia | congruence | congruence | exact Hq | lia].
Qed.

(* ------------------------------------------------------------------ *)
(* the mirror: while its reference is in the set, Access's private copy agrees with the container *)
Definition mirror_ok (s : st) (x : cons) : Prop :=
  ac_res x = resolved s /\ (resolved s = true -> ac_val x = value s /\ ac_err x = verr s).

Definition InvM (s : st) : Prop :=
  forall c x, nth_error (conss s) c = Some x -> rin (rref s (cref x)) = true -> rkind (rref s (cref x)) = KAccess c -> mirror_ok s x.

Lemma InvM_ext s s' :
  refs s' = refs s -> conss s' = conss s -> resolved s' = resolved s -> value s' = value s -> verr s' = verr s -> InvM s -> InvM s'.
Proof. intros E1 E2 E3 E4 E5 H. unfold InvM, mirror_ok, rref in *. rewrite E1, E2, E3, E4, E5. exact H. Qed.

Lemma mirror_of_content s x n : acont x = content n ->
  (match n with NGone => resolved s = false | NRes v e => resolved s = true /\ value s = v /\ verr s = e end) -> mirror_ok s x.
Proof.
  unfold acont, content, mirror_ok. destruct n as [|v e]; intros E H.
  - assert (E1 : ac_res x = false) by congruence. rewrite H, E1. split; [reflexivity | discriminate].
  - assert (E1 : ac_res x = true) by congruence. assert (E2 : ac_val x = v) by congruence. assert (E3 : ac_err x = e) by congruence.
    destruct H as [H1 [H2 H3]]. rewrite H1, H2, H3, E1, E2, E3. auto.
Qed.

Lemma InvM_clear_resolved s : InvM s -> InvM (clear_resolved s).
Proof.
  intros H. destruct (clear_resolved_spec s) as [_ [_ [_ [_ [_ [C6 _]]]]]].
  assert (E : exists s1, refs (clear_resolved s) = refs s1 /\ conss (clear_resolved s) = conss s1 /\
                         (forall c x, nth_error (conss s1) c = Some x -> rin (rref s1 (cref x)) = true -> rkind (rref s1 (cref x)) = KAccess c -> ac_res x = false)).
  { unfold clear_resolved. set (s1 := if resolved s then _ else s). exists s1.
    destruct (cancel_g_rest s1 (rcancel s1)) as [_ [_ [G3 [_ [_ [_ [_ [_ [_ [_ [_ [_ [_ [_ [G15 _]]]]]]]]]]]]]]].
    set (s2 := set_rcancel (cancel_g s1 (rcancel s1)) None).
    split; [destruct (vrel s2); exact G3|]. split; [destruct (vrel s2); exact G15|].
    unfold s1. destruct (resolved s) eqn:Er.
    - intros c x Hx Hrin Hk. pose proof (call_cbs_acont _ NGone c x Hx Hrin Hk) as A. unfold acont, content in A. congruence.
    - intros c x Hx Hrin Hk. destruct (H c x Hx Hrin Hk) as [A _]. congruence. }
  destruct E as [s1 [E1 [E2 E3]]]. intros c x Hx Hrin Hk. unfold rref in *. rewrite E1 in Hrin, Hk. rewrite E2 in Hx.
  split; [rewrite C6; exact (E3 c x Hx Hrin Hk) | rewrite C6; discriminate].
Qed.

Lemma InvM_shutdown s : InvM s -> InvM (shutdown s).
Proof. intros H. unfold shutdown. apply InvM_clear_resolved. now apply (InvM_ext s). Qed.

Lemma InvM_start_resolve s : InvM s -> InvM (start_resolve s).
Proof.
  intros H. unfold start_resolve. pose proof (InvM_shutdown s H) as H1. set (s1 := shutdown s) in *.
  destruct (Nat.eqb (kctx s1) 0 || Nat.eqb (nrefs s1) 0); [exact H1 | now apply (InvM_ext s1)].
Qed.

Lemma InvM_store s g : InvM s -> InvM (store s g).
Proof.
  intros H. unfold store. destruct (nth_error (gs s) g) as [x|]; [|exact H]. destruct (gpcv x); try exact H.
  set (s0 := setg s g (with_gpc x GDone)). assert (H0 : InvM s0) by (now apply (InvM_ext s)).
  destruct (negb (Nat.eqb (nonce s0) (gnonce x))); [destruct hasrel; [now apply (InvM_ext s0) | exact H0]|].
  set (s2 := if Nat.eqb e 0 then _ else _).
  assert (R2 : resolved s2 = true /\ value s2 = v /\ verr s2 = e) by (unfold s2; destruct (Nat.eqb e 0); cbn; auto).
  destruct (rest_fields s2 _ (rest_call_cbs s2 (NRes v e))) as [_ [_ [_ [_ [_ [Q6 [Q7 [Q8 _]]]]]]]].
  intros c y Hy Hrin Hk. apply (mirror_of_content _ y (NRes v e)); [exact (call_cbs_acont s2 (NRes v e) c y Hy Hrin Hk)|].
  destruct R2 as [A1 [A2 A3]]. rewrite Q6, Q7, Q8. auto.
Qed.

(* a state in which every attached consumer already agrees, except possibly those attached through the newest reference *)
Lemma InvM_invoke_current s r :
  resolved s = true ->
  (forall c x, nth_error (conss s) c = Some x -> rin (rref s (cref x)) = true -> rkind (rref s (cref x)) = KAccess c -> cref x <> r -> mirror_ok s x) ->
  InvM (invoke s r (NRes (value s) (verr s))).
Proof.
  intros Er H. set (n := NRes (value s) (verr s)).
  destruct (rest_fields s _ (rest_invoke s r n)) as [_ [_ [_ [_ [_ [Q6 [Q7 [Q8 _]]]]]]]].
  destruct (fp_invoke s r n) as [_ [F2 [F3 [F4 [F5 _]]]]].
  intros c x' Hx' Hrin Hk. apply getc_iff in Hx'. destruct Hx' as [Hl Ex']. rewrite F3 in Hl.
  destruct (F5 c) as [_ [P2 _]]. rewrite Ex' in P2. rewrite P2 in Hrin, Hk.
  destruct (F4 (cref (getc s c))) as [Q1 [Q2 _]]. rewrite Q1 in Hk. rewrite Q2 in Hrin.
  assert (Cur : forall y, acont y = content n -> mirror_ok (invoke s r n) y).
  { intros y Hy. apply (mirror_of_content _ y n Hy). unfold n in *. cbv iota beta. rewrite Q6, Q7, Q8. auto. }
  destruct (Nat.eq_dec (cref (getc s c)) r) as [E|E].
  - apply Cur. rewrite <- Ex'. apply (invoke_acont s r n c); [|congruence | exact Hl].
    destruct (Nat.lt_ge_cases r (length (refs s))) as [Hr|Hr]; [exact Hr|]. unfold rref in Hrin. rewrite E, nth_overflow in Hrin by exact Hr. discriminate.
  - destruct (invoke_acont s r n c) as [[A|A] _]; [|apply Cur; now rewrite <- Ex'].
    assert (Hx : nth_error (conss s) c = Some (getc s c)) by (apply getc_iff; auto).
    destruct (H c _ Hx Hrin Hk E) as [M1 M2]. unfold acont in A. rewrite <- Ex'. inversion A as [[A1 A2 A3]].
    unfold mirror_ok. rewrite Q6, Q7, Q8, A1, A2, A3. auto.
Qed.

(* AddRef, also on behalf of a new consumer (whose private state starts as "not resolved") *)
Lemma InvM_add_ref s k oc :
  InvM s -> (forall c x, nth_error (conss s) c = Some x -> cref x < length (refs s)) ->
  match oc with None => forall c, k <> KAccess c | Some kc => k = ref_of_kind kc (length (conss s)) end ->
  InvM (add_ref repaired (match oc with Some kc => set_conss s (conss s ++ [new_cons kc (length (refs s))]) | None => s end) k).
Proof.
  intros H HL Hk. set (s0 := match oc with Some kc => _ | None => s end).
  assert (E0 : refs s0 = refs s /\ resolved s0 = resolved s /\ value s0 = value s /\ verr s0 = verr s) by (unfold s0; destruct oc; auto).
  destruct E0 as [E1 [E2 [E3 E4]]].
  unfold add_ref. fold (newref k). rewrite E1. set (s1 := set_refs s0 (refs s ++ [newref k])).
  assert (RO : forall q, q < length (refs s) -> rref s1 q = rref s q) by (intros q Hq; unfold rref, s1; cbn [refs set_refs]; now apply app_nth1).
  assert (RN : rref s1 (length (refs s)) = newref k) by (unfold rref, s1; cbn [refs set_refs]; rewrite app_nth2 by lia; now rewrite Nat.sub_diag).
  (* old consumers keep the mirror; a new one is the only one attached through the new reference *)
  assert (Old : forall c x, nth_error (conss s1) c = Some x -> rin (rref s1 (cref x)) = true -> rkind (rref s1 (cref x)) = KAccess c ->
                  (nth_error (conss s) c = Some x /\ mirror_ok s x) \/ (cref x = length (refs s) /\ ac_res x = false)).
  { intros c x Hx Hrin Hkx. unfold s1, s0 in Hx. destruct oc as [kc|]; cbn [conss set_refs set_conss] in Hx.
    - destruct (nth_error_snoc_cases _ _ _ _ Hx) as [[_ H0]|[_ ->]]; [|right; cbn; auto].
      left. split; [exact H0|]. pose proof (HL c x H0) as Hc. rewrite RO in Hrin, Hkx by exact Hc. exact (H c x H0 Hrin Hkx).
    - left. split; [exact Hx|]. pose proof (HL c x Hx) as Hc. rewrite RO in Hrin, Hkx by exact Hc. exact (H c x Hx Hrin Hkx). }
  change (resolved s1) with (resolved s0). change (value s1) with (value s0). change (verr s1) with (verr s0). rewrite E2, E3, E4.
  destruct (resolved s) eqn:Er; cbn [negb]; rewrite ?andb_false_r, ?andb_true_r.
  - assert (G : InvM (invoke s1 (length (refs s)) (NRes (value s) (verr s)))).
    { rewrite <- E3, <- E4. change (value s0) with (value s1). change (verr s0) with (verr s1).
      apply InvM_invoke_current; [change (resolved s1) with (resolved s0); congruence|].
      intros c x Hx Hrin Hkx Hne. destruct (Old c x Hx Hrin Hkx) as [[_ [M1 M2]]|[E _]]; [|contradiction].
      unfold mirror_ok. change (resolved s1) with (resolved s0). change (value s1) with (value s0). change (verr s1) with (verr s0).
      rewrite E2, E3, E4. split; [congruence | intros _; exact (M2 Er)]. }
    destruct k; cbn [fx_nilcb repaired]; try exact G.
    (* nil callback: not a consumer's reference *)
    intros c x Hx Hrin Hkx. destruct (Old c x Hx Hrin Hkx) as [[_ [M1 M2]]|[E _]].
    + unfold mirror_ok. change (resolved s1) with (resolved s0). change (value s1) with (value s0). change (verr s1) with (verr s0). rewrite E2, E3, E4.
      split; [congruence | intros _; exact (M2 Er)].
    + rewrite E, RN in Hkx. discriminate.
  - assert (M1 : InvM s1).
    { intros c x Hx Hrin Hkx. unfold mirror_ok. change (resolved s1) with (resolved s0). rewrite E2.
      destruct (Old c x Hx Hrin Hkx) as [[_ [M1 _]]|[_ M1]]; split; try discriminate; congruence. }
    destruct (Nat.eqb (nrefs s1) 1); [now apply InvM_start_resolve | exact M1].
Qed.

Lemma InvM_remove_ref s r : InvM s -> InvM (remove_ref s r).
Proof.
  intros H. unfold remove_ref. destruct (nth_error (refs s) r) as [x|] eqn:Ex; [|exact H]. destruct (rin x) eqn:Ein; [|exact H].
  assert (Hl : r < length (refs s)) by (eapply nth_error_nth_len; eauto).
  set (y := {| rin := false; rflag := rflag x; rkind := rkind x; rlast := rlast x |}). set (s1 := set_refs s (set_nth (refs s) r y)).
  assert (M1 : InvM s1).
  { intros c z Hz Hrin Hk. unfold s1 in Hrin, Hk. rewrite rref_set_nth in Hrin, Hk by exact Hl.
    destruct (Nat.eqb_spec (cref z) r) as [E|E]; [cbn in Hrin; discriminate|]. exact (H c z Hz Hrin Hk). }
  destruct (Nat.eqb (nrefs s1) 0 && _); [now apply InvM_shutdown | exact M1].
Qed.

Lemma InvM_release_call_by s r oc : InvM s -> InvM (fst (release_call_by s r oc)).
Proof.
  intros H. unfold release_call_by. destruct (nth_error (refs s) r) as [x|] eqn:Ex; [|exact H]. destruct (rflag x); [exact H|]. cbn [fst].
  assert (Hl : r < length (refs s)) by (eapply nth_error_nth_len; eauto).
  assert (Exx : rref s r = x) by (unfold rref; now apply nth_error_nth).
  set (y := {| rin := rin x; rflag := true; rkind := rkind x; rlast := rlast x |}).
  intros c z Hz Hrin Hk. cbn [conss set_relacts set_refs] in Hz.
  change (rref (set_relacts ?a ?b)) with (rref a) in Hrin, Hk. rewrite rref_set_nth in Hrin, Hk by exact Hl.
  assert (A : rin (rref s (cref z)) = true /\ rkind (rref s (cref z)) = KAccess c).
  { destruct (Nat.eqb_spec (cref z) r) as [E|E]; [rewrite E, Exx; auto | auto]. }
  destruct A as [A1 A2]. exact (H c z Hz A1 A2).
Qed.

(* a consumer's own step that leaves its copy of the container state alone *)
Lemma InvM_setc s c y : InvM s -> cref y = cref (getc s c) -> acont y = acont (getc s c) -> InvM (setc s c y).
Proof.
  intros H K1 K2 c' z Hz Hrin Hk. change (rref (setc s c y)) with (rref s) in *. rewrite conss_setc in Hz.
  destruct (Nat.lt_ge_cases c (length (conss s))) as [Hl|Hl].
  - destruct (Nat.eq_dec c' c) as [->|Hne].
    + rewrite nth_error_set_nth_same in Hz by exact Hl. inversion Hz; subst z. rewrite K1 in Hrin, Hk.
      assert (Hx : nth_error (conss s) c = Some (getc s c)) by (apply getc_iff; auto).
      destruct (H c _ Hx Hrin Hk) as [M1 M2]. unfold acont in K2. inversion K2 as [[B1 B2 B3]]. unfold mirror_ok.
      change (resolved (setc s c y)) with (resolved s). change (value (setc s c y)) with (value s). change (verr (setc s c y)) with (verr s).
      rewrite B1, B2, B3. auto.
    + rewrite nth_error_set_nth_other in Hz by exact Hne. exact (H c' z Hz Hrin Hk).
  - rewrite set_nth_oob in Hz by exact Hl. exact (H c' z Hz Hrin Hk).
Qed.

Lemma InvM_acc_ret s c x y e :
  InvM s -> nth_error (conss s) c = Some x -> cref y = cref x -> acont y = acont x -> InvM (acc_ret s c y e).
Proof.
  intros H Hx K1 K2. destruct (getc_nth_error s c x Hx) as [Eg Hl]. unfold acc_ret.
  assert (H0 : InvM (setc s c (with_cpc y (CRel e)))) by (apply InvM_setc; [exact H | now rewrite Eg | now rewrite Eg]).
  set (s0 := setc s c (with_cpc y (CRel e))) in *.
  pose proof (InvM_release_call_by s0 (cref y) (Some c) H0) as G.
  pose proof (conss_release_call_by s0 (cref y) (Some c)) as GC.
  destruct (release_call_by s0 (cref y) (Some c)) as [s1 parked]. cbn [fst] in G, GC. destruct parked; [exact G|].
  assert (G1 : getc s1 c = with_cpc y (CRel e)).
  { unfold getc. rewrite GC. unfold s0. rewrite conss_setc. now apply nth_set_nth_same. }
  apply InvM_setc; [exact G | now rewrite G1 | now rewrite G1].
Qed.

Lemma InvM_cons_fail s c x e : InvM s -> nth_error (conss s) c = Some x -> InvM (cons_fail s c x e).
Proof.
  intros H Hx. destruct (getc_nth_error s c x Hx) as [Eg Hl]. unfold cons_fail.
  assert (H0 : InvM (setc s c (with_cpc x (CRel e)))) by (apply InvM_setc; [exact H | now rewrite Eg | now rewrite Eg]).
  set (s0 := setc s c (with_cpc x (CRel e))) in *.
  pose proof (InvM_release_call_by s0 (cref x) (Some c) H0) as G.
  pose proof (conss_release_call_by s0 (cref x) (Some c)) as GC.
  destruct (release_call_by s0 (cref x) (Some c)) as [s1 parked]. cbn [fst] in G, GC. destruct parked; [exact G|].
  assert (G1 : getc s1 c = with_cpc x (CRel e)).
  { unfold getc. rewrite GC. unfold s0. rewrite conss_setc. now apply nth_set_nth_same. }
  apply InvM_setc; [exact G | now rewrite G1 | now rewrite G1].
Qed.

Lemma InvM_acc_s1 s c x : InvM s -> nth_error (conss s) c = Some x -> InvM (acc_s1 s c x).
Proof.
  intros H Hx. destruct (getc_nth_error s c x Hx) as [Eg Hl]. unfold acc_s1.
  assert (S1 : forall p b, InvM (setc s c (acc_set x p (S (ac_nonce x)) (S (ac_nonce x)) b))).
  { intros p b. apply InvM_setc; [exact H | now rewrite Eg | now rewrite Eg]. }
  destruct (negb (Nat.eqb (ac_err x) 0)); [now apply (InvM_acc_ret s c x)|].
  destruct (ac_res x); [apply S1|]. destruct (ccanc x); [now apply (InvM_acc_ret s c x) | apply S1].
Qed.

Lemma InvM_cons_step s c : InvM s -> InvM (cons_step s c).
Proof.
  intros H. unfold cons_step. destruct (nth_error (conss s) c) as [x|] eqn:Ex; [|exact H].
  destruct (getc_nth_error s c x Ex) as [Eg Hl].
  assert (SR : forall p, InvM (setc s c (with_cpc x p))) by (intros p; apply InvM_setc; [exact H | now rewrite Eg | now rewrite Eg]).
  destruct (ck x), (cpcv x); try exact H; try (now apply InvM_acc_s1).
  - destruct (cw_res x) as [[v e]|]; [destruct (Nat.eqb e 0); [apply SR | now apply InvM_cons_fail] | destruct (ccanc x); [now apply InvM_cons_fail | exact H]].
  - destruct (ww_prom x) as [[v e]|]; [destruct (Nat.eqb e 0); [apply SR | now apply InvM_cons_fail] | destruct (ccanc x); [now apply InvM_cons_fail | exact H]].
  - destruct (negb (Nat.eqb (ac_nonce x) (ac_snap x))); [now apply InvM_acc_s1|]. destruct (ccanc x); [now apply (InvM_acc_ret s c x) | exact H].
Qed.

Lemma InvM_cb_return fx s c res : InvM s -> InvM (cb_return fx s c res).
Proof.
  intros H. unfold cb_return. destruct (nth_error (conss s) c) as [x|] eqn:Ex; [|exact H].
  destruct (getc_nth_error s c x Ex) as [Eg Hl].
  destruct (ck x); try exact H. destruct (cpcv x); try exact H.
  destruct (ccanc x); [now apply (InvM_acc_ret s c x)|].
  match goal with |- InvM (if ?b then _ else _) => destruct b end; [now apply (InvM_acc_ret s c x)|].
  apply InvM_setc; [exact H | now rewrite Eg | now rewrite Eg].
Qed.

Lemma InvM_proceed s g en : InvM s -> InvM (proceed repaired s g en).
Proof.
  intros H. unfold proceed. destruct (nth_error (gs s) g) as [x|]; [|exact H].
  assert (E : forall y, InvM (setg s g y)) by (intros y; now apply (InvM_ext s)).
  destruct (gpcv x); try exact H.
  - destruct (gwait x); [|apply E]. destruct (pred_done s x && gcanc x); [destruct en; apply E|].
    destruct (pred_done s x); [apply E|]. destruct (gcanc x); apply E.
  - destruct (pred_done s x || gcanc x); [|exact H].
    destruct (gwait x); [|apply E]. destruct (pred_done s x && gcanc x); [destruct en; apply E|].
    destruct (pred_done s x); [apply E|]. destruct (gcanc x); apply E.
  - destruct (pred_done s x); [apply E | exact H].
Qed.

Lemma step_InvM s e : InvA s -> InvM s -> InvM (step repaired s e).
Proof.
  intros HA H. assert (HL : forall c x, nth_error (conss s) c = Some x -> cref x < length (refs s)) by (intros c x Hx; apply (proj1 HA c x Hx)).
  destruct e; cbn [step].
  - unfold set_context. destruct (Nat.eqb (kctx s) c); [exact H|]. cbn [fst]. apply InvM_start_resolve. now apply (InvM_ext s).
  - apply (InvM_add_ref s (kind_of k) None H HL). intros c. destruct k as [|[|k]]; discriminate.
  - destruct (rkind (nth r (refs s) ref0)); try exact H; now apply InvM_release_call_by.
  - unfold release_section. destruct (nth_error (relacts s) a) as [x|]; [|exact H]. destruct (ra_pc x); [|exact H].
    set (s1 := remove_ref _ (ra_ref x)). assert (H1 : InvM s1) by (apply InvM_remove_ref; now apply (InvM_ext s)).
    destruct (ra_cons x) as [c|]; [|exact H1]. destruct (cpcv (getc s1 c)) eqn:Ec; try exact H1.
    all: change (set_conss s1 (set_nth (conss s1) c ?y)) with (setc s1 c y); apply InvM_setc; [exact H1 | reflexivity | reflexivity].
  - destruct (nth_error (gs s) g) as [x|]; [|exact H]. unfold released_section. destruct (Nat.eqb (nonce s) (gnonce x)); [now apply InvM_start_resolve | exact H].
  - unfold async_section. destruct (nth_error (asyncs s) a) as [x|]; [|exact H]. destruct (as_pc x); [|exact H].
    unfold released_section. set (sa := set_asyncs s _). assert (Ha : InvM sa) by (now apply (InvM_ext s)).
    destruct (Nat.eqb (nonce sa) (as_nonce x)); [now apply InvM_start_resolve | exact Ha].
  - now apply InvM_proceed.
  - unfold resolver_return. destruct (nth_error (gs s) g) as [x|]; [|exact H]. destruct (gpcv x); exact H.
  - now apply InvM_store.
  - unfold start_consumer. set (kc := match k with 0 => CKWait | 1 => CKWwr | _ => CKAccess end).
    pose proof (InvM_add_ref s (ref_of_kind kc (length (conss s))) (Some kc) H HL eq_refl) as G. destruct kc; exact G.
  - now apply InvM_cons_step.
  - destruct (nth_error (conss s) c) as [x|] eqn:Ex; [|exact H]. destruct (getc_nth_error s c x Ex) as [Eg Hl].
    apply InvM_setc; [exact H | now rewrite Eg | now rewrite Eg].
  - unfold fire_section. destruct (nth_error (conss s) c) as [x|] eqn:Ex; [|exact H]. destruct (ww_firepc x) as [[|]|]; try exact H.
    destruct (getc_nth_error s c x Ex) as [Eg Hl]. apply InvM_remove_ref. apply InvM_setc; [exact H | now rewrite Eg | now rewrite Eg].
  - now apply InvM_cb_return.
  - destruct (Nat.eqb c 0); [exact H|]. destruct (cancel_root_frame s c) as [E1 [_ [E3 [_ [_ [E6 [E7 E8]]]]]]]. now apply (InvM_ext s).
  - destruct (watch_step_spec s c) as [->|[x [y [Hx [-> Hy]]]]]; [exact H|]. wsplit Hy. destruct (getc_nth_error s c x Hx) as [Eg Hl].
    apply InvM_setc; [exact H | now rewrite Eg | rewrite Eg; unfold acont; now rewrite Wares, Waval, Waerr].
Qed.

Theorem run_InvAM k es : InvA (run repaired (init k) es) /\ InvM (run repaired (init k) es).
Proof.
  unfold run. apply (fold_inv (fun s => InvA s /\ InvM s)).
  - intros s e [H1 H2]. split; [now apply step_InvA | now apply step_InvM].
  - split; [apply init_InvA | intros [|c] x H; discriminate].
Qed.

(* ------------------------------------------------------------------ *)
(* Access's local invariant: the nonce never runs behind the snapshot; inside the callback an uncancelled context whose
   watcher goroutine has not been woken means no notification since section S1, and no notification since S1 means the
   snapshot is still what the callback holds *)
Definition acc_ok (x : cons) : Prop :=
  ac_snap x <= ac_nonce x /\
  match cpcv x with
  | CAccCb v => (ac_cbcanc x = false -> ac_wpark x = false -> ac_nonce x = ac_snap x) /\
                (ac_nonce x = ac_snap x -> ac_res x = true /\ ac_val x = v /\ ac_err x = 0)
  | CAccWait => ac_nonce x = ac_snap x -> ac_res x = false /\ ac_err x = 0
  | _ => True
  end.

Definition InvK (l : list cons) : Prop := forall c x, nth_error l c = Some x -> acc_ok x.

Lemma InvK_set l c y : InvK l -> acc_ok y -> InvK (set_nth l c y).
Proof.
  intros H Hy k x Hk. destruct (Nat.lt_ge_cases c (length l)) as [Hl|Hl].
  - destruct (Nat.eq_dec k c) as [->|Hne].
    + rewrite nth_error_set_nth_same in Hk by exact Hl. now inversion Hk; subst.
    + rewrite nth_error_set_nth_other in Hk by exact Hne. exact (H k x Hk).
  - rewrite set_nth_oob in Hk by exact Hl. exact (H k x Hk).
Qed.

Lemma InvK_getc s c : InvK (conss s) -> acc_ok (getc s c).
Proof.
  intros H. unfold getc. destruct (nth_error (conss s) c) as [x|] eqn:E.
  - rewrite (nth_error_nth_d _ _ cons0 _ E). exact (H c x E).
  - rewrite nth_overflow by (now apply nth_error_None). unfold acc_ok. cbn. split; [lia | exact I].
Qed.

Lemma InvK_setc s c y : InvK (conss s) -> acc_ok y -> InvK (conss (setc s c y)).
Proof. intros H Hy. rewrite conss_setc. now apply InvK_set. Qed.

Lemma acc_ok_cb_access x n : acc_ok x -> acc_ok (cb_access x n).
Proof.
  intros [H1 H2]. unfold cb_access.
  assert (D : forall r v e, acc_ok (if Bool.eqb r (ac_res x) && Nat.eqb v (ac_val x) && Nat.eqb e (ac_err x) then x
              else {| ck := ck x; cref := cref x; ccanc := ccanc x; cpcv := cpcv x; cw_res := cw_res x; ww_res := ww_res x; ww_nonce := ww_nonce x;
                      ww_prom := ww_prom x; ww_once := ww_once x; ww_fired := ww_fired x; ww_firepc := ww_firepc x; ac_val := v; ac_err := e;
                      ac_res := r; ac_nonce := S (ac_nonce x); ac_snap := ac_snap x;
                      ac_cbcanc := match cpcv x with CAccCb _ => ac_cbcanc x || ccanc x | _ => ac_cbcanc x end; ac_cbres := ac_cbres x;
                      ac_wpark := match cpcv x with CAccCb _ => ac_wpark x || negb (ac_cbcanc x || ccanc x) | _ => ac_wpark x end;
                      ac_wstale := ac_wstale x |})).
  { intros r v e. destruct (Bool.eqb r (ac_res x) && Nat.eqb v (ac_val x) && Nat.eqb e (ac_err x)); [exact (conj H1 H2)|].
    unfold acc_ok. cbn [ac_snap ac_nonce cpcv ac_cbcanc ac_wpark ac_res ac_val ac_err]. split; [lia|].
    destruct (cpcv x); auto; try (intros; lia). split; [|intros; lia].
    intros Hc Hw. exfalso. apply orb_false_iff in Hw. destruct Hw as [_ Hw]. rewrite Hc in Hw. discriminate Hw. }
  destruct n as [|v e]; apply D.
Qed.

Lemma acc_ok_same_acc x y :
  acc_ok x -> cpcv y = cpcv x -> ac_res y = ac_res x -> ac_val y = ac_val x -> ac_err y = ac_err x -> ac_nonce y = ac_nonce x ->
  ac_snap y = ac_snap x -> ac_cbcanc y = ac_cbcanc x -> ac_wpark y = ac_wpark x -> acc_ok y.
Proof. intros H E1 E2 E3 E4 E5 E6 E7 E8. unfold acc_ok in *. rewrite E1, E2, E3, E4, E5, E6, E7, E8. exact H. Qed.

Lemma acc_ok_leave x p : acc_ok x -> (match p with CAccCb _ | CAccWait => False | _ => True end) -> acc_ok (with_cpc x p).
Proof. intros [H1 _] Hp. unfold acc_ok. cbn [ac_snap ac_nonce cpcv with_cpc]. split; [exact H1|]. destruct p; auto; contradiction. Qed.

Lemma invoke_InvK s r n : InvK (conss s) -> InvK (conss (invoke s r n)).
Proof.
  intros H. unfold invoke. destruct (nth_error (refs s) r) as [x|]; [|exact H].
  assert (H1 : InvK (conss (set_last s r n))) by (now rewrite conss_set_last).
  destruct (rkind x) as [| | |c|c|c]; try exact H; try exact H1.
  - destruct n; exact H1.
  - apply InvK_setc; [exact H1|]. apply (acc_ok_same_acc (getc s c)); auto. now apply InvK_getc.
  - pose proof (InvK_getc _ c H1) as G.
    assert (W : forall y, acc_ok y -> acc_ok (fst (cb_wwr y n (nonce (set_last s r n))))).
    { intros y Hy. unfold cb_wwr. destruct (ww_res y); [destruct (_ && negb (ww_once y)) | destruct n]; cbn [fst]; auto;
        apply (acc_ok_same_acc y); auto. }
    specialize (W _ G). destruct (cb_wwr (getc (set_last s r n) c) n (nonce (set_last s r n))) as [y fired]. cbn [fst] in W.
    destruct fired; [destruct (rflag x)|]; apply InvK_setc; try exact H1; try exact W; apply (acc_ok_same_acc y); auto.
  - apply InvK_setc; [exact H1|]. apply acc_ok_cb_access. now apply InvK_getc.
Qed.

Lemma acc_ret_InvK s c y e : InvK (conss s) -> ac_snap y <= ac_nonce y -> InvK (conss (acc_ret s c y e)).
Proof.
  intros H Hy. unfold acc_ret.
  assert (O : forall p, (match p with CAccCb _ | CAccWait => False | _ => True end) -> acc_ok (with_cpc y p)).
  { intros p Hp. unfold acc_ok. cbn [ac_snap ac_nonce cpcv with_cpc]. split; [exact Hy|]. destruct p; auto; contradiction. }
  pose proof (conss_release_call_by (setc s c (with_cpc y (CRel e))) (cref y) (Some c)) as G.
  destruct (release_call_by (setc s c (with_cpc y (CRel e))) (cref y) (Some c)) as [s1 parked]. cbn [fst] in G.
  assert (H1 : InvK (conss s1)) by (rewrite G; apply InvK_setc; [exact H | now apply O]).
  destruct parked; [exact H1|]. apply InvK_setc; [exact H1 | now apply O].
Qed.

Lemma cons_fail_InvK s c x e : InvK (conss s) -> acc_ok x -> InvK (conss (cons_fail s c x e)).
Proof.
  intros H Hx. unfold cons_fail.
  pose proof (conss_release_call_by (setc s c (with_cpc x (CRel e))) (cref x) (Some c)) as G.
  destruct (release_call_by (setc s c (with_cpc x (CRel e))) (cref x) (Some c)) as [s1 parked]. cbn [fst] in G.
  assert (H1 : InvK (conss s1)) by (rewrite G; apply InvK_setc; [exact H | now apply acc_ok_leave]).
  destruct parked; [exact H1|]. apply InvK_setc; [exact H1 | now apply acc_ok_leave].
Qed.

Lemma acc_s1_InvK s c x : InvK (conss s) -> InvK (conss (acc_s1 s c x)).
Proof.
  intros H. unfold acc_s1.
  destruct (Nat.eqb_spec (ac_err x) 0) as [E0|E0]; cbn [negb]; [|apply acc_ret_InvK; [exact H | cbn; lia]].
  destruct (ac_res x) eqn:Er.
  - apply InvK_setc; [exact H|]. unfold acc_ok. cbn. auto.
  - destruct (ccanc x); [apply acc_ret_InvK; [exact H | cbn; lia]|]. apply InvK_setc; [exact H|]. unfold acc_ok. cbn. auto.
Qed.

Lemma step_InvK s e : InvK (conss s) -> InvK (conss (step repaired s e)).
Proof.
  intros H. destruct e; try (apply (Q_step_container InvK invoke_InvK); [exact I | exact H]); cbn [step].
  - unfold release_section. destruct (nth_error (relacts s) a) as [x|]; [|exact H]. destruct (ra_pc x); [|exact H].
    set (s1 := remove_ref _ (ra_ref x)). assert (H1 : InvK (conss s1)) by (apply (Q_remove_ref InvK invoke_InvK); exact H).
    destruct (ra_cons x) as [c|]; [|exact H1]. destruct (cpcv (getc s1 c)) eqn:Ec; try exact H1.
    cbn [conss set_conss]. apply InvK_set; [exact H1|]. apply acc_ok_leave; [now apply InvK_getc | destruct (ck (getc s1 c)); exact I].
  - unfold start_consumer. apply (Q_add_ref InvK invoke_InvK). cbn [conss set_conss].
    intros c x Hx. destruct (nth_error_snoc_cases _ _ _ _ Hx) as [[_ H0]|[_ ->]]; [exact (H c x H0)|]. unfold acc_ok. cbn. auto.
  - unfold cons_step. destruct (nth_error (conss s) c) as [x|] eqn:Ex; [|exact H]. pose proof (H c x Ex) as Hx.
    destruct (ck x), (cpcv x) eqn:Ep; try exact H; try (now apply acc_s1_InvK).
    + destruct (cw_res x) as [[v e]|]; [destruct (Nat.eqb e 0); [apply InvK_setc; [exact H | now apply acc_ok_leave] | now apply cons_fail_InvK] | destruct (ccanc x); [now apply cons_fail_InvK | exact H]].
    + destruct (ww_prom x) as [[v e]|]; [destruct (Nat.eqb e 0); [apply InvK_setc; [exact H | now apply acc_ok_leave] | now apply cons_fail_InvK] | destruct (ccanc x); [now apply cons_fail_InvK | exact H]].
    + destruct (negb (Nat.eqb (ac_nonce x) (ac_snap x))); [now apply acc_s1_InvK|]. destruct (ccanc x); [|exact H]. apply acc_ret_InvK; [exact H | apply Hx].
  - destruct (nth_error (conss s) c) as [x|] eqn:Ex; [|exact H]. apply InvK_setc; [exact H|]. apply (acc_ok_same_acc x); auto. exact (H c x Ex).
  - unfold fire_section. destruct (nth_error (conss s) c) as [x|] eqn:Ex; [|exact H].
    destruct (ww_firepc x) as [[|]|]; try exact H. apply (Q_remove_ref InvK invoke_InvK). apply InvK_setc; [exact H|].
    apply (acc_ok_same_acc x); auto. exact (H c x Ex).
  - unfold cb_return. destruct (nth_error (conss s) c) as [x|] eqn:Ex; [|exact H]. pose proof (H c x Ex) as Hx.
    destruct (ck x); try exact H. destruct (cpcv x); try exact H.
    destruct (ccanc x); [apply acc_ret_InvK; [exact H | apply Hx]|].
    match goal with |- InvK (conss (if ?b then _ else _)) => destruct b end; [apply acc_ret_InvK; [exact H | apply Hx]|].
    apply InvK_setc; [exact H|]. unfold acc_ok. cbn [ac_snap ac_nonce cpcv with_cpc cb_done]. split; [apply Hx | exact I].
  - destruct (watch_step_spec s c) as [->|[x [y [Hx [-> Hy]]]]]; [exact H|]. wsplit Hy. apply InvK_setc; [exact H|].
    pose proof (H c x Hx) as Hk. unfold acc_ok in *. rewrite Wcpcv, Wares, Waval, Waerr, Wanonce, Wasnap. destruct Hk as [K1 K2]. split; [exact K1|].
    destruct (cpcv x); auto. destruct K2 as [K2 K3]. split; [|exact K3].
    destruct Wwatch as [[_ [E1 E2]]|[_ [_ [_ [_ E]]]]]; [rewrite E1, E2; exact K2 | rewrite E; discriminate].
Qed.

Theorem run_InvK k es : InvK (conss (run repaired (init k) es)).
Proof. unfold run. apply fold_inv; [intros s e; apply step_InvK | intros [|c] x H; discriminate]. Qed.

(* ------------------------------------------------------------------ *)
(* The theorems about Access *)
Section Access.
  Variables (k : bool) (es : list ev).
  Let s := run repaired (init k) es.

  (* while an Access call is running (before its final Release) its reference is in the set, with its callback *)
  Theorem access_ref_in_set c x :
    nth_error (conss s) c = Some x -> ck x = CKAccess -> attached_pc (cpcv x) = true ->
    rin (rref s (cref x)) = true /\ rflag (rref s (cref x)) = false /\ rkind (rref s (cref x)) = KAccess c.
  Proof.
    intros Hx Hk Hp. destruct (run_InvAM k es) as [HA _]. fold s in HA. pose proof (InvA_acc_kind s c x HA Hx Hk) as K.
    destruct HA as [_ [_ [A3 _]]]. destruct (A3 c x Hx Hk Hp) as [P1 P2]. auto.
  Qed.

  Lemma access_mirror c x :
    nth_error (conss s) c = Some x -> ck x = CKAccess -> attached_pc (cpcv x) = true -> mirror_ok s x.
  Proof.
    intros Hx Hk Hp. destruct (access_ref_in_set c x Hx Hk Hp) as [P1 [_ P3]]. destruct (run_InvAM k es) as [_ HM]. exact (HM c x Hx P1 P3).
  Qed.

  (* inside the callback with a context that is not cancelled and whose watcher goroutine has not been woken: the value it
     was called with is the container's current value, resolved without error, and nothing was notified since Access looked *)
  Theorem access_called_with_current_value c x v :
    nth_error (conss s) c = Some x -> ck x = CKAccess -> cpcv x = CAccCb v -> ac_cbcanc x = false -> ac_wpark x = false ->
    resolved s = true /\ value s = v /\ verr s = 0 /\ ac_nonce x = ac_snap x.
  Proof.
    intros Hx Hk Hp Hc Hw. pose proof (run_InvK k es c x Hx) as [_ K]. rewrite Hp in K. destruct K as [K1 K2].
    specialize (K1 Hc Hw). destruct (K2 K1) as [R1 [R2 R3]].
    destruct (access_mirror c x Hx Hk ltac:(now rewrite Hp)) as [M1 M2]. assert (Er : resolved s = true) by congruence.
    destruct (M2 Er) as [M3 M4]. split; [exact Er|]. split; [congruence|]. split; [congruence | exact K1].
  Qed.

  (* whenever the value the callback holds is no longer the container's current value, its context is cancelled, or the
     watcher goroutine of the invocation has been woken and is about to cancel it (its step [EWatch] is enabled) *)
  Theorem access_ctx_cancelled_on_invalidation c x v :
    nth_error (conss s) c = Some x -> ck x = CKAccess -> cpcv x = CAccCb v ->
    (resolved s = false \/ value s <> v \/ verr s <> 0) -> ac_cbcanc x = true \/ ac_wpark x = true.
  Proof.
    intros Hx Hk Hp Hi. destruct (ac_cbcanc x) eqn:Ec; [now left|]. destruct (ac_wpark x) eqn:Ew; [now right|]. exfalso.
    destruct (access_called_with_current_value c x v Hx Hk Hp Ec Ew) as [A1 [A2 [A3 _]]]. destruct Hi as [H|[H|H]]; congruence.
  Qed.

  (* ... and the watcher's step cancels it *)
  Theorem access_watcher_cancels c x : nth_error (conss s) c = Some x -> ac_wstale x = 0 -> ac_wpark x = true ->
    ac_cbcanc (getc (step repaired s (EWatch c)) c) = true /\ ac_wpark (getc (step repaired s (EWatch c)) c) = false.
  Proof.
    intros Hx Hs Hw. cbn [step]. unfold watch_step. rewrite Hx, Hs, Hw. destruct (getc_nth_error s c x Hx) as [_ Hl].
    rewrite getc_setc, Nat.eqb_refl by exact Hl. split; reflexivity.
  Qed.

  (* a notification since Access looked is remembered until it looks again *)
  Theorem access_nonce_ge_snapshot c x : nth_error (conss s) c = Some x -> ac_snap x <= ac_nonce x.
  Proof. intros Hx. apply (run_InvK k es c x Hx). Qed.

  (* at rest (the consumer's own steps are not enabled) and with a stored value, a running Access call is inside its
     callback: with the current value, or with a cancelled context (the invalidated invocation has not returned yet) *)
  Definition acc_settled (x : cons) : bool :=
    match cpcv x with
    | CBlocked => false
    | CAccWait => Nat.eqb (ac_nonce x) (ac_snap x) && negb (ccanc x)
    | _ => true
    end.

  Theorem access_reinvoked_at_rest c x :
    nth_error (conss s) c = Some x -> ck x = CKAccess -> attached_pc (cpcv x) = true -> acc_settled x = true ->
    resolved s = true ->
    exists v, cpcv x = CAccCb v /\ (ac_cbcanc x = false -> ac_wpark x = false -> v = value s /\ verr s = 0) /\
              (verr s <> 0 -> ac_cbcanc x = true \/ ac_wpark x = true).
  Proof.
    intros Hx Hk Hp Hs Er. destruct (access_mirror c x Hx Hk Hp) as [M1 _]. pose proof (run_InvK k es c x Hx) as [_ K].
    unfold acc_settled in Hs. destruct (cpcv x) as [| | |v| |] eqn:Ep; try discriminate.
    - exists v. split; [reflexivity|]. split.
      + intros Hc Hw. destruct (access_called_with_current_value c x v Hx Hk Ep Hc Hw) as [_ [A2 [A3 _]]]. auto.
      + intros He. apply (access_ctx_cancelled_on_invalidation c x v Hx Hk Ep). auto.
    - apply andb_true_iff in Hs. destruct Hs as [Hs _]. apply Nat.eqb_eq in Hs. destruct (K Hs) as [R1 _]. congruence.
  Qed.
End Access.

(* ---- per step: what the Access caller does ---- *)
Lemma acc_ret_pc s c x y e :
  nth_error (conss s) c = Some x -> cpcv (getc (acc_ret s c y e) c) = CRel e \/ cpcv (getc (acc_ret s c y e) c) = CAccRet e.
Proof.
  intros Hx. destruct (getc_nth_error s c x Hx) as [_ Hl]. unfold acc_ret.
  pose proof (conss_release_call_by (setc s c (with_cpc y (CRel e))) (cref y) (Some c)) as G.
  destruct (release_call_by (setc s c (with_cpc y (CRel e))) (cref y) (Some c)) as [s1 parked]. cbn [fst] in G.
  destruct parked.
  - left. unfold getc. rewrite G, conss_setc, nth_set_nth_same by exact Hl. reflexivity.
  - right. unfold getc. rewrite conss_setc, nth_set_nth_same; [reflexivity|]. rewrite G, conss_setc, length_set_nth. exact Hl.
Qed.

(* the callback returns: Canceled if the caller's context is cancelled; its own result only if nothing was notified
   since Access looked (section S2: same nonce); otherwise back to the top of the loop *)
Theorem cb_return_result s c x v res :
  nth_error (conss s) c = Some x -> ck x = CKAccess -> cpcv x = CAccCb v ->
  let p := cpcv (getc (cb_return repaired s c res) c) in
  let rc := match res with 1 => if ac_cbcanc x || ccanc x then 1 else 0 | _ => res end in
  if ccanc x then p = CRel 1 \/ p = CAccRet 1
  else if Nat.eqb (ac_nonce x) (ac_snap x) then p = CRel rc \/ p = CAccRet rc
  else p = CBlocked.
Proof.
  intros Hx Hk Hp. destruct (getc_nth_error s c x Hx) as [_ Hl]. unfold cb_return. rewrite Hx, Hk, Hp. cbn [fx_accnonce repaired].
  destruct (ccanc x); [now apply (acc_ret_pc s c x)|]. destruct (Nat.eqb (ac_nonce x) (ac_snap x)); [now apply (acc_ret_pc s c x)|].
  unfold getc. rewrite conss_setc, nth_set_nth_same by exact Hl. reflexivity.
Qed.

(* the top of the loop (section S1): a resolver error is returned as such; a value is handed to the callback with a
   fresh, uncancelled context; otherwise Canceled if the caller's context is cancelled, else wait for a change *)
Theorem access_loop_step s c x :
  nth_error (conss s) c = Some x -> ck x = CKAccess ->
  (cpcv x = CBlocked \/ (cpcv x = CAccWait /\ ac_nonce x <> ac_snap x)) ->
  let y := getc (cons_step s c) c in
  if negb (Nat.eqb (ac_err x) 0) then cpcv y = CRel (ac_err x) \/ cpcv y = CAccRet (ac_err x)
  else if ac_res x then cpcv y = CAccCb (ac_val x) /\ ac_cbcanc y = false /\ ac_nonce y = ac_snap y
  else if ccanc x then cpcv y = CRel 1 \/ cpcv y = CAccRet 1
  else cpcv y = CAccWait /\ ac_nonce y = ac_snap y.
Proof.
  intros Hx Hk Hp. destruct (getc_nth_error s c x Hx) as [_ Hl]. unfold cons_step. rewrite Hx, Hk.
  assert (E : (match cpcv x with
               | CBlocked => acc_s1 s c x
               | CAccWait => if negb (Nat.eqb (ac_nonce x) (ac_snap x)) then acc_s1 s c x else if ccanc x then acc_ret s c x 1 else s
               | _ => s end) = acc_s1 s c x).
  { destruct Hp as [->|[-> Hn]]; [reflexivity|]. destruct (Nat.eqb_spec (ac_nonce x) (ac_snap x)); [contradiction | reflexivity]. }
  rewrite E. unfold acc_s1. destruct (negb (Nat.eqb (ac_err x) 0)); [now apply (acc_ret_pc s c x)|].
  destruct (ac_res x); [unfold getc; rewrite conss_setc, nth_set_nth_same by exact Hl; cbn; auto|].
  destruct (ccanc x); [now apply (acc_ret_pc s c x)|]. unfold getc. rewrite conss_setc, nth_set_nth_same by exact Hl. cbn. auto.
Qed.

(* waiting for a change, caller's context cancelled: Canceled *)
Theorem access_wait_cancelled s c x :
  nth_error (conss s) c = Some x -> ck x = CKAccess -> cpcv x = CAccWait -> ac_nonce x = ac_snap x -> ccanc x = true ->
  cpcv (getc (cons_step s c) c) = CRel 1 \/ cpcv (getc (cons_step s c) c) = CAccRet 1.
Proof.
  intros Hx Hk Hp Hn Hc. unfold cons_step. rewrite Hx, Hk, Hp, Hn, Nat.eqb_refl, Hc. cbn [negb]. now apply (acc_ret_pc s c x).
Qed.

(* the final Release: its removeRef section lets the call return the code it decided on *)
Theorem access_release_returns s a y c e :
  nth_error (relacts s) a = Some y -> ra_pc y = RGate -> ra_cons y = Some c -> c < length (conss s) ->
  ck (getc s c) = CKAccess -> cpcv (getc s c) = CRel e ->
  cpcv (getc (release_section s a) c) = CAccRet e.
Proof.
  intros Hy Hp Hc Hl Hk He. unfold release_section. rewrite Hy, Hp, Hc.
  set (sa := set_relacts s _).
  assert (Q : length (conss (remove_ref sa (ra_ref y))) = length (conss s) /\ ck (getc (remove_ref sa (ra_ref y)) c) = CKAccess /\
              cpcv (getc (remove_ref sa (ra_ref y)) c) = CRel e).
  { apply (Q_remove_ref (fun l => length l = length (conss s) /\ ck (nth c l cons0) = CKAccess /\ cpcv (nth c l cons0) = CRel e)).
    - intros s0 r n [Q1 [Q2 Q3]]. destruct (fp_invoke s0 r n) as [_ [_ [F3 [_ [F5 _]]]]]. destruct (F5 c) as [P1 [_ [P3 _]]].
      unfold getc in P1, P3. split; [congruence|]. split; congruence.
    - auto. }
  destruct Q as [Q1 [Q2 Q3]]. set (s1 := remove_ref sa (ra_ref y)) in *. rewrite Q3, Q2.
  unfold getc. cbn [conss set_conss]. rewrite nth_set_nth_same by lia. reflexivity.
Qed.

(* the seeded variant C10_A ("value equal again" counts as unchanged): with equal values across generations Access
   returns the result of an invalidated invocation *)
Definition pinned_c10a : fixes := {| fx_wait := true; fx_nilcb := true; fx_accnonce := false |}.
Definition c10a_witness : list ev :=
  [ESetCtx 1; EStartCons 2; EConsStep 0; EProceed 0 true; EResReturn 0 7 true 0; EStore 0; EConsStep 0;
   EReleased 0; EWatch 0; EProceed 1 true; EResReturn 1 7 true 0; EStore 1; ECbReturn 0 1].
Lemma c10a_refuted :
  let x := getc (run pinned_c10a (init false) c10a_witness) 0 in
  cpcv x = CRel 1 /\ ccanc x = false /\ ac_nonce x <> ac_snap x.
Proof. vm_compute. repeat split; discriminate || reflexivity. Qed.
Lemma c10a_repaired_loops :
  cpcv (getc (run repaired (init false) c10a_witness) 0) = CBlocked /\
  cpcv (getc (run repaired (init false) (c10a_witness ++ [EConsStep 0])) 0) = CAccCb 7.
Proof. vm_compute. split; reflexivity. Qed.
