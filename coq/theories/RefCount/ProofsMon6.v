(* refcount: the monitors tied to the model, part 6: the release log in the monitors' books and the clauses 8.1, 8.2, 8.3,
   9.1, 9.2, 10.2 on the model's own observations. *)
From Util Require Import Common.Base Common.ListLemmas RefCount.Model RefCount.Spec RefCount.Proofs RefCount.ProofsC08 RefCount.ProofsC08b
  RefCount.ProofsC09 RefCount.ProofsC10 RefCount.ProofsC10a RefCount.ProofsC10b RefCount.ProofsCodec RefCount.ProofsMon RefCount.ProofsMon2 RefCount.ProofsMon3
  RefCount.ProofsMon4 RefCount.ProofsMon5.
Open Scope nat_scope.

(* ------------------------------------------------------------------ *)
Lemma mem_map_nn a l : mem (nn a) (map nn l) = existsb (Nat.eqb a) l.
Proof. unfold mem. induction l as [|b l IH]; [reflexivity|]. cbn [map existsb]. now rewrite nn_eqb, IH. Qed.

Lemma existsb_eqb_In a l : existsb (Nat.eqb a) l = true <-> In a l.
Proof.
  rewrite existsb_exists. split.
  - intros [x [Hx E]]. apply Nat.eqb_eq in E. now subst.
  - intros H. exists a. split; [exact H | apply Nat.eqb_refl].
Qed.

Lemma nodupb_map_nn l : NoDup l -> nodupb (map nn l) = true.
Proof.
  induction 1 as [|a l Ha Hl IH]; [reflexivity|]. cbn [map nodupb]. rewrite IH, mem_map_nn, andb_true_r.
  apply negb_true_iff. destruct (existsb (Nat.eqb a) l) eqn:E; [|reflexivity]. apply existsb_eqb_In in E. contradiction.
Qed.

Lemma cntb_map {A} (f : A -> bool) l : cntb (map f l) = cnt f l.
Proof. unfold cntb, cnt. induction l as [|a l IH]; [reflexivity|]. cbn [map filter]. destruct (f a); cbn [length]; now rewrite IH. Qed.


Lemma skipn_app_exact {A} (l r : list A) : skipn (length l) (l ++ r) = r.
Proof. induction l as [|a l IH]; [reflexivity|]. exact IH. Qed.

Definition idn (c : relcall) : N := nn (rc_id c).

(* 10.8: on the model's own observations no consumer has status 7 ("returned a context error other than context.Canceled"):
   the observation function only produces the codes 2, 3 and 6 - a failing Wait / Resolve / ResolveWithReleased call of the
   model returns the resolver's error or Canceled (Props_C10.c10_error_and_cancel_passthrough), which are reported with code 3.
   No hypothesis: every state, every configuration. *)
Lemma clause_10_8 (p0 : pobs) rets s from : p0 = pobs_of rets s from -> u_f10_8 p0 = [].
Proof.
  intros ->. unfold u_f10_8. cbn [po_cons pobs_of].
  assert (F : forallb (fun x : N * N * N * N * N * N => let '(code, _, _, _, _, _) := x in negb (N.eqb code 7)) (map ccode6 (conss s)) = true).
  { apply forallb_forall. intros y Hy. apply in_map_iff in Hy. destruct Hy as [x [<- _]]. unfold ccode6. destruct (cpcv x); reflexivity. }
  now rewrite F.
Qed.

(* ------------------------------------------------------------------ *)
Section Step.
  Variables (m : mst) (h : hst) (e : list N) (e0 : ev) (rets : list N).
  Hypothesis HRh : HR h.
  Hypothesis HP : Rproj m h.
  Hypothesis Hd : dec h e e0 rets.
  Hypothesis Hc : hconst h = false.
  Local Notation s := (hs h).
  Local Notation s1 := (step repaired (hs h) e0).
  Local Notation s' := (settle (step repaired (hs h) e0)).
  Local Notation p := (pobs_of rets (settle (step repaired (hs h) e0)) (hrel h)).

  Lemma HRh' : HR {| hs := s'; hrel := length (rellog s'); hconst := hconst h |}.
  Proof. exact (HR_step h e e0 rets HRh Hd). Qed.
  Lemma Inv0 : Inv s. Proof. exact (HR_inv h HRh Hc). Qed.
  Lemma Inv1 : Inv s1. Proof. exact (HR_inv _ (HR_mid h e e0 rets HRh Hd) Hc). Qed.
  Lemma Inv2 : Inv s'. Proof. exact (HR_inv _ HRh' Hc). Qed.

  (* the log grows by the calls of this event *)
  Definition newlog : list relcall := skipn (hrel h) (rellog s').

  Lemma rellog_new : rellog s' = rellog s ++ newlog /\ (newlog = [] \/ exists c, newlog = [c]).
  Proof.
    unfold newlog. destruct HRh as [_ ->]. rewrite settle_rellog. destruct (step_log s e0 Inv0) as [E|[c [E _]]]; rewrite E.
    - rewrite skipn_all, app_nil_r. split; [reflexivity | now left].
    - rewrite skipn_app_exact. split; [reflexivity | right; now exists c].
  Qed.

  Lemma p_rels : po_rels p = map relcode3 newlog. Proof. reflexivity. Qed.
  Lemma p_newcalls : u_newcalls p = map idn newlog.
  Proof. unfold u_newcalls. rewrite p_rels, map_map. reflexivity. Qed.

  Lemma upd_called : m_called m = map idn (rellog s) -> u_called m p = map idn (rellog s').
  Proof. intros H. unfold u_called. destruct rellog_new as [-> _]. now rewrite H, p_newcalls, map_app. Qed.

  (* 8.1: every release function is called at most once *)
  Lemma clause_8_1 : m_called m = map idn (rellog s) -> u_f8_1 m p = [].
  Proof.
    intros H. unfold u_f8_1. rewrite (upd_called H). unfold idn. rewrite <- map_map.
    destruct Inv2 as [[_ [_ [[L1 _] _]]] _]. unfold ids in L1. now rewrite (nodupb_map_nn _ L1).
  Qed.

  (* 8.2: at the moment of the call the target does not hold the value, no reference in the set still believes in it *)
  Lemma clause_8_2 : u_f8_2 p = [].
  Proof.
    unfold u_f8_2. rewrite p_rels. destruct Inv2 as [[_ [_ [[_ [L2 _]] _]]] _].
    assert (F : forallb (fun x : N * N * N => let '(id, tg, stale) := x in negb (N.eqb tg (id + 1)) && N.eqb stale 0) (map relcode3 newlog) = true).
    { apply forallb_forall. intros x Hx. apply in_map_iff in Hx. destruct Hx as [c [<- Hin]].
      assert (Hin' : In c (rellog s')) by (destruct rellog_new as [-> _]; apply in_or_app; now right).
      destruct (L2 c Hin') as [_ [E2 [E3 _]]]. unfold relcode3. rewrite E3. change (nn 0) with 0%N. rewrite N.eqb_refl, andb_true_r.
      apply negb_true_iff. rewrite <- nn_S, nn_eqb. now apply Nat.eqb_neq. }
    now rewrite F.
  Qed.

  Lemma p_nin : u_in m e = map rin (refs s') -> u_nin m e = nrefs s'.
  Proof. intros H. unfold u_nin. rewrite H. apply cntb_map. Qed.

  Lemma nrefs_settle : nrefs s' = nrefs s1.
  Proof. pose proof (settle_vw s1) as V. apply (f_equal v_rin) in V. cbn [v_rin vw] in V. unfold nrefs. rewrite <- !cntb_map. now rewrite V. Qed.

  (* 8.3: a release function is called only by a context change, released(), a removeRef section that leaves no reference,
     or the store section of the goroutine that returned it *)
  Lemma clause_8_3 : u_f8_3 m e p = [].
  Proof.
    unfold u_f8_3. rewrite p_newcalls. pose proof (upd_in m h e e0 rets HP Hd) as Ein. pose proof (p_nin Ein) as Enin.
    pose proof nrefs_settle as NS. pose proof Inv0 as I0.
    unfold newlog. destruct HRh as [_ ->]. rewrite settle_rellog.
    destruct (step_log s e0 I0) as [E|[c [E Hcause]]]; rewrite E.
    { rewrite skipn_all. reflexivity. }
    rewrite skipn_app_exact. cbn [map forallb]. rewrite andb_true_r.
    destruct Hcause as [[Hvr [_ Hi]]|[g [x [v [er [He [Hid _]]]]]]].
    - (* the release function of the stored value: the stored generation is the one of the current nonce *)
      assert (Gen : forall i y, nth_error (gs s) i = Some y -> gnonce y = nonce s -> idn c = nn i).
      { intros i y Hy Hn. destruct I0 as [[HN [_ [_ [_ [[V1 [V2 [V3 _]]] _]]]]] _].
        destruct (resolved s) eqn:Er; [|destruct (V2 eq_refl) as [X _]; congruence].
        destruct (V1 eq_refl) as [_ [A2 [_ A4]]]. pose proof (V3 _ Hvr) as Eg. destruct (getg_nth_error s i y Hy) as [Egy Hl].
        unfold idn. f_equal. rewrite Eg. apply (InvN_inj s _ _ HN A2 Hl). rewrite A4, Egy. now symmetry. }
      destruct Hd; cbn [invalidating] in Hi; try contradiction.
      + (* SetContext with a different context *) unfold set_context. destruct (Nat.eqb_spec (kctx s) (n2n c0)) as [E1|E1]; [contradiction|reflexivity].
      + (* removeRef *) unfold u_dropped_last. rewrite Enin, NS. destruct Hi as [-> _]. reflexivity.
      + (* released() of generation g *) destruct Hi as [y [Hy Hn]]. rewrite (Gen _ y Hy Hn), nn_n2n, N.eqb_refl. reflexivity.
      + (* the asynchronous released() of generation g *) destruct Hi as [y [Hy [_ Hn]]].
        rewrite (nth_error_nth_d _ _ async0 _ Hy) in H1.
        assert (Hx : nth_error (gs s) (n2n g) = Some (getg s (n2n g))) by (unfold getg; now apply nth_error_nth').
        rewrite (Gen _ _ Hx ltac:(congruence)), nn_n2n, N.eqb_refl. reflexivity.
      + unfold u_dropped_last. rewrite Enin, NS. destruct Hi as [-> _]. reflexivity.
    - destruct Hd; try discriminate He. injection He as He. unfold idn. rewrite Hid, <- He, nn_n2n, N.eqb_refl. reflexivity.
  Qed.

  (* 9.1: never two resolver calls at once *)
  Lemma clause_9_1 : u_f9_1 p = [].
  Proof.
    unfold u_f9_1. cbn [po_gs pobs_of]. rewrite cnt_map.
    assert (E : cnt (fun x => N.eqb 3 (gcode x)) (gs s') = cnt in_resolver (gs s')).
    { apply cnt_ext. intros x _. unfold gcode, in_resolver. destruct (gpcv x); reflexivity. }
    rewrite E. destruct HRh' as [[k [es [Es _]]] _]. cbn [hs] in Es. rewrite Es.
    pose proof (at_most_one_in_resolver k es) as H. apply Nat.leb_le in H. now rewrite H.
  Qed.

  (* 9.2: AddRef never panics *)
  Lemma clause_9_2 : u_f9_2 e p = [].
  Proof.
    unfold u_f9_2. destruct Hd; try reflexivity. cbn [po_rets pobs_of].
    pose proof (HR_nopanic _ (HR_mid h _ _ _ HRh (D_addref h k H))) as Hp. cbn [hs step] in Hp. rewrite Hp. reflexivity.
  Qed.

  (* 10.2: the released callback fires at most once *)
  Lemma clause_10_2 : u_f10_2 p = [].
  Proof.
    unfold u_f10_2. cbn [po_cons pobs_of].
    assert (F : forallb (fun x : N * N * N * N * N * N => let '(_, _, _, _, fired, _) := x in N.leb fired 1) (map ccode6 (conss s')) = true).
    { apply forallb_forall. intros y Hy. apply in_map_iff in Hy. destruct Hy as [x [<- Hin]]. destruct (In_nth_error _ _ Hin) as [c Hx].
      destruct HRh' as [[k [es [Es _]]] _]. cbn [hs] in Es. rewrite Es in Hx. pose proof (released_fires_at_most_once k es c x Hx) as Hf.
      unfold ccode6. destruct (cpcv x); change 1%N with (nn 1); rewrite nn_leb; now apply Nat.leb_le. }
    now rewrite F.
  Qed.
End Step.
