(* refcount: the monitors tied to the model, part 20: Access consumers, model side only:
   - a consumer inside its own Release has a release actor for its reference ([InvE], every event list);
   - program points of an Access consumer across one section (any program point);
   - a section that is not a store section either leaves the Access bookkeeping of a consumer alone or tells it "gone";
   - what the eager schedule does to an Access consumer. *)
From Util Require Import Common.Base Common.ListLemmas RefCount.Model RefCount.Spec RefCount.Proofs RefCount.ProofsC08 RefCount.ProofsC08b
  RefCount.ProofsC09 RefCount.ProofsC10 RefCount.ProofsC10a RefCount.ProofsC10b RefCount.ProofsCodec RefCount.ProofsMon RefCount.ProofsMon2 RefCount.ProofsMon3
  RefCount.ProofsMon4 RefCount.ProofsMon5 RefCount.ProofsMon6 RefCount.ProofsMon7 RefCount.ProofsMonG RefCount.ProofsMon8 RefCount.ProofsMon11 RefCount.ProofsMon12
  RefCount.ProofsMon14 RefCount.ProofsMon19.
Open Scope nat_scope.

(* ------------------------------------------------------------------ *)
(* a consumer inside its own Release (flag swapped, removeRef section pending) has a release actor *)
Definition InvE (s : st) : Prop := forall c x e, nth_error (conss s) c = Some x -> cpcv x = CRel e -> In (cref x) (raref s).

Lemma InvE_ext s s' : relacts s' = relacts s -> conss s' = conss s -> InvE s -> InvE s'.
Proof. intros E1 E2 H. unfold InvE, raref in *. rewrite E1, E2. exact H. Qed.

Lemma InvE_Qext s s' : refs s' = refs s -> relacts s' = relacts s -> conss s' = conss s -> InvE s -> InvE s'.
Proof. intros _. apply InvE_ext. Qed.

Lemma InvE_fp s s' : fp s s' -> InvE s -> InvE s'.
Proof.
  intros [F1 [_ [F3 [_ [F5 _]]]]] H c x' e Hx' Hp. destruct (getc_nth_error s' c x' Hx') as [Eg Hl]. rewrite F3 in Hl.
  destruct (F5 c) as [_ [P2 [P3 _]]]. rewrite Eg in P2, P3. unfold raref. rewrite F1, P2.
  apply (H c (getc s c) e); [now apply nth_error_getc | congruence].
Qed.

Lemma InvE_Qinv s r n : InvE s -> InvE (invoke s r n).
Proof. apply InvE_fp, fp_invoke. Qed.

Lemma InvE_setc s c y : InvE s -> (forall e, cpcv y = CRel e -> In (cref y) (raref s)) -> InvE (setc s c y).
Proof.
  intros H Hy c' x e Hx Hp. change (raref (setc s c y)) with (raref s). rewrite conss_setc in Hx.
  destruct (Nat.lt_ge_cases c (length (conss s))) as [Hl|Hl].
  - destruct (Nat.eq_dec c' c) as [->|Hne].
    + rewrite nth_error_set_nth_same in Hx by exact Hl. inversion Hx; subst x. exact (Hy e Hp).
    + rewrite nth_error_set_nth_other in Hx by exact Hne. exact (H c' x e Hx Hp).
  - rewrite set_nth_oob in Hx by exact Hl. exact (H c' x e Hx Hp).
Qed.

Lemma release_call_by_cases s r oc :
  release_call_by s r oc = (s, false) \/
  (snd (release_call_by s r oc) = true /\ conss (fst (release_call_by s r oc)) = conss s /\ raref (fst (release_call_by s r oc)) = raref s ++ [r]).
Proof.
  unfold release_call_by. destruct (nth_error (refs s) r) as [x|]; [|now left]. destruct (rflag x); [now left|]. right.
  cbn [fst snd]. unfold raref. cbn [relacts conss set_relacts set_refs]. rewrite map_app. auto.
Qed.

Lemma InvE_own s c y e p :
  InvE s -> (forall e', p <> CRel e') ->
  InvE (let '(s1, parked) := release_call_by (setc s c (with_cpc y (CRel e))) (cref y) (Some c) in
        if parked then s1 else setc s1 c (with_cpc y p)).
Proof.
  intros H Hp. set (s0 := setc s c (with_cpc y (CRel e))).
  destruct (release_call_by_cases s0 (cref y) (Some c)) as [E|[E1 [E2 E3]]].
  - rewrite E. unfold s0. rewrite setc_setc. apply InvE_setc; [exact H|]. intros e' Ec. cbn [cpcv with_cpc] in Ec. exfalso. exact (Hp e' Ec).
  - destruct (release_call_by s0 (cref y) (Some c)) as [s1 parked]. cbn [fst snd] in E1, E2, E3. subst parked.
    intros c' x e' Hx Hpc. rewrite E3. apply in_or_app. rewrite E2 in Hx. unfold s0 in Hx. rewrite conss_setc in Hx.
    change (raref s0) with (raref s).
    destruct (Nat.lt_ge_cases c (length (conss s))) as [Hl|Hl].
    + destruct (Nat.eq_dec c' c) as [->|Hne].
      * rewrite nth_error_set_nth_same in Hx by exact Hl. inversion Hx; subst x. right. now left.
      * rewrite nth_error_set_nth_other in Hx by exact Hne. left. exact (H c' x e' Hx Hpc).
    + rewrite set_nth_oob in Hx by exact Hl. left. exact (H c' x e' Hx Hpc).
Qed.

Lemma InvE_acc_ret s c y e : InvE s -> InvE (acc_ret s c y e).
Proof. intros H. unfold acc_ret. apply InvE_own; [exact H | intros; discriminate]. Qed.
Lemma InvE_cons_fail s c y e : InvE s -> InvE (cons_fail s c y e).
Proof. intros H. unfold cons_fail. apply InvE_own; [exact H | intros; discriminate]. Qed.

Lemma InvE_acc_s1 s c x : InvE s -> InvE (acc_s1 s c x).
Proof.
  intros H. unfold acc_s1. destruct (negb (Nat.eqb (ac_err x) 0)); [now apply InvE_acc_ret|].
  destruct (ac_res x); [apply InvE_setc; [exact H | intros; discriminate]|].
  destruct (ccanc x); [now apply InvE_acc_ret | apply InvE_setc; [exact H | intros; discriminate]].
Qed.

Lemma InvE_cons_step s c : InvE s -> InvE (cons_step s c).
Proof.
  intros H. unfold cons_step. destruct (nth_error (conss s) c) as [x|]; [|exact H].
  destruct (ck x), (cpcv x); try exact H; try (now apply InvE_acc_s1).
  3:{ destruct (negb (Nat.eqb (ac_nonce x) (ac_snap x))); [now apply InvE_acc_s1|]. destruct (ccanc x); [now apply InvE_acc_ret | exact H]. }
  - destruct (cw_res x) as [[v e]|]; [destruct (Nat.eqb e 0); [apply InvE_setc; [exact H | intros; discriminate] | now apply InvE_cons_fail]
                                     | destruct (ccanc x); [now apply InvE_cons_fail | exact H]].
  - destruct (ww_prom x) as [[v e]|]; [destruct (Nat.eqb e 0); [apply InvE_setc; [exact H | intros; discriminate] | now apply InvE_cons_fail]
                                      | destruct (ccanc x); [now apply InvE_cons_fail | exact H]].
Qed.

Lemma InvE_cb_return fx s c res : InvE s -> InvE (cb_return fx s c res).
Proof.
  intros H. unfold cb_return. destruct (nth_error (conss s) c) as [x|]; [|exact H].
  destruct (ck x); try exact H. destruct (cpcv x); try exact H.
  destruct (ccanc x); [now apply InvE_acc_ret|].
  match goal with |- InvE (if ?b then _ else _) => destruct b end; [now apply InvE_acc_ret | apply InvE_setc; [exact H | intros; discriminate]].
Qed.

Lemma InvE_remove_ref s r : InvE s -> InvE (remove_ref s r).
Proof.
  intros H. apply (S_remove_ref InvE InvE_Qext InvE_Qinv); [exact H|]. intros x _ _. now apply (InvE_ext s).
Qed.

Lemma InvE_add_ref s k : InvE s -> InvE (add_ref repaired s k).
Proof. intros H. apply (S_add_ref InvE InvE_Qext InvE_Qinv). now apply (InvE_ext s). Qed.

Lemma step_InvE s e : InvE s -> InvE (step repaired s e).
Proof.
  intros H. destruct e; try (apply (S_step_container InvE InvE_Qext InvE_Qinv); [exact I | exact H]); cbn [step].
  - now apply InvE_add_ref.
  - destruct (rkind (nth r (refs s) ref0)); try exact H.
    all: unfold release_call; destruct (release_call_by_cases s r None) as [E|[_ [E2 E3]]]; [rewrite E; exact H|];
      intros c1 x1 e1 Hx Hp; rewrite E3; apply in_or_app; left; rewrite E2 in Hx; exact (H c1 x1 e1 Hx Hp).
  - unfold release_section. destruct (nth_error (relacts s) a) as [x|] eqn:Ex; [|exact H]. destruct (ra_pc x); [|exact H].
    set (sa := set_relacts s _).
    assert (Ha : InvE sa).
    { intros c z e Hz Hp. unfold raref, sa. cbn [relacts set_relacts]. rewrite (map_ra_ref_set _ _ x) by auto. exact (H c z e Hz Hp). }
    assert (H1 : InvE (remove_ref sa (ra_ref x))) by (now apply InvE_remove_ref).
    set (s1 := remove_ref sa (ra_ref x)) in *. destruct (ra_cons x) as [c|]; [|exact H1].
    destruct (cpcv (getc s1 c)); try exact H1. change (set_conss s1 (set_nth (conss s1) c ?y)) with (setc s1 c y).
    apply InvE_setc; [exact H1|]. intros e' Ec. cbn [cpcv with_cpc] in Ec. destruct (ck (getc s1 c)); discriminate.
  - unfold start_consumer. apply InvE_add_ref. intros c x e Hx Hp. cbn [conss set_conss] in Hx. change (raref (set_conss s _)) with (raref s).
    destruct (nth_error_snoc_cases _ _ _ _ Hx) as [[_ H0]|[_ ->]]; [exact (H c x e H0 Hp) | discriminate].
  - now apply InvE_cons_step.
  - destruct (nth_error (conss s) c) as [x|] eqn:Ex; [|exact H]. apply InvE_setc; [exact H|]. intros e Hp. cbn [cpcv cref] in *. exact (H c x e Ex Hp).
  - unfold fire_section. destruct (nth_error (conss s) c) as [x|] eqn:Ex; [|exact H]. destruct (ww_firepc x) as [[|]|]; try exact H.
    apply InvE_remove_ref. apply InvE_setc; [exact H|]. intros e Hp. cbn [cpcv cref with_fire] in *. exact (H c x e Ex Hp).
  - now apply InvE_cb_return.
  - destruct (Nat.eqb c 0); [exact H|]. destruct (cancel_root_frame s c) as [_ [E2 [E3 _]]]. now apply (InvE_ext s).
Qed.

Theorem run_InvE k es : InvE (run repaired (init k) es).
Proof. unfold run. apply fold_inv; [intros s e; apply step_InvE | intros [|c] x e H; discriminate]. Qed.
