(* refcount: the monitors tied to the model, part 20: Access consumers, model side only:
   - a consumer inside its own Release has a release actor for its reference ([InvE], every event list);
   - program points of an Access consumer across one section (any program point);
   - a section that is not a store section either leaves the Access bookkeeping of a consumer alone or tells it "gone";
   - what the eager schedule does to an Access consumer. *)
From Util Require Import Common.Base Common.ListLemmas RefCount.Model RefCount.Spec RefCount.Proofs RefCount.ProofsC08 RefCount.ProofsC08b
  RefCount.ProofsC09 RefCount.ProofsC10 RefCount.ProofsC10a RefCount.ProofsC10b RefCount.ProofsCodec RefCount.ProofsMon RefCount.ProofsMon2 RefCount.ProofsMon3
  RefCount.ProofsMon4 RefCount.ProofsMon5 RefCount.ProofsMon6 RefCount.ProofsMon7 RefCount.ProofsMonG RefCount.ProofsMon8 RefCount.ProofsMon11 RefCount.ProofsMon12
  RefCount.ProofsMon14 RefCount.ProofsMon19.
Open Scope nat_scope.

(* ------------------------------------------------------------------ *)
(* a consumer inside its own Release (flag swapped, removeRef section pending) has a release actor *)
Definition InvE (s : st) : Prop := forall c x e, nth_error (conss s) c = Some x -> cpcv x = CRel e -> In (cref x) (raref s).

Lemma InvE_ext s s' : relacts s' = relacts s -> conss s' = conss s -> InvE s -> InvE s'.
Proof. intros E1 E2 H. unfold InvE, raref in *. rewrite E1, E2. exact H. Qed.

Lemma InvE_Qext s s' : refs s' = refs s -> relacts s' = relacts s -> conss s' = conss s -> InvE s -> InvE s'.
Proof. intros _. apply InvE_ext. Qed.

Lemma InvE_fp s s' : fp s s' -> InvE s -> InvE s'.
Proof.
  intros [F1 [_ [F3 [_ [F5 _]]]]] H c x' e Hx' Hp. destruct (getc_nth_error s' c x' Hx') as [Eg Hl]. rewrite F3 in Hl.
  destruct (F5 c) as [_ [P2 [P3 _]]]. rewrite Eg in P2, P3. unfold raref. rewrite F1, P2.
  apply (H c (getc s c) e); [now apply nth_error_getc | congruence].
Qed.

Lemma InvE_Qinv s r n : InvE s -> InvE (invoke s r n).
Proof. apply InvE_fp, fp_invoke. Qed.

Lemma InvE_setc s c y : InvE s -> (forall e, cpcv y = CRel e -> In (cref y) (raref s)) -> InvE (setc s c y).
Proof.
  intros H Hy c' x e Hx Hp. change (raref (setc s c y)) with (raref s). rewrite conss_setc in Hx.
  destruct (Nat.lt_ge_cases c (length (conss s))) as [Hl|Hl].
  - destruct (Nat.eq_dec c' c) as [->|Hne].
    + rewrite nth_error_set_nth_same in Hx by exact Hl. inversion Hx; subst x. exact (Hy e Hp).
    + rewrite nth_error_set_nth_other in Hx by exact Hne. exact (H c' x e Hx Hp).
  - rewrite set_nth_oob in Hx by exact Hl. exact (H c' x e Hx Hp).
Qed.

Lemma release_call_by_cases s r oc :
  release_call_by s r oc = (s, false) \/
  (snd (release_call_by s r oc) = true /\ conss (fst (release_call_by s r oc)) = conss s /\ raref (fst (release_call_by s r oc)) = raref s ++ [r]).
Proof.
  unfold release_call_by. destruct (nth_error (refs s) r) as [x|]; [|now left]. destruct (rflag x); [now left|]. right.
  cbn [fst snd]. unfold raref. cbn [relacts conss set_relacts set_refs]. rewrite map_app. auto.
Qed.

Lemma InvE_own s c y e p :
  InvE s -> (forall e', p <> CRel e') ->
  InvE (let '(s1, parked) := release_call_by (setc s c (with_cpc y (CRel e))) (cref y) (Some c) in
        if parked then s1 else setc s1 c (with_cpc y p)).
Proof.
  intros H Hp. set (s0 := setc s c (with_cpc y (CRel e))).
  destruct (release_call_by_cases s0 (cref y) (Some c)) as [E|[E1 [E2 E3]]].
  - rewrite E. unfold s0. rewrite setc_setc. apply InvE_setc; [exact H|]. intros e' Ec. cbn [cpcv with_cpc] in Ec. exfalso. exact (Hp e' Ec).
  - destruct (release_call_by s0 (cref y) (Some c)) as [s1 parked]. cbn [fst snd] in E1, E2, E3. subst parked.
    intros c' x e' Hx Hpc. rewrite E3. apply in_or_app. rewrite E2 in Hx. unfold s0 in Hx. rewrite conss_setc in Hx.
    change (raref s0) with (raref s).
    destruct (Nat.lt_ge_cases c (length (conss s))) as [Hl|Hl].
    + destruct (Nat.eq_dec c' c) as [->|Hne].
      * rewrite nth_error_set_nth_same in Hx by exact Hl. inversion Hx; subst x. right. now left.
      * rewrite nth_error_set_nth_other in Hx by exact Hne. left. exact (H c' x e' Hx Hpc).
    + rewrite set_nth_oob in Hx by exact Hl. left. exact (H c' x e' Hx Hpc).
Qed.

Lemma InvE_acc_ret s c y e : InvE s -> InvE (acc_ret s c y e).
Proof. intros H. unfold acc_ret. apply InvE_own; [exact H | intros; discriminate]. Qed.
Lemma InvE_cons_fail s c y e : InvE s -> InvE (cons_fail s c y e).
Proof. intros H. unfold cons_fail. apply InvE_own; [exact H | intros; discriminate]. Qed.

Lemma InvE_acc_s1 s c x : InvE s -> InvE (acc_s1 s c x).
Proof.
  intros H. unfold acc_s1. destruct (negb (Nat.eqb (ac_err x) 0)); [now apply InvE_acc_ret|].
  destruct (ac_res x); [apply InvE_setc; [exact H | intros; discriminate]|].
  destruct (ccanc x); [now apply InvE_acc_ret | apply InvE_setc; [exact H | intros; discriminate]].
Qed.

Lemma InvE_cons_step s c : InvE s -> InvE (cons_step s c).
Proof.
  intros H. unfold cons_step. destruct (nth_error (conss s) c) as [x|]; [|exact H].
  destruct (ck x), (cpcv x); try exact H; try (now apply InvE_acc_s1).
  3:{ destruct (negb (Nat.eqb (ac_nonce x) (ac_snap x))); [now apply InvE_acc_s1|]. destruct (ccanc x); [now apply InvE_acc_ret | exact H]. }
  - destruct (cw_res x) as [[v e]|]; [destruct (Nat.eqb e 0); [apply InvE_setc; [exact H | intros; discriminate] | now apply InvE_cons_fail]
                                     | destruct (ccanc x); [now apply InvE_cons_fail | exact H]].
  - destruct (ww_prom x) as [[v e]|]; [destruct (Nat.eqb e 0); [apply InvE_setc; [exact H | intros; discriminate] | now apply InvE_cons_fail]
                                      | destruct (ccanc x); [now apply InvE_cons_fail | exact H]].
Qed.

Lemma InvE_cb_return fx s c res : InvE s -> InvE (cb_return fx s c res).
Proof.
  intros H. unfold cb_return. destruct (nth_error (conss s) c) as [x|]; [|exact H].
  destruct (ck x); try exact H. destruct (cpcv x); try exact H.
  destruct (ccanc x); [now apply InvE_acc_ret|].
  match goal with |- InvE (if ?b then _ else _) => destruct b end; [now apply InvE_acc_ret | apply InvE_setc; [exact H | intros; discriminate]].
Qed.

Lemma InvE_remove_ref s r : InvE s -> InvE (remove_ref s r).
Proof.
  intros H. apply (S_remove_ref InvE InvE_Qext InvE_Qinv); [exact H|]. intros x _ _. now apply (InvE_ext s).
Qed.

Lemma InvE_add_ref s k : InvE s -> InvE (add_ref repaired s k).
Proof. intros H. apply (S_add_ref InvE InvE_Qext InvE_Qinv). now apply (InvE_ext s). Qed.

Lemma step_InvE s e : InvE s -> InvE (step repaired s e).
Proof.
  intros H. destruct e; try (apply (S_step_container InvE InvE_Qext InvE_Qinv); [exact I | exact H]); cbn [step].
  - now apply InvE_add_ref.
  - destruct (rkind (nth r (refs s) ref0)); try exact H.
    all: unfold release_call; destruct (release_call_by_cases s r None) as [E|[_ [E2 E3]]]; [rewrite E; exact H|];
      intros c1 x1 e1 Hx Hp; rewrite E3; apply in_or_app; left; rewrite E2 in Hx; exact (H c1 x1 e1 Hx Hp).
  - unfold release_section. destruct (nth_error (relacts s) a) as [x|] eqn:Ex; [|exact H]. destruct (ra_pc x); [|exact H].
    set (sa := set_relacts s _).
    assert (Ha : InvE sa).
    { intros c z e Hz Hp. unfold raref, sa. cbn [relacts set_relacts]. rewrite (map_ra_ref_set _ _ x) by auto. exact (H c z e Hz Hp). }
    assert (H1 : InvE (remove_ref sa (ra_ref x))) by (now apply InvE_remove_ref).
    set (s1 := remove_ref sa (ra_ref x)) in *. destruct (ra_cons x) as [c|]; [|exact H1].
    destruct (cpcv (getc s1 c)); try exact H1. change (set_conss s1 (set_nth (conss s1) c ?y)) with (setc s1 c y).
    apply InvE_setc; [exact H1|]. intros e' Ec. cbn [cpcv with_cpc] in Ec. destruct (ck (getc s1 c)); discriminate.
  - unfold start_consumer. apply InvE_add_ref. intros c x e Hx Hp. cbn [conss set_conss] in Hx. change (raref (set_conss s _)) with (raref s).
    destruct (nth_error_snoc_cases _ _ _ _ Hx) as [[_ H0]|[_ ->]]; [exact (H c x e H0 Hp) | discriminate].
  - now apply InvE_cons_step.
  - destruct (nth_error (conss s) c) as [x|] eqn:Ex; [|exact H]. apply InvE_setc; [exact H|]. intros e Hp. cbn [cpcv cref] in *. exact (H c x e Ex Hp).
  - unfold fire_section. destruct (nth_error (conss s) c) as [x|] eqn:Ex; [|exact H]. destruct (ww_firepc x) as [[|]|]; try exact H.
    apply InvE_remove_ref. apply InvE_setc; [exact H|]. intros e Hp. cbn [cpcv cref with_fire] in *. exact (H c x e Ex Hp).
  - now apply InvE_cb_return.
  - destruct (Nat.eqb c 0); [exact H|]. destruct (cancel_root_frame s c) as [_ [E2 [E3 _]]]. now apply (InvE_ext s).
  - destruct (watch_step_spec s c) as [->|[x [y [Hx [-> Hy]]]]]; [exact H|]. wsplit Hy. apply InvE_setc; [exact H|].
    intros e Hp. rewrite Wcpcv in Hp. rewrite Wcref. exact (H c x e Hx Hp).
Qed.

Theorem run_InvE k es : InvE (run repaired (init k) es).
Proof. unfold run. apply fold_inv; [intros s e; apply step_InvE | intros [|c] x e H; discriminate]. Qed.

(* ------------------------------------------------------------------ *)
(* program points of an Access consumer across one section: unchanged, except for the return of its own callback and the
   removeRef section of its own Release *)
Definition Qkp (i n : nat) (k : ckind) (p0 : cpc) (l : list cons) : Prop :=
  length l = n /\ ck (nth i l cons0) = k /\ cpcv (nth i l cons0) = p0.

Lemma invoke_Qkp i n k p0 s r nt : Qkp i n k p0 (conss s) -> Qkp i n k p0 (conss (invoke s r nt)).
Proof.
  unfold Qkp. fold (getc s i) (getc (invoke s r nt) i). intros [H1 [H2 H3]]. destruct (invoke_cq s r nt i) as [E1 [E2 _]].
  destruct (fp_invoke s r nt) as [_ [_ [F3 _]]]. split; [congruence|]. split; congruence.
Qed.

Lemma Qkp_set i n k p0 l c y : Qkp i n k p0 l -> (c = i -> ck y = k /\ cpcv y = p0) -> Qkp i n k p0 (set_nth l c y).
Proof.
  unfold Qkp. intros [H1 [H2 H3]] Hy. rewrite length_set_nth. split; [exact H1|].
  destruct (Nat.lt_ge_cases c (length l)) as [Hl|Hl]; [|rewrite set_nth_oob by exact Hl; auto].
  destruct (Nat.eq_dec i c) as [->|Hne]; [rewrite nth_set_nth_same by exact Hl; now apply Hy | rewrite nth_set_nth_other by exact Hne; auto].
Qed.

Lemma sect_pc_all s e i :
  i < length (conss s) -> ck (getc s i) = CKAccess -> (forall c, e <> EConsStep c) ->
  cpcv (getc (step repaired s e) i) = cpcv (getc s i) \/
  ((exists res, e = ECbReturn i res) /\ is_cb (cpcv (getc s i)) = true) \/
  (exists code, cpcv (getc s i) = CRel code /\ cpcv (getc (step repaired s e) i) = CAccRet code).
Proof.
  intros Hi Hk Hne.
  assert (Keep : Qkp i (length (conss s)) CKAccess (cpcv (getc s i)) (conss s)) by (unfold Qkp; auto).
  destruct e as [c0|k|r|a|g|a|g en|g v hr er|g|k|c0|c0|c0|c0 res|c0|c0]; try (left; apply sect_pc_container; exact I); cbn [step].
  - (* removeRef section *)
    unfold release_section. destruct (nth_error (relacts s) a) as [x|]; [|now left]. destruct (ra_pc x); [|now left].
    set (s1 := remove_ref _ (ra_ref x)).
    assert (H1 : Qkp i (length (conss s)) CKAccess (cpcv (getc s i)) (conss s1)) by (apply (Q_remove_ref _ (invoke_Qkp i _ _ _)); exact Keep).
    unfold Qkp in H1. fold (getc s1 i) in H1. destruct H1 as [L1 [K1 P1]].
    destruct (ra_cons x) as [c1|]; [|now left]. destruct (cpcv (getc s1 c1)) eqn:Ec; try (now left).
    change (set_conss s1 (set_nth (conss s1) c1 ?y)) with (setc s1 c1 y).
    destruct (Nat.eq_dec i c1) as [<-|Hn1].
    + right. right. exists e. rewrite <- P1, Ec. split; [reflexivity|]. rewrite getc_setc, Nat.eqb_refl by lia. rewrite K1. reflexivity.
    + left. rewrite getc_setc_other by exact Hn1. exact P1.
  - (* a new consumer *)
    left. unfold start_consumer. set (s0 := set_conss s _).
    assert (K0 : Qpc i (cpcv (getc s i)) (conss s0)) by (unfold Qpc, s0; cbn [conss set_conss]; now rewrite app_nth1).
    match goal with |- context [add_ref repaired s0 ?kk] => pose proof (Q_add_ref _ (invoke_Qpc i _) s0 kk K0) as H1 end.
    exact H1.
  - exfalso. exact (Hne c0 eq_refl).
  - left. destruct (nth_error (conss s) c0) as [x|] eqn:Ex; [|reflexivity].
    destruct (getc_nth_error s c0 x Ex) as [Eg Hl]. rewrite getc_setc by exact Hl. destruct (Nat.eqb_spec i c0) as [->|]; [now rewrite Eg | reflexivity].
  - left. unfold fire_section. destruct (nth_error (conss s) c0) as [x|] eqn:Ex; [|reflexivity]. destruct (ww_firepc x) as [[|]|]; try reflexivity.
    assert (K0 : Qpc i (cpcv (getc s i)) (conss (setc s c0 (with_fire x (S (ww_fired x)) (Some RDone))))).
    { rewrite conss_setc. apply Qpc_set; [reflexivity|]. intros ->. now rewrite (getc_x s i x Ex). }
    exact (Q_remove_ref _ (invoke_Qpc i _) _ (cref x) K0).
  - (* a callback returns *)
    destruct (Nat.eq_dec i c0) as [->|Hn0]; [|left; now rewrite cb_return_other].
    destruct (is_cb (cpcv (getc s c0))) eqn:Ecb; [right; left; split; [eauto | reflexivity]|]. left.
    unfold cb_return. destruct (nth_error (conss s) c0) as [x|] eqn:Ex; [|reflexivity].
    rewrite (getc_x s c0 x Ex) in Ecb, Hk. rewrite Hk. destruct (cpcv x); try reflexivity. discriminate Ecb.
  - left. destruct (watch_step_spec s c0) as [->|[x [y [Hx [-> Hy]]]]]; [reflexivity|]. wsplit Hy. destruct (getc_nth_error s c0 x Hx) as [Eg Hl].
    rewrite getc_setc by exact Hl. destruct (Nat.eqb_spec i c0) as [->|]; [now rewrite Eg | reflexivity].
Qed.

(* ------------------------------------------------------------------ *)
(* sections that only ever say "gone" *)
Section GonePres.
  Variable Q : list cons -> Prop.
  Hypothesis Qgone : forall s r, Q (conss s) -> Q (conss (invoke s r NGone)).

  Lemma G_cbs_fold rs : forall s, Q (conss s) -> Q (conss (fold_left (cbs_fold NGone) rs s)).
  Proof.
    induction rs as [|r rs IH]; intros s H; [exact H|]. cbn [fold_left]. apply IH. unfold cbs_fold.
    destruct (rin (nth r (refs s) ref0)); [now apply Qgone | exact H].
  Qed.

  Lemma G_clear_resolved s : Q (conss s) -> Q (conss (clear_resolved s)).
  Proof.
    intros H. unfold clear_resolved. set (s1 := if resolved s then _ else s).
    assert (H1 : Q (conss s1)) by (unfold s1; destruct (resolved s); [rewrite call_cbs_fold; apply G_cbs_fold; exact H | exact H]).
    set (s2 := set_rcancel (cancel_g s1 (rcancel s1)) None).
    assert (E : conss s2 = conss s1) by (unfold s2; cbn [conss set_rcancel]; apply conss_cancel_g).
    destruct (vrel s2); [change (Q (conss s2))|]; now rewrite E.
  Qed.

  Lemma G_start_resolve s : Q (conss s) -> Q (conss (start_resolve s)).
  Proof.
    intros H. unfold start_resolve. assert (H1 : Q (conss (shutdown s))) by (unfold shutdown; now apply G_clear_resolved).
    set (s1 := shutdown s) in *. destruct (Nat.eqb (kctx s1) 0 || Nat.eqb (nrefs s1) 0); exact H1.
  Qed.

  Lemma G_remove_ref s r : Q (conss s) -> Q (conss (remove_ref s r)).
  Proof.
    intros H. unfold remove_ref. destruct (nth_error (refs s) r) as [x|]; [|exact H]. destruct (rin x); [|exact H].
    set (s1 := set_refs s _). assert (H1 : Q (conss s1)) by exact H.
    destruct (Nat.eqb (nrefs s1) 0 && _); [unfold shutdown; now apply G_clear_resolved | exact H1].
  Qed.

  Lemma G_released_section s n : Q (conss s) -> Q (conss (released_section s n)).
  Proof. intros H. unfold released_section. destruct (Nat.eqb (nonce s) n); [now apply G_start_resolve | exact H]. Qed.
End GonePres.

(* a reference callback that belongs to another consumer (or to none) does not touch consumer i *)
Lemma invoke_other s r n i :
  (forall c, cons_of_kind (rkind (nth r (refs s) ref0)) = Some c -> c <> i) -> getc (invoke s r n) i = getc s i.
Proof.
  intros Hk. unfold invoke. destruct (nth_error (refs s) r) as [x|] eqn:E; [|reflexivity].
  rewrite (nth_error_nth_d _ _ ref0 _ E) in Hk.
  destruct (rkind x) as [| | |c|c|c] eqn:K; cbn [cons_of_kind] in Hk.
  - reflexivity.
  - apply getc_set_last.
  - destruct n; [apply getc_set_last|]. change (getc (set_asyncs ?a ?b) i) with (getc a i). apply getc_set_last.
  - rewrite getc_setc_other by (intros Ei; exact (Hk c eq_refl (eq_sym Ei))). apply getc_set_last.
  - destruct (cb_wwr (getc (set_last s r n) c) n (nonce (set_last s r n))) as [y fired].
    destruct fired; [destruct (rflag x)|]; rewrite getc_setc_other by (intros Ei; exact (Hk c eq_refl (eq_sym Ei))); try apply getc_set_last.
  - rewrite getc_setc_other by (intros Ei; exact (Hk c eq_refl (eq_sym Ei))). apply getc_set_last.
Qed.

(* the part of Access's bookkeeping that reference callbacks write and that section S1 reads *)
Definition acn (x : cons) := (ac_res x, ac_val x, ac_err x, ac_nonce x, ac_snap x).
Lemma acn_fields x y : acn y = acn x -> ac_res y = ac_res x /\ ac_val y = ac_val x /\ ac_err y = ac_err x /\ ac_nonce y = ac_nonce x /\ ac_snap y = ac_snap x.
Proof. unfold acn. intros H. inversion H. repeat split; reflexivity. Qed.
Lemma acf_acn x y : acf y = acf x -> acn y = acn x.
Proof. intros H. destruct (acf_fields _ _ H) as [E1 [E2 [E3 [E4 [E5 _]]]]]. unfold acn. now rewrite E1, E2, E3, E4, E5. Qed.

Definition Qgn (i : nat) (a0 : bool * nat * nat * nat * nat) (l : list cons) : Prop :=
  acn (nth i l cons0) = a0 \/ ac_res (nth i l cons0) = false.

Lemma Qgn_gone i a0 s r : Qgn i a0 (conss s) -> Qgn i a0 (conss (invoke s r NGone)).
Proof.
  unfold Qgn. fold (getc s i) (getc (invoke s r NGone) i). intros H.
  destruct (invoke_acf s r NGone i) as [E|E]; [destruct (acf_fields _ _ E) as [E1 _]; rewrite (acf_acn _ _ E), E1; exact H|].
  destruct (acf_fields _ _ E) as [E1 _]. apply acf_acn in E. unfold cb_access in E, E1.
  destruct (Bool.eqb false (ac_res (getc s i)) && Nat.eqb 0 (ac_val (getc s i)) && Nat.eqb 0 (ac_err (getc s i))).
  - rewrite E, E1. exact H.
  - right. exact E1.
Qed.

Lemma Qgn_acf i a0 l l' : acn (nth i l' cons0) = acn (nth i l cons0) -> Qgn i a0 l -> Qgn i a0 l'.
Proof. unfold Qgn. intros E. destruct (acn_fields _ _ E) as [E1 _]. now rewrite E, E1. Qed.

Lemma Qgn_add_ref i a0 s k :
  (forall c, cons_of_kind k = Some c -> c <> i) -> Qgn i a0 (conss s) -> Qgn i a0 (conss (add_ref repaired s k)).
Proof.
  intros Hk H. unfold add_ref. set (s1 := set_refs s _). assert (H1 : Qgn i a0 (conss s1)) by exact H.
  destruct (Nat.eqb (nrefs s1) 1 && negb (resolved s1)); [apply (G_start_resolve _ (Qgn_gone i a0)); exact H1|].
  destruct (resolved s1); [|exact H1].
  assert (Inv : Qgn i a0 (conss (invoke s1 (length (refs s)) (NRes (value s1) (verr s1))))).
  { apply (Qgn_acf i a0 (conss s1)); [|exact H1]. fold (getc s1 i) (getc (invoke s1 (length (refs s)) (NRes (value s1) (verr s1))) i).
    rewrite invoke_other; [reflexivity|]. unfold s1. cbn [refs set_refs]. rewrite app_nth2 by lia. rewrite Nat.sub_diag. cbn [nth rkind]. exact Hk. }
  destruct k; cbn [fx_nilcb repaired]; try exact H1; exact Inv.
Qed.

(* a section that is not a store section leaves the Access bookkeeping of consumer i alone, or has told it "gone" *)
Lemma sect_acf s e i :
  i < length (conss s) -> (forall c, e <> EConsStep c) -> (forall g, e <> EStore g) ->
  acn (getc (step repaired s e) i) = acn (getc s i) \/ ac_res (getc (step repaired s e) i) = false.
Proof.
  intros Hi Hne Hns. set (a0 := acn (getc s i)).
  assert (H : Qgn i a0 (conss s)) by (left; reflexivity).
  change (Qgn i a0 (conss (step repaired s e))).
  pose proof (Qgn_gone i a0) as QG.
  destruct e as [c0|k|r|a|g|a|g en|g v hr er|g|k|c0|c0|c0|c0 res|c0|c0]; cbn [step].
  - unfold set_context. destruct (Nat.eqb (kctx s) c0); [exact H|]. cbn [fst]. now apply (G_start_resolve _ QG).
  - apply Qgn_add_ref; [|exact H]. intros c Hc. destruct k as [|[|k]]; discriminate.
  - destruct (rkind (nth r (refs s) ref0)); try exact H; unfold release_call; now rewrite conss_release_call_by.
  - unfold release_section. destruct (nth_error (relacts s) a) as [x|]; [|exact H]. destruct (ra_pc x); [|exact H].
    set (s1 := remove_ref _ (ra_ref x)). assert (H1 : Qgn i a0 (conss s1)) by (apply (G_remove_ref _ QG); exact H).
    destruct (ra_cons x) as [c|]; [|exact H1]. destruct (cpcv (getc s1 c)) eqn:Ec; try exact H1.
    cbn [conss set_conss]. apply (Qgn_acf i a0 (conss s1)); [|exact H1].
    destruct (Nat.lt_ge_cases c (length (conss s1))) as [Hl|Hl]; [|now rewrite set_nth_oob].
    destruct (Nat.eq_dec i c) as [->|Hn]; [rewrite nth_set_nth_same by exact Hl; reflexivity | now rewrite nth_set_nth_other].
  - destruct (nth_error (gs s) g); [now apply (G_released_section _ QG) | exact H].
  - unfold async_section. destruct (nth_error (asyncs s) a) as [x|]; [|exact H]. destruct (as_pc x); [|exact H].
    now apply (G_released_section _ QG).
  - now rewrite conss_proceed.
  - unfold resolver_return. destruct (nth_error (gs s) g) as [x|]; [|exact H]. destruct (gpcv x); exact H.
  - exfalso. exact (Hns g eq_refl).
  - unfold start_consumer. apply Qgn_add_ref.
    + intros c Hc. assert (c = length (conss s)) by (destruct k as [|[|k]]; cbn in Hc; congruence). lia.
    + cbn [conss set_conss]. unfold Qgn. rewrite app_nth1 by exact Hi. exact H.
  - exfalso. exact (Hne c0 eq_refl).
  - destruct (nth_error (conss s) c0) as [x|] eqn:Ex; [|exact H]. rewrite conss_setc. apply (Qgn_acf i a0 (conss s)); [|exact H].
    destruct (getc_nth_error s c0 x Ex) as [Eg Hl]. destruct (Nat.eq_dec i c0) as [->|Hn]; [rewrite nth_set_nth_same by exact Hl; fold (getc s c0); now rewrite Eg | now rewrite nth_set_nth_other].
  - unfold fire_section. destruct (nth_error (conss s) c0) as [x|] eqn:Ex; [|exact H]. destruct (ww_firepc x) as [[|]|]; try exact H.
    apply (G_remove_ref _ QG). rewrite conss_setc. apply (Qgn_acf i a0 (conss s)); [|exact H].
    destruct (getc_nth_error s c0 x Ex) as [Eg Hl]. destruct (Nat.eq_dec i c0) as [->|Hn]; [rewrite nth_set_nth_same by exact Hl; fold (getc s c0); now rewrite Eg | now rewrite nth_set_nth_other].
  - apply (Qgn_acf i a0 (conss s)); [|exact H]. apply acf_acn, map_acf_nth. apply (cfd_cb_return acf); reflexivity.
  - destruct (Nat.eqb c0 0); [exact H|]. destruct (cancel_root_frame s c0) as [_ [_ [E _]]]. now rewrite E.
  - destruct (watch_step_spec s c0) as [->|[x [y [Hx [-> Hy]]]]]; [exact H|]. wsplit Hy. rewrite conss_setc. apply (Qgn_acf i a0 (conss s)); [|exact H].
    destruct (getc_nth_error s c0 x Hx) as [Eg Hl]. destruct (Nat.eq_dec i c0) as [->|Hn]; [|now rewrite nth_set_nth_other].
    rewrite nth_set_nth_same by exact Hl. fold (getc s c0). rewrite Eg. unfold acn. now rewrite Wares, Waval, Waerr, Wanonce, Wasnap.
Qed.

(* ------------------------------------------------------------------ *)
(* the eager schedule, seen from one Access consumer *)
Definition aloop (x y : cons) : Prop :=
  if negb (Nat.eqb (ac_err x) 0) then cpcv y = CRel (ac_err x) \/ cpcv y = CAccRet (ac_err x)
  else if ac_res x then cpcv y = CAccCb (ac_val x) /\ ac_cbcanc y = false /\ ac_nonce y = ac_snap y
  else if ccanc x then cpcv y = CRel 1 \/ cpcv y = CAccRet 1
  else cpcv y = CAccWait /\ ac_nonce y = ac_snap y.

Lemma settle_acc s i : i < length (conss s) -> ck (getc s i) = CKAccess ->
  ck (getc (settle s) i) = CKAccess /\ cref (getc (settle s) i) = cref (getc s i) /\ ccanc (getc (settle s) i) = ccanc (getc s i) /\
  match cpcv (getc s i) with
  | CBlocked => aloop (getc s i) (getc (settle s) i)
  | CAccWait => if Nat.eqb (ac_nonce (getc s i)) (ac_snap (getc s i))
                then (if ccanc (getc s i) then cpcv (getc (settle s) i) = CRel 1 \/ cpcv (getc (settle s) i) = CAccRet 1 else getc (settle s) i = getc s i)
                else aloop (getc s i) (getc (settle s) i)
  | _ => getc (settle s) i = getc s i
  end.
Proof.
  intros Hi Hk. pose proof (settle_vw s) as V.
  assert (V1 : ck (getc (settle s) i) = ck (getc s i)) by (apply (map_nth_getc ck s (settle s) i); exact (f_equal v_ck V)).
  assert (V2 : cref (getc (settle s) i) = cref (getc s i)) by (apply (map_nth_getc cref s (settle s) i); exact (f_equal v_cref V)).
  assert (V3 : ccanc (getc (settle s) i) = ccanc (getc s i)) by (apply (map_nth_getc ccanc s (settle s) i); exact (f_equal v_ccanc V)).
  split; [congruence|]. split; [exact V2|]. split; [exact V3|].
  destruct (settle_getc s i Hi) as [sX [A [B C]]]. rewrite C.
  assert (Hx : nth_error (conss sX) i = Some (getc s i)) by (rewrite <- A; apply nth_error_getc; lia).
  assert (Idle : (match cpcv (getc s i) with CBlocked | CAccWait => False | _ => True end) -> cons_step sX i = sX).
  { intros Hp. unfold cons_step. rewrite Hx, Hk. destruct (cpcv (getc s i)); try reflexivity; contradiction. }
  destruct (cpcv (getc s i)) eqn:Ep; try (rewrite Idle by exact I; exact A).
  - exact (access_loop_step sX i _ Hx Hk (or_introl Ep)).
  - destruct (Nat.eqb_spec (ac_nonce (getc s i)) (ac_snap (getc s i))) as [En|En].
    + destruct (ccanc (getc s i)) eqn:Ec; [exact (access_wait_cancelled sX i _ Hx Hk Ep En Ec)|].
      unfold cons_step. rewrite Hx, Hk, Ep, En, Nat.eqb_refl, Ec. cbn [negb]. exact A.
    + exact (access_loop_step sX i _ Hx Hk (or_intror (conj Ep En))).
Qed.
