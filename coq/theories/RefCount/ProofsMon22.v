(* refcount: the monitors tied to the model, part 22: the Access judge of Spec.mon1, all of it, in every configuration:
   the books (inside the callback / its context cancelled / invalidated since the invocation started / decided to return,
   with which code and why) against the model state, and the clauses 10.4 - 10.7 on the model's own observations. *)
From Util Require Import Common.Base Common.ListLemmas RefCount.Model RefCount.Spec RefCount.Proofs RefCount.ProofsC08 RefCount.ProofsC08b
  RefCount.ProofsC09 RefCount.ProofsC10 RefCount.ProofsC10a RefCount.ProofsC10b RefCount.ProofsCodec RefCount.ProofsMon RefCount.ProofsMon2 RefCount.ProofsMon3
  RefCount.ProofsMon4 RefCount.ProofsMon5 RefCount.ProofsMon6 RefCount.ProofsMon7 RefCount.ProofsMonG RefCount.ProofsMon8 RefCount.ProofsMon9 RefCount.ProofsMon10
  RefCount.ProofsMon11 RefCount.ProofsMon12 RefCount.ProofsMon13 RefCount.ProofsMon14 RefCount.ProofsMon15 RefCount.ProofsMon16 RefCount.ProofsMon17 RefCount.ProofsMonE
  RefCount.ProofsMon18 RefCount.ProofsMon19 RefCount.ProofsMon20 RefCount.ProofsMon21.
Open Scope nat_scope.

(* ------------------------------------------------------------------ *)
(* the judge, every piece *)
Definition j_decided (adec : option (N * bool)) : bool := match adec with Some _ => true | None => false end.

Section JudgePieces2.
  Variables (m : mst) (e : list N) (p : pobs).
  Definition j_decnow (r : nat) (adec : option (N * bool)) (code : N) : bool :=
    negb (j_decided adec) && (existsb (Nat.eqb r) (u_raref p) || N.eqb code 3).
  Definition j_fromcb (i : nat) (ccb ainv : bool) : bool := j_mine e i && negb ccb && negb ainv.
  Definition j_rc (acanc : bool) : N := (match e with [13; _; res] => if N.eqb res 1 then nb acanc else res | _ => 0 end)%N.
  Definition j_expected (i : nat) (acanc ainv ccb : bool) : N :=
    (if j_mine e i && ccb then 1 else if j_fromcb i ccb ainv then j_rc acanc else if nz (u_cur_err m e p) then u_cur_err m e p else 1)%N.
  Definition j_adec (i r : nat) (acanc ainv ccb : bool) (adec : option (N * bool)) (code : N) : option (N * bool) :=
    if j_decnow r adec code then Some (j_expected i acanc ainv ccb, j_fromcb i ccb ainv) else adec.
  Definition j_rest (i r : nat) (acanc ainv ccb : bool) (adec : option (N * bool)) (ccn : bool) (code v : N) : list (nat * nat) :=
    (fails 10 6 (negb (j_decnow r adec code && j_mine e i && negb ccb) || negb ainv || nz (u_cur_err m e p)) ++
     fails 10 6 (match j_adec i r acanc ainv ccb adec code with Some (x, true) => negb (N.eqb code 3) || N.eqb v x | _ => true end) ++
     fails 10 6 (negb (u_quiet p && negb (j_decided (j_adec i r acanc ainv ccb adec code)) && negb ccn &&
                       match u_cur m e p with Some (_, e0) => N.eqb e0 0 | None => false end) || N.eqb code 6) ++
     fails 10 7 (negb (j_decnow r adec code && negb (j_mine e i)) || ccn || nz (u_cur_err m e p)) ++
     fails 10 7 (match j_adec i r acanc ainv ccb adec code with Some (x, false) => negb (N.eqb code 3) || N.eqb v x | _ => true end) ++
     fails 10 7 (negb (u_quiet p && negb (j_decided (j_adec i r acanc ainv ccb adec code)) && nz (u_cur_err m e p)) || N.eqb code 6))%list.

  Lemma judge_full i acb acanc ainv ccb adec k r ccn code v e1 hh f1 f2 :
    u_judge m e p (i, ((acb, acanc, ainv, ccb, adec), ((k, r), (ccn, (code, v, e1, hh, f1, f2))))) =
    if negb (N.eqb k 2) then (false, false, false, None, [])
    else (N.eqb code 6, N.eqb code 6 && nz hh, j_inv m e p i acb ainv code, j_adec i r acanc ainv ccb adec code,
          (j_c4 m e p i acb code v ++ j_c5 m e p i acb ainv code hh f2 ++ j_rest i r acanc ainv ccb adec ccn code v)%list).
  Proof. reflexivity. Qed.

  Lemma j_rest_nil i r acanc ainv ccb adec ccn code v :
    (j_decnow r adec code && j_mine e i && negb ccb = true -> negb ainv || nz (u_cur_err m e p) = true) ->
    (j_decnow r adec code && negb (j_mine e i) = true -> ccn || nz (u_cur_err m e p) = true) ->
    (forall x b, j_adec i r acanc ainv ccb adec code = Some (x, b) -> negb (N.eqb code 3) || N.eqb v x = true) ->
    (j_decided (j_adec i r acanc ainv ccb adec code) = true \/ N.eqb code 6 = true \/ u_cur m e p = None) ->
    j_rest i r acanc ainv ccb adec ccn code v = [].
  Proof.
    intros H6 H7 Hr Hq. unfold j_rest.
    assert (E1 : negb (j_decnow r adec code && j_mine e i && negb ccb) || negb ainv || nz (u_cur_err m e p) = true).
    { destruct (j_decnow r adec code && j_mine e i && negb ccb); [cbn [negb orb]; now apply H6 | reflexivity]. }
    assert (E4 : negb (j_decnow r adec code && negb (j_mine e i)) || ccn || nz (u_cur_err m e p) = true).
    { destruct (j_decnow r adec code && negb (j_mine e i)); [cbn [negb orb]; now apply H7 | reflexivity]. }
    assert (E2 : match j_adec i r acanc ainv ccb adec code with Some (x, true) => negb (N.eqb code 3) || N.eqb v x | _ => true end = true).
    { destruct (j_adec i r acanc ainv ccb adec code) as [[x [|]]|] eqn:Ea; try reflexivity. exact (Hr x true eq_refl). }
    assert (E5 : match j_adec i r acanc ainv ccb adec code with Some (x, false) => negb (N.eqb code 3) || N.eqb v x | _ => true end = true).
    { destruct (j_adec i r acanc ainv ccb adec code) as [[x [|]]|] eqn:Ea; try reflexivity. exact (Hr x false eq_refl). }
    assert (E3 : negb (u_quiet p && negb (j_decided (j_adec i r acanc ainv ccb adec code)) && negb ccn &&
                       match u_cur m e p with Some (_, e0) => N.eqb e0 0 | None => false end) || N.eqb code 6 = true).
    { destruct Hq as [Hq|[Hq|Hq]]; rewrite Hq; [|apply orb_true_r|].
      - cbn [negb]. rewrite andb_false_r. reflexivity.
      - rewrite andb_false_r. reflexivity. }
    assert (E6 : negb (u_quiet p && negb (j_decided (j_adec i r acanc ainv ccb adec code)) && nz (u_cur_err m e p)) || N.eqb code 6 = true).
    { destruct Hq as [Hq|[Hq|Hq]]; [rewrite Hq | rewrite Hq; apply orb_true_r | unfold u_cur_err; rewrite Hq].
      - cbn [negb]. rewrite andb_false_r. reflexivity.
      - cbn [nz N.eqb negb]. rewrite andb_false_r. reflexivity. }
    rewrite E1, E2, E3, E4, E5, E6. reflexivity.
  Qed.
End JudgePieces2.

Lemma dec_cbret_rc h e e0 rets i res acanc :
  dec h e e0 rets -> e0 = ECbReturn i res -> j_rc e acanc = nn (match res with 1 => if acanc then 1 else 0 | _ => res end).
Proof.
  intros Hd E. destruct Hd; try discriminate E. inversion E; subst.
  destruct H2 as [->|[->|[->| ->]]]; destruct acanc; reflexivity.
Qed.

(* ------------------------------------------------------------------ *)
(* the Access books against the model state (a state the eager schedule has left) *)
Definition adec_ok (s : st) (i : nat) (a : option (N * bool)) : Prop :=
  match a with
  | None => attached_pc (cpcv (getc s i)) = true
  | Some (x, _) => exists c, x = nn c /\ (cpcv (getc s i) = CRel c \/ cpcv (getc s i) = CAccRet c)
  end.

Record Racc2 (m : mst) (s : st) : Prop := {
  r2_acb : forall i, nth i (m_acb m) false = match ck (getc s i) with CKAccess => is_cb (cpcv (getc s i)) | _ => false end;
  r2_acanc : forall i, ck (getc s i) = CKAccess -> is_cb (cpcv (getc s i)) = true ->
                       nth i (m_acanc m) false = ac_cbcanc (getc s i) || ccanc (getc s i);
  r2_ainv : forall i, ck (getc s i) = CKAccess -> is_cb (cpcv (getc s i)) = true ->
                      (nth i (m_ainv m) false = true <-> ac_nonce (getc s i) <> ac_snap (getc s i));
  r2_adec : forall i, i < length (conss s) -> ck (getc s i) = CKAccess -> adec_ok s i (nth i (m_adec m) None);
  r2_adec_new : forall i, length (conss s) <= i -> nth i (m_adec m) None = None;
  r2_set : forall i, i < length (conss s) -> ck (getc s i) = CKAccess -> settled (getc s i);
}.

Lemma Racc2_Racc m s : Racc2 m s -> Racc m s.
Proof. intros H. constructor; [exact (r2_acb m s H) | intros i Hi Hk Hp; now apply (r2_ainv m s H i Hk Hp)]. Qed.

Lemma ccode_pc x code v e1 hh f1 f2 c : ccode6 x = (code, v, e1, hh, f1, f2) -> (cpcv x = CRel c \/ cpcv x = CAccRet c) ->
  negb (N.eqb code 3) || N.eqb v (nn c) = true.
Proof.
  unfold ccode6. intros Ec [Hp|Hp]; rewrite Hp in Ec; inversion Ec; subst; [reflexivity|]. rewrite !N.eqb_refl. reflexivity.
Qed.

Section AccAll.
  Variables (m : mst) (h : hst) (e : list N) (e0 : ev) (rets : list N).
  Hypothesis HRh : HR h.
  Hypothesis HCh : HRc h.
  Hypothesis HP : Rproj m h.
  Hypothesis Hd : dec h e e0 rets.
  Hypothesis Hcur : m_cur m = cur_of (hs h).
  Hypothesis Hem : Rempty m (hs h).
  Hypothesis HA : Racc2 m (hs h).
  Local Notation s := (hs h).
  Local Notation s1 := (step repaired (hs h) e0).
  Local Notation s' := (settle (step repaired (hs h) e0)).
  Local Notation p := (pobs_of rets (settle (step repaired (hs h) e0)) (hrel h)).
  Local Notation h' := {| hs := settle (step repaired (hs h) e0); hrel := length (rellog (settle (step repaired (hs h) e0))); hconst := hconst h |}.

  Lemma HR' : HR h'. Proof. exact (HR2 h e e0 rets HRh Hd). Qed.
  Lemma Ecur' : u_cur m e p = cur_of s'. Proof. exact (upd_cur_c m h e e0 rets HCh HP Hd Hcur Hem). Qed.

  Lemma not_store g : e0 <> EStore g \/ resolved s = false.
  Proof.
    destruct Hd; try (left; discriminate). right. eapply (store_unresolved h HCh); eauto.
  Qed.

  (* 10.4, 10.5, and the books "inside the callback" / "its context cancelled" / "invalidated since it started" *)
  Lemma acc_row_c i : i < length (conss s') -> ck (getc s' i) = CKAccess ->
    forall code v e1 hh f1 f2, ccode6 (getc s' i) = (code, v, e1, hh, f1, f2) ->
    N.eqb code 6 = is_cb (cpcv (getc s' i)) /\
    (is_cb (cpcv (getc s' i)) = true -> nz hh = ac_cbcanc (getc s' i) || ccanc (getc s' i)) /\
    j_c4 m e p i (nth i (m_acb m) false) code v = [] /\
    j_c5 m e p i (nth i (m_acb m) false) (nth i (m_ainv m) false) code hh f2 = [] /\
    (is_cb (cpcv (getc s' i)) = true ->
     (j_inv m e p i (nth i (m_acb m) false) (nth i (m_ainv m) false) code = true <-> ac_nonce (getc s' i) <> ac_snap (getc s' i))).
  Proof.
    intros Hi Hk code v e1 hh f1 f2 Ec. unfold ccode6 in Ec. pose proof HR' as HR'. pose proof (Racc2_Racc m s HA) as HAo.
    assert (NotCb : is_cb (cpcv (getc s' i)) = false -> N.eqb code 6 = false ->
              N.eqb code 6 = is_cb (cpcv (getc s' i)) /\
              (is_cb (cpcv (getc s' i)) = true -> nz hh = ac_cbcanc (getc s' i) || ccanc (getc s' i)) /\
              j_c4 m e p i (nth i (m_acb m) false) code v = [] /\
              j_c5 m e p i (nth i (m_acb m) false) (nth i (m_ainv m) false) code hh f2 = [] /\
              (is_cb (cpcv (getc s' i)) = true ->
               (j_inv m e p i (nth i (m_acb m) false) (nth i (m_ainv m) false) code = true <-> ac_nonce (getc s' i) <> ac_snap (getc s' i)))).
    { intros E1 E2. unfold j_c4, j_c5, j_started. rewrite E1, E2. cbn [andb negb orb fails].
      split; [reflexivity|]. split; [intros Hx; discriminate Hx|]. split; [reflexivity|]. split; [reflexivity|]. intros Hx; discriminate Hx. }
    destruct (cpcv (getc s' i)) as [| |v1 e2 h1|v0| |code0] eqn:Ep; inversion Ec; subst; try (apply NotCb; reflexivity).
    (* inside the callback *)
    clear NotCb. split; [reflexivity|]. split; [intros _; apply nz_nb|]. unfold j_c4, j_c5, j_inv, j_started. cbn [N.eqb Pos.eqb andb is_cb].
    pose proof (dec_mine h e e0 rets i Hd) as Mine. fold (j_mine e i) in Mine.
    destruct (negb (nth i (m_acb m) false) || j_mine e i) eqn:St.
    - (* a fresh invocation *)
      assert (Hs : nth i (m_acb m) false = false \/ exists res, e0 = ECbReturn i res).
      { apply orb_true_iff in St. destruct St as [St|St]; [left; now apply negb_true_iff | right; now apply Mine]. }
      destruct (started_fresh m h e e0 rets HRh Hd HAo i Hi Hk ltac:(now rewrite Ep) Hs) as [Fc [Fn Fw]].
      destruct (HR_cur_val h' i v0 HR' Hi Hk Ep Fc Fw) as [Er [Ev Ee]]. cbn [hs] in Er, Ev, Ee.
      rewrite Ecur'. unfold cur_of. rewrite Er, Ee. rewrite (vofe_cur m h e e0 rets HCh HP Hd Hem Er Ee), <- Ev, !N.eqb_refl. cbn [negb orb andb fails]. split; [reflexivity|]. split; [reflexivity|]. intros _. split; [intros Hx; discriminate Hx | intros Hx; contradiction].
    - (* the invocation was running before this event and has not returned *)
      apply orb_false_iff in St. destruct St as [Sa Sm]. apply negb_false_iff in Sa.
      assert (Hn : forall res, e0 <> ECbReturn i res).
      { intros res E. assert (T : j_mine e i = true) by (apply Mine; eauto). congruence. }
      destruct (running_cb m h e e0 rets Hd HAo i Hi Hk ltac:(now rewrite Ep) Sa Hn) as [Hl [Hk0 [Hp0 [_ [Esn Enon]]]]].
      cbn [negb orb fails]. split; [reflexivity|]. rewrite Sa. cbn [andb].
      assert (At0 : attached_pc (cpcv (getc s i)) = true) by (destruct (cpcv (getc s i)); try discriminate Hp0; reflexivity).
      destruct (HR_mirror h i HRh Hl Hk0 At0) as [M0 _]. destruct (HR_mirror h' i HR' Hi Hk ltac:(cbn [hs]; now rewrite Ep)) as [M1 _]. cbn [hs] in M1.
      assert (Moved : (nth i (m_ainv m) false || match u_lost m e p with Some _ => true | None => false end) = true <->
                      ac_nonce (getc s' i) <> ac_snap (getc s' i)).
      { split.
        - intros Hinv. pose proof (HR_acc_ok h i HRh) as [K0 _]. apply orb_true_iff in Hinv. destruct Hinv as [Hinv|Hinv].
          + pose proof (proj1 (r2_ainv m s HA i Hk0 Hp0) Hinv) as Hne. destruct Enon as [[_ E]|E]; lia.
          + destruct (u_lost m e p) as [g|] eqn:El; [|discriminate].
            pose proof (lost_resolved_c m h e e0 rets Hd Hcur g El) as Er0. pose proof (lost_unresolved_c m h e e0 rets HCh HP Hd Hcur Hem g El) as Er1.
            destruct Enon as [[Ea _]|E]; [|lia]. unfold acont in Ea. inversion Ea. congruence.
        - intros Hne. destruct (nth i (m_ainv m) false) eqn:Ei; [reflexivity|]. cbn [orb].
          destruct (u_lost m e p) as [g|] eqn:El; [reflexivity|]. exfalso.
          (* nothing was seen: the section has not told this consumer anything *)
          assert (En0 : ac_nonce (getc s i) = ac_snap (getc s i)).
          { destruct (Nat.eq_dec (ac_nonce (getc s i)) (ac_snap (getc s i))) as [E|E]; [exact E|].
            pose proof (proj2 (r2_ainv m s HA i Hk0 Hp0) E). congruence. }
          pose proof (HR_acc_ok h i HRh) as [_ K0]. destruct (cpcv (getc s i)) as [| | |v2| |] eqn:Ep0; try discriminate Hp0.
          destruct K0 as [_ K0]. destruct (K0 En0) as [R1 _]. assert (Er0 : resolved s = true) by congruence.
          destruct (not_lost_same m h e e0 rets HCh HP Hd Hcur Hem Er0 El) as [Er1 _].
          assert (Hns : forall g, e0 <> EStore g) by (intros g; destruct (not_store g) as [N|N]; [exact N | congruence]).
          destruct (sect_pc s e0 i Hl Hk0 (dec_not_cons_step h e e0 rets Hd)) as [S1 _]. specialize (S1 ltac:(now rewrite Ep0) Hn).
          assert (Hi1 : i < length (conss s1)) by (now rewrite <- len_s1).
          assert (Hk1 : ck (getc s1 i) = CKAccess) by (now rewrite <- ck_s1).
          pose proof (settle_in_cb s1 i Hi1 Hk1 ltac:(now rewrite S1, Ep0)) as Ey.
          destruct (sect_acf s e0 i Hl (dec_not_cons_step h e e0 rets Hd) Hns) as [A|A].
          + destruct (acn_fields _ _ A) as [_ [_ [_ [A4 A5]]]]. rewrite Ey in Hne. congruence.
          + rewrite <- Ey in A. congruence. }
      split.
      + destruct (nth i (m_ainv m) false || _) eqn:Hinv; [|reflexivity]. pose proof (proj1 Moved eq_refl) as Mv.
        pose proof (HR_acc_ok h' i HR') as [_ K1]. cbn [hs] in K1. rewrite Ep in K1. destruct K1 as [K1 _].
        (* invalidated: the context is cancelled, or the watcher of the invocation is parked before its cbCancel() *)
        destruct (ac_wpark (getc s' i)) eqn:Ewp; [reflexivity|].
        assert (Efp : N.eqb (match ww_firepc (getc s' i) with Some RGate => 1 | Some RDone => 5 | None => 0 end) 1 = true \/
                      N.eqb (match ww_firepc (getc s' i) with Some RGate => 1 | Some RDone => 5 | None => 0 end) 1 = false)
          by (destruct (N.eqb _ 1); auto).
        destruct Efp as [Efp|Efp]; rewrite Efp; [reflexivity|]. cbn [negb andb].
        destruct (ac_cbcanc (getc s' i)) eqn:Ecb; [reflexivity | exfalso; exact (Mv (K1 eq_refl eq_refl))].
      + intros _. exact Moved.
  Qed.

  Lemma nth_ccanc i : i < length (conss s) -> nth i (m_ccanc m) false = ccanc (getc s i).
  Proof. intros Hl. rewrite (rp_ccanc m h HP). apply nth_map_error. now apply nth_error_getc. Qed.

  Lemma cur_err_of : u_cur_err m e p = if resolved s' then nn (verr s') else 0%N.
  Proof. unfold u_cur_err. rewrite Ecur'. unfold cur_of. destruct (resolved s'); reflexivity. Qed.

  (* the decision book and the clauses 10.6, 10.7 *)
  Lemma dec_row i : i < length (conss s') -> ck (getc s' i) = CKAccess ->
    forall code v e1 hh f1 f2, ccode6 (getc s' i) = (code, v, e1, hh, f1, f2) ->
    adec_ok s' i (j_adec m e p i (cref (getc s' i)) (nth i (m_acanc m) false) (nth i (m_ainv m) false) (nth i (m_ccanc m) false)
                         (nth i (m_adec m) None) code) /\
    j_rest m e p i (cref (getc s' i)) (nth i (m_acanc m) false) (nth i (m_ainv m) false) (nth i (m_ccanc m) false)
           (nth i (m_adec m) None) (ccanc (getc s' i)) code v = [].
  Proof.
    intros Hi Hk code v e1 hh f1 f2 Ec. pose proof HR' as HR'.
    pose proof (decnow_test h' i HR' Hi Hk code v e1 hh f1 f2 Ec) as T. cbn [hs] in T. unfold raref in T. rewrite <- (upd_raref h e0 rets) in T.
    pose proof (dec_mine h e e0 rets i Hd) as Mine. fold (j_mine e i) in Mine.
    set (acanc := nth i (m_acanc m) false). set (ainv := nth i (m_ainv m) false). set (ccb := nth i (m_ccanc m) false).
    (* a consumer that has not decided and still runs *)
    assert (Running : nth i (m_adec m) None = None -> attached_pc (cpcv (getc s' i)) = true ->
              adec_ok s' i (j_adec m e p i (cref (getc s' i)) acanc ainv ccb (nth i (m_adec m) None) code) /\
              j_rest m e p i (cref (getc s' i)) acanc ainv ccb (nth i (m_adec m) None) (ccanc (getc s' i)) code v = []).
    { intros Ea Hat. assert (Dn : j_decnow p (cref (getc s' i)) None code = false) by (unfold j_decnow; rewrite T, Hat; reflexivity).
      rewrite Ea. split; [unfold j_adec; rewrite Dn; exact Hat|].
      apply j_rest_nil; try (rewrite Dn; intros Hx; discriminate Hx).
      - unfold j_adec. rewrite Dn. intros x b Hx. discriminate Hx.
      - right. unfold ccode6 in Ec. destruct (settled_after h e0 i Hi Hk) as [Hnb Hw].
        destruct (cpcv (getc s' i)) eqn:Ep; try discriminate Hat; inversion Ec; subst.
        + exfalso. now apply Hnb.
        + left. reflexivity.
        + right. destruct (Hw eq_refl) as [En _]. pose proof (HR_acc_ok h' i HR') as [_ K]. cbn [hs] in K. rewrite Ep in K. destruct (K En) as [K1 _].
          destruct (HR_mirror h' i HR' Hi Hk ltac:(cbn [hs]; now rewrite Ep)) as [M1 _]. cbn [hs] in M1.
          rewrite Ecur'. unfold cur_of. destruct (resolved s'); [congruence | reflexivity]. }
    (* a consumer that decides now *)
    assert (Deciding : nth i (m_adec m) None = None -> forall c, (cpcv (getc s' i) = CRel c \/ cpcv (getc s' i) = CAccRet c) ->
              j_expected m e p i acanc ainv ccb = nn c ->
              (j_mine e i && negb ccb = true -> negb ainv || nz (u_cur_err m e p) = true) ->
              (negb (j_mine e i) = true -> ccanc (getc s' i) || nz (u_cur_err m e p) = true) ->
              adec_ok s' i (j_adec m e p i (cref (getc s' i)) acanc ainv ccb (nth i (m_adec m) None) code) /\
              j_rest m e p i (cref (getc s' i)) acanc ainv ccb (nth i (m_adec m) None) (ccanc (getc s' i)) code v = []).
    { intros Ea c Hp Hex H6 H7.
      assert (Hna : attached_pc (cpcv (getc s' i)) = false) by (destruct Hp as [Hp|Hp]; rewrite Hp; reflexivity).
      assert (Dn : j_decnow p (cref (getc s' i)) None code = true) by (unfold j_decnow; rewrite T, Hna; reflexivity).
      rewrite Ea. assert (Ead : j_adec m e p i (cref (getc s' i)) acanc ainv ccb None code = Some (nn c, j_fromcb e i ccb ainv)) by (unfold j_adec; now rewrite Dn, Hex).
      split; [rewrite Ead; exists c; auto|].
      apply j_rest_nil; rewrite ?Dn, ?Ead; cbn [andb].
      - exact H6.
      - exact H7.
      - intros x b Hx. inversion Hx; subst. exact (ccode_pc _ _ _ _ _ _ _ c Ec Hp).
      - left. reflexivity. }
    destruct (Nat.lt_ge_cases i (length (conss s))) as [Hold|Hnew].
    2:{ (* a consumer started by this event *)
      pose proof (r2_adec_new m s HA i Hnew) as Ea.
      destruct (decide_cases h e e0 rets HRh Hd i Hi Hk ltac:(intros Hlt; lia)) as [Hat|[c [Hp Cause]]]; [now apply Running|].
      destruct Cause as [[res [Er _]]|[[res [Er _]]|[[res [Er _]]|[Hnm Cs]]]];
        try (exfalso; destruct (dec_cbret_in_cb h e e0 rets i res Hd Er) as [Hlt _]; lia).
      assert (Em : j_mine e i = false) by (destruct (j_mine e i) eqn:E; [|reflexivity]; destruct (proj1 Mine eq_refl) as [res Er]; exfalso; exact (Hnm res Er)).
      apply (Deciding Ea c Hp).
      - unfold j_expected, j_fromcb. rewrite Em, cur_err_of. cbn [andb]. destruct Cs as [[C1 [C2 C3]]|[C1 [C2 C3]]].
        + rewrite C2, C3, nz_nn. destruct (Nat.eqb_spec c 0); [contradiction | reflexivity].
        + rewrite C3, C1. reflexivity.
      - rewrite Em. intros Hx. discriminate Hx.
      - intros _. rewrite cur_err_of. destruct Cs as [[C1 [C2 C3]]|[C1 [C2 C3]]].
        + rewrite C2, C3, nz_nn. destruct (Nat.eqb_spec c 0); [contradiction | apply orb_true_r].
        + rewrite C2. reflexivity. }
    assert (Hk0 : ck (getc s i) = CKAccess) by (rewrite <- (ck_old s e0 i Hold), <- ck_s1; exact Hk).
    pose proof (r2_adec m s HA i Hold Hk0) as Ok0. pose proof (r2_set m s HA i Hold Hk0) as Set0.
    destruct (nth i (m_adec m) None) as [[xx b]|] eqn:Ea.
    - (* decided before *)
      destruct Ok0 as [c [Exx Hp0]]. pose proof (decided_stays h e e0 rets Hd i c Hold Hk0 Hp0) as Hp.
      assert (Dn : j_decnow p (cref (getc s' i)) (Some (xx, b)) code = false) by reflexivity.
      split; [unfold j_adec; rewrite Dn; exists c; auto|].
      apply j_rest_nil; try (rewrite Dn; intros Hx; discriminate Hx).
      + unfold j_adec. rewrite Dn. intros x b' Hx. inversion Hx; subst. exact (ccode_pc _ _ _ _ _ _ _ c Ec Hp).
      + left. unfold j_adec. rewrite Dn. reflexivity.
    - (* not decided before *)
      cbn [adec_ok] in Ok0.
      destruct (decide_cases h e e0 rets HRh Hd i Hi Hk ltac:(intros _; split; assumption)) as [Hat|[c [Hp Cause]]]; [now apply Running|].
      assert (Eccb : ccb = ccanc (getc s i)) by (apply nth_ccanc; exact Hold).
      destruct Cause as [[res [Er [Cc C1]]]|[[res [Er [Cc [Cn C1]]]]|[[res [Er [Cc [Cn [C1 [C2 C3]]]]]]|[Hnm Cs]]]].
      + (* its callback returned, the caller's context is cancelled *)
        assert (Em : j_mine e i = true) by (apply Mine; eauto).
        apply (Deciding eq_refl c Hp).
        * unfold j_expected. rewrite Em, Eccb, Cc, C1. reflexivity.
        * rewrite Em, Eccb, Cc. intros Hx. discriminate Hx.
        * rewrite Em. intros Hx. discriminate Hx.
      + (* its callback returned, nothing was notified since Access looked: the callback's own result *)
        assert (Em : j_mine e i = true) by (apply Mine; eauto).
        destruct (dec_cbret_in_cb h e e0 rets i res Hd Er) as [_ [_ Hcb]].
        assert (Ei : ainv = false).
        { destruct ainv eqn:E; [|reflexivity]. exfalso. exact (proj1 (r2_ainv m s HA i Hk0 Hcb) E Cn). }
        apply (Deciding eq_refl c Hp).
        * unfold j_expected, j_fromcb. rewrite Em, Eccb, Cc, Ei. cbn [andb negb]. rewrite (dec_cbret_rc h e e0 rets i res acanc Hd Er).
          rewrite C1. unfold rc_model, acanc. now rewrite (r2_acanc m s HA i Hk0 Hcb).
        * intros _. rewrite Ei. reflexivity.
        * rewrite Em. intros Hx. discriminate Hx.
      + (* its callback returned after an invalidation, the replacement is an error: the resolver's error *)
        assert (Em : j_mine e i = true) by (apply Mine; eauto).
        destruct (dec_cbret_in_cb h e e0 rets i res Hd Er) as [_ [_ Hcb]].
        assert (Ei : ainv = true) by (apply (proj2 (r2_ainv m s HA i Hk0 Hcb)); exact Cn).
        assert (Ece : u_cur_err m e p = nn c) by (rewrite cur_err_of, C2, C3; reflexivity).
        assert (Enz : nz (nn c) = true) by (rewrite nz_nn; destruct (Nat.eqb_spec c 0); [contradiction | reflexivity]).
        apply (Deciding eq_refl c Hp).
        * unfold j_expected, j_fromcb. rewrite Em, Eccb, Cc, Ei, Ece, Enz. reflexivity.
        * intros _. rewrite Ece, Enz. apply orb_true_r.
        * rewrite Em. intros Hx. discriminate Hx.
      + (* not its callback's return: the resolver's error, or Canceled for a cancelled caller *)
        assert (Em : j_mine e i = false) by (destruct (j_mine e i) eqn:E; [|reflexivity]; destruct (proj1 Mine eq_refl) as [res Er]; exfalso; exact (Hnm res Er)).
        apply (Deciding eq_refl c Hp).
        * unfold j_expected, j_fromcb. rewrite Em, cur_err_of. cbn [andb]. destruct Cs as [[C1 [C2 C3]]|[C1 [C2 C3]]].
          -- rewrite C2, C3, nz_nn. destruct (Nat.eqb_spec c 0); [contradiction | reflexivity].
          -- rewrite C3, C1. reflexivity.
        * rewrite Em. intros Hx. discriminate Hx.
        * intros _. rewrite cur_err_of. destruct Cs as [[C1 [C2 C3]]|[C1 [C2 C3]]].
          -- rewrite C2, C3, nz_nn. destruct (Nat.eqb_spec c 0); [contradiction | apply orb_true_r].
          -- rewrite C2. reflexivity.
  Qed.
End AccAll.
