(* refcount: consumers (Wait / ResolveWithReleased): the released callback fires at most once, and exactly once after
   an invalidation; a held reference blocks the release of the value (C10). *)
From Util Require Import Common.Base Common.ListLemmas RefCount.Model RefCount.Proofs RefCount.ProofsC08 RefCount.ProofsC08b.

(* ------------------------------------------------------------------ *)
(* any property of the consumer table that reference callbacks preserve is preserved by every section of the
   container itself *)
Section ConsPres.
  Variable Q : list cons -> Prop.
  Hypothesis Qinv : forall s r n, Q (conss s) -> Q (conss (invoke s r n)).

  Lemma Q_cbs_fold n rs : forall s, Q (conss s) -> Q (conss (fold_left (cbs_fold n) rs s)).
  Proof.
    induction rs as [|r rs IH]; intros s H; [exact H|]. cbn [fold_left]. apply IH. unfold cbs_fold.
    destruct (rin (nth r (refs s) ref0)); [now apply Qinv | exact H].
  Qed.

  Lemma Q_call_cbs s n : Q (conss s) -> Q (conss (call_cbs s n)).
  Proof. rewrite call_cbs_fold. apply Q_cbs_fold. Qed.

  Lemma conss_cancel_g s og : conss (cancel_g s og) = conss s.
  Proof. apply (cancel_g_rest s og). Qed.

  Lemma Q_clear_resolved s : Q (conss s) -> Q (conss (clear_resolved s)).
  Proof.
    intros H. unfold clear_resolved. set (s1 := if resolved s then _ else s).
    assert (H1 : Q (conss s1)) by (unfold s1; destruct (resolved s); [apply Q_call_cbs; exact H | exact H]).
    set (s2 := set_rcancel (cancel_g s1 (rcancel s1)) None).
    assert (E : conss s2 = conss s1) by (unfold s2; cbn [conss set_rcancel]; apply conss_cancel_g).
    destruct (vrel s2); [change (Q (conss s2))|]; now rewrite E.
  Qed.

  Lemma Q_shutdown s : Q (conss s) -> Q (conss (shutdown s)).
  Proof. intros H. unfold shutdown. now apply Q_clear_resolved. Qed.

  Lemma Q_start_resolve s : Q (conss s) -> Q (conss (start_resolve s)).
  Proof.
    intros H. unfold start_resolve. pose proof (Q_shutdown s H) as H1. set (s1 := shutdown s) in *.
    destruct (Nat.eqb (kctx s1) 0 || Nat.eqb (nrefs s1) 0); exact H1.
  Qed.

  Lemma Q_add_ref s k : Q (conss s) -> Q (conss (add_ref repaired s k)).
  Proof.
    intros H. unfold add_ref. set (s1 := set_refs s _). assert (H1 : Q (conss s1)) by exact H.
    destruct (Nat.eqb (nrefs s1) 1 && negb (resolved s1)); [now apply Q_start_resolve|].
    destruct (resolved s1); [|exact H1]. destruct k; cbn [fx_nilcb repaired]; try exact H1; now apply Qinv.
  Qed.

  Lemma Q_remove_ref s r : Q (conss s) -> Q (conss (remove_ref s r)).
  Proof.
    intros H. unfold remove_ref. destruct (nth_error (refs s) r) as [x|]; [|exact H]. destruct (rin x); [|exact H].
    set (s1 := set_refs s _). assert (H1 : Q (conss s1)) by exact H.
    destruct (Nat.eqb (nrefs s1) 0 && _); [now apply Q_shutdown | exact H1].
  Qed.

  Lemma Q_released_section s n : Q (conss s) -> Q (conss (released_section s n)).
  Proof. intros H. unfold released_section. destruct (Nat.eqb (nonce s) n); [now apply Q_start_resolve | exact H]. Qed.

  Lemma conss_proceed s g en : conss (proceed repaired s g en) = conss s.
  Proof.
    unfold proceed. destruct (nth_error (gs s) g) as [x|]; [|reflexivity].
    destruct (gpcv x); try reflexivity.
    - destruct (gwait x); [|reflexivity]. destruct (pred_done s x && gcanc x); [destruct en; reflexivity|].
      destruct (pred_done s x); [reflexivity|]. destruct (gcanc x); reflexivity.
    - destruct (pred_done s x || gcanc x); [|reflexivity].
      destruct (gwait x); [|reflexivity]. destruct (pred_done s x && gcanc x); [destruct en; reflexivity|].
      destruct (pred_done s x); [reflexivity|]. destruct (gcanc x); reflexivity.
    - destruct (pred_done s x); reflexivity.
  Qed.

  Lemma Q_store s g : Q (conss s) -> Q (conss (store s g)).
  Proof.
    intros H. unfold store. destruct (nth_error (gs s) g) as [x|]; [|exact H]. destruct (gpcv x); try exact H.
    set (s0 := setg s g (with_gpc x GDone)). destruct (negb (Nat.eqb (nonce s0) (gnonce x))); [destruct hasrel; exact H|].
    apply Q_call_cbs. destruct (Nat.eqb e 0); exact H.
  Qed.

  Lemma conss_release_call_by s r oc : conss (fst (release_call_by s r oc)) = conss s.
  Proof. unfold release_call_by. destruct (nth_error (refs s) r) as [x|]; [|reflexivity]. destruct (rflag x); reflexivity. Qed.

  (* the sections that do not belong to a consumer *)
  Lemma Q_step_container s e :
    match e with ERelSect _ | EStartCons _ | EConsStep _ | EConsCancel _ | EFire _ | ECbReturn _ _ | EWatch _ => False | _ => True end ->
    Q (conss s) -> Q (conss (step repaired s e)).
  Proof.
    intros He H. destruct e; try contradiction; cbn [step].
    - unfold set_context. destruct (Nat.eqb (kctx s) c); [exact H|]. cbn [fst]. now apply Q_start_resolve.
    - now apply Q_add_ref.
    - destruct (rkind (nth r (refs s) ref0)); try exact H; unfold release_call; now rewrite conss_release_call_by.
    - destruct (nth_error (gs s) g); [now apply Q_released_section | exact H].
    - unfold async_section. destruct (nth_error (asyncs s) a) as [x|]; [|exact H]. destruct (as_pc x); [|exact H].
      now apply Q_released_section.
    - now rewrite conss_proceed.
    - unfold resolver_return. destruct (nth_error (gs s) g) as [x|]; [|exact H]. destruct (gpcv x); exact H.
    - now apply Q_store.
    - destruct (Nat.eqb c 0); [exact H|]. destruct (cancel_root_frame s c) as [_ [_ [E _]]]. now rewrite E.
  Qed.
End ConsPres.

(* ------------------------------------------------------------------ *)
(* callReleasedOnce *)
Definition cons_ok (x : cons) : Prop :=
  match ww_firepc x with
  | None => ww_once x = false /\ ww_fired x = 0
  | Some RGate => ww_once x = true /\ ww_fired x = 0
  | Some RDone => ww_once x = true /\ ww_fired x = 1
  end.

Definition InvC (l : list cons) : Prop := forall c x, nth_error l c = Some x -> cons_ok x.

Lemma InvC_set l c y : InvC l -> cons_ok y -> InvC (set_nth l c y).
Proof.
  intros H Hy k x Hk. destruct (Nat.lt_ge_cases c (length l)) as [Hl|Hl].
  - destruct (Nat.eq_dec k c) as [->|Hne].
    + rewrite nth_error_set_nth_same in Hk by exact Hl. now inversion Hk; subst.
    + rewrite nth_error_set_nth_other in Hk by exact Hne. exact (H k x Hk).
  - rewrite set_nth_oob in Hk by exact Hl. exact (H k x Hk).
Qed.

Lemma InvC_getc s c : InvC (conss s) -> cons_ok (getc s c).
Proof.
  intros H. unfold getc. destruct (nth_error (conss s) c) as [x|] eqn:E.
  - rewrite (nth_error_nth_d _ _ cons0 _ E). exact (H c x E).
  - rewrite nth_overflow by (now apply nth_error_None). cbn. auto.
Qed.

Lemma InvC_setc s c y : InvC (conss s) -> cons_ok y -> InvC (conss (setc s c y)).
Proof. intros H Hy. rewrite conss_setc. now apply InvC_set. Qed.

Lemma conss_set_last s r n : conss (set_last s r n) = conss s.
Proof. unfold set_last. destruct (nth_error (refs s) r); reflexivity. Qed.
Lemma getc_set_last s r n c : getc (set_last s r n) c = getc s c.
Proof. unfold getc. now rewrite conss_set_last. Qed.

Lemma cb_wwr_ok x n cur :
  cons_ok x ->
  let '(y, fired) := cb_wwr x n cur in
  if fired then ww_once y = true /\ ww_firepc y = None /\ ww_fired y = 0 /\ ww_firepc x = None else cons_ok y.
Proof.
  intros H. unfold cb_wwr. destruct (ww_res x).
  - destruct ((match n with NGone => true | NRes _ _ => negb (Nat.eqb cur (ww_nonce x)) end) && negb (ww_once x)) eqn:E; [|exact H].
    apply andb_true_iff in E. destruct E as [_ E]. apply negb_true_iff in E. unfold cons_ok in H. cbn [ww_once ww_firepc ww_fired].
    destruct (ww_firepc x) as [[|]|]; destruct H as [H1 H2]; try congruence. auto.
  - destruct n; exact H.
Qed.

Lemma invoke_InvC s r n : InvC (conss s) -> InvC (conss (invoke s r n)).
Proof.
  intros H. unfold invoke. destruct (nth_error (refs s) r) as [x|]; [|exact H].
  assert (H1 : InvC (conss (set_last s r n))) by (now rewrite conss_set_last).
  destruct (rkind x) as [| | |c|c|c]; try exact H; try exact H1.
  - destruct n; exact H1.
  - apply InvC_setc; [exact H1|]. pose proof (InvC_getc s c H) as G. unfold cons_ok, cb_wait in *. exact G.
  - pose proof (cb_wwr_ok (getc (set_last s r n) c) n (nonce (set_last s r n)) (InvC_getc _ c H1)) as G.
    destruct (cb_wwr (getc (set_last s r n) c) n (nonce (set_last s r n))) as [y fired].
    destruct fired.
    + destruct G as [G1 [G2 [G3 _]]]. destruct (rflag x); apply InvC_setc; try exact H1; unfold cons_ok; cbn [ww_firepc ww_once ww_fired with_fire]; auto.
    + now apply InvC_setc.
  - apply InvC_setc; [exact H1|]. pose proof (InvC_getc s c H) as G. unfold cb_access.
    destruct n as [|v e]; [destruct (Bool.eqb false (ac_res (getc s c)) && Nat.eqb 0 (ac_val (getc s c)) && Nat.eqb 0 (ac_err (getc s c)))
                          | destruct (Bool.eqb true (ac_res (getc s c)) && Nat.eqb v (ac_val (getc s c)) && Nat.eqb e (ac_err (getc s c)))]; exact G.
Qed.

Lemma remove_ref_InvC s r : InvC (conss s) -> InvC (conss (remove_ref s r)).
Proof. apply (Q_remove_ref InvC invoke_InvC). Qed.

Lemma cons_fail_conss s c x e : InvC (conss s) -> cons_ok x -> InvC (conss (cons_fail s c x e)).
Proof.
  intros H Hx. unfold cons_fail.
  pose proof (conss_release_call_by (setc s c (with_cpc x (CRel e))) (cref x) (Some c)) as G.
  destruct (release_call_by (setc s c (with_cpc x (CRel e))) (cref x) (Some c)) as [s1 parked]. cbn [fst] in G.
  assert (H1 : InvC (conss s1)) by (rewrite G; apply InvC_setc; [exact H | exact Hx]).
  destruct parked; [exact H1|]. apply InvC_setc; [exact H1 | exact Hx].
Qed.

Lemma acc_ret_conss s c x e : InvC (conss s) -> cons_ok x -> InvC (conss (acc_ret s c x e)).
Proof.
  intros H Hx. unfold acc_ret.
  pose proof (conss_release_call_by (setc s c (with_cpc x (CRel e))) (cref x) (Some c)) as G.
  destruct (release_call_by (setc s c (with_cpc x (CRel e))) (cref x) (Some c)) as [s1 parked]. cbn [fst] in G.
  assert (H1 : InvC (conss s1)) by (rewrite G; apply InvC_setc; [exact H | exact Hx]).
  destruct parked; [exact H1|]. apply InvC_setc; [exact H1 | exact Hx].
Qed.

Lemma acc_s1_conss s c x : InvC (conss s) -> cons_ok x -> InvC (conss (acc_s1 s c x)).
Proof.
  intros H Hx. unfold acc_s1. destruct (negb (Nat.eqb (ac_err x) 0)); [now apply acc_ret_conss|].
  destruct (ac_res x); [now apply InvC_setc|]. destruct (ccanc x); [now apply acc_ret_conss | now apply InvC_setc].
Qed.

Lemma step_InvC s e : InvC (conss s) -> InvC (conss (step repaired s e)).
Proof.
  intros H. destruct e; try (apply (Q_step_container InvC invoke_InvC); [exact I | exact H]); cbn [step].
  - unfold release_section. destruct (nth_error (relacts s) a) as [x|]; [|exact H]. destruct (ra_pc x); [|exact H].
    set (s1 := remove_ref _ (ra_ref x)). assert (H1 : InvC (conss s1)) by (apply remove_ref_InvC; exact H).
    destruct (ra_cons x) as [c|]; [|exact H1]. destruct (cpcv (getc s1 c)) eqn:Ec; try exact H1.
    cbn [conss set_conss]. apply InvC_set; [exact H1|]. exact (InvC_getc s1 c H1).
  - unfold start_consumer. apply (Q_add_ref InvC invoke_InvC). cbn [conss set_conss].
    intros c x Hx. destruct (nth_error_snoc_cases _ _ _ _ Hx) as [[_ H0]|[_ ->]]; [exact (H c x H0)|]. destruct k; cbn; auto.
  - unfold cons_step. destruct (nth_error (conss s) c) as [x|] eqn:Ex; [|exact H]. pose proof (H c x Ex) as Hx.
    destruct (ck x), (cpcv x); try exact H; try (now apply acc_s1_conss).
    + destruct (cw_res x) as [[v e]|]; [destruct (Nat.eqb e 0); [now apply InvC_setc | now apply cons_fail_conss] | destruct (ccanc x); [now apply cons_fail_conss | exact H]].
    + destruct (ww_prom x) as [[v e]|]; [destruct (Nat.eqb e 0); [now apply InvC_setc | now apply cons_fail_conss] | destruct (ccanc x); [now apply cons_fail_conss | exact H]].
    + destruct (negb (Nat.eqb (ac_nonce x) (ac_snap x))); [now apply acc_s1_conss|]. destruct (ccanc x); [now apply acc_ret_conss | exact H].
  - destruct (nth_error (conss s) c) as [x|] eqn:Ex; [|exact H]. apply InvC_setc; [exact H|]. exact (H c x Ex).
  - unfold fire_section. destruct (nth_error (conss s) c) as [x|] eqn:Ex; [|exact H]. pose proof (H c x Ex) as Hx.
    destruct (ww_firepc x) as [[|]|] eqn:Ef; try exact H. apply remove_ref_InvC. apply InvC_setc; [exact H|].
    unfold cons_ok in *. rewrite Ef in Hx. cbn [ww_firepc ww_once ww_fired with_fire]. destruct Hx as [A1 A2]. rewrite A2. auto.
  - unfold cb_return. destruct (nth_error (conss s) c) as [x|] eqn:Ex; [|exact H]. pose proof (H c x Ex) as Hx.
    destruct (ck x); try exact H. destruct (cpcv x); try exact H.
    destruct (ccanc x); [now apply acc_ret_conss|].
    match goal with |- InvC (conss (if ?b then _ else _)) => destruct b end; [now apply acc_ret_conss | now apply InvC_setc].
  - destruct (watch_step_spec s c) as [->|[x [y [Hx [-> Hy]]]]]; [exact H|]. wsplit Hy. apply InvC_setc; [exact H|].
    pose proof (H c x Hx) as Hc. unfold cons_ok in *. now rewrite Wwfirepc, Wwonce, Wwfired.
Qed.

Theorem run_InvC k es : InvC (conss (run repaired (init k) es)).
Proof. unfold run. apply fold_inv; [intros s e; apply step_InvC | intros [|c] x H; discriminate]. Qed.

Theorem released_fires_at_most_once k es c x :
  nth_error (conss (run repaired (init k) es)) c = Some x -> ww_fired x <= 1.
Proof.
  intros Hx. pose proof (run_InvC k es c x Hx) as H. unfold cons_ok in H.
  destruct (ww_firepc x) as [[|]|]; destruct H as [_ H]; lia.
Qed.

(* ------------------------------------------------------------------ *)
(* a reference that is still held blocks the release of the stored value: the only steps that call a release function
   while some reference stays in the set are invalidations (SetContext with a different context, released() of the
   current generation) and the store section of a superseded goroutine (its own, never delivered result) *)
Lemma in_set_nrefs_pos l r : rin (nth r l ref0) = true -> cnt rin l > 0.
Proof.
  intros H. destruct (nth_error l r) as [x|] eqn:E.
  - rewrite (nth_error_nth_d _ _ ref0 _ E) in H. exact (nth_error_cnt_pos rin l r x E H).
  - rewrite nth_overflow in H by (now apply nth_error_None). discriminate.
Qed.

Definition invalidation (s : st) (e : ev) : Prop :=
  (exists ctx, e = ESetCtx ctx /\ kctx s <> ctx) \/
  (exists g x, e = EReleased g /\ nth_error (gs s) g = Some x /\ gnonce x = nonce s) \/
  (exists a x, e = EAsync a /\ nth_error (asyncs s) a = Some x /\ as_pc x = AParked /\ as_nonce x = nonce s).

Theorem held_reference_blocks_release s e r c :
  Inv s -> rin (nth r (refs (step repaired s e)) ref0) = true -> rellog (step repaired s e) = rellog s ++ [c] ->
  (vrel s = Some (rc_id c) /\ rc_val c = value s /\ invalidation s e) \/
  (exists g x v er, e = EStore g /\ rc_id c = g /\ rc_val c = v /\ nth_error (gs s) g = Some x /\
                    gpcv x = GStore v true er /\ gnonce x <> nonce s).
Proof.
  intros H Hin Hlog. destruct (step_log s e H) as [Hs|[c0 [Hl Hc]]].
  - rewrite Hs in Hlog. apply (f_equal (@length relcall)) in Hlog. rewrite app_length in Hlog. cbn in Hlog. lia.
  - rewrite Hl in Hlog. apply app_inj_tail in Hlog. destruct Hlog as [_ ->].
    destruct Hc as [[H1 [H2 H3]]|Hc]; [left | right; exact Hc]. split; [exact H1|]. split; [exact H2|].
    pose proof (in_set_nrefs_pos _ _ Hin) as Hpos. fold (nrefs (step repaired s e)) in Hpos. unfold invalidation.
    destruct e; cbn [invalidating] in H3; try contradiction.
    + left. eauto.
    + destruct H3 as [H3 _]. lia.
    + right. left. destruct H3 as [x H3]. exists g, x. auto.
    + right. right. destruct H3 as [x H3]. exists a, x. auto.
    + destruct H3 as [H3 _]. lia.
Qed.

(* ------------------------------------------------------------------ *)
(* an invalidation notified to a WaitWithReleased callback that has returned its value fires callReleasedOnce: at once
   if the reference was already released, otherwise through the spawned goroutine *)
Lemma getc_nth_error s c x : nth_error (conss s) c = Some x -> getc s c = x /\ c < length (conss s).
Proof. intros H. split; [unfold getc; now apply nth_error_nth | eapply nth_error_nth_len; eauto]. Qed.

Theorem wwr_invalidation_fires s r n rx c x :
  nth_error (refs s) r = Some rx -> rkind rx = KWwr c -> nth_error (conss s) c = Some x ->
  ww_res x = true -> ww_once x = false ->
  (n = NGone \/ exists v e, n = NRes v e /\ nonce s <> ww_nonce x) ->
  exists y, nth_error (conss (invoke s r n)) c = Some y /\ ww_once y = true /\
    ((rflag rx = true /\ ww_fired y = S (ww_fired x) /\ ww_firepc y = Some RDone) \/
     (rflag rx = false /\ ww_fired y = ww_fired x /\ ww_firepc y = Some RGate /\ rflag (nth r (refs (invoke s r n)) ref0) = true)).
Proof.
  intros Hr Hk Hc Hres Honce Hn. destruct (getc_nth_error s c x Hc) as [Eg Hl]. unfold invoke. rewrite Hr, Hk.
  rewrite getc_set_last, Eg.
  assert (En : nonce (set_last s r n) = nonce s) by (apply (rest_fields s _ (rest_set_last s r n))). rewrite En.
  assert (Ecb : cb_wwr x n (nonce s) =
                ({| ck := ck x; cref := cref x; ccanc := ccanc x; cpcv := cpcv x; cw_res := cw_res x; ww_res := true; ww_nonce := ww_nonce x;
                    ww_prom := ww_prom x; ww_once := true; ww_fired := ww_fired x; ww_firepc := ww_firepc x; ac_val := ac_val x; ac_err := ac_err x;
                    ac_res := ac_res x; ac_nonce := ac_nonce x; ac_snap := ac_snap x; ac_cbcanc := ac_cbcanc x; ac_cbres := ac_cbres x; ac_wpark := ac_wpark x; ac_wstale := ac_wstale x |}, true)).
  { unfold cb_wwr. rewrite Hres, Honce. destruct Hn as [->|[v [e [-> Hne]]]]; [reflexivity|].
    destruct (Nat.eqb_spec (nonce s) (ww_nonce x)); [contradiction | reflexivity]. }
  rewrite Ecb. assert (Hrl : r < length (refs s)) by (eapply nth_error_nth_len; eauto).
  destruct (rflag rx) eqn:Ef.
  - eexists. rewrite conss_setc, conss_set_last. split; [apply nth_error_set_nth_same; exact Hl|]. cbn. split; [reflexivity|]. left. auto.
  - eexists. rewrite conss_setc. cbn [conss set_refs]. rewrite conss_set_last. split; [apply nth_error_set_nth_same; exact Hl|]. cbn [ww_once ww_fired ww_firepc with_fire].
    split; [reflexivity|]. right. split; [reflexivity|]. split; [reflexivity|]. split; [reflexivity|].
    rewrite refs_setc. cbn [refs set_refs]. rewrite nth_set_nth_same; [reflexivity|].
    rewrite (set_last_refs s r n rx Hr), length_set_nth. exact Hrl.
Qed.

(* once it has fired, the count does not move under any reference callback *)
Definition fired_done (c k : nat) (l : list cons) : Prop :=
  exists y, nth_error l c = Some y /\ ww_once y = true /\ ww_fired y = k /\ ww_firepc y = Some RDone.

Lemma fired_done_set c k l c' y' :
  fired_done c k l -> (c' = c -> ww_once y' = true /\ ww_fired y' = k /\ ww_firepc y' = Some RDone) -> fired_done c k (set_nth l c' y').
Proof.
  intros [y [Hy Hf]] H'. assert (Hl : c < length l) by (eapply nth_error_nth_len; eauto). destruct (Nat.eq_dec c' c) as [->|Hne].
  - exists y'. split; [now apply nth_error_set_nth_same | now apply H'].
  - exists y. split; [rewrite nth_error_set_nth_other by auto; exact Hy | exact Hf].
Qed.

Lemma cb_wwr_once x n cur :
  ww_once x = true ->
  snd (cb_wwr x n cur) = false /\ ww_once (fst (cb_wwr x n cur)) = true /\ ww_fired (fst (cb_wwr x n cur)) = ww_fired x /\
  ww_firepc (fst (cb_wwr x n cur)) = ww_firepc x.
Proof.
  intros H. unfold cb_wwr. destruct (ww_res x).
  - rewrite H. cbn [negb]. rewrite andb_false_r. cbn. auto.
  - destruct n; cbn; auto.
Qed.

Lemma invoke_fired_done c k s r n : fired_done c k (conss s) -> fired_done c k (conss (invoke s r n)).
Proof.
  intros H. unfold invoke. destruct (nth_error (refs s) r) as [x|]; [|exact H].
  assert (H1 : fired_done c k (conss (set_last s r n))) by (now rewrite conss_set_last).
  assert (G : forall c', c' = c -> ww_once (getc s c') = true /\ ww_fired (getc s c') = k /\ ww_firepc (getc s c') = Some RDone).
  { intros c' ->. destruct H as [y [Hy Hf]]. destruct (getc_nth_error s c y Hy) as [-> _]. exact Hf. }
  destruct (rkind x) as [| | |c'|c'|c']; try exact H; try exact H1.
  - destruct n; exact H1.
  - rewrite conss_setc. apply fired_done_set; [exact H1|]. intros E. exact (G c' E).
  - rewrite getc_set_last.
    destruct (cb_wwr (getc s c') n (nonce (set_last s r n))) as [y fired] eqn:Ecb.
    destruct (Nat.eq_dec c' c) as [->|Hne].
    + destruct (G c eq_refl) as [G1 [G2 G3]]. pose proof (cb_wwr_once (getc s c) n (nonce (set_last s r n)) G1) as W. rewrite Ecb in W. cbn [fst snd] in W.
      destruct W as [-> [W1 [W2 W3]]]. rewrite conss_setc. apply fired_done_set; [exact H1|]. intros _. rewrite W2, W3. auto.
    + destruct fired; [destruct (rflag x)|]; rewrite conss_setc; (apply fired_done_set; [exact H1 | intros E; contradiction]).
  - rewrite conss_setc. apply fired_done_set; [exact H1|]. intros E. destruct (G c' E) as [G1 [G2 G3]]. unfold cb_access.
    destruct n as [|v e]; [destruct (Bool.eqb false (ac_res (getc s c')) && Nat.eqb 0 (ac_val (getc s c')) && Nat.eqb 0 (ac_err (getc s c')))
                          | destruct (Bool.eqb true (ac_res (getc s c')) && Nat.eqb v (ac_val (getc s c')) && Nat.eqb e (ac_err (getc s c')))]; cbn; auto.
Qed.

(* the section of the spawned goroutine calls released() exactly once *)
Theorem fire_section_fires s c x :
  nth_error (conss s) c = Some x -> cons_ok x -> ww_firepc x = Some RGate ->
  fired_done c 1 (conss (fire_section s c)).
Proof.
  intros Hx Hok Hf. unfold fire_section. rewrite Hx, Hf. destruct (getc_nth_error s c x Hx) as [_ Hl].
  unfold cons_ok in Hok. rewrite Hf in Hok. destruct Hok as [O1 O2].
  apply (Q_remove_ref (fired_done c 1) (invoke_fired_done c 1)).
  rewrite conss_setc. eexists. split; [apply nth_error_set_nth_same; exact Hl|]. cbn [ww_once ww_fired ww_firepc with_fire]. rewrite O1, O2. auto.
Qed.

(* and afterwards nothing the container does changes that count *)
Theorem fired_stays k0 c s e :
  match e with ERelSect _ | EStartCons _ | EConsStep _ | EConsCancel _ | EFire _ | ECbReturn _ _ | EWatch _ => False | _ => True end ->
  fired_done c k0 (conss s) -> fired_done c k0 (conss (step repaired s e)).
Proof. apply (Q_step_container (fired_done c k0) (invoke_fired_done c k0)). Qed.

(* ------------------------------------------------------------------ *)
(* Wait / ResolveWithReleased return the resolver's error or Canceled as such, with the zero value, after releasing
   their reference; a value is returned together with the held reference *)
Definition cres (x : cons) : option (nat * nat) :=
  match ck x with CKWait => cw_res x | CKWwr => ww_prom x | CKAccess => None end.

Lemma cons_fail_pc s c x e :
  nth_error (conss s) c = Some x ->
  cpcv (getc (cons_fail s c x e) c) = CRel e \/ cpcv (getc (cons_fail s c x e) c) = CRet 0 e false.
Proof.
  intros Hx. destruct (getc_nth_error s c x Hx) as [_ Hl]. unfold cons_fail.
  pose proof (conss_release_call_by (setc s c (with_cpc x (CRel e))) (cref x) (Some c)) as G.
  destruct (release_call_by (setc s c (with_cpc x (CRel e))) (cref x) (Some c)) as [s1 parked]. cbn [fst] in G.
  destruct parked.
  - left. unfold getc. rewrite G, conss_setc, nth_set_nth_same by exact Hl. reflexivity.
  - right. unfold getc. rewrite conss_setc, nth_set_nth_same; [reflexivity|]. rewrite G, conss_setc, length_set_nth. exact Hl.
Qed.

Theorem cons_step_result s c x :
  nth_error (conss s) c = Some x -> cpcv x = CBlocked -> ck x <> CKAccess ->
  let p := cpcv (getc (cons_step s c) c) in
  match cres x with
  | Some (v, 0) => p = CRet v 0 true
  | Some (v, S e) => p = CRel (S e) \/ p = CRet 0 (S e) false
  | None => if ccanc x then p = CRel 1 \/ p = CRet 0 1 false else p = CBlocked
  end.
Proof.
  intros Hx Hp Hk. destruct (getc_nth_error s c x Hx) as [Eg Hl]. unfold cons_step, cres. rewrite Hx, Hp.
  assert (Hret : forall v, cpcv (getc (setc s c (with_cpc x (CRet v 0 true))) c) = CRet v 0 true).
  { intros v. unfold getc. rewrite conss_setc, nth_set_nth_same by exact Hl. reflexivity. }
  destruct (ck x); [| |contradiction].
  - destruct (cw_res x) as [[v [|e]]|]; cbn [Nat.eqb]; [apply Hret | now apply cons_fail_pc |].
    destruct (ccanc x); [now apply cons_fail_pc | now rewrite Eg].
  - destruct (ww_prom x) as [[v [|e]]|]; cbn [Nat.eqb]; [apply Hret | now apply cons_fail_pc |].
    destruct (ccanc x); [now apply cons_fail_pc | now rewrite Eg].
Qed.
