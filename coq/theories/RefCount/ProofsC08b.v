(* refcount: which steps call a release function (C08 "not while ...", C10 "not released before ..."). *)
From Util Require Import Common.Base Common.ListLemmas RefCount.Model RefCount.Proofs RefCount.ProofsC08.

(* s' is s after possibly calling the release function of the stored value *)
Definition relstored (s s' : st) : Prop :=
  (vrel s = None /\ rellog s' = rellog s) \/
  exists c, vrel s = Some (rc_id c) /\ rc_val c = value s /\ rellog s' = rellog s ++ [c].

Lemma shutdown_relstored s : relstored s (shutdown s).
Proof.
  destruct (shutdown_spec s) as [_ [_ [_ [_ [_ [_ [_ [_ [_ [_ [_ [_ [C13 _]]]]]]]]]]]]].
  unfold relstored. destruct (vrel s) as [id|]; [right | left; auto].
  eexists. split; [|split; [|exact C13]]; reflexivity.
Qed.

Lemma start_resolve_relstored s : relstored s (start_resolve s).
Proof.
  unfold start_resolve. pose proof (shutdown_relstored s) as H. set (s1 := shutdown s) in *.
  destruct (Nat.eqb (kctx s1) 0 || Nat.eqb (nrefs s1) 0); exact H.
Qed.

Lemma start_resolve_nrefs s : nrefs (start_resolve s) = nrefs s.
Proof.
  unfold start_resolve. pose proof (shutdown_nrefs s) as H. set (s1 := shutdown s) in *.
  destruct (Nat.eqb (kctx s1) 0 || Nat.eqb (nrefs s1) 0); exact H.
Qed.

(* the steps that invalidate the stored value or drop its last reference *)
Definition invalidating (s : st) (e : ev) (s' : st) : Prop :=
  match e with
  | ESetCtx c => kctx s <> c
  | EReleased g => exists x, nth_error (gs s) g = Some x /\ gnonce x = nonce s
  | EAsync a => exists x, nth_error (asyncs s) a = Some x /\ as_pc x = AParked /\ as_nonce x = nonce s
  | ERelSect _ | EFire _ =>
    nrefs s' = 0 /\ nrefs s = 1 /\ ~ (keep s = true /\ resolved s = true /\ verr s = 0)
  | _ => False
  end.

Definition log_step (s : st) (e : ev) : Prop :=
  let s' := step repaired s e in
  rellog s' = rellog s \/
  exists c, rellog s' = rellog s ++ [c] /\
    ((vrel s = Some (rc_id c) /\ rc_val c = value s /\ invalidating s e s') \/
     (exists g x v er, e = EStore g /\ rc_id c = g /\ rc_val c = v /\ nth_error (gs s) g = Some x /\
                       gpcv x = GStore v true er /\ gnonce x <> nonce s)).

Lemma add_ref_log s kd : Inv s -> rellog (add_ref repaired s kd) = rellog s.
Proof.
  intros [[_ [_ [_ [_ [[_ [V2 _]] _]]]]] _]. unfold add_ref. set (s1 := set_refs s _).
  change (resolved s1) with (resolved s). destruct (resolved s) eqn:Er; cbn [negb]; rewrite ?andb_false_r, ?andb_true_r.
  - destruct kd; cbn [fx_nilcb repaired]; try reflexivity;
      match goal with |- rellog (invoke ?a ?b ?c) = _ => destruct (rest_fields a _ (rest_invoke a b c)) as [_ [_ [_ [_ [_ [_ [_ [_ [_ [_ [_ [_ [_ [Q _]]]]]]]]]]]]]]; exact Q end.
  - destruct (Nat.eqb (nrefs s1) 1); [|reflexivity].
    destruct (start_resolve_relstored s1) as [[_ H]|[c [H _]]]; [exact H|].
    destruct (V2 eq_refl) as [X _]. change (vrel s1) with (vrel s) in H. congruence.
Qed.

Lemma remove_ref_log s r :
  rellog (remove_ref s r) = rellog s \/
  exists c, vrel s = Some (rc_id c) /\ rc_val c = value s /\ rellog (remove_ref s r) = rellog s ++ [c] /\
            nrefs (remove_ref s r) = 0 /\ nrefs s = 1 /\ ~ (keep s = true /\ resolved s = true /\ verr s = 0).
Proof.
  unfold remove_ref. destruct (nth_error (refs s) r) as [x|] eqn:Ex; [|now left]. destruct (rin x) eqn:Ein; [|now left].
  set (y := {| rin := false; rflag := rflag x; rkind := rkind x; rlast := rlast x |}).
  pose proof (nrefs_set_nth s r x y Ex) as NR. rewrite Ein in NR. cbn [b2n rin y] in NR.
  set (s1 := set_refs s (set_nth (refs s) r y)) in *.
  change (keep s1) with (keep s). change (resolved s1) with (resolved s). change (verr s1) with (verr s).
  destruct (Nat.eqb_spec (nrefs s1) 0) as [E0|E0]; cbn [andb]; [|now left].
  destruct (negb (keep s) || negb (resolved s) || negb (Nat.eqb (verr s) 0)) eqn:Ec; [|now left].
  destruct (shutdown_relstored s1) as [[_ H]|[c [H1 [H2 H3]]]]; [now left|]. right. exists c.
  split; [exact H1|]. split; [exact H2|]. split; [exact H3|]. split; [rewrite shutdown_nrefs; exact E0|]. split; [lia|].
  intros [A1 [A2 A3]]. rewrite A1, A2, A3 in Ec. discriminate.
Qed.

Lemma release_call_by_log s r oc : rellog (fst (release_call_by s r oc)) = rellog s.
Proof. unfold release_call_by. destruct (nth_error (refs s) r) as [x|]; [|reflexivity]. destruct (rflag x); reflexivity. Qed.

Lemma cons_fail_log s c x e : rellog (cons_fail s c x e) = rellog s.
Proof.
  unfold cons_fail. pose proof (release_call_by_log (setc s c (with_cpc x (CRel e))) (cref x) (Some c)) as G.
  destruct (release_call_by (setc s c (with_cpc x (CRel e))) (cref x) (Some c)) as [s1 parked]. cbn [fst] in G.
  destruct parked; exact G.
Qed.

Lemma acc_ret_log s c x e : rellog (acc_ret s c x e) = rellog s.
Proof.
  unfold acc_ret. pose proof (release_call_by_log (setc s c (with_cpc x (CRel e))) (cref x) (Some c)) as G.
  destruct (release_call_by (setc s c (with_cpc x (CRel e))) (cref x) (Some c)) as [s1 parked]. cbn [fst] in G.
  destruct parked; exact G.
Qed.

Lemma acc_s1_log s c x : rellog (acc_s1 s c x) = rellog s.
Proof.
  unfold acc_s1. destruct (negb (Nat.eqb (ac_err x) 0)); [apply acc_ret_log|].
  destruct (ac_res x); [reflexivity|]. destruct (ccanc x); [apply acc_ret_log | reflexivity].
Qed.

Lemma cb_return_log fx s c res : rellog (cb_return fx s c res) = rellog s.
Proof.
  unfold cb_return. destruct (nth_error (conss s) c) as [x|]; [|reflexivity].
  destruct (ck x); try reflexivity. destruct (cpcv x); try reflexivity.
  destruct (ccanc x); [apply acc_ret_log|].
  match goal with |- _ (if ?b then _ else _) = _ => destruct b end; [apply acc_ret_log | reflexivity].
Qed.

Lemma cons_step_log s c : rellog (cons_step s c) = rellog s.
Proof.
  unfold cons_step. destruct (nth_error (conss s) c) as [x|]; [|reflexivity].
  destruct (ck x), (cpcv x); try reflexivity; try apply acc_s1_log.
  3:{ destruct (negb (Nat.eqb (ac_nonce x) (ac_snap x))); [apply acc_s1_log|]. destruct (ccanc x); [apply acc_ret_log | reflexivity]. }
  - destruct (cw_res x) as [[v e]|]; [destruct (Nat.eqb e 0); [reflexivity | apply cons_fail_log] | destruct (ccanc x); [apply cons_fail_log | reflexivity]].
  - destruct (ww_prom x) as [[v e]|]; [destruct (Nat.eqb e 0); [reflexivity | apply cons_fail_log] | destruct (ccanc x); [apply cons_fail_log | reflexivity]].
Qed.

Lemma proceed_log s g en : rellog (proceed repaired s g en) = rellog s.
Proof.
  unfold proceed. destruct (nth_error (gs s) g) as [x|]; [|reflexivity].
  destruct (gpcv x); try reflexivity.
  - destruct (gwait x); [|reflexivity]. destruct (pred_done s x && gcanc x); [destruct en; reflexivity|].
    destruct (pred_done s x); [reflexivity|]. destruct (gcanc x); reflexivity.
  - destruct (pred_done s x || gcanc x); [|reflexivity].
    destruct (gwait x); [|reflexivity]. destruct (pred_done s x && gcanc x); [destruct en; reflexivity|].
    destruct (pred_done s x); [reflexivity|]. destruct (gcanc x); reflexivity.
  - destruct (pred_done s x); reflexivity.
Qed.

Theorem step_log s e : Inv s -> log_step s e.
Proof.
  intros H. unfold log_step. destruct e; cbn [step invalidating].
  - (* SetContext *) unfold set_context. destruct (Nat.eqb_spec (kctx s) c) as [Ek|Ek]; [now left|]. cbn [fst].
    destruct (start_resolve_relstored (set_kctx s c)) as [[_ Hs]|[c0 [H1 [H2 H3]]]]; [now left|]. right. exists c0. split; [exact H3|]. left. auto.
  - left. now apply add_ref_log.
  - left. destruct (rkind (nth r (refs s) ref0)); try reflexivity; apply release_call_by_log.
  - (* removeRef section of an explicit Release *)
    unfold release_section. destruct (nth_error (relacts s) a) as [x|]; [|now left]. destruct (ra_pc x); [|now left].
    set (sa := set_relacts s _). set (s1 := remove_ref sa (ra_ref x)).
    assert (E : forall s2, (s2 = s1 \/ exists c y, s2 = set_conss s1 (set_nth (conss s1) c y)) -> rellog s2 = rellog s1 /\ nrefs s2 = nrefs s1).
    { intros s2 [->|[c [y ->]]]; split; reflexivity. }
    match goal with |- rellog ?t = _ \/ _ => assert (E2 : rellog t = rellog s1 /\ nrefs t = nrefs s1) end.
    { apply E. destruct (ra_cons x) as [c|]; [|now left]. destruct (cpcv (getc s1 c)); try (now left). right. eauto. }
    destruct E2 as [E2 E3]. rewrite E2, E3.
    destruct (remove_ref_log sa (ra_ref x)) as [Hl|[c [H1 [H2 [H3 [H4 [H5 H6]]]]]]]; [now left|].
    right. exists c. split; [exact H3|]. left. split; [exact H1|]. split; [exact H2|]. split; [exact H4|]. split; [exact H5 | exact H6].
  - (* released() *) destruct (nth_error (gs s) g) as [x|] eqn:Ex; [|now left]. unfold released_section.
    destruct (Nat.eqb_spec (nonce s) (gnonce x)) as [En|En]; [|now left].
    destruct (start_resolve_relstored s) as [[_ Hs]|[c0 [H1 [H2 H3]]]]; [now left|]. right. exists c0. split; [exact H3|]. left.
    split; [exact H1|]. split; [exact H2|]. exists x. auto.
  - (* asynchronous released() *) unfold async_section. destruct (nth_error (asyncs s) a) as [x|] eqn:Ex; [|now left].
    destruct (as_pc x) eqn:Ep; [|now left]. unfold released_section. set (sa := set_asyncs s _). change (nonce sa) with (nonce s).
    destruct (Nat.eqb_spec (nonce s) (as_nonce x)) as [En|En]; [|now left].
    destruct (start_resolve_relstored sa) as [[_ Hs]|[c0 [H1 [H2 H3]]]]; [now left|]. right. exists c0. split; [exact H3|]. left.
    split; [exact H1|]. split; [exact H2|]. exists x. auto.
  - left. apply proceed_log.
  - left. unfold resolver_return. destruct (nth_error (gs s) g); [|reflexivity]. destruct (gpcv g0); reflexivity.
  - (* store *) unfold store. destruct (nth_error (gs s) g) as [x|] eqn:Ex; [|now left]. destruct (gpcv x) eqn:Ep; try (now left).
    set (s0 := setg s g (with_gpc x GDone)). change (nonce s0) with (nonce s).
    destruct (Nat.eqb_spec (nonce s) (gnonce x)) as [En|En]; cbn [negb].
    + left. match goal with |- rellog (call_cbs ?a ?n) = _ => destruct (rest_fields a _ (rest_call_cbs a n)) as [_ [_ [_ [_ [_ [_ [_ [_ [_ [_ [_ [_ [_ [Q _]]]]]]]]]]]]]]; rewrite Q end.
      destruct (Nat.eqb e 0); reflexivity.
    + destruct hasrel; [|now left]. right. eexists. split; [reflexivity|]. right. exists g, x, v, e. cbn [rc_id rc_val]. repeat split; auto.
  - left. unfold start_consumer. rewrite add_ref_log; [reflexivity|]. now apply (Inv_ext s).
  - left. apply cons_step_log.
  - left. destruct (nth_error (conss s) c); reflexivity.
  - (* the goroutine spawned by WaitWithReleased's callback *)
    unfold fire_section. destruct (nth_error (conss s) c) as [x|]; [|now left]. destruct (ww_firepc x) as [[|]|]; try (now left).
    set (sa := setc s c _).
    destruct (remove_ref_log sa (cref x)) as [Hl|[c0 [H1 [H2 [H3 [H4 [H5 H6]]]]]]]; [now left|].
    right. exists c0. split; [exact H3|]. left. split; [exact H1|]. split; [exact H2|]. split; [exact H4|]. split; [exact H5 | exact H6].
  - left. apply cb_return_log.
  - left. destruct (Nat.eqb c 0); [reflexivity | apply (cancel_root_frame s c)].
  - left. destruct (watch_step_spec s c) as [->|[x [y [_ [-> _]]]]]; reflexivity.
Qed.

(* ------------------------------------------------------------------ *)
(* the order inside clearResolvedState: clear the target containers, tell every reference callback, cancel the resolve
   context, and only then call the release function *)
Definition clear_phase (s : st) : st :=
  if resolved s then
    call_cbs (set_val (set_target s (if Nat.eqb (value s) 0 then target s else 0) (if Nat.eqb (verr s) 0 then terr s else 0))
                      false 0 0 (vrel s) (vgen s)) NGone
  else s.
Definition cancel_phase (s : st) : st := set_rcancel (cancel_g s (rcancel s)) None.
Definition release_phase (v0 e0 : nat) (s : st) : st :=
  match vrel s with
  | Some id => set_val (log_release s id v0 e0) (resolved s) (value s) (verr s) None (vgen s)
  | None => s
  end.

Lemma clear_resolved_order s : clear_resolved s = release_phase (value s) (verr s) (cancel_phase (clear_phase s)).
Proof. reflexivity. Qed.

(* the release function is called in a state in which the resolve context of the stored generation is cancelled *)
Lemma cancel_phase_cancels s g : rcancel s = Some g -> g < length (gs s) -> gcanc (getg (cancel_phase s) g) = true.
Proof.
  intros Hr Hg. unfold cancel_phase, cancel_g. rewrite Hr.
  destruct (nth_error (gs s) g) as [x|] eqn:E; [|apply nth_error_None in E; lia].
  change (getg (set_rcancel ?a None) g) with (getg a g). rewrite getg_setg_same by exact Hg. reflexivity.
Qed.
