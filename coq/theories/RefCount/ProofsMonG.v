(* refcount: how the table of resolve goroutines evolves: every model event other than a resolver return is a sequence of
   three primitive changes (a resolve context is cancelled; a fresh goroutine is appended; a goroutine moves to another
   program point that is not the store gate). *)
From Util Require Import Common.Base Common.ListLemmas RefCount.Model RefCount.Spec RefCount.Proofs RefCount.ProofsC08 RefCount.ProofsMon RefCount.ProofsMon3.
Open Scope nat_scope.

Definition gcancel (x : gor) : gor :=
  {| gcanc := true; gwait := gwait x; gnonce := gnonce x; gpcv := gpcv x; gent := gent x; grel := grel x; groot := groot x |}.

(* the moves between program points, except the resolver return *)
Definition okmove (p p' : gpc) : Prop :=
  match p, p' with
  | (GGate0 | GWait), (GInRes | GDone | GWaitC | GWait) => True
  | GWaitC, GDone => True
  | GStore _ _ _, GDone => True
  | _, _ => False
  end.

Inductive gtr : list gor -> list gor -> Prop :=
| gtr_refl l : gtr l l
| gtr_cancel l g x l' : nth_error l g = Some x -> gtr (set_nth l g (gcancel x)) l' -> gtr l l'
| gtr_app l x l' : gpcv x = GGate0 -> grel x = false -> gent x = false -> gtr (l ++ [x]) l' -> gtr l l'
| gtr_pc l g x p l' : nth_error l g = Some x -> okmove (gpcv x) p -> gtr (set_nth l g (with_gpc x p)) l' -> gtr l l'.

Lemma gtr_trans l1 l2 l3 : gtr l1 l2 -> gtr l2 l3 -> gtr l1 l3.
Proof. induction 1; intros H3; eauto using gtr. Qed.

Lemma gtr_eq l l' : l' = l -> gtr l l'. Proof. intros ->. constructor. Qed.

(* a property of the goroutine table preserved by the three primitive changes is preserved along gtr *)
Lemma gtr_ind_prop (Q : list gor -> Prop) :
  (forall l g x, nth_error l g = Some x -> Q l -> Q (set_nth l g (gcancel x))) ->
  (forall l x, gpcv x = GGate0 -> grel x = false -> gent x = false -> Q l -> Q (l ++ [x])) ->
  (forall l g x p, nth_error l g = Some x -> okmove (gpcv x) p -> Q l -> Q (set_nth l g (with_gpc x p))) ->
  forall l l', gtr l l' -> Q l -> Q l'.
Proof. intros H1 H2 H3 l l' H. induction H; intros HQ; eauto. Qed.

Lemma gtr_cancel_g s og : gtr (gs s) (gs (cancel_g s og)).
Proof.
  unfold cancel_g. destruct og as [g|]; [|constructor]. destruct (nth_error (gs s) g) as [x|] eqn:E; [|constructor].
  rewrite gs_setg. apply (gtr_cancel _ g x); [exact E | constructor].
Qed.

Lemma gtr_clear_resolved s : gtr (gs s) (gs (clear_resolved s)).
Proof. destruct (clear_resolved_spec s) as [_ [_ [_ [_ [-> _]]]]]. apply gtr_cancel_g. Qed.

Lemma gtr_shutdown s : gtr (gs s) (gs (shutdown s)).
Proof. unfold shutdown. exact (gtr_clear_resolved (set_nonce s (S (nonce s)))). Qed.

Lemma gtr_start_resolve s : gtr (gs s) (gs (start_resolve s)).
Proof.
  unfold start_resolve. pose proof (gtr_shutdown s) as H. set (s1 := shutdown s) in *.
  destruct (Nat.eqb (kctx s1) 0 || Nat.eqb (nrefs s1) 0); [exact H|].
  apply (gtr_trans _ _ _ H). cbn [gs set_rcancel set_waitch set_gs]. eapply gtr_app; [| | |constructor]; reflexivity.
Qed.

Lemma gs_invoke s r n : gs (invoke s r n) = gs s.
Proof. apply (rest_fields s _ (rest_invoke s r n)). Qed.
Lemma gs_call_cbs s n : gs (call_cbs s n) = gs s.
Proof. apply (rest_fields s _ (rest_call_cbs s n)). Qed.

Lemma gtr_add_ref s k : gtr (gs s) (gs (add_ref repaired s k)).
Proof.
  unfold add_ref. set (s1 := set_refs s _). change (gs s) with (gs s1).
  destruct (Nat.eqb (nrefs s1) 1 && negb (resolved s1)); [apply gtr_start_resolve|].
  destruct (resolved s1); [|constructor]. destruct k; cbn [fx_nilcb repaired]; try constructor; apply gtr_eq, gs_invoke.
Qed.

Lemma gtr_remove_ref s r : gtr (gs s) (gs (remove_ref s r)).
Proof.
  unfold remove_ref. destruct (nth_error (refs s) r) as [x|]; [|constructor]. destruct (rin x); [|constructor].
  set (s1 := set_refs s _). change (gs s) with (gs s1). destruct (Nat.eqb (nrefs s1) 0 && _); [apply gtr_shutdown | constructor].
Qed.

Lemma gtr_setpc s g x p : nth_error (gs s) g = Some x -> okmove (gpcv x) p -> gtr (gs s) (gs (setg s g (with_gpc x p))).
Proof. intros Hx Hm. rewrite gs_setg. apply (gtr_pc _ g x p); [exact Hx | exact Hm | constructor]. Qed.

Lemma gtr_proceed s g en : gtr (gs s) (gs (proceed repaired s g en)).
Proof.
  unfold proceed. destruct (nth_error (gs s) g) as [x|] eqn:Ex; [|constructor].
  destruct (gpcv x) eqn:Ep; try constructor.
  - destruct (gwait x); [|apply gtr_setpc; [exact Ex | now rewrite Ep]].
    destruct (pred_done s x && gcanc x); [destruct en; (apply gtr_setpc; [exact Ex | now rewrite Ep])|].
    destruct (pred_done s x); [apply gtr_setpc; [exact Ex | now rewrite Ep]|].
    destruct (gcanc x); cbn [fx_wait repaired]; (apply gtr_setpc; [exact Ex | now rewrite Ep]).
  - destruct (pred_done s x || gcanc x); [|constructor].
    destruct (gwait x); [|apply gtr_setpc; [exact Ex | now rewrite Ep]].
    destruct (pred_done s x && gcanc x); [destruct en; (apply gtr_setpc; [exact Ex | now rewrite Ep])|].
    destruct (pred_done s x); [apply gtr_setpc; [exact Ex | now rewrite Ep]|].
    destruct (gcanc x); cbn [fx_wait repaired]; (apply gtr_setpc; [exact Ex | now rewrite Ep]).
  - destruct (pred_done s x); [apply gtr_setpc; [exact Ex | now rewrite Ep] | constructor].
Qed.

Lemma gtr_store s g : gtr (gs s) (gs (store s g)).
Proof.
  unfold store. destruct (nth_error (gs s) g) as [x|] eqn:Ex; [|constructor]. destruct (gpcv x) eqn:Ep; try constructor.
  assert (H0 : gtr (gs s) (gs (setg s g (with_gpc x GDone)))) by (apply gtr_setpc; [exact Ex | now rewrite Ep]).
  set (s0 := setg s g (with_gpc x GDone)) in *. destruct (negb (Nat.eqb (nonce s0) (gnonce x))); [destruct hasrel; exact H0|].
  rewrite gs_call_cbs. destruct (Nat.eqb e 0); exact H0.
Qed.

Lemma gtr_cancel_root s c : gtr (gs s) (gs (cancel_root s c)).
Proof.
  unfold cancel_root. generalize (seq 0 (length (gs s))). intros l. change (gs s) with (gs (set_rootc s (c :: rootc s))).
  generalize (set_rootc s (c :: rootc s)). induction l as [|g l IH]; intros s0; [constructor|]. cbn [fold_left].
  destruct (Nat.eqb (groot (getg s0 g)) c); [|apply IH]. exact (gtr_trans _ _ _ (gtr_cancel_g s0 (Some g)) (IH _)).
Qed.

Lemma gtr_step s e : (forall g v hr er, e <> EResReturn g v hr er) -> gtr (gs s) (gs (step repaired s e)).
Proof.
  intros Hne. destruct e; cbn [step].
  - unfold set_context. destruct (Nat.eqb (kctx s) c); [constructor|]. cbn [fst]. exact (gtr_start_resolve (set_kctx s c)).
  - apply gtr_add_ref.
  - destruct (rkind (nth r (refs s) ref0)); try constructor; apply gtr_eq; apply (cf_release_call_by gs); reflexivity.
  - unfold release_section. destruct (nth_error (relacts s) a) as [x|]; [|constructor]. destruct (ra_pc x); [|constructor].
    set (sa := set_relacts s _). set (s1 := remove_ref sa (ra_ref x)).
    assert (E : gtr (gs s) (gs s1)) by (exact (gtr_remove_ref sa (ra_ref x))).
    destruct (ra_cons x) as [c|]; [|exact E]. destruct (cpcv (getc s1 c)); exact E.
  - destruct (nth_error (gs s) g) as [x|]; [|constructor]. unfold released_section.
    destruct (Nat.eqb (nonce s) (gnonce x)); [apply gtr_start_resolve | constructor].
  - unfold async_section. destruct (nth_error (asyncs s) a) as [x|]; [|constructor]. destruct (as_pc x); [|constructor].
    unfold released_section. set (sa := set_asyncs s _). change (gs s) with (gs sa).
    destruct (Nat.eqb (nonce sa) (as_nonce x)); [apply gtr_start_resolve | constructor].
  - apply gtr_proceed.
  - exfalso. exact (Hne _ _ _ _ eq_refl).
  - apply gtr_store.
  - unfold start_consumer. exact (gtr_add_ref (set_conss s _) _).
  - apply gtr_eq, gs_cons_step.
  - destruct (nth_error (conss s) c); constructor.
  - unfold fire_section. destruct (nth_error (conss s) c) as [x|]; [|constructor]. destruct (ww_firepc x) as [[|]|]; try constructor.
    exact (gtr_remove_ref (setc s c _) (cref x)).
  - apply gtr_eq. apply (cf_cb_return gs); reflexivity.
  - destruct (Nat.eqb c 0); [constructor | apply gtr_cancel_root].
  - destruct (watch_step_spec s c) as [->|[x [y [_ [-> _]]]]]; constructor.
Qed.

Lemma gtr_settle s : gtr (gs s) (gs (settle s)).
Proof.
  destruct (settle_run s) as [es [-> F]]. apply (run_internal (fun s0 => gtr (gs s) (gs s0))); [exact F | | constructor].
  intros s0 e He H. apply (gtr_trans _ _ _ H). apply gtr_step. intros g v hr er E. subst e. exact He.
Qed.

(* ------------------------------------------------------------------ *)
(* consequences *)
Definition returned (p : gpc) : bool := match p with GStore _ _ _ | GDone => true | _ => false end.

(* a goroutine whose resolver call has returned keeps its "returned a release function" ghost *)
Definition Pret (i : nat) (l : list gor) : Prop := exists x, nth_error l i = Some x /\ returned (gpcv x) = true /\ grel x = true.

Lemma Pret_gtr i l l' : gtr l l' -> Pret i l -> Pret i l'.
Proof.
  apply (gtr_ind_prop (Pret i)).
  - intros l0 g x Hx [y [Hy [A B]]]. assert (Hl : g < length l0) by (eapply nth_error_nth_len; eauto). destruct (Nat.eq_dec i g) as [->|Hne].
    + exists (gcancel x). rewrite nth_error_set_nth_same by exact Hl. assert (y = x) by congruence. subst y. auto.
    + exists y. rewrite nth_error_set_nth_other by exact Hne. auto.
  - intros l0 x _ _ _ [y [Hy AB]]. exists y. split; [|exact AB]. rewrite nth_error_app1; [exact Hy | eapply nth_error_nth_len; eauto].
  - intros l0 g x p Hx Hm [y [Hy [A B]]]. assert (Hl : g < length l0) by (eapply nth_error_nth_len; eauto). destruct (Nat.eq_dec i g) as [->|Hne].
    + exists (with_gpc x p). rewrite nth_error_set_nth_same by exact Hl. assert (y = x) by congruence. subst y.
      split; [reflexivity|]. unfold okmove in Hm. destruct (gpcv x); try discriminate A; destruct p; try contradiction. cbn. auto.
    + exists y. rewrite nth_error_set_nth_other by exact Hne. auto.
Qed.

(* results at the store gate: none appears, and a goroutine there stays until its store section *)
Definition at_store (i : nat) (v : nat) (hr : bool) (e : nat) (l : list gor) : Prop :=
  exists x, nth_error l i = Some x /\ gpcv x = GStore v hr e.

Lemma no_new_store i v hr e l l' : gtr l l' -> at_store i v hr e l' -> at_store i v hr e l.
Proof.
  intros H. induction H as [l|l g x l' Hx _ IH|l x l' Hp _ _ _ IH|l g x p l' Hx Hm _ IH]; intros Hs; auto.
  - destruct (IH Hs) as [y [Hy Ep]]. assert (Hl : g < length l) by (eapply nth_error_nth_len; eauto). destruct (Nat.eq_dec i g) as [->|Hne].
    + rewrite nth_error_set_nth_same in Hy by exact Hl. inversion Hy; subst y. exists x. auto.
    + rewrite nth_error_set_nth_other in Hy by exact Hne. exists y. auto.
  - destruct (IH Hs) as [y [Hy Ep]]. destruct (nth_error_snoc_cases _ _ _ _ Hy) as [[_ H0]|[_ ->]]; [exists y; auto | congruence].
  - destruct (IH Hs) as [y [Hy Ep]]. assert (Hl : g < length l) by (eapply nth_error_nth_len; eauto). destruct (Nat.eq_dec i g) as [->|Hne].
    + rewrite nth_error_set_nth_same in Hy by exact Hl. inversion Hy; subst y. cbn [gpcv with_gpc] in Ep. subst p.
      unfold okmove in Hm. destruct (gpcv x); contradiction.
    + rewrite nth_error_set_nth_other in Hy by exact Hne. exists y. auto.
Qed.

Lemma gtr_length l l' : gtr l l' -> length l <= length l'.
Proof.
  induction 1 as [l|l g x l' _ _ IH|l x l' _ _ _ _ IH|l g x p l' _ _ _ IH]; auto.
  - now rewrite length_set_nth in IH.
  - rewrite app_length in IH. cbn in IH. lia.
  - now rewrite length_set_nth in IH.
Qed.
