(* C10 - refcount: a value returned by Wait, Resolve or ResolveWithReleased is not released before the caller releases
   the returned reference, unless it was invalidated, in which case the released callback (if given) fires exactly once.
   Access invokes its callback with the value that was current when Access last looked; whenever that value is
   invalidated, before or during the callback, the callback's context is cancelled promptly and after the callback
   returns it is invoked again with the replacement value; Access returns the callback's own result only from an
   invocation whose value was not invalidated between the moment Access looked and the callback's return; a resolver
   error or a cancelled caller context is returned as such.
   Statements only, about the gate-level model RefCount.Model (REPAIRED code), for ALL event lists.  The Access theorems
   do not need [wf_ev]: they also hold when resolver values repeat across generations (the ABA shape).
   NOT PROVED (stated for completeness): that the value a Wait / ResolveWithReleased consumer returned is one of the
   delivered values, i.e.
     forall c x v, nth_error (conss s) c = Some x -> cpcv x = CRet v 0 true -> exists g, v = S g /\ gdone (getg s g) = true;
   with it, the second disjunct of c10_returned_value_not_released_while_held (a superseded goroutine releasing its own
   result g+1, which by c08_pending_value_not_in_circulation was never delivered to any reference) could be excluded
   for the consumer's value syntactically.  The monitors check this clause on every implementation trace (clause 10.1).
   Modelling notes for Access: its private Broadcast is not gated, so section S1 (look), the check after the callback
   (S2) and the wake-up from the wait are steps of the consumer itself ([cons_step], [cb_return]) that may be delayed
   arbitrarily in the theorems; when both the caller's cancellation and a change are pending at the wait, the model
   takes the change first (Go's select may take either; the result of the other order is the cancellation branch). *)
From Util Require Import Common.Base Common.ListLemmas RefCount.Model RefCount.Proofs RefCount.ProofsC08 RefCount.ProofsC08b RefCount.ProofsC10
  RefCount.ProofsC10a RefCount.ProofsC10b.
From Util Require Import RefCount.Spec RefCount.ProofsMon RefCount.ProofsMon2 RefCount.ProofsMonThm RefCount.ProofsMonThm2.

(* while some reference (in particular the one returned to the caller) is in the set before and after a step, that step
   calls a release function only if it invalidates the stored value (SetContext with a different context, released() of
   the current generation, synchronous or asynchronous) or if it is the store section of a superseded goroutine
   releasing its own, never delivered result *)
Theorem c10_returned_value_not_released_while_held : forall ku es e r c, Forall wf_ev es ->
  let s := run repaired (init ku) es in
  rin (nth r (refs (step repaired s e)) ref0) = true -> rellog (step repaired s e) = rellog s ++ [c] ->
  (vrel s = Some (rc_id c) /\ rc_val c = value s /\
   ((exists ctx, e = ESetCtx ctx /\ kctx s <> ctx) \/
    (exists g x, e = EReleased g /\ nth_error (gs s) g = Some x /\ gnonce x = nonce s) \/
    (exists a x, e = EAsync a /\ nth_error (asyncs s) a = Some x /\ as_pc x = AParked /\ as_nonce x = nonce s))) \/
  (exists g x v er, e = EStore g /\ rc_id c = g /\ rc_val c = v /\ nth_error (gs s) g = Some x /\
                    gpcv x = GStore v true er /\ gnonce x <> nonce s).
Proof. intros ku es e r c Hwf. exact (held_reference_blocks_release _ e r c (run_inv ku es Hwf)). Qed.
Print Assumptions c10_returned_value_not_released_while_held.

(* the released callback fires at most once *)
Theorem c10_released_fires_at_most_once : forall ku es c x,
  nth_error (conss (run repaired (init ku) es)) c = Some x -> ww_fired x <= 1.
Proof. exact released_fires_at_most_once. Qed.
Print Assumptions c10_released_fires_at_most_once.

(* an invalidation ("gone", or a result under another nonce) notified to the callback of a WaitWithReleased consumer
   that has returned its value ([ww_res]) and not yet fired: callReleasedOnce fires - at once if the reference had been
   released already, otherwise the spawned goroutine takes the reference's release flag and parks before removeRef *)
Theorem c10_released_fires_after_invalidation : forall s r n rx c x,
  nth_error (refs s) r = Some rx -> rkind rx = KWwr c -> nth_error (conss s) c = Some x ->
  ww_res x = true -> ww_once x = false ->
  (n = NGone \/ exists v e, n = NRes v e /\ nonce s <> ww_nonce x) ->
  exists y, nth_error (conss (invoke s r n)) c = Some y /\ ww_once y = true /\
    ((rflag rx = true /\ ww_fired y = S (ww_fired x) /\ ww_firepc y = Some RDone) \/
     (rflag rx = false /\ ww_fired y = ww_fired x /\ ww_firepc y = Some RGate /\ rflag (nth r (refs (invoke s r n)) ref0) = true)).
Proof. exact wwr_invalidation_fires. Qed.
Print Assumptions c10_released_fires_after_invalidation.

(* ... and the section of that goroutine fires it: exactly once in total; nothing the container does afterwards moves
   the count *)
Theorem c10_fire_goroutine_fires_exactly_once : forall ku es c x,
  let s := run repaired (init ku) es in
  nth_error (conss s) c = Some x -> ww_firepc x = Some RGate ->
  ww_fired x = 0 /\
  exists y, nth_error (conss (fire_section s c)) c = Some y /\ ww_once y = true /\ ww_fired y = 1 /\ ww_firepc y = Some RDone.
Proof.
  intros ku es c x s Hx Hf. pose proof (run_InvC ku es c x Hx) as Hok. split.
  - unfold cons_ok in Hok. rewrite Hf in Hok. apply Hok.
  - exact (fire_section_fires s c x Hx Hok Hf).
Qed.
Print Assumptions c10_fire_goroutine_fires_exactly_once.

Theorem c10_fired_count_stable : forall k0 c s e,
  match e with ERelSect _ | EStartCons _ | EConsStep _ | EConsCancel _ | EFire _ | ECbReturn _ _ | EWatch _ => False | _ => True end ->
  fired_done c k0 (conss s) -> fired_done c k0 (conss (step repaired s e)).
Proof. exact fired_stays. Qed.
Print Assumptions c10_fired_count_stable.

(* what Wait / ResolveWithReleased return ([cres] = the promise fed by the reference callback): a value comes with the
   held reference; the resolver's error e, or Canceled (1) when the caller's context is cancelled first, is passed
   through as such with the zero value, the reference being released (CRel: inside its own Release; CRet _ _ false:
   released) *)
Theorem c10_error_and_cancel_passthrough : forall s c x,
  nth_error (conss s) c = Some x -> cpcv x = CBlocked -> ck x <> CKAccess ->
  let p := cpcv (getc (cons_step s c) c) in
  match cres x with
  | Some (v, 0) => p = CRet v 0 true
  | Some (v, S e) => p = CRel (S e) \/ p = CRet 0 (S e) false
  | None => if ccanc x then p = CRel 1 \/ p = CRet 0 1 false else p = CBlocked
  end.
Proof. exact cons_step_result. Qed.
Print Assumptions c10_error_and_cancel_passthrough.

(* ---------------- Access ---------------- *)
(* while an Access call runs (loop top, waiting, or inside its callback) its private reference is in the set and is the
   one that carries its callback: every change of the container is told to it *)
Theorem c10_access_reference_in_set : forall ku es c x,
  let s := run repaired (init ku) es in
  nth_error (conss s) c = Some x -> ck x = CKAccess -> attached_pc (cpcv x) = true ->
  rin (rref s (cref x)) = true /\ rflag (rref s (cref x)) = false /\ rkind (rref s (cref x)) = KAccess c.
Proof. exact access_ref_in_set. Qed.
Print Assumptions c10_access_reference_in_set.

(* inside the callback, while its context is not cancelled and the watcher goroutine that is to cancel it has not been woken,
   the value it was invoked with is the container's current value (resolved, no error), and no change was notified since
   Access looked (section S1).  [ac_wpark]: the watcher goroutine of the invocation (`go func(){ select {...; case <-waitCh:
   cbCancel() } }()`) was woken by a change and stands before its cbCancel() - hook site 5; its step is the event [EWatch] *)
Theorem c10_access_called_with_current_value : forall ku es c x v,
  let s := run repaired (init ku) es in
  nth_error (conss s) c = Some x -> ck x = CKAccess -> cpcv x = CAccCb v -> ac_cbcanc x = false -> ac_wpark x = false ->
  resolved s = true /\ value s = v /\ verr s = 0 /\ ac_nonce x = ac_snap x.
Proof. exact access_called_with_current_value. Qed.
Print Assumptions c10_access_called_with_current_value.

(* whenever the value the callback holds is invalidated - nothing resolved, another value, an error - before or during the
   callback, the callback's context is cancelled or the watcher goroutine of the invocation has been woken (in every reachable
   state: in the same section as the invalidation) and its step - enabled, it waits for nothing - cancels the context: "promptly"
   = as soon as the watcher goroutine has run.  (Before the watcher was a schedule point of its own the statement read
   "... -> ac_cbcanc x = true"; with the watcher between its wake-up and its cbCancel() that is false:
   [ESetCtx 1; EStartCons 2; EProceed 0 true; EResReturn 0 1 false 0; EStore 0; EConsStep 0; ESetCtx 2] leaves the callback
   running with an uncancelled context and the watcher parked: example c10_example_access_watcher below.) *)
Theorem c10_access_ctx_cancelled_on_invalidation : forall ku es c x v,
  let s := run repaired (init ku) es in
  nth_error (conss s) c = Some x -> ck x = CKAccess -> cpcv x = CAccCb v ->
  (resolved s = false \/ value s <> v \/ verr s <> 0) -> ac_cbcanc x = true \/ ac_wpark x = true.
Proof. exact access_ctx_cancelled_on_invalidation. Qed.
Theorem c10_access_watcher_cancels : forall ku es c x,
  let s := run repaired (init ku) es in
  nth_error (conss s) c = Some x -> ac_wstale x = 0 -> ac_wpark x = true ->
  ac_cbcanc (getc (step repaired s (EWatch c)) c) = true /\ ac_wpark (getc (step repaired s (EWatch c)) c) = false.
Proof. exact access_watcher_cancels. Qed.
Print Assumptions c10_access_ctx_cancelled_on_invalidation.
Print Assumptions c10_access_watcher_cancels.

(* the callback returns: Canceled if the caller's context is cancelled; the callback's own result only if no change was
   notified since Access looked (every notification moves [ac_nonce] past the snapshot, also when the value is equal
   again, and whether or not the watcher goroutine has cancelled the callback's context yet); otherwise Access goes back
   to the top of its loop *)
Theorem c10_access_returns_only_unraced_result : forall s c x v res,
  nth_error (conss s) c = Some x -> ck x = CKAccess -> cpcv x = CAccCb v ->
  let p := cpcv (getc (cb_return repaired s c res) c) in
  let rc := match res with 1 => if ac_cbcanc x || ccanc x then 1 else 0 | _ => res end in
  if ccanc x then p = CRel 1 \/ p = CAccRet 1
  else if Nat.eqb (ac_nonce x) (ac_snap x) then p = CRel rc \/ p = CAccRet rc
  else p = CBlocked.
Proof. exact cb_return_result. Qed.
Theorem c10_access_nonce_never_behind_snapshot : forall ku es c x,
  nth_error (conss (run repaired (init ku) es)) c = Some x -> ac_snap x <= ac_nonce x.
Proof. exact access_nonce_ge_snapshot. Qed.
Print Assumptions c10_access_returns_only_unraced_result.

(* the top of the loop: a resolver error is returned as such; a resolved value is handed to the callback with a fresh
   context (this is the re-invocation with the replacement); otherwise Canceled or wait *)
Theorem c10_access_reinvoked_with_replacement : forall s c x,
  nth_error (conss s) c = Some x -> ck x = CKAccess ->
  (cpcv x = CBlocked \/ (cpcv x = CAccWait /\ ac_nonce x <> ac_snap x)) ->
  let y := getc (cons_step s c) c in
  if negb (Nat.eqb (ac_err x) 0) then cpcv y = CRel (ac_err x) \/ cpcv y = CAccRet (ac_err x)
  else if ac_res x then cpcv y = CAccCb (ac_val x) /\ ac_cbcanc y = false /\ ac_nonce y = ac_snap y
  else if ccanc x then cpcv y = CRel 1 \/ cpcv y = CAccRet 1
  else cpcv y = CAccWait /\ ac_nonce y = ac_snap y.
Proof. exact access_loop_step. Qed.
Print Assumptions c10_access_reinvoked_with_replacement.

(* at rest (Access's own steps not enabled) with a stored value, a running Access call is inside its callback - with the
   current value, or still inside an invalidated invocation whose context is cancelled; with a stored error it is not
   waiting either (the error was, or is being, returned) *)
Theorem c10_access_in_callback_at_rest : forall ku es c x,
  let s := run repaired (init ku) es in
  nth_error (conss s) c = Some x -> ck x = CKAccess -> attached_pc (cpcv x) = true -> acc_settled x = true ->
  resolved s = true ->
  exists v, cpcv x = CAccCb v /\ (ac_cbcanc x = false -> ac_wpark x = false -> v = value s /\ verr s = 0) /\
            (verr s <> 0 -> ac_cbcanc x = true \/ ac_wpark x = true).
Proof. exact access_reinvoked_at_rest. Qed.
Print Assumptions c10_access_in_callback_at_rest.

(* a cancelled caller context while waiting: Canceled; the final Release lets the call return the code it decided on *)
Theorem c10_access_error_passthrough : forall s c x,
  nth_error (conss s) c = Some x -> ck x = CKAccess -> cpcv x = CAccWait -> ac_nonce x = ac_snap x -> ccanc x = true ->
  cpcv (getc (cons_step s c) c) = CRel 1 \/ cpcv (getc (cons_step s c) c) = CAccRet 1.
Proof. exact access_wait_cancelled. Qed.
Theorem c10_access_release_returns : forall s a y c e,
  nth_error (relacts s) a = Some y -> ra_pc y = RGate -> ra_cons y = Some c -> c < length (conss s) ->
  ck (getc s c) = CKAccess -> cpcv (getc s c) = CRel e ->
  cpcv (getc (release_section s a) c) = CAccRet e.
Proof. exact access_release_returns. Qed.
Print Assumptions c10_access_error_passthrough.
Print Assumptions c10_access_release_returns.

(* the seeded variant C10_A (after the callback, "value equal again" counts as unchanged): with equal values across
   generations Access returns the result (here: the callback's ctx.Err() = Canceled, the caller's context being live) of
   an invocation that was invalidated; the repaired code loops and invokes the callback again *)
Theorem c10_pinned_aba_refuted :
  let x := getc (run pinned_c10a (init false) c10a_witness) 0 in
  cpcv x = CRel 1 /\ ccanc x = false /\ ac_nonce x <> ac_snap x.
Proof. exact c10a_refuted. Qed.
Theorem c10_aba_repaired_reinvokes :
  cpcv (getc (run repaired (init false) c10a_witness) 0) = CBlocked /\
  cpcv (getc (run repaired (init false) (c10a_witness ++ [EConsStep 0])) 0) = CAccCb 7.
Proof. exact c10a_repaired_loops. Qed.

(* ---- non-vacuity ---- *)
(* ResolveWithReleased returns value 1 and holds its reference; released() invalidates it: the callback's goroutine is
   spawned and parks; its section fires the released callback once *)
Definition ex_wwr : list ev :=
  [ESetCtx 1; EStartCons 1; EProceed 0 true; EResReturn 0 1 true 0; EStore 0; EConsStep 0; EReleased 0].
Example c10_example_invalidated_fires_once :
  Forall wf_ev ex_wwr /\
  let s := run repaired (init false) ex_wwr in
  cpcv (getc s 0) = CRet 1 0 true /\ ww_firepc (getc s 0) = Some RGate /\ ww_fired (getc s 0) = 0 /\
  map rc_id (rellog s) = [0] /\
  ww_fired (getc (step repaired s (EFire 0)) 0) = 1 /\ ww_firepc (getc (step repaired s (EFire 0)) 0) = Some RDone.
Proof. split; [repeat constructor; discriminate | vm_compute; repeat split; reflexivity]. Qed.

(* Wait holds its reference: another reference's Release does not release the value; the caller's own Release does *)
Example c10_example_held_blocks_release :
  let es := [ESetCtx 1; EAddRef 1; EStartCons 0; EProceed 0 true; EResReturn 0 1 true 0; EStore 0; EConsStep 0; ERelease 0; ERelSect 0] in
  let s := run repaired (init false) es in
  cpcv (getc s 0) = CRet 1 0 true /\ rellog s = [] /\ nrefs s = 1 /\
  map rc_id (rellog (run repaired s [ERelease 1; ERelSect 1])) = [0].
Proof. vm_compute. repeat split; reflexivity. Qed.

(* error and cancellation are passed through *)
Example c10_example_error_passthrough :
  let s := run repaired (init false) [ESetCtx 1; EStartCons 0; EProceed 0 true; EResReturn 0 1 false 7; EStore 0; EConsStep 0; ERelSect 0] in
  cpcv (getc s 0) = CRet 0 7 false /\ nrefs s = 0.
Proof. vm_compute. repeat split; reflexivity. Qed.
(* the error comes with the empty value; the state is invalidated while ResolveWithReleased is still inside its own
   Release (flag swapped, removeRef section pending): its callback is told "gone", the released callback fires once (at
   once: the reference's flag is already set); the call then returns the error as such *)
Example c10_example_error_empty_passthrough :
  let s := run repaired (init false) [ESetCtx 1; EStartCons 1; EProceed 0 true; EResReturn 0 0 false 7; EStore 0; EConsStep 0] in
  cpcv (getc s 0) = CRel 7 /\ ww_fired (getc s 0) = 0 /\ map rlast (refs s) = [Some (NRes 0 7)] /\
  let s1 := step repaired s (ESetCtx 2) in
  cpcv (getc s1 0) = CRel 7 /\ ww_fired (getc s1 0) = 1 /\ ww_firepc (getc s1 0) = Some RDone /\ map rlast (refs s1) = [Some NGone] /\
  let s2 := step repaired s1 (ERelSect 0) in
  cpcv (getc s2 0) = CRet 0 7 false /\ ww_fired (getc s2 0) = 1 /\ nrefs s2 = 0.
Proof. vm_compute. repeat split; reflexivity. Qed.
Example c10_example_cancel_passthrough :
  let s := run repaired (init false) [ESetCtx 1; EStartCons 1; EConsCancel 0; EConsStep 0; ERelSect 0] in
  cpcv (getc s 0) = CRet 0 1 false.
Proof. vm_compute. reflexivity. Qed.

(* Access: invoked with the current value; invalidated during the callback (the watcher goroutine is woken, its step cancels
   the context); after the callback returns it waits, and is invoked again with the replacement; an unraced result is returned *)
Example c10_example_access :
  let es := [ESetCtx 1; EStartCons 2; EConsStep 0; EProceed 0 true; EResReturn 0 1 true 0; EStore 0; EConsStep 0] in
  let s := run repaired (init false) es in
  cpcv (getc s 0) = CAccCb 1 /\ ac_cbcanc (getc s 0) = false /\ value s = 1 /\
  let s0 := run repaired s [ESetCtx 2] in
  cpcv (getc s0 0) = CAccCb 1 /\ ac_cbcanc (getc s0 0) = false /\ ac_wpark (getc s0 0) = true /\ resolved s0 = false /\
  let s1 := run repaired s0 [EWatch 0] in
  cpcv (getc s1 0) = CAccCb 1 /\ ac_cbcanc (getc s1 0) = true /\ ac_wpark (getc s1 0) = false /\
  let s2 := run repaired s1 [ECbReturn 0 10; EConsStep 0] in
  cpcv (getc s2 0) = CAccWait /\
  let s3 := run repaired s2 [EProceed 1 true; EResReturn 1 2 false 0; EStore 1; EConsStep 0] in
  cpcv (getc s3 0) = CAccCb 2 /\ ac_cbcanc (getc s3 0) = false /\
  let s4 := run repaired s3 [ECbReturn 0 11; ERelSect 0] in
  cpcv (getc s4 0) = CAccRet 11 /\ nrefs s4 = 0.
Proof. vm_compute. repeat split; reflexivity. Qed.

(* the callback returns in the window between the invalidation and the watcher's cbCancel(): its context is not cancelled
   (it returns ctx.Err() = nil), and still its result is NOT returned: the nonce has moved; it is invoked again with the
   replacement, whose result is returned; the parked watcher of the first invocation goes away without effect *)
Example c10_example_access_watcher :
  let es := [ESetCtx 1; EStartCons 2; EConsStep 0; EProceed 0 true; EResReturn 0 1 false 0; EStore 0; EConsStep 0; ESetCtx 2] in
  let s := run repaired (init false) es in
  cpcv (getc s 0) = CAccCb 1 /\ ac_cbcanc (getc s 0) = false /\ ac_wpark (getc s 0) = true /\ resolved s = false /\
  let s1 := run repaired s [ECbReturn 0 1; EConsStep 0] in
  cpcv (getc s1 0) = CAccWait /\ ac_wpark (getc s1 0) = false /\ ac_wstale (getc s1 0) = 1 /\
  let s2 := run repaired s1 [EProceed 1 true; EResReturn 1 2 false 0; EStore 1; EConsStep 0; EWatch 0] in
  cpcv (getc s2 0) = CAccCb 2 /\ ac_cbcanc (getc s2 0) = false /\ ac_wstale (getc s2 0) = 0 /\
  let s3 := run repaired s2 [ECbReturn 0 11; ERelSect 0] in
  cpcv (getc s3 0) = CAccRet 11.
Proof. vm_compute. repeat split; reflexivity. Qed.

Example c10_example_access_error :
  let s := run repaired (init false) [ESetCtx 1; EStartCons 2; EConsStep 0; EProceed 0 true; EResReturn 0 1 false 3; EStore 0; EConsStep 0; ERelSect 0] in
  cpcv (getc s 0) = CAccRet 3.
Proof. vm_compute. reflexivity. Qed.

(* ---- the monitors that are evaluated on the implementation's traces, tied to this model ----
   THE FULL STATEMENT.  For EVERY configuration the codec accepts (also the constant-value configuration [k; 1] of the ABA
   shape) and EVERY list of harness events: on the observations the model itself produces (eager schedule of Spec.hstep; the
   run stops at the first event the model does not accept) the monitors [Spec.mon] - ALL clauses of C08, C09 and C10, nothing
   filtered - report nothing: 10.1 (not released while held), 10.2 (released callback at most once), 10.3 (fired once after an
   invalidation, at rest), 10.4 (Access passes the current value), 10.5 (invalidated => the callback's context is cancelled promptly: as soon as the watcher goroutine of the invocation is no longer
   parked before its cbCancel()),
   10.6 (the callback's result is returned only from an invocation that was not invalidated; re-invocation at rest),
   10.7 (resolver error / Canceled returned as such), 10.8 (a Wait / Resolve / ResolveWithReleased call that fails returns the resolver's
   error or context.Canceled: no consumer has status 7 = "returned a context error that is not context.Canceled itself", which is what the
   harness reports when a caller whose context ended like a deadline, or was cancelled with a cause, is handed context.DeadlineExceeded / the
   cause), and the observations always parse.
   So these monitors cannot raise an alarm on an implementation that behaves like the model, and the model satisfies the property
   in exactly the form the checks evaluate it.  Behind 10.4 - 10.7: the judge's books of Spec.mon1 (inside the callback, its
   context cancelled, invalidated since the invocation started, decided to return: expected code and whether a callback result)
   are tied to the model state by an invariant of the codec's states ([Racc2] in ProofsMon22.v): "invalidated" holds exactly when
   Access's nonce has left its snapshot; "decided" holds exactly when the consumer is inside its final Release or has returned,
   and the expected code is the code it returns; every Access consumer the eager schedule has left is inside its callback,
   waiting with an unchanged nonce and an uncancelled caller, or returning.  The monitors' idea of the stored generation is the
   model's in every configuration (light invariant [InvLt] of ProofsMon17.v: no generation-unique values needed). *)
Theorem c10_model_satisfies_monitors : forall cfg evs,
  monitor mon 0 (minit cfg) [] evs (run_obs step_opt (hinit cfg) evs) = [].
Proof. exact model_satisfies_monitors. Qed.
Print Assumptions c10_model_satisfies_monitors.

(* hence the extracted checker [run_check_refcount] reports nothing at all (no BadEvent, no Mismatch, no PropFalse) on any
   history that the model accepts completely *)
Theorem c10_model_run_check_clean : forall cfg evs,
  length (run_obs step_opt (hinit cfg) evs) = length evs ->
  run_check_refcount cfg evs (run_obs step_opt (hinit cfg) evs) = [].
Proof. exact model_run_check_clean. Qed.
Print Assumptions c10_model_run_check_clean.

(* the hypothesis is satisfiable and the run is not trivial: the ABA history in the constant-value configuration (the value 7
   is invalidated and resolved again while the Access callback runs: the first result, 10, is NOT returned; the callback is
   invoked again and its result 11 is returned after the final Release) is accepted completely and judged clean *)
Example c10_example_monitors_aba :
  let evs := [[1; 1]; [10; 2]; [7; 0; 1]; [8; 0; 1; 0]; [9; 0]; [5; 0]; [7; 1; 1]; [8; 1; 1; 0]; [9; 1]; [13; 0; 10]; [13; 0; 11]; [4; 0]]%N in
  let obs := run_obs step_opt (hinit [0; 1]%N) evs in
  length obs = length evs /\ run_check_refcount [0; 1]%N evs obs = [] /\
  (* the consumer's row (code v parked-watchers held fired firepc) after the first return, after the second, and at the end
     (the watcher of the first invocation was woken by released() and is still parked: the callback returned before its cbCancel()) *)
  map (fun o => skipn (length o - 6) o) (skipn 9 obs) = [[6; 7; 1; 0; 0; 0]; [2; 0; 1; 0; 0; 0]; [3; 11; 1; 0; 0; 0]]%N.
Proof. vm_compute. repeat split; reflexivity. Qed.

(* clause 10.8 is not vacuous: a Wait caller whose context is ended gets Canceled (row: status 3, error code 1) and the trace is
   clean; the same trace with the row an implementation returning ctx.Err() produces for a context that ended like a deadline
   (status 7, error code 97 = context.DeadlineExceeded) is a mismatch AND falsifies clause 10.8 at that step *)
Example c10_example_clause8 :
  let evs := [[10; 0]; [11; 0]; [4; 0]]%N in
  let obs := run_obs step_opt (hinit [0]%N) evs in
  let lasto := last obs [] in
  let bad := (firstn 2 obs ++ [firstn (length lasto - 6) lasto ++ [7; 0; 97; 0; 0; 0]%N])%list in
  length obs = length evs /\ run_check_refcount [0]%N evs obs = [] /\
  skipn (length lasto - 6) lasto = [3; 0; 1; 0; 0; 0]%N /\
  monitor mon 0 (minit [0]%N) [] evs bad = [PropFalse 10 8 2].
Proof. vm_compute. repeat split; reflexivity. Qed.

(* the clause-wise corollaries (kept: the partial statements the full one supersedes) *)
Theorem c10_model_satisfies_monitors_clauses : forall cfg evs,
  monitor (mon_only proved) 0 (minit cfg) [] evs (run_obs step_opt (hinit cfg) evs) = [].
Proof. exact model_satisfies_monitors_clauses. Qed.
Print Assumptions c10_model_satisfies_monitors_clauses.

Theorem c10_model_satisfies_monitors_clauses_acc : forall cfg evs,
  monitor (mon_only proved_acc) 0 (minit cfg) [] evs (run_obs step_opt (hinit cfg) evs) = [].
Proof. exact model_satisfies_monitors_clauses_acc. Qed.
Print Assumptions c10_model_satisfies_monitors_clauses_acc.
