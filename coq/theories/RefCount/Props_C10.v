(* C10 - refcount: a value returned by Wait, Resolve or ResolveWithReleased is not released before the caller releases
   the returned reference, unless it was invalidated, in which case the released callback (if given) fires exactly once.
   Statements only, about the gate-level model RefCount.Model (REPAIRED code), for ALL event lists.
   PARTIAL: the Access clauses of C10 (callback context cancelled on change, restart with the new value) are not in the
   model yet (the cb_access callback exists, the Access caller's steps do not); nothing is claimed about Access.
   NOT PROVED (stated for completeness): that the value a consumer returned is one of the delivered values, i.e.
     forall c x v, nth_error (conss s) c = Some x -> cpcv x = CRet v 0 true -> exists g, v = S g /\ gdone (getg s g) = true;
   with it, the second disjunct of c10_returned_value_not_released_while_held (a superseded goroutine releasing its own
   result g+1, which by c08_pending_value_not_in_circulation was never delivered to any reference) could be excluded
   for the consumer's value syntactically.  The monitors check this clause on every implementation trace (clause 10.1). *)
From Util Require Import Common.Base Common.ListLemmas RefCount.Model RefCount.Proofs RefCount.ProofsC08 RefCount.ProofsC08b RefCount.ProofsC10.

(* while some reference (in particular the one returned to the caller) is in the set before and after a step, that step
   calls a release function only if it invalidates the stored value (SetContext with a different context, released() of
   the current generation, synchronous or asynchronous) or if it is the store section of a superseded goroutine
   releasing its own, never delivered result *)
Theorem c10_returned_value_not_released_while_held : forall ku es e r c, Forall wf_ev es ->
  let s := run repaired (init ku) es in
  rin (nth r (refs (step repaired s e)) ref0) = true -> rellog (step repaired s e) = rellog s ++ [c] ->
  (vrel s = Some (rc_id c) /\ rc_val c = value s /\
   ((exists ctx, e = ESetCtx ctx /\ kctx s <> ctx) \/
    (exists g x, e = EReleased g /\ nth_error (gs s) g = Some x /\ gnonce x = nonce s) \/
    (exists a x, e = EAsync a /\ nth_error (asyncs s) a = Some x /\ as_pc x = AParked /\ as_nonce x = nonce s))) \/
  (exists g x v er, e = EStore g /\ rc_id c = g /\ rc_val c = v /\ nth_error (gs s) g = Some x /\
                    gpcv x = GStore v true er /\ gnonce x <> nonce s).
Proof. intros ku es e r c Hwf. exact (held_reference_blocks_release _ e r c (run_inv ku es Hwf)). Qed.
Print Assumptions c10_returned_value_not_released_while_held.

(* the released callback fires at most once *)
Theorem c10_released_fires_at_most_once : forall ku es c x,
  nth_error (conss (run repaired (init ku) es)) c = Some x -> ww_fired x <= 1.
Proof. exact released_fires_at_most_once. Qed.
Print Assumptions c10_released_fires_at_most_once.

(* an invalidation ("gone", or a result under another nonce) notified to the callback of a WaitWithReleased consumer
   that has returned its value ([ww_res]) and not yet fired: callReleasedOnce fires - at once if the reference had been
   released already, otherwise the spawned goroutine takes the reference's release flag and parks before removeRef *)
Theorem c10_released_fires_after_invalidation : forall s r n rx c x,
  nth_error (refs s) r = Some rx -> rkind rx = KWwr c -> nth_error (conss s) c = Some x ->
  ww_res x = true -> ww_once x = false ->
  (n = NGone \/ exists v e, n = NRes v e /\ nonce s <> ww_nonce x) ->
  exists y, nth_error (conss (invoke s r n)) c = Some y /\ ww_once y = true /\
    ((rflag rx = true /\ ww_fired y = S (ww_fired x) /\ ww_firepc y = Some RDone) \/
     (rflag rx = false /\ ww_fired y = ww_fired x /\ ww_firepc y = Some RGate /\ rflag (nth r (refs (invoke s r n)) ref0) = true)).
Proof. exact wwr_invalidation_fires. Qed.
Print Assumptions c10_released_fires_after_invalidation.

(* ... and the section of that goroutine fires it: exactly once in total; nothing the container does afterwards moves
   the count *)
Theorem c10_fire_goroutine_fires_exactly_once : forall ku es c x,
  let s := run repaired (init ku) es in
  nth_error (conss s) c = Some x -> ww_firepc x = Some RGate ->
  ww_fired x = 0 /\
  exists y, nth_error (conss (fire_section s c)) c = Some y /\ ww_once y = true /\ ww_fired y = 1 /\ ww_firepc y = Some RDone.
Proof.
  intros ku es c x s Hx Hf. pose proof (run_InvC ku es c x Hx) as Hok. split.
  - unfold cons_ok in Hok. rewrite Hf in Hok. apply Hok.
  - exact (fire_section_fires s c x Hx Hok Hf).
Qed.
Print Assumptions c10_fire_goroutine_fires_exactly_once.

Theorem c10_fired_count_stable : forall k0 c s e,
  match e with ERelSect _ | EStartCons _ | EConsStep _ | EConsCancel _ | EFire _ | ECbReturn _ _ => False | _ => True end ->
  fired_done c k0 (conss s) -> fired_done c k0 (conss (step repaired s e)).
Proof. exact fired_stays. Qed.
Print Assumptions c10_fired_count_stable.

(* what Wait / ResolveWithReleased return ([cres] = the promise fed by the reference callback): a value comes with the
   held reference; the resolver's error e, or Canceled (1) when the caller's context is cancelled first, is passed
   through as such with the zero value, the reference being released (CRel: inside its own Release; CRet _ _ false:
   released) *)
Theorem c10_error_and_cancel_passthrough : forall s c x,
  nth_error (conss s) c = Some x -> cpcv x = CBlocked -> ck x <> CKAccess ->
  let p := cpcv (getc (cons_step s c) c) in
  match cres x with
  | Some (v, 0) => p = CRet v 0 true
  | Some (v, S e) => p = CRel (S e) \/ p = CRet 0 (S e) false
  | None => if ccanc x then p = CRel 1 \/ p = CRet 0 1 false else p = CBlocked
  end.
Proof. exact cons_step_result. Qed.
Print Assumptions c10_error_and_cancel_passthrough.

(* ---- non-vacuity ---- *)
(* ResolveWithReleased returns value 1 and holds its reference; released() invalidates it: the callback's goroutine is
   spawned and parks; its section fires the released callback once *)
Definition ex_wwr : list ev :=
  [ESetCtx 1; EStartCons 1; EProceed 0 true; EResReturn 0 1 true 0; EStore 0; EConsStep 0; EReleased 0].
Example c10_example_invalidated_fires_once :
  Forall wf_ev ex_wwr /\
  let s := run repaired (init false) ex_wwr in
  cpcv (getc s 0) = CRet 1 0 true /\ ww_firepc (getc s 0) = Some RGate /\ ww_fired (getc s 0) = 0 /\
  map rc_id (rellog s) = [0] /\
  ww_fired (getc (step repaired s (EFire 0)) 0) = 1 /\ ww_firepc (getc (step repaired s (EFire 0)) 0) = Some RDone.
Proof. split; [repeat constructor; discriminate | vm_compute; repeat split; reflexivity]. Qed.

(* Wait holds its reference: another reference's Release does not release the value; the caller's own Release does *)
Example c10_example_held_blocks_release :
  let es := [ESetCtx 1; EAddRef 1; EStartCons 0; EProceed 0 true; EResReturn 0 1 true 0; EStore 0; EConsStep 0; ERelease 0; ERelSect 0] in
  let s := run repaired (init false) es in
  cpcv (getc s 0) = CRet 1 0 true /\ rellog s = [] /\ nrefs s = 1 /\
  map rc_id (rellog (run repaired s [ERelease 1; ERelSect 1])) = [0].
Proof. vm_compute. repeat split; reflexivity. Qed.

(* error and cancellation are passed through *)
Example c10_example_error_passthrough :
  let s := run repaired (init false) [ESetCtx 1; EStartCons 0; EProceed 0 true; EResReturn 0 1 false 7; EStore 0; EConsStep 0; ERelSect 0] in
  cpcv (getc s 0) = CRet 0 7 false /\ nrefs s = 0.
Proof. vm_compute. repeat split; reflexivity. Qed.
Example c10_example_cancel_passthrough :
  let s := run repaired (init false) [ESetCtx 1; EStartCons 1; EConsCancel 0; EConsStep 0; ERelSect 0] in
  cpcv (getc s 0) = CRet 0 1 false.
Proof. vm_compute. reflexivity. Qed.
