(* refcount: the codec only produces well-formed resolver returns (value g+1, never context.Canceled). *)
From Util Require Import Common.Base Common.ListLemmas RefCount.Model RefCount.Spec RefCount.Proofs RefCount.ProofsC08.

Lemma codec_resreturn_wf h g hr er h' o :
  hconst h = false -> hstep h [8%N; g; hr; er] = Some (h', o) ->
  exists e, wf_ev e /\ hs h' = settle (step repaired (hs h) e).
Proof.
  intros Hc. unfold hstep. rewrite Hc. destruct (nth_error (gs (hs h)) (n2n g)) as [x|]; [|discriminate].
  destruct (gpcv x); try discriminate. destruct (N.eqb_spec er 1) as [E|E]; [discriminate|].
  intros H. inversion H; subst. exists (EResReturn (n2n g) (S (n2n g)) (nz hr) (n2n er)). split; [|reflexivity].
  split; [reflexivity|]. intros E1. apply E. apply N2Nat.inj. exact E1.
Qed.
