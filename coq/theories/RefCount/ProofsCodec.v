(* refcount: the codec only produces well-formed resolver returns (value g+1, or the empty value - with or without an error;
   never context.Canceled). *)
From Util Require Import Common.Base Common.ListLemmas RefCount.Model RefCount.Spec RefCount.Proofs RefCount.ProofsC08.

Lemma res_ok_wf g er z : res_ok er z = true -> val_ok (n2n g) (res_val false g z) (n2n er) /\ n2n er <> 1%nat.
Proof.
  unfold res_ok, res_val. intros H. apply andb_true_iff in H. destruct H as [H1 H2]. apply negb_true_iff in H1.
  split.
  - destruct (N.eqb_spec z 0) as [Ez|Ez]; [left; reflexivity | right; reflexivity].
  - intros E. apply N.eqb_neq in H1. apply H1. apply N2Nat.inj. exact E.
Qed.

Lemma codec_ret8_wf h g hr er z h' o :
  hconst h = false ->
  match nth_error (gs (hs h)) (n2n g) with
  | Some x => match gpcv x with
              | GInRes => if res_ok er z
                          then let s'' := settle (resolver_return (hs h) (n2n g) (res_val (hconst h) g z) (nz hr) (n2n er)) in
                               Some ({| hs := s''; hrel := length (rellog s''); hconst := hconst h |}, obs_of [] s'' (hrel h))
                          else None
              | _ => None
              end
  | None => None
  end = Some (h', o) ->
  exists e, wf_ev e /\ hs h' = settle (step repaired (hs h) e).
Proof.
  intros Hc. rewrite Hc. destruct (nth_error (gs (hs h)) (n2n g)) as [x|]; [|discriminate].
  destruct (gpcv x); try discriminate. destruct (res_ok er z) eqn:Eok; [|discriminate].
  intros H. inversion H; subst. exists (EResReturn (n2n g) (res_val false g z) (nz hr) (n2n er)). split; [|reflexivity].
  exact (res_ok_wf g er z Eok).
Qed.

Lemma codec_resreturn_wf h g hr er h' o :
  hconst h = false -> hstep h [8%N; g; hr; er] = Some (h', o) ->
  exists e, wf_ev e /\ hs h' = settle (step repaired (hs h) e).
Proof. intros Hc H. exact (codec_ret8_wf h g hr er 0%N h' o Hc H). Qed.

Lemma codec_resreturn5_wf h g hr er z h' o :
  hconst h = false -> hstep h [8%N; g; hr; er; z] = Some (h', o) ->
  exists e, wf_ev e /\ hs h' = settle (step repaired (hs h) e).
Proof. intros Hc H. exact (codec_ret8_wf h g hr er z h' o Hc H). Qed.
