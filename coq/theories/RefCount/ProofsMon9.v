(* refcount: the monitors tied to the model, part 9: after the eager schedule no blocked resolve goroutine has its wake-up
   condition (so the monitors' "quiet" is the model's "quiescent"), the goroutines that returned the empty value
   ([m_empty]), and clause 9.3 (progress at quiescence). *)
From Util Require Import Common.Base Common.ListLemmas RefCount.Model RefCount.Spec RefCount.Proofs RefCount.ProofsC08 RefCount.ProofsC08b
  RefCount.ProofsC09 RefCount.ProofsC10 RefCount.ProofsC10a RefCount.ProofsC10b RefCount.ProofsCodec RefCount.ProofsMon RefCount.ProofsMon2 RefCount.ProofsMon3
  RefCount.ProofsMon4 RefCount.ProofsMon5 RefCount.ProofsMon6 RefCount.ProofsMon7 RefCount.ProofsMonG RefCount.ProofsMon8.
Open Scope nat_scope.

(* ------------------------------------------------------------------ *)
(* settled: no waiting goroutine can move *)
Definition gsettled (s : st) (x : gor) : bool :=
  match gpcv x with
  | GWait => negb (pred_done s x || gcanc x)
  | GWaitC => negb (pred_done s x)
  | _ => true
  end.

Lemma proceed_other s g en i : i <> g -> getg (proceed repaired s g en) i = getg s i.
Proof.
  intros Hne. unfold proceed. destruct (nth_error (gs s) g) as [x|]; [|reflexivity].
  assert (E : forall y, getg (setg s g y) i = getg s i) by (intros y; now apply getg_setg_other).
  destruct (gpcv x); try reflexivity.
  - destruct (gwait x); [|apply E]. destruct (pred_done s x && gcanc x); [destruct en; apply E|].
    destruct (pred_done s x); [apply E|]. destruct (gcanc x); apply E.
  - destruct (pred_done s x || gcanc x); [|reflexivity].
    destruct (gwait x); [|apply E]. destruct (pred_done s x && gcanc x); [destruct en; apply E|].
    destruct (pred_done s x); [apply E|]. destruct (gcanc x); apply E.
  - destruct (pred_done s x); [apply E | reflexivity].
Qed.

Lemma wake_g_other s g i : i <> g -> getg (wake_g s g) i = getg s i.
Proof. intros H. unfold wake_g. destruct (gpcv (getg s g)); try reflexivity; now apply proceed_other. Qed.

Lemma wake_g_len s g : length (gs (wake_g s g)) = length (gs s).
Proof. unfold wake_g. destruct (gpcv (getg s g)); try reflexivity; apply proceed_len_gs. Qed.

Lemma wake_g_chain s g : InvCh s -> InvCh (wake_g s g).
Proof. intros H. unfold wake_g. destruct (gpcv (getg s g)); try exact H; now apply proceed_chain. Qed.

Lemma pred_done_ext s s' x : (forall j, gwait x = Some j -> gdone (getg s' j) = gdone (getg s j)) -> pred_done s' x = pred_done s x.
Proof. intros H. unfold pred_done. destruct (gwait x) as [j|]; [now apply H | reflexivity]. Qed.

Lemma getg_same_setg s g y : g < length (gs s) -> getg (setg s g y) g = y.
Proof. apply getg_setg_same. Qed.

(* the goroutine that was woken is settled afterwards *)
Lemma wake_g_self s g : InvCh s -> g < length (gs s) -> gsettled (wake_g s g) (getg (wake_g s g) g) = true.
Proof.
  intros [HI _] Hg. assert (Hx : nth_error (gs s) g = Some (getg s g)) by (unfold getg; now apply nth_error_nth').
  destruct (HI g _ Hx) as [Hw _].
  assert (PD : forall y, gwait y = gwait (getg s g) -> pred_done (setg s g y) y = pred_done s (getg s g)).
  { intros y Ey. unfold pred_done. rewrite Ey, Hw. destruct g as [|q]; cbn [pred_idx]; [reflexivity|]. now rewrite getg_setg_other by lia. }
  unfold wake_g. destruct (gpcv (getg s g)) eqn:Ep; try (unfold gsettled; now rewrite Ep).
  - (* GWait *) unfold proceed. rewrite Hx, Ep.
    destruct (pred_done s (getg s g) || gcanc (getg s g)) eqn:Ec; [|unfold gsettled; now rewrite Ep, Ec].
    destruct (gwait (getg s g)) as [j|] eqn:Ew; [|rewrite getg_same_setg by exact Hg; reflexivity].
    destruct (pred_done s (getg s g)) eqn:Epd; cbn [andb orb] in *.
    + destruct (gcanc (getg s g)); rewrite getg_same_setg by exact Hg; reflexivity.
    + rewrite Ec. cbn [fx_wait repaired]. rewrite getg_same_setg by exact Hg. unfold gsettled. cbn [gpcv with_gpc].
      rewrite PD by (cbn [gwait with_gpc]; exact Ew). reflexivity.
  - (* GWaitC *) unfold proceed. rewrite Hx, Ep. destruct (pred_done s (getg s g)) eqn:Epd.
    + rewrite getg_same_setg by exact Hg. reflexivity.
    + unfold gsettled. now rewrite Ep, Epd.
Qed.

Lemma gsettled_other s g i : InvCh s -> i < g -> i < length (gs s) ->
  gsettled (wake_g s g) (getg (wake_g s g) i) = gsettled s (getg s i).
Proof.
  intros [HI _] Hi Hl. rewrite wake_g_other by lia.
  assert (Hx : nth_error (gs s) i = Some (getg s i)) by (unfold getg; now apply nth_error_nth').
  destruct (HI i _ Hx) as [Hw _]. unfold gsettled.
  assert (E : pred_done (wake_g s g) (getg s i) = pred_done s (getg s i)).
  { apply pred_done_ext. intros j Hj. rewrite Hw in Hj. destruct i as [|q]; [discriminate|]. cbn [pred_idx] in Hj. inversion Hj; subst j.
    rewrite wake_g_other by lia. reflexivity. }
  now rewrite E.
Qed.

Lemma fold_wake_settled n : forall k s, InvCh s -> k + n = length (gs s) ->
  (forall i, i < k -> gsettled s (getg s i) = true) ->
  let s2 := fold_left wake_g (seq k n) s in
  InvCh s2 /\ length (gs s2) = length (gs s) /\ forall i, i < length (gs s) -> gsettled s2 (getg s2 i) = true.
Proof.
  induction n as [|n IH]; intros k s HC Hk Hs; cbn [seq fold_left].
  - split; [exact HC|]. split; [reflexivity|]. intros i Hi. apply Hs. lia.
  - assert (Hkl : k < length (gs s)) by lia.
    destruct (IH (S k) (wake_g s k) (wake_g_chain s k HC)) as [A [B C]].
    + rewrite wake_g_len. lia.
    + intros i Hi. destruct (Nat.eq_dec i k) as [->|Hne]; [now apply wake_g_self|].
      rewrite gsettled_other by (try exact HC; lia). apply Hs. lia.
    + rewrite wake_g_len in B, C. auto.
Qed.

Lemma cons_step_gsettled s c x : gsettled (cons_step s c) x = gsettled s x.
Proof.
  unfold gsettled. assert (E : pred_done (cons_step s c) x = pred_done s x).
  { apply pred_done_ext. intros j _. unfold getg. now rewrite gs_cons_step. }
  now rewrite E.
Qed.

Lemma settle_settled s : InvCh s -> forall i, i < length (gs (settle s)) -> gsettled (settle s) (getg (settle s) i) = true.
Proof.
  intros HC. unfold settle. destruct (fold_wake_settled (length (gs s)) 0 s HC eq_refl ltac:(intros; lia)) as [_ [B C]].
  set (s2 := fold_left wake_g (seq 0 (length (gs s))) s) in *. clearbody s2.
  assert (G : forall l s3, gs (fold_left cons_step l s3) = gs s3 /\ forall x, gsettled (fold_left cons_step l s3) x = gsettled s3 x).
  { induction l as [|c l IH]; intros s3; [split; reflexivity|]. cbn [fold_left]. destruct (IH (cons_step s3 c)) as [E1 E2]. split.
    - now rewrite E1, gs_cons_step.
    - intros x. now rewrite E2, cons_step_gsettled. }
  destruct (G (seq 0 (length (conss s2))) s2) as [E1 E2]. intros i Hi. rewrite E1 in Hi. unfold getg. rewrite E1, E2. apply C. now rewrite <- B.
Qed.

(* ------------------------------------------------------------------ *)
(* the goroutines whose resolver call returned the empty value *)
Definition Pret0 (i : nat) (l : list gor) : Prop := exists x, nth_error l i = Some x /\ returned (gpcv x) = true.

Lemma Pret0_gtr i l l' : gtr l l' -> Pret0 i l -> Pret0 i l'.
Proof.
  apply (gtr_ind_prop (Pret0 i)).
  - intros l0 g x Hx [y [Hy A]]. assert (Hl : g < length l0) by (eapply nth_error_nth_len; eauto). destruct (Nat.eq_dec i g) as [->|Hne].
    + exists (gcancel x). rewrite nth_error_set_nth_same by exact Hl. assert (y = x) by congruence. subst y. auto.
    + exists y. rewrite nth_error_set_nth_other by exact Hne. auto.
  - intros l0 x _ _ _ [y [Hy A]]. exists y. split; [|exact A]. rewrite nth_error_app1; [exact Hy | eapply nth_error_nth_len; eauto].
  - intros l0 g x p Hx Hm [y [Hy A]]. assert (Hl : g < length l0) by (eapply nth_error_nth_len; eauto). destruct (Nat.eq_dec i g) as [->|Hne].
    + exists (with_gpc x p). rewrite nth_error_set_nth_same by exact Hl. assert (y = x) by congruence. subst y.
      split; [reflexivity|]. unfold okmove in Hm. destruct (gpcv x); try discriminate A; destruct p; try contradiction. reflexivity.
    + exists y. rewrite nth_error_set_nth_other by exact Hne. auto.
Qed.

Lemma Pret0_step i s e : Pret0 i (gs s) -> Pret0 i (gs (step repaired s e)).
Proof.
  intros H. destruct e as [c|k|r|a|g|a|g en|g v hr er|g|k|c|c|c|c res|c]; try (refine (Pret0_gtr i _ _ (gtr_step s _ _) H); intros; discriminate).
  cbn [step]. unfold resolver_return. destruct (nth_error (gs s) g) as [x|] eqn:Ex; [|exact H]. destruct (gpcv x) eqn:Ep; try exact H.
  destruct H as [y [Hy A]]. assert (Hl : g < length (gs s)) by (eapply nth_error_nth_len; eauto). rewrite gs_setg.
  destruct (Nat.eq_dec i g) as [->|Hne].
  - assert (y = x) by congruence. subst y. rewrite Ep in A. discriminate.
  - exists y. rewrite nth_error_set_nth_other by exact Hne. auto.
Qed.

Record Rempty (m : mst) (s : st) : Prop := {
  re_ret : forall g, mem g (m_empty m) = true -> Pret0 (n2n g) (gs s);
  re_store : forall i v hr e, at_store i v hr e (gs s) -> (mem (nn i) (m_empty m) = true <-> v = 0);
  re_cur : resolved s = true -> (mem (nn (vgen s)) (m_empty m) = true <-> value s = 0);
}.

(* results at the store gate after a section: those that were there, and the one a resolver return put there *)
Lemma at_store_step s e i v hr er :
  at_store i v hr er (gs (step repaired s e)) ->
  at_store i v hr er (gs s) \/
  (e = EResReturn i v hr er /\ exists x, nth_error (gs s) i = Some x /\ gpcv x = GInRes).
Proof.
  intros H. destruct e as [c|k|r|a|g|a|g en|g v0 hr0 er0|g|k|c|c|c|c res|c];
    try (left; refine (no_new_store i v hr er _ _ (gtr_step s _ _) H); intros; discriminate).
  cbn [step] in H. unfold resolver_return in H. destruct (nth_error (gs s) g) as [x|] eqn:Ex; [|now left]. destruct (gpcv x) eqn:Ep; try (now left).
  destruct H as [y [Hy Ey]]. assert (Hl : g < length (gs s)) by (eapply nth_error_nth_len; eauto). rewrite gs_setg in Hy.
  destruct (Nat.eq_dec i g) as [->|Hne].
  - rewrite nth_error_set_nth_same in Hy by exact Hl. inversion Hy; subst y. cbn [gpcv with_gpc] in Ey. inversion Ey; subst. right. split; [reflexivity|]. eauto.
  - rewrite nth_error_set_nth_other in Hy by exact Hne. left. exists y. auto.
Qed.

Section Empty.
  Variables (m : mst) (h : hst) (e : list N) (e0 : ev) (rets : list N).
  Hypothesis HRh : HR h.
  Hypothesis HP : Rproj m h.
  Hypothesis Hd : dec h e e0 rets.
  Hypothesis Hc : hconst h = false.
  Hypothesis Hem : Rempty m (hs h).
  Local Notation s := (hs h).
  Local Notation s1 := (step repaired (hs h) e0).
  Local Notation s' := (settle (step repaired (hs h) e0)).
  Local Notation p := (pobs_of rets (settle (step repaired (hs h) e0)) (hrel h)).

  (* how the event extends the list *)
  Lemma u_empty_cases :
    (u_empty m e = m_empty m /\ forall g v hr er, e0 = EResReturn g v hr er -> v = S g) \/
    (exists g hr er x, u_empty m e = m_empty m ++ [g] /\ e0 = EResReturn (n2n g) 0 hr er /\ nth_error (gs s) (n2n g) = Some x /\ gpcv x = GInRes).
  Proof.
    destruct Hd; try (left; split; [reflexivity | intros; discriminate]).
    - left. split; [reflexivity|]. intros g0 v hr0 er0 E. inversion E. rewrite Hc. reflexivity.
    - cbn [u_empty]. unfold res_val. rewrite Hc. unfold nz. destruct (N.eqb_spec z 0) as [Ez|Ez]; cbn [negb].
      + left. split; [reflexivity|]. intros g0 v hr0 er0 E. inversion E. reflexivity.
      + right. exists g, (nz hr), (n2n er), x. auto.
  Qed.

  Lemma upd_empty : Rempty (u_mst m e p) s'.
  Proof.
    pose proof u_empty_cases as UC. pose proof (gtr_settle s1) as GS. pose proof (settle_vf s1) as V'.
    pose proof (HR_inv h HRh Hc) as I0. pose proof (HR_chain h HRh) as HCh.
    assert (NotRet : forall g x, nth_error (gs s) (n2n g) = Some x -> gpcv x = GInRes -> mem g (m_empty m) = false).
    { intros g x Hx Hp. destruct (mem g (m_empty m)) eqn:E; [|reflexivity]. destruct (re_ret m s Hem g E) as [y [Hy A]].
      assert (y = x) by congruence. subst y. rewrite Hp in A. discriminate. }
    destruct Hem as [E1 E2 E3]. constructor; cbn [m_empty u_mst].
    - (* returned *) intros g Hg.
      assert (Old : mem g (m_empty m) = true -> Pret0 (n2n g) (gs s')).
      { intros Hm. apply (Pret0_gtr _ _ _ GS). apply Pret0_step. now apply E1. }
      destruct UC as [[UE _]|[g0 [hr [er [x [UE [He0 [Hx Hp]]]]]]]]; rewrite UE in Hg; [now apply Old|].
      rewrite mem_app in Hg. apply orb_true_iff in Hg. destruct Hg as [Hg|Hg]; [now apply Old|].
      unfold mem in Hg. cbn [existsb] in Hg. rewrite orb_false_r in Hg. apply N.eqb_eq in Hg. subst g0.
      apply (Pret0_gtr _ _ _ GS). rewrite He0. cbn [step]. unfold resolver_return. rewrite Hx, Hp, gs_setg.
      eexists. split; [apply nth_error_set_nth_same; eapply nth_error_nth_len; eauto | reflexivity].
    - (* at the store gate *) intros i v hr er Hs. apply (no_new_store _ _ _ _ _ _ GS) in Hs.
      destruct (at_store_step s e0 i v hr er Hs) as [Hold|[He0 [x [Hx Hp]]]].
      + destruct UC as [[-> _]|[g0 [hr0 [er0 [x [-> [He0 [Hx Hp]]]]]]]]; [now apply (E2 i v hr er)|].
        rewrite mem_app. unfold mem at 2. cbn [existsb]. rewrite orb_false_r.
        assert (Hne : N.eqb (nn i) g0 = false).
        { apply N.eqb_neq. intros E. subst g0. rewrite n2n_nn in Hx. destruct Hold as [y [Hy Ey]]. assert (y = x) by congruence. subst y. congruence. }
        rewrite Hne, orb_false_r. now apply (E2 i v hr er).
      + destruct UC as [[-> Hv]|[g0 [hr0 [er0 [x0 [-> [He0' [Hx0 Hp0]]]]]]]].
        * rewrite (Hv _ _ _ _ He0). rewrite (NotRet (nn i) x) by (rewrite ?n2n_nn; assumption). split; discriminate.
        * rewrite He0 in He0'. inversion He0'; subst. rewrite nn_n2n, mem_app. unfold mem at 2. cbn [existsb]. rewrite N.eqb_refl.
          rewrite orb_true_r. split; reflexivity.
    - (* the stored result *) intros Er. destruct (vf_fields _ _ V') as [A [B [_ [D _]]]]. rewrite A in Er. rewrite B, D.
      destruct I0 as [[HN [HS [_ [_ [HV0 _]]]]] _].
      assert (Stay : forall g0 x, nth_error (gs s) (n2n g0) = Some x -> gpcv x = GInRes -> resolved s = true -> N.eqb (nn (vgen s)) g0 = false).
      { intros g0 x Hx Hp Er0. apply N.eqb_neq. intros E. destruct HV0 as [V1 _]. destruct (V1 Er0) as [_ [_ [A3 _]]].
        rewrite <- E, n2n_nn in Hx. destruct (getg_nth_error s _ x Hx) as [Eg _]. rewrite Eg in A3. unfold gdone in A3. rewrite Hp in A3. discriminate. }
      assert (Cases : (forall g, e0 <> EStore g) \/
                      exists g x v hr er, e0 = EStore g /\ nth_error (gs s) g = Some x /\ gpcv x = GStore v hr er).
      { destruct Hd; try (left; intros; discriminate). right. eauto 10. }
      destruct Cases as [Hne|[g [x [v [hr [er [He0 [Hx Hp]]]]]]]].
      + destruct (vkeep_step s _ Hne) as [Ek|Ek]; [congruence|].
        destruct (vf_fields _ _ Ek) as [A' [B' [_ [D' _]]]]. rewrite A' in Er. rewrite B', D'.
        destruct UC as [[-> _]|[g0 [hr0 [er0 [x0 [-> [He0' [Hx0 Hp0]]]]]]]]; [now apply E3|].
        rewrite mem_app. unfold mem at 2. cbn [existsb]. rewrite orb_false_r, (Stay g0 x0 Hx0 Hp0 Er), orb_false_r. now apply E3.
      + (* the store section *)
        destruct UC as [[-> _]|[g0 [hr0 [er0 [x0 [_ [He0' _]]]]]]]; [|congruence].
        assert (Hnd : gdone x = false) by (unfold gdone; now rewrite Hp).
        pose proof (store_vf s g x v hr er Hx Hp) as SV. cbv zeta in SV. rewrite He0 in *. cbn [step] in *.
        destruct (Nat.eqb (nonce s) (gnonce x)).
        * destruct SV as [_ [Bv [_ [Dv _]]]]. rewrite Bv, Dv. apply (E2 g v hr er). exists x. auto.
        * destruct (vf_fields _ _ SV) as [A' _]. rewrite A' in Er. rewrite (pending_unresolved s g x HCh HN HV0 Hx Hnd) in Er. discriminate.
  Qed.
End Empty.

(* ------------------------------------------------------------------ *)
Lemma forallb_map {A B} (f : B -> bool) (g : A -> B) l : forallb f (map g l) = forallb (fun x => f (g x)) l.
Proof. induction l as [|a l IH]; [reflexivity|]. cbn [map forallb]. now rewrite IH. Qed.

Lemma zip3_map {A B C D} (f : A -> B) (g : A -> C) (k : A -> D) l :
  zip3 (map f l) (map g l) (map k l) = map (fun x => (f x, g x, k x)) l.
Proof. induction l as [|a l IH]; [reflexivity|]. cbn [map zip3]. now rewrite IH. Qed.

Lemma rcanc_mem s c : mem (nn c) (map nn (rootc s)) = rcanc s c.
Proof. rewrite mem_map_nn. reflexivity. Qed.

Section C93.
  Variables (m : mst) (h : hst) (e : list N) (e0 : ev) (rets : list N).
  Hypothesis HRh : HR h.
  Hypothesis HP : Rproj m h.
  Hypothesis Hd : dec h e e0 rets.
  Hypothesis Hc : hconst h = false.
  Hypothesis Hcur : m_cur m = cur_of (hs h).
  Hypothesis Hem : Rempty m (hs h).
  Local Notation s := (hs h).
  Local Notation s1 := (step repaired (hs h) e0).
  Local Notation s' := (settle (step repaired (hs h) e0)).
  Local Notation p := (pobs_of rets (settle (step repaired (hs h) e0)) (hrel h)).

  Lemma quiet_quiescent : u_quiet p = true -> quiescent s' = true.
  Proof.
    unfold u_quiet, quiescent. cbn [po_gs po_async po_relacts po_cons pobs_of]. intros H.
    apply andb_true_iff in H. destruct H as [H H4]. apply andb_true_iff in H. destruct H as [H H3]. apply andb_true_iff in H. destruct H as [H1 H2].
    pose proof (settle_settled s1 (HR_chain _ (HR_mid h e e0 rets HRh Hd))) as ST. cbn [hs] in ST.
    rewrite forallb_map in H1. rewrite forallb_map in H3. rewrite forallb_map in H4. rewrite forallb_forall in H1, H3, H4.
    apply andb_true_iff. split; [apply andb_true_iff; split; [apply andb_true_iff; split|]|]; apply forallb_forall.
    - intros x Hx. specialize (H1 x Hx). destruct (In_nth _ _ gor0 Hx) as [i [Hi Ei]]. specialize (ST i Hi). unfold getg in ST. rewrite Ei in ST.
      unfold g_quiet, gsettled, gcode in *. destruct (gpcv x); try reflexivity; try discriminate H1; exact ST.
    - intros a Ha. apply N.eqb_eq in H2. change 0%N with (nn 0) in H2. apply nn_inj in H2.
      pose proof (proj1 (cnt_zero_forall parked (asyncs s')) H2 a Ha) as Hp. unfold parked in Hp. destruct (as_pc a); [discriminate | reflexivity].
    - intros a Ha. specialize (H3 a Ha). unfold racode2 in H3. cbn [fst] in H3. destruct (ra_pc a); [discriminate | reflexivity].
    - intros c Hcn. specialize (H4 c Hcn). unfold ccode6 in H4. destruct (cpcv c); destruct (ww_firepc c) as [[|]|]; try reflexivity; discriminate.
  Qed.

  (* 9.3: at rest, with a context that its owner has not cancelled and a reference: a resolver call is in progress, or the
     latest result is in the target containers and was told to every reference with a callback *)
  Lemma clause_9_3 : u_f9_3 m e p = [].
  Proof.
    unfold u_f9_3.
    destruct (u_quiet p && nz (u_ctx m e) && negb (mem (u_ctx m e) (u_rootc m e)) && Nat.ltb 0 (u_nin m e)) eqn:Cond; [|reflexivity].
    cbn [negb orb].
    apply andb_true_iff in Cond. destruct Cond as [Cond C4]. apply andb_true_iff in Cond. destruct Cond as [Cond C3]. apply andb_true_iff in Cond. destruct Cond as [C1 C2].
    pose proof (upd_ctx m h e e0 rets HP Hd) as Ectx. pose proof (upd_rootc m h e e0 rets HP Hd) as Eroot.
    pose proof (upd_in m h e e0 rets HP Hd) as Ein. pose proof (p_nin m h e e0 Ein) as Enin. pose proof (upd_kind m h e e0 rets HP Hd) as Ekind.
    pose proof (upd_cur m h e e0 rets HRh HP Hd Hc Hcur) as Ecur. pose proof (upd_empty m h e e0 rets HRh Hd Hc Hem) as Eem.
    pose proof (HR_inv _ (HRh' h e e0 rets HRh Hd) Hc) as I2. pose proof (HR_chain _ (HRh' h e e0 rets HRh Hd)) as Ch2. cbn [hs] in I2, Ch2.
    rewrite Ectx, nz_nn in C2. apply negb_true_iff, Nat.eqb_neq in C2.
    rewrite Ectx, Eroot, rcanc_mem in C3. apply negb_true_iff in C3. rewrite Enin in C4. apply Nat.ltb_lt in C4.
    destruct (progress s' I2 Ch2 (quiet_quiescent C1) C2 C3 C4) as [[g [Hg Hin]]|[Er Hdel]].
    - (* a resolver call is in progress *)
      assert (F : existsb (N.eqb 3) (po_gs p) = true); [|now rewrite F].
      cbn [po_gs pobs_of]. apply existsb_exists. exists (gcode (getg s' g)). split.
      + apply in_map. unfold getg. now apply nth_In.
      + unfold in_resolver in Hin. unfold gcode. destruct (gpcv (getg s' g)); try discriminate Hin. reflexivity.
    - (* delivered *)
      assert (F : u_delivered m e p = true); [|rewrite F, orb_true_r; reflexivity].
      unfold u_delivered. rewrite Ecur. unfold cur_of. rewrite Er. rewrite Ein, Ekind. cbn [po_refs pobs_of]. rewrite map_map, zip3_map, forallb_map.
      apply forallb_forall. intros x Hx. destruct (In_nth_error _ _ Hx) as [r Hr]. destruct Hdel as [_ [_ D3]].
      destruct (lastcode3 x) as [[lc v] er] eqn:El.
      destruct (rin x) eqn:Ei; [|reflexivity]. cbn [negb orb].
      destruct (N.eqb_spec (kcode (rkind x)) 0) as [Ek0|Ek0]; [reflexivity|]. cbn [orb].
      assert (Hk : rkind x <> KNil) by (intros E; apply Ek0; rewrite E; reflexivity).
      pose proof (D3 r x Hr Ei Hk) as Hl. unfold lastcode3 in El. rewrite Hl in El.
      assert (El' : (lc, v, er) = (2%N, nn (value s'), nn (verr s'))).
      { destruct (rkind x); try (exfalso; apply Ek0; reflexivity); now inversion El. }
      inversion El'; subst lc v er. rewrite !N.eqb_refl, andb_true_r. cbn [andb].
      destruct I2 as [[_ [_ [_ [_ [[V1 _] _]]]]] _]. destruct (V1 Er) as [Hv _]. pose proof (re_cur _ _ Eem Er) as RC. cbn [m_empty u_mst] in RC.
      destruct (mem (nn (vgen s')) (u_empty m e)) eqn:Em.
      + rewrite (proj1 RC eq_refl). apply N.eqb_refl.
      + destruct Hv as [Hv|[Hv _]]; [rewrite Hv, nn_S; apply N.eqb_refl | destruct RC as [_ RC]; specialize (RC Hv); discriminate].
  Qed.
End C93.
