(* refcount: the monitors tied to the model, part 9: after the eager schedule no blocked resolve goroutine has its wake-up
   condition (so the monitors' "quiet" is the model's "quiescent"), the goroutines that returned the empty value
   ([m_empty]), and clause 9.3 (progress at quiescence). *)
From Util Require Import Common.Base Common.ListLemmas RefCount.Model RefCount.Spec RefCount.Proofs RefCount.ProofsC08 RefCount.ProofsC08b
  RefCount.ProofsC09 RefCount.ProofsC10 RefCount.ProofsC10a RefCount.ProofsC10b RefCount.ProofsCodec RefCount.ProofsMon RefCount.ProofsMon2 RefCount.ProofsMon3
  RefCount.ProofsMon4 RefCount.ProofsMon5 RefCount.ProofsMon6 RefCount.ProofsMon7 RefCount.ProofsMonG RefCount.ProofsMon10 RefCount.ProofsMon17 RefCount.ProofsMonE RefCount.ProofsMon18 RefCount.ProofsMon8.
Open Scope nat_scope.

(* ------------------------------------------------------------------ *)
(* settled: no waiting goroutine can move *)
Definition gsettled (s : st) (x : gor) : bool :=
  match gpcv x with
  | GWait => negb (pred_done s x || gcanc x)
  | GWaitC => negb (pred_done s x)
  | _ => true
  end.

Lemma proceed_other s g en i : i <> g -> getg (proceed repaired s g en) i = getg s i.
Proof.
  intros Hne. unfold proceed. destruct (nth_error (gs s) g) as [x|]; [|reflexivity].
  assert (E : forall y, getg (setg s g y) i = getg s i) by (intros y; now apply getg_setg_other).
  destruct (gpcv x); try reflexivity.
  - destruct (gwait x); [|apply E]. destruct (pred_done s x && gcanc x); [destruct en; apply E|].
    destruct (pred_done s x); [apply E|]. destruct (gcanc x); apply E.
  - destruct (pred_done s x || gcanc x); [|reflexivity].
    destruct (gwait x); [|apply E]. destruct (pred_done s x && gcanc x); [destruct en; apply E|].
    destruct (pred_done s x); [apply E|]. destruct (gcanc x); apply E.
  - destruct (pred_done s x); [apply E | reflexivity].
Qed.

Lemma wake_g_other s g i : i <> g -> getg (wake_g s g) i = getg s i.
Proof. intros H. unfold wake_g. destruct (gpcv (getg s g)); try reflexivity; now apply proceed_other. Qed.

Lemma wake_g_len s g : length (gs (wake_g s g)) = length (gs s).
Proof. unfold wake_g. destruct (gpcv (getg s g)); try reflexivity; apply proceed_len_gs. Qed.

Lemma wake_g_chain s g : InvCh s -> InvCh (wake_g s g).
Proof. intros H. unfold wake_g. destruct (gpcv (getg s g)); try exact H; now apply proceed_chain. Qed.

Lemma pred_done_ext s s' x : (forall j, gwait x = Some j -> gdone (getg s' j) = gdone (getg s j)) -> pred_done s' x = pred_done s x.
Proof. intros H. unfold pred_done. destruct (gwait x) as [j|]; [now apply H | reflexivity]. Qed.

Lemma getg_same_setg s g y : g < length (gs s) -> getg (setg s g y) g = y.
Proof. apply getg_setg_same. Qed.

(* the goroutine that was woken is settled afterwards *)
Lemma wake_g_self s g : InvCh s -> g < length (gs s) -> gsettled (wake_g s g) (getg (wake_g s g) g) = true.
Proof.
  intros [HI _] Hg. assert (Hx : nth_error (gs s) g = Some (getg s g)) by (unfold getg; now apply nth_error_nth').
  destruct (HI g _ Hx) as [Hw _].
  assert (PD : forall y, gwait y = gwait (getg s g) -> pred_done (setg s g y) y = pred_done s (getg s g)).
  { intros y Ey. unfold pred_done. rewrite Ey, Hw. destruct g as [|q]; cbn [pred_idx]; [reflexivity|]. now rewrite getg_setg_other by lia. }
  unfold wake_g. destruct (gpcv (getg s g)) eqn:Ep; try (unfold gsettled; now rewrite Ep).
  - (* GWait *) unfold proceed. rewrite Hx, Ep.
    destruct (pred_done s (getg s g) || gcanc (getg s g)) eqn:Ec; [|unfold gsettled; now rewrite Ep, Ec].
    destruct (gwait (getg s g)) as [j|] eqn:Ew; [|rewrite getg_same_setg by exact Hg; reflexivity].
    destruct (pred_done s (getg s g)) eqn:Epd; cbn [andb orb] in *.
    + destruct (gcanc (getg s g)); rewrite getg_same_setg by exact Hg; reflexivity.
    + rewrite Ec. cbn [fx_wait repaired]. rewrite getg_same_setg by exact Hg. unfold gsettled. cbn [gpcv with_gpc].
      rewrite PD by (cbn [gwait with_gpc]; exact Ew). reflexivity.
  - (* GWaitC *) unfold proceed. rewrite Hx, Ep. destruct (pred_done s (getg s g)) eqn:Epd.
    + rewrite getg_same_setg by exact Hg. reflexivity.
    + unfold gsettled. now rewrite Ep, Epd.
Qed.

Lemma gsettled_other s g i : InvCh s -> i < g -> i < length (gs s) ->
  gsettled (wake_g s g) (getg (wake_g s g) i) = gsettled s (getg s i).
Proof.
  intros [HI _] Hi Hl. rewrite wake_g_other by lia.
  assert (Hx : nth_error (gs s) i = Some (getg s i)) by (unfold getg; now apply nth_error_nth').
  destruct (HI i _ Hx) as [Hw _]. unfold gsettled.
  assert (E : pred_done (wake_g s g) (getg s i) = pred_done s (getg s i)).
  { apply pred_done_ext. intros j Hj. rewrite Hw in Hj. destruct i as [|q]; [discriminate|]. cbn [pred_idx] in Hj. inversion Hj; subst j.
    rewrite wake_g_other by lia. reflexivity. }
  now rewrite E.
Qed.

Lemma fold_wake_settled n : forall k s, InvCh s -> k + n = length (gs s) ->
  (forall i, i < k -> gsettled s (getg s i) = true) ->
  let s2 := fold_left wake_g (seq k n) s in
  InvCh s2 /\ length (gs s2) = length (gs s) /\ forall i, i < length (gs s) -> gsettled s2 (getg s2 i) = true.
Proof.
  induction n as [|n IH]; intros k s HC Hk Hs; cbn [seq fold_left].
  - split; [exact HC|]. split; [reflexivity|]. intros i Hi. apply Hs. lia.
  - assert (Hkl : k < length (gs s)) by lia.
    destruct (IH (S k) (wake_g s k) (wake_g_chain s k HC)) as [A [B C]].
    + rewrite wake_g_len. lia.
    + intros i Hi. destruct (Nat.eq_dec i k) as [->|Hne]; [now apply wake_g_self|].
      rewrite gsettled_other by (try exact HC; lia). apply Hs. lia.
    + rewrite wake_g_len in B, C. auto.
Qed.

Lemma cons_step_gsettled s c x : gsettled (cons_step s c) x = gsettled s x.
Proof.
  unfold gsettled. assert (E : pred_done (cons_step s c) x = pred_done s x).
  { apply pred_done_ext. intros j _. unfold getg. now rewrite gs_cons_step. }
  now rewrite E.
Qed.

Lemma settle_settled s : InvCh s -> forall i, i < length (gs (settle s)) -> gsettled (settle s) (getg (settle s) i) = true.
Proof.
  intros HC. unfold settle. destruct (fold_wake_settled (length (gs s)) 0 s HC eq_refl ltac:(intros; lia)) as [_ [B C]].
  set (s2 := fold_left wake_g (seq 0 (length (gs s))) s) in *. clearbody s2.
  assert (G : forall l s3, gs (fold_left cons_step l s3) = gs s3 /\ forall x, gsettled (fold_left cons_step l s3) x = gsettled s3 x).
  { induction l as [|c l IH]; intros s3; [split; reflexivity|]. cbn [fold_left]. destruct (IH (cons_step s3 c)) as [E1 E2]. split.
    - now rewrite E1, gs_cons_step.
    - intros x. now rewrite E2, cons_step_gsettled. }
  destruct (G (seq 0 (length (conss s2))) s2) as [E1 E2]. intros i Hi. rewrite E1 in Hi. unfold getg. rewrite E1, E2. apply C. now rewrite <- B.
Qed.

(* ------------------------------------------------------------------ *)
Lemma forallb_map {A B} (f : B -> bool) (g : A -> B) l : forallb f (map g l) = forallb (fun x => f (g x)) l.
Proof. induction l as [|a l IH]; [reflexivity|]. cbn [map forallb]. now rewrite IH. Qed.

Lemma zip3_map {A B C D} (f : A -> B) (g : A -> C) (k : A -> D) l :
  zip3 (map f l) (map g l) (map k l) = map (fun x => (f x, g x, k x)) l.
Proof. induction l as [|a l IH]; [reflexivity|]. cbn [map zip3]. now rewrite IH. Qed.

Lemma rcanc_mem s c : mem (nn c) (map nn (rootc s)) = rcanc s c.
Proof. rewrite mem_map_nn. reflexivity. Qed.

Section C93.
  Variables (m : mst) (h : hst) (e : list N) (e0 : ev) (rets : list N).
  Hypothesis HRh : HR h.
  Hypothesis HP : Rproj m h.
  Hypothesis Hd : dec h e e0 rets.
  Hypothesis Hc : hconst h = false.
  Hypothesis Hcur : m_cur m = cur_of (hs h).
  Hypothesis Hem : Rempty m (hs h).
  Local Notation s := (hs h).
  Local Notation s1 := (step repaired (hs h) e0).
  Local Notation s' := (settle (step repaired (hs h) e0)).
  Local Notation p := (pobs_of rets (settle (step repaired (hs h) e0)) (hrel h)).

  Lemma quiet_quiescent : u_quiet p = true -> quiescent s' = true.
  Proof.
    unfold u_quiet, quiescent. cbn [po_gs po_async po_relacts po_cons pobs_of]. intros H.
    apply andb_true_iff in H. destruct H as [H H4]. apply andb_true_iff in H. destruct H as [H H3]. apply andb_true_iff in H. destruct H as [H1 H2].
    pose proof (settle_settled s1 (HR_chain _ (HR_mid h e e0 rets HRh Hd))) as ST. cbn [hs] in ST.
    rewrite forallb_map in H1. rewrite forallb_map in H3. rewrite forallb_map in H4. rewrite forallb_forall in H1, H3, H4.
    apply andb_true_iff. split; [apply andb_true_iff; split; [apply andb_true_iff; split|]|]; apply forallb_forall.
    - intros x Hx. specialize (H1 x Hx). destruct (In_nth _ _ gor0 Hx) as [i [Hi Ei]]. specialize (ST i Hi). unfold getg in ST. rewrite Ei in ST.
      unfold g_quiet, gsettled, gcode in *. destruct (gpcv x); try reflexivity; try discriminate H1; exact ST.
    - intros a Ha. apply N.eqb_eq in H2. change 0%N with (nn 0) in H2. apply nn_inj in H2.
      pose proof (proj1 (cnt_zero_forall parked (asyncs s')) H2 a Ha) as Hp. unfold parked in Hp. destruct (as_pc a); [discriminate | reflexivity].
    - intros a Ha. specialize (H3 a Ha). unfold racode2 in H3. cbn [fst] in H3. destruct (ra_pc a); [discriminate | reflexivity].
    - intros c Hcn. specialize (H4 c Hcn). unfold ccode6 in H4. destruct (cpcv c); destruct (ww_firepc c) as [[|]|]; try reflexivity; destruct (ac_wpark c); discriminate.
  Qed.

  (* 9.3: at rest, with a context that its owner has not cancelled and a reference: a resolver call is in progress, or the
     latest result is in the target containers and was told to every reference with a callback *)
  Lemma clause_9_3 : u_f9_3 m e p = [].
  Proof.
    unfold u_f9_3.
    destruct (u_quiet p && nz (u_ctx m e) && negb (mem (u_ctx m e) (u_rootc m e)) && Nat.ltb 0 (u_nin m e)) eqn:Cond; [|reflexivity].
    cbn [negb orb].
    apply andb_true_iff in Cond. destruct Cond as [Cond C4]. apply andb_true_iff in Cond. destruct Cond as [Cond C3]. apply andb_true_iff in Cond. destruct Cond as [C1 C2].
    pose proof (upd_ctx m h e e0 rets HP Hd) as Ectx. pose proof (upd_rootc m h e e0 rets HP Hd) as Eroot.
    pose proof (upd_in m h e e0 rets HP Hd) as Ein. pose proof (p_nin m h e e0 Ein) as Enin. pose proof (upd_kind m h e e0 rets HP Hd) as Ekind.
    pose proof (upd_cur_c m h e e0 rets (HR_HRc h HRh Hc) HP Hd Hcur Hem) as Ecur. pose proof (upd_empty m h e e0 rets (HR_HRc h HRh Hc) Hd Hem) as Eem.
    pose proof (HR_inv _ (HRh' h e e0 rets HRh Hd) Hc) as I2. pose proof (HR_chain _ (HRh' h e e0 rets HRh Hd)) as Ch2. cbn [hs] in I2, Ch2.
    rewrite Ectx, nz_nn in C2. apply negb_true_iff, Nat.eqb_neq in C2.
    rewrite Ectx, Eroot, rcanc_mem in C3. apply negb_true_iff in C3. rewrite Enin in C4. apply Nat.ltb_lt in C4.
    destruct (progress s' I2 Ch2 (quiet_quiescent C1) C2 C3 C4) as [[g [Hg Hin]]|[Er Hdel]].
    - (* a resolver call is in progress *)
      assert (F : existsb (N.eqb 3) (po_gs p) = true); [|now rewrite F].
      cbn [po_gs pobs_of]. apply existsb_exists. exists (gcode (getg s' g)). split.
      + apply in_map. unfold getg. now apply nth_In.
      + unfold in_resolver in Hin. unfold gcode. destruct (gpcv (getg s' g)); try discriminate Hin. reflexivity.
    - (* delivered *)
      assert (F : u_delivered m e p = true); [|rewrite F, orb_true_r; reflexivity].
      unfold u_delivered. rewrite Ecur. unfold cur_of. rewrite Er. rewrite Ein, Ekind. cbn [po_refs pobs_of]. rewrite map_map, zip3_map, forallb_map.
      apply forallb_forall. intros x Hx. destruct (In_nth_error _ _ Hx) as [r Hr]. destruct Hdel as [_ [_ D3]].
      destruct (lastcode3 x) as [[lc v] er] eqn:El.
      destruct (rin x) eqn:Ei; [|reflexivity]. cbn [negb orb].
      destruct (N.eqb_spec (kcode (rkind x)) 0) as [Ek0|Ek0]; [reflexivity|]. cbn [orb].
      assert (Hk : rkind x <> KNil) by (intros E; apply Ek0; rewrite E; reflexivity).
      pose proof (D3 r x Hr Ei Hk) as Hl. unfold lastcode3 in El. rewrite Hl in El.
      assert (El' : (lc, v, er) = (2%N, nn (value s'), nn (verr s'))).
      { destruct (rkind x); try (exfalso; apply Ek0; reflexivity); now inversion El. }
      inversion El'; subst lc v er. rewrite !N.eqb_refl, andb_true_r. cbn [andb].
      destruct I2 as [[_ [_ [_ [_ [[V1 _] _]]]]] _]. destruct (V1 Er) as [Hv _]. pose proof (rl_cur _ _ _ (re_e _ _ Eem) Er) as RC. cbn [m_empty u_mst] in RC. unfold Pz in RC.
      destruct (mem (nn (vgen s')) (u_empty m e)) eqn:Em.
      + rewrite (proj1 RC eq_refl). apply N.eqb_refl.
      + destruct Hv as [Hv|Hv]; [rewrite Hv, nn_S; apply N.eqb_refl | destruct RC as [_ RC]; specialize (RC Hv); discriminate].
  Qed.
End C93.
