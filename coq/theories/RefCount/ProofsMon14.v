(* refcount: the monitors tied to the model, part 14: Access consumers across one codec event: what the section does to
   the private state (snapshot unchanged, nonce only grows, and grows whenever the mirrored content changes), which sections
   move it in or out of its callback, and what the eager schedule does next (a callback that was just entered has a
   fresh, uncancelled context). *)
From Util Require Import Common.Base Common.ListLemmas RefCount.Model RefCount.Spec RefCount.Proofs RefCount.ProofsC08 RefCount.ProofsC08b
  RefCount.ProofsC09 RefCount.ProofsC10 RefCount.ProofsC10a RefCount.ProofsC10b RefCount.ProofsCodec RefCount.ProofsMon RefCount.ProofsMon2 RefCount.ProofsMon3
  RefCount.ProofsMon4 RefCount.ProofsMon5 RefCount.ProofsMon6 RefCount.ProofsMon7 RefCount.ProofsMonG RefCount.ProofsMon8 RefCount.ProofsMon11 RefCount.ProofsMon12 RefCount.ProofsMon19.
Open Scope nat_scope.

Definition is_cb (p : cpc) : bool := match p with CAccCb _ => true | _ => false end.
Definition acf (x : cons) := (ac_res x, ac_val x, ac_err x, ac_nonce x, ac_snap x, ac_cbcanc x).

Lemma acf_fields x y : acf y = acf x ->
  ac_res y = ac_res x /\ ac_val y = ac_val x /\ ac_err y = ac_err x /\ ac_nonce y = ac_nonce x /\ ac_snap y = ac_snap x /\ ac_cbcanc y = ac_cbcanc x.
Proof. unfold acf. intros H. inversion H. repeat split; reflexivity. Qed.

Lemma cb_wwr_acf x n cur : acf (fst (cb_wwr x n cur)) = acf x.
Proof. unfold cb_wwr. destruct (ww_res x); [destruct (_ && negb (ww_once x)) | destruct n]; reflexivity. Qed.

(* what a reference callback does to the Access bookkeeping of consumer c *)
Lemma invoke_acf s r n c :
  acf (getc (invoke s r n) c) = acf (getc s c) \/ acf (getc (invoke s r n) c) = acf (cb_access (getc s c) n).
Proof.
  unfold invoke. destruct (nth_error (refs s) r) as [x|] eqn:E; [|now left].
  assert (G1 : forall c', getc (set_last s r n) c' = getc s c') by (intros c'; apply getc_set_last).
  assert (SC : forall s2 c' y, (forall c0, getc s2 c0 = getc s c0) ->
             (c' = c -> acf y = acf (getc s c) \/ acf y = acf (cb_access (getc s c) n)) ->
             acf (getc (setc s2 c' y) c) = acf (getc s c) \/ acf (getc (setc s2 c' y) c) = acf (cb_access (getc s c) n)).
  { intros s2 c' y G2 Hy. destruct (Nat.lt_ge_cases c' (length (conss s2))) as [Hl|Hl].
    - rewrite getc_setc by exact Hl. destruct (Nat.eqb_spec c c') as [->|Hne]; [now apply Hy | left; apply f_equal, G2].
    - rewrite getc_setc_oob by exact Hl. left. apply f_equal, G2. }
  destruct (rkind x) as [| | |c'|c'|c'] eqn:K.
  - now left.
  - left. now rewrite G1.
  - left. destruct n; [now rewrite G1|]. change (getc (set_asyncs ?a ?b) c) with (getc a c). now rewrite G1.
  - apply (SC (set_last s r n)); auto. intros ->. now left.
  - rewrite G1. pose proof (cb_wwr_acf (getc s c') n (nonce (set_last s r n))) as W.
    destruct (cb_wwr (getc s c') n (nonce (set_last s r n))) as [y fired]. cbn [fst] in W.
    set (s2 := set_refs (set_last s r n) (set_nth (refs (set_last s r n)) r {| rin := rin x; rflag := true; rkind := KWwr c'; rlast := Some n |})).
    assert (G2 : forall c0, getc s2 c0 = getc s c0) by (intros c0; unfold getc, s2; cbn [conss set_refs]; now rewrite conss_set_last).
    destruct fired; [destruct (rflag x)|]; [apply (SC (set_last s r n)) | apply (SC s2) | apply (SC (set_last s r n))]; auto; intros ->; left; exact W.
  - apply (SC (set_last s r n)); auto. intros ->. right. reflexivity.
Qed.

(* ------------------------------------------------------------------ *)
(* one section: the snapshot is untouched, the nonce moves forward whenever the mirrored content changes *)
Definition QA (i sn0 n0 : nat) (a0 : bool * nat * nat) (l : list cons) : Prop :=
  let y := nth i l cons0 in ac_snap y = sn0 /\ ((acont y = a0 /\ ac_nonce y = n0) \/ n0 < ac_nonce y).

Lemma cb_access_QA x n sn0 n0 a0 :
  ac_snap x = sn0 /\ ((acont x = a0 /\ ac_nonce x = n0) \/ n0 < ac_nonce x) ->
  ac_snap (cb_access x n) = sn0 /\ ((acont (cb_access x n) = a0 /\ ac_nonce (cb_access x n) = n0) \/ n0 < ac_nonce (cb_access x n)).
Proof.
  intros [H1 H2]. unfold cb_access, acont.
  destruct n as [|v e]; [destruct (Bool.eqb false (ac_res x) && Nat.eqb 0 (ac_val x) && Nat.eqb 0 (ac_err x))
                        | destruct (Bool.eqb true (ac_res x) && Nat.eqb v (ac_val x) && Nat.eqb e (ac_err x))];
    cbn [ac_snap ac_nonce ac_res ac_val ac_err]; (split; [exact H1|]); try exact H2; right; destruct H2 as [[_ H2]|H2]; lia.
Qed.

Lemma invoke_QA i sn0 n0 a0 s r n : QA i sn0 n0 a0 (conss s) -> QA i sn0 n0 a0 (conss (invoke s r n)).
Proof.
  unfold QA. fold (getc s i) (getc (invoke s r n) i). intros H.
  destruct (invoke_acf s r n i) as [E|E]; destruct (acf_fields _ _ E) as [E1 [E2 [E3 [E4 [E5 _]]]]]; unfold acont in *; rewrite E1, E2, E3, E4, E5.
  - exact H.
  - exact (cb_access_QA (getc s i) n sn0 n0 a0 H).
Qed.

Lemma QA_set i sn0 n0 a0 l c y : QA i sn0 n0 a0 l -> (c = i -> acf y = acf (nth i l cons0)) -> QA i sn0 n0 a0 (set_nth l c y).
Proof.
  unfold QA. intros H Hy. destruct (Nat.lt_ge_cases c (length l)) as [Hl|Hl]; [|now rewrite set_nth_oob].
  destruct (Nat.eq_dec i c) as [->|Hne]; [|now rewrite nth_set_nth_other].
  rewrite nth_set_nth_same by exact Hl. destruct (acf_fields _ _ (Hy eq_refl)) as [E1 [E2 [E3 [E4 [E5 _]]]]]. unfold acont in *. now rewrite E1, E2, E3, E4, E5.
Qed.

Lemma map_acf_nth s s' i : map acf (conss s') = map acf (conss s) -> acf (nth i (conss s') cons0) = acf (nth i (conss s) cons0).
Proof. intros H. exact (map_nth_getc acf s s' i H). Qed.

Lemma QA_acf i sn0 n0 a0 l l' : acf (nth i l' cons0) = acf (nth i l cons0) -> QA i sn0 n0 a0 l -> QA i sn0 n0 a0 l'.
Proof. unfold QA. intros E. destruct (acf_fields _ _ E) as [E1 [E2 [E3 [E4 [E5 _]]]]]. unfold acont. now rewrite E1, E2, E3, E4, E5. Qed.

(* sections never enter section S1 of Access: every event keeps QA *)
Lemma sect_QA i sn0 n0 a0 s e :
  i < length (conss s) -> (forall c, e <> EConsStep c) -> QA i sn0 n0 a0 (conss s) -> QA i sn0 n0 a0 (conss (step repaired s e)).
Proof.
  intros Hi Hne H. destruct e as [c0|k|r|a|g|a|g en|g v hr er|g|k|c0|c0|c0|c0 res|c0|c0];
    try (apply (Q_step_container (QA i sn0 n0 a0) (invoke_QA i sn0 n0 a0)); [exact I | exact H]); cbn [step].
  - unfold release_section. destruct (nth_error (relacts s) a) as [x|]; [|exact H]. destruct (ra_pc x); [|exact H].
    set (s1 := remove_ref _ (ra_ref x)). assert (H1 : QA i sn0 n0 a0 (conss s1)) by (apply (Q_remove_ref _ (invoke_QA i sn0 n0 a0)); exact H).
    destruct (ra_cons x) as [c1|]; [|exact H1]. destruct (cpcv (getc s1 c1)) eqn:Ec; try exact H1.
    cbn [conss set_conss]. apply QA_set; [exact H1|]. intros ->. reflexivity.
  - unfold start_consumer. apply (Q_add_ref _ (invoke_QA i sn0 n0 a0)). cbn [conss set_conss]. unfold QA. rewrite app_nth1 by exact Hi. exact H.
  - exfalso. exact (Hne c0 eq_refl).
  - destruct (nth_error (conss s) c0) as [x|] eqn:Ex; [|exact H]. rewrite conss_setc. apply QA_set; [exact H|]. intros ->.
    fold (getc s i). now rewrite (getc_x s i x Ex).
  - unfold fire_section. destruct (nth_error (conss s) c0) as [x|] eqn:Ex; [|exact H]. destruct (ww_firepc x) as [[|]|]; try exact H.
    apply (Q_remove_ref _ (invoke_QA i sn0 n0 a0)). rewrite conss_setc. apply QA_set; [exact H|]. intros ->. fold (getc s i). now rewrite (getc_x s i x Ex).
  - apply (QA_acf i sn0 n0 a0 (conss s)); [|exact H]. apply map_acf_nth. apply (cfd_cb_return acf); reflexivity.
  - destruct (watch_step_spec s c0) as [->|[x [y [Hx [-> Hy]]]]]; [exact H|]. wsplit Hy. rewrite conss_setc.
    destruct (getc_nth_error s c0 x Hx) as [Eg Hl]. unfold QA in *. destruct (Nat.eq_dec i c0) as [->|Hn]; [|now rewrite nth_set_nth_other].
    rewrite nth_set_nth_same by exact Hl. fold (getc s c0) in H. rewrite Eg in H. unfold acont in *. now rewrite Wasnap, Wares, Waval, Waerr, Wanonce.
Qed.

(* ------------------------------------------------------------------ *)
(* program points across a section *)
Definition Qpc (i : nat) (p0 : cpc) (l : list cons) : Prop := cpcv (nth i l cons0) = p0.

Lemma invoke_Qpc i p0 s r n : Qpc i p0 (conss s) -> Qpc i p0 (conss (invoke s r n)).
Proof. unfold Qpc. fold (getc s i) (getc (invoke s r n) i). intros H. destruct (invoke_cq s r n i) as [_ [E _]]. congruence. Qed.

Lemma Qpc_set i p0 l c y : Qpc i p0 l -> (c = i -> cpcv y = p0) -> Qpc i p0 (set_nth l c y).
Proof.
  unfold Qpc. intros H Hy. destruct (Nat.lt_ge_cases c (length l)) as [Hl|Hl]; [|now rewrite set_nth_oob].
  destruct (Nat.eq_dec i c) as [->|Hne]; [rewrite nth_set_nth_same by exact Hl; now apply Hy | now rewrite nth_set_nth_other].
Qed.

Lemma sect_pc_container s e i :
  match e with ERelSect _ | EStartCons _ | EConsStep _ | EConsCancel _ | EFire _ | ECbReturn _ _ | EWatch _ => False | _ => True end ->
  cpcv (getc (step repaired s e) i) = cpcv (getc s i).
Proof. intros He. exact (Q_step_container (Qpc i (cpcv (getc s i))) (invoke_Qpc i _) s e He eq_refl). Qed.

(* a section leaves a consumer that is inside its Access callback there, unless it is that callback's return; and no section
   puts a consumer into the callback *)
Lemma sect_pc s e i :
  i < length (conss s) -> ck (getc s i) = CKAccess -> (forall c, e <> EConsStep c) ->
  (is_cb (cpcv (getc s i)) = true -> (forall res, e <> ECbReturn i res) -> cpcv (getc (step repaired s e) i) = cpcv (getc s i)) /\
  (is_cb (cpcv (getc (step repaired s e) i)) = true -> is_cb (cpcv (getc s i)) = true /\ forall res, e <> ECbReturn i res).
Proof.
  intros Hi Hk Hne.
  assert (Same : cpcv (getc (step repaired s e) i) = cpcv (getc s i) ->
    (is_cb (cpcv (getc s i)) = true -> (forall res, e <> ECbReturn i res) -> cpcv (getc (step repaired s e) i) = cpcv (getc s i)) /\
    (is_cb (cpcv (getc (step repaired s e) i)) = true -> is_cb (cpcv (getc s i)) = true)).
  { intros E. split; [auto | now rewrite E]. }
  assert (Keep : Qpc i (cpcv (getc s i)) (conss s)) by reflexivity.
  destruct e as [c0|k|r|a|g|a|g en|g v hr er|g|k|c0|c0|c0|c0 res|c0|c0];
    try (destruct Same as [S1 S2]; [apply sect_pc_container; exact I|]; split; [exact S1 | intros H; split; [now apply S2 | intros; discriminate]]);
    cbn [step].
  - (* removeRef section: only a consumer inside its own Release moves *)
    unfold release_section. destruct (nth_error (relacts s) a) as [x|]; [|split; [auto | intros H; split; [exact H | intros; discriminate]]].
    destruct (ra_pc x); [|split; [auto | intros H; split; [exact H | intros; discriminate]]].
    set (s1 := remove_ref _ (ra_ref x)). assert (H1 : Qpc i (cpcv (getc s i)) (conss s1)) by (apply (Q_remove_ref _ (invoke_Qpc i _)); exact Keep).
    unfold Qpc in H1. fold (getc s1 i) in H1.
    destruct (ra_cons x) as [c1|]; [|rewrite H1; split; [auto | intros H; split; [exact H | intros; discriminate]]].
    destruct (cpcv (getc s1 c1)) eqn:Ec; try (rewrite H1; split; [auto | intros H; split; [exact H | intros; discriminate]]).
    change (set_conss s1 (set_nth (conss s1) c1 ?y)) with (setc s1 c1 y).
    destruct (Nat.eq_dec i c1) as [<-|Hn1].
    + rewrite Ec in H1. rewrite <- H1. destruct (Nat.lt_ge_cases i (length (conss s1))) as [Hl|Hl].
      * rewrite getc_setc, Nat.eqb_refl by exact Hl. cbn [cpcv with_cpc is_cb]. split; [discriminate|]. destruct (ck (getc s1 i)); discriminate.
      * rewrite getc_setc_oob, Ec by exact Hl. split; [discriminate | discriminate].
    + rewrite getc_setc_other by exact Hn1. rewrite H1. split; [auto | intros H; split; [exact H | intros; discriminate]].
  - (* a new consumer *)
    unfold start_consumer. set (s0 := set_conss s _).
    assert (K0 : Qpc i (cpcv (getc s i)) (conss s0)) by (unfold Qpc, s0; cbn [conss set_conss]; now rewrite app_nth1).
    match goal with |- context [add_ref repaired s0 ?kk] => pose proof (Q_add_ref _ (invoke_Qpc i _) s0 kk K0) as H1 end.
    unfold Qpc in H1. change (nth i (conss ?a) cons0) with (getc a i) in H1.
    rewrite H1. split; [auto | intros H; split; [exact H | intros; discriminate]].
  - exfalso. exact (Hne c0 eq_refl).
  - destruct (nth_error (conss s) c0) as [x|] eqn:Ex; [|split; [auto | intros H; split; [exact H | intros; discriminate]]].
    assert (E : cpcv (getc (setc s c0 {| ck := ck x; cref := cref x; ccanc := true; cpcv := cpcv x; cw_res := cw_res x; ww_res := ww_res x;
                            ww_nonce := ww_nonce x; ww_prom := ww_prom x; ww_once := ww_once x; ww_fired := ww_fired x; ww_firepc := ww_firepc x;
                            ac_val := ac_val x; ac_err := ac_err x; ac_res := ac_res x; ac_nonce := ac_nonce x; ac_snap := ac_snap x;
                            ac_cbcanc := ac_cbcanc x; ac_cbres := ac_cbres x; ac_wpark := ac_wpark x; ac_wstale := ac_wstale x |}) i) = cpcv (getc s i)).
    { destruct (getc_nth_error s c0 x Ex) as [Eg Hl]. rewrite getc_setc by exact Hl. destruct (Nat.eqb_spec i c0) as [->|]; [now rewrite Eg | reflexivity]. }
    rewrite E. split; [auto | intros H; split; [exact H | intros; discriminate]].
  - unfold fire_section. destruct (nth_error (conss s) c0) as [x|] eqn:Ex; [|split; [auto | intros H; split; [exact H | intros; discriminate]]].
    destruct (ww_firepc x) as [[|]|]; try (split; [auto | intros H; split; [exact H | intros; discriminate]]).
    assert (K0 : Qpc i (cpcv (getc s i)) (conss (setc s c0 (with_fire x (S (ww_fired x)) (Some RDone))))).
    { rewrite conss_setc. apply Qpc_set; [exact Keep|]. intros ->. now rewrite (getc_x s i x Ex). }
    pose proof (Q_remove_ref _ (invoke_Qpc i _) _ (cref x) K0) as H1. unfold Qpc in H1. change (nth i (conss ?a) cons0) with (getc a i) in H1.
    rewrite H1. split; [auto | intros H; split; [exact H | intros; discriminate]].
  - (* the callback of consumer c0 returns *)
    destruct (Nat.eq_dec i c0) as [->|Hn0].
    + split; [intros _ Hr; exfalso; exact (Hr res eq_refl)|]. intros H. exfalso.
      unfold cb_return in H. destruct (nth_error (conss s) c0) as [x|] eqn:Ex.
      2:{ apply nth_error_None in Ex. lia. }
      destruct (getc_nth_error s c0 x Ex) as [Eg Hl].
      assert (AR : forall e', is_cb (cpcv (getc (acc_ret s c0 (cb_done x) e') c0)) = false).
      { intros e'. destruct (acc_ret_pc s c0 x (cb_done x) e' Ex) as [E|E]; rewrite E; reflexivity. }
      rewrite Eg in Hk. rewrite Hk in H.
      destruct (cpcv x) eqn:Ep; try (rewrite Eg, Ep in H; discriminate H).
      destruct (ccanc x); [rewrite AR in H; discriminate|].
      match type of H with is_cb (cpcv (getc (if ?b then _ else _) _)) = true => destruct b end; [rewrite AR in H; discriminate|].
      rewrite getc_setc, Nat.eqb_refl in H by exact Hl. discriminate H.
    + rewrite cb_return_other by exact Hn0. split; [auto | intros H; split; [exact H | intros r0 E; apply Hn0; now inversion E]].
  - (* a watcher's step *)
    assert (E : cpcv (getc (watch_step s c0) i) = cpcv (getc s i)).
    { destruct (watch_step_spec s c0) as [->|[x [y [Hx [-> Hy]]]]]; [reflexivity|]. wsplit Hy. destruct (getc_nth_error s c0 x Hx) as [Eg Hl].
      rewrite getc_setc by exact Hl. destruct (Nat.eqb_spec i c0) as [->|]; [now rewrite Eg | reflexivity]. }
    rewrite E. split; [auto | intros H; split; [exact H | intros; discriminate]].
Qed.

(* ------------------------------------------------------------------ *)
(* the eager schedule, seen from one consumer: exactly one step of its own *)
Lemma len_conss_cons_step s c : length (conss (cons_step s c)) = length (conss s).
Proof. rewrite <- (map_length ck (conss (cons_step s c))), (cfd_cons_step ck) by reflexivity. apply map_length. Qed.

Lemma fold_cons_step_other l : forall s i, ~ In i l -> getc (fold_left cons_step l s) i = getc s i /\ length (conss (fold_left cons_step l s)) = length (conss s).
Proof.
  induction l as [|c l IH]; intros s i Hn; [split; reflexivity|]. cbn [fold_left].
  destruct (IH (cons_step s c) i ltac:(intros H; apply Hn; now right)) as [A B]. rewrite A, B, len_conss_cons_step.
  split; [apply cons_step_other; intros E; apply Hn; now left | reflexivity].
Qed.

Lemma conss_fold_wake l : forall s, conss (fold_left wake_g l s) = conss s.
Proof.
  induction l as [|g l IH]; intros s; [reflexivity|]. cbn [fold_left]. rewrite IH. unfold wake_g. destruct (gpcv (getg s g)); try reflexivity; apply conss_proceed.
Qed.

Lemma settle_getc s i : i < length (conss s) ->
  exists sX, getc sX i = getc s i /\ length (conss sX) = length (conss s) /\ getc (settle s) i = getc (cons_step sX i) i.
Proof.
  intros Hi. unfold settle. set (s2 := fold_left wake_g (seq 0 (length (gs s))) s).
  assert (E2 : conss s2 = conss s) by apply conss_fold_wake. rewrite E2.
  assert (Hseq : seq 0 (length (conss s)) = seq 0 i ++ i :: seq (S i) (length (conss s) - S i)).
  { replace (length (conss s)) with (i + S (length (conss s) - S i)) at 1 by lia. rewrite seq_app. reflexivity. }
  rewrite Hseq, fold_left_app. cbn [fold_left].
  destruct (fold_cons_step_other (seq 0 i) s2 i ltac:(rewrite in_seq; lia)) as [A B].
  set (sX := fold_left cons_step (seq 0 i) s2) in *. exists sX. split; [rewrite A; unfold getc; now rewrite E2|]. split; [now rewrite B, E2|].
  apply fold_cons_step_other. rewrite in_seq. lia.
Qed.

(* a consumer that is inside its callback stays there (only the callback's return ends it) *)
Lemma cons_step_in_cb s c x : nth_error (conss s) c = Some x -> ck x = CKAccess -> is_cb (cpcv x) = true -> cons_step s c = s.
Proof. intros Hx Hk Hp. unfold cons_step. rewrite Hx, Hk. destruct (cpcv x); try discriminate Hp. reflexivity. Qed.

Lemma settle_in_cb s i : i < length (conss s) -> ck (getc s i) = CKAccess -> is_cb (cpcv (getc s i)) = true -> getc (settle s) i = getc s i.
Proof.
  intros Hi Hk Hp. destruct (settle_getc s i Hi) as [sX [A [B C]]]. rewrite C.
  rewrite (cons_step_in_cb sX i (getc sX i)); [exact A | apply nth_error_getc; lia | now rewrite A | now rewrite A].
Qed.

(* a callback that the eager schedule has just entered: fresh, uncancelled context, nothing notified since Access looked *)
Lemma settle_fresh_cb s i : i < length (conss s) -> ck (getc s i) = CKAccess -> is_cb (cpcv (getc s i)) = false ->
  is_cb (cpcv (getc (settle s) i)) = true ->
  ac_cbcanc (getc (settle s) i) = false /\ ac_nonce (getc (settle s) i) = ac_snap (getc (settle s) i).
Proof.
  intros Hi Hk Hp H. destruct (settle_getc s i Hi) as [sX [A [B C]]]. rewrite C in *.
  assert (Hx : nth_error (conss sX) i = Some (getc s i)) by (rewrite <- A; apply nth_error_getc; lia).
  assert (Idle : forall p, cpcv (getc s i) = p -> (p <> CBlocked) -> (p <> CAccWait) -> cons_step sX i = sX).
  { intros p Ep N1 N2. unfold cons_step. rewrite Hx, Hk, Ep. destruct p; try reflexivity; contradiction. }
  destruct (cpcv (getc s i)) eqn:Ep; try (rewrite (Idle _ eq_refl) in H by discriminate; rewrite A, Ep in H; discriminate H).
  - (* at the top of the loop *)
    pose proof (access_loop_step sX i _ Hx Hk (or_introl Ep)) as L. cbv zeta in L.
    destruct (negb (Nat.eqb (ac_err (getc s i)) 0)); [destruct L as [L|L]; rewrite L in H; discriminate|].
    destruct (ac_res (getc s i)); [tauto|]. destruct (ccanc (getc s i)); [destruct L as [L|L]; rewrite L in H; discriminate | destruct L as [L _]; rewrite L in H; discriminate].
  - discriminate Hp.
  - (* waiting *)
    destruct (Nat.eq_dec (ac_nonce (getc s i)) (ac_snap (getc s i))) as [En|En].
    + exfalso. unfold cons_step in H. rewrite Hx, Hk, Ep in H. destruct (Nat.eqb_spec (ac_nonce (getc s i)) (ac_snap (getc s i))) as [_|N]; [|contradiction]. cbn [negb] in H.
      destruct (ccanc (getc s i)).
      * destruct (acc_ret_pc sX i _ (getc s i) 1 Hx) as [E|E]; rewrite E in H; discriminate.
      * rewrite A, Ep in H. discriminate.
    + pose proof (access_loop_step sX i _ Hx Hk (or_intror (conj Ep En))) as L. cbv zeta in L.
      destruct (negb (Nat.eqb (ac_err (getc s i)) 0)); [destruct L as [L|L]; rewrite L in H; discriminate|].
      destruct (ac_res (getc s i)); [tauto|]. destruct (ccanc (getc s i)); [destruct L as [L|L]; rewrite L in H; discriminate | destruct L as [L _]; rewrite L in H; discriminate].
Qed.

(* ... and its watcher goroutine has not been woken *)
Lemma settle_fresh_cb_wpark s i : i < length (conss s) -> is_cb (cpcv (getc s i)) = false -> wp_ok (getc s i) ->
  ac_wpark (getc (settle s) i) = false.
Proof.
  intros Hi Hp Hw. destruct (settle_getc s i Hi) as [sX [A [B C]]]. rewrite C.
  pose proof (map_nth_getc ac_wpark sX (cons_step sX i) i ((cfd_cons_step ac_wpark) ltac:(reflexivity) ltac:(reflexivity) sX i)) as E.
  rewrite E, A. destruct (ac_wpark (getc s i)) eqn:Ew; [|reflexivity]. destruct (Hw Ew) as [v Ev]. rewrite Ev in Hp. discriminate Hp.
Qed.
