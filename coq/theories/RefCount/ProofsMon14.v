(* refcount: the monitors tied to the model, part 14: Access consumers across one codec event: what the section does to
   the private state (snapshot unchanged, nonce only grows, and grows whenever the mirrored content changes), which sections
   move it in or out of its callback, and what the eager schedule does next (a callback that was just entered has a
   fresh, uncancelled context). *)
From Util Require Import Common.Base Common.ListLemmas RefCount.Model RefCount.Spec RefCount.Proofs RefCount.ProofsC08 RefCount.ProofsC08b
  RefCount.ProofsC09 RefCount.ProofsC10 RefCount.ProofsC10a RefCount.ProofsC10b RefCount.ProofsCodec RefCount.ProofsMon RefCount.ProofsMon2 RefCount.ProofsMon3
  RefCount.ProofsMon4 RefCount.ProofsMon5 RefCount.ProofsMon6 RefCount.ProofsMon7 RefCount.ProofsMonG RefCount.ProofsMon8 RefCount.ProofsMon11 RefCount.ProofsMon12.
Open Scope nat_scope.

Definition is_cb (p : cpc) : bool := match p with CAccCb _ => true | _ => false end.
Definition acf (x : cons) := (ac_res x, ac_val x, ac_err x, ac_nonce x, ac_snap x, ac_cbcanc x).

Lemma acf_fields x y : acf y = acf x ->
  ac_res y = ac_res x /\ ac_val y = ac_val x /\ ac_err y = ac_err x /\ ac_nonce y = ac_nonce x /\ ac_snap y = ac_snap x /\ ac_cbcanc y = ac_cbcanc x.
Proof. unfold acf. intros H. inversion H. repeat split; reflexivity. Qed.

Lemma cb_wwr_acf x n cur : acf (fst (cb_wwr x n cur)) = acf x.
Proof. unfold cb_wwr. destruct (ww_res x); [destruct (_ && negb (ww_once x)) | destruct n]; reflexivity. Qed.

(* what a reference callback does to the Access bookkeeping of consumer c *)
Lemma invoke_acf s r n c :
  acf (getc (invoke s r n) c) = acf (getc s c) \/ acf (getc (invoke s r n) c) = acf (cb_access (getc s c) n).
Proof.
  unfold invoke. destruct (nth_error (refs s) r) as [x|] eqn:E; [|now left].
  assert (G1 : forall c', getc (set_last s r n) c' = getc s c') by (intros c'; apply getc_set_last).
  assert (SC : forall s2 c' y, (forall c0, getc s2 c0 = getc s c0) ->
             (c' = c -> acf y = acf (getc s c) \/ acf y = acf (cb_access (getc s c) n)) ->
             acf (getc (setc s2 c' y) c) = acf (getc s c) \/ acf (getc (setc s2 c' y) c) = acf (cb_access (getc s c) n)).
  { intros s2 c' y G2 Hy. destruct (Nat.lt_ge_cases c' (length (conss s2))) as [Hl|Hl].
    - rewrite getc_setc by exact Hl. destruct (Nat.eqb_spec c c') as [->|Hne]; [now apply Hy | left; apply f_equal, G2].
    - rewrite getc_setc_oob by exact Hl. left. apply f_equal, G2. }
  destruct (rkind x) as [| | |c'|c'|c'] eqn:K.
  - now left.
  - left. now rewrite G1.
  - left. destruct n; [now rewrite G1|]. change (getc (set_asyncs ?a ?b) c) with (getc a c). now rewrite G1.
  - apply (SC (set_last s r n)); auto. intros ->. now left.
  - rewrite G1. pose proof (cb_wwr_acf (getc s c') n (nonce (set_last s r n))) as W.
    destruct (cb_wwr (getc s c') n (nonce (set_last s r n))) as [y fired]. cbn [fst] in W.
    set (s2 := set_refs (set_last s r n) (set_nth (refs (set_last s r n)) r {| rin := rin x; rflag := true; rkind := KWwr c'; rlast := Some n |})).
    assert (G2 : forall c0, getc s2 c0 = getc s c0) by (intros c0; unfold getc, s2; cbn [conss set_refs]; now rewrite conss_set_last).
    destruct fired; [destruct (rflag x)|]; [apply (SC (set_last s r n)) | apply (SC s2) | apply (SC (set_last s r n))]; auto; intros ->; left; exact W.
  - apply (SC (set_last s r n)); auto. intros ->. right. reflexivity.
Qed.
