(* refcount: the monitors tied to the model, part 11: every value a Wait / Resolve / ResolveWithReleased consumer was given
   (and returned) is the empty value or the value of a goroutine that has finished, and clause 10.1 (a value is not
   released while a consumer holds it). *)
From Util Require Import Common.Base Common.ListLemmas RefCount.Model RefCount.Spec RefCount.Proofs RefCount.ProofsC08 RefCount.ProofsC08b
  RefCount.ProofsC09 RefCount.ProofsC10 RefCount.ProofsC10a RefCount.ProofsC10b RefCount.ProofsCodec RefCount.ProofsMon RefCount.ProofsMon2 RefCount.ProofsMon3
  RefCount.ProofsMon4 RefCount.ProofsMon5 RefCount.ProofsMon6 RefCount.ProofsMon7 RefCount.ProofsMonG RefCount.ProofsMon8.
Open Scope nat_scope.

(* a delivered value, relative to a table of goroutines *)
Definition dval (G : list gor) (v : nat) : Prop := v = 0 \/ exists g x, v = S g /\ nth_error G g = Some x /\ gdone x = true.
Definition nvalid (G : list gor) (n : notif) : Prop := match n with NGone => True | NRes v _ => dval G v end.
Definition cval (G : list gor) (x : cons) : Prop :=
  (forall v e, cw_res x = Some (v, e) -> dval G v) /\ (forall v e, ww_prom x = Some (v, e) -> dval G v) /\
  (forall v e h, cpcv x = CRet v e h -> dval G v).
Definition ICG (G : list gor) (l : list cons) : Prop := forall c x, nth_error l c = Some x -> cval G x.
Definition IC (s : st) : Prop := ICG (gs s) (conss s).

(* finished goroutines stay finished *)
Definition gdone_le (G G' : list gor) : Prop := forall g x, nth_error G g = Some x -> gdone x = true -> exists x', nth_error G' g = Some x' /\ gdone x' = true.

Lemma gdone_le_refl G : gdone_le G G. Proof. intros g x H D. eauto. Qed.
Lemma gdone_le_trans G1 G2 G3 : gdone_le G1 G2 -> gdone_le G2 G3 -> gdone_le G1 G3.
Proof. intros H1 H2 g x Hx D. destruct (H1 g x Hx D) as [y [Hy Dy]]. exact (H2 g y Hy Dy). Qed.

Lemma gdone_le_gtr G G' : gtr G G' -> gdone_le G G'.
Proof.
  induction 1 as [l|l g x l' Hx _ IH|l x l' _ _ _ _ IH|l g x p l' Hx Hm _ IH]; [apply gdone_le_refl| | |]; refine (gdone_le_trans _ _ _ _ IH).
  - intros i y Hy D. assert (Hl : g < length l) by (eapply nth_error_nth_len; eauto). destruct (Nat.eq_dec i g) as [->|Hne].
    + exists (gcancel x). rewrite nth_error_set_nth_same by exact Hl. assert (y = x) by congruence. subst y. auto.
    + exists y. rewrite nth_error_set_nth_other by exact Hne. auto.
  - intros i y Hy D. exists y. split; [|exact D]. rewrite nth_error_app1; [exact Hy | eapply nth_error_nth_len; eauto].
  - intros i y Hy D. assert (Hl : g < length l) by (eapply nth_error_nth_len; eauto). destruct (Nat.eq_dec i g) as [->|Hne].
    + exists (with_gpc x p). rewrite nth_error_set_nth_same by exact Hl. assert (y = x) by congruence. subst y. split; [reflexivity|].
      unfold gdone in *. unfold okmove in Hm. destruct (gpcv x); try discriminate D. destruct p; try contradiction; reflexivity.
    + exists y. rewrite nth_error_set_nth_other by exact Hne. auto.
Qed.

Lemma gdone_le_step s e : gdone_le (gs s) (gs (step repaired s e)).
Proof.
  destruct e as [c|k|r|a|g|a|g en|g v hr er|g|k|c|c|c|c res|c|c]; try (apply gdone_le_gtr; apply gtr_step; intros; discriminate).
  cbn [step]. unfold resolver_return. destruct (nth_error (gs s) g) as [x|] eqn:Ex; [|apply gdone_le_refl]. destruct (gpcv x) eqn:Ep; try apply gdone_le_refl.
  intros i y Hy D. assert (Hl : g < length (gs s)) by (eapply nth_error_nth_len; eauto). rewrite gs_setg. destruct (Nat.eq_dec i g) as [->|Hne].
  - assert (y = x) by congruence. subst y. unfold gdone in D. rewrite Ep in D. discriminate.
  - exists y. rewrite nth_error_set_nth_other by exact Hne. auto.
Qed.

Lemma dval_mono G G' v : gdone_le G G' -> dval G v -> dval G' v.
Proof. intros H [E|[g [x [E [Hx D]]]]]; [now left|]. destruct (H g x Hx D) as [x' [Hx' D']]. right. eauto. Qed.

Lemma cval_mono G G' x : gdone_le G G' -> cval G x -> cval G' x.
Proof. intros H [A [B C]]. split; [|split]; intros; eapply dval_mono; eauto. Qed.

Lemma ICG_mono G G' l : gdone_le G G' -> ICG G l -> ICG G' l.
Proof. intros H I c x Hx. eapply cval_mono; eauto. Qed.

Lemma ICG_set G l c y : ICG G l -> cval G y -> ICG G (set_nth l c y).
Proof.
  intros H Hy k x Hk. destruct (Nat.lt_ge_cases c (length l)) as [Hl|Hl].
  - destruct (Nat.eq_dec k c) as [->|Hne].
    + rewrite nth_error_set_nth_same in Hk by exact Hl. now inversion Hk; subst.
    + rewrite nth_error_set_nth_other in Hk by exact Hne. exact (H k x Hk).
  - rewrite set_nth_oob in Hk by exact Hl. exact (H k x Hk).
Qed.

Lemma ICG_getc G s c : ICG G (conss s) -> cval G (getc s c).
Proof.
  intros H. unfold getc. destruct (nth_error (conss s) c) as [x|] eqn:E.
  - rewrite (nth_error_nth_d _ _ cons0 _ E). exact (H c x E).
  - rewrite nth_overflow by (now apply nth_error_None).
    split; [intros v e E0; discriminate E0 | split; [intros v e E0; discriminate E0 | intros v e h0 E0; inversion E0; now left]].
Qed.

Lemma dval0 G : dval G 0. Proof. now left. Qed.

(* a reference callback with a valid notification *)
Lemma invoke_ICG G s r n : nvalid G n -> ICG G (conss s) -> ICG G (conss (invoke s r n)).
Proof.
  intros Hn H. unfold invoke. destruct (nth_error (refs s) r) as [x|]; [|exact H].
  assert (H1 : ICG G (conss (set_last s r n))) by (now rewrite conss_set_last).
  destruct (rkind x) as [| | |c|c|c]; try exact H; try exact H1.
  - destruct n; exact H1.
  - rewrite conss_setc. apply ICG_set; [exact H1|]. destruct (ICG_getc G s c H) as [A [B C]]. unfold cb_wait. split; [|split]; cbn [cw_res ww_prom cpcv]; auto.
    destruct n as [|v e]; intros v' e' E; [discriminate|]. inversion E; subst. exact Hn.
  - rewrite getc_set_last. destruct (ICG_getc G s c H) as [A [B C]].
    assert (W : cval G (fst (cb_wwr (getc s c) n (nonce (set_last s r n))))).
    { unfold cb_wwr. destruct (ww_res (getc s c)).
      - destruct (_ && negb (ww_once (getc s c))); cbn [fst]; (split; [|split]); cbn [cw_res ww_prom cpcv]; auto.
      - destruct n as [|v e]; cbn [fst]; [split; [|split]; auto|]. split; [|split]; cbn [cw_res ww_prom cpcv]; auto.
        intros v' e' E. destruct (ww_prom (getc s c)) as [[v0 e0]|] eqn:Ew; [apply (B v' e'); congruence|]. inversion E; subst. exact Hn. }
    destruct (cb_wwr (getc s c) n (nonce (set_last s r n))) as [y fired]. cbn [fst] in W.
    assert (WF : forall f pc, cval G (with_fire y f pc)) by (intros f pc; exact W).
    destruct fired; [destruct (rflag x)|]; rewrite conss_setc; cbn [conss set_refs]; (apply ICG_set; [exact H1|]); auto.
  - rewrite conss_setc. apply ICG_set; [exact H1|]. destruct (ICG_getc G s c H) as [A [B C]]. unfold cb_access.
    destruct n as [|v e]; [destruct (Bool.eqb false (ac_res (getc s c)) && Nat.eqb 0 (ac_val (getc s c)) && Nat.eqb 0 (ac_err (getc s c)))
                          | destruct (Bool.eqb true (ac_res (getc s c)) && Nat.eqb v (ac_val (getc s c)) && Nat.eqb e (ac_err (getc s c)))];
      (split; [|split]); cbn [cw_res ww_prom cpcv]; auto.
Qed.

Lemma cbs_fold_ICG G n rs : nvalid G n -> forall s, ICG G (conss s) -> ICG G (conss (fold_left (cbs_fold n) rs s)).
Proof.
  intros Hn. induction rs as [|r rs IH]; intros s H; [exact H|]. cbn [fold_left]. apply IH. unfold cbs_fold.
  destruct (rin (nth r (refs s) ref0)); [now apply invoke_ICG | exact H].
Qed.

Lemma call_cbs_ICG G s n : nvalid G n -> ICG G (conss s) -> ICG G (conss (call_cbs s n)).
Proof. intros Hn. rewrite call_cbs_fold. now apply cbs_fold_ICG. Qed.

Lemma clear_resolved_ICG G s : ICG G (conss s) -> ICG G (conss (clear_resolved s)).
Proof.
  intros H. unfold clear_resolved. set (s1 := if resolved s then _ else s).
  assert (H1 : ICG G (conss s1)) by (unfold s1; destruct (resolved s); [apply call_cbs_ICG; [exact I | exact H] | exact H]).
  set (s2 := set_rcancel (cancel_g s1 (rcancel s1)) None).
  assert (E : conss s2 = conss s1) by (unfold s2; cbn [conss set_rcancel]; apply (cancel_g_rest s1 (rcancel s1))).
  destruct (vrel s2); [change (ICG G (conss s2))|]; now rewrite E.
Qed.

Lemma start_resolve_ICG G s : ICG G (conss s) -> ICG G (conss (start_resolve s)).
Proof.
  intros H. unfold start_resolve. assert (H1 : ICG G (conss (shutdown s))) by (unfold shutdown; now apply clear_resolved_ICG).
  set (s1 := shutdown s) in *. destruct (Nat.eqb (kctx s1) 0 || Nat.eqb (nrefs s1) 0); exact H1.
Qed.

Lemma remove_ref_ICG G s r : ICG G (conss s) -> ICG G (conss (remove_ref s r)).
Proof.
  intros H. unfold remove_ref. destruct (nth_error (refs s) r) as [x|]; [|exact H]. destruct (rin x); [|exact H].
  set (s1 := set_refs s _). destruct (Nat.eqb (nrefs s1) 0 && _); [unfold shutdown; now apply clear_resolved_ICG | exact H].
Qed.

(* the consumers' own steps *)
Lemma cons_own_ICG G s c x p e' :
  ICG G (conss s) -> cval G p -> nth_error (conss s) c = Some x ->
  ICG G (conss (let '(s1, parked) := release_call_by (setc s c (with_cpc p (CRel e'))) (cref p) (Some c) in
                if parked then s1 else setc s1 c (with_cpc p (CRet 0 e' false)))) /\
  ICG G (conss (let '(s1, parked) := release_call_by (setc s c (with_cpc p (CRel e'))) (cref p) (Some c) in
                if parked then s1 else setc s1 c (with_cpc p (CAccRet e')))).
Proof.
  intros H [A [B C]] Hx.
  assert (V : forall q, (forall v e h, q = CRet v e h -> v = 0) -> cval G (with_cpc p q)).
  { intros q Hq. split; [|split]; cbn [cw_res ww_prom cpcv with_cpc]; auto. intros v e h E. rewrite (Hq v e h E). apply dval0. }
  pose proof (conss_release_call_by (setc s c (with_cpc p (CRel e'))) (cref p) (Some c)) as Gc.
  destruct (release_call_by (setc s c (with_cpc p (CRel e'))) (cref p) (Some c)) as [s1 parked]. cbn [fst] in Gc.
  assert (H1 : ICG G (conss s1)) by (rewrite Gc, conss_setc; apply ICG_set; [exact H | apply V; intros; discriminate]).
  destruct parked; [split; exact H1|]. split; rewrite conss_setc; (apply ICG_set; [exact H1|]); apply V; intros v e h E; [now inversion E | discriminate].
Qed.

Lemma cons_step_ICG G s c : ICG G (conss s) -> ICG G (conss (cons_step s c)).
Proof.
  intros H. unfold cons_step. destruct (nth_error (conss s) c) as [x|] eqn:Ex; [|exact H]. pose proof (H c x Ex) as [A [B C]].
  assert (Vx : cval G x) by (exact (H c x Ex)).
  assert (VS : forall q n sn b, (forall v e h, q = CRet v e h -> False) -> cval G (acc_set x q n sn b)).
  { intros q n sn b Hq. split; [|split]; cbn [cw_res ww_prom cpcv acc_set]; auto. intros v e h E. destruct (Hq v e h E). }
  assert (AR : forall y e', cval G y -> ICG G (conss (acc_ret s c y e'))) by (intros y e' Hy; unfold acc_ret; now apply (cons_own_ICG G s c x y e' H Hy Ex)).
  assert (S1 : ICG G (conss (acc_s1 s c x))).
  { unfold acc_s1. destruct (negb (Nat.eqb (ac_err x) 0)); [apply AR; split; [|split]; cbn [cw_res ww_prom cpcv acc_set]; auto|].
    destruct (ac_res x); [rewrite conss_setc; apply ICG_set; [exact H | apply VS; intros; discriminate]|].
    destruct (ccanc x); [apply AR; split; [|split]; cbn [cw_res ww_prom cpcv acc_set]; auto | rewrite conss_setc; apply ICG_set; [exact H | apply VS; intros; discriminate]]. }
  destruct (ck x), (cpcv x) eqn:Ep; try exact H; try exact S1.
  3:{ destruct (negb (Nat.eqb (ac_nonce x) (ac_snap x))); [exact S1|]. destruct (ccanc x); [now apply AR | exact H]. }
  - destruct (cw_res x) as [[v e]|] eqn:Ew.
    + destruct (Nat.eqb e 0); [|unfold cons_fail; now apply (cons_own_ICG G s c x x e H Vx Ex)].
      rewrite conss_setc. apply ICG_set; [exact H|]. split; [apply Vx | split; [apply Vx|]]. cbn [cpcv with_cpc].
      intros v' e' h E. inversion E; subst. destruct Vx as [A' _]. exact (A' _ _ Ew).
    + destruct (ccanc x); [unfold cons_fail; now apply (cons_own_ICG G s c x x 1 H Vx Ex) | exact H].
  - destruct (ww_prom x) as [[v e]|] eqn:Ew.
    + destruct (Nat.eqb e 0); [|unfold cons_fail; now apply (cons_own_ICG G s c x x e H Vx Ex)].
      rewrite conss_setc. apply ICG_set; [exact H|]. split; [apply Vx | split; [apply Vx|]]. cbn [cpcv with_cpc].
      intros v' e' h E. inversion E; subst. destruct Vx as [_ [B' _]]. exact (B' _ _ Ew).
    + destruct (ccanc x); [unfold cons_fail; now apply (cons_own_ICG G s c x x 1 H Vx Ex) | exact H].
Qed.

Lemma cb_return_ICG G fx s c res : ICG G (conss s) -> ICG G (conss (cb_return fx s c res)).
Proof.
  intros H. unfold cb_return. destruct (nth_error (conss s) c) as [x|] eqn:Ex; [|exact H]. pose proof (H c x Ex) as Vx.
  destruct (ck x); try exact H. destruct (cpcv x); try exact H.
  assert (Vd : cval G (cb_done x)) by exact Vx.
  assert (AR : forall e', ICG G (conss (acc_ret s c (cb_done x) e'))) by (intros e'; unfold acc_ret; now apply (cons_own_ICG G s c x (cb_done x) e' H Vd Ex)).
  destruct (ccanc x); [apply AR|].
  match goal with |- ICG G (conss (if ?b then _ else _)) => destruct b end; [apply AR|].
  rewrite conss_setc. apply ICG_set; [exact H|]. destruct Vx as [A [B C]]. split; [|split]; cbn [cw_res ww_prom cpcv with_cpc cb_done]; auto. intros; discriminate.
Qed.

Lemma add_ref_ICG G s k : (resolved s = true -> dval G (value s)) -> ICG G (conss s) -> ICG G (conss (add_ref repaired s k)).
Proof.
  intros Hv H. unfold add_ref. set (s1 := set_refs s _). assert (H1 : ICG G (conss s1)) by exact H.
  destruct (Nat.eqb (nrefs s1) 1 && negb (resolved s1)); [now apply start_resolve_ICG|].
  destruct (resolved s1) eqn:Er; [|exact H1]. destruct k; cbn [fx_nilcb repaired]; try exact H1; (apply invoke_ICG; [exact (Hv Er) | exact H1]).
Qed.

Lemma IC_step s e : Inv s -> IC s -> IC (step repaired s e).
Proof.
  intros HI H. unfold IC in *.
  assert (Hval : resolved s = true -> dval (gs s) (value s)).
  { intros Er. destruct HI as [[_ [_ [_ [_ [[V1 _] _]]]]] _]. destruct (V1 Er) as [Hv [A2 [A3 _]]]. destruct Hv as [Hv|Hv]; [|now left].
    right. exists (vgen s), (getg s (vgen s)). split; [exact Hv|]. split; [unfold getg; now apply nth_error_nth' | exact A3]. }
  assert (Mono : forall l, ICG (gs s) l -> ICG (gs (step repaired s e)) l) by (intros l; apply ICG_mono, gdone_le_step).
  destruct e as [c|k|r|a|g|a|g en|g v hr er|g|k|c|c|c|c res|c|c].
  - apply Mono; cbn [step]. unfold set_context. destruct (Nat.eqb (kctx s) c); [exact H|]. cbn [fst]. exact (start_resolve_ICG _ (set_kctx s c) H).
  - apply Mono; cbn [step]. now apply add_ref_ICG.
  - apply Mono; cbn [step]. destruct (rkind (nth r (refs s) ref0)); try exact H; unfold release_call; now rewrite conss_release_call_by.
  - apply Mono; cbn [step]. unfold release_section. destruct (nth_error (relacts s) a) as [x|]; [|exact H]. destruct (ra_pc x); [|exact H].
    set (s1 := remove_ref _ (ra_ref x)). assert (H1 : ICG (gs s) (conss s1)) by (apply remove_ref_ICG; exact H).
    destruct (ra_cons x) as [c|]; [|exact H1]. destruct (cpcv (getc s1 c)) eqn:Ec; try exact H1.
    cbn [conss set_conss]. apply ICG_set; [exact H1|]. destruct (ICG_getc _ s1 c H1) as [A [B C]].
    split; [|split]; cbn [cw_res ww_prom cpcv with_cpc]; auto. intros v e' h E. destruct (ck (getc s1 c)); inversion E; apply dval0.
  - apply Mono; cbn [step]. destruct (nth_error (gs s) g); [|exact H]. unfold released_section. destruct (Nat.eqb (nonce s) (gnonce g0)); [now apply start_resolve_ICG | exact H].
  - apply Mono; cbn [step]. unfold async_section. destruct (nth_error (asyncs s) a) as [x|]; [|exact H]. destruct (as_pc x); [|exact H].
    unfold released_section. set (sa := set_asyncs s _). destruct (Nat.eqb (nonce sa) (as_nonce x)); [exact (start_resolve_ICG _ sa H) | exact H].
  - apply Mono; cbn [step]. now rewrite conss_proceed.
  - apply Mono; cbn [step]. unfold resolver_return. destruct (nth_error (gs s) g) as [x|]; [|exact H]. destruct (gpcv x); exact H.
  - (* the store section: the goroutine has finished when the callbacks hear of its result *)
    clear Mono. cbn [step]. unfold store. destruct (nth_error (gs s) g) as [x|] eqn:Ex; [|exact H]. destruct (gpcv x) eqn:Ep; try exact H.
    assert (Hl : g < length (gs s)) by (eapply nth_error_nth_len; eauto).
    assert (M0 : gdone_le (gs s) (gs (setg s g (with_gpc x GDone)))).
    { apply gdone_le_gtr. apply gtr_setpc; [exact Ex | now rewrite Ep]. }
    set (s0 := setg s g (with_gpc x GDone)) in *. assert (H0 : ICG (gs s0) (conss s0)) by (exact (ICG_mono _ _ _ M0 H)).
    destruct (negb (Nat.eqb (nonce s0) (gnonce x))); [destruct hasrel; exact H0|].
    rewrite gs_call_cbs. assert (E0 : forall t te, gs (if Nat.eqb e 0 then set_target (set_val s0 true v e (if hasrel then Some g else None) g) t 0
                                                     else set_target (set_val s0 true v e (if hasrel then Some g else None) g) te e) = gs s0)
      by (intros; destruct (Nat.eqb e 0); reflexivity).
    match goal with |- ICG (gs ?a) _ => replace (gs a) with (gs s0) by (destruct (Nat.eqb e 0); reflexivity) end.
    apply call_cbs_ICG.
    + cbn [nvalid]. destruct HI as [[_ [HS _]] _]. destruct (HS g Hl) as [S1 _]. destruct (getg_nth_error s g x Ex) as [Eg _]. rewrite Eg in S1.
      destruct (S1 v hasrel e Ep) as [[Hv|Hv] _]; [|now left]. right. exists g, (with_gpc x GDone). split; [exact Hv|]. split; [|reflexivity].
      unfold s0. rewrite gs_setg. now apply nth_error_set_nth_same.
    + destruct (Nat.eqb e 0); exact H0.
  - apply Mono; cbn [step]. unfold start_consumer. apply add_ref_ICG; [exact Hval|]. cbn [conss set_conss].
    intros c x Hx. destruct (nth_error_snoc_cases _ _ _ _ Hx) as [[_ H0]|[_ ->]]; [exact (H c x H0)|].
    split; [|split]; cbn; intros; discriminate.
  - apply Mono; cbn [step]. now apply cons_step_ICG.
  - apply Mono; cbn [step]. destruct (nth_error (conss s) c) as [x|] eqn:Ex; [|exact H]. rewrite conss_setc. apply ICG_set; [exact H|]. exact (H c x Ex).
  - apply Mono; cbn [step]. unfold fire_section. destruct (nth_error (conss s) c) as [x|] eqn:Ex; [|exact H]. destruct (ww_firepc x) as [[|]|]; try exact H.
    apply remove_ref_ICG. rewrite conss_setc. apply ICG_set; [exact H|]. exact (H c x Ex).
  - apply Mono; cbn [step]. now apply cb_return_ICG.
  - apply Mono; cbn [step]. destruct (Nat.eqb c 0); [exact H|]. destruct (cancel_root_frame s c) as [_ [_ [E _]]]. now rewrite E.
  - apply Mono; cbn [step]. destruct (watch_step_spec s c) as [->|[x [y [Hx [-> Hy]]]]]; [exact H|]. wsplit Hy. rewrite conss_setc. apply ICG_set; [exact H|].
    pose proof (H c x Hx) as Vx. unfold cval in *. rewrite Wcw, Wwprom, Wcpcv. exact Vx.
Qed.

Theorem run_IC k es : Forall wf_ev es -> IC (run repaired (init k) es).
Proof.
  induction es as [|e es IH] using rev_ind; intros Hwf; [intros [|c] x H; discriminate|].
  rewrite run_app. apply Forall_app in Hwf. destruct Hwf as [H1 H2]. apply IC_step; [now apply run_inv | now apply IH].
Qed.

Lemma HR_IC h : HR h -> hconst h = false -> IC (hs h).
Proof. intros [[k [es [-> Hw]]] _] Hc. apply run_IC. now apply Hw. Qed.

(* ------------------------------------------------------------------ *)
Lemma combine_map2 {A B C} (f : A -> B) (g : A -> C) (l : list A) : combine (map f l) (map g l) = map (fun x => (f x, g x)) l.
Proof. induction l as [|a l IH]; [reflexivity|]. cbn [map combine]. now rewrite IH. Qed.

Lemma internal_ICG G e s : internal_ev e -> ICG G (conss s) -> ICG G (conss (step repaired s e)).
Proof. destruct e; try contradiction; intros _ H; cbn [step]; [now rewrite conss_proceed | now apply cons_step_ICG]. Qed.

Lemma settle_ICG G s : ICG G (conss s) -> ICG G (conss (settle s)).
Proof.
  intros H. destruct (settle_run s) as [es [-> F]]. apply (run_internal (fun s0 => ICG G (conss s0))); auto.
  intros s0 e He H0. now apply internal_ICG.
Qed.

(* what a consumer holds, as the monitors see it *)
Definition hold_of (s : st) (x : cons) : option N :=
  let '(inn, (code, v, _, h, _, _)) := (nth (cref x) (map rin (refs s)) false, ccode6 x) in
  if inn && N.eqb code 3 && nz h then Some v else None.

Lemma hold_of_some s x v : hold_of s x = Some v ->
  rin (nth (cref x) (refs s) ref0) = true /\ exists v' e', cpcv x = CRet v' e' true /\ v = nn v'.
Proof.
  unfold hold_of, ccode6. change false with (rin ref0). rewrite map_nth.
  destruct (rin (nth (cref x) (refs s) ref0)); [|destruct (cpcv x); discriminate].
  destruct (cpcv x) as [| |v' e' h| | |code]; cbn; try discriminate.
  destruct h; cbn; [|discriminate]. intros E. inversion E. split; [reflexivity|]. eauto.
Qed.

Section C101.
  Variables (m : mst) (h : hst) (e : list N) (e0 : ev) (rets : list N).
  Hypothesis HRh : HR h.
  Hypothesis HP : Rproj m h.
  Hypothesis Hd : dec h e e0 rets.
  Hypothesis Hc : hconst h = false.
  Local Notation s := (hs h).
  Local Notation s1 := (step repaired (hs h) e0).
  Local Notation s' := (settle (step repaired (hs h) e0)).
  Local Notation p := (pobs_of rets (settle (step repaired (hs h) e0)) (hrel h)).

  Lemma p_holds : u_holds m e p = map (hold_of s') (conss s').
  Proof.
    unfold u_holds. rewrite (upd_in m h e e0 rets HP Hd), (upd_cref m h e e0 rets HP Hd). cbn [po_cons pobs_of].
    rewrite map_map, combine_map2, map_map. reflexivity.
  Qed.

  (* 10.1: no release function is called while a consumer holds its value (the calls that happen while something is held
     belong to invalidations - not judged here - or to a superseded goroutine's own, never delivered result) *)
  Lemma clause_10_1 : u_f10_1 m e p = [].
  Proof.
    unfold u_f10_1. rewrite p_holds, (p_newcalls h e0 rets).
    pose proof (HR_inv h HRh Hc) as I0. pose proof (HR_IC h HRh Hc) as IC0. pose proof (nrefs_settle h e0) as NS.
    unfold newlog. destruct HRh as [_ ->]. rewrite settle_rellog.
    destruct (step_log s e0 I0) as [E|[c [E Hcause]]]; rewrite E.
    { rewrite skipn_all. cbn [map forallb]. destruct Hd; reflexivity. }
    rewrite skipn_app_exact. cbn [map forallb]. rewrite andb_true_r.
    set (P := fun hv : option N => match hv with Some v => N.eqb v (idn c + 1) | None => false end).
    assert (NoRef : nrefs s1 = 0 -> existsb P (map (hold_of s') (conss s')) = false).
    { intros Hn. rewrite <- NS in Hn. destruct (existsb P _) eqn:Ex; [|reflexivity]. apply existsb_exists in Ex. destruct Ex as [hv [Hin HPv]].
      apply in_map_iff in Hin. destruct Hin as [x [Hx _]]. destruct hv as [v|]; [|discriminate HPv].
      destruct (hold_of_some s' x v Hx) as [Hr _]. exfalso.
      assert (Hpos : 0 < nrefs s') by (apply (in_set_nrefs_pos _ _ Hr)). lia. }
    destruct Hcause as [[_ [_ Hi]]|[g [x [v [er [He [Hid [_ [Hx [Hp Hnon]]]]]]]]]].
    - destruct Hd; cbn [invalidating] in Hi; try contradiction; try reflexivity.
      + destruct Hi as [Hi _]. now rewrite (NoRef Hi).
      + destruct Hi as [Hi _]. now rewrite (NoRef Hi).
    - (* the store section of a superseded goroutine: its value was never delivered *)
      assert (EC : conss s1 = conss s).
      { rewrite He. cbn [step]. unfold store. rewrite Hx, Hp. change (nonce (setg s g (with_gpc x GDone))) with (nonce s).
        destruct (Nat.eqb_spec (nonce s) (gnonce x)) as [En|En]; [congruence|]. reflexivity. }
      assert (ICs : ICG (gs s) (conss s')) by (apply settle_ICG; rewrite EC; exact IC0).
      assert (F : existsb P (map (hold_of s') (conss s')) = false).
      { destruct (existsb P _) eqn:Ex; [|reflexivity]. apply existsb_exists in Ex. destruct Ex as [hv [Hin HPv]].
        apply in_map_iff in Hin. destruct Hin as [y [Hy Hyin]]. destruct hv as [v0|]; [|discriminate HPv].
        destruct (hold_of_some s' y v0 Hy) as [_ [v' [e' [Ey Ev]]]]. unfold P, idn in HPv. apply N.eqb_eq in HPv. rewrite Ev, <- nn_S in HPv. apply nn_inj in HPv.
        destruct (In_nth_error _ _ Hyin) as [cc Hcc]. destruct (ICs cc y Hcc) as [_ [_ C]]. exfalso.
        destruct (C v' e' true Ey) as [Z|[g' [x' [Ev' [Hx' Hd']]]]]; [lia|].
        assert (g' = g) by lia. subst g'. assert (x' = x) by congruence. subst x'. unfold gdone in Hd'. rewrite Hp in Hd'. discriminate. }
      rewrite F. destruct Hd; reflexivity.
  Qed.
End C101.
