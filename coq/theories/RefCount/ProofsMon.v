(* refcount: the monitors of Spec.v tied to the model for ALL event lists, part 1:
   number conversions, the observation parser inverts [obs_of], and every codec step is a run of model events
   (one section, then the eager schedule [settle]), so that every invariant proved for [run] holds for the codec's states. *)
From Util Require Import Common.Base Common.ListLemmas RefCount.Model RefCount.Spec RefCount.Proofs RefCount.ProofsC08.
Open Scope nat_scope.

(* ------------------------------------------------------------------ *)
(* nat <-> N *)
Lemma n2n_nn a : n2n (nn a) = a. Proof. apply Nnat.Nat2N.id. Qed.
Lemma nn_n2n a : nn (n2n a) = a. Proof. apply Nnat.N2Nat.id. Qed.
Lemma nn_inj a b : nn a = nn b -> a = b. Proof. apply Nnat.Nat2N.inj. Qed.
Lemma nn_eqb a b : N.eqb (nn a) (nn b) = Nat.eqb a b.
Proof.
  destruct (Nat.eqb_spec a b) as [->|H]; [apply N.eqb_refl|]. apply N.eqb_neq. intros E. apply H. now apply nn_inj.
Qed.
Lemma nn_S a : (nn (S a) = nn a + 1)%N. Proof. unfold nn. lia. Qed.
Lemma nn_0 : nn 0 = 0%N. Proof. reflexivity. Qed.
Lemma nz_nn a : nz (nn a) = negb (Nat.eqb a 0).
Proof. unfold nz. change 0%N with (nn 0). now rewrite nn_eqb. Qed.
Lemma nz_nb b : nz (nb b) = b. Proof. destruct b; reflexivity. Qed.
Lemma nn_ltb a b : N.ltb (nn a) (nn b) = Nat.ltb a b.
Proof. destruct (Nat.ltb_spec a b) as [H|H]; [apply N.ltb_lt | apply N.ltb_ge]; unfold nn; lia. Qed.
Lemma nn_leb a b : N.leb (nn a) (nn b) = Nat.leb a b.
Proof. destruct (Nat.leb_spec a b) as [H|H]; [apply N.leb_le | apply N.leb_gt]; unfold nn; lia. Qed.
Lemma eqb_n2n a b : Nat.eqb (n2n a) b = N.eqb a (nn b).
Proof. rewrite <- (nn_n2n a) at 2. now rewrite nn_eqb. Qed.

(* ------------------------------------------------------------------ *)
(* the observation, field by field, and the parser *)
Definition lastcode3 (x : ref) : N * N * N :=
  match rkind x with
  | KLog | KCallsRel =>
    match rlast x with None => (0, 0, 0) | Some NGone => (1, 0, 0) | Some (NRes v e) => (2, nn v, nn e) end
  | _ => (0, 0, 0)
  end%N.
Definition relcode3 (x : relcall) : N * N * N := (nn (rc_id x), nn (rc_target x), nn (rc_stale x)).
Definition racode2 (x : relact) : N * N := ((match ra_pc x with RGate => 1 | RDone => 5 end)%N, nn (ra_ref x)).
Definition ccode6 (x : cons) : N * N * N * N * N * N :=
  let '(a, b, c, d) := (match cpcv x with
                        | CRet v e h => (3, nn v, nn e, nb h)
                        | CAccCb v => (6, nn v, nwatch x, nb (ac_cbcanc x || ccanc x))
                        | CAccRet code => (3, nn code, nwatch x, 0)
                        | _ => (2, 0, nwatch x, 0)
                        end)%N in
  (a, b, c, d, nn (ww_fired x), (if ac_wpark x then 1 else match ww_firepc x with None => 0 | Some RGate => 1 | Some RDone => 5 end)%N).

Definition pobs_of (rets : list N) (s : st) (from : nat) : pobs :=
  {| po_rets := rets; po_gs := map gcode (gs s); po_target := nn (target s); po_terr := nn (terr s);
     po_refs := map lastcode3 (refs s); po_rels := map relcode3 (skipn from (rellog s)); po_async := nn (cnt parked (asyncs s));
     po_relacts := map racode2 (relacts s); po_cons := map ccode6 (conss s) |}.

Lemma take_app {A} (a b : list A) : take (length a) (a ++ b) = Some (a, b).
Proof. induction a as [|x a IH]; [reflexivity|]. cbn [length take app]. now rewrite IH. Qed.

Lemma take3_concat {A} (f : A -> list N) (f3 : A -> N * N * N) (l : list A) (r : list N) :
  (forall x, f x = let '(a, b, c) := f3 x in [a; b; c]) ->
  take3 (length l) (concat (map f l) ++ r) = Some (map f3 l, r).
Proof.
  intros H. induction l as [|x l IH]; [reflexivity|]. cbn [length map concat]. rewrite (H x). destruct (f3 x) as [[a b] c].
  cbn [app take3]. now rewrite IH.
Qed.

Lemma take2_concat {A} (f : A -> list N) (f2 : A -> N * N) (l : list A) (r : list N) :
  (forall x, f x = let '(a, b) := f2 x in [a; b]) ->
  take2 (length l) (concat (map f l) ++ r) = Some (map f2 l, r).
Proof.
  intros H. induction l as [|x l IH]; [reflexivity|]. cbn [length map concat]. rewrite (H x). destruct (f2 x) as [a b].
  cbn [app take2]. now rewrite IH.
Qed.

Lemma take6_concat {A} (f : A -> list N) (f6 : A -> N * N * N * N * N * N) (l : list A) (r : list N) :
  (forall x, f x = let '(a, b, c, d, e, g) := f6 x in [a; b; c; d; e; g]) ->
  take6 (length l) (concat (map f l) ++ r) = Some (map f6 l, r).
Proof.
  intros H. induction l as [|x l IH]; [reflexivity|]. cbn [length map concat]. rewrite (H x). destruct (f6 x) as [[[[[a b] c] d] e] g].
  cbn [app take6]. now rewrite IH.
Qed.

Lemma lastcode_3 x : lastcode x = let '(a, b, c) := lastcode3 x in [a; b; c].
Proof. unfold lastcode, lastcode3. destruct (rkind x); try reflexivity; destruct (rlast x) as [[|v e]|]; reflexivity. Qed.
Lemma relcode_3 x : relcode x = let '(a, b, c) := relcode3 x in [a; b; c].
Proof. reflexivity. Qed.
Lemma racode_2 x : racode x = let '(a, b) := racode2 x in [a; b].
Proof. reflexivity. Qed.
Lemma ccode_6 x : ccode x = let '(a, b, c, d, e, g) := ccode6 x in [a; b; c; d; e; g].
Proof. unfold ccode, ccode6. destruct (cpcv x); reflexivity. Qed.

Lemma parse_obs e rets s from : length rets = nrets e -> parse e (obs_of rets s from) = Some (pobs_of rets s from).
Proof.
  intros Hr. unfold parse, obs_of. rewrite <- Hr, take_app. cbn [app].
  rewrite n2n_nn. rewrite <- (map_length gcode (gs s)) at 1. rewrite take_app. cbn [app].
  rewrite n2n_nn, (take3_concat lastcode lastcode3 (refs s) _ lastcode_3). cbn [app].
  rewrite n2n_nn, <- (skipn_length from (rellog s)), (take3_concat relcode relcode3 _ _ relcode_3). cbn [app].
  rewrite n2n_nn, (take2_concat racode racode2 _ _ racode_2). cbn [app].
  rewrite n2n_nn. rewrite <- (app_nil_r (concat (map ccode (conss s)))), (take6_concat ccode ccode6 _ _ ccode_6).
  reflexivity.
Qed.

(* ------------------------------------------------------------------ *)
(* the eager schedule is a run of model events *)
Lemma run_nil fx s : run fx s [] = s. Proof. reflexivity. Qed.
Lemma run_cons fx s e es : run fx s (e :: es) = run fx (step fx s e) es. Proof. reflexivity. Qed.
Lemma run_app2 fx s a b : run fx s (a ++ b) = run fx (run fx s a) b.
Proof. unfold run. apply fold_left_app. Qed.

Definition internal_ev (e : ev) : Prop := match e with EProceed _ _ | EConsStep _ => True | _ => False end.

Lemma internal_wf e : internal_ev e -> wf_ev e.
Proof. destruct e; cbn; auto; contradiction. Qed.

Lemma wake_g_run s g : exists es, wake_g s g = run repaired s es /\ Forall internal_ev es.
Proof.
  unfold wake_g. destruct (gpcv (getg s g)).
  all: first [exists [EProceed g true]; split; [reflexivity | repeat constructor] | exists []; split; [reflexivity | constructor]].
Qed.

Lemma fold_wake_run l : forall s, exists es, fold_left wake_g l s = run repaired s es /\ Forall internal_ev es.
Proof.
  induction l as [|g l IH]; intros s; [exists []; split; [reflexivity | constructor]|].
  cbn [fold_left]. destruct (wake_g_run s g) as [e1 [E1 F1]]. destruct (IH (wake_g s g)) as [e2 [E2 F2]].
  exists (e1 ++ e2). split; [rewrite run_app2, <- E1; exact E2 | now apply Forall_app].
Qed.

Lemma fold_cons_step_run l : forall s, fold_left cons_step l s = run repaired s (map EConsStep l).
Proof. induction l as [|c l IH]; intros s; [reflexivity|]. cbn [fold_left map]. rewrite run_cons. apply IH. Qed.

Lemma settle_run s : exists es, settle s = run repaired s es /\ Forall internal_ev es.
Proof.
  unfold settle. destruct (fold_wake_run (seq 0 (length (gs s))) s) as [e1 [E1 F1]].
  set (s1 := fold_left wake_g (seq 0 (length (gs s))) s) in *.
  exists (e1 ++ map EConsStep (seq 0 (length (conss s1)))). split.
  - rewrite run_app2, <- E1. apply fold_cons_step_run.
  - apply Forall_app. split; [exact F1|]. apply Forall_forall. intros e He. apply in_map_iff in He. destruct He as [c [<- _]]. exact I.
Qed.

(* every codec step: one model event (the section), then the eager schedule.  [dec h e e0 rets]: the harness event e is
   accepted in h, its section is the model event e0 and the API call returns rets *)
Definition async0 : async := {| as_nonce := 0; as_pc := ARan |}.

Inductive dec (h : hst) : list N -> ev -> list N -> Prop :=
| D_setctx c : dec h [1; c]%N (ESetCtx (n2n c)) [nb (snd (set_context (hs h) (n2n c)))]
| D_addref k : N.leb k 2 = true -> dec h [2; k]%N (EAddRef (n2n k)) [nb (panicked (add_ref repaired (hs h) (kind_of (n2n k))))]
| D_release r : n2n r < length (refs (hs h)) -> (forall c, rkind (nth (n2n r) (refs (hs h)) ref0) <> KAccess c) ->
    dec h [3; r]%N (ERelease (n2n r)) []
| D_relsect a x : nth_error (relacts (hs h)) (n2n a) = Some x -> ra_pc x = RGate -> dec h [4; a]%N (ERelSect (n2n a)) []
| D_released g x : nth_error (gs (hs h)) (n2n g) = Some x -> gent x = true -> dec h [5; g]%N (EReleased (n2n g)) []
| D_async k g a : nth_parked (asyncs (hs h)) (n2n k) 0 = Some a -> n2n g < length (gs (hs h)) ->
    gnonce (getg (hs h) (n2n g)) = as_nonce (nth a (asyncs (hs h)) async0) -> dec h [6; k; g]%N (EAsync a) []
| D_proceed g en x : nth_error (gs (hs h)) (n2n g) = Some x -> gpcv x = GGate0 -> dec h [7; g; en]%N (EProceed (n2n g) (nz en)) []
| D_ret4 g hr er x : nth_error (gs (hs h)) (n2n g) = Some x -> gpcv x = GInRes -> res_ok er 0 = true ->
    dec h [8; g; hr; er]%N (EResReturn (n2n g) (res_val (hconst h) g 0) (nz hr) (n2n er)) []
| D_ret5 g hr er z x : nth_error (gs (hs h)) (n2n g) = Some x -> gpcv x = GInRes -> res_ok er z = true ->
    dec h [8; g; hr; er; z]%N (EResReturn (n2n g) (res_val (hconst h) g z) (nz hr) (n2n er)) []
| D_store g x v hr e : nth_error (gs (hs h)) (n2n g) = Some x -> gpcv x = GStore v hr e -> dec h [9; g]%N (EStore (n2n g)) []
| D_cons k : N.leb k 4 = true -> dec h [10; k]%N (EStartCons (n2n (ckind_norm k))) []
| D_root c : N.leb 1 c = true -> N.leb c 3 = true -> dec h [14; c]%N (ECancelRoot (n2n c)) []
| D_cbret c res x v : nth_error (conss (hs h)) (n2n c) = Some x -> ck x = CKAccess -> cpcv x = CAccCb v ->
    (res = 0 \/ res = 1 \/ res = 10 \/ res = 11)%N -> dec h [13; c; res]%N (ECbReturn (n2n c) (n2n res)) []
| D_cancel c x : nth_error (conss (hs h)) (n2n c) = Some x -> ccanc x = false -> dec h [11; c]%N (EConsCancel (n2n c)) []
| D_fire c x : nth_error (conss (hs h)) (n2n c) = Some x -> ww_firepc x = Some RGate -> dec h [12; c]%N (EFire (n2n c)) []
| D_watch c x : nth_error (conss (hs h)) (n2n c) = Some x -> ck x = CKAccess -> (0 < ac_wstale x \/ ac_wpark x = true) ->
    dec h [15; c]%N (EWatch (n2n c)) [].

Definition fin_of (h : hst) (s1 : st) (rets : list N) : hst * list N :=
  ({| hs := settle s1; hrel := length (rellog (settle s1)); hconst := hconst h |}, obs_of rets (settle s1) (hrel h)).

Lemma ckind_norm_of k : N.leb k 4 = true ->
  (match n2n (ckind_norm k) with 0 => CKWait | 1 => CKWwr | _ => CKAccess end) = ckind_of k.
Proof.
  intros H. apply N.leb_le in H. unfold ckind_of.
  destruct k as [|p]; [reflexivity|]. destruct p as [[p|p|]|[p|p|]|]; try reflexivity; try (exfalso; lia).
  all: destruct p; try reflexivity; exfalso; lia.
Qed.

Lemma hstep_dec h e h' o :
  hstep h e = Some (h', o) -> exists e0 rets, dec h e e0 rets /\ (h', o) = fin_of h (step repaired (hs h) e0) rets.
Proof.
  unfold hstep, fin_of.
  assert (R8 : forall g hr er z,
    match nth_error (gs (hs h)) (n2n g) with
    | Some x => match gpcv x with
                | GInRes => if res_ok er z
                            then Some ({| hs := settle (resolver_return (hs h) (n2n g) (res_val (hconst h) g z) (nz hr) (n2n er));
                                          hrel := length (rellog (settle (resolver_return (hs h) (n2n g) (res_val (hconst h) g z) (nz hr) (n2n er))));
                                          hconst := hconst h |},
                                       obs_of [] (settle (resolver_return (hs h) (n2n g) (res_val (hconst h) g z) (nz hr) (n2n er))) (hrel h))
                            else None
                | _ => None
                end
    | None => None
    end = Some (h', o) ->
    exists x, nth_error (gs (hs h)) (n2n g) = Some x /\ gpcv x = GInRes /\ res_ok er z = true /\
      (h', o) = fin_of h (step repaired (hs h) (EResReturn (n2n g) (res_val (hconst h) g z) (nz hr) (n2n er))) []).
  { intros g hr er z H. destruct (nth_error (gs (hs h)) (n2n g)) as [x|]; [|discriminate]. destruct (gpcv x) eqn:Ep; try discriminate.
    destruct (res_ok er z) eqn:Eok; [|discriminate]. exists x. inversion H. auto. }
  destruct e as [|t e1]; [discriminate|].
  destruct t as [|t]; [discriminate|].
  repeat (match goal with
          | |- context [match ?l with [] => _ | _ :: _ => _ end] => destruct l as [|? ?]; try discriminate
          | |- context [match ?p with xH => _ | xO _ => _ | xI _ => _ end] => destruct p; try discriminate
          end).
  - (* 15 *) destruct (nth_error (conss (hs h)) (n2n n)) as [x|] eqn:Ex; [|discriminate]. destruct (ck x) eqn:Ek; try discriminate.
    destruct (Nat.ltb 0 (ac_wstale x) || ac_wpark x) eqn:Ew; [|discriminate].
    assert (Hw : 0 < ac_wstale x \/ ac_wpark x = true) by (apply orb_true_iff in Ew; destruct Ew as [Ew|Ew]; [left; now apply Nat.ltb_lt | now right]).
    intros H. inversion H. eexists _, _. split; [eapply D_watch; eauto | reflexivity].
  - (* 11 *) destruct (nth_error (conss (hs h)) (n2n n)) as [x|] eqn:Ex; [|discriminate]. destruct (ccanc x) eqn:Ec; [discriminate|].
    intros H. inversion H. eexists _, _. split; [eapply D_cancel; eauto | reflexivity].
  - (* 9 *) destruct (nth_error (gs (hs h)) (n2n n)) as [x|] eqn:Ex; [|discriminate]. destruct (gpcv x) eqn:Ep; try discriminate.
    intros H. inversion H. eexists _, _. split; [eapply D_store; eauto | reflexivity].
  - (* 5 *) destruct (nth_error (gs (hs h)) (n2n n)) as [x|] eqn:Ex; [|discriminate]. destruct (gent x) eqn:Eg; [|discriminate].
    intros H. inversion H. eexists _, _. split; [eapply D_released; eauto|]. cbn [step]. rewrite Ex. reflexivity.
  - (* 3 *) destruct (Nat.ltb_spec (n2n n) (length (refs (hs h)))) as [Hl|Hl]; [|discriminate].
    destruct (rkind (nth (n2n n) (refs (hs h)) ref0)) eqn:Ek; try discriminate;
      (intros H; inversion H; eexists _, _; split; [apply D_release; [exact Hl | intros c0; rewrite Ek; discriminate] | cbn [step]; rewrite Ek; reflexivity]).
  - (* 14 *) destruct (N.leb 1 n) eqn:E1; [|discriminate]. destruct (N.leb n 3) eqn:E3; [|discriminate]. cbn [andb].
    intros H. inversion H. eexists _, _. split; [apply D_root; auto|]. cbn [step].
    destruct (Nat.eqb_spec (n2n n) 0) as [E0|E0]; [|reflexivity]. apply N.leb_le in E1. exfalso. unfold n2n in E0. lia.
  - (* 10 *) destruct (N.leb n 4) eqn:El; [|discriminate]. intros H. inversion H. eexists _, _. split; [apply D_cons; exact El|].
    cbn [step]. rewrite (ckind_norm_of n El). reflexivity.
  - (* 12 *) destruct (nth_error (conss (hs h)) (n2n n)) as [x|] eqn:Ex; [|discriminate]. destruct (ww_firepc x) as [[|]|] eqn:Ef; try discriminate.
    intros H. inversion H. eexists _, _. split; [eapply D_fire; eauto | reflexivity].
  - (* 4 *) destruct (nth_error (relacts (hs h)) (n2n n)) as [x|] eqn:Ex; [|discriminate]. destruct (ra_pc x) eqn:Ep; [|discriminate].
    intros H. inversion H. eexists _, _. split; [eapply D_relsect; eauto | reflexivity].
  - (* 2 *) destruct (N.leb n 2) eqn:El; [|discriminate]. intros H. inversion H. eexists _, _. split; [apply D_addref; exact El | reflexivity].
  - (* 1 *) destruct (set_context (hs h) (n2n n)) as [s' u] eqn:Es. intros H. inversion H. eexists _, _. split; [apply D_setctx|].
    cbn [step]. rewrite Es. reflexivity.
  - (* 7 *) destruct (nth_error (gs (hs h)) (n2n n)) as [x|] eqn:Ex; [|discriminate]. destruct (gpcv x) eqn:Ep; try discriminate.
    intros H. inversion H. eexists _, _. split; [eapply D_proceed; eauto | reflexivity].
  - (* 13 *) destruct (nth_error (conss (hs h)) (n2n n)) as [x|] eqn:Ex; [|discriminate]. destruct (ck x) eqn:Ek; try discriminate.
    destruct (cpcv x) eqn:Ep; try discriminate.
    destruct (N.eqb n0 0 || N.eqb n0 1 || N.eqb n0 10 || N.eqb n0 11)%N eqn:Er; [|discriminate].
    assert (Hres : (n0 = 0 \/ n0 = 1 \/ n0 = 10 \/ n0 = 11)%N).
    { apply orb_true_iff in Er. destruct Er as [Er|Er]; [|apply N.eqb_eq in Er; auto].
      apply orb_true_iff in Er. destruct Er as [Er|Er]; [|apply N.eqb_eq in Er; auto].
      apply orb_true_iff in Er. destruct Er as [Er|Er]; apply N.eqb_eq in Er; auto. }
    intros H. inversion H. eexists _, _. split; [eapply D_cbret; eauto | reflexivity].
  - (* 6 *) destruct (nth_parked (asyncs (hs h)) (n2n n) 0) as [a|] eqn:Ea; [|discriminate].
    destruct (Nat.ltb_spec (n2n n0) (length (gs (hs h)))) as [Hl|Hl]; [|discriminate]. cbn [andb].
    destruct (Nat.eqb_spec (gnonce (getg (hs h) (n2n n0))) (as_nonce (nth a (asyncs (hs h)) {| as_nonce := 0; as_pc := ARan |}))) as [En|En]; [|discriminate].
    intros H. inversion H. eexists _, _. split; [eapply D_async; eauto | reflexivity].
  - (* 8, four fields *) intros H. destruct (R8 _ _ _ _ H) as [x [A1 [A2 [A3 A4]]]]. eexists _, _. split; [eapply D_ret4; eauto | exact A4].
  - (* 8, five fields *) intros H. destruct (R8 _ _ _ _ H) as [x [A1 [A2 [A3 A4]]]]. eexists _, _. split; [eapply D_ret5; eauto | exact A4].
Qed.
