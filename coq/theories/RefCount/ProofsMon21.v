(* refcount: the monitors tied to the model, part 21: one codec event seen from one Access consumer, model side: when and with
   which code an Access call decides to return (its callback's result, the resolver's error, Canceled). *)
From Util Require Import Common.Base Common.ListLemmas RefCount.Model RefCount.Spec RefCount.Proofs RefCount.ProofsC08 RefCount.ProofsC08b
  RefCount.ProofsC09 RefCount.ProofsC10 RefCount.ProofsC10a RefCount.ProofsC10b RefCount.ProofsCodec RefCount.ProofsMon RefCount.ProofsMon2 RefCount.ProofsMon3
  RefCount.ProofsMon4 RefCount.ProofsMon5 RefCount.ProofsMon6 RefCount.ProofsMon7 RefCount.ProofsMonG RefCount.ProofsMon8 RefCount.ProofsMon9 RefCount.ProofsMon10
  RefCount.ProofsMon11 RefCount.ProofsMon12 RefCount.ProofsMon13 RefCount.ProofsMon14 RefCount.ProofsMon15 RefCount.ProofsMon16 RefCount.ProofsMon17
  RefCount.ProofsMon18 RefCount.ProofsMon19 RefCount.ProofsMon20.
Open Scope nat_scope.

Lemma HR_F h : HR h -> InvF (hs h).
Proof. intros [[k [es [-> _]]] _]. apply run_InvF. Qed.
Lemma HR_K2 h : HR h -> InvK2 (conss (hs h)).
Proof. intros [[k [es [-> _]]] _]. apply run_InvK2. Qed.
Lemma HR_E h : HR h -> InvE (hs h).
Proof. intros [[k [es [-> _]]] _]. apply run_InvE. Qed.

(* a running Access call (before its final Release) has no release actor *)
Lemma attached_no_relact h i :
  HR h -> i < length (conss (hs h)) -> ck (getc (hs h) i) = CKAccess -> attached_pc (cpcv (getc (hs h) i)) = true ->
  ~ In (cref (getc (hs h) i)) (raref (hs h)).
Proof.
  intros HRh Hi Hk Hp Hin. destruct (HR_AM h HRh) as [[_ [_ [A3 _]]] _].
  destruct (A3 i _ (nth_error_getc _ i Hi) Hk Hp) as [Hf _]. destruct (HR_F h HRh _ Hin) as [_ Hf']. congruence.
Qed.

(* what the monitors test to see that an Access call has decided to return *)
Lemma decnow_test h i :
  HR h -> i < length (conss (hs h)) -> ck (getc (hs h) i) = CKAccess ->
  forall code v e1 hh f1 f2, ccode6 (getc (hs h) i) = (code, v, e1, hh, f1, f2) ->
  existsb (Nat.eqb (cref (getc (hs h) i))) (raref (hs h)) || N.eqb code 3 = negb (attached_pc (cpcv (getc (hs h) i))).
Proof.
  intros HRh Hi Hk code v e1 hh f1 f2 Ec. unfold ccode6 in Ec.
  assert (NoRel : attached_pc (cpcv (getc (hs h) i)) = true -> existsb (Nat.eqb (cref (getc (hs h) i))) (raref (hs h)) = false).
  { intros Hp. destruct (existsb _ _) eqn:E; [|reflexivity]. apply existsb_eqb_In in E. exfalso. exact (attached_no_relact h i HRh Hi Hk Hp E). }
  destruct (cpcv (getc (hs h) i)) as [|e'|v1 e2 h1|v0| |code0] eqn:Ep; inversion Ec; subst; cbn [attached_pc negb].
  - rewrite NoRel by reflexivity. reflexivity.
  - assert (Hin : In (cref (getc (hs h) i)) (raref (hs h))) by (apply (HR_E h HRh i _ e' (nth_error_getc _ i Hi) Ep)).
    apply existsb_eqb_In in Hin. now rewrite Hin.
  - apply orb_true_r.
  - rewrite NoRel by reflexivity. reflexivity.
  - rewrite NoRel by reflexivity. reflexivity.
  - apply orb_true_r.
Qed.

Lemma ck_old s e i : i < length (conss s) -> ck (getc (step repaired s e) i) = ck (getc s i).
Proof.
  intros Hl. pose proof (f_equal v_ck (step_vw s e)) as V. cbn [v_ck vw] in V.
  unfold getc. change CKWait with (ck cons0). rewrite <- !(map_nth ck). rewrite V.
  destruct e as [c0|k|r|a|g|a|g en|g v hr er|g|k|c0|c0|c0|c0 res|c0|c0]; cbn [v_ck vw vw_addref vw_newcons vw_cancel]; try reflexivity.
  - destruct (nth_error (relacts s) a) as [x|]; [destruct (ra_pc x)|]; reflexivity.
  - rewrite app_nth1 by (now rewrite map_length). reflexivity.
  - destruct (nth_error (conss s) c0) as [x|]; [destruct (ww_firepc x) as [[|]|]|]; reflexivity.
Qed.

(* a consumer that this section created is at the top of its loop *)
Lemma new_cons_pc s e i :
  length (conss s) <= i -> i < length (conss (step repaired s e)) ->
  cpcv (getc (step repaired s e) i) = CBlocked /\ exists k, e = EStartCons k.
Proof.
  intros Hl Hi.
  assert (Cases : (forall k, e <> EStartCons k) \/ exists k, e = EStartCons k) by (destruct e; try (left; intros; discriminate); right; eauto).
  destruct Cases as [Hns|[k ->]].
  - exfalso. pose proof (ck_step s e Hns) as V. rewrite <- (map_length ck (conss (step repaired s e))), V, map_length in Hi. lia.
  - split; [|eauto]. pose proof (f_equal v_ck (step_vw s (EStartCons k))) as V. cbn [v_ck vw_newcons vw] in V.
    assert (Ei : i = length (conss s)).
    { rewrite <- (map_length ck (conss (step repaired s (EStartCons k)))), V, app_length, map_length in Hi. cbn in Hi. lia. }
    subst i. cbn [step]. unfold start_consumer. set (s0 := set_conss s _).
    assert (K0 : Qpc (length (conss s)) CBlocked (conss s0)).
    { unfold Qpc, s0. cbn [conss set_conss]. rewrite app_nth2 by lia. rewrite Nat.sub_diag. reflexivity. }
    match goal with |- context [add_ref repaired s0 ?kk] => exact (Q_add_ref _ (invoke_Qpc (length (conss s)) CBlocked) s0 kk K0) end.
Qed.

Lemma dec_cbret_in_cb h e e0 rets i res :
  dec h e e0 rets -> e0 = ECbReturn i res ->
  i < length (conss (hs h)) /\ ck (getc (hs h) i) = CKAccess /\ is_cb (cpcv (getc (hs h) i)) = true.
Proof.
  intros Hd E. destruct Hd; try discriminate E. inversion E; subst. destruct (getc_nth_error _ _ x H) as [Eg Hl].
  rewrite Eg, H0, H1. auto.
Qed.

Definition settled (x : cons) : Prop := cpcv x <> CBlocked /\ (cpcv x = CAccWait -> ac_nonce x = ac_snap x /\ ccanc x = false).
Definition rc_model (res : nat) (x : cons) : nat := match res with 1 => if ac_cbcanc x || ccanc x then 1 else 0 | _ => res end.

Section AccModel.
  Variables (h : hst) (e : list N) (e0 : ev) (rets : list N).
  Hypothesis HRh : HR h.
  Hypothesis Hd : dec h e e0 rets.
  Local Notation s := (hs h).
  Local Notation s1 := (step repaired (hs h) e0).
  Local Notation s' := (settle (step repaired (hs h) e0)).
  Local Notation h1 := {| hs := step repaired (hs h) e0; hrel := length (rellog (step repaired (hs h) e0)); hconst := hconst h |}.
  Local Notation h' := {| hs := settle (step repaired (hs h) e0); hrel := length (rellog (settle (step repaired (hs h) e0))); hconst := hconst h |}.

  Lemma HR1 : HR h1. Proof. exact (HR_mid h e e0 rets HRh Hd). Qed.
  Lemma HR2 : HR h'. Proof. exact (HRh' h e e0 rets HRh Hd). Qed.

  (* after the eager schedule every Access consumer has taken its own steps *)
  Lemma settled_after i : i < length (conss s') -> ck (getc s' i) = CKAccess -> settled (getc s' i).
  Proof.
    intros Hi Hk. rewrite len_s1 in Hi. rewrite ck_s1 in Hk. destruct (settle_acc s1 i Hi Hk) as [_ [_ [Ecc SA]]].
    assert (LoopOk : aloop (getc s1 i) (getc s' i) -> settled (getc s' i)).
    { unfold aloop, settled. destruct (negb (Nat.eqb (ac_err (getc s1 i)) 0)); [intros [L|L]; rewrite L; split; discriminate|].
      destruct (ac_res (getc s1 i)); [intros [L _]; rewrite L; split; discriminate|].
      destruct (ccanc (getc s1 i)) eqn:Ec; [intros [L|L]; rewrite L; split; discriminate|].
      intros [L1 L2]. rewrite L1. split; [discriminate|]. intros _. split; [exact L2 | congruence]. }
    destruct (cpcv (getc s1 i)) eqn:Ep; try (rewrite SA; unfold settled; rewrite Ep; split; discriminate).
    - now apply LoopOk.
    - destruct (Nat.eqb_spec (ac_nonce (getc s1 i)) (ac_snap (getc s1 i))) as [En|En]; [|now apply LoopOk].
      destruct (ccanc (getc s1 i)) eqn:Ec; [destruct SA as [L|L]; unfold settled; rewrite L; split; discriminate|].
      rewrite SA. unfold settled. rewrite Ep. split; [discriminate|]. intros _. auto.
  Qed.

  (* the top of the loop, with the mirror: what is returned is what the container holds *)
  Lemma aloop_out i : i < length (conss s1) -> ck (getc s1 i) = CKAccess -> attached_pc (cpcv (getc s1 i)) = true ->
    aloop (getc s1 i) (getc s' i) ->
    attached_pc (cpcv (getc s' i)) = true \/
    exists c, (cpcv (getc s' i) = CRel c \/ cpcv (getc s' i) = CAccRet c) /\
              ((c <> 0 /\ resolved s1 = true /\ verr s1 = c) \/ (c = 1 /\ ccanc (getc s1 i) = true /\ resolved s1 = false)).
  Proof.
    intros Hi Hk Hat. destruct (HR_mirror h1 i HR1 Hi Hk Hat) as [M1 M2]. cbn [hs] in M1, M2.
    pose proof (InvK2_getc s1 i (HR_K2 h1 HR1)) as K2. unfold acc_ok2, acont in K2.
    unfold aloop. destruct (Nat.eqb_spec (ac_err (getc s1 i)) 0) as [E0|E0]; cbn [negb].
    - destruct (ac_res (getc s1 i)) eqn:Er; [intros [L _]; left; now rewrite L|].
      destruct (ccanc (getc s1 i)) eqn:Ec; [|intros [L _]; left; now rewrite L].
      intros L. right. exists 1. split; [exact L|]. right. split; [reflexivity|]. split; [reflexivity | congruence].
    - intros L. right. exists (ac_err (getc s1 i)). split; [exact L|]. left. split; [exact E0|].
      destruct (ac_res (getc s1 i)) eqn:Er; [|destruct (K2 eq_refl) as [_ K]; contradiction].
      assert (Er1 : resolved s1 = true) by congruence. split; [exact Er1|]. destruct (M2 Er1) as [_ M]. congruence.
  Qed.

  Lemma vf_s1 : resolved s' = resolved s1 /\ verr s' = verr s1.
  Proof. destruct (vf_fields _ _ (settle_vf s1)) as [A [_ [C _]]]. auto. Qed.

  (* a consumer that had not decided before this event: it still has not, or it has, for one of three reasons *)
  Lemma decide_cases i :
    i < length (conss s') -> ck (getc s' i) = CKAccess ->
    (i < length (conss s) -> attached_pc (cpcv (getc s i)) = true /\ settled (getc s i)) ->
    attached_pc (cpcv (getc s' i)) = true \/
    exists c, (cpcv (getc s' i) = CRel c \/ cpcv (getc s' i) = CAccRet c) /\
      ((exists res, e0 = ECbReturn i res /\ ccanc (getc s i) = true /\ c = 1) \/
       (exists res, e0 = ECbReturn i res /\ ccanc (getc s i) = false /\ ac_nonce (getc s i) = ac_snap (getc s i) /\ c = rc_model res (getc s i)) \/
       (exists res, e0 = ECbReturn i res /\ ccanc (getc s i) = false /\ ac_nonce (getc s i) <> ac_snap (getc s i) /\
                    c <> 0 /\ resolved s' = true /\ verr s' = c) \/
       ((forall res, e0 <> ECbReturn i res) /\
        ((c <> 0 /\ resolved s' = true /\ verr s' = c) \/ (c = 1 /\ ccanc (getc s' i) = true /\ resolved s' = false)))).
  Proof.
    intros Hi Hk Hprev. pose proof Hi as Hi1. rewrite len_s1 in Hi1. pose proof Hk as Hk1. rewrite ck_s1 in Hk1.
    destruct (settle_acc s1 i Hi1 Hk1) as [_ [_ [Ecc SA]]]. destruct vf_s1 as [VR VE].
    assert (Loop : attached_pc (cpcv (getc s1 i)) = true -> aloop (getc s1 i) (getc s' i) ->
              attached_pc (cpcv (getc s' i)) = true \/
              exists c, (cpcv (getc s' i) = CRel c \/ cpcv (getc s' i) = CAccRet c) /\
                        ((c <> 0 /\ resolved s' = true /\ verr s' = c) \/ (c = 1 /\ ccanc (getc s' i) = true /\ resolved s' = false))).
    { intros Hat L. rewrite VR, VE, Ecc. exact (aloop_out i Hi1 Hk1 Hat L). }
    destruct (Nat.lt_ge_cases i (length (conss s))) as [Hold|Hnew].
    - assert (Hk0 : ck (getc s i) = CKAccess) by (rewrite <- (ck_old s e0 i Hold); exact Hk1).
      destruct (Hprev Hold) as [Hat [Hnb Hw]].
      destruct (sect_pc_all s e0 i Hold Hk0 (dec_not_cons_step h e e0 rets Hd)) as [Same|[[[res Er] Hcb]|[code [Hc _]]]].
      + (* the section does not move the consumer *)
        assert (NotMine : is_cb (cpcv (getc s i)) = false -> forall res, e0 <> ECbReturn i res).
        { intros Hn res Er. destruct (dec_cbret_in_cb h e e0 rets i res Hd Er) as [_ [_ Hcb]]. congruence. }
        destruct (cpcv (getc s i)) eqn:Ep; try discriminate Hat; rewrite Same in SA.
        * exfalso. now apply Hnb.
        * left. rewrite SA, Same. reflexivity.
        * destruct (Nat.eqb_spec (ac_nonce (getc s1 i)) (ac_snap (getc s1 i))) as [En|En].
          -- destruct (ccanc (getc s1 i)) eqn:Ec; [|left; rewrite SA, Same; reflexivity].
             right. exists 1. split; [exact SA|]. right. right. right. split; [exact (NotMine eq_refl)|]. right. split; [reflexivity|]. split; [congruence|].
             pose proof (HR_acc_ok h1 i HR1) as [_ K]. cbn [hs] in K. rewrite Same in K. destruct (K En) as [K1 _].
             destruct (HR_mirror h1 i HR1 Hi1 Hk1 ltac:(cbn [hs]; now rewrite Same)) as [M1 _]. cbn [hs] in M1. congruence.
          -- destruct (Loop ltac:(now rewrite Same) SA) as [L|[c [L1 L2]]]; [now left|]. right. exists c. split; [exact L1|]. right. right. right. split; [exact (NotMine eq_refl) | exact L2].
      + (* the consumer's callback returns *)
        subst e0. destruct (cpcv (getc s i)) eqn:Ep; try discriminate Hcb.
        pose proof (cb_return_result s i _ v res (nth_error_getc s i Hold) Hk0 Ep) as R. cbv zeta in R. cbn [step] in *.
        assert (Ecc1 : ccanc (getc (cb_return repaired s i res) i) = ccanc (getc s i)).
        { apply (map_nth_getc ccanc s (cb_return repaired s i res) i). exact (f_equal v_ccanc (vw_cb_return repaired s i res)). }
        destruct (ccanc (getc s i)) eqn:Ec.
        { assert (Ey : getc (settle (cb_return repaired s i res)) i = getc (cb_return repaired s i res) i) by (destruct R as [R|R]; rewrite R in SA; exact SA).
          right. exists 1. rewrite Ey. split; [exact R|]. left. eauto. }
        destruct (Nat.eqb_spec (ac_nonce (getc s i)) (ac_snap (getc s i))) as [En|En].
        { assert (Ey : getc (settle (cb_return repaired s i res)) i = getc (cb_return repaired s i res) i) by (destruct R as [R|R]; rewrite R in SA; exact SA).
          right. exists (rc_model res (getc s i)). rewrite Ey. split; [unfold rc_model; rewrite Ec; exact R|]. right. left. exists res. auto. }
        rewrite R in SA. destruct (Loop ltac:(now rewrite R) SA) as [L|[c [L1 [L2|[_ [L2 _]]]]]]; [now left| |congruence].
        right. exists c. split; [exact L1|]. right. right. left. exists res. destruct L2 as [A [B C]]. auto 10.
      + rewrite Hc in Hat. discriminate Hat.
    - (* a consumer started by this event *)
      destruct (new_cons_pc s e0 i Hnew Hi1) as [Ep [k Ek]]. rewrite Ep in SA.
      destruct (Loop ltac:(now rewrite Ep) SA) as [L|[c [L1 L2]]]; [now left|]. right. exists c. split; [exact L1|]. right. right. right.
      split; [intros res Er; rewrite Ek in Er; discriminate | exact L2].
  Qed.

  (* a consumer that had decided before stays decided, with the same code *)
  Lemma decided_stays i c :
    i < length (conss s) -> ck (getc s i) = CKAccess -> (cpcv (getc s i) = CRel c \/ cpcv (getc s i) = CAccRet c) ->
    cpcv (getc s' i) = CRel c \/ cpcv (getc s' i) = CAccRet c.
  Proof.
    intros Hold Hk0 Hp.
    assert (Hi1 : i < length (conss s1)).
    { pose proof (length_conss_mono h e e0 rets Hd) as L. rewrite len_s1 in L. lia. }
    assert (Hk1 : ck (getc s1 i) = CKAccess) by (rewrite (ck_old s e0 i Hold); exact Hk0).
    destruct (settle_acc s1 i Hi1 Hk1) as [_ [_ [_ SA]]].
    assert (P1 : cpcv (getc s1 i) = CRel c \/ cpcv (getc s1 i) = CAccRet c).
    { destruct (sect_pc_all s e0 i Hold Hk0 (dec_not_cons_step h e e0 rets Hd)) as [Same|[[_ Hcb]|[code [Hc Hc1]]]].
      - now rewrite Same.
      - destruct Hp as [Hp|Hp]; rewrite Hp in Hcb; discriminate.
      - right. destruct Hp as [Hp|Hp]; congruence. }
    destruct P1 as [P1|P1]; rewrite P1 in SA; rewrite SA; auto.
  Qed.
End AccModel.
