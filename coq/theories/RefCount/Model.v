(* refcount.RefCount at gate granularity (C08, C09, C10).  Model of the REPAIRED code (fix commits D9, D10, D17); the
   pinned variants are kept as switches for the _refuted theorems.

   Everything below [mtx] is one critical section per event.  Actors:
     - API calls (SetContext, AddRef, released() from outside): one section, one event;
     - Ref.Release: [swap the flag] gate [removeRef section];
     - every `go r.resolve(...)`: GGate0 -> (GWait | GWaitC) -> GInRes -> GStore outcome -> GDone
       (the done channel of a goroutine is closed when it is GDone: `defer close(doneCh)`);
     - released() called from under the mutex (from a reference callback): an asynchronous goroutine parked before
       the mutex;
     - consumers (C10): Wait / ResolveWithReleased / Access callers, see the second half of the file.
   Values: the resolver call on goroutine g returns value g+1 (or the empty value 0), optionally a release function
   (identified with g) and an error code (0 = nil).  Contexts: a root context is a number (0 = nil); its owner may
   cancel it ([ECancelRoot]), which cancels the resolve contexts derived from it; the resolve context of goroutine g is
   identified with g ([gcanc]).
   No proofs in this file. *)
From Util Require Import Common.Base Common.ListLemmas.

Inductive notif := NGone | NRes (v e : nat).
Definition notif_eqb (a c : notif) : bool :=
  match a, c with
  | NGone, NGone => true
  | NRes v e, NRes v' e' => Nat.eqb v v' && Nat.eqb e e'
  | _, _ => false
  end.

Inductive cbkind := KNil | KLog | KCallsRel | KWait (c : nat) | KWwr (c : nat) | KAccess (c : nat).

Record ref := { rin : bool; rflag : bool; rkind : cbkind; rlast : option notif }.

Inductive gpc := GGate0 | GWait | GWaitC | GInRes | GStore (v : nat) (hasrel : bool) (e : nat) | GDone.
Record gor := { gcanc : bool; gwait : option nat; gnonce : nat; gpcv : gpc; gent : bool (* the resolver was entered *);
                grel : bool (* ghost: the resolver call returned a release function *);
                groot : nat (* the root context its resolve context derives from *) }.

(* one call of a release function: which one, what the target held at that moment, how many present references
   had last been told that this value is current *)
Record relcall := { rc_id : nat; rc_val : nat; rc_target : nat; rc_stale : nat }.

Inductive apc := AParked | ARan.
Record async := { as_nonce : nat; as_pc : apc }.

(* an explicit Ref.Release call in flight *)
Inductive rpc := RGate | RDone.
Record relact := { ra_ref : nat; ra_pc : rpc; ra_cons : option nat (* the consumer whose own Release this is *) }.

(* ---- consumers (C10) ---- *)
Inductive cpc :=
| CBlocked                      (* Wait / ResolveWithReleased: blocked in Await; Access: at the top of its loop (before section S1) *)
| CRel (e : nat)                 (* got error e (or cancellation), Access: is returning code e: inside its own ref.Release() *)
| CRet (v e : nat) (held : bool)(* returned (value, error); held: it still owns the reference *)
| CAccCb (v : nat)              (* Access: inside the callback with value v *)
| CAccWait                      (* Access: waiting for a change *)
| CAccRet (code : nat).         (* Access returned this error code: 0 nil, 1 Canceled, otherwise the callback's or the resolver's error *)

Inductive ckind := CKWait | CKWwr | CKAccess.

Record cons := {
  ck : ckind; cref : nat; ccanc : bool; cpcv : cpc;
  (* Wait: the promise container fed by the reference callback *)
  cw_res : option (nat * nat);
  (* WaitWithReleased *)
  ww_res : bool; ww_nonce : nat; ww_prom : option (nat * nat); ww_once : bool; ww_fired : nat; ww_firepc : option rpc;
  (* Access: state guarded by its private Broadcast *)
  ac_val : nat; ac_err : nat; ac_res : bool; ac_nonce : nat; ac_snap : nat; ac_cbcanc : bool; ac_cbres : nat;
  (* the watcher goroutine of the running callback invocation (it cancels the callback's context when the wait channel closes):
     woken by a change and parked before its cbCancel(); watchers of finished invocations that are still parked there *)
  ac_wpark : bool; ac_wstale : nat;
}.

(* fx_accnonce = false is the seeded variant C10_A of Access ("value equal again" counts as unchanged) *)
Record fixes := { fx_wait : bool; fx_nilcb : bool; fx_accnonce : bool }.
Definition repaired : fixes := {| fx_wait := true; fx_nilcb := true; fx_accnonce := true |}.

Record st := {
  kctx : nat; keep : bool;
  refs : list ref;
  rcancel : option nat;
  nonce : nat;
  waitch : option nat;
  resolved : bool; value : nat; verr : nat; vrel : option nat; vgen : nat;
  target : nat; terr : nat;
  gs : list gor;
  rellog : list relcall;
  asyncs : list async;
  relacts : list relact;
  conss : list cons;
  panicked : bool;
  rootc : list nat;                 (* root contexts that were cancelled by their owner *)
}.

Definition init (keepUnref : bool) : st :=
  {| kctx := 0; keep := keepUnref; refs := []; rcancel := None; nonce := 0; waitch := None;
     resolved := false; value := 0; verr := 0; vrel := None; vgen := 0; target := 0; terr := 0;
     gs := []; rellog := []; asyncs := []; relacts := []; conss := []; panicked := false; rootc := [] |}.

(* ---------- setters ---------- *)
Definition upd (s : st) (f : st -> st) : st := f s.
Definition set_kctx (s : st) (x : nat) : st :=
  {| kctx := x; keep := keep s; refs := refs s; rcancel := rcancel s; nonce := nonce s; waitch := waitch s; resolved := resolved s;
     value := value s; verr := verr s; vrel := vrel s; vgen := vgen s; target := target s; terr := terr s; gs := gs s; rellog := rellog s;
     asyncs := asyncs s; relacts := relacts s; conss := conss s; panicked := panicked s; rootc := rootc s |}.
Definition set_refs (s : st) (x : list ref) : st :=
  {| kctx := kctx s; keep := keep s; refs := x; rcancel := rcancel s; nonce := nonce s; waitch := waitch s; resolved := resolved s;
     value := value s; verr := verr s; vrel := vrel s; vgen := vgen s; target := target s; terr := terr s; gs := gs s; rellog := rellog s;
     asyncs := asyncs s; relacts := relacts s; conss := conss s; panicked := panicked s; rootc := rootc s |}.
Definition set_rcancel (s : st) (x : option nat) : st :=
  {| kctx := kctx s; keep := keep s; refs := refs s; rcancel := x; nonce := nonce s; waitch := waitch s; resolved := resolved s;
     value := value s; verr := verr s; vrel := vrel s; vgen := vgen s; target := target s; terr := terr s; gs := gs s; rellog := rellog s;
     asyncs := asyncs s; relacts := relacts s; conss := conss s; panicked := panicked s; rootc := rootc s |}.
Definition set_nonce (s : st) (x : nat) : st :=
  {| kctx := kctx s; keep := keep s; refs := refs s; rcancel := rcancel s; nonce := x; waitch := waitch s; resolved := resolved s;
     value := value s; verr := verr s; vrel := vrel s; vgen := vgen s; target := target s; terr := terr s; gs := gs s; rellog := rellog s;
     asyncs := asyncs s; relacts := relacts s; conss := conss s; panicked := panicked s; rootc := rootc s |}.
Definition set_waitch (s : st) (x : option nat) : st :=
  {| kctx := kctx s; keep := keep s; refs := refs s; rcancel := rcancel s; nonce := nonce s; waitch := x; resolved := resolved s;
     value := value s; verr := verr s; vrel := vrel s; vgen := vgen s; target := target s; terr := terr s; gs := gs s; rellog := rellog s;
     asyncs := asyncs s; relacts := relacts s; conss := conss s; panicked := panicked s; rootc := rootc s |}.
(* resolved, value, valueErr, valueRel, generation *)
Definition set_val (s : st) (r : bool) (v e : nat) (rel : option nat) (g : nat) : st :=
  {| kctx := kctx s; keep := keep s; refs := refs s; rcancel := rcancel s; nonce := nonce s; waitch := waitch s; resolved := r;
     value := v; verr := e; vrel := rel; vgen := g; target := target s; terr := terr s; gs := gs s; rellog := rellog s;
     asyncs := asyncs s; relacts := relacts s; conss := conss s; panicked := panicked s; rootc := rootc s |}.
Definition set_target (s : st) (t te : nat) : st :=
  {| kctx := kctx s; keep := keep s; refs := refs s; rcancel := rcancel s; nonce := nonce s; waitch := waitch s; resolved := resolved s;
     value := value s; verr := verr s; vrel := vrel s; vgen := vgen s; target := t; terr := te; gs := gs s; rellog := rellog s;
     asyncs := asyncs s; relacts := relacts s; conss := conss s; panicked := panicked s; rootc := rootc s |}.
Definition set_gs (s : st) (x : list gor) : st :=
  {| kctx := kctx s; keep := keep s; refs := refs s; rcancel := rcancel s; nonce := nonce s; waitch := waitch s; resolved := resolved s;
     value := value s; verr := verr s; vrel := vrel s; vgen := vgen s; target := target s; terr := terr s; gs := x; rellog := rellog s;
     asyncs := asyncs s; relacts := relacts s; conss := conss s; panicked := panicked s; rootc := rootc s |}.
Definition set_rellog (s : st) (x : list relcall) : st :=
  {| kctx := kctx s; keep := keep s; refs := refs s; rcancel := rcancel s; nonce := nonce s; waitch := waitch s; resolved := resolved s;
     value := value s; verr := verr s; vrel := vrel s; vgen := vgen s; target := target s; terr := terr s; gs := gs s; rellog := x;
     asyncs := asyncs s; relacts := relacts s; conss := conss s; panicked := panicked s; rootc := rootc s |}.
Definition set_asyncs (s : st) (x : list async) : st :=
  {| kctx := kctx s; keep := keep s; refs := refs s; rcancel := rcancel s; nonce := nonce s; waitch := waitch s; resolved := resolved s;
     value := value s; verr := verr s; vrel := vrel s; vgen := vgen s; target := target s; terr := terr s; gs := gs s; rellog := rellog s;
     asyncs := x; relacts := relacts s; conss := conss s; panicked := panicked s; rootc := rootc s |}.
Definition set_relacts (s : st) (x : list relact) : st :=
  {| kctx := kctx s; keep := keep s; refs := refs s; rcancel := rcancel s; nonce := nonce s; waitch := waitch s; resolved := resolved s;
     value := value s; verr := verr s; vrel := vrel s; vgen := vgen s; target := target s; terr := terr s; gs := gs s; rellog := rellog s;
     asyncs := asyncs s; relacts := x; conss := conss s; panicked := panicked s; rootc := rootc s |}.
Definition set_conss (s : st) (x : list cons) : st :=
  {| kctx := kctx s; keep := keep s; refs := refs s; rcancel := rcancel s; nonce := nonce s; waitch := waitch s; resolved := resolved s;
     value := value s; verr := verr s; vrel := vrel s; vgen := vgen s; target := target s; terr := terr s; gs := gs s; rellog := rellog s;
     asyncs := asyncs s; relacts := relacts s; conss := x; panicked := panicked s; rootc := rootc s |}.
Definition set_panicked (s : st) : st :=
  {| kctx := kctx s; keep := keep s; refs := refs s; rcancel := rcancel s; nonce := nonce s; waitch := waitch s; resolved := resolved s;
     value := value s; verr := verr s; vrel := vrel s; vgen := vgen s; target := target s; terr := terr s; gs := gs s; rellog := rellog s;
     asyncs := asyncs s; relacts := relacts s; conss := conss s; panicked := true; rootc := rootc s |}.

Definition set_rootc (s : st) (x : list nat) : st :=
  {| kctx := kctx s; keep := keep s; refs := refs s; rcancel := rcancel s; nonce := nonce s; waitch := waitch s; resolved := resolved s;
     value := value s; verr := verr s; vrel := vrel s; vgen := vgen s; target := target s; terr := terr s; gs := gs s; rellog := rellog s;
     asyncs := asyncs s; relacts := relacts s; conss := conss s; panicked := panicked s; rootc := x |}.
Definition rcanc (s : st) (c : nat) : bool := existsb (Nat.eqb c) (rootc s).

Definition ref0 : ref := {| rin := false; rflag := true; rkind := KNil; rlast := None |}.
Definition gor0 : gor := {| gcanc := true; gwait := None; gnonce := 0; gpcv := GDone; gent := false; grel := false; groot := 0 |}.
Definition cons0 : cons :=
  {| ck := CKWait; cref := 0; ccanc := true; cpcv := CRet 0 1 false; cw_res := None; ww_res := false; ww_nonce := 0; ww_prom := None;
     ww_once := false; ww_fired := 0; ww_firepc := None; ac_val := 0; ac_err := 0; ac_res := false; ac_nonce := 0; ac_snap := 0;
     ac_cbcanc := false; ac_cbres := 0; ac_wpark := false; ac_wstale := 0 |}.
Definition getg (s : st) (g : nat) : gor := nth g (gs s) gor0.
Definition getc (s : st) (c : nat) : cons := nth c (conss s) cons0.
Definition gdone (x : gor) : bool := match gpcv x with GDone => true | _ => false end.
Definition setg (s : st) (g : nat) (x : gor) : st := set_gs s (set_nth (gs s) g x).
Definition setc (s : st) (c : nat) (x : cons) : st := set_conss s (set_nth (conss s) c x).
Definition with_gpc (x : gor) (p : gpc) : gor :=
  {| gcanc := gcanc x; gwait := gwait x; gnonce := gnonce x; gpcv := p; gent := match p with GInRes => true | _ => gent x end;
     grel := match p with GStore _ hr _ => hr | _ => grel x end; groot := groot x |}.
Definition nrefs (s : st) : nat := cnt rin (refs s).

(* ---------- consumers' reference callbacks ---------- *)
Definition with_cpc (x : cons) (p : cpc) : cons :=
  {| ck := ck x; cref := cref x; ccanc := ccanc x; cpcv := p; cw_res := cw_res x; ww_res := ww_res x; ww_nonce := ww_nonce x;
     ww_prom := ww_prom x; ww_once := ww_once x; ww_fired := ww_fired x; ww_firepc := ww_firepc x; ac_val := ac_val x; ac_err := ac_err x;
     ac_res := ac_res x; ac_nonce := ac_nonce x; ac_snap := ac_snap x; ac_cbcanc := ac_cbcanc x; ac_cbres := ac_cbres x; ac_wpark := ac_wpark x; ac_wstale := ac_wstale x |}.

(* Wait's callback: !resolved -> promCtr.SetPromise(nil); else promCtr.SetResult(val, err) *)
Definition cb_wait (x : cons) (n : notif) : cons :=
  {| ck := ck x; cref := cref x; ccanc := ccanc x; cpcv := cpcv x;
     cw_res := match n with NGone => None | NRes v e => Some (v, e) end;
     ww_res := ww_res x; ww_nonce := ww_nonce x; ww_prom := ww_prom x; ww_once := ww_once x; ww_fired := ww_fired x; ww_firepc := ww_firepc x;
     ac_val := ac_val x; ac_err := ac_err x; ac_res := ac_res x; ac_nonce := ac_nonce x; ac_snap := ac_snap x; ac_cbcanc := ac_cbcanc x;
     ac_cbres := ac_cbres x; ac_wpark := ac_wpark x; ac_wstale := ac_wstale x |}.

(* WaitWithReleased's callback; [cur] is r.nonce at the time of the call.  Returns whether callReleasedOnce fired now. *)
Definition cb_wwr (x : cons) (n : notif) (cur : nat) : cons * bool :=
  if ww_res x then
    let changed := match n with NGone => true | NRes _ _ => negb (Nat.eqb cur (ww_nonce x)) end in
    if changed && negb (ww_once x) then
      ({| ck := ck x; cref := cref x; ccanc := ccanc x; cpcv := cpcv x; cw_res := cw_res x; ww_res := true; ww_nonce := ww_nonce x;
          ww_prom := ww_prom x; ww_once := true; ww_fired := ww_fired x; ww_firepc := ww_firepc x; ac_val := ac_val x; ac_err := ac_err x;
          ac_res := ac_res x; ac_nonce := ac_nonce x; ac_snap := ac_snap x; ac_cbcanc := ac_cbcanc x; ac_cbres := ac_cbres x; ac_wpark := ac_wpark x; ac_wstale := ac_wstale x |}, true)
    else (x, false)
  else
    match n with
    | NRes v e =>
      ({| ck := ck x; cref := cref x; ccanc := ccanc x; cpcv := cpcv x; cw_res := cw_res x; ww_res := true; ww_nonce := cur;
          ww_prom := match ww_prom x with Some p => Some p | None => Some (v, e) end;
          ww_once := ww_once x; ww_fired := ww_fired x; ww_firepc := ww_firepc x; ac_val := ac_val x; ac_err := ac_err x;
          ac_res := ac_res x; ac_nonce := ac_nonce x; ac_snap := ac_snap x; ac_cbcanc := ac_cbcanc x; ac_cbres := ac_cbres x; ac_wpark := ac_wpark x; ac_wstale := ac_wstale x |}, false)
    | NGone => (x, false)
    end.

(* the goroutine `go func(){ ref.Release(); released() }`: its flag swap happens at once; if it loses (the reference was
   already released) it calls released() immediately, otherwise it parks before removeRef's mutex *)
Definition with_fire (x : cons) (fired : nat) (p : option rpc) : cons :=
  {| ck := ck x; cref := cref x; ccanc := ccanc x; cpcv := cpcv x; cw_res := cw_res x; ww_res := ww_res x; ww_nonce := ww_nonce x;
     ww_prom := ww_prom x; ww_once := ww_once x; ww_fired := fired; ww_firepc := p; ac_val := ac_val x; ac_err := ac_err x;
     ac_res := ac_res x; ac_nonce := ac_nonce x; ac_snap := ac_snap x; ac_cbcanc := ac_cbcanc x; ac_cbres := ac_cbres x; ac_wpark := ac_wpark x; ac_wstale := ac_wstale x |}.

(* Access's callback: if anything differs, store it, bump the nonce, broadcast.  The broadcast closes the wait channel of the
   running invocation: its watcher goroutine - alive while the callback's context is not cancelled - wakes up and is then
   parked before its cbCancel() ([ac_wpark]); the context is cancelled by the watcher's own step ([EWatch]).  With a cancelled
   caller context the watcher has already gone and the callback's context is cancelled through its parent. *)
Definition cb_access (x : cons) (n : notif) : cons :=
  let '(r, v, e) := match n with NGone => (false, 0, 0) | NRes v e => (true, v, e) end in
  if Bool.eqb r (ac_res x) && Nat.eqb v (ac_val x) && Nat.eqb e (ac_err x) then x
  else
    {| ck := ck x; cref := cref x; ccanc := ccanc x; cpcv := cpcv x; cw_res := cw_res x; ww_res := ww_res x; ww_nonce := ww_nonce x;
       ww_prom := ww_prom x; ww_once := ww_once x; ww_fired := ww_fired x; ww_firepc := ww_firepc x; ac_val := v; ac_err := e;
       ac_res := r; ac_nonce := S (ac_nonce x); ac_snap := ac_snap x;
       ac_cbcanc := match cpcv x with CAccCb _ => ac_cbcanc x || ccanc x | _ => ac_cbcanc x end; ac_cbres := ac_cbres x;
       ac_wpark := match cpcv x with CAccCb _ => ac_wpark x || negb (ac_cbcanc x || ccanc x) | _ => ac_wpark x end; ac_wstale := ac_wstale x |}.

(* ---------- invoking a reference callback (under the mutex) ---------- *)
Definition set_last (s : st) (r : nat) (n : notif) : st :=
  match nth_error (refs s) r with
  | Some x => set_refs s (set_nth (refs s) r {| rin := rin x; rflag := rflag x; rkind := rkind x; rlast := Some n |})
  | None => s
  end.

Definition invoke (s : st) (r : nat) (n : notif) : st :=
  match nth_error (refs s) r with
  | None => s
  | Some x =>
    match rkind x with
    | KNil => s
    | KLog => set_last s r n
    | KCallsRel =>
      let s1 := set_last s r n in
      match n with
      | NRes _ _ => set_asyncs s1 (asyncs s1 ++ [{| as_nonce := gnonce (getg s1 (vgen s1)); as_pc := AParked |}])
      | NGone => s1
      end
    | KWait c => setc (set_last s r n) c (cb_wait (getc s c) n)
    | KWwr c =>
      let s1 := set_last s r n in
      let '(y, fired) := cb_wwr (getc s1 c) n (nonce s1) in
      if fired then
        if rflag x then setc s1 c (with_fire y (S (ww_fired y)) (Some RDone))
        else setc (set_refs s1 (set_nth (refs s1) r {| rin := rin x; rflag := true; rkind := rkind x; rlast := Some n |})) c
                  (with_fire y (ww_fired y) (Some RGate))
      else setc s1 c y
    | KAccess c => setc (set_last s r n) c (cb_access (getc s c) n)
    end
  end.

(* callRefCbsLocked: every reference in the set (map order in Go; id order here: the effects are per reference) *)
Definition call_cbs (s : st) (n : notif) : st :=
  fold_left (fun s r => if rin (nth r (refs s) ref0) then invoke s r n else s) (seq 0 (length (refs s))) s.

(* ---------- core ---------- *)
Definition cancel_g (s : st) (og : option nat) : st :=
  match og with
  | Some g => match nth_error (gs s) g with
              | Some x => setg s g {| gcanc := true; gwait := gwait x; gnonce := gnonce x; gpcv := gpcv x; gent := gent x; grel := grel x; groot := groot x |}
              | None => s
              end
  | None => s
  end.

Definition is_res (v e : nat) (l : option notif) : bool :=
  match l with Some (NRes v' e') => Nat.eqb v v' && Nat.eqb e e' | _ => false end.

(* calling release function [id], which belongs to value v / error e *)
Definition log_release (s : st) (id v e : nat) : st :=
  set_rellog s (rellog s ++ [{| rc_id := id; rc_val := v; rc_target := target s;
                                rc_stale := cnt (fun x => rin x && is_res v e (rlast x)) (refs s) |}]).

(* clearResolvedState *)
Definition clear_resolved (s : st) : st :=
  let v0 := value s in let e0 := verr s in
  let s1 := if resolved s then
              let s' := set_target s (if Nat.eqb (value s) 0 then target s else 0) (if Nat.eqb (verr s) 0 then terr s else 0) in
              call_cbs (set_val s' false 0 0 (vrel s') (vgen s')) NGone
            else s in
  let s2 := set_rcancel (cancel_g s1 (rcancel s1)) None in
  match vrel s2 with
  | Some id => set_val (log_release s2 id v0 e0) (resolved s2) (value s2) (verr s2) None (vgen s2)
  | None => s2
  end.

Definition shutdown (s : st) : st := clear_resolved (set_nonce s (S (nonce s))).

(* startResolveLocked *)
Definition start_resolve (s : st) : st :=
  let s1 := shutdown s in
  if Nat.eqb (kctx s1) 0 || Nat.eqb (nrefs s1) 0 then s1
  else
    let g := length (gs s1) in
    let s2 := set_gs s1 (gs s1 ++ [{| gcanc := rcanc s1 (kctx s1); gwait := waitch s1; gnonce := nonce s1; gpcv := GGate0; gent := false; grel := false;
                                 groot := kctx s1 |}]) in
    set_rcancel (set_waitch s2 (Some g)) (Some g).

(* the owner of root context c cancels it (without telling the RefCount): every resolve context derived from it is
   cancelled at once; the RefCount keeps the context installed *)
Definition cancel_root (s : st) (c : nat) : st :=
  fold_left (fun s g => if Nat.eqb (groot (getg s g)) c then cancel_g s (Some g) else s) (seq 0 (length (gs s)))
            (set_rootc s (c :: rootc s)).

(* SetContext(ctx) -> updated *)
Definition set_context (s : st) (c : nat) : st * bool :=
  if Nat.eqb (kctx s) c then (s, false) else (start_resolve (set_kctx s c), true).

(* addRefLocked(cb) *)
Definition add_ref (fx : fixes) (s : st) (k : cbkind) : st :=
  let r := length (refs s) in
  let s1 := set_refs s (refs s ++ [{| rin := true; rflag := false; rkind := k; rlast := None |}]) in
  if Nat.eqb (nrefs s1) 1 && negb (resolved s1) then start_resolve s1
  else if resolved s1 then
    match k with
    | KNil => if fx_nilcb fx then s1 else set_panicked s1
    | _ => invoke s1 r (NRes (value s1) (verr s1))
    end
  else s1.

(* removeRef(ref) *)
Definition remove_ref (s : st) (r : nat) : st :=
  match nth_error (refs s) r with
  | Some x =>
    if rin x then
      let s1 := set_refs s (set_nth (refs s) r {| rin := false; rflag := rflag x; rkind := rkind x; rlast := rlast x |}) in
      if Nat.eqb (nrefs s1) 0 && (negb (keep s1) || negb (resolved s1) || negb (Nat.eqb (verr s1) 0)) then shutdown s1 else s1
    else s
  | None => s
  end.

(* the section of released() of goroutine g *)
Definition released_section (s : st) (n : nat) : st := if Nat.eqb (nonce s) n then start_resolve s else s.

(* ---------- resolve goroutines ---------- *)
Definition pred_done (s : st) (x : gor) : bool := match gwait x with Some j => gdone (getg s j) | None => true end.

Definition proceed (fx : fixes) (s : st) (g : nat) (enter : bool) : st :=
  match nth_error (gs s) g with
  | None => s
  | Some x =>
    let go (x : gor) :=
      match gwait x with
      | None => setg s g (with_gpc x GInRes)
      | Some _ =>
        let pd := pred_done s x in
        if pd && gcanc x then (if enter then setg s g (with_gpc x GInRes) else setg s g (with_gpc x GDone))
        else if pd then setg s g (with_gpc x GInRes)
        else if gcanc x then (if fx_wait fx then setg s g (with_gpc x GWaitC) else setg s g (with_gpc x GDone))
        else setg s g (with_gpc x GWait)
      end in
    match gpcv x with
    | GGate0 => go x
    | GWait => if pred_done s x || gcanc x then go x else s
    | GWaitC => if pred_done s x then setg s g (with_gpc x GDone) else s
    | _ => s
    end
  end.

Definition resolver_return (s : st) (g v : nat) (hasrel : bool) (e : nat) : st :=
  match nth_error (gs s) g with
  | Some x => match gpcv x with GInRes => setg s g (with_gpc x (GStore v hasrel e)) | _ => s end
  | None => s
  end.

Definition store (s : st) (g : nat) : st :=
  match nth_error (gs s) g with
  | Some x =>
    match gpcv x with
    | GStore v hasrel e =>
      let s0 := setg s g (with_gpc x GDone) in
      if negb (Nat.eqb (nonce s0) (gnonce x)) then
        (if hasrel then log_release s0 g v e else s0)
      else
        let s1 := set_val s0 true v e (if hasrel then Some g else None) g in
        let s2 := if Nat.eqb e 0 then set_target s1 v 0 else set_target s1 (target s1) e in
        call_cbs s2 (NRes v e)
    | _ => s
    end
  | None => s
  end.

(* ---------- Ref.Release ---------- *)
Definition release_call_by (s : st) (r : nat) (oc : option nat) : st * bool :=
  match nth_error (refs s) r with
  | Some x =>
    if rflag x then (s, false)
    else (set_relacts (set_refs s (set_nth (refs s) r {| rin := rin x; rflag := true; rkind := rkind x; rlast := rlast x |}))
                      (relacts s ++ [{| ra_ref := r; ra_pc := RGate; ra_cons := oc |}]), true)
  | None => (s, false)
  end.
Definition release_call (s : st) (r : nat) : st := fst (release_call_by s r None).

Definition release_section (s : st) (a : nat) : st :=
  match nth_error (relacts s) a with
  | Some x => match ra_pc x with
              | RGate =>
                let s1 := remove_ref (set_relacts s (set_nth (relacts s) a {| ra_ref := ra_ref x; ra_pc := RDone; ra_cons := ra_cons x |})) (ra_ref x) in
                match ra_cons x with
                | Some c => match cpcv (getc s1 c) with
                            | CRel e => set_conss s1 (set_nth (conss s1) c (with_cpc (getc s1 c)
                                          (match ck (getc s1 c) with CKAccess => CAccRet e | _ => CRet 0 e false end)))
                            | _ => s1
                            end
                | None => s1
                end
              | RDone => s
              end
  | None => s
  end.

Definition async_section (s : st) (a : nat) : st :=
  match nth_error (asyncs s) a with
  | Some x => match as_pc x with
              | AParked => released_section (set_asyncs s (set_nth (asyncs s) a {| as_nonce := as_nonce x; as_pc := ARan |})) (as_nonce x)
              | ARan => s
              end
  | None => s
  end.

(* ---------- consumers ---------- *)
Definition new_cons (k : ckind) (r : nat) : cons :=
  {| ck := k; cref := r; ccanc := false; cpcv := CBlocked;
     cw_res := None; ww_res := false; ww_nonce := 0; ww_prom := None; ww_once := false; ww_fired := 0; ww_firepc := None;
     ac_val := 0; ac_err := 0; ac_res := false; ac_nonce := 0; ac_snap := 0; ac_cbcanc := false; ac_cbres := 0; ac_wpark := false; ac_wstale := 0 |}.

(* Wait / ResolveWithReleased / Access start: the consumer record exists before its reference is added, so that a
   callback invoked inside AddRef finds it *)
Definition start_consumer (fx : fixes) (s : st) (k : ckind) : st :=
  let c := length (conss s) in
  let r := length (refs s) in
  let s1 := set_conss s (conss s ++ [new_cons k r]) in
  add_ref fx s1 (match k with CKWait => KWait c | CKWwr => KWwr c | CKAccess => KAccess c end).

(* the consumer's own steps until it blocks or returns; run after every event (eager schedule).  Returns the new
   state and whether the consumer has a Release to perform (Wait / ResolveWithReleased on error or cancellation:
   ref.Release() goes through the release gate as an explicit release actor) *)
Definition cons_fail (s : st) (c : nat) (x : cons) (e : nat) : st :=
  (* ref.Release() and then return (zero, e): the call returns only after its removeRef section *)
  let '(s1, parked) := release_call_by (setc s c (with_cpc x (CRel e))) (cref x) (Some c) in
  if parked then s1 else setc s1 c (with_cpc x (CRet 0 e false)).

(* ---- Access ---- *)
Definition acc_set (x : cons) (p : cpc) (n sn : nat) (cbc : bool) : cons :=
  {| ck := ck x; cref := cref x; ccanc := ccanc x; cpcv := p; cw_res := cw_res x; ww_res := ww_res x; ww_nonce := ww_nonce x;
     ww_prom := ww_prom x; ww_once := ww_once x; ww_fired := ww_fired x; ww_firepc := ww_firepc x; ac_val := ac_val x; ac_err := ac_err x;
     ac_res := ac_res x; ac_nonce := n; ac_snap := sn; ac_cbcanc := cbc; ac_cbres := ac_cbres x; ac_wpark := ac_wpark x; ac_wstale := ac_wstale x |}.

(* Access returns [code]: the deferred ref.Release() goes through the release gate, then the call returns *)
Definition acc_ret (s : st) (c : nat) (x : cons) (code : nat) : st :=
  let '(s1, parked) := release_call_by (setc s c (with_cpc x (CRel code))) (cref x) (Some c) in
  if parked then s1 else setc s1 c (with_cpc x (CAccRet code)).

(* section S1 under Access's private Broadcast: currNonce++, snapshot, fresh wait channel; then: an error is returned,
   a value is handed to the callback (its context is a child of the caller's), otherwise wait for a change *)
Definition acc_s1 (s : st) (c : nat) (x : cons) : st :=
  let n := S (ac_nonce x) in
  if negb (Nat.eqb (ac_err x) 0) then acc_ret s c (acc_set x (cpcv x) n n (ac_cbcanc x)) (ac_err x)
  else if ac_res x then setc s c (acc_set x (CAccCb (ac_val x)) n n false)
  else if ccanc x then acc_ret s c (acc_set x (cpcv x) n n (ac_cbcanc x)) 1
  else setc s c (acc_set x CAccWait n n false).

Definition cons_step (s : st) (c : nat) : st :=
  match nth_error (conss s) c with
  | None => s
  | Some x =>
    match ck x, cpcv x with
    | CKWait, CBlocked =>
      (* PromiseContainer.Await: result available -> return it; ctx cancelled -> Canceled *)
      match cw_res x with
      | Some (v, e) => if Nat.eqb e 0 then setc s c (with_cpc x (CRet v 0 true)) else cons_fail s c x e
      | None => if ccanc x then cons_fail s c x 1 else s
      end
    | CKWwr, CBlocked =>
      match ww_prom x with
      | Some (v, e) => if Nat.eqb e 0 then setc s c (with_cpc x (CRet v 0 true)) else cons_fail s c x e
      | None => if ccanc x then cons_fail s c x 1 else s
      end
    | CKAccess, CBlocked => acc_s1 s c x
    | CKAccess, CAccWait =>
      (* select { ctx.Done -> Canceled | waitCh -> loop }: the wait channel is closed iff a broadcast happened since S1 *)
      if negb (Nat.eqb (ac_nonce x) (ac_snap x)) then acc_s1 s c x
      else if ccanc x then acc_ret s c x 1 else s
    | _, _ => s
    end
  end.

(* the Access callback returns [res]: 0 nil, 1 "return ctx.Err()" (Canceled iff its context is cancelled), otherwise an
   error code.  Then: ctx.Err() check, section S2 (same nonce?), return or loop *)
(* the deferred cbCancel() of the invocation: a watcher that was woken and is still parked stays parked (its cancel is a no-op
   later); one that was not woken exits *)
Definition cb_done (x : cons) : cons :=
  {| ck := ck x; cref := cref x; ccanc := ccanc x; cpcv := cpcv x; cw_res := cw_res x; ww_res := ww_res x; ww_nonce := ww_nonce x;
     ww_prom := ww_prom x; ww_once := ww_once x; ww_fired := ww_fired x; ww_firepc := ww_firepc x; ac_val := ac_val x; ac_err := ac_err x;
     ac_res := ac_res x; ac_nonce := ac_nonce x; ac_snap := ac_snap x; ac_cbcanc := ac_cbcanc x; ac_cbres := ac_cbres x;
     ac_wpark := false; ac_wstale := if ac_wpark x then S (ac_wstale x) else ac_wstale x |}.

Definition cb_return (fx : fixes) (s : st) (c : nat) (res : nat) : st :=
  match nth_error (conss s) c with
  | Some x =>
    match ck x, cpcv x with
    | CKAccess, CAccCb v =>
      let rc := match res with 1 => if ac_cbcanc x || ccanc x then 1 else 0 | _ => res end in
      if ccanc x then acc_ret s c (cb_done x) 1
      else
        let same := Nat.eqb (ac_nonce x) (ac_snap x) in
        let unchanged := if fx_accnonce fx then same
                         else same || (ac_res x && Nat.eqb (ac_err x) 0 && Nat.eqb (ac_val x) v) in
        if unchanged then acc_ret s c (cb_done x) rc else setc s c (with_cpc (cb_done x) CBlocked)
    | _, _ => s
    end
  | None => s
  end.

(* the step of a parked watcher goroutine of Access consumer c (the oldest one): a watcher of a finished invocation just goes
   away; the watcher of the running invocation cancels the callback's context *)
Definition watch_step (s : st) (c : nat) : st :=
  match nth_error (conss s) c with
  | Some x =>
    match ac_wstale x with
    | S k => setc s c {| ck := ck x; cref := cref x; ccanc := ccanc x; cpcv := cpcv x; cw_res := cw_res x; ww_res := ww_res x; ww_nonce := ww_nonce x;
                         ww_prom := ww_prom x; ww_once := ww_once x; ww_fired := ww_fired x; ww_firepc := ww_firepc x; ac_val := ac_val x; ac_err := ac_err x;
                         ac_res := ac_res x; ac_nonce := ac_nonce x; ac_snap := ac_snap x; ac_cbcanc := ac_cbcanc x; ac_cbres := ac_cbres x;
                         ac_wpark := ac_wpark x; ac_wstale := k |}
    | O => if ac_wpark x
           then setc s c {| ck := ck x; cref := cref x; ccanc := ccanc x; cpcv := cpcv x; cw_res := cw_res x; ww_res := ww_res x; ww_nonce := ww_nonce x;
                            ww_prom := ww_prom x; ww_once := ww_once x; ww_fired := ww_fired x; ww_firepc := ww_firepc x; ac_val := ac_val x; ac_err := ac_err x;
                            ac_res := ac_res x; ac_nonce := ac_nonce x; ac_snap := ac_snap x; ac_cbcanc := true; ac_cbres := ac_cbres x;
                            ac_wpark := false; ac_wstale := 0 |}
           else s
    end
  | None => s
  end.

(* ---------- events ---------- *)
Inductive ev :=
| ESetCtx (c : nat)
| EAddRef (k : nat)                     (* 0 nil callback, 1 logging, 2 logging + calls released() *)
| ERelease (r : nat)                    (* Ref.Release called: flag swap; a new release actor if it was the first *)
| ERelSect (a : nat)                    (* removeRef section of release actor a *)
| EReleased (g : nat)                   (* released() of goroutine g called from outside the mutex *)
| EAsync (a : nat)                      (* section of an asynchronous released() *)
| EProceed (g : nat) (enter : bool)
| EResReturn (g v : nat) (hasrel : bool) (e : nat)
| EStore (g : nat)
| EStartCons (k : nat)                  (* 0 Wait, 1 ResolveWithReleased, 2 Access *)
| EConsStep (c : nat)
| EConsCancel (c : nat)
| EFire (c : nat)                       (* the goroutine spawned by WaitWithReleased's callback: ref.Release(); released() *)
| ECbReturn (c res : nat)               (* the callback of Access consumer c returns *)
| ECancelRoot (c : nat)                 (* the owner of root context c cancels it *)
| EWatch (c : nat).                     (* a parked watcher goroutine of Access consumer c takes its step *)

Definition kind_of (k : nat) : cbkind := match k with 0 => KNil | 1 => KLog | _ => KCallsRel end.

Definition fire_section (s : st) (c : nat) : st :=
  match nth_error (conss s) c with
  | Some x =>
    match ww_firepc x with
    | Some RGate => remove_ref (setc s c (with_fire x (S (ww_fired x)) (Some RDone))) (cref x)
    | _ => s
    end
  | None => s
  end.

Definition step (fx : fixes) (s : st) (e : ev) : st :=
  match e with
  | ESetCtx c => fst (set_context s c)
  | EAddRef k => add_ref fx s (kind_of k)
  | ERelease r => (* the reference of an Access call is private to it *)
    match rkind (nth r (refs s) ref0) with KAccess _ => s | _ => release_call s r end
  | ERelSect a => release_section s a
  | EReleased g => match nth_error (gs s) g with Some x => released_section s (gnonce x) | None => s end
  | EAsync a => async_section s a
  | EProceed g en => proceed fx s g en
  | EResReturn g v hr e => resolver_return s g v hr e
  | EStore g => store s g
  | EStartCons k => start_consumer fx s (match k with 0 => CKWait | 1 => CKWwr | _ => CKAccess end)
  | EConsStep c => cons_step s c
  | EConsCancel c =>
    match nth_error (conss s) c with
    | Some x => setc s c {| ck := ck x; cref := cref x; ccanc := true; cpcv := cpcv x; cw_res := cw_res x; ww_res := ww_res x;
                            ww_nonce := ww_nonce x; ww_prom := ww_prom x; ww_once := ww_once x; ww_fired := ww_fired x; ww_firepc := ww_firepc x;
                            ac_val := ac_val x; ac_err := ac_err x; ac_res := ac_res x; ac_nonce := ac_nonce x; ac_snap := ac_snap x;
                            ac_cbcanc := ac_cbcanc x; ac_cbres := ac_cbres x; ac_wpark := ac_wpark x; ac_wstale := ac_wstale x |}
    | None => s
    end
  | EFire c => fire_section s c
  | ECbReturn c res => cb_return fx s c res
  | ECancelRoot c => if Nat.eqb c 0 then s else cancel_root s c
  | EWatch c => watch_step s c
  end.

Definition run (fx : fixes) (s0 : st) (es : list ev) : st := fold_left (step fx) es s0.

Definition in_resolver (x : gor) : bool := match gpcv x with GInRes => true | _ => false end.
