(* refcount: the monitors tied to the model, part 8: the release functions handed out and not yet called ([m_out]) and
   clause 8.4 (no leak). *)
From Util Require Import Common.Base Common.ListLemmas RefCount.Model RefCount.Spec RefCount.Proofs RefCount.ProofsC08 RefCount.ProofsC08b
  RefCount.ProofsC09 RefCount.ProofsC10 RefCount.ProofsC10a RefCount.ProofsC10b RefCount.ProofsCodec RefCount.ProofsMon RefCount.ProofsMon2 RefCount.ProofsMon3
  RefCount.ProofsMon4 RefCount.ProofsMon5 RefCount.ProofsMon6 RefCount.ProofsMon7 RefCount.ProofsMonG RefCount.ProofsMon10 RefCount.ProofsMon17 RefCount.ProofsMonE RefCount.ProofsMon18.
Open Scope nat_scope.

Lemma Pret_step i s e : Pret i (gs s) -> Pret i (gs (step repaired s e)).
Proof.
  intros H. destruct e as [c|k|r|a|g|a|g en|g v hr er|g|k|c|c|c|c res|c|c]; try (refine (Pret_gtr i _ _ (gtr_step s _ _) H); intros; discriminate).
  cbn [step]. unfold resolver_return. destruct (nth_error (gs s) g) as [x|] eqn:Ex; [|exact H]. destruct (gpcv x) eqn:Ep; try exact H.
  destruct H as [y [Hy [A B]]]. assert (Hl : g < length (gs s)) by (eapply nth_error_nth_len; eauto). rewrite gs_setg.
  destruct (Nat.eq_dec i g) as [->|Hne].
  - assert (y = x) by congruence. subst y. rewrite Ep in A. discriminate.
  - exists y. rewrite nth_error_set_nth_other by exact Hne. auto.
Qed.

Definition Rout (m : mst) (s : st) : Prop :=
  forall g, mem g (m_out m) = true -> Pret (n2n g) (gs s) /\ ~ In (n2n g) (ids s).

Lemma at_store_mem l i : i < length l -> nth i l 0%N = 4%N ->
  mem (nn i) (map (fun kx : nat * N => nn (fst kx)) (filter (fun kx => N.eqb (snd kx) 4) (combine (seq 0 (length l)) l))) = true.
Proof.
  intros Hi H4. apply mem_true. apply in_map_iff. exists (i, 4%N). split; [reflexivity|]. apply filter_In. split; [|reflexivity].
  rewrite <- H4. replace (i, nth i l 0%N) with (nth i (combine (seq 0 (length l)) l) (0, 0%N)).
  - apply nth_In. rewrite combine_length, seq_length, Nat.min_id. exact Hi.
  - rewrite combine_seq_nth by exact Hi. reflexivity.
Qed.

Section Out.
  Variables (m : mst) (h : hst) (e : list N) (e0 : ev) (rets : list N).
  Hypothesis HRh : HR h.
  Hypothesis HP : Rproj m h.
  Hypothesis Hd : dec h e e0 rets.
  Hypothesis Hc : hconst h = false.
  Hypothesis Hout : Rout m (hs h).
  Local Notation s := (hs h).
  Local Notation s1 := (step repaired (hs h) e0).
  Local Notation s' := (settle (step repaired (hs h) e0)).
  Local Notation p := (pobs_of rets (settle (step repaired (hs h) e0)) (hrel h)).

  Lemma ids_new : ids s' = ids s ++ map rc_id (newlog h e0).
  Proof. unfold ids. destruct (rellog_new h e0 HRh Hc) as [-> _]. apply map_app. Qed.

  Lemma Pret_hstep i : Pret i (gs s) -> Pret i (gs s').
  Proof. intros H. apply (Pret_gtr i _ _ (gtr_settle s1)). now apply Pret_step. Qed.

  Lemma upd_out : Rout (u_mst m e p) s'.
  Proof.
    intros g Hg. cbn [m_out u_mst] in Hg. unfold u_out in Hg. apply mem_filter in Hg. destruct Hg as [H1 H2]. apply negb_true_iff in H2.
    rewrite (p_newcalls h e0 rets) in H2.
    assert (NotNew : ~ In (n2n g) (map rc_id (newlog h e0))).
    { intros Hin. apply in_map_iff in Hin. destruct Hin as [c [Ec Hin]]. assert (Hm : mem g (map idn (newlog h e0)) = true); [|congruence].
      apply mem_true. apply in_map_iff. exists c. split; [unfold idn; now rewrite Ec, nn_n2n | exact Hin]. }
    assert (Old : mem g (m_out m) = true -> Pret (n2n g) (gs s') /\ ~ In (n2n g) (ids s')).
    { intros Hm. destruct (Hout g Hm) as [A B]. split; [now apply Pret_hstep|]. rewrite ids_new. intros Hin. apply in_app_or in Hin. tauto. }
    pose proof ids_new as IN. pose proof (HR_inv h HRh Hc) as I0. pose proof (gtr_settle s1) as GS.
    assert (Ret : forall g0 hr er z x, e0 = EResReturn (n2n g0) (res_val (hconst h) g0 z) (nz hr) (n2n er) ->
              nth_error (gs s) (n2n g0) = Some x -> gpcv x = GInRes -> nz hr = true ->
              mem g (m_out m ++ [g0]) = true -> Pret (n2n g) (gs s') /\ ~ In (n2n g) (ids s')).
    { intros g0 hr er z x He0 Hx Hp Hhr Hm. rewrite mem_app in Hm. apply orb_true_iff in Hm. destruct Hm as [Hm|Hm]; [now apply Old|].
      unfold mem in Hm. cbn [existsb] in Hm. rewrite orb_false_r in Hm. apply N.eqb_eq in Hm. subst g0. split.
      - apply (Pret_gtr _ _ _ GS). rewrite He0. cbn [step]. unfold resolver_return. rewrite Hx, Hp, gs_setg.
        eexists. split; [apply nth_error_set_nth_same; eapply nth_error_nth_len; eauto|]. cbn [gpcv grel with_gpc returned]. auto.
      - rewrite IN. intros Hin. apply in_app_or in Hin. destruct Hin as [Hin|Hin]; [|contradiction].
        destruct I0 as [[_ [_ [HL _]]] _]. destruct (in_ids_done s _ HL Hin) as [_ Hdn]. destruct (getg_nth_error s _ x Hx) as [Eg _].
        rewrite Eg in Hdn. unfold gdone in Hdn. rewrite Hp in Hdn. discriminate. }
    clear IN GS. destruct Hd; cbn [u_out1] in H1; try (now apply Old).
    - assert (Ehr : nz hr = true \/ nz hr = false) by (destruct (nz hr); auto).
      destruct Ehr as [Ehr|Ehr]; rewrite Ehr in H1; [|now apply Old]. exact (Ret g0 hr er 0%N x eq_refl H H0 Ehr H1).
    - assert (Ehr : nz hr = true \/ nz hr = false) by (destruct (nz hr); auto).
      destruct Ehr as [Ehr|Ehr]; rewrite Ehr in H1; [|now apply Old]. exact (Ret g0 hr er z x eq_refl H H0 Ehr H1).
  Qed.

  (* 8.4: a release function that was returned and not called belongs to a result at its store gate, or to the stored value,
     which is legitimately kept (context + reference, or keep-unreferenced and no error) *)
  Lemma clause_8_4 : m_cur m = cur_of s -> Rempty m s -> u_f8_4 m e p = [].
  Proof.
    intros Hcur Hem. unfold u_f8_4. pose proof upd_out as UO. pose proof (HR_inv _ (HRh' h e e0 rets HRh Hd) Hc) as I2. cbn [hs] in I2.
    pose proof (upd_cur_c m h e e0 rets (HR_HRc h HRh Hc) HP Hd Hcur Hem) as Ecur. pose proof (upd_ctx m h e e0 rets HP Hd) as Ectx.
    pose proof (p_nin m h e e0 (upd_in m h e e0 rets HP Hd)) as Enin. pose proof (upd_keep m h e e0 rets HP Hd) as Ekeep.
    assert (F : forallb (fun g => mem g (u_at_store p) || (match u_cur m e p with Some (c, _) => N.eqb c g | None => false end && u_legit m e p)) (u_out m e p) = true); [|now rewrite F].
    apply forallb_forall. intros g Hg. apply mem_true in Hg. destruct (UO g Hg) as [[x [Hx [Hret Hrel]]] Hnot].
    destruct I2 as [[_ [_ [_ [HL4 [[V1 [V2 [V3 _]]] _]]]]] [_ [K _]]].
    destruct (getg_nth_error s' _ x Hx) as [Eg Hl]. rewrite <- Eg in Hrel.
    destruct (HL4 _ Hl Hrel) as [[v [er Hp]]|[Hv|Hin]]; [| |contradiction].
    - (* at its store gate *) apply orb_true_iff. left. unfold u_at_store, u_ng. cbn [po_gs pobs_of]. rewrite map_length.
      rewrite <- (nn_n2n g), <- (map_length gcode (gs s')). apply at_store_mem; [now rewrite map_length|].
      rewrite (nth_map_error gcode _ _ x 0%N Hx). rewrite Eg in Hp. unfold gcode. now rewrite Hp.
    - (* the stored value *) apply orb_true_iff. right. pose proof (V3 _ Hv) as Evg.
      destruct (resolved s') eqn:Er; [|destruct (V2 eq_refl) as [X _]; congruence].
      destruct (K eq_refl) as [Hk Hn]. rewrite Ecur. unfold cur_of. rewrite Er, <- Evg, nn_n2n, N.eqb_refl. cbn [andb].
      unfold u_legit. rewrite Ectx, Enin, Ecur, nz_nn, Ekeep. unfold cur_of. rewrite Er.
      destruct (Nat.eqb_spec (kctx s') 0) as [|_]; [contradiction|]. cbn [negb andb]. destruct Hn as [Hn|[Hn1 Hn2]].
      + destruct (Nat.ltb_spec 0 (nrefs s')); [reflexivity | lia].
      + rewrite Hn1, Hn2. change (nn 0) with 0%N. rewrite N.eqb_refl. apply orb_true_r.
  Qed.
End Out.
