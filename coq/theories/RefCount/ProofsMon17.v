(* refcount: the monitors tied to the model, part 17: a light state invariant that does not need generation-unique resolver
   values.  [c] = the resolver returns the constant value 7 for every generation (the configuration of the Access ABA case).
   For EVERY event list whose resolver returns are of the shape the codec produces in configuration c:
     - the nonces of the resolve goroutines are bounded by the container's and strictly increasing,
     - a result at its store gate and the stored result carry the value of their generation (or the empty value with an error),
     - the stored generation has finished and is of the current nonce; nothing stored => value, error and both target
       containers are empty; stored => the target containers hold exactly the value / the error.
   With the chain of done channels: while something is stored every resolve goroutine has finished. *)
From Util Require Import Common.Base Common.ListLemmas RefCount.Model RefCount.Spec RefCount.Proofs RefCount.ProofsC08 RefCount.ProofsC08b
  RefCount.ProofsC09 RefCount.ProofsC10 RefCount.ProofsC10a RefCount.ProofsC10b RefCount.ProofsMon RefCount.ProofsMon3 RefCount.ProofsMon5.
Open Scope nat_scope.

Definition vofc (c : bool) (g : nat) : nat := if c then 7 else S g.
Definition val_okc (c : bool) (g v er : nat) : Prop := v = vofc c g \/ (v = 0 /\ er <> 0).
Definition wfc_ev (c : bool) (e : ev) : Prop :=
  match e with EResReturn g v hr er => val_okc c g v er /\ er <> 1 | _ => True end.

Definition InvNc (s : st) : Prop := forall i, i < length (gs s) ->
  gnonce (getg s i) <= nonce s /\ (forall j, j < i -> gnonce (getg s j) < gnonce (getg s i)).
Definition InvSc (c : bool) (s : st) : Prop := forall i, i < length (gs s) ->
  forall v hr e, gpcv (getg s i) = GStore v hr e -> val_okc c i v e.
Definition InvVc (c : bool) (s : st) : Prop :=
  (resolved s = true -> val_okc c (vgen s) (value s) (verr s) /\ vgen s < length (gs s) /\ gdone (getg s (vgen s)) = true /\
                        gnonce (getg s (vgen s)) = nonce s) /\
  (resolved s = false -> value s = 0 /\ verr s = 0 /\ target s = 0 /\ terr s = 0) /\
  (resolved s = true -> (verr s = 0 -> target s = value s /\ terr s = 0) /\ (verr s <> 0 -> target s = 0 /\ terr s = verr s)).
Definition InvLt (c : bool) (s : st) : Prop := InvNc s /\ InvSc c s /\ InvVc c s.

Lemma wf_ev_wfc e : wf_ev e -> wfc_ev false e.
Proof. destruct e; auto. Qed.

Lemma vofc_nz c g : vofc c g <> 0.
Proof. unfold vofc. destruct c; discriminate. Qed.

(* ------------------------------------------------------------------ *)
(* the fields the invariant speaks about *)
Definition lf (s : st) := (gs s, nonce s, (resolved s, value s, verr s, vgen s), (target s, terr s)).

Lemma InvNc_ext s s' : gs s' = gs s -> nonce s' = nonce s -> InvNc s -> InvNc s'.
Proof. intros E1 E2 H. unfold InvNc, getg in *. rewrite E1, E2. exact H. Qed.
Lemma InvSc_ext c s s' : gs s' = gs s -> InvSc c s -> InvSc c s'.
Proof. intros E1 H. unfold InvSc, getg in *. rewrite E1. exact H. Qed.

Lemma InvLt_ext c s s' : lf s' = lf s -> InvLt c s -> InvLt c s'.
Proof.
  unfold lf. intros E H. inversion E as [[E1 E2 E3 E4 E5 E6 E7 E8]].
  unfold InvLt, InvNc, InvSc, InvVc, getg in *. rewrite E1, E2, E3, E4, E5, E6, E7, E8. exact H.
Qed.

Lemma lf_rest s s' : rest s' = rest s -> lf s' = lf s.
Proof.
  intros H. destruct (rest_fields s s' H) as [_ [_ [_ [A [_ [B [C [D [_ [E [F [G [K _]]]]]]]]]]]]]. unfold lf. now rewrite A, B, C, D, E, F, G, K.
Qed.

Lemma pending_unresolved_c c s g x :
  InvCh s -> InvNc s -> InvVc c s -> nth_error (gs s) g = Some x -> gdone x = false -> resolved s = false.
Proof.
  intros [HI _] HN [V1 _] Hx Hnd. destruct (resolved s) eqn:Er; [|reflexivity]. exfalso.
  destruct (V1 eq_refl) as [_ [A2 [A3 A4]]]. destruct (getg_nth_error s g x Hx) as [Eg Hl].
  assert (Hy : nth_error (gs s) (vgen s) = Some (getg s (vgen s))) by (unfold getg; now apply nth_error_nth').
  destruct (Nat.lt_trichotomy (vgen s) g) as [H|[H|H]].
  - destruct (HN g Hl) as [N1 N3]. specialize (N3 _ H). rewrite A4 in N3. lia.
  - subst g. rewrite Eg in A3. congruence.
  - destruct (HI _ _ Hy) as [_ G3].
    assert (Hact : act (getg s (vgen s)) = true) by (unfold act; unfold gdone in A3; destruct (gpcv (getg s (vgen s))); auto; discriminate).
    specialize (G3 Hact g x H Hx). congruence.
Qed.

(* ------------------------------------------------------------------ *)
(* a resolve context is cancelled *)
Lemma InvLt_cancel_g c s og : InvLt c s -> InvLt c (cancel_g s og).
Proof.
  intros [HN [HS [V1 [V2 V3]]]].
  destruct (cancel_g_rest s og) as [_ [_ [_ [_ [G5 [_ [G7 [G8 [G9 [_ [G11 [G12 [G13 _]]]]]]]]]]]]].
  destruct (cancel_g_gs s og) as [GL GF]. set (s' := cancel_g s og) in *. clearbody s'.
  assert (GD : forall i, gdone (getg s' i) = gdone (getg s i)) by (intros i; destruct (GF i) as [_ [_ [E _]]]; unfold gdone; now rewrite E).
  split; [|split; [|split; [|split]]].
  - intros i Hi. rewrite GL in Hi. destruct (HN i Hi) as [N1 N3]. destruct (GF i) as [_ [En _]]. rewrite En, G5. split; [exact N1|].
    intros j Hj. destruct (GF j) as [_ [Ej _]]. rewrite Ej. now apply N3.
  - intros i Hi v hr e Hp. rewrite GL in Hi. destruct (GF i) as [_ [_ [Ep _]]]. rewrite Ep in Hp. exact (HS i Hi v hr e Hp).
  - rewrite G7, G8, G9, G11, GL, GD, G5. intros Hr. destruct (V1 Hr) as [A1 [A2 [A3 A4]]]. destruct (GF (vgen s)) as [_ [En _]]. rewrite En. auto.
  - rewrite G7, G8, G9, G12, G13. exact V2.
  - rewrite G7, G8, G9, G12, G13. exact V3.
Qed.

(* shutdown: afterwards nothing is stored and every goroutine is of an older generation *)
Lemma InvLt_shutdown c s : InvLt c s ->
  InvLt c (shutdown s) /\ (forall i, i < length (gs (shutdown s)) -> gnonce (getg (shutdown s) i) < nonce (shutdown s)) /\
  resolved (shutdown s) = false.
Proof.
  intros [HN [HS [V1 [V2 V3]]]].
  destruct (shutdown_spec s) as [_ [_ [C3 [_ [[GL GF] [C6 [_ [C8 [C9 [C10 [C11 [C12 _]]]]]]]]]]]].
  set (s' := shutdown s) in *. clearbody s'.
  assert (NB : forall i, i < length (gs s') -> gnonce (getg s' i) < nonce s').
  { intros i Hi. rewrite GL in Hi. destruct (GF i) as [_ [En _]]. rewrite En, C3. destruct (HN i Hi) as [N1 _]. lia. }
  split; [|split; [exact NB | exact C6]].
  split; [|split; [|split; [|split]]].
  - intros i Hi. split; [specialize (NB i Hi); lia|]. rewrite GL in Hi. destruct (HN i Hi) as [_ N3]. destruct (GF i) as [_ [En _]]. rewrite En.
    intros j Hj. destruct (GF j) as [_ [Ej _]]. rewrite Ej. now apply N3.
  - intros i Hi v hr e Hp. rewrite GL in Hi. destruct (GF i) as [_ [_ [Ep _]]]. rewrite Ep in Hp. exact (HS i Hi v hr e Hp).
  - intros Hr. congruence.
  - intros _. rewrite C9, C10, C11, C12. destruct (resolved s) eqn:Er.
    + destruct (V1 eq_refl) as [Ev1 _]. destruct (V3 eq_refl) as [T1 T2].
      split; [reflexivity|]. split; [reflexivity|]. split.
      * destruct (Nat.eqb_spec (value s) 0) as [E0|E0]; [|reflexivity]. destruct Ev1 as [Ev1|[_ Ee]]; [exfalso; rewrite Ev1 in E0; exact (vofc_nz c _ E0)|].
        apply (T2 Ee).
      * destruct (Nat.eqb_spec (verr s) 0) as [E0|E0]; [apply (T1 E0) | reflexivity].
    + exact (V2 eq_refl).
  - intros Hr. congruence.
Qed.

Lemma InvLt_spawn c s x :
  InvLt c s -> resolved s = false -> gnonce x = nonce s -> (forall i, i < length (gs s) -> gnonce (getg s i) < nonce s) -> gpcv x = GGate0 ->
  InvLt c (set_gs s (gs s ++ [x])).
Proof.
  intros [HN [HS [V1 [V2 V3]]]] Hr En HB Ep. set (s' := set_gs s (gs s ++ [x])).
  assert (GO : forall i, i < length (gs s) -> getg s' i = getg s i) by (intros i Hi; now apply getg_spawn_old).
  assert (GNw : getg s' (length (gs s)) = x) by apply getg_spawn_new.
  assert (GL : length (gs s') = S (length (gs s))) by apply length_spawn.
  split; [|split; [|split; [|split]]].
  - intros i Hi. rewrite GL in Hi. change (nonce s') with (nonce s). destruct (Nat.eq_dec i (length (gs s))) as [->|Hne].
    + rewrite GNw, En. split; [lia|]. intros j Hj. rewrite (GO j Hj). now apply HB.
    + assert (Hi' : i < length (gs s)) by lia. rewrite (GO i Hi'). destruct (HN i Hi') as [N1 N3]. split; [exact N1|].
      intros j Hj. rewrite (GO j ltac:(lia)). now apply N3.
  - intros i Hi v hr e Hp. rewrite GL in Hi. destruct (Nat.eq_dec i (length (gs s))) as [->|Hne].
    + rewrite GNw, Ep in Hp. discriminate.
    + rewrite (GO i ltac:(lia)) in Hp. apply (HS i ltac:(lia) v hr e Hp).
  - intros Hr'. change (resolved s') with (resolved s) in Hr'. congruence.
  - exact V2.
  - exact V3.
Qed.

Lemma InvLt_start_resolve c s : InvLt c s -> InvLt c (start_resolve s).
Proof.
  intros H. unfold start_resolve. destruct (InvLt_shutdown c s H) as [H1 [HB HR]]. set (s1 := shutdown s) in *. clearbody s1.
  destruct (Nat.eqb (kctx s1) 0 || Nat.eqb (nrefs s1) 0); [exact H1|].
  set (x := {| gcanc := rcanc s1 (kctx s1); gwait := waitch s1; gnonce := nonce s1; gpcv := GGate0; gent := false; grel := false; groot := kctx s1 |}).
  apply (InvLt_ext c (set_gs s1 (gs s1 ++ [x]))); [reflexivity|]. apply InvLt_spawn; auto.
Qed.

Lemma InvLt_released_section c s n : InvLt c s -> InvLt c (released_section s n).
Proof. intros H. unfold released_section. destruct (Nat.eqb (nonce s) n); [now apply InvLt_start_resolve | exact H]. Qed.

Lemma InvLt_remove_ref c s r : InvLt c s -> InvLt c (remove_ref s r).
Proof.
  intros H. unfold remove_ref. destruct (nth_error (refs s) r) as [x|]; [|exact H]. destruct (rin x); [|exact H].
  set (s1 := set_refs s _). assert (H1 : InvLt c s1) by (apply (InvLt_ext c s); [reflexivity | exact H]).
  destruct (Nat.eqb (nrefs s1) 0 && _); [apply (InvLt_shutdown c s1 H1) | exact H1].
Qed.

Lemma InvLt_add_ref c s k : InvLt c s -> InvLt c (add_ref repaired s k).
Proof.
  intros H. unfold add_ref. set (s1 := set_refs s _). assert (H1 : InvLt c s1) by (apply (InvLt_ext c s); [reflexivity | exact H]).
  destruct (Nat.eqb (nrefs s1) 1 && negb (resolved s1)); [now apply InvLt_start_resolve|].
  destruct (resolved s1); [|exact H1]. destruct k; cbn [fx_nilcb repaired]; try exact H1;
    (apply (InvLt_ext c s1); [apply lf_rest, rest_invoke | exact H1]).
Qed.

(* a goroutine that has not finished moves to another program point *)
Lemma InvLt_setpc c s g x p :
  nth_error (gs s) g = Some x -> gdone x = false -> (forall v hr e, p = GStore v hr e -> val_okc c g v e) ->
  InvLt c s -> InvLt c (setg s g (with_gpc x p)).
Proof.
  intros Hx Hnd Hp [HN [HS [V1 [V2 V3]]]]. set (s' := setg s g (with_gpc x p)).
  pose proof (setpc_len s g x p) as GL. fold s' in GL.
  assert (GO : forall i, i <> g -> getg s' i = getg s i) by (intros i Hi; now apply getg_setg_other).
  destruct (getg_nth_error s g x Hx) as [Eg Hl].
  assert (GSm : getg s' g = with_gpc x p) by (now apply getg_setg_same).
  assert (GN : forall i, gnonce (getg s' i) = gnonce (getg s i)).
  { intros i. destruct (Nat.eq_dec i g) as [->|Hne]; [rewrite GSm, Eg; reflexivity | now rewrite GO]. }
  split; [|split; [|split; [|split]]].
  - intros i Hi. rewrite GL in Hi. destruct (HN i Hi) as [N1 N3]. rewrite GN. change (nonce s') with (nonce s). split; [exact N1|].
    intros j Hj. rewrite GN. now apply N3.
  - intros i Hi v hr e Hpc. rewrite GL in Hi. destruct (Nat.eq_dec i g) as [->|Hne].
    + rewrite GSm in Hpc. cbn [gpcv with_gpc] in Hpc. exact (Hp v hr e Hpc).
    + rewrite GO in Hpc by exact Hne. exact (HS i Hi v hr e Hpc).
  - intros Hr. change (resolved s') with (resolved s) in Hr. destruct (V1 Hr) as [A1 [A2 [A3 A4]]].
    change (vgen s') with (vgen s). change (value s') with (value s). change (verr s') with (verr s). change (nonce s') with (nonce s).
    assert (Hne : vgen s <> g) by (intros E; rewrite E, Eg in A3; congruence).
    rewrite GO by exact Hne. rewrite GL. auto.
  - exact V2.
  - exact V3.
Qed.

Lemma InvLt_proceed c s g en : InvLt c s -> InvLt c (proceed repaired s g en).
Proof.
  intros H. unfold proceed. destruct (nth_error (gs s) g) as [x|] eqn:Ex; [|exact H].
  assert (M : forall p, gdone x = false -> (forall v hr e, p <> GStore v hr e) -> InvLt c (setg s g (with_gpc x p))).
  { intros p Hnd Hp. apply InvLt_setpc; auto. intros v hr e E. exfalso. exact (Hp v hr e E). }
  destruct (gpcv x) eqn:Ep; try exact H.
  - assert (Hnd : gdone x = false) by (unfold gdone; now rewrite Ep).
    destruct (gwait x); [|apply M; [exact Hnd | discriminate]].
    destruct (pred_done s x && gcanc x); [destruct en; (apply M; [exact Hnd | discriminate])|].
    destruct (pred_done s x); [apply M; [exact Hnd | discriminate]|].
    destruct (gcanc x); cbn [fx_wait repaired]; (apply M; [exact Hnd | discriminate]).
  - assert (Hnd : gdone x = false) by (unfold gdone; now rewrite Ep).
    destruct (pred_done s x || gcanc x); [|exact H].
    destruct (gwait x); [|apply M; [exact Hnd | discriminate]].
    destruct (pred_done s x && gcanc x); [destruct en; (apply M; [exact Hnd | discriminate])|].
    destruct (pred_done s x); [apply M; [exact Hnd | discriminate]|].
    destruct (gcanc x); cbn [fx_wait repaired]; (apply M; [exact Hnd | discriminate]).
  - assert (Hnd : gdone x = false) by (unfold gdone; now rewrite Ep).
    destruct (pred_done s x); [apply M; [exact Hnd | discriminate] | exact H].
Qed.

Lemma InvLt_resolver_return c s g v hr e : val_okc c g v e -> InvLt c s -> InvLt c (resolver_return s g v hr e).
Proof.
  intros Hv H. unfold resolver_return. destruct (nth_error (gs s) g) as [x|] eqn:Ex; [|exact H].
  destruct (gpcv x) eqn:Ep; try exact H. apply InvLt_setpc; auto; [unfold gdone; now rewrite Ep|].
  intros v' hr' e' E. inversion E; subst. exact Hv.
Qed.

Lemma store_gs_nonce s g x v hr e :
  nth_error (gs s) g = Some x -> gpcv x = GStore v hr e ->
  gs (store s g) = gs (setg s g (with_gpc x GDone)) /\ nonce (store s g) = nonce s.
Proof.
  intros Hx Hp. unfold store. rewrite Hx, Hp. set (s0 := setg s g (with_gpc x GDone)).
  destruct (negb (Nat.eqb (nonce s0) (gnonce x))); [destruct hr; split; reflexivity|].
  match goal with |- context [call_cbs ?a ?n] => destruct (rest_fields a _ (rest_call_cbs a n)) as [_ [_ [_ [A [_ [_ [_ [_ [_ [_ [_ [_ [B _]]]]]]]]]]]]] end.
  rewrite A, B. destruct (Nat.eqb e 0); split; reflexivity.
Qed.

Lemma InvLt_store c s g : InvCh s -> InvLt c s -> InvLt c (store s g).
Proof.
  intros HCh H. destruct (nth_error (gs s) g) as [x|] eqn:Ex.
  2:{ unfold store. now rewrite Ex. }
  destruct (gpcv x) eqn:Ep; try (unfold store; rewrite Ex, Ep; exact H).
  assert (Hnd : gdone x = false) by (unfold gdone; now rewrite Ep).
  destruct (getg_nth_error s g x Ex) as [Eg Hl].
  assert (H0 : InvLt c (setg s g (with_gpc x GDone))) by (apply InvLt_setpc; auto; intros; discriminate).
  destruct H as [HN [HS HV]].
  pose proof (pending_unresolved_c c s g x HCh HN HV Ex Hnd) as Er.
  assert (Hv : val_okc c g v e) by (apply (HS g Hl v hasrel e); now rewrite Eg).
  destruct (store_gs_nonce s g x v hasrel e Ex Ep) as [EG EN]. pose proof (store_vf s g x v hasrel e Ex Ep) as SV. cbv zeta in SV.
  destruct H0 as [HN0 [HS0 HV0]]. set (s0 := setg s g (with_gpc x GDone)) in *.
  split; [apply (InvNc_ext s0); [exact EG | exact EN | exact HN0]|]. split; [apply (InvSc_ext c s0); [exact EG | exact HS0]|].
  destruct HV as [V1 [V2 V3]]. destruct (V2 Er) as [X1 [X2 [X3 X4]]].
  destruct (Nat.eqb_spec (nonce s) (gnonce x)) as [Enc|Enc].
  - destruct SV as [A [B [C [D [E F]]]]]. split; [|split].
    + intros _. rewrite B, C, D, EG, EN. split; [exact Hv|]. split; [unfold s0; now rewrite length_gs_setg|].
      unfold getg. rewrite EG. fold (getg s0 g). unfold s0. rewrite getg_setg_same by exact Hl. split; [reflexivity | cbn [gnonce with_gpc]; congruence].
    + intros Hr. congruence.
    + intros _. rewrite B, C, E, F. destruct (Nat.eqb_spec e 0) as [E0|E0]; split; intros; try contradiction; auto.
  - destruct (vf_fields _ _ SV) as [A [B [C [D [E F]]]]]. split; [|split].
    + intros Hr. congruence.
    + intros _. rewrite B, C, E, F. auto.
    + intros Hr. congruence.
Qed.

Lemma InvLt_cancel_root c s r : InvLt c s -> InvLt c (cancel_root s r).
Proof.
  intros H. apply (cancel_root_ind (InvLt c)); [intros s0 og; apply InvLt_cancel_g|]. apply (InvLt_ext c s); [reflexivity | exact H].
Qed.

Lemma step_InvLt c s e : wfc_ev c e -> InvCh s -> InvLt c s -> InvLt c (step repaired s e).
Proof.
  intros Hw HCh H. destruct e; cbn [step].
  - unfold set_context. destruct (Nat.eqb (kctx s) c0); [exact H|]. cbn [fst]. apply InvLt_start_resolve. apply (InvLt_ext c s); [reflexivity | exact H].
  - now apply InvLt_add_ref.
  - destruct (rkind (nth r (refs s) ref0)); try exact H; (apply (InvLt_ext c s); [apply (cf_release_call_by lf); reflexivity | exact H]).
  - unfold release_section. destruct (nth_error (relacts s) a) as [x|]; [|exact H]. destruct (ra_pc x); [|exact H].
    set (sa := set_relacts s _). assert (H1 : InvLt c (remove_ref sa (ra_ref x))) by (apply InvLt_remove_ref; apply (InvLt_ext c s); [reflexivity | exact H]).
    set (s1 := remove_ref sa (ra_ref x)) in *. destruct (ra_cons x) as [c1|]; [|exact H1].
    destruct (cpcv (getc s1 c1)); try exact H1; (apply (InvLt_ext c s1); [reflexivity | exact H1]).
  - destruct (nth_error (gs s) g) as [x|]; [now apply InvLt_released_section | exact H].
  - unfold async_section. destruct (nth_error (asyncs s) a) as [x|]; [|exact H]. destruct (as_pc x); [|exact H].
    apply InvLt_released_section. apply (InvLt_ext c s); [reflexivity | exact H].
  - now apply InvLt_proceed.
  - cbn [wfc_ev] in Hw. apply InvLt_resolver_return; [apply Hw | exact H].
  - now apply InvLt_store.
  - unfold start_consumer. apply InvLt_add_ref. apply (InvLt_ext c s); [reflexivity | exact H].
  - apply (InvLt_ext c s); [apply (cf_cons_step lf); reflexivity | exact H].
  - destruct (nth_error (conss s) c0); [|exact H]. apply (InvLt_ext c s); [reflexivity | exact H].
  - unfold fire_section. destruct (nth_error (conss s) c0) as [x|]; [|exact H]. destruct (ww_firepc x) as [[|]|]; try exact H.
    apply InvLt_remove_ref. apply (InvLt_ext c s); [reflexivity | exact H].
  - apply (InvLt_ext c s); [apply (cf_cb_return lf); reflexivity | exact H].
  - destruct (Nat.eqb c0 0); [exact H | now apply InvLt_cancel_root].
Qed.

Lemma init_InvLt c k : InvLt c (init k).
Proof.
  unfold InvLt, InvNc, InvSc, InvVc, init. cbn. repeat split; intros; try lia; try discriminate; auto.
Qed.

Theorem run_InvLt c k es : Forall (wfc_ev c) es -> InvLt c (run repaired (init k) es).
Proof.
  induction es as [|e es IH] using rev_ind; intros Hw; [apply init_InvLt|].
  apply Forall_app in Hw. destruct Hw as [Hw He]. inversion He; subst. rewrite run_app.
  apply step_InvLt; [assumption | apply run_chain | now apply IH].
Qed.
Print Assumptions run_InvLt.
