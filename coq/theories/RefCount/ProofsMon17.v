(* refcount: the monitors tied to the model, part 17: a light state invariant that does not need generation-unique resolver
   values.  [c] = the resolver returns the constant value 7 for every generation (the configuration of the Access ABA case).
   For EVERY event list whose resolver returns are of the shape the codec produces in configuration c:
     - the nonces of the resolve goroutines are bounded by the container's and strictly increasing,
     - a result at its store gate and the stored result carry the value of their generation (or the empty value with an error),
     - the stored generation has finished and is of the current nonce; nothing stored => value, error and both target
       containers are empty; stored => the target containers hold exactly the value / the error.
   With the chain of done channels: while something is stored every resolve goroutine has finished. *)
From Util Require Import Common.Base Common.ListLemmas RefCount.Model RefCount.Spec RefCount.Proofs RefCount.ProofsC08 RefCount.ProofsC08b
  RefCount.ProofsC09 RefCount.ProofsC10 RefCount.ProofsC10a RefCount.ProofsC10b RefCount.ProofsCodec RefCount.ProofsMon RefCount.ProofsMon2 RefCount.ProofsMon3
  RefCount.ProofsMon4 RefCount.ProofsMon5 RefCount.ProofsMon6 RefCount.ProofsMon7 RefCount.ProofsMonG RefCount.ProofsMon10.
Open Scope nat_scope.

Definition vofc (c : bool) (g : nat) : nat := if c then 7 else S g.
Definition val_okc (c : bool) (g v er : nat) : Prop := v = vofc c g \/ v = 0.
Definition wfc_ev (c : bool) (e : ev) : Prop :=
  match e with EResReturn g v hr er => val_okc c g v er /\ er <> 1 | _ => True end.

Definition InvNc (s : st) : Prop := forall i, i < length (gs s) ->
  gnonce (getg s i) <= nonce s /\ (forall j, j < i -> gnonce (getg s j) < gnonce (getg s i)).
Definition InvSc (c : bool) (s : st) : Prop := forall i, i < length (gs s) ->
  forall v hr e, gpcv (getg s i) = GStore v hr e -> val_okc c i v e.
Definition InvVc (c : bool) (s : st) : Prop :=
  (resolved s = true -> val_okc c (vgen s) (value s) (verr s) /\ vgen s < length (gs s) /\ gdone (getg s (vgen s)) = true /\
                        gnonce (getg s (vgen s)) = nonce s) /\
  (resolved s = false -> value s = 0 /\ verr s = 0 /\ target s = 0 /\ terr s = 0) /\
  (resolved s = true -> (verr s = 0 -> target s = value s /\ terr s = 0) /\ (verr s <> 0 -> target s = 0 /\ terr s = verr s)).
Definition InvLt (c : bool) (s : st) : Prop := InvNc s /\ InvSc c s /\ InvVc c s.

Lemma wf_ev_wfc e : wf_ev e -> wfc_ev false e.
Proof. destruct e; auto. Qed.

Lemma vofc_nz c g : vofc c g <> 0.
Proof. unfold vofc. destruct c; discriminate. Qed.

(* ------------------------------------------------------------------ *)
(* the fields the invariant speaks about *)
Definition lf (s : st) := (gs s, nonce s, (resolved s, value s, verr s, vgen s), (target s, terr s)).

Lemma InvNc_ext s s' : gs s' = gs s -> nonce s' = nonce s -> InvNc s -> InvNc s'.
Proof. intros E1 E2 H. unfold InvNc, getg in *. rewrite E1, E2. exact H. Qed.
Lemma InvSc_ext c s s' : gs s' = gs s -> InvSc c s -> InvSc c s'.
Proof. intros E1 H. unfold InvSc, getg in *. rewrite E1. exact H. Qed.

Lemma InvLt_ext c s s' : lf s' = lf s -> InvLt c s -> InvLt c s'.
Proof.
  unfold lf. intros E H. inversion E as [[E1 E2 E3 E4 E5 E6 E7 E8]].
  unfold InvLt, InvNc, InvSc, InvVc, getg in *. rewrite E1, E2, E3, E4, E5, E6, E7, E8. exact H.
Qed.

Lemma lf_rest s s' : rest s' = rest s -> lf s' = lf s.
Proof.
  intros H. destruct (rest_fields s s' H) as [_ [_ [_ [A [_ [B [C [D [_ [E [F [G [K _]]]]]]]]]]]]]. unfold lf. now rewrite A, B, C, D, E, F, G, K.
Qed.

Lemma pending_unresolved_c c s g x :
  InvCh s -> InvNc s -> InvVc c s -> nth_error (gs s) g = Some x -> gdone x = false -> resolved s = false.
Proof.
  intros [HI _] HN [V1 _] Hx Hnd. destruct (resolved s) eqn:Er; [|reflexivity]. exfalso.
  destruct (V1 eq_refl) as [_ [A2 [A3 A4]]]. destruct (getg_nth_error s g x Hx) as [Eg Hl].
  assert (Hy : nth_error (gs s) (vgen s) = Some (getg s (vgen s))) by (unfold getg; now apply nth_error_nth').
  destruct (Nat.lt_trichotomy (vgen s) g) as [H|[H|H]].
  - destruct (HN g Hl) as [N1 N3]. specialize (N3 _ H). rewrite A4 in N3. lia.
  - subst g. rewrite Eg in A3. congruence.
  - destruct (HI _ _ Hy) as [_ G3].
    assert (Hact : act (getg s (vgen s)) = true) by (unfold act; unfold gdone in A3; destruct (gpcv (getg s (vgen s))); auto; discriminate).
    specialize (G3 Hact g x H Hx). congruence.
Qed.

(* ------------------------------------------------------------------ *)
(* a resolve context is cancelled *)
Lemma InvLt_cancel_g c s og : InvLt c s -> InvLt c (cancel_g s og).
Proof.
  intros [HN [HS [V1 [V2 V3]]]].
  destruct (cancel_g_rest s og) as [_ [_ [_ [_ [G5 [_ [G7 [G8 [G9 [_ [G11 [G12 [G13 _]]]]]]]]]]]]].
  destruct (cancel_g_gs s og) as [GL GF]. set (s' := cancel_g s og) in *. clearbody s'.
  assert (GD : forall i, gdone (getg s' i) = gdone (getg s i)) by (intros i; destruct (GF i) as [_ [_ [E _]]]; unfold gdone; now rewrite E).
  split; [|split; [|split; [|split]]].
  - intros i Hi. rewrite GL in Hi. destruct (HN i Hi) as [N1 N3]. destruct (GF i) as [_ [En _]]. rewrite En, G5. split; [exact N1|].
    intros j Hj. destruct (GF j) as [_ [Ej _]]. rewrite Ej. now apply N3.
  - intros i Hi v hr e Hp. rewrite GL in Hi. destruct (GF i) as [_ [_ [Ep _]]]. rewrite Ep in Hp. exact (HS i Hi v hr e Hp).
  - rewrite G7, G8, G9, G11, GL, GD, G5. intros Hr. destruct (V1 Hr) as [A1 [A2 [A3 A4]]]. destruct (GF (vgen s)) as [_ [En _]]. rewrite En. auto.
  - rewrite G7, G8, G9, G12, G13. exact V2.
  - rewrite G7, G8, G9, G12, G13. exact V3.
Qed.

(* shutdown: afterwards nothing is stored and every goroutine is of an older generation *)
Lemma InvLt_shutdown c s : InvLt c s ->
  InvLt c (shutdown s) /\ (forall i, i < length (gs (shutdown s)) -> gnonce (getg (shutdown s) i) < nonce (shutdown s)) /\
  resolved (shutdown s) = false.
Proof.
  intros [HN [HS [V1 [V2 V3]]]].
  destruct (shutdown_spec s) as [_ [_ [C3 [_ [[GL GF] [C6 [_ [C8 [C9 [C10 [C11 [C12 _]]]]]]]]]]]].
  set (s' := shutdown s) in *. clearbody s'.
  assert (NB : forall i, i < length (gs s') -> gnonce (getg s' i) < nonce s').
  { intros i Hi. rewrite GL in Hi. destruct (GF i) as [_ [En _]]. rewrite En, C3. destruct (HN i Hi) as [N1 _]. lia. }
  split; [|split; [exact NB | exact C6]].
  split; [|split; [|split; [|split]]].
  - intros i Hi. split; [specialize (NB i Hi); lia|]. rewrite GL in Hi. destruct (HN i Hi) as [_ N3]. destruct (GF i) as [_ [En _]]. rewrite En.
    intros j Hj. destruct (GF j) as [_ [Ej _]]. rewrite Ej. now apply N3.
  - intros i Hi v hr e Hp. rewrite GL in Hi. destruct (GF i) as [_ [_ [Ep _]]]. rewrite Ep in Hp. exact (HS i Hi v hr e Hp).
  - intros Hr. congruence.
  - intros _. rewrite C9, C10, C11, C12. destruct (resolved s) eqn:Er.
    + destruct (V1 eq_refl) as [Ev1 _]. destruct (V3 eq_refl) as [T1 T2].
      split; [reflexivity|]. split; [reflexivity|]. split.
      * destruct (Nat.eqb_spec (value s) 0) as [E0|E0]; [|reflexivity].
        destruct (Nat.eq_dec (verr s) 0) as [Ee|Ee]; [destruct (T1 Ee) as [T _]; congruence | apply (T2 Ee)].
      * destruct (Nat.eqb_spec (verr s) 0) as [E0|E0]; [apply (T1 E0) | reflexivity].
    + exact (V2 eq_refl).
  - intros Hr. congruence.
Qed.

Lemma InvLt_spawn c s x :
  InvLt c s -> resolved s = false -> gnonce x = nonce s -> (forall i, i < length (gs s) -> gnonce (getg s i) < nonce s) -> gpcv x = GGate0 ->
  InvLt c (set_gs s (gs s ++ [x])).
Proof.
  intros [HN [HS [V1 [V2 V3]]]] Hr En HB Ep. set (s' := set_gs s (gs s ++ [x])).
  assert (GO : forall i, i < length (gs s) -> getg s' i = getg s i) by (intros i Hi; now apply getg_spawn_old).
  assert (GNw : getg s' (length (gs s)) = x) by apply getg_spawn_new.
  assert (GL : length (gs s') = S (length (gs s))) by apply length_spawn.
  split; [|split; [|split; [|split]]].
  - intros i Hi. rewrite GL in Hi. change (nonce s') with (nonce s). destruct (Nat.eq_dec i (length (gs s))) as [->|Hne].
    + rewrite GNw, En. split; [lia|]. intros j Hj. rewrite (GO j Hj). now apply HB.
    + assert (Hi' : i < length (gs s)) by lia. rewrite (GO i Hi'). destruct (HN i Hi') as [N1 N3]. split; [exact N1|].
      intros j Hj. rewrite (GO j ltac:(lia)). now apply N3.
  - intros i Hi v hr e Hp. rewrite GL in Hi. destruct (Nat.eq_dec i (length (gs s))) as [->|Hne].
    + rewrite GNw, Ep in Hp. discriminate.
    + rewrite (GO i ltac:(lia)) in Hp. apply (HS i ltac:(lia) v hr e Hp).
  - intros Hr'. change (resolved s') with (resolved s) in Hr'. congruence.
  - exact V2.
  - exact V3.
Qed.

Lemma InvLt_start_resolve c s : InvLt c s -> InvLt c (start_resolve s).
Proof.
  intros H. unfold start_resolve. destruct (InvLt_shutdown c s H) as [H1 [HB HR]]. set (s1 := shutdown s) in *. clearbody s1.
  destruct (Nat.eqb (kctx s1) 0 || Nat.eqb (nrefs s1) 0); [exact H1|].
  set (x := {| gcanc := rcanc s1 (kctx s1); gwait := waitch s1; gnonce := nonce s1; gpcv := GGate0; gent := false; grel := false; groot := kctx s1 |}).
  apply (InvLt_ext c (set_gs s1 (gs s1 ++ [x]))); [reflexivity|]. apply InvLt_spawn; auto.
Qed.

Lemma InvLt_released_section c s n : InvLt c s -> InvLt c (released_section s n).
Proof. intros H. unfold released_section. destruct (Nat.eqb (nonce s) n); [now apply InvLt_start_resolve | exact H]. Qed.

Lemma InvLt_remove_ref c s r : InvLt c s -> InvLt c (remove_ref s r).
Proof.
  intros H. unfold remove_ref. destruct (nth_error (refs s) r) as [x|]; [|exact H]. destruct (rin x); [|exact H].
  set (s1 := set_refs s _). assert (H1 : InvLt c s1) by (apply (InvLt_ext c s); [reflexivity | exact H]).
  destruct (Nat.eqb (nrefs s1) 0 && _); [apply (InvLt_shutdown c s1 H1) | exact H1].
Qed.

Lemma InvLt_add_ref c s k : InvLt c s -> InvLt c (add_ref repaired s k).
Proof.
  intros H. unfold add_ref. set (s1 := set_refs s _). assert (H1 : InvLt c s1) by (apply (InvLt_ext c s); [reflexivity | exact H]).
  destruct (Nat.eqb (nrefs s1) 1 && negb (resolved s1)); [now apply InvLt_start_resolve|].
  destruct (resolved s1); [|exact H1]. destruct k; cbn [fx_nilcb repaired]; try exact H1;
    (apply (InvLt_ext c s1); [apply lf_rest, rest_invoke | exact H1]).
Qed.

(* a goroutine that has not finished moves to another program point *)
Lemma InvLt_setpc c s g x p :
  nth_error (gs s) g = Some x -> gdone x = false -> (forall v hr e, p = GStore v hr e -> val_okc c g v e) ->
  InvLt c s -> InvLt c (setg s g (with_gpc x p)).
Proof.
  intros Hx Hnd Hp [HN [HS [V1 [V2 V3]]]]. set (s' := setg s g (with_gpc x p)).
  pose proof (setpc_len s g x p) as GL. fold s' in GL.
  assert (GO : forall i, i <> g -> getg s' i = getg s i) by (intros i Hi; now apply getg_setg_other).
  destruct (getg_nth_error s g x Hx) as [Eg Hl].
  assert (GSm : getg s' g = with_gpc x p) by (now apply getg_setg_same).
  assert (GN : forall i, gnonce (getg s' i) = gnonce (getg s i)).
  { intros i. destruct (Nat.eq_dec i g) as [->|Hne]; [rewrite GSm, Eg; reflexivity | now rewrite GO]. }
  split; [|split; [|split; [|split]]].
  - intros i Hi. rewrite GL in Hi. destruct (HN i Hi) as [N1 N3]. rewrite GN. change (nonce s') with (nonce s). split; [exact N1|].
    intros j Hj. rewrite GN. now apply N3.
  - intros i Hi v hr e Hpc. rewrite GL in Hi. destruct (Nat.eq_dec i g) as [->|Hne].
    + rewrite GSm in Hpc. cbn [gpcv with_gpc] in Hpc. exact (Hp v hr e Hpc).
    + rewrite GO in Hpc by exact Hne. exact (HS i Hi v hr e Hpc).
  - intros Hr. change (resolved s') with (resolved s) in Hr. destruct (V1 Hr) as [A1 [A2 [A3 A4]]].
    change (vgen s') with (vgen s). change (value s') with (value s). change (verr s') with (verr s). change (nonce s') with (nonce s).
    assert (Hne : vgen s <> g) by (intros E; rewrite E, Eg in A3; congruence).
    rewrite GO by exact Hne. rewrite GL. auto.
  - exact V2.
  - exact V3.
Qed.

Lemma InvLt_proceed c s g en : InvLt c s -> InvLt c (proceed repaired s g en).
Proof.
  intros H. unfold proceed. destruct (nth_error (gs s) g) as [x|] eqn:Ex; [|exact H].
  assert (M : forall p, gdone x = false -> (forall v hr e, p <> GStore v hr e) -> InvLt c (setg s g (with_gpc x p))).
  { intros p Hnd Hp. apply InvLt_setpc; auto. intros v hr e E. exfalso. exact (Hp v hr e E). }
  destruct (gpcv x) eqn:Ep; try exact H.
  - assert (Hnd : gdone x = false) by (unfold gdone; now rewrite Ep).
    destruct (gwait x); [|apply M; [exact Hnd | discriminate]].
    destruct (pred_done s x && gcanc x); [destruct en; (apply M; [exact Hnd | discriminate])|].
    destruct (pred_done s x); [apply M; [exact Hnd | discriminate]|].
    destruct (gcanc x); cbn [fx_wait repaired]; (apply M; [exact Hnd | discriminate]).
  - assert (Hnd : gdone x = false) by (unfold gdone; now rewrite Ep).
    destruct (pred_done s x || gcanc x); [|exact H].
    destruct (gwait x); [|apply M; [exact Hnd | discriminate]].
    destruct (pred_done s x && gcanc x); [destruct en; (apply M; [exact Hnd | discriminate])|].
    destruct (pred_done s x); [apply M; [exact Hnd | discriminate]|].
    destruct (gcanc x); cbn [fx_wait repaired]; (apply M; [exact Hnd | discriminate]).
  - assert (Hnd : gdone x = false) by (unfold gdone; now rewrite Ep).
    destruct (pred_done s x); [apply M; [exact Hnd | discriminate] | exact H].
Qed.

Lemma InvLt_resolver_return c s g v hr e : val_okc c g v e -> InvLt c s -> InvLt c (resolver_return s g v hr e).
Proof.
  intros Hv H. unfold resolver_return. destruct (nth_error (gs s) g) as [x|] eqn:Ex; [|exact H].
  destruct (gpcv x) eqn:Ep; try exact H. apply InvLt_setpc; auto; [unfold gdone; now rewrite Ep|].
  intros v' hr' e' E. inversion E; subst. exact Hv.
Qed.

Lemma store_gs_nonce s g x v hr e :
  nth_error (gs s) g = Some x -> gpcv x = GStore v hr e ->
  gs (store s g) = gs (setg s g (with_gpc x GDone)) /\ nonce (store s g) = nonce s.
Proof.
  intros Hx Hp. unfold store. rewrite Hx, Hp. set (s0 := setg s g (with_gpc x GDone)).
  destruct (negb (Nat.eqb (nonce s0) (gnonce x))); [destruct hr; split; reflexivity|].
  match goal with |- context [call_cbs ?a ?n] => destruct (rest_fields a _ (rest_call_cbs a n)) as [_ [_ [_ [A [_ [_ [_ [_ [_ [_ [_ [_ [B _]]]]]]]]]]]]] end.
  rewrite A, B. destruct (Nat.eqb e 0); split; reflexivity.
Qed.

Lemma InvLt_store c s g : InvCh s -> InvLt c s -> InvLt c (store s g).
Proof.
  intros HCh H. destruct (nth_error (gs s) g) as [x|] eqn:Ex.
  2:{ unfold store. now rewrite Ex. }
  destruct (gpcv x) eqn:Ep; try (unfold store; rewrite Ex, Ep; exact H).
  assert (Hnd : gdone x = false) by (unfold gdone; now rewrite Ep).
  destruct (getg_nth_error s g x Ex) as [Eg Hl].
  assert (H0 : InvLt c (setg s g (with_gpc x GDone))) by (apply InvLt_setpc; auto; intros; discriminate).
  destruct H as [HN [HS HV]].
  pose proof (pending_unresolved_c c s g x HCh HN HV Ex Hnd) as Er.
  assert (Hv : val_okc c g v e) by (apply (HS g Hl v hasrel e); now rewrite Eg).
  destruct (store_gs_nonce s g x v hasrel e Ex Ep) as [EG EN]. pose proof (store_vf s g x v hasrel e Ex Ep) as SV. cbv zeta in SV.
  destruct H0 as [HN0 [HS0 HV0]]. set (s0 := setg s g (with_gpc x GDone)) in *.
  split; [apply (InvNc_ext s0); [exact EG | exact EN | exact HN0]|]. split; [apply (InvSc_ext c s0); [exact EG | exact HS0]|].
  destruct HV as [V1 [V2 V3]]. destruct (V2 Er) as [X1 [X2 [X3 X4]]].
  destruct (Nat.eqb_spec (nonce s) (gnonce x)) as [Enc|Enc].
  - destruct SV as [A [B [C [D [E F]]]]]. split; [|split].
    + intros _. rewrite B, C, D, EG, EN. split; [exact Hv|]. split; [unfold s0; now rewrite length_gs_setg|].
      unfold getg. rewrite EG. fold (getg s0 g). unfold s0. rewrite getg_setg_same by exact Hl. split; [reflexivity | cbn [gnonce with_gpc]; congruence].
    + intros Hr. congruence.
    + intros _. rewrite B, C, E, F. destruct (Nat.eqb_spec e 0) as [E0|E0]; split; intros; try contradiction; auto.
  - destruct (vf_fields _ _ SV) as [A [B [C [D [E F]]]]]. split; [|split].
    + intros Hr. congruence.
    + intros _. rewrite B, C, E, F. auto.
    + intros Hr. congruence.
Qed.

Lemma InvLt_cancel_root c s r : InvLt c s -> InvLt c (cancel_root s r).
Proof.
  intros H. apply (cancel_root_ind (InvLt c)); [intros s0 og; apply InvLt_cancel_g|]. apply (InvLt_ext c s); [reflexivity | exact H].
Qed.

Lemma step_InvLt c s e : wfc_ev c e -> InvCh s -> InvLt c s -> InvLt c (step repaired s e).
Proof.
  intros Hw HCh H. destruct e; cbn [step].
  - unfold set_context. destruct (Nat.eqb (kctx s) c0); [exact H|]. cbn [fst]. apply InvLt_start_resolve. apply (InvLt_ext c s); [reflexivity | exact H].
  - now apply InvLt_add_ref.
  - destruct (rkind (nth r (refs s) ref0)); try exact H; (apply (InvLt_ext c s); [apply (cf_release_call_by lf); reflexivity | exact H]).
  - unfold release_section. destruct (nth_error (relacts s) a) as [x|]; [|exact H]. destruct (ra_pc x); [|exact H].
    set (sa := set_relacts s _). assert (H1 : InvLt c (remove_ref sa (ra_ref x))) by (apply InvLt_remove_ref; apply (InvLt_ext c s); [reflexivity | exact H]).
    set (s1 := remove_ref sa (ra_ref x)) in *. destruct (ra_cons x) as [c1|]; [|exact H1].
    destruct (cpcv (getc s1 c1)); try exact H1; (apply (InvLt_ext c s1); [reflexivity | exact H1]).
  - destruct (nth_error (gs s) g) as [x|]; [now apply InvLt_released_section | exact H].
  - unfold async_section. destruct (nth_error (asyncs s) a) as [x|]; [|exact H]. destruct (as_pc x); [|exact H].
    apply InvLt_released_section. apply (InvLt_ext c s); [reflexivity | exact H].
  - now apply InvLt_proceed.
  - cbn [wfc_ev] in Hw. apply InvLt_resolver_return; [apply Hw | exact H].
  - now apply InvLt_store.
  - unfold start_consumer. apply InvLt_add_ref. apply (InvLt_ext c s); [reflexivity | exact H].
  - apply (InvLt_ext c s); [apply (cf_cons_step lf); reflexivity | exact H].
  - destruct (nth_error (conss s) c0); [|exact H]. apply (InvLt_ext c s); [reflexivity | exact H].
  - unfold fire_section. destruct (nth_error (conss s) c0) as [x|]; [|exact H]. destruct (ww_firepc x) as [[|]|]; try exact H.
    apply InvLt_remove_ref. apply (InvLt_ext c s); [reflexivity | exact H].
  - apply (InvLt_ext c s); [apply (cf_cb_return lf); reflexivity | exact H].
  - destruct (Nat.eqb c0 0); [exact H | now apply InvLt_cancel_root].
  - destruct (watch_step_spec s c0) as [->|[x [y [_ [-> _]]]]]; [exact H|]. apply (InvLt_ext c s); [reflexivity | exact H].
Qed.

Lemma init_InvLt c k : InvLt c (init k).
Proof.
  unfold InvLt, InvNc, InvSc, InvVc, init. cbn. repeat split; intros; try lia; try discriminate; auto.
Qed.

Theorem run_InvLt c k es : Forall (wfc_ev c) es -> InvLt c (run repaired (init k) es).
Proof.
  induction es as [|e es IH] using rev_ind; intros Hw; [apply init_InvLt|].
  apply Forall_app in Hw. destruct Hw as [Hw He]. inversion He; subst. rewrite run_app.
  apply step_InvLt; [assumption | apply run_chain | now apply IH].
Qed.

(* ------------------------------------------------------------------ *)
(* a resolve goroutine of the current generation that has not finished: there are a context and a reference *)
Definition InvLc (s : st) : Prop :=
  forall g, g < length (gs s) -> gnonce (getg s g) = nonce s -> gdone (getg s g) = false -> kctx s <> 0 /\ nrefs s > 0.

Lemma nf_getg s s' i : nf s' = nf s -> gnonce (getg s' i) = gnonce (getg s i) /\ length (gs s') = length (gs s) /\ nonce s' = nonce s.
Proof.
  unfold nf. intros H. pose proof (f_equal fst H) as H1. pose proof (f_equal snd H) as H2. cbn [fst snd] in H1, H2. split; [|split; [|exact H1]].
  - unfold getg. change (gnonce gor0) with (gnonce gor0). rewrite <- !(map_nth gnonce). now rewrite H2.
  - rewrite <- (map_length gnonce (gs s')), H2. apply map_length.
Qed.

Lemma InvLc_frame s s' :
  kctx s' = kctx s -> nrefs s' = nrefs s -> nf s' = nf s -> (forall i, gdone (getg s' i) = false -> gdone (getg s i) = false) -> InvLc s -> InvLc s'.
Proof.
  intros E1 E2 E3 E4 H g Hg Hn Hd. destruct (nf_getg s s' g E3) as [A [B C]]. rewrite E1, E2. apply (H g); [lia | congruence | now apply E4].
Qed.

Lemma InvLc_none s : (forall i, i < length (gs s) -> gnonce (getg s i) < nonce s) -> InvLc s.
Proof. intros HB g Hg Hn. specialize (HB g Hg). lia. Qed.

Lemma InvLc_start_resolve c s : InvLt c s -> InvLc (start_resolve s).
Proof.
  intros H. unfold start_resolve. destruct (InvLt_shutdown c s H) as [_ [HB _]]. set (s1 := shutdown s) in *. clearbody s1.
  destruct (Nat.eqb_spec (kctx s1) 0) as [Ek|Ek]; cbn [orb]; [now apply InvLc_none|].
  destruct (Nat.eqb_spec (nrefs s1) 0) as [En|En]; [now apply InvLc_none|].
  intros g Hg Hn Hd. change (kctx s1 <> 0 /\ nrefs s1 > 0). split; [exact Ek | lia].
Qed.

Lemma InvLc_resolved c s : InvCh s -> InvLt c s -> resolved s = true -> InvLc s.
Proof.
  intros HCh [HN [_ HV]] Er g Hg Hn Hd. exfalso.
  assert (Hx : nth_error (gs s) g = Some (getg s g)) by (unfold getg; now apply nth_error_nth').
  rewrite (pending_unresolved_c c s g _ HCh HN HV Hx Hd) in Er. discriminate.
Qed.

Lemma chain_ext s s' : gs s' = gs s -> waitch s' = waitch s -> InvCh s -> InvCh s'.
Proof. apply InvCh_ext. Qed.

Lemma InvLc_remove_ref c s r : InvCh s -> InvLt c s -> InvLc s -> InvLc (remove_ref s r).
Proof.
  intros HCh HL H. unfold remove_ref. destruct (nth_error (refs s) r) as [x|] eqn:Ex; [|exact H]. destruct (rin x) eqn:Ein; [|exact H].
  set (y := {| rin := false; rflag := rflag x; rkind := rkind x; rlast := rlast x |}).
  pose proof (nrefs_set_nth s r x y Ex) as NR. rewrite Ein in NR. cbn [b2n rin y] in NR.
  set (s1 := set_refs s (set_nth (refs s) r y)) in *.
  assert (HL1 : InvLt c s1) by (apply (InvLt_ext c s); [reflexivity | exact HL]).
  assert (HC1 : InvCh s1) by (apply (InvCh_ext s); auto).
  destruct (Nat.eqb_spec (nrefs s1) 0) as [E0|E0]; cbn [andb].
  - destruct (negb (keep s1) || negb (resolved s1) || negb (Nat.eqb (verr s1) 0)) eqn:Ec.
    + destruct (InvLt_shutdown c s1 HL1) as [_ [HB _]]. now apply InvLc_none.
    + apply (InvLc_resolved c); auto. apply orb_false_iff in Ec. destruct Ec as [Ec _]. apply orb_false_iff in Ec. destruct Ec as [_ Ec].
      now apply negb_false_iff in Ec.
  - intros g Hg Hn Hd. destruct (H g Hg Hn Hd) as [A B]. split; [exact A | lia].
Qed.

Lemma InvLc_add_ref c s k : InvLt c s -> InvLc s -> InvLc (add_ref repaired s k).
Proof.
  intros HL H. unfold add_ref. fold (newref k). pose proof (nrefs_addref s k) as NR. set (s1 := set_refs s (refs s ++ [newref k])) in *.
  assert (H1 : InvLc s1) by (intros g Hg Hn Hd; destruct (H g Hg Hn Hd) as [A B]; split; [exact A | lia]).
  assert (HL1 : InvLt c s1) by (apply (InvLt_ext c s); [reflexivity | exact HL]).
  destruct (Nat.eqb (nrefs s1) 1 && negb (resolved s1)); [now apply (InvLc_start_resolve c)|].
  destruct (resolved s1); [|exact H1].
  assert (Inv : forall r n, InvLc (invoke s1 r n)).
  { intros r n. apply (InvLc_frame s1); [| | apply nf_rest, rest_invoke | | exact H1].
    - apply (rest_fields s1 _ (rest_invoke s1 r n)).
    - unfold nrefs. apply rview_nrefs, rview_invoke.
    - intros i. unfold getg. destruct (rest_fields s1 _ (rest_invoke s1 r n)) as [_ [_ [_ [_ [_ [_ [_ [_ [_ [_ [_ [_ [E _]]]]]]]]]]]]]. now rewrite E. }
  destruct k; cbn [fx_nilcb repaired]; try exact H1; apply Inv.
Qed.

Lemma gdone_setg_back s g x p i :
  nth_error (gs s) g = Some x -> gdone x = false -> gdone (getg (setg s g (with_gpc x p)) i) = false -> gdone (getg s i) = false.
Proof.
  intros Hx Hnd H. destruct (getg_nth_error s g x Hx) as [Eg Hl]. destruct (Nat.eq_dec i g) as [->|Hne]; [now rewrite Eg|].
  now rewrite getg_setg_other in H.
Qed.

Lemma InvLc_setpc s g x p : nth_error (gs s) g = Some x -> gdone x = false -> InvLc s -> InvLc (setg s g (with_gpc x p)).
Proof.
  intros Hx Hnd H. apply (InvLc_frame s); try reflexivity; [now apply (nf_setg s g x) | intros i; now apply (gdone_setg_back s g x p) | exact H].
Qed.

Lemma InvLc_proceed s g en : InvLc s -> InvLc (proceed repaired s g en).
Proof.
  intros H. unfold proceed. destruct (nth_error (gs s) g) as [x|] eqn:Ex; [|exact H].
  assert (M : forall p, gdone x = false -> InvLc (setg s g (with_gpc x p))) by (intros p Hnd; now apply InvLc_setpc).
  destruct (gpcv x) eqn:Ep; try exact H.
  - assert (Hnd : gdone x = false) by (unfold gdone; now rewrite Ep).
    destruct (gwait x); [|now apply M]. destruct (pred_done s x && gcanc x); [destruct en; now apply M|].
    destruct (pred_done s x); [now apply M|]. destruct (gcanc x); cbn [fx_wait repaired]; now apply M.
  - assert (Hnd : gdone x = false) by (unfold gdone; now rewrite Ep).
    destruct (pred_done s x || gcanc x); [|exact H].
    destruct (gwait x); [|now apply M]. destruct (pred_done s x && gcanc x); [destruct en; now apply M|].
    destruct (pred_done s x); [now apply M|]. destruct (gcanc x); cbn [fx_wait repaired]; now apply M.
  - assert (Hnd : gdone x = false) by (unfold gdone; now rewrite Ep).
    destruct (pred_done s x); [now apply M | exact H].
Qed.

Lemma step_InvLc c s e : InvCh s -> InvLt c s -> InvLc s -> InvLc (step repaired s e).
Proof.
  intros HCh HL H. destruct e as [c0|k|r|a|g|a|g en|g v hr er|g|k|c0|c0|c0|c0 res|c0|c0]; cbn [step].
  - unfold set_context. destruct (Nat.eqb (kctx s) c0); [exact H|]. cbn [fst]. apply (InvLc_start_resolve c). apply (InvLt_ext c s); [reflexivity | exact HL].
  - now apply (InvLc_add_ref c).
  - destruct (rkind (nth r (refs s) ref0)); try exact H;
      (apply (InvLc_frame s); [apply (kfr_fields _ _ (kfr_release_call_by s r None)) | apply nrefs_vw, vw_release_call_by | apply nf_release_call_by
                              | intros i; unfold getg, release_call; now rewrite (cf_release_call_by gs) by reflexivity | exact H]).
  - unfold release_section. destruct (nth_error (relacts s) a) as [x|]; [|exact H]. destruct (ra_pc x); [|exact H].
    set (sa := set_relacts s _).
    assert (E : InvLc (remove_ref sa (ra_ref x))).
    { apply (InvLc_remove_ref c); [apply (InvCh_ext s); auto | apply (InvLt_ext c s); [reflexivity | exact HL] | exact H]. }
    set (s1 := remove_ref sa (ra_ref x)) in *. destruct (ra_cons x) as [c1|]; [|exact E]. destruct (cpcv (getc s1 c1)); exact E.
  - destruct (nth_error (gs s) g) as [x|]; [|exact H]. unfold released_section.
    destruct (Nat.eqb (nonce s) (gnonce x)); [now apply (InvLc_start_resolve c) | exact H].
  - unfold async_section. destruct (nth_error (asyncs s) a) as [x|]; [|exact H]. destruct (as_pc x); [|exact H].
    unfold released_section. set (sa := set_asyncs s _). destruct (Nat.eqb (nonce sa) (as_nonce x)); [|exact H].
    apply (InvLc_start_resolve c). apply (InvLt_ext c s); [reflexivity | exact HL].
  - now apply InvLc_proceed.
  - unfold resolver_return. destruct (nth_error (gs s) g) as [x|] eqn:Ex; [|exact H]. destruct (gpcv x) eqn:Ep; try exact H.
    apply InvLc_setpc; auto. unfold gdone. now rewrite Ep.
  - (* store *)
    destruct (nth_error (gs s) g) as [x|] eqn:Ex; [|unfold store; now rewrite Ex].
    destruct (gpcv x) eqn:Ep; try (unfold store; rewrite Ex, Ep; exact H).
    assert (Hnd : gdone x = false) by (unfold gdone; now rewrite Ep).
    destruct (store_gs_nonce s g x v hasrel e Ex Ep) as [EG EN].
    pose proof (kfr_store s g) as K. destruct (kfr_fields _ _ K) as [K1 _].
    pose proof (proj1 (fp_vw s _ (fp_container s (EStore g) I))) as V. cbn [step] in V.
    apply (InvLc_frame s); [exact K1 | now apply nrefs_vw | apply nf_store | | exact H].
    intros i Hd. unfold getg in Hd. rewrite EG in Hd. exact (gdone_setg_back s g x GDone i Ex Hnd Hd).
  - unfold start_consumer. apply (InvLc_add_ref c); [apply (InvLt_ext c s); [reflexivity | exact HL] | exact H].
  - apply (InvLc_frame s); [apply (kfr_fields _ _ (kfr_cons_step s c0)) | apply nrefs_vw, vw_cons_step | apply (cf_cons_step nf); reflexivity
                           | intros i; unfold getg; now rewrite gs_cons_step | exact H].
  - destruct (nth_error (conss s) c0); exact H.
  - unfold fire_section. destruct (nth_error (conss s) c0) as [x|]; [|exact H]. destruct (ww_firepc x) as [[|]|]; try exact H.
    apply (InvLc_remove_ref c); [apply (InvCh_ext s); auto | apply (InvLt_ext c s); [reflexivity | exact HL] | exact H].
  - apply (InvLc_frame s); [apply (kfr_fields _ _ (kfr_cb_return repaired s c0 res)) | apply nrefs_vw, vw_cb_return | apply (cf_cb_return nf); reflexivity
                           | intros i; unfold getg; now rewrite (cf_cb_return gs) by reflexivity | exact H].
  - destruct (Nat.eqb c0 0); [exact H|]. destruct (cancel_root_kfr s c0) as [K1 _]. destruct (cancel_root_frame s c0) as [E1 _].
    apply (InvLc_frame s); [exact K1 | unfold nrefs; now rewrite E1 | apply nf_cancel_root | | exact H].
    intros i. apply (cancel_root_ind (fun s0 => gdone (getg s0 i) = false -> gdone (getg s i) = false)); [|auto].
    intros s0 og IH Hd. apply IH. destruct (cancel_g_gs s0 og) as [_ GF]. destruct (GF i) as [_ [_ [Ep _]]]. unfold gdone in *. now rewrite <- Ep.
  - destruct (watch_step_spec s c0) as [->|[x [y [_ [-> _]]]]]; [exact H|]. apply (InvLc_frame s); try reflexivity; auto.
Qed.

Theorem run_InvLc c k es : Forall (wfc_ev c) es -> InvLc (run repaired (init k) es).
Proof.
  induction es as [|e es IH] using rev_ind; intros Hw; [intros g Hg; cbn in Hg; lia|].
  apply Forall_app in Hw. destruct Hw as [Hw He]. rewrite run_app.
  apply (step_InvLc c); [apply run_chain | now apply run_InvLt | now apply IH].
Qed.

(* ------------------------------------------------------------------ *)
(* reachable codec states, any configuration *)
Definition HRc (h : hst) : Prop := exists k es, hs h = run repaired (init k) es /\ Forall (wfc_ev (hconst h)) es.

Lemma res_ok_wfc c g er z : res_ok er z = true -> val_okc c (n2n g) (res_val c g z) (n2n er) /\ n2n er <> 1.
Proof.
  unfold res_ok, res_val. intros H. apply andb_true_iff in H. destruct H as [H1 H2]. apply negb_true_iff in H1.
  split.
  - destruct (N.eqb_spec z 0) as [Ez|Ez]; [left; unfold vofc; destruct c; reflexivity | right; reflexivity].
  - intros E. apply N.eqb_neq in H1. apply H1. apply N2Nat.inj. exact E.
Qed.

Lemma dec_wfc h e e0 rets : dec h e e0 rets -> wfc_ev (hconst h) e0.
Proof.
  intros Hd. destruct Hd; try exact I.
  - exact (res_ok_wfc (hconst h) g er 0%N H1).
  - exact (res_ok_wfc (hconst h) g er z H1).
Qed.

Lemma internal_wfc c e : internal_ev e -> wfc_ev c e.
Proof. destruct e; cbn; auto; contradiction. Qed.

Lemma HRc_step h e e0 rets : HRc h -> dec h e e0 rets -> HRc (fst (fin_of h (step repaired (hs h) e0) rets)).
Proof.
  intros [k [es [Es Hw]]] Hd. unfold fin_of. cbn [fst]. unfold HRc. cbn [hs hconst].
  destruct (settle_run (step repaired (hs h) e0)) as [es2 [E2 F2]].
  exists k, (es ++ e0 :: es2). split.
  - rewrite run_app2, <- Es, run_cons. exact E2.
  - apply Forall_app. split; [exact Hw|]. constructor; [exact (dec_wfc h e e0 rets Hd)|].
    eapply Forall_impl; [|exact F2]. apply internal_wfc.
Qed.

Lemma HRc_mid h e e0 rets : HRc h -> dec h e e0 rets ->
  HRc {| hs := step repaired (hs h) e0; hrel := length (rellog (step repaired (hs h) e0)); hconst := hconst h |}.
Proof.
  intros [k [es [Es Hw]]] Hd. unfold HRc. cbn [hs hconst]. exists k, (es ++ [e0]). split.
  - now rewrite run_app, <- Es.
  - apply Forall_app. split; [exact Hw|]. constructor; [exact (dec_wfc h e e0 rets Hd) | constructor].
Qed.

Lemma HRc_init cfg h : hinit cfg = Some h -> HRc h.
Proof.
  unfold hinit. intros H. destruct cfg as [|k [|c [|? ?]]]; try discriminate; inversion H; subst h; unfold HRc; cbn [hs hconst];
    eexists _, []; (split; [reflexivity | constructor]).
Qed.

Lemma HR_HRc h : HR h -> hconst h = false -> HRc h.
Proof.
  intros [[k [es [Es Hw]]] _] Hc. exists k, es. split; [exact Es|]. rewrite Hc. eapply Forall_impl; [|exact (Hw Hc)]. apply wf_ev_wfc.
Qed.

Lemma HRc_lt h : HRc h -> InvLt (hconst h) (hs h).
Proof. intros [k [es [-> Hw]]]. now apply run_InvLt. Qed.
Lemma HRc_lc h : HRc h -> InvLc (hs h).
Proof. intros [k [es [-> Hw]]]. now apply (run_InvLc (hconst h)). Qed.
Lemma HRc_chain h : HRc h -> InvCh (hs h).
Proof. intros [k [es [-> _]]]. apply run_chain. Qed.
Lemma HRc_L5 h : HRc h -> L5 (hs h).
Proof. intros [k [es [-> _]]]. apply run_L5. Qed.
Print Assumptions run_InvLt.
Print Assumptions run_InvLc.
