(* refcount: the monitors tied to the model, part 18: the monitors' idea of the stored generation ([m_cur]) is the model's
   (resolved, generation, error), in EVERY configuration (also with the constant resolver value) and also for the empty value
   stored without an error, which leaves no trace in the target containers: there the monitors go by the events (the store section
   of the newest goroutine stores iff there are a context and a reference; a context change, released() of the stored generation
   and the removeRef section that drops the last reference take the stored result away). *)
From Util Require Import Common.Base Common.ListLemmas RefCount.Model RefCount.Spec RefCount.Proofs RefCount.ProofsC08 RefCount.ProofsC08b
  RefCount.ProofsC09 RefCount.ProofsC10 RefCount.ProofsC10a RefCount.ProofsC10b RefCount.ProofsCodec RefCount.ProofsMon RefCount.ProofsMon2 RefCount.ProofsMon3
  RefCount.ProofsMon4 RefCount.ProofsMon5 RefCount.ProofsMon6 RefCount.ProofsMon7 RefCount.ProofsMonG RefCount.ProofsMon10 RefCount.ProofsMon17 RefCount.ProofsMonE.
Open Scope nat_scope.

(* ------------------------------------------------------------------ *)
(* which sections take a stored result away *)
Definition rem_last (s : st) (r : nat) : bool :=
  rin (nth r (refs s) ref0) && Nat.eqb (nrefs s) 1 && negb (keep s && Nat.eqb (verr s) 0).

Definition clr (s : st) (e : ev) : bool :=
  match e with
  | ESetCtx c => negb (Nat.eqb (kctx s) c)
  | EReleased g => match nth_error (gs s) g with Some x => Nat.eqb (nonce s) (gnonce x) | None => false end
  | EAsync a => match nth_error (asyncs s) a with
                | Some x => match as_pc x with AParked => Nat.eqb (nonce s) (as_nonce x) | ARan => false end
                | None => false
                end
  | ERelSect a => match nth_error (relacts s) a with
                  | Some y => match ra_pc y with RGate => rem_last s (ra_ref y) | RDone => false end
                  | None => false
                  end
  | EFire c => match nth_error (conss s) c with
               | Some x => match ww_firepc x with Some RGate => rem_last s (cref x) | _ => false end
               | None => false
               end
  | _ => false
  end.

Definition clr_res (s s' : st) (b : bool) : Prop := if b then resolved s' = false else vf s' = vf s.

Lemma remove_ref_clr s r : resolved s = true -> clr_res s (remove_ref s r) (rem_last s r).
Proof.
  intros Er. unfold remove_ref, rem_last, clr_res. destruct (nth_error (refs s) r) as [x|] eqn:Ex.
  2:{ rewrite nth_overflow by (now apply nth_error_None). reflexivity. }
  rewrite (nth_error_nth_d _ _ ref0 _ Ex). destruct (rin x) eqn:Ein; [|reflexivity]. cbn [andb].
  set (y := {| rin := false; rflag := rflag x; rkind := rkind x; rlast := rlast x |}).
  pose proof (nrefs_set_nth s r x y Ex) as NR. rewrite Ein in NR. cbn [b2n rin y] in NR.
  set (s1 := set_refs s (set_nth (refs s) r y)) in *.
  change (keep s1) with (keep s). change (resolved s1) with (resolved s). change (verr s1) with (verr s). rewrite Er. cbn [negb orb].
  rewrite orb_false_r.
  assert (E1 : Nat.eqb (nrefs s1) 0 = Nat.eqb (nrefs s) 1).
  { destruct (Nat.eqb_spec (nrefs s1) 0), (Nat.eqb_spec (nrefs s) 1); try reflexivity; lia. }
  rewrite E1. destruct (Nat.eqb (nrefs s) 1); cbn [andb]; [|reflexivity].
  assert (E2 : negb (keep s) || negb (Nat.eqb (verr s) 0) = negb (keep s && Nat.eqb (verr s) 0)) by (destruct (keep s), (Nat.eqb (verr s) 0); reflexivity).
  rewrite E2. destruct (negb (keep s && Nat.eqb (verr s) 0)); [apply shutdown_resolved | reflexivity].
Qed.

Lemma clr_step s e : resolved s = true -> (forall g, e <> EStore g) -> clr_res s (step repaired s e) (clr s e).
Proof.
  intros Er Hne. destruct e; cbn [step clr]; unfold clr_res.
  - unfold set_context. destruct (Nat.eqb (kctx s) c); cbn [negb fst]; [reflexivity | apply start_resolve_resolved].
  - unfold add_ref. set (s1 := set_refs s _). change (resolved s1) with (resolved s). rewrite Er. cbn [negb]. rewrite andb_false_r.
    destruct k as [|[|k]]; cbn [kind_of fx_nilcb repaired]; try reflexivity; now rewrite vf_invoke.
  - destruct (rkind (nth r (refs s) ref0)); try reflexivity; apply vf_release_call_by.
  - unfold release_section. destruct (nth_error (relacts s) a) as [x|]; [|reflexivity]. destruct (ra_pc x); [|reflexivity].
    set (sa := set_relacts s _). pose proof (remove_ref_clr sa (ra_ref x) Er) as E. unfold clr_res in E.
    change (rem_last sa (ra_ref x)) with (rem_last s (ra_ref x)) in E. change (vf sa) with (vf s) in E.
    set (s1 := remove_ref sa (ra_ref x)) in *. destruct (ra_cons x) as [c|]; [|exact E]. destruct (cpcv (getc s1 c)); exact E.
  - destruct (nth_error (gs s) g) as [x|]; [|reflexivity]. unfold released_section.
    destruct (Nat.eqb (nonce s) (gnonce x)); [apply start_resolve_resolved | reflexivity].
  - unfold async_section. destruct (nth_error (asyncs s) a) as [x|]; [|reflexivity]. destruct (as_pc x); [|reflexivity].
    unfold released_section. set (sa := set_asyncs s _). change (nonce sa) with (nonce s).
    destruct (Nat.eqb (nonce s) (as_nonce x)); [apply start_resolve_resolved | reflexivity].
  - apply vf_proceed.
  - unfold resolver_return. destruct (nth_error (gs s) g) as [x|]; [|reflexivity]. destruct (gpcv x); reflexivity.
  - exfalso. exact (Hne g eq_refl).
  - unfold start_consumer, add_ref. set (s0 := set_conss s _). set (s1 := set_refs s0 _). change (resolved s1) with (resolved s). rewrite Er. cbn [negb]. rewrite andb_false_r.
    destruct k as [|[|k]]; now rewrite vf_invoke.
  - apply vf_cons_step.
  - destruct (nth_error (conss s) c); reflexivity.
  - unfold fire_section. destruct (nth_error (conss s) c) as [x|]; [|reflexivity]. destruct (ww_firepc x) as [[|]|]; try reflexivity.
    exact (remove_ref_clr (setc s c _) (cref x) Er).
  - apply vf_cb_return.
  - destruct (Nat.eqb c 0); [reflexivity | apply vf_cancel_root].
  - destruct (watch_step_spec s c) as [->|[x [y [_ [-> _]]]]]; reflexivity.
Qed.

Lemma nth_parked_spec l : forall k i0 a, nth_parked l k i0 = Some a -> i0 <= a /\ exists x, nth_error l (a - i0) = Some x /\ as_pc x = AParked.
Proof.
  induction l as [|y l IH]; intros k i0 a H; [discriminate|]. cbn [nth_parked] in H. unfold parked in H.
  destruct (as_pc y) eqn:Ep.
  - destruct k as [|k].
    + inversion H; subst a. split; [lia|]. rewrite Nat.sub_diag. exists y. auto.
    + destruct (IH k (S i0) a H) as [A [x [Hx Hp]]]. split; [lia|]. exists x. replace (a - i0) with (S (a - S i0)) by lia. auto.
  - destruct (IH k (S i0) a H) as [A [x [Hx Hp]]]. split; [lia|]. exists x. replace (a - i0) with (S (a - S i0)) by lia. auto.
Qed.

(* while a result is stored, the goroutine of the current nonce is the stored generation *)
Lemma cur_gen_eqb c s i : InvLt c s -> resolved s = true -> i < length (gs s) -> Nat.eqb (nonce s) (gnonce (getg s i)) = Nat.eqb (vgen s) i.
Proof.
  intros [HN [_ [V1 _]]] Er Hi. destruct (V1 Er) as [_ [A2 [_ A4]]].
  destruct (Nat.eqb_spec (vgen s) i) as [E|E]; [subst i; rewrite A4; apply Nat.eqb_refl|].
  apply Nat.eqb_neq. intros En. apply E.
  destruct (Nat.lt_trichotomy (vgen s) i) as [H|[H|H]]; [|exact H|].
  - destruct (HN i Hi) as [_ N3]. specialize (N3 _ H). lia.
  - destruct (HN _ A2) as [_ N3]. specialize (N3 _ H). lia.
Qed.

(* ------------------------------------------------------------------ *)
(* the monitors' check of the target containers against a generation *)
Definition cur_chkc (c : bool) (s : st) (v0 e0 : N) : bool :=
  if N.eqb e0 0 then N.eqb (nn (target s)) v0 && N.eqb (nn (terr s)) 0 else N.eqb (nn (terr s)) e0.

Lemma nn_vofc c g : nn (vofc c g) = (if c then 7 else nn g + 1)%N.
Proof. unfold vofc. destruct c; [reflexivity | apply nn_S]. Qed.

Lemma cur_chkc_resolved c s : InvVc c s -> resolved s = true -> cur_chkc c s (nn (value s)) (nn (verr s)) = true.
Proof.
  intros [_ [_ V5]] Er. destruct (V5 Er) as [T1 T2]. unfold cur_chkc.
  change 0%N with (nn 0). rewrite nn_eqb. destruct (Nat.eqb_spec (verr s) 0) as [E|E].
  - destruct (T1 E) as [Et Ee]. rewrite Et, Ee, !N.eqb_refl. reflexivity.
  - destruct (T2 E) as [_ Ee]. rewrite Ee. apply N.eqb_refl.
Qed.

Section CurC.
  Variables (m : mst) (h : hst) (e : list N) (e0 : ev) (rets : list N).
  Hypothesis HCh : HRc h.
  Hypothesis HP : Rproj m h.
  Hypothesis Hd : dec h e e0 rets.
  Hypothesis Hcur : m_cur m = cur_of (hs h).
  Hypothesis Hem : Rempty m (hs h).
  Local Notation s := (hs h).
  Local Notation s1 := (step repaired (hs h) e0).
  Local Notation s' := (settle (step repaired (hs h) e0)).
  Local Notation p := (pobs_of rets (settle (step repaired (hs h) e0)) (hrel h)).

  Lemma Lt0 : InvLt (hconst h) s. Proof. exact (HRc_lt h HCh). Qed.
  Lemma Lt1 : InvLt (hconst h) s1. Proof. exact (HRc_lt _ (HRc_mid h e e0 rets HCh Hd)). Qed.
  Lemma Lt2 : InvLt (hconst h) s'. Proof. exact (HRc_lt _ (HRc_step h e e0 rets HCh Hd)). Qed.

  (* a store section runs while nothing is stored *)
  Lemma store_unresolved g x v hr er : nth_error (gs s) g = Some x -> gpcv x = GStore v hr er -> resolved s = false.
  Proof.
    intros Hx Hp. destruct Lt0 as [HN [_ HV]]. apply (pending_unresolved_c (hconst h) s g x (HRc_chain h HCh) HN HV Hx). unfold gdone. now rewrite Hp.
  Qed.

  Lemma not_store_if_resolved : resolved s = true -> forall g, e0 <> EStore g.
  Proof.
    intros Er g E. destruct Hd; try discriminate E. rewrite (store_unresolved _ _ _ _ _ H H0) in Er. discriminate.
  Qed.

  (* the monitors' "cleared" is the model's *)
  Lemma cleared_spec : resolved s = true -> u_cleared m e p = clr s e0.
  Proof.
    intros Er. unfold u_cleared. rewrite Hcur. unfold cur_of. rewrite Er.
    assert (RL : forall r, u_removed_last m r && negb (m_keep m && N.eqb (nn (verr s)) 0) = rem_last s r).
    { intros r. unfold u_removed_last, rem_last. rewrite (rp_in m h HP), (rp_keep m h HP), cntb_map. fold (nrefs s).
      change 0%N with (nn 0). rewrite nn_eqb. rewrite <- (map_nth rin (refs s) ref0 r). reflexivity. }
    destruct Hd; cbn [clr]; try reflexivity.
    - cbn [po_rets pobs_of]. rewrite nz_nb. unfold set_context. destruct (Nat.eqb (kctx s) (n2n c)); reflexivity.
    - rewrite (rp_raref m h HP), (nth_map_error ra_ref _ _ x 0 H), H, H0. apply RL.
    - rewrite H. destruct (getg_nth_error s _ x H) as [Eg Hl]. rewrite <- Eg, (cur_gen_eqb _ s _ Lt0 Er Hl).
      rewrite <- (nn_n2n g) at 1. apply nn_eqb.
    - destruct (nth_parked_spec _ _ _ _ H) as [_ [x [Hx Hp]]]. rewrite Nat.sub_0_r in Hx. rewrite Hx, Hp.
      rewrite (nth_error_nth_d _ _ async0 _ Hx) in H1. rewrite <- H1, (cur_gen_eqb _ s _ Lt0 Er H0).
      rewrite <- (nn_n2n g) at 1. apply nn_eqb.
    - rewrite (rp_cref m h HP), (nth_map_error cref _ _ x 0 H), H, H0. apply RL.
  Qed.

  Lemma cleared_unresolved : resolved s = false -> u_cleared m e p = false.
  Proof. intros Er. unfold u_cleared. rewrite Hcur. unfold cur_of. now rewrite Er. Qed.

  Lemma Eem' : Rempty (u_mst m e p) s'. Proof. exact (upd_empty m h e e0 rets HCh Hd Hem). Qed.

  (* the value of the stored generation as the monitors compute it *)
  Lemma vofe_cur : resolved s' = true -> verr s' = 0 -> u_vofe m e (nn (vgen s')) = nn (value s').
  Proof.
    intros Er Ee. unfold u_vofe, u_vof. rewrite (rp_const m h HP). destruct Eem' as [[_ _ RC] _]. cbn [m_empty u_mst] in RC. specialize (RC Er). unfold Pz in RC.
    destruct Lt2 as [_ [_ [V1 _]]]. destruct (V1 Er) as [Hv _].
    destruct (mem (nn (vgen s')) (u_empty m e)) eqn:Em.
    - now rewrite (proj1 RC eq_refl).
    - destruct Hv as [Hv|Hv]; [now rewrite Hv, nn_vofc | destruct RC as [_ RC]; specialize (RC Hv); discriminate].
  Qed.

  Lemma u_cur_unfold_c :
    u_cur m e p = if u_cleared m e p then None
                  else match u_cur2 m e p with
                       | Some (g, e1) => if cur_chkc (hconst h) s' (u_vofe m e g) e1 then u_cur2 m e p else None
                       | None => None
                       end.
  Proof. reflexivity. Qed.

  Lemma upd_cur_c : u_cur m e p = cur_of s'.
  Proof.
    rewrite u_cur_unfold_c. pose proof (settle_vf s1) as V'.
    assert (NS : (forall g, e0 <> EStore g) -> u_cur2 m e p = cur_of s).
    { intros Hne. unfold u_cur2, u_stored_now. destruct Hd; try exact Hcur. exfalso. exact (Hne _ eq_refl). }
    destruct (resolved s) eqn:Er.
    - (* something is stored: it goes away, or it stays as it is *)
      pose proof (not_store_if_resolved Er) as Hne. rewrite (cleared_spec Er), (NS Hne).
      pose proof (clr_step s e0 Er Hne) as CS. unfold clr_res in CS. destruct (clr s e0).
      + unfold cur_of. destruct (vf_fields _ _ V') as [A _]. now rewrite A, CS.
      + assert (V2 : vf s' = vf s) by congruence. rewrite (cur_of_vf _ _ V2). unfold cur_of at 1 3. rewrite Er.
        destruct (vf_fields _ _ V2) as [A [B [C [D _]]]].
        assert (Er' : resolved s' = true) by congruence.
        destruct Lt2 as [_ [_ HV2]]. pose proof (cur_chkc_resolved _ s' HV2 Er') as CK. rewrite <- C, <- D.
        unfold cur_chkc in *. change 0%N with (nn 0) in *. rewrite nn_eqb in *.
        destruct (Nat.eqb_spec (verr s') 0) as [E0|E0]; [rewrite (vofe_cur Er' E0)|]; rewrite CK; unfold cur_of; rewrite Er, C, D; reflexivity.
    - (* nothing is stored *)
      rewrite (cleared_unresolved Er).
      assert (Cases : (forall g, e0 <> EStore g) \/ exists g, e0 = EStore g) by (destruct e0; try (left; intros; discriminate); right; eauto).
      destruct Cases as [Hne|[g0 He0]].
      + rewrite (NS Hne). unfold cur_of. rewrite Er. destruct (vf_fields _ _ V') as [A _]. rewrite A.
        destruct (vkeep_step s e0 Hne) as [E|E]; [now rewrite E|]. destruct (vf_fields _ _ E) as [A' _]. now rewrite A', Er.
      + (* the store section *)
        clear NS. destruct Lt0 as [HN [HS HV0]]. pose proof (HRc_lc h HCh) as HLc. pose proof (HRc_L5 h HCh) as HL5.
        destruct Hd; try discriminate He0. clear He0.
        destruct (getg_nth_error s _ x H) as [Eg Hl]. assert (Hv : val_okc (hconst h) (n2n g) v e) by (apply (HS _ Hl v hr e); now rewrite Eg).
        assert (Hnd : gdone x = false) by (unfold gdone; now rewrite H0).
        pose proof (store_vf s (n2n g) x v hr e H H0) as SV. cbv zeta in SV. cbn [step] in *.
        assert (Hm : m_cur m = None) by (rewrite Hcur; unfold cur_of; now rewrite Er).
        destruct HV0 as [_ [V2 _]]. destruct (V2 Er) as [_ [_ [Et Ee]]].
        destruct Hem as [[_ RS _] [_ ROS _]].
        assert (AS : at_store (n2n g) v hr e (gs s)) by (exists x; auto).
        pose proof (RS _ _ _ _ AS) as MemE. pose proof (ROS _ _ _ _ AS) as MemO. rewrite nn_n2n in MemE, MemO. unfold Pz in MemE. unfold Pzz in MemO.
        (* the newest goroutine with a context and a reference is the current generation, and only it *)
        match goal with |- context [u_cur2 m _ ?q] => set (pp := q) end.
        assert (Crit : Nat.eqb (S (n2n g)) (u_ng pp) && nz (u_ctx m [9%N; g]) && Nat.ltb 0 (u_nin m [9%N; g]) = Nat.eqb (nonce s) (gnonce x)).
        { unfold u_ng, pp. cbn [po_gs pobs_of u_ctx u_nin u_in]. rewrite map_length, settle_len_gs.
          assert (LG : length (gs (store s (n2n g))) = length (gs s)).
          { destruct (store_gs_nonce s (n2n g) x v hr e H H0) as [EG _]. rewrite EG. apply length_gs_setg. }
          unfold u_nin. cbn [u_in]. rewrite LG, (rp_ctx m h HP), (rp_in m h HP), cntb_map, nz_nn. fold (nrefs s).
          destruct (Nat.eqb_spec (nonce s) (gnonce x)) as [En|En].
          - rewrite <- Eg in En. destruct (HLc _ Hl (eq_sym En) ltac:(now rewrite Eg)) as [Hk Hn].
            assert (Enew : S (n2n g) = length (gs s)).
            { destruct (Nat.eq_dec (S (n2n g)) (length (gs s))) as [E|E]; [exact E|]. exfalso.
              destruct (HN (S (n2n g)) ltac:(lia)) as [N1 N3]. specialize (N3 (n2n g) ltac:(lia)). lia. }
            rewrite Enew, Nat.eqb_refl. destruct (Nat.eqb_spec (kctx s) 0); [contradiction|]. destruct (Nat.ltb_spec 0 (nrefs s)); [reflexivity | lia].
          - destruct (Nat.eqb_spec (S (n2n g)) (length (gs s))) as [Enew|Enew]; [|reflexivity]. cbn [andb].
            destruct (Nat.eqb_spec (kctx s) 0) as [Ek|Ek]; [reflexivity|]. cbn [negb andb].
            destruct (Nat.ltb_spec 0 (nrefs s)) as [Hn|Hn]; [|reflexivity]. exfalso.
            destruct HL5 as [E|[E|[E|[g' [Hg' Hn']]]]]; [contradiction | lia | congruence|].
            assert (g' = n2n g) by lia. subst g'. rewrite Eg in Hn'. congruence. }
        unfold pp in *. clear pp. unfold u_cur2, u_stored_now. rewrite Hm. change (u_emptyok m [9%N; g]) with (m_emptyok m). cbn [po_target po_terr pobs_of].
        unfold cur_chkc. rewrite (cur_of_vf _ _ V'). destruct (vf_fields _ _ V') as [A' [_ [_ [_ [Et' Ee']]]]]. rewrite !Et', !Ee'.
        assert (Hg : N.eqb 0 (u_vof m g) = false) by (unfold u_vof; destruct (m_const m); [reflexivity | apply N.eqb_neq; lia]).
        destruct (mem g (m_emptyok m)) eqn:EmO.
        * (* the empty value without an error *)
          destruct (proj1 MemO eq_refl) as [Ev0 Ee0]. subst v e. rewrite Crit.
          destruct (Nat.eqb (nonce s) (gnonce x)).
          -- destruct SV as [A [B [C [D [E F]]]]]. cbn [Nat.eqb] in E, F. unfold cur_chkc. cbn [N.eqb]. rewrite E, F.
             unfold u_vofe. change (u_empty m [9%N; g]) with (m_empty m). rewrite (proj2 MemE eq_refl). cbn [nn N.of_nat N.eqb andb].
             unfold cur_of. now rewrite A, C, D, nn_n2n.
          -- destruct (vf_fields _ _ SV) as [A _]. unfold cur_of. now rewrite A, Er.
        * assert (Hnz : ~ (v = 0 /\ e = 0)) by (intros Hx; pose proof (proj2 MemO Hx) as Hy; congruence).
          destruct (Nat.eqb (nonce s) (gnonce x)).
          -- destruct SV as [A [B [C [D [E F]]]]]. rewrite E, F. unfold cur_of. rewrite A, C, D, nn_n2n.
             destruct (Nat.eqb_spec e 0) as [E0|E0].
             ++ assert (Hv0 : v <> 0) by (intros Hx; apply Hnz; auto). destruct Hv as [Hv|Hv]; [|contradiction].
                assert (Evof : nn v = u_vof m g) by (rewrite Hv, nn_vofc, nn_n2n; unfold u_vof; now rewrite (rp_const m h HP)).
                assert (EmE : mem g (m_empty m) = false) by (destruct (mem g (m_empty m)) eqn:X; [exfalso; apply Hv0; now apply MemE | reflexivity]).
                rewrite Evof, E0. change (nn 0) with 0%N. rewrite !N.eqb_refl. cbn [andb N.eqb].
                unfold u_vofe. change (u_empty m [9%N; g]) with (m_empty m). rewrite EmE, !N.eqb_refl. reflexivity.
             ++ rewrite Et. change (nn 0) with 0%N. rewrite Hg. cbn [andb].
                rewrite nz_nn. destruct (Nat.eqb_spec e 0) as [|_]; [contradiction|]. cbn [negb andb].
                change 0%N with (nn 0). rewrite nn_eqb. destruct (Nat.eqb_spec e 0) as [|_]; [contradiction|]. rewrite N.eqb_refl. reflexivity.
          -- destruct (vf_fields _ _ SV) as [A [_ [_ [_ [E F]]]]]. rewrite E, F, Et, Ee. change (nn 0) with 0%N.
             rewrite Hg. cbn. unfold cur_of. now rewrite A, Er.
  Qed.

  (* within one event a stored generation is not replaced by another *)
  Lemma vgen_same_c : resolved s = true -> resolved s' = true -> vf s' = vf s.
  Proof.
    intros Er Er'. pose proof (settle_vf s1) as V'. rewrite V'. destruct (vf_fields _ _ V') as [A _]. rewrite A in Er'.
    destruct (vkeep_step s e0 (not_store_if_resolved Er)) as [E|E]; [congruence | exact E].
  Qed.

  (* the monitors see an invalidation only when the stored result really went away *)
  Lemma lost_resolved_c g : u_lost m e p = Some g -> resolved s = true.
  Proof.
    unfold u_lost, u_lost0. rewrite Hcur. unfold cur_of at 1 2. destruct (resolved s); [reflexivity|]. destruct Hd; discriminate.
  Qed.

  Lemma lost_unresolved_c g : u_lost m e p = Some g -> resolved s' = false.
  Proof.
    intros Hl. pose proof (lost_resolved_c g Hl) as Er. revert Hl.
    unfold u_lost, u_lost0. rewrite Hcur, upd_cur_c. unfold cur_of at 1 3. rewrite Er.
    pose proof vgen_same_c as VS. destruct Lt0 as [_ [_ [V1 _]]]. pose proof (settle_vf s1) as V'.
    unfold cur_of. destruct (resolved s') eqn:Er'; [|reflexivity]. destruct (vf_fields _ _ (VS Er eq_refl)) as [_ [_ [_ [Eg _]]]]. rewrite Eg, N.eqb_refl.
    destruct Hd; try discriminate. destruct (N.eqb_spec (nn (vgen s)) g0) as [Eg0|Eg0]; [|discriminate]. intros _. exfalso.
    assert (Evg : vgen s = n2n g0) by (rewrite <- Eg0; now rewrite n2n_nn).
    destruct (V1 Er) as [_ [_ [_ A4]]]. rewrite Evg in A4.
    destruct (getg_nth_error s _ x H) as [Ex _]. rewrite Ex in A4.
    destruct (vf_fields _ _ V') as [A _]. rewrite A in Er'. cbn [step] in Er'. rewrite H in Er'. unfold released_section in Er'.
    rewrite A4, Nat.eqb_refl, start_resolve_resolved in Er'. discriminate.
  Qed.

  (* conversely: no invalidation seen => the stored result is untouched *)
  Lemma not_lost_same : resolved s = true -> u_lost m e p = None -> resolved s' = true /\ vf s' = vf s.
  Proof.
    intros Er. unfold u_lost, u_lost0. rewrite Hcur, upd_cur_c. unfold cur_of. rewrite Er.
    destruct (resolved s') eqn:Er'; [|discriminate]. intros _. split; [reflexivity | now apply vgen_same_c].
  Qed.
End CurC.
