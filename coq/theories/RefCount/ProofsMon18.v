(* refcount: the monitors tied to the model, part 18: the codec's states satisfy the light invariant in EVERY configuration
   (also with the constant resolver value), and with it the monitors' idea of the stored generation ([m_cur]) is the model's
   (resolved, generation, error) in every configuration. *)
From Util Require Import Common.Base Common.ListLemmas RefCount.Model RefCount.Spec RefCount.Proofs RefCount.ProofsC08 RefCount.ProofsC08b
  RefCount.ProofsC09 RefCount.ProofsC10 RefCount.ProofsC10a RefCount.ProofsC10b RefCount.ProofsCodec RefCount.ProofsMon RefCount.ProofsMon2 RefCount.ProofsMon3
  RefCount.ProofsMon4 RefCount.ProofsMon5 RefCount.ProofsMon6 RefCount.ProofsMon7 RefCount.ProofsMon17.
Open Scope nat_scope.

(* ------------------------------------------------------------------ *)
(* reachable codec states, any configuration *)
Definition HRc (h : hst) : Prop := exists k es, hs h = run repaired (init k) es /\ Forall (wfc_ev (hconst h)) es.

Lemma res_ok_wfc c g er z : res_ok er z = true -> val_okc c (n2n g) (res_val c g z) (n2n er) /\ n2n er <> 1.
Proof.
  unfold res_ok, res_val. intros H. apply andb_true_iff in H. destruct H as [H1 H2]. apply negb_true_iff in H1.
  split.
  - destruct (N.eqb_spec z 0) as [Ez|Ez]; [left; unfold vofc; destruct c; reflexivity|]. cbn [orb] in H2. apply andb_true_iff in H2. destruct H2 as [_ H2].
    apply negb_true_iff in H2. right. split; [reflexivity|]. intros E. apply N.eqb_neq in H2. apply H2. apply N2Nat.inj. exact E.
  - intros E. apply N.eqb_neq in H1. apply H1. apply N2Nat.inj. exact E.
Qed.

Lemma dec_wfc h e e0 rets : dec h e e0 rets -> wfc_ev (hconst h) e0.
Proof.
  intros Hd. destruct Hd; try exact I.
  - exact (res_ok_wfc (hconst h) g er 0%N H1).
  - exact (res_ok_wfc (hconst h) g er z H1).
Qed.

Lemma internal_wfc c e : internal_ev e -> wfc_ev c e.
Proof. destruct e; cbn; auto; contradiction. Qed.

Lemma HRc_step h e e0 rets : HRc h -> dec h e e0 rets -> HRc (fst (fin_of h (step repaired (hs h) e0) rets)).
Proof.
  intros [k [es [Es Hw]]] Hd. unfold fin_of. cbn [fst]. unfold HRc. cbn [hs hconst].
  destruct (settle_run (step repaired (hs h) e0)) as [es2 [E2 F2]].
  exists k, (es ++ e0 :: es2). split.
  - rewrite run_app2, <- Es, run_cons. exact E2.
  - apply Forall_app. split; [exact Hw|]. constructor; [exact (dec_wfc h e e0 rets Hd)|].
    eapply Forall_impl; [|exact F2]. apply internal_wfc.
Qed.

Lemma HRc_mid h e e0 rets : HRc h -> dec h e e0 rets ->
  HRc {| hs := step repaired (hs h) e0; hrel := length (rellog (step repaired (hs h) e0)); hconst := hconst h |}.
Proof.
  intros [k [es [Es Hw]]] Hd. unfold HRc. cbn [hs hconst]. exists k, (es ++ [e0]). split.
  - now rewrite run_app, <- Es.
  - apply Forall_app. split; [exact Hw|]. constructor; [exact (dec_wfc h e e0 rets Hd) | constructor].
Qed.

Lemma HRc_init cfg h : hinit cfg = Some h -> HRc h.
Proof.
  unfold hinit. intros H. destruct cfg as [|k [|c [|? ?]]]; try discriminate; inversion H; subst h; unfold HRc; cbn [hs hconst];
    eexists _, []; (split; [reflexivity | constructor]).
Qed.

Lemma HRc_lt h : HRc h -> InvLt (hconst h) (hs h).
Proof. intros [k [es [-> Hw]]]. now apply run_InvLt. Qed.

Lemma HRc_chain h : HRc h -> InvCh (hs h).
Proof. intros [k [es [-> _]]]. apply run_chain. Qed.

(* ------------------------------------------------------------------ *)
(* the monitors' check of the target containers against a generation *)
Definition cur_chkc (c : bool) (s : st) (g e0 : N) : bool :=
  if N.eqb e0 0 then N.eqb (nn (target s)) (if c then 7 else g + 1) && N.eqb (nn (terr s)) 0 else N.eqb (nn (terr s)) e0.

Lemma nn_vofc c g : nn (vofc c g) = (if c then 7 else nn g + 1)%N.
Proof. unfold vofc. destruct c; [reflexivity | apply nn_S]. Qed.

Lemma cur_chkc_resolved c s : InvVc c s -> resolved s = true -> cur_chkc c s (nn (vgen s)) (nn (verr s)) = true.
Proof.
  intros [V1 [_ V5]] Er. destruct (V1 Er) as [Hv _]. destruct (V5 Er) as [T1 T2]. unfold cur_chkc.
  change 0%N with (nn 0). rewrite nn_eqb. destruct (Nat.eqb_spec (verr s) 0) as [E|E].
  - destruct (T1 E) as [Et Ee]. destruct Hv as [Hv|[_ Hv]]; [|contradiction]. rewrite Et, Hv, Ee, nn_vofc, !N.eqb_refl. reflexivity.
  - destruct (T2 E) as [_ Ee]. rewrite Ee. apply N.eqb_refl.
Qed.

Lemma cur_chkc_unresolved c s g e0 : InvVc c s -> resolved s = false -> cur_chkc c s g e0 = false.
Proof.
  intros [_ [V2 _]] Er. destruct (V2 Er) as [_ [_ [Et Ee]]]. unfold cur_chkc. rewrite Et, Ee. change (nn 0) with 0%N.
  destruct (N.eqb_spec e0 0) as [E|E].
  - destruct c; [reflexivity|]. destruct (N.eqb_spec 0 (g + 1)) as [E2|E2]; [exfalso; lia | reflexivity].
  - apply N.eqb_neq. auto.
Qed.

Lemma cur_chkc_vf c s s' g e0 : vf s' = vf s -> cur_chkc c s' g e0 = cur_chkc c s g e0.
Proof. intros H. destruct (vf_fields _ _ H) as [_ [_ [_ [_ [E F]]]]]. unfold cur_chkc. now rewrite E, F. Qed.

Section CurC.
  Variables (m : mst) (h : hst) (e : list N) (e0 : ev) (rets : list N).
  Hypothesis HCh : HRc h.
  Hypothesis HP : Rproj m h.
  Hypothesis Hd : dec h e e0 rets.
  Hypothesis Hcur : m_cur m = cur_of (hs h).
  Local Notation s := (hs h).
  Local Notation s1 := (step repaired (hs h) e0).
  Local Notation s' := (settle (step repaired (hs h) e0)).
  Local Notation p := (pobs_of rets (settle (step repaired (hs h) e0)) (hrel h)).

  Lemma Lt0 : InvLt (hconst h) s. Proof. exact (HRc_lt h HCh). Qed.
  Lemma Lt1 : InvLt (hconst h) s1. Proof. exact (HRc_lt _ (HRc_mid h e e0 rets HCh Hd)). Qed.
  Lemma Lt2 : InvLt (hconst h) s'. Proof. exact (HRc_lt _ (HRc_step h e e0 rets HCh Hd)). Qed.

  Lemma u_cur_unfold_c :
    u_cur m e p = match u_cur2 m e p with
                  | Some (g, e1) => if cur_chkc (hconst h) s' g e1 then u_cur2 m e p else None
                  | None => None
                  end.
  Proof. unfold u_cur, cur_chkc, u_vof. rewrite (rp_const m h HP). reflexivity. Qed.

  (* a store section runs while nothing is stored *)
  Lemma store_unresolved g x v hr er : nth_error (gs s) g = Some x -> gpcv x = GStore v hr er -> resolved s = false.
  Proof.
    intros Hx Hp. destruct Lt0 as [HN [_ HV]]. apply (pending_unresolved_c (hconst h) s g x (HRc_chain h HCh) HN HV Hx). unfold gdone. now rewrite Hp.
  Qed.

  Lemma upd_cur_c : u_cur m e p = cur_of s'.
  Proof.
    rewrite u_cur_unfold_c. destruct Lt0 as [HN [HS HV0]]. destruct Lt1 as [_ [_ HV1]].
    pose proof (settle_vf s1) as V'. rewrite (cur_of_vf _ _ V').
    assert (CK : forall g e1, cur_chkc (hconst h) s' g e1 = cur_chkc (hconst h) s1 g e1) by (intros; now apply cur_chkc_vf).
    assert (NS : (forall g, e0 <> EStore g) -> u_cur2 m e p = cur_of s).
    { intros Hne. unfold u_cur2, u_stored_now. destruct Hd; try exact Hcur. exfalso. exact (Hne _ eq_refl). }
    assert (Gen : (forall g, e0 <> EStore g) ->
                  match u_cur2 m e p with Some (g, e1) => if cur_chkc (hconst h) s' g e1 then u_cur2 m e p else None | None => None end = cur_of s1).
    { intros Hne. rewrite (NS Hne). destruct (vkeep_step s e0 Hne) as [Er|Ev].
      - unfold cur_of at 3. rewrite Er. unfold cur_of. destruct (resolved s); [|reflexivity]. now rewrite CK, (cur_chkc_unresolved _ s1 _ _ HV1 Er).
      - rewrite (cur_of_vf _ _ Ev). unfold cur_of. destruct (resolved s) eqn:Er; [|reflexivity].
        now rewrite CK, (cur_chkc_vf _ _ _ _ _ Ev), (cur_chkc_resolved _ s HV0 Er). }
    destruct Hd; try (apply Gen; intros g0; discriminate).
    (* the store section *)
    pose proof (store_unresolved (n2n g) x v hr e H H0) as Er.
    destruct (getg_nth_error s _ x H) as [Eg Hl]. assert (Hv : val_okc (hconst h) (n2n g) v e) by (apply (HS _ Hl v hr e); now rewrite Eg).
    pose proof (store_vf s (n2n g) x v hr e H H0) as SV. cbv zeta in SV. cbn [step] in *.
    assert (Hm : m_cur m = None) by (rewrite Hcur; unfold cur_of; now rewrite Er).
    destruct HV0 as [_ [V2 _]]. destruct (V2 Er) as [_ [_ [Et Ee]]].
    unfold u_cur2, u_stored_now, u_vof. rewrite (rp_const m h HP), Hm. cbn [po_target po_terr pobs_of].
    destruct (vf_fields _ _ V') as [_ [_ [_ [_ [Et' Ee']]]]]. rewrite Et', Ee'.
    assert (Hg : N.eqb 0 (if hconst h then 7 else g + 1) = false) by (destruct (hconst h); [reflexivity | apply N.eqb_neq; lia]).
    destruct (Nat.eqb (nonce s) (gnonce x)).
    - destruct SV as [A [B [C [D [E F]]]]]. rewrite E, F. unfold cur_of. rewrite A, C, D, nn_n2n.
      destruct (Nat.eqb_spec e 0) as [E0|E0].
      + destruct Hv as [Hv|[_ Hv]]; [|contradiction]. rewrite Hv, nn_vofc, nn_n2n, !N.eqb_refl. cbn [andb].
        rewrite CK. unfold cur_chkc. rewrite E, F. rewrite E0. cbn [Nat.eqb]. rewrite Hv, nn_vofc, nn_n2n, !N.eqb_refl. reflexivity.
      + rewrite Et. change (nn 0) with 0%N. rewrite Hg. cbn [andb].
        rewrite nz_nn. destruct (Nat.eqb_spec e 0) as [|_]; [contradiction|]. cbn [negb andb].
        rewrite CK. unfold cur_chkc. rewrite F. destruct (Nat.eqb_spec e 0) as [|_]; [contradiction|].
        change 0%N with (nn 0). rewrite nn_eqb. destruct (Nat.eqb_spec e 0) as [|_]; [contradiction|]. rewrite N.eqb_refl. reflexivity.
    - destruct (vf_fields _ _ SV) as [A [_ [_ [_ [E F]]]]]. rewrite E, F, Et, Ee. change (nn 0) with 0%N.
      rewrite Hg. cbn. unfold cur_of. now rewrite A, Er.
  Qed.

  (* within one event a stored generation is not replaced by another *)
  Lemma vgen_same_c : resolved s = true -> resolved s' = true -> vf s' = vf s.
  Proof.
    intros Er Er'. pose proof (settle_vf s1) as V'. rewrite V'. destruct (vf_fields _ _ V') as [A _]. rewrite A in Er'.
    assert (Cases : (forall g, e0 <> EStore g) \/ exists g x v hr er, e0 = EStore g /\ nth_error (gs s) g = Some x /\ gpcv x = GStore v hr er).
    { destruct Hd; try (left; intros; discriminate). right. eauto 10. }
    destruct Cases as [Hne|[g [x [v [hr [er [He0 [Hx Hp]]]]]]]].
    - destruct (vkeep_step s e0 Hne) as [E|E]; [congruence | exact E].
    - rewrite (store_unresolved g x v hr er Hx Hp) in Er. discriminate.
  Qed.

  (* the monitors see an invalidation only when the stored result really went away *)
  Lemma lost_resolved_c g : u_lost m e p = Some g -> resolved s = true.
  Proof.
    unfold u_lost, u_lost0. rewrite Hcur. unfold cur_of at 1 2. destruct (resolved s); [reflexivity|]. destruct Hd; discriminate.
  Qed.

  Lemma lost_unresolved_c g : u_lost m e p = Some g -> resolved s' = false.
  Proof.
    unfold u_lost, u_lost0. rewrite Hcur, upd_cur_c. unfold cur_of at 1 3.
    pose proof vgen_same_c as VS. destruct Lt0 as [_ [_ [V1 _]]]. pose proof (settle_vf s1) as V'.
    destruct (resolved s) eqn:Er; [|destruct Hd; discriminate].
    unfold cur_of. destruct (resolved s') eqn:Er'; [|reflexivity]. destruct (vf_fields _ _ (VS eq_refl eq_refl)) as [_ [_ [_ [Eg _]]]]. rewrite Eg, N.eqb_refl.
    destruct Hd; try discriminate. destruct (N.eqb_spec (nn (vgen s)) g0) as [Eg0|Eg0]; [|discriminate]. intros _. exfalso.
    assert (Evg : vgen s = n2n g0) by (rewrite <- Eg0; now rewrite n2n_nn).
    destruct (V1 eq_refl) as [_ [_ [_ A4]]]. rewrite Evg in A4.
    destruct (getg_nth_error s _ x H) as [Ex _]. rewrite Ex in A4.
    destruct (vf_fields _ _ V') as [A _]. rewrite A in Er'. cbn [step] in Er'. rewrite H in Er'. unfold released_section in Er'.
    rewrite A4, Nat.eqb_refl, start_resolve_resolved in Er'. discriminate.
  Qed.

  (* conversely: no invalidation seen => the stored result is untouched *)
  Lemma not_lost_same : resolved s = true -> u_lost m e p = None -> resolved s' = true /\ vf s' = vf s.
  Proof.
    intros Er. unfold u_lost, u_lost0. rewrite Hcur, upd_cur_c. unfold cur_of. rewrite Er.
    destruct (resolved s') eqn:Er'; [|discriminate]. intros _. split; [reflexivity | now apply vgen_same_c].
  Qed.
End CurC.
