(* refcount: the monitors tied to the model, part 4: the states the codec reaches are states of [run] (so every invariant
   proved for all event lists holds for them), the relation R between the monitors' books and the model state, and its
   preservation for the books that are projections of the state. *)
From Util Require Import Common.Base Common.ListLemmas RefCount.Model RefCount.Spec RefCount.Proofs RefCount.ProofsC08 RefCount.ProofsC08b
  RefCount.ProofsC09 RefCount.ProofsC10 RefCount.ProofsC10a RefCount.ProofsC10b RefCount.ProofsCodec RefCount.ProofsMon RefCount.ProofsMon2 RefCount.ProofsMon3.
Open Scope nat_scope.

(* ------------------------------------------------------------------ *)
(* reachable codec states *)
Definition HR (h : hst) : Prop :=
  (exists k es, hs h = run repaired (init k) es /\ (hconst h = false -> Forall wf_ev es)) /\ hrel h = length (rellog (hs h)).

Lemma dec_wf h e e0 rets : dec h e e0 rets -> hconst h = false -> wf_ev e0.
Proof.
  intros Hd Hc. destruct Hd; try exact I; rewrite Hc.
  - exact (res_ok_wf g er 0%N H1).
  - exact (res_ok_wf g er z H1).
Qed.

Lemma HR_step h e e0 rets : HR h -> dec h e e0 rets -> HR (fst (fin_of h (step repaired (hs h) e0) rets)).
Proof.
  intros [[k [es [Es Hw]]] Hl] Hd. unfold fin_of. cbn [fst]. split; [|reflexivity]. cbn [hs hconst].
  destruct (settle_run (step repaired (hs h) e0)) as [es2 [E2 F2]].
  exists k, (es ++ e0 :: es2). split.
  - rewrite run_app2, <- Es, run_cons. exact E2.
  - intros Hc. apply Forall_app. split; [now apply Hw|]. constructor; [exact (dec_wf h e e0 rets Hd Hc)|].
    eapply Forall_impl; [|exact F2]. apply internal_wf.
Qed.

Lemma HR_init cfg h : hinit cfg = Some h -> HR h.
Proof.
  unfold hinit. intros H. destruct cfg as [|k [|c [|? ?]]]; try discriminate; inversion H; subst h; (split; [|reflexivity]);
    cbn [hs hconst]; eexists _, []; (split; [reflexivity | intros _; constructor]).
Qed.

Lemma HR_inv h : HR h -> hconst h = false -> Inv (hs h).
Proof. intros [[k [es [-> Hw]]] _] Hc. apply run_inv. now apply Hw. Qed.
Lemma HR_chain h : HR h -> InvCh (hs h).
Proof. intros [[k [es [-> _]]] _]. apply run_chain. Qed.
Lemma HR_C h : HR h -> InvC (conss (hs h)).
Proof. intros [[k [es [-> _]]] _]. apply run_InvC. Qed.
Lemma HR_AM h : HR h -> InvA (hs h) /\ InvM (hs h).
Proof. intros [[k [es [-> _]]] _]. apply run_InvAM. Qed.
Lemma HR_K h : HR h -> InvK (conss (hs h)).
Proof. intros [[k [es [-> _]]] _]. apply run_InvK. Qed.
Lemma HR_nopanic h : HR h -> panicked (hs h) = false.
Proof. intros [[k [es [-> _]]] _]. apply never_panics. Qed.

(* the state after the section, before the eager schedule, is a reachable state as well *)
Lemma HR_mid h e e0 rets : HR h -> dec h e e0 rets ->
  HR {| hs := step repaired (hs h) e0; hrel := length (rellog (step repaired (hs h) e0)); hconst := hconst h |}.
Proof.
  intros [[k [es [Es Hw]]] Hl] Hd. split; [|reflexivity]. cbn [hs hconst]. exists k, (es ++ [e0]). split.
  - now rewrite run_app, <- Es.
  - intros Hc. apply Forall_app. split; [now apply Hw|]. constructor; [exact (dec_wf h e e0 rets Hd Hc) | constructor].
Qed.

(* ------------------------------------------------------------------ *)
(* the release log only grows, by at most one call per event *)
Lemma internal_rellog e s : internal_ev e -> rellog (step repaired s e) = rellog s.
Proof. destruct e; try contradiction; intros _; cbn [step]; [apply proceed_log | apply cons_step_log]. Qed.

Lemma settle_rellog s : rellog (settle s) = rellog s.
Proof.
  destruct (settle_run s) as [es [-> F]]. apply (run_internal (fun s0 => rellog s0 = rellog s)); auto.
  intros s0 e He H. now rewrite internal_rellog.
Qed.

(* ------------------------------------------------------------------ *)
(* codes *)
Definition kcode (k : cbkind) : N := match k with KLog | KCallsRel => 1 | _ => 0 end%N.
Definition ckcode (k : ckind) : N := match k with CKWait => 0 | CKWwr => 1 | CKAccess => 2 end%N.
Definition cur_of (s : st) : option (N * N) := if resolved s then Some (nn (vgen s), nn (verr s)) else None.

(* the books that are projections of the state *)
Record Rproj (m : mst) (h : hst) : Prop := {
  rp_keep : m_keep m = keep (hs h);
  rp_const : m_const m = hconst h;
  rp_ctx : m_ctx m = nn (kctx (hs h));
  rp_rootc : m_rootc m = map nn (rootc (hs h));
  rp_in : m_in m = map rin (refs (hs h));
  rp_kind : m_kind m = map kcode (map rkind (refs (hs h)));
  rp_raref : m_raref m = map ra_ref (relacts (hs h));
  rp_cref : m_cref m = map cref (conss (hs h));
  rp_ckind : m_ckind m = map ckcode (map ck (conss (hs h)));
  rp_ccanc : m_ccanc m = map ccanc (conss (hs h));
  rp_ng : m_ng m = length (gs (hs h));
  rp_gs : m_gs m = map gcode (gs (hs h));
}.

Lemma kfr_fields s s' : kfr s' = kfr s -> kctx s' = kctx s /\ keep s' = keep s /\ rootc s' = rootc s.
Proof. unfold kfr. intros H. inversion H. auto. Qed.

Lemma vw_fields s : vw s = {| v_rin := map rin (refs s); v_rkind := map rkind (refs s); v_ck := map ck (conss s); v_cref := map cref (conss s);
                              v_ccanc := map ccanc (conss s) |}.
Proof. reflexivity. Qed.

Lemma nth_map_error {A B} (f : A -> B) (l : list A) i x d : nth_error l i = Some x -> nth i (map f l) d = f x.
Proof. intros H. apply nth_error_nth. now apply nth_error_map_some. Qed.

Lemma kcode_kind_of k : kcode (kind_of (n2n k)) = (if N.eqb k 0 then 0 else 1)%N.
Proof.
  destruct (N.eqb_spec k 0) as [->|H]; [reflexivity|]. unfold kind_of.
  destruct (n2n k) as [|[|j]] eqn:E; [exfalso; apply H; apply N2Nat.inj; exact E | reflexivity | reflexivity].
Qed.

Lemma ckcode_norm k : N.leb k 4 = true ->
  ckcode (match n2n (ckind_norm k) with 0 => CKWait | 1 => CKWwr | _ => CKAccess end) = ckind_norm k.
Proof.
  intros H. apply N.leb_le in H.
  destruct k as [|p]; [reflexivity|]. destruct p as [[p|p|]|[p|p|]|]; try reflexivity; try (exfalso; lia).
  all: destruct p; try reflexivity; exfalso; lia.
Qed.

Lemma padb_map {A} (f : A -> bool) (l : list A) : padb (map f l) (length l) = map f l.
Proof. unfold padb. rewrite map_length, Nat.sub_diag. cbn [repeat]. apply app_nil_r. Qed.

Lemma padb_length l n : length l <= n -> length (padb l n) = n.
Proof. intros H. unfold padb. rewrite app_length, repeat_length. lia. Qed.

Lemma padb_nth l n i : nth i (padb l n) false = nth i l false.
Proof.
  unfold padb. destruct (Nat.lt_ge_cases i (length l)) as [H|H]; [now rewrite app_nth1|].
  rewrite app_nth2 by exact H. rewrite (nth_overflow l _ H). destruct (Nat.lt_ge_cases (i - length l) (n - length l)) as [H2|H2].
  - now rewrite nth_repeat.
  - apply nth_overflow. now rewrite repeat_length.
Qed.

Lemma combine_seq_nth {A} (l : list A) d : forall k i, i < length l -> nth i (combine (seq k (length l)) l) (0, d) = (k + i, nth i l d).
Proof.
  induction l as [|a l IH]; intros k i Hi; [cbn in Hi; lia|]. cbn [length seq combine]. destruct i as [|i]; cbn [nth].
  - now rewrite Nat.add_0_r.
  - rewrite IH by (cbn in Hi; lia). f_equal. lia.
Qed.

Lemma ccanc_row (P : nat -> bool) l n i : length l <= n -> i < n ->
  nth i (map (fun ib : nat * bool => snd ib || P (fst ib)) (combine (seq 0 n) (padb l n))) false = nth i l false || P i.
Proof.
  intros Hl Hi. pose proof (padb_length l n Hl) as HL.
  set (f := fun ib : nat * bool => snd ib || P (fst ib)).
  rewrite (nth_indep _ false (f (0, false))).
  2:{ rewrite map_length, combine_length, seq_length, HL, Nat.min_id. exact Hi. }
  rewrite map_nth. rewrite <- HL at 1.
  rewrite combine_seq_nth by (rewrite HL; exact Hi). unfold f. cbn [fst snd]. now rewrite padb_nth.
Qed.

Ltac kfr3 K :=
  let K1 := fresh "K1" in let K2 := fresh "K2" in let K3 := fresh "K3" in
  pose proof (f_equal (fun t : nat * bool * list nat => fst (fst t)) K) as K1;
  pose proof (f_equal (fun t : nat * bool * list nat => snd (fst t)) K) as K2;
  pose proof (f_equal (fun t : nat * bool * list nat => snd t) K) as K3;
  cbn [fst snd kfr] in K1, K2, K3.

Section Upd.
  Variables (m : mst) (h : hst) (e : list N) (e0 : ev) (rets : list N).
  Hypothesis HRh : HR h.
  Hypothesis HP : Rproj m h.
  Hypothesis Hd : dec h e e0 rets.
  Local Notation s := (hs h).
  Local Notation s' := (settle (step repaired (hs h) e0)).
  Local Notation p := (pobs_of rets (settle (step repaired (hs h) e0)) (hrel h)).

  Lemma upd_kfr : kfr s' = match e0 with
                           | ESetCtx c => (c, keep s, rootc s)
                           | ECancelRoot c => (kctx s, keep s, c :: rootc s)
                           | _ => kfr s
                           end.
  Proof.
    rewrite settle_kfr, step_kfr. destruct Hd; try reflexivity.
    destruct (Nat.eqb_spec (n2n c) 0) as [E|E]; [|reflexivity]. exfalso. apply N.leb_le in H. unfold n2n in E. lia.
  Qed.

  Lemma upd_ctx : u_ctx m e = nn (kctx s').
  Proof.
    pose proof upd_kfr as K. destruct HP. destruct Hd; cbn [u_ctx]; kfr3 K; rewrite ?rp_ctx0;
      rewrite ?K1, ?nn_n2n; reflexivity.
  Qed.

  Lemma upd_keep : m_keep m = keep s'.
  Proof.
    pose proof upd_kfr as K. destruct HP. destruct Hd; kfr3 K; rewrite K2; exact rp_keep0.
  Qed.

  Lemma upd_rootc : u_rootc m e = map nn (rootc s').
  Proof.
    pose proof upd_kfr as K. destruct HP. destruct Hd; cbn [u_rootc]; kfr3 K; rewrite K3, rp_rootc0;
      cbn [map]; rewrite ?nn_n2n; reflexivity.
  Qed.

  Lemma upd_vw :
    vw s' = match e0 with
            | EAddRef k => vw_addref (vw s) (kind_of k)
            | ERelSect a => vw_rem (vw s) (nth a (map ra_ref (relacts s)) 0)
            | EStartCons k => vw_newcons (vw s) (match k with 0 => CKWait | 1 => CKWwr | _ => CKAccess end)
            | EConsCancel c => vw_cancel (vw s) c
            | EFire c => vw_rem (vw s) (nth c (map cref (conss s)) 0)
            | _ => vw s
            end.
  Proof.
    rewrite settle_vw, step_vw. destruct Hd; try reflexivity.
    - rewrite H, H0. now rewrite (nth_map_error ra_ref _ _ x 0 H).
    - rewrite H, H0. now rewrite (nth_map_error cref _ _ x 0 H).
  Qed.

  Lemma upd_in : u_in m e = map rin (refs s').
  Proof.
    pose proof upd_vw as V. apply (f_equal v_rin) in V. cbn [v_rin vw] in V. rewrite V. destruct HP.
    destruct Hd; cbn [u_in v_rin vw vw_addref vw_rem vw_newcons vw_cancel]; rewrite ?rp_in0, ?rp_raref0, ?rp_cref0; reflexivity.
  Qed.

  Lemma upd_kind : u_kind m e = map kcode (map rkind (refs s')).
  Proof.
    pose proof upd_vw as V. apply (f_equal v_rkind) in V. cbn [v_rkind vw] in V. rewrite V. destruct HP.
    destruct Hd; cbn [u_kind v_rkind vw vw_addref vw_rem vw_newcons vw_cancel]; rewrite ?rp_kind0; try reflexivity.
    - rewrite map_app. cbn [map]. now rewrite kcode_kind_of.
    - rewrite map_app. cbn [map]. destruct (n2n (ckind_norm k)) as [|[|j]]; reflexivity.
  Qed.

  Lemma upd_cref : u_cref m e = map cref (conss s').
  Proof.
    pose proof upd_vw as V. apply (f_equal v_cref) in V. cbn [v_cref vw] in V. rewrite V. destruct HP.
    destruct Hd; cbn [u_cref v_cref vw vw_addref vw_rem vw_newcons vw_cancel]; rewrite ?rp_cref0; try reflexivity.
    unfold u_nref_before. now rewrite rp_in0.
  Qed.

  Lemma upd_ckind : u_ckind m e = map ckcode (map ck (conss s')).
  Proof.
    pose proof upd_vw as V. apply (f_equal v_ck) in V. cbn [v_ck vw] in V. rewrite V. destruct HP.
    destruct Hd; cbn [u_ckind v_ck vw vw_addref vw_rem vw_newcons vw_cancel]; rewrite ?rp_ckind0; try reflexivity.
    rewrite map_app. cbn [map]. now rewrite ckcode_norm.
  Qed.

  Lemma p_ncons : u_ncons p = length (conss s').
  Proof. unfold u_ncons, pobs_of. cbn [po_cons]. apply map_length. Qed.

  Lemma upd_raref : u_raref p = map ra_ref (relacts s').
  Proof.
    unfold u_raref, pobs_of. cbn [po_relacts]. rewrite map_map. apply map_ext. intros a. unfold racode2. cbn [snd]. apply n2n_nn.
  Qed.

  Lemma upd_ng : u_ng p = length (gs s') /\ po_gs p = map gcode (gs s').
  Proof. unfold u_ng, pobs_of. cbn [po_gs]. split; [apply map_length | reflexivity]. Qed.

  Lemma length_conss_mono : length (conss s) <= length (conss s').
  Proof.
    pose proof upd_vw as V. apply (f_equal v_ck) in V. cbn [v_ck vw] in V. apply (f_equal (@length ckind)) in V. rewrite map_length in V. rewrite V.
    destruct e0; cbn [v_ck vw vw_addref vw_rem vw_newcons vw_cancel]; rewrite ?app_length, ?map_length; lia.
  Qed.

  Lemma upd_ccanc : u_ccanc m e p = map ccanc (conss s').
  Proof.
    pose proof upd_vw as V. apply (f_equal v_ccanc) in V. cbn [v_ccanc vw] in V. unfold u_ccanc. rewrite p_ncons.
    pose proof length_conss_mono as Hmono. destruct HP. rewrite rp_ccanc0.
    apply (nth_ext _ _ false false).
    { rewrite map_length, combine_length, seq_length, padb_length, map_length; [apply Nat.min_id | now rewrite map_length]. }
    intros i Hi. rewrite map_length, combine_length, seq_length, padb_length, Nat.min_id in Hi by (now rewrite map_length).
    rewrite (ccanc_row (fun j => match e with [11; c] => Nat.eqb (n2n c) j | _ => false end)%N) by (rewrite ?map_length; assumption). rewrite V.
    destruct Hd; cbn [v_ccanc vw vw_addref vw_rem vw_newcons vw_cancel]; rewrite ?orb_false_r; try reflexivity.
    - (* a new consumer *) destruct (Nat.lt_ge_cases i (length (map ccanc (conss s)))) as [Hl|Hl].
      + now rewrite app_nth1.
      + rewrite app_nth2 by exact Hl. rewrite (nth_overflow _ _ Hl). destruct (i - _) as [|[|j]]; reflexivity.
    - (* the consumer's context is cancelled *)
      assert (Hc : n2n c < length (map ccanc (conss s))) by (rewrite map_length; eapply nth_error_nth_len; eauto).
      destruct (Nat.eqb_spec (n2n c) i) as [<-|Hne].
      + rewrite nth_set_nth_same by exact Hc. apply orb_true_r.
      + rewrite nth_set_nth_other by auto. apply orb_false_r.
  Qed.
End Upd.
