(* C09 - refcount: while there is a context and a reference, a resolver call is in progress or its latest result has
   been delivered to the target containers and to every reference callback (also those added later); released() drops
   the value and resolves afresh; the resolver never runs in two calls at once; AddRef / Release / SetContext never
   panic or deadlock.
   Statements only, about the gate-level model RefCount.Model (REPAIRED code), for ALL event lists.
   Liveness is stated as quiescence safety: [quiescent s] = no internal step is enabled (no resolve goroutine at its
   first gate or store gate, no blocked goroutine whose wake-up condition holds, no parked asynchronous released(), no
   Release parked before its removeRef section, no WaitWithReleased goroutine parked).  "Never deadlock": every API
   call is one total section of the model (the mutex is never held across a gate), so nothing can block a call. *)
From Util Require Import Common.Base Common.ListLemmas RefCount.Model RefCount.Proofs RefCount.ProofsC08 RefCount.ProofsC09.
From Util Require Import RefCount.Spec RefCount.ProofsMon RefCount.ProofsMon2 RefCount.ProofsMonThm RefCount.ProofsMonThm2.

(* the resolver is never running in two calls at once; even stronger, from entering the resolver to the end of the
   store section *)
Theorem c09_at_most_one_resolver : forall ku es, cnt in_resolver (gs (run repaired (init ku) es)) <= 1.
Proof. exact at_most_one_in_resolver. Qed.
Print Assumptions c09_at_most_one_resolver.

Theorem c09_at_most_one_between_enter_and_store : forall ku es, cnt busy (gs (run repaired (init ku) es)) <= 1.
Proof. exact at_most_one_busy. Qed.
Print Assumptions c09_at_most_one_between_enter_and_store.

(* a goroutine passes its first select only when every earlier goroutine has finished (closed its done channel) *)
Theorem c09_enter_only_after_all_earlier : forall ku es g x,
  let s := run repaired (init ku) es in
  nth_error (gs s) g = Some x -> act x = true -> forall j y, j < g -> nth_error (gs s) j = Some y -> gdone y = true.
Proof. exact enter_only_after_all_earlier. Qed.
Print Assumptions c09_enter_only_after_all_earlier.

(* the pinned code before the D10 repair: two resolver calls overlap *)
Theorem c09_pinned_d10_refuted : cnt in_resolver (gs (run pinned_d10 (init false) d10_witness)) = 2.
Proof. exact d10_refuted. Qed.

(* progress: in a quiescent state with a context and a reference, a resolver call is in progress, or the latest
   result (value or error) is in the target containers and was the last notification of every reference callback.
   "Has a context" is read as: a context is installed and its owner has not cancelled it ([rcanc]).  With a root context
   that was cancelled but not cleared, resolve() may take the ctx.Done branch of its first select, wait for its
   predecessor and return WITHOUT calling the resolver: then nothing is delivered and nothing runs (example below);
   the property is not claimed for that situation. *)
Theorem c09_progress : forall ku es, Forall wf_ev es ->
  let s := run repaired (init ku) es in
  quiescent s = true -> kctx s <> 0 -> rcanc s (kctx s) = false -> nrefs s > 0 ->
  (exists g, g < length (gs s) /\ in_resolver (getg s g) = true) \/
  (resolved s = true /\
   (verr s = 0 -> target s = value s /\ terr s = 0) /\ (verr s <> 0 -> terr s = verr s) /\
   (forall r x, nth_error (refs s) r = Some x -> rin x = true -> rkind x <> KNil -> rlast x = Some (NRes (value s) (verr s)))).
Proof. intros ku es Hwf. exact (progress _ (run_inv ku es Hwf) (run_chain ku es)). Qed.
Print Assumptions c09_progress.

(* there is always a goroutine of the current generation on its way while context + reference + nothing resolved *)
Theorem c09_current_goroutine_exists : forall ku es, Forall wf_ev es ->
  let s := run repaired (init ku) es in
  kctx s <> 0 -> nrefs s > 0 -> resolved s = false -> rcanc s (kctx s) = false ->
  exists g, g < length (gs s) /\ gnonce (getg s g) = nonce s /\ gdone (getg s g) = false.
Proof. intros ku es Hwf. destruct (run_inv ku es Hwf) as [_ [_ [_ [P _]]]]. exact P. Qed.
Print Assumptions c09_current_goroutine_exists.

(* delivery, in every reachable state (not only quiescent ones): a stored result is in the target containers and is the
   last notification of every reference in the set with a callback - this covers references added later *)
Theorem c09_delivered_when_resolved : forall ku es, Forall wf_ev es ->
  let s := run repaired (init ku) es in
  resolved s = true -> delivered s.
Proof. intros ku es Hwf. exact (delivered_when_resolved _ (run_inv ku es Hwf)). Qed.
Print Assumptions c09_delivered_when_resolved.

(* released() of the stored generation: the value is dropped (containers cleared, release function called or none) and,
   with a context and a reference, a fresh resolve goroutine of a new generation is started *)
Theorem c09_released_restarts : forall ku es, Forall wf_ev es ->
  let s := run repaired (init ku) es in
  let s' := released_section s (nonce s) in
  resolved s' = false /\ target s' = 0 /\ terr s' = 0 /\ vrel s' = None /\
  (kctx s <> 0 -> nrefs s > 0 ->
   length (gs s') = S (length (gs s)) /\ gnonce (getg s' (length (gs s))) = nonce s' /\ gpcv (getg s' (length (gs s))) = GGate0 /\
   nonce s' = S (nonce s)).
Proof. intros ku es Hwf. exact (released_restarts _ (run_inv ku es Hwf)). Qed.
Theorem c09_released_of_stored_generation_fires : forall ku es, Forall wf_ev es ->
  let s := run repaired (init ku) es in
  resolved s = true -> step repaired s (EReleased (vgen s)) = released_section s (nonce s).
Proof. intros ku es Hwf. exact (released_of_stored_generation_fires _ (run_inv ku es Hwf)). Qed.
Print Assumptions c09_released_restarts.
Print Assumptions c09_released_of_stored_generation_fires.

(* AddRef (also with a nil callback), Release and SetContext never panic *)
Theorem c09_api_total : forall ku es, panicked (run repaired (init ku) es) = false.
Proof. exact never_panics. Qed.
Print Assumptions c09_api_total.

(* the pinned code before the D9 repair: AddRef(nil) on a resolved container calls the nil callback *)
Theorem c09_pinned_d9_refuted : panicked (run pinned_d9 (init false) d9_witness) = true.
Proof. exact d9_refuted. Qed.

(* ---- non-vacuity ---- *)
Example c09_example_delivered :
  let es := [ESetCtx 1; EAddRef 1; EProceed 0 true; EResReturn 0 1 false 0; EStore 0; EAddRef 1; EAddRef 0] in
  let s := run repaired (init false) es in
  Forall wf_ev es /\ quiescent s = true /\ kctx s <> 0 /\ nrefs s = 3 /\ resolved s = true /\ target s = 1 /\
  map rlast (refs s) = [Some (NRes 1 0); Some (NRes 1 0); None] /\ panicked s = false.
Proof. split; [repeat constructor; discriminate | vm_compute; repeat split; try reflexivity; discriminate]. Qed.

Example c09_example_in_progress :
  let s := run repaired (init false) [ESetCtx 1; EAddRef 1; EProceed 0 true] in
  quiescent s = true /\ in_resolver (getg s 0) = true /\ resolved s = false.
Proof. vm_compute. repeat split; reflexivity. Qed.

Example c09_example_error_delivered :
  let s := run repaired (init false) [ESetCtx 1; EAddRef 1; EProceed 0 true; EResReturn 0 1 false 5; EStore 0] in
  quiescent s = true /\ resolved s = true /\ target s = 0 /\ terr s = 5 /\ map rlast (refs s) = [Some (NRes 1 5)].
Proof. vm_compute. repeat split; reflexivity. Qed.

(* a failing resolver that returns the empty value with its error (`return zero, nil, err`): the error is delivered to the
   error container and, as (true, 0, err), to every reference callback, also to one added later; released() tells them
   "gone", clears the error container and resolves afresh *)
Example c09_example_error_empty_delivered :
  let es := [ESetCtx 1; EAddRef 1; EProceed 0 true; EResReturn 0 0 false 5; EStore 0; EAddRef 1] in
  let s := run repaired (init false) es in
  quiescent s = true /\ resolved s = true /\ value s = 0 /\ target s = 0 /\ terr s = 5 /\
  map rlast (refs s) = [Some (NRes 0 5); Some (NRes 0 5)] /\
  let s' := step repaired s (EReleased 0) in
  resolved s' = false /\ terr s' = 0 /\ map rlast (refs s') = [Some NGone; Some NGone] /\ length (gs s') = 2.
Proof. vm_compute. repeat split; reflexivity. Qed.

Example c09_example_released_restarts :
  let s := run repaired (init false) [ESetCtx 1; EAddRef 1; EProceed 0 true; EResReturn 0 1 true 0; EStore 0; EReleased 0] in
  resolved s = false /\ target s = 0 /\ length (gs s) = 2 /\ map rlast (refs s) = [Some NGone].
Proof. vm_compute. repeat split; reflexivity. Qed.

(* the root context is cancelled by its owner (not cleared): a goroutine queued behind a running resolver call may give up
   without resolving - context installed, reference present, nothing running, nothing delivered *)
Example c09_example_cancelled_root_no_progress :
  let es := [ESetCtx 1; EAddRef 1; EProceed 0 true; EReleased 0; ECancelRoot 1; EProceed 1 false; EResReturn 0 1 false 0; EStore 0;
             EProceed 1 false] in
  let s := run repaired (init false) es in
  Forall wf_ev es /\ quiescent s = true /\ kctx s = 1 /\ nrefs s = 1 /\ resolved s = false /\ rcanc s 1 = true /\
  map gdone (gs s) = [true; true].
Proof. split; [repeat constructor; discriminate | vm_compute; repeat split; reflexivity]. Qed.

(* ---- the monitors that are evaluated on the implementation's traces, tied to this model ----
   THE FULL STATEMENT.  For EVERY configuration the codec accepts and EVERY list of harness events: on the observations the model
   itself produces (eager schedule of Spec.hstep; the run stops at the first event the model does not accept) the monitors
   [Spec.mon] - ALL clauses of C08, C09 and C10, nothing filtered - report nothing; in particular the clauses 9.1 (one resolver call at a time), 9.2 (AddRef never panics), 9.3 (in progress or delivered at rest), 9.4 and 9.5 (released() restarts)
   (and the model's observations always parse).  So these monitors cannot raise an alarm on an implementation that behaves like
   the model, and the model satisfies the property in exactly the form the checks evaluate it.  (In the constant-value
   configuration [k; 1] Spec.mon judges only the Access clauses of C10.) *)
Theorem c09_model_satisfies_monitors : forall cfg evs,
  monitor mon 0 (minit cfg) [] evs (run_obs step_opt (hinit cfg) evs) = [].
Proof. exact model_satisfies_monitors. Qed.
Print Assumptions c09_model_satisfies_monitors.

(* hence the extracted checker [run_check_refcount] reports nothing at all on any history that the model accepts completely *)
Theorem c09_model_run_check_clean : forall cfg evs,
  length (run_obs step_opt (hinit cfg) evs) = length evs ->
  run_check_refcount cfg evs (run_obs step_opt (hinit cfg) evs) = [].
Proof. exact model_run_check_clean. Qed.
Print Assumptions c09_model_run_check_clean.

(* the clause-wise corollary (kept: the partial statement the full one supersedes) *)
Theorem c09_model_satisfies_monitors_clauses : forall cfg evs,
  monitor (mon_only proved) 0 (minit cfg) [] evs (run_obs step_opt (hinit cfg) evs) = [].
Proof. exact model_satisfies_monitors_clauses. Qed.
Print Assumptions c09_model_satisfies_monitors_clauses.
