(* refcount: frame facts, the done-channel chain invariant and "never two resolver calls" (C09), for every event list. *)
From Util Require Import Common.Base Common.ListLemmas RefCount.Model.

(* ------------------------------------------------------------------ *)
(* small list facts *)
Lemma map_set_nth {A B} (f : A -> B) (l : list A) k v : map f (set_nth l k v) = set_nth (map f l) k (f v).
Proof. revert k; induction l as [|h t IH]; intros [|k]; simpl; auto. now rewrite IH. Qed.

Lemma set_nth_same_val {A} (l : list A) k x : nth_error l k = Some x -> set_nth l k x = l.
Proof. revert k; induction l as [|h t IH]; intros [|k] H; simpl in *; try discriminate; [congruence|]. now rewrite IH. Qed.

Lemma nth_error_map_some {A B} (f : A -> B) (l : list A) k x : nth_error l k = Some x -> nth_error (map f l) k = Some (f x).
Proof. intros H. now apply map_nth_error. Qed.

Lemma cnt_map {A B} (f : A -> B) (P : B -> bool) (l : list A) : cnt P (map f l) = cnt (fun x => P (f x)) l.
Proof. induction l as [|h t IH]; [reflexivity|]. simpl map. rewrite !cnt_cons, IH. reflexivity. Qed.

Lemma cnt_ext {A} (P Q : A -> bool) l : (forall x, In x l -> P x = Q x) -> cnt P l = cnt Q l.
Proof.
  induction l as [|h t IH]; intros H; [reflexivity|]. rewrite !cnt_cons, (H h (or_introl eq_refl)), IH; [reflexivity|].
  intros x Hx. apply H. now right.
Qed.

Lemma nth_error_nth_d {A} (l : list A) k d x : nth_error l k = Some x -> nth k l d = x.
Proof. intros H. now apply nth_error_nth. Qed.

Lemma nth_error_snoc_last {A} (l : list A) x : nth_error (l ++ [x]) (length l) = Some x.
Proof. rewrite nth_error_app2 by lia. now rewrite Nat.sub_diag. Qed.

Lemma nth_error_snoc_cases {A} (l : list A) y a x :
  nth_error (l ++ [y]) a = Some x -> (a < length l /\ nth_error l a = Some x) \/ (a = length l /\ x = y).
Proof.
  intros H. destruct (Nat.lt_ge_cases a (length l)) as [Hl|Hl].
  - left. split; [exact Hl|]. now rewrite nth_error_app1 in H.
  - right. rewrite nth_error_app2 in H by lia. destruct (a - length l) as [|k] eqn:E; simpl in H.
    + split; [lia | congruence].
    + destruct k; discriminate.
Qed.

(* ------------------------------------------------------------------ *)
(* frame: everything a reference callback cannot touch, as one tuple *)
Definition rest (s : st) :=
  (kctx s, keep s, rcancel s, nonce s, waitch s, (resolved s, value s, verr s, vrel s, vgen s), (target s, terr s),
   gs s, rellog s, relacts s, panicked s, rootc s).

Lemma rest_fields s s' : rest s' = rest s ->
  kctx s' = kctx s /\ keep s' = keep s /\ rcancel s' = rcancel s /\ nonce s' = nonce s /\ waitch s' = waitch s /\
  resolved s' = resolved s /\ value s' = value s /\ verr s' = verr s /\ vrel s' = vrel s /\ vgen s' = vgen s /\
  target s' = target s /\ terr s' = terr s /\ gs s' = gs s /\ rellog s' = rellog s /\ relacts s' = relacts s /\
  panicked s' = panicked s /\ rootc s' = rootc s.
Proof. unfold rest. intros H. inversion H. repeat split; reflexivity || assumption. Qed.

Ltac frame := intros; reflexivity.
Lemma rest_set_refs s x : rest (set_refs s x) = rest s. Proof. frame. Qed.
Lemma rest_set_asyncs s x : rest (set_asyncs s x) = rest s. Proof. frame. Qed.
Lemma rest_set_conss s x : rest (set_conss s x) = rest s. Proof. frame. Qed.
Lemma rest_setc s c x : rest (setc s c x) = rest s. Proof. frame. Qed.
Lemma refs_setc s c x : refs (setc s c x) = refs s. Proof. frame. Qed.
Lemma refs_set_asyncs s x : refs (set_asyncs s x) = refs s. Proof. frame. Qed.
Lemma gs_setg s g x : gs (setg s g x) = set_nth (gs s) g x. Proof. frame. Qed.
Lemma conss_setc s c x : conss (setc s c x) = set_nth (conss s) c x. Proof. frame. Qed.

Lemma rest_set_last s r n : rest (set_last s r n) = rest s.
Proof. unfold set_last. destruct (nth_error (refs s) r); reflexivity. Qed.

(* what the references look like to everything but their callbacks: membership and kind *)
Definition rview (l : list ref) : list bool * list cbkind := (map rin l, map rkind l).

Lemma rview_set_nth l r x y :
  nth_error l r = Some x -> rin y = rin x -> rkind y = rkind x -> rview (set_nth l r y) = rview l.
Proof.
  intros Hx H1 H2. unfold rview. rewrite !map_set_nth, H1, H2.
  rewrite (set_nth_same_val (map rin l) r (rin x)) by (now apply nth_error_map_some).
  rewrite (set_nth_same_val (map rkind l) r (rkind x)) by (now apply nth_error_map_some). reflexivity.
Qed.

Lemma rview_set_last s r n : rview (refs (set_last s r n)) = rview (refs s).
Proof.
  unfold set_last. destruct (nth_error (refs s) r) as [x|] eqn:E; [|reflexivity].
  cbn [refs set_refs]. now apply (rview_set_nth (refs s) r x).
Qed.

Lemma set_last_refs s r n x :
  nth_error (refs s) r = Some x ->
  refs (set_last s r n) = set_nth (refs s) r {| rin := rin x; rflag := rflag x; rkind := rkind x; rlast := Some n |}.
Proof. intros H. unfold set_last. rewrite H. reflexivity. Qed.

Lemma rest_invoke s r n : rest (invoke s r n) = rest s.
Proof.
  unfold invoke. destruct (nth_error (refs s) r) as [x|]; [|reflexivity].
  destruct (rkind x) as [| | |c|c|c]; [reflexivity | apply rest_set_last | | | |].
  - destruct n; [apply rest_set_last|]. rewrite rest_set_asyncs. apply rest_set_last.
  - rewrite rest_setc. apply rest_set_last.
  - destruct (cb_wwr (getc (set_last s r n) c) n (nonce (set_last s r n))) as [y fired].
    destruct fired; [destruct (rflag x)|]; rewrite rest_setc; try rewrite rest_set_refs; apply rest_set_last.
  - rewrite rest_setc. apply rest_set_last.
Qed.

Lemma rview_invoke s r n : rview (refs (invoke s r n)) = rview (refs s).
Proof.
  unfold invoke. destruct (nth_error (refs s) r) as [x|] eqn:E; [|reflexivity].
  destruct (rkind x) as [| | |c|c|c] eqn:K; [reflexivity | apply rview_set_last | | | |].
  - destruct n; [apply rview_set_last|]. rewrite refs_set_asyncs. apply rview_set_last.
  - rewrite refs_setc. apply rview_set_last.
  - destruct (cb_wwr (getc (set_last s r n) c) n (nonce (set_last s r n))) as [y fired].
    destruct fired; [destruct (rflag x)|]; rewrite refs_setc; try apply rview_set_last.
    cbn [refs set_refs]. rewrite (set_last_refs s r n x E).
    rewrite <- (rview_set_last s r n), (set_last_refs s r n x E).
    assert (Hl : r < length (refs s)) by (eapply nth_error_nth_len; eauto).
    apply (rview_set_nth _ r {| rin := rin x; rflag := rflag x; rkind := rkind x; rlast := Some n |}).
    + now apply nth_error_set_nth_same.
    + reflexivity.
    + cbn [rkind]. now rewrite K.
  - rewrite refs_setc. apply rview_set_last.
Qed.

Lemma rview_length l l' : rview l' = rview l -> length l' = length l.
Proof. unfold rview. intros H. inversion H as [[H1 H2]]. rewrite <- (map_length rin l'), H1. apply map_length. Qed.

Lemma rview_nth l l' r : rview l' = rview l -> rin (nth r l' ref0) = rin (nth r l ref0) /\ rkind (nth r l' ref0) = rkind (nth r l ref0).
Proof.
  unfold rview. intros H. inversion H as [[H1 H2]].
  change (rin ref0) with (rin ref0). rewrite <- !(map_nth rin), <- !(map_nth rkind), H1, H2. auto.
Qed.

Lemma rview_nrefs l l' : rview l' = rview l -> cnt rin l' = cnt rin l.
Proof.
  unfold rview. intros H. inversion H as [[H1 H2]].
  assert (E : forall m, cnt rin m = cnt (fun b : bool => b) (map rin m)) by (intros m; rewrite cnt_map; reflexivity).
  rewrite (E l'), (E l), H1. reflexivity.
Qed.

Definition cbs_fold (n : notif) (s : st) (r : nat) : st := if rin (nth r (refs s) ref0) then invoke s r n else s.

Lemma call_cbs_fold s n : call_cbs s n = fold_left (cbs_fold n) (seq 0 (length (refs s))) s.
Proof. reflexivity. Qed.

Lemma cbs_fold_frame n rs : forall s, rest (fold_left (cbs_fold n) rs s) = rest s /\ rview (refs (fold_left (cbs_fold n) rs s)) = rview (refs s).
Proof.
  induction rs as [|r rs IH]; intros s; [split; reflexivity|]. cbn [fold_left].
  destruct (IH (cbs_fold n s r)) as [H1 H2]. rewrite H1, H2. unfold cbs_fold.
  destruct (rin (nth r (refs s) ref0)); [|split; reflexivity]. split; [apply rest_invoke | apply rview_invoke].
Qed.

Lemma rest_call_cbs s n : rest (call_cbs s n) = rest s.
Proof. rewrite call_cbs_fold. apply cbs_fold_frame. Qed.
Lemma rview_call_cbs s n : rview (refs (call_cbs s n)) = rview (refs s).
Proof. rewrite call_cbs_fold. apply cbs_fold_frame. Qed.

(* ------------------------------------------------------------------ *)
(* The chain of done channels (C09: never two resolver calls).  It speaks about the goroutine list only. *)
Definition pred_idx (i : nat) : option nat := match i with 0 => None | S j => Some j end.

(* past the first select: inside the resolver, before the store section, or finished *)
Definition act (x : gor) : bool := match gpcv x with GInRes | GStore _ _ _ | GDone => true | _ => false end.

Definition gor_ok (l : list gor) (i : nat) (x : gor) : Prop :=
  gwait x = pred_idx i /\ (act x = true -> forall j y, j < i -> nth_error l j = Some y -> gdone y = true).

Definition InvG (l : list gor) : Prop := forall i x, nth_error l i = Some x -> gor_ok l i x.

Lemma InvG_nil : InvG []. Proof. intros [|i] x H; discriminate. Qed.

Lemma InvG_update l i x x' :
  InvG l -> nth_error l i = Some x ->
  gwait x' = gwait x -> (gdone x = true -> gdone x' = true) ->
  (act x' = true -> forall j y, j < i -> nth_error l j = Some y -> gdone y = true) ->
  InvG (set_nth l i x').
Proof.
  intros HI Hx Hw Hmono Hmine k y Hk.
  assert (Hil : i < length l) by (eapply nth_error_nth_len; eauto).
  destruct (Nat.eq_dec k i) as [->|Hne].
  - rewrite nth_error_set_nth_same in Hk by exact Hil. inversion Hk; subst y.
    destruct (HI i x Hx) as [H1 H3]. split; [congruence|].
    intros Ho j z Hj Hz. rewrite nth_error_set_nth_other in Hz by lia. exact (Hmine Ho j z Hj Hz).
  - rewrite nth_error_set_nth_other in Hk by exact Hne.
    destruct (HI k y Hk) as [H1 H3]. split; [exact H1|].
    intros Ho j z Hj Hz. destruct (Nat.eq_dec j i) as [->|Hji].
    + rewrite nth_error_set_nth_same in Hz by exact Hil. inversion Hz; subst z.
      apply Hmono. exact (H3 Ho i x Hj Hx).
    + rewrite nth_error_set_nth_other in Hz by exact Hji. exact (H3 Ho j z Hj Hz).
Qed.

Lemma InvG_update_same_pc l i x x' :
  InvG l -> nth_error l i = Some x -> gwait x' = gwait x -> gpcv x' = gpcv x -> InvG (set_nth l i x').
Proof.
  intros HI Hx Hw Hp. destruct (HI i x Hx) as [H1 H3].
  apply (InvG_update l i x x' HI Hx Hw).
  - unfold gdone. now rewrite Hp.
  - unfold act. rewrite Hp. exact H3.
Qed.

Lemma InvG_app l x : InvG l -> gwait x = pred_idx (length l) -> gpcv x = GGate0 -> InvG (l ++ [x]).
Proof.
  intros HI Hw Hp k y Hk. destruct (nth_error_snoc_cases l x k y Hk) as [[Hl Hy]|[-> ->]].
  - destruct (HI k y Hy) as [H1 H3]. split; [exact H1|]. intros Ho j z Hj Hz.
    rewrite nth_error_app1 in Hz by lia. exact (H3 Ho j z Hj Hz).
  - split; [exact Hw|]. unfold act. rewrite Hp. discriminate.
Qed.

Lemma InvG_pred_done_all_done l i x :
  InvG l -> nth_error l i = Some x ->
  (match gwait x with Some j => gdone (nth j l gor0) | None => true end) = true ->
  forall j y, j < i -> nth_error l j = Some y -> gdone y = true.
Proof.
  intros HI Hx Hc j y Hj Hy. destruct (HI i x Hx) as [H1 _]. rewrite H1 in Hc.
  destruct i as [|p]; [lia|]. cbn [pred_idx] in Hc.
  assert (Hp : p < length l) by (apply nth_error_nth_len in Hx; lia).
  destruct (nth_error l p) as [z|] eqn:Ez; [|apply nth_error_None in Ez; lia].
  rewrite (nth_error_nth l p gor0 Ez) in Hc.
  destruct (Nat.eq_dec j p) as [->|Hne]; [congruence|].
  destruct (HI p z Ez) as [_ G3]. apply (G3 ltac:(unfold act; unfold gdone in Hc; destruct (gpcv z); auto; discriminate) j y); [lia | exact Hy].
Qed.

Lemma at_most_one_by_order {A} (P : A -> bool) (l : list A) :
  (forall i j x y, i < j -> nth_error l i = Some x -> nth_error l j = Some y -> P x = true -> P y = true -> False) ->
  cnt P l <= 1.
Proof.
  induction l as [|h t IH]; intros H; [unfold cnt; simpl; lia|].
  rewrite cnt_cons. destruct (P h) eqn:Eh; simpl.
  - assert (cnt P t = 0); [|lia]. apply cnt_zero_forall. intros a Ha.
    destruct (In_nth_error _ _ Ha) as [k Hk]. destruct (P a) eqn:Ea; [|reflexivity].
    exfalso. apply (H 0 (S k) h a); simpl; auto; lia.
  - apply IH. intros i j x y Hij Hx Hy. apply (H (S i) (S j) x y); simpl; auto; lia.
Qed.

(* between entering the resolver and the end of the store section *)
Definition busy (x : gor) : bool := match gpcv x with GInRes | GStore _ _ _ => true | _ => false end.

Lemma InvG_at_most_one_busy l : InvG l -> cnt busy l <= 1.
Proof.
  intros HI. apply at_most_one_by_order. intros i j x y Hij Hx Hy Px Py.
  destruct (HI j y Hy) as [_ H3].
  assert (Ha : act y = true) by (unfold act; unfold busy in Py; destruct (gpcv y); auto).
  specialize (H3 Ha i x Hij Hx). unfold gdone in H3. unfold busy in Px. destruct (gpcv x); discriminate.
Qed.

Lemma InvG_at_most_one_in_resolver l : InvG l -> cnt in_resolver l <= 1.
Proof.
  intros HI. apply (Nat.le_trans _ (cnt busy l)); [|now apply InvG_at_most_one_busy].
  apply cnt_le. intros x. unfold in_resolver, busy. destruct (gpcv x); auto.
Qed.

(* ---- the chain part of the state invariant ---- *)
Definition InvW (s : st) : Prop := waitch s = pred_idx (length (gs s)).
Definition InvCh (s : st) : Prop := InvG (gs s) /\ InvW s.

Lemma InvCh_ext s s' : gs s' = gs s -> waitch s' = waitch s -> InvCh s -> InvCh s'.
Proof. intros E1 E2 [H1 H2]. unfold InvCh, InvW in *. rewrite E1, E2. auto. Qed.

Lemma InvCh_rest s s' : rest s' = rest s -> InvCh s -> InvCh s'.
Proof.
  intros R. destruct (rest_fields s s' R) as [_ [_ [_ [_ [Ew [_ [_ [_ [_ [_ [_ [_ [Eg _]]]]]]]]]]]]].
  now apply InvCh_ext.
Qed.

Lemma InvCh_setg s g x' : InvCh s -> InvG (set_nth (gs s) g x') -> InvCh (setg s g x').
Proof. intros [H1 H2] H. unfold InvCh, InvW in *. rewrite gs_setg, length_set_nth. cbn [waitch setg set_gs]. auto. Qed.

Lemma cancel_g_chain s og : InvCh s -> InvCh (cancel_g s og).
Proof.
  intros H. unfold cancel_g. destruct og as [g|]; [|exact H].
  destruct (nth_error (gs s) g) as [x|] eqn:E; [|exact H].
  apply InvCh_setg; [exact H|]. destruct H as [HI _]. now apply (InvG_update_same_pc (gs s) g x).
Qed.

Lemma clear_resolved_chain s : InvCh s -> InvCh (clear_resolved s).
Proof.
  intros H. unfold clear_resolved.
  set (s1 := if resolved s then _ else s).
  assert (H1 : InvCh s1).
  { unfold s1. destruct (resolved s); [|exact H]. apply (InvCh_rest _ _ (rest_call_cbs _ _)). apply (InvCh_ext s); auto. }
  set (s2 := set_rcancel (cancel_g s1 (rcancel s1)) None).
  assert (H2 : InvCh s2) by (apply (InvCh_ext (cancel_g s1 (rcancel s1))); auto; now apply cancel_g_chain).
  destruct (vrel s2); [|exact H2]. apply (InvCh_ext s2); auto.
Qed.

Lemma shutdown_chain s : InvCh s -> InvCh (shutdown s).
Proof. intros H. unfold shutdown. apply clear_resolved_chain. apply (InvCh_ext s); auto. Qed.

Lemma start_resolve_chain s : InvCh s -> InvCh (start_resolve s).
Proof.
  intros H. unfold start_resolve. pose proof (shutdown_chain s H) as H1. set (s1 := shutdown s) in *.
  destruct (Nat.eqb (kctx s1) 0 || Nat.eqb (nrefs s1) 0); [exact H1|].
  destruct H1 as [HI HW]. unfold InvCh, InvW in *. cbn [gs waitch set_rcancel set_waitch set_gs]. split.
  - apply InvG_app; [exact HI | exact HW | reflexivity].
  - rewrite app_length. cbn [length]. now rewrite Nat.add_1_r.
Qed.

(* cancelling a root context is a series of cancellations of resolve contexts *)
Lemma cancel_root_ind (P : st -> Prop) s c :
  (forall s0 og, P s0 -> P (cancel_g s0 og)) -> P (set_rootc s (c :: rootc s)) -> P (cancel_root s c).
Proof.
  intros Hc H0. unfold cancel_root. generalize (seq 0 (length (gs s))). intros l. revert H0. generalize (set_rootc s (c :: rootc s)).
  induction l as [|g l IH]; intros s0 H0; [exact H0|]. cbn [fold_left]. apply IH.
  destruct (Nat.eqb (groot (getg s0 g)) c); [now apply Hc | exact H0].
Qed.

Lemma cancel_root_frame s c :
  refs (cancel_root s c) = refs s /\ relacts (cancel_root s c) = relacts s /\ conss (cancel_root s c) = conss s /\
  rellog (cancel_root s c) = rellog s /\ panicked (cancel_root s c) = panicked s /\ resolved (cancel_root s c) = resolved s /\
  value (cancel_root s c) = value s /\ verr (cancel_root s c) = verr s.
Proof.
  apply (cancel_root_ind (fun s0 => refs s0 = refs s /\ relacts s0 = relacts s /\ conss s0 = conss s /\ rellog s0 = rellog s /\
                                    panicked s0 = panicked s /\ resolved s0 = resolved s /\ value s0 = value s /\ verr s0 = verr s)).
  - intros s0 og H. unfold cancel_g. destruct og as [g|]; [|exact H]. destruct (nth_error (gs s0) g); exact H.
  - repeat split; reflexivity.
Qed.

Lemma cancel_root_chain s c : InvCh s -> InvCh (cancel_root s c).
Proof. intros H. apply cancel_root_ind; [intros s0 og; apply cancel_g_chain | apply (InvCh_ext s); auto]. Qed.

Lemma set_context_chain s c : InvCh s -> InvCh (fst (set_context s c)).
Proof.
  intros H. unfold set_context. destruct (Nat.eqb (kctx s) c); [exact H|]. cbn [fst].
  apply start_resolve_chain. apply (InvCh_ext s); auto.
Qed.

Lemma add_ref_chain fx s k : InvCh s -> InvCh (add_ref fx s k).
Proof.
  intros H. unfold add_ref. set (s1 := set_refs s _).
  assert (H1 : InvCh s1) by (apply (InvCh_ext s); auto).
  destruct (Nat.eqb (nrefs s1) 1 && negb (resolved s1)); [now apply start_resolve_chain|].
  destruct (resolved s1); [|exact H1].
  destruct k; try (apply (InvCh_rest _ _ (rest_invoke _ _ _)); exact H1).
  destruct (fx_nilcb fx); [exact H1|]. apply (InvCh_ext s1); auto.
Qed.

Lemma remove_ref_chain s r : InvCh s -> InvCh (remove_ref s r).
Proof.
  intros H. unfold remove_ref. destruct (nth_error (refs s) r) as [x|]; [|exact H].
  destruct (rin x); [|exact H]. set (s1 := set_refs s _).
  assert (H1 : InvCh s1) by (apply (InvCh_ext s); auto).
  destruct (Nat.eqb (nrefs s1) 0 && _); [now apply shutdown_chain | exact H1].
Qed.

Lemma released_section_chain s n : InvCh s -> InvCh (released_section s n).
Proof. intros H. unfold released_section. destruct (Nat.eqb (nonce s) n); [now apply start_resolve_chain | exact H]. Qed.

(* goroutine steps *)
Lemma chain_enter s g x :
  InvCh s -> nth_error (gs s) g = Some x -> gdone x = false -> pred_done s x = true -> InvCh (setg s g (with_gpc x GInRes)).
Proof.
  intros H Hx Hnd Hp. apply InvCh_setg; [exact H|]. destruct H as [HI _].
  apply (InvG_update (gs s) g x _ HI Hx).
  - reflexivity.
  - rewrite Hnd. discriminate.
  - intros _. exact (InvG_pred_done_all_done (gs s) g x HI Hx Hp).
Qed.

Lemma chain_skip s g x :
  InvCh s -> nth_error (gs s) g = Some x -> pred_done s x = true -> InvCh (setg s g (with_gpc x GDone)).
Proof.
  intros H Hx Hp. apply InvCh_setg; [exact H|]. destruct H as [HI _].
  apply (InvG_update (gs s) g x _ HI Hx).
  - reflexivity.
  - reflexivity.
  - intros _. exact (InvG_pred_done_all_done (gs s) g x HI Hx Hp).
Qed.

Lemma chain_block s g x p :
  InvCh s -> nth_error (gs s) g = Some x -> gdone x = false -> (p = GWait \/ p = GWaitC) -> InvCh (setg s g (with_gpc x p)).
Proof.
  intros H Hx Hnd Hp. apply InvCh_setg; [exact H|]. destruct H as [HI _].
  apply (InvG_update (gs s) g x _ HI Hx).
  - reflexivity.
  - rewrite Hnd. discriminate.
  - destruct Hp as [-> | ->]; cbn; discriminate.
Qed.

Lemma pred_done_none s x : gwait x = None -> pred_done s x = true.
Proof. unfold pred_done. now intros ->. Qed.

Lemma proceed_go_chain s g x (en : bool) :
  InvCh s -> nth_error (gs s) g = Some x -> gdone x = false ->
  InvCh (match gwait x with
         | None => setg s g (with_gpc x GInRes)
         | Some _ =>
           if pred_done s x && gcanc x then (if en then setg s g (with_gpc x GInRes) else setg s g (with_gpc x GDone))
           else if pred_done s x then setg s g (with_gpc x GInRes)
           else if gcanc x then (if fx_wait repaired then setg s g (with_gpc x GWaitC) else setg s g (with_gpc x GDone))
           else setg s g (with_gpc x GWait)
         end).
Proof.
  intros H Hx Hnd. destruct (gwait x) as [j|] eqn:Ew.
  - destruct (pred_done s x) eqn:Ec; cbn [andb].
    + destruct (gcanc x); [destruct en|]; try (now apply chain_enter); now apply chain_skip.
    + destruct (gcanc x); cbn [fx_wait repaired]; apply chain_block; auto.
  - apply chain_enter; auto using pred_done_none.
Qed.

Lemma proceed_chain s g en : InvCh s -> InvCh (proceed repaired s g en).
Proof.
  intros H. unfold proceed. destruct (nth_error (gs s) g) as [x|] eqn:Ex; [|exact H].
  destruct (gpcv x) eqn:Ep; try exact H.
  - apply proceed_go_chain; auto. unfold gdone. now rewrite Ep.
  - destruct (pred_done s x || gcanc x); [|exact H]. apply proceed_go_chain; auto. unfold gdone. now rewrite Ep.
  - destruct (pred_done s x) eqn:Ec; [now apply chain_skip | exact H].
Qed.

Lemma resolver_return_chain s g v hr e : InvCh s -> InvCh (resolver_return s g v hr e).
Proof.
  intros H. unfold resolver_return. destruct (nth_error (gs s) g) as [x|] eqn:Ex; [|exact H].
  destruct (gpcv x) eqn:Ep; try exact H.
  apply InvCh_setg; [exact H|]. destruct H as [HI _]. destruct (HI g x Ex) as [_ E3].
  apply (InvG_update (gs s) g x _ HI Ex).
  - reflexivity.
  - unfold gdone. rewrite Ep. discriminate.
  - intros _. apply E3. unfold act. now rewrite Ep.
Qed.

Lemma chain_finish s g x v hr e :
  InvCh s -> nth_error (gs s) g = Some x -> gpcv x = GStore v hr e -> InvCh (setg s g (with_gpc x GDone)).
Proof.
  intros H Hx Hp. apply InvCh_setg; [exact H|]. destruct H as [HI _]. destruct (HI g x Hx) as [_ E3].
  apply (InvG_update (gs s) g x _ HI Hx).
  - reflexivity.
  - reflexivity.
  - intros _. apply E3. unfold act. now rewrite Hp.
Qed.

Lemma store_chain s g : InvCh s -> InvCh (store s g).
Proof.
  intros H. unfold store. destruct (nth_error (gs s) g) as [x|] eqn:Ex; [|exact H].
  destruct (gpcv x) eqn:Ep; try exact H.
  pose proof (chain_finish s g x v hasrel e H Ex Ep) as H0. set (s0 := setg s g (with_gpc x GDone)) in *.
  destruct (negb (Nat.eqb (nonce s0) (gnonce x))).
  - destruct hasrel; [|exact H0]. apply (InvCh_ext s0); auto.
  - apply (InvCh_rest _ _ (rest_call_cbs _ _)).
    destruct (Nat.eqb e 0); apply (InvCh_ext s0); auto.
Qed.

Lemma release_call_by_chain s r oc : InvCh s -> InvCh (fst (release_call_by s r oc)).
Proof.
  intros H. unfold release_call_by. destruct (nth_error (refs s) r) as [x|]; [|exact H].
  destruct (rflag x); [exact H|]. apply (InvCh_ext s); auto.
Qed.

Lemma release_section_chain s a : InvCh s -> InvCh (release_section s a).
Proof.
  intros H. unfold release_section. destruct (nth_error (relacts s) a) as [x|]; [|exact H].
  destruct (ra_pc x); [|exact H].
  set (s1 := remove_ref _ (ra_ref x)).
  assert (H1 : InvCh s1) by (apply remove_ref_chain; apply (InvCh_ext s); auto).
  destruct (ra_cons x) as [c|]; [|exact H1]. destruct (cpcv (getc s1 c)); exact H1.
Qed.

Lemma async_section_chain s a : InvCh s -> InvCh (async_section s a).
Proof.
  intros H. unfold async_section. destruct (nth_error (asyncs s) a) as [x|]; [|exact H].
  destruct (as_pc x); [|exact H]. apply released_section_chain. apply (InvCh_ext s); auto.
Qed.

Lemma cons_fail_chain s c x e : InvCh s -> InvCh (cons_fail s c x e).
Proof.
  intros H. unfold cons_fail.
  pose proof (release_call_by_chain (setc s c (with_cpc x (CRel e))) (cref x) (Some c)) as G.
  destruct (release_call_by (setc s c (with_cpc x (CRel e))) (cref x) (Some c)) as [s1 parked]. cbn [fst] in G.
  assert (H1 : InvCh s1) by (apply G; apply (InvCh_ext s); auto).
  destruct parked; [exact H1|]. apply (InvCh_ext s1); auto.
Qed.

Lemma acc_ret_chain s c x e : InvCh s -> InvCh (acc_ret s c x e).
Proof.
  intros H. unfold acc_ret.
  pose proof (release_call_by_chain (setc s c (with_cpc x (CRel e))) (cref x) (Some c)) as G.
  destruct (release_call_by (setc s c (with_cpc x (CRel e))) (cref x) (Some c)) as [s1 parked]. cbn [fst] in G.
  assert (H1 : InvCh s1) by (apply G; apply (InvCh_ext s); auto).
  destruct parked; [exact H1|]. apply (InvCh_ext s1); auto.
Qed.

Lemma acc_s1_chain s c x : InvCh s -> InvCh (acc_s1 s c x).
Proof.
  intros H. unfold acc_s1. destruct (negb (Nat.eqb (ac_err x) 0)); [now apply acc_ret_chain|].
  destruct (ac_res x); [apply (InvCh_ext s); auto|]. destruct (ccanc x); [now apply acc_ret_chain | apply (InvCh_ext s); auto].
Qed.

Lemma cb_return_chain fx s c res : InvCh s -> InvCh (cb_return fx s c res).
Proof.
  intros H. unfold cb_return. destruct (nth_error (conss s) c) as [x|]; [|exact H].
  destruct (ck x); try exact H. destruct (cpcv x); try exact H.
  destruct (ccanc x); [now apply acc_ret_chain|].
  match goal with |- InvCh (if ?b then _ else _) => destruct b end; [now apply acc_ret_chain | apply (InvCh_ext s); auto].
Qed.

Lemma cons_step_chain s c : InvCh s -> InvCh (cons_step s c).
Proof.
  intros H. unfold cons_step. destruct (nth_error (conss s) c) as [x|]; [|exact H].
  destruct (ck x), (cpcv x); try exact H; try (now apply acc_s1_chain).
  3:{ destruct (negb (Nat.eqb (ac_nonce x) (ac_snap x))); [now apply acc_s1_chain|]. destruct (ccanc x); [now apply acc_ret_chain | exact H]. }
  - destruct (cw_res x) as [[v e]|].
    + destruct (Nat.eqb e 0); [apply (InvCh_ext s); auto | now apply cons_fail_chain].
    + destruct (ccanc x); [now apply cons_fail_chain | exact H].
  - destruct (ww_prom x) as [[v e]|].
    + destruct (Nat.eqb e 0); [apply (InvCh_ext s); auto | now apply cons_fail_chain].
    + destruct (ccanc x); [now apply cons_fail_chain | exact H].
Qed.

Lemma fire_section_chain s c : InvCh s -> InvCh (fire_section s c).
Proof.
  intros H. unfold fire_section. destruct (nth_error (conss s) c) as [x|]; [|exact H].
  destruct (ww_firepc x) as [[|]|]; try exact H. apply remove_ref_chain. apply (InvCh_ext s); auto.
Qed.

(* the step of a parked watcher goroutine touches one consumer record: its context flag and its parked watchers *)
Lemma watch_step_spec s c :
  watch_step s c = s \/
  exists x y, nth_error (conss s) c = Some x /\ watch_step s c = setc s c y /\
    ck y = ck x /\ cref y = cref x /\ ccanc y = ccanc x /\ cpcv y = cpcv x /\ cw_res y = cw_res x /\ ww_res y = ww_res x /\
    ww_nonce y = ww_nonce x /\ ww_prom y = ww_prom x /\ ww_once y = ww_once x /\ ww_fired y = ww_fired x /\ ww_firepc y = ww_firepc x /\
    ac_val y = ac_val x /\ ac_err y = ac_err x /\ ac_res y = ac_res x /\ ac_nonce y = ac_nonce x /\ ac_snap y = ac_snap x /\
    ((ac_wstale x = S (ac_wstale y) /\ ac_cbcanc y = ac_cbcanc x /\ ac_wpark y = ac_wpark x) \/
     (ac_wstale x = 0 /\ ac_wstale y = 0 /\ ac_wpark x = true /\ ac_wpark y = false /\ ac_cbcanc y = true)).
Proof.
  unfold watch_step. destruct (nth_error (conss s) c) as [x|] eqn:Ex; [|now left].
  destruct (ac_wstale x) as [|k] eqn:Ek; [destruct (ac_wpark x) eqn:Ew; [|now left]|]; right; eexists x, _; (split; [reflexivity|]); (split; [reflexivity|]);
    cbn [ck cref ccanc cpcv cw_res ww_res ww_nonce ww_prom ww_once ww_fired ww_firepc ac_val ac_err ac_res ac_nonce ac_snap ac_cbcanc ac_wpark ac_wstale];
    rewrite ?Ek, ?Ew; repeat (split; [reflexivity|]); [right | left]; auto.
Qed.

Ltac wsplit H := destruct H as [Wck [Wcref [Wccanc [Wcpcv [Wcw [Wwres [Wwnonce [Wwprom [Wwonce [Wwfired [Wwfirepc [Waval [Waerr [Wares [Wanonce [Wasnap Wwatch]]]]]]]]]]]]]]]].

Lemma rest_watch_step s c : rest (watch_step s c) = rest s.
Proof. destruct (watch_step_spec s c) as [->|[x [y [_ [-> _]]]]]; [reflexivity | apply rest_setc]. Qed.
Lemma refs_watch_step s c : refs (watch_step s c) = refs s.
Proof. destruct (watch_step_spec s c) as [->|[x [y [_ [-> _]]]]]; [reflexivity | apply refs_setc]. Qed.
Lemma asyncs_watch_step s c : asyncs (watch_step s c) = asyncs s.
Proof. destruct (watch_step_spec s c) as [->|[x [y [_ [-> _]]]]]; reflexivity. Qed.

Lemma step_chain s e : InvCh s -> InvCh (step repaired s e).
Proof.
  intros H. destruct e; cbn [step].
  - now apply set_context_chain.
  - now apply add_ref_chain.
  - destruct (rkind (nth r (refs s) ref0)); try exact H; now apply release_call_by_chain.
  - now apply release_section_chain.
  - destruct (nth_error (gs s) g); [now apply released_section_chain | exact H].
  - now apply async_section_chain.
  - now apply proceed_chain.
  - now apply resolver_return_chain.
  - now apply store_chain.
  - unfold start_consumer. apply add_ref_chain. apply (InvCh_ext s); auto.
  - now apply cons_step_chain.
  - destruct (nth_error (conss s) c); [apply (InvCh_ext s); auto | exact H].
  - now apply fire_section_chain.
  - now apply cb_return_chain.
  - destruct (Nat.eqb c 0); [exact H | now apply cancel_root_chain].
  - apply (InvCh_rest s); [apply rest_watch_step | exact H].
Qed.

Lemma init_chain k : InvCh (init k).
Proof. split; [apply InvG_nil | reflexivity]. Qed.

Theorem run_chain k es : InvCh (run repaired (init k) es).
Proof. unfold run. apply fold_inv; [intros s e; apply step_chain | apply init_chain]. Qed.

(* ---- C09: the resolver is never running in two calls at once ---- *)
Theorem at_most_one_in_resolver k es : cnt in_resolver (gs (run repaired (init k) es)) <= 1.
Proof. apply InvG_at_most_one_in_resolver. apply run_chain. Qed.

(* stronger: from entering the resolver to the end of the store section *)
Theorem at_most_one_busy k es : cnt busy (gs (run repaired (init k) es)) <= 1.
Proof. apply InvG_at_most_one_busy. apply run_chain. Qed.

(* a goroutine enters the resolver only when every earlier goroutine has finished (its done channel is closed) *)
Theorem enter_only_after_all_earlier k es g x :
  let s := run repaired (init k) es in
  nth_error (gs s) g = Some x -> act x = true -> forall j y, j < g -> nth_error (gs s) j = Some y -> gdone y = true.
Proof. intros s Hx Ha. destruct (run_chain k es) as [HI _]. fold s in HI. destruct (HI g x Hx) as [_ E3]. exact (E3 Ha). Qed.

(* the pinned code (before the D10 repair): a cancelled goroutine that still waits for its predecessor closes its done
   channel at once, and the next goroutine's resolver call overlaps the first *)
Definition pinned_d10 : fixes := {| fx_wait := false; fx_nilcb := true; fx_accnonce := true |}.
Definition d10_witness : list ev :=
  [ESetCtx 1; EAddRef 1; EProceed 0 true; ESetCtx 2; EProceed 1 false; ESetCtx 3; EProceed 1 false; EProceed 2 true].
Lemma d10_refuted : cnt in_resolver (gs (run pinned_d10 (init false) d10_witness)) = 2.
Proof. vm_compute. reflexivity. Qed.
