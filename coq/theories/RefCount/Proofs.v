From Util Require Import Common.Base Common.ListLemmas RefCount.Model.
