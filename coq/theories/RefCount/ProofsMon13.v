(* refcount: the monitors tied to the model, part 13: the consumers whose value was invalidated ([m_inval]) and clause 10.3. *)
From Util Require Import Common.Base Common.ListLemmas RefCount.Model RefCount.Spec RefCount.Proofs RefCount.ProofsC08 RefCount.ProofsC08b
  RefCount.ProofsC09 RefCount.ProofsC10 RefCount.ProofsC10a RefCount.ProofsC10b RefCount.ProofsCodec RefCount.ProofsMon RefCount.ProofsMon2 RefCount.ProofsMon3
  RefCount.ProofsMon4 RefCount.ProofsMon5 RefCount.ProofsMon6 RefCount.ProofsMon7 RefCount.ProofsMonG RefCount.ProofsMon8 RefCount.ProofsMon9 RefCount.ProofsMon10
  RefCount.ProofsMon11 RefCount.ProofsMon12 RefCount.ProofsMon17 RefCount.ProofsMonE RefCount.ProofsMon18.
Open Scope nat_scope.

Lemma zip3_length {A B C} (a : list A) (b : list B) (c : list C) : length (zip3 a b c) = Nat.min (length a) (Nat.min (length b) (length c)).
Proof. revert b c. induction a as [|x a IH]; intros [|y b] [|z c]; cbn [zip3 length]; try reflexivity; try lia. rewrite IH. lia. Qed.

Lemma zip3_nth {A B C} (a : list A) (b : list B) (c : list C) i da db dc :
  i < length a -> i < length b -> i < length c -> nth i (zip3 a b c) (da, db, dc) = (nth i a da, nth i b db, nth i c dc).
Proof.
  revert b c i. induction a as [|x a IH]; intros [|y b] [|z c] i Ha Hb Hcc; cbn [length] in *; try lia.
  destruct i as [|i]; [reflexivity|]. cbn [zip3 nth]. apply IH; lia.
Qed.

Lemma in_combine_idx {A B} (l1 : list A) (l2 : list B) a b : In (a, b) (combine l1 l2) -> exists i, nth_error l1 i = Some a /\ nth_error l2 i = Some b.
Proof.
  revert l2. induction l1 as [|x l1 IH]; intros [|y l2] H; cbn [combine] in H; try contradiction.
  destruct H as [E|H]; [inversion E; subst; exists 0; auto|]. destruct (IH l2 H) as [i [H1 H2]]. exists (S i). auto.
Qed.

Definition Rinval (m : mst) (s : st) : Prop := forall c, nth c (m_inval m) false = true -> Once c (conss s).

Section Inval.
  Variables (m : mst) (h : hst) (e : list N) (e0 : ev) (rets : list N).
  Hypothesis HRh : HR h.
  Hypothesis HP : Rproj m h.
  Hypothesis Hd : dec h e e0 rets.
  Hypothesis Hc : hconst h = false.
  Hypothesis Hcur : m_cur m = cur_of (hs h).
  Hypothesis Hem : Rempty m (hs h).
  Hypothesis Hinv : Rinval m (hs h).
  Local Notation s := (hs h).
  Local Notation s1 := (step repaired (hs h) e0).
  Local Notation s' := (settle (step repaired (hs h) e0)).
  Local Notation p := (pobs_of rets (settle (step repaired (hs h) e0)) (hrel h)).

  (* the monitors see an invalidation only when the stored result really went away *)
  Lemma lost_unresolved g : u_lost m e p = Some g -> resolved s' = false.
  Proof. exact (lost_unresolved_c m h e e0 rets (HR_HRc h HRh Hc) HP Hd Hcur Hem g). Qed.

  Lemma p_inval_nth c : nth c (u_inval m e p) false = true ->
    c < length (conss s') /\
    (nth c (m_inval m) false = true \/
     (ck (getc s' c) = CKWwr /\ (exists g, u_lost m e p = Some g) /\ exists v, hold_of s' (getc s' c) = Some v)).
  Proof.
    intros H. unfold u_inval in H.
    set (F := fun t : bool * option N * N => let '(iv, hv, k) := t in
                iv || (N.eqb k 1 && match u_lost m e p, hv with Some g, Some v => N.eqb v (u_vofe m e g) | _, _ => false end)) in *.
    assert (Hlen : c < length (zip3 (u_inval1 m p) (u_holds m e p) (u_ckind m e))).
    { destruct (Nat.lt_ge_cases c (length (zip3 (u_inval1 m p) (u_holds m e p) (u_ckind m e)))) as [Hl|Hl]; [exact Hl|].
      rewrite nth_overflow in H by (now rewrite map_length). discriminate. }
    rewrite zip3_length in Hlen.
    rewrite (p_holds m h e e0 rets HP Hd), (upd_ckind m h e e0 rets HP Hd) in *. rewrite !map_length in Hlen.
    assert (Hcl : c < length (conss s')) by lia. split; [exact Hcl|].
    rewrite (nth_indep _ false (F (false, None, 0%N))) in H by (rewrite map_length, zip3_length, !map_length; lia). rewrite map_nth in H.
    rewrite (zip3_nth _ _ _ c false None 0%N) in H by (rewrite ?map_length; lia). unfold F in H.
    apply orb_true_iff in H. destruct H as [H|H].
    - left. unfold u_inval1 in H. destruct (Nat.lt_ge_cases c (length (m_inval m))) as [Hl|Hl]; [now rewrite app_nth1 in H|].
      rewrite app_nth2 in H by exact Hl. destruct (Nat.lt_ge_cases (c - length (m_inval m)) (length (po_cons p) - length (m_inval m))) as [H2|H2].
      + rewrite nth_repeat in H. discriminate.
      + rewrite nth_overflow in H by (now rewrite repeat_length). discriminate.
    - right. apply andb_true_iff in H. destruct H as [Hk Hl].
      change 0%N with (ckcode CKWait) in Hk. rewrite map_nth in Hk. change CKWait with (ck cons0) in Hk. rewrite map_nth in Hk. fold (getc s' c) in Hk.
      rewrite (nth_indep _ None (hold_of s' cons0)) in Hl by (rewrite map_length; exact Hcl).
      rewrite map_nth in Hl. fold (getc s' c) in Hl.
      split; [destruct (ck (getc s' c)); try discriminate Hk; reflexivity|].
      destruct (u_lost m e p) as [g|]; [|discriminate]. split; [eauto|]. destruct (hold_of s' (getc s' c)) as [v|]; [eauto | discriminate].
  Qed.

  Lemma upd_inval : Rinval (u_mst m e p) s'.
  Proof.
    intros c Hcn. cbn [m_inval u_mst] in Hcn. destruct (p_inval_nth c Hcn) as [Hl [Hold|[Hk [[g Hg] [v Hv]]]]].
    - apply settle_Once, step_Once. now apply Hinv.
    - pose proof (HR_W2 _ (HRh' h e e0 rets HRh Hd) Hc) as W. pose proof (HR_K1 _ (HRh' h e e0 rets HRh Hd)) as K. cbn [hs] in W, K.
      unfold Once. fold (getc s' c). destruct (ww_once (getc s' c)) eqn:Eo; [reflexivity|]. exfalso.
      destruct (hold_of_some s' _ v Hv) as [Hr [v' [e' [Ep _]]]]. destruct (K1_getc s' c K Hk) as [A B].
      pose proof (A (B v' e' Ep)) as Eres.
      destruct (W c _ (nth_error_getc s' c Hl) Hk (conj Eres (conj Hr Eo))) as [Er _].
      rewrite (lost_unresolved g Hg) in Er. discriminate.
  Qed.

  (* 10.3: at rest, the released callback of every consumer whose value was invalidated while it held the reference has fired *)
  Lemma clause_10_3 : u_f10_3 m e p = [].
  Proof.
    unfold u_f10_3. destruct (u_quiet p) eqn:Q; [|reflexivity]. cbn [negb orb].
    assert (F : forallb (fun t : bool * (N * N * N * N * N * N) => let '(iv, (_, _, _, _, fired, _)) := t in negb iv || N.eqb fired 1)
                        (combine (u_inval m e p) (po_cons p)) = true); [|now rewrite F].
    apply forallb_forall. intros [iv y] Hin. destruct (in_combine_idx _ _ _ _ Hin) as [c [H1 H2]].
    cbn [po_cons pobs_of] in H2. destruct (nth_error (conss s') c) as [x|] eqn:Ex; [|rewrite (proj2 (nth_error_None _ _)) in H2; [discriminate | rewrite map_length; now apply nth_error_None]].
    rewrite (nth_error_map_some ccode6 _ _ _ Ex) in H2. inversion H2; subst y. clear H2.
    destruct iv; [|destruct (ccode6 x) as [[[[[a b] c0] d] f] g]; reflexivity]. cbn [negb orb].
    pose proof (upd_inval c (nth_error_nth_d _ _ false _ H1)) as Ho. unfold Once in Ho. rewrite (nth_error_nth_d _ _ cons0 _ Ex) in Ho.
    pose proof (HR_C _ (HRh' h e e0 rets HRh Hd) c x Ex) as Hok. unfold cons_ok in Hok.
    (* quiet: the goroutine of the callback is not parked *)
    unfold u_quiet in Q. apply andb_true_iff in Q. destruct Q as [_ Q4]. cbn [po_cons pobs_of] in Q4. rewrite forallb_map, forallb_forall in Q4.
    specialize (Q4 x (nth_error_In _ _ Ex)). unfold ccode6 in *.
    destruct (ww_firepc x) as [[|]|]; destruct Hok as [O1 O2].
    - destruct (ac_wpark x); destruct (cpcv x); discriminate Q4.
    - rewrite O2. destruct (cpcv x); reflexivity.
    - congruence.
  Qed.
End Inval.
