(* refcount: the monitors tied to the model, the full statement: for EVERY configuration the codec accepts and EVERY event list,
   the monitors of Spec.v (all clauses of C08, C09, C10, nothing filtered) report nothing on the model's own observations. *)
From Util Require Import Common.Base Common.ListLemmas RefCount.Model RefCount.Spec RefCount.Proofs RefCount.ProofsC08 RefCount.ProofsC08b
  RefCount.ProofsC09 RefCount.ProofsC10 RefCount.ProofsC10a RefCount.ProofsC10b RefCount.ProofsCodec RefCount.ProofsMon RefCount.ProofsMon2 RefCount.ProofsMon3
  RefCount.ProofsMon4 RefCount.ProofsMon5 RefCount.ProofsMon6 RefCount.ProofsMon7 RefCount.ProofsMonG RefCount.ProofsMon8 RefCount.ProofsMon9 RefCount.ProofsMon10
  RefCount.ProofsMon11 RefCount.ProofsMon12 RefCount.ProofsMon13 RefCount.ProofsMon14 RefCount.ProofsMon15 RefCount.ProofsMon16 RefCount.ProofsMonThm
  RefCount.ProofsMon17 RefCount.ProofsMonE RefCount.ProofsMon18 RefCount.ProofsMon19 RefCount.ProofsMon20 RefCount.ProofsMon21 RefCount.ProofsMon22 RefCount.ProofsMon23.
Open Scope nat_scope.

(* the relation between the monitors' books and the model state, every configuration *)
Definition R2 (m : mst) (h : hst) : Prop := R m h /\ m_cur m = cur_of (hs h) /\ Rempty m (hs h) /\ Racc2 m (hs h).

Lemma mon_step2 m h e h' o :
  HR h -> HRc h -> R2 m h -> hstep h e = Some (h', o) ->
  exists m', mon (Some m) e o = (Some m', []) /\ R2 m' h' /\ HR h' /\ HRc h'.
Proof.
  intros HRh HCh [[HP HN] [Hcur [Hem HA]]] H. destruct (hstep_dec h e h' o H) as [e0 [rets [Hd Hfin]]].
  assert (Eh : h' = fst (fin_of h (step repaired (hs h) e0) rets)) by (now rewrite <- Hfin).
  assert (Eo : o = obs_of rets (settle (step repaired (hs h) e0)) (hrel h)) by (unfold fin_of in Hfin; now inversion Hfin).
  assert (Hr : length rets = nrets e) by (destruct Hd; reflexivity).
  set (p := pobs_of rets (settle (step repaired (hs h) e0)) (hrel h)).
  assert (Em : mon (Some m) e o = (Some (u_mst m e p), [])).
  { unfold mon. rewrite Eo, (parse_obs e rets _ _ Hr). fold p. rewrite mon1_eq. f_equal.
    rewrite (clause_10_8 p rets _ _ eq_refl), app_nil_r.
    unfold p. rewrite (facc_nil m h e e0 rets HRh HCh HP Hd Hcur Hem HA), app_nil_r. rewrite (rp_const m h HP).
    destruct (hconst h) eqn:Hc; [reflexivity|]. destruct (HN eq_refl) as [Hcalled Hcur0 Hout Hem0 Hinv].
    unfold u_all.
    rewrite (clause_8_1 m h e e0 rets HRh Hd Hc Hcalled), (clause_8_2 h e e0 rets HRh Hd Hc), (clause_8_3 m h e e0 rets HRh HP Hd Hc),
      (clause_8_4 m h e e0 rets HRh HP Hd Hc Hout Hcur0 Hem0), (clause_9_3 m h e e0 rets HRh HP Hd Hc Hcur0 Hem0),
      (clause_9_1 h e e0 rets HRh Hd), (clause_9_2 h e e0 rets HRh Hd), (clause_9_4 m h e e0 rets HRh HP Hd Hc Hcur0),
      (clause_9_5 m h e e0 rets HRh HP Hd Hc), (clause_10_1 m h e e0 rets HRh HP Hd Hc),
      (clause_10_2 h e e0 rets HRh Hd), (clause_10_3 m h e e0 rets HRh HP Hd Hc Hcur0 Hem0 Hinv).
    reflexivity. }
  exists (u_mst m e p). split; [exact Em|].
  destruct (mon_step m h e h' o HRh (conj HP HN) H) as [m' [f [Em' [_ [HRm' [HRh' _]]]]]].
  assert (Em2 : m' = u_mst m e p) by congruence. subst m'.
  split; [|split; [exact HRh'|]].
  - split; [exact HRm'|]. rewrite Eh. unfold fin_of. cbn [fst hs]. split.
    + cbn [m_cur u_mst]. exact (upd_cur_c m h e e0 rets HCh HP Hd Hcur Hem).
    + split; [exact (upd_empty m h e e0 rets HCh Hd Hem) | exact (upd_acc2 m h e e0 rets HRh HCh HP Hd Hcur Hem HA)].
  - rewrite Eh. exact (HRc_step h e e0 rets HCh Hd).
Qed.

Lemma Rempty_init m s : m_empty m = [] -> m_emptyok m = [] -> gs s = [] -> resolved s = false -> Rempty m s.
Proof.
  intros E4 E4' F3 F2. constructor; constructor.
  - intros g Hg. rewrite E4 in Hg. discriminate.
  - intros i v hr e [x [Hx _]]. rewrite F3 in Hx. destruct i; discriminate.
  - intros Er. congruence.
  - intros g Hg. rewrite E4' in Hg. discriminate.
  - intros i v hr e [x [Hx _]]. rewrite F3 in Hx. destruct i; discriminate.
  - intros Er. congruence.
Qed.

Lemma R2_init cfg h m : hinit cfg = Some h -> minit cfg = Some m -> R2 m h.
Proof.
  intros Hh Hm. split; [exact (R_init cfg h m Hh Hm)|]. unfold hinit, minit in *.
  destruct cfg as [|k [|c [|? ?]]]; try discriminate; inversion Hh; inversion Hm; subst h m; cbn [hs m_cur]; (split; [reflexivity|]);
    (split; [apply Rempty_init; reflexivity|]);
    (constructor; cbn [m_acb m_acanc m_ainv m_adec conss init length];
     [intros [|i]; reflexivity | intros [|i] Hk; discriminate Hk | intros [|i] Hk; discriminate Hk | intros i Hi; lia | intros [|i] _; reflexivity | intros i Hi; lia]).
Qed.

Theorem model_satisfies_monitors_gen2 evs : forall h m i rep, HR h -> HRc h -> R2 m h ->
  monitor mon i (Some m) rep evs (run_obs step_opt (Some h) evs) = [].
Proof.
  induction evs as [|e evs IH]; intros h m i rep Hh Hc Hm; [reflexivity|].
  cbn [run_obs step_opt]. destruct (hstep h e) as [[h' o]|] eqn:E; [|reflexivity].
  destruct (mon_step2 m h e h' o Hh Hc Hm E) as [m' [Em [Hm' [Hh' Hc']]]].
  cbn [monitor]. rewrite Em. cbn [filter map app]. apply IH; assumption.
Qed.

(* THE FULL STATEMENT: for every configuration the codec accepts and every event list: on the observations the model itself
   produces (eager schedule of Spec.hstep; the run stops at the first event the model does not accept) no monitor clause of
   C08, C09, C10 is ever false *)
Theorem model_satisfies_monitors cfg evs :
  monitor mon 0 (minit cfg) [] evs (run_obs step_opt (hinit cfg) evs) = [].
Proof.
  destruct (hinit cfg) as [h|] eqn:Eh.
  - destruct (minit cfg) as [m|] eqn:Em.
    + apply model_satisfies_monitors_gen2; [exact (HR_init cfg h Eh) | exact (HRc_init cfg h Eh) | exact (R2_init cfg h m Eh Em)].
    + exfalso. unfold hinit, minit in *. destruct cfg as [|k [|c [|? ?]]]; discriminate.
  - destruct evs; reflexivity.
Qed.

(* hence the extracted checker reports nothing at all on any history that the model accepts completely *)
Theorem model_run_check_clean cfg evs :
  length (run_obs step_opt (hinit cfg) evs) = length evs ->
  run_check_refcount cfg evs (run_obs step_opt (hinit cfg) evs) = [].
Proof. intros Hl. unfold run_check_refcount, run_check. rewrite (replay_own evs _ 0 Hl), model_satisfies_monitors. reflexivity. Qed.

(* any restriction of the monitors to a set of clauses reports nothing either *)
Lemma monitor_only_nil keep evs : forall obss i m,
  monitor mon i m [] evs obss = [] -> monitor (mon_only keep) i m [] evs obss = [].
Proof.
  induction evs as [|e evs IH]; intros obss i m H; [reflexivity|]. destruct obss as [|o obss]; [reflexivity|].
  cbn [monitor] in *. unfold mon_only. destruct (mon m e o) as [m' f]. cbv beta iota zeta in H |- *.
  destruct f as [|a f]; [|cbn in H; discriminate H]. cbn [filter map app] in *. now apply IH.
Qed.

Theorem model_satisfies_monitors_clauses_acc cfg evs :
  monitor (mon_only proved_acc) 0 (minit cfg) [] evs (run_obs step_opt (hinit cfg) evs) = [].
Proof. apply monitor_only_nil, model_satisfies_monitors. Qed.
Print Assumptions model_satisfies_monitors.
Print Assumptions model_run_check_clean.
