(* C20 — sequential helpers match their reference models on every operation sequence.
   Statements only (IO part and unique part); each closed by [exact] of a lemma in
   IO/Proofs.v or Unique/Proofs.v, with its assumptions printed.

   PARTIAL BY NATURE: the two ioproxy theorems (names c20_proxy_...) are about the MODELLED
   io.CopyBuffer loop of IO/Model.v (read <= 8192, write all, stop on the first
   error / EOF / short write, no WriterTo/ReaderFrom shortcut) over scripted streams.
   The real io.CopyBuffer is Go's: it is exercised by the correspondence harness on every
   run, not verified.  Everything else is about code of /repo only. *)
From Util Require Import Common.Base IO.Model Unique.Model.
From Util Require IO.Spec IO.Proofs Unique.Spec Unique.Proofs.

(* ================================================================== *)
(* ioseek.ReaderAtSeeker                                                *)
Section Seek.
Import IO.Spec IO.Proofs.
Open Scope Z_scope.

(* On every sequence of Seek/Read calls (Seek offsets any int64, every whence incl. invalid
   ones; the wrapped ReaderAt serves exactly [size] bytes, with arbitrary short reads and
   errors) the wrapper is indistinguishable from a bounded section reader whose position is
   computed in UNBOUNDED Z: same final position, same success/failure and result of every
   Seek, same count of every Read, same offset handed to the wrapped ReadAt.  (The model's
   additions wrap like int64; the theorem says wrap-around is never observable.) *)
Theorem c20_seek_matches_section_reader : forall evs s,
  seek_inv s -> wf_evs (sk_size s) (sk_off s) evs ->
  sk_off (fst (seek_run s evs)) = fst (ref_run (sk_size s) (sk_off s) evs) /\
  map abs_obs (snd (seek_run s evs)) = snd (ref_run (sk_size s) (sk_off s) evs) /\
  seek_inv (fst (seek_run s evs)) /\ sk_size (fst (seek_run s evs)) = sk_size s.
Proof. exact seek_refines_section_reader. Qed.
Print Assumptions c20_seek_matches_section_reader.

(* a Seek whose target (in unbounded Z) is outside [0, size], or whose whence is invalid,
   fails, returns 0 and leaves the state (the position) unchanged; this includes the targets
   whose int64 addition overflows *)
Theorem c20_seek_out_of_range_keeps_position : forall s o w,
  seek_inv s -> i64 o ->
  in_range (sk_size s) (spec_target (sk_size s) (sk_off s) o w) = None ->
  fst (seek s o w) = s /\ snd (snd (seek s o w)) <> ENil /\ fst (snd (seek s o w)) = 0.
Proof. exact seek_out_of_range. Qed.
Print Assumptions c20_seek_out_of_range_keeps_position.

(* and an in-range target is reached exactly *)
Theorem c20_seek_in_range_moves : forall s o w t,
  seek_inv s -> i64 o ->
  spec_target (sk_size s) (sk_off s) o w = Some t -> 0 <= t <= sk_size s ->
  seek s o w = ({| sk_size := sk_size s; sk_off := t |}, (t, ENil)).
Proof. exact seek_in_range. Qed.
Print Assumptions c20_seek_in_range_moves.

(* Read hands (p, position) to the wrapped ReadAt, returns its result unchanged and advances
   by the returned count -- also when the wrapped call returns an error with n > 0; a failed
   Seek changes nothing; a successful one moves to the returned position *)
Theorem c20_read_advances_by_returned_count : forall s ev,
  let '(s', o) := seek_step s ev in
  match o with
  | ObSeek p ENil => sk_off s' = p
  | ObSeek _ _ => s' = s
  | ObRead n _ pl off => off = sk_off s /\ sk_off s' = wrap64 (sk_off s + n)
  end.
Proof. exact seek_position_moves_only. Qed.
Print Assumptions c20_read_advances_by_returned_count.

Theorem c20_position_le_size : forall evs s,
  seek_inv s -> wf_evs (sk_size s) (sk_off s) evs ->
  0 <= sk_off (fst (seek_run s evs)) <= sk_size s.
Proof.
  intros evs s Hi Hw. destruct (seek_refines_section_reader evs s Hi Hw) as (_ & _ & [H _] & E).
  rewrite <- E. exact H.
Qed.
Print Assumptions c20_position_le_size.

(* ================================================================== *)
(* iosizer.SizeReadWriter                                               *)
Theorem c20_sizer_total_is_sum : forall evs s, 0 <= sz_total s < two64 ->
  sz_total (fst (sizer_run s evs)) = wrapu64 (sz_total s + sum_ret (snd (sizer_run s evs))) /\
  0 <= sz_total (fst (sizer_run s evs)) < two64.
Proof. exact sizer_total_is_sum. Qed.
Print Assumptions c20_sizer_total_is_sum.

(* historical: the pinned code (defect D16, repaired in /repo by commit 55ddcd2) skipped any
   single transfer larger than MaxUint32 *)
Theorem c20_sizer_pinned_refuted :
  let s0 := {| sz_total := 0; sz_rd := true; sz_wr := true |} in
  let ev := {| se_dir := DRead; se_plen := 16; se_n := 4294967301; se_err := ENil |} in
  sz_total (fst (sizer_run_pinned s0 [ev])) = 0 /\
  sum_ret (snd (sizer_run_pinned s0 [ev])) = 4294967301 /\
  sz_total (fst (sizer_run s0 [ev])) = 4294967301.
Proof. exact sizer_pinned_refuted. Qed.
Print Assumptions c20_sizer_pinned_refuted.

(* ================================================================== *)
(* iocloser.ReadCloser / WriteCloser                                    *)
Theorem c20_closer_passes_until_close : forall evs s,
  cl_open s = true -> existsb is_close evs = false ->
  snd (closer_run s evs) =
    map (fun ev => match ev with CvIO pl n e => CoIO n e true pl | CvClose ce => CoClose ce end) evs /\
  fst (closer_run s evs) = s.
Proof. exact closer_passes_until_close. Qed.
Print Assumptions c20_closer_passes_until_close.

(* over EVERY sequence of calls the close function runs once if it is non-nil and some Close
   is called, and never otherwise (repeated Close calls included) *)
Theorem c20_close_fn_exactly_once : forall evs s,
  cl_ran (fst (closer_run s evs)) =
  (cl_ran s + if cl_fn s && existsb is_close evs then 1 else 0)%nat.
Proof. exact closer_fn_exactly_once. Qed.
Print Assumptions c20_close_fn_exactly_once.

(* everything after the first Close: Read/Write return (0, EOF) and the wrapped stream is
   not called; further Close calls return nil *)
Theorem c20_eof_after_close_without_touching_stream : forall evs1 ce evs2 s,
  let r := closer_run s (evs1 ++ CvClose ce :: evs2) in
  skipn (S (length evs1)) (snd r) =
    map (fun ev => match ev with CvIO _ _ _ => CoIO 0 EEOF false 0 | CvClose _ => CoClose ENil end) evs2.
Proof. exact closer_eof_after_close. Qed.
Print Assumptions c20_eof_after_close_without_touching_stream.

(* ================================================================== *)
(* ioproxy.ProxyStreams -- PARTIAL: about the modelled copy loop (see the header)  *)
Open Scope nat_scope.
Theorem c20_proxy_bytes_in_order : forall s1 s2 cbnil,
  let r := proxy s1 s2 cbnil in
  fst (po_a r) = firstn (budget_of (sd_ws s2) (length (concat (sd_chunks s1)))) (concat (sd_chunks s1)) /\
  fst (po_b r) = firstn (budget_of (sd_ws s1) (length (concat (sd_chunks s2)))) (concat (sd_chunks s2)) /\
  (sd_ws s2 = WAll -> fst (po_a r) = concat (sd_chunks s1)) /\
  (sd_ws s1 = WAll -> fst (po_b r) = concat (sd_chunks s2)).
Proof. exact proxy_bytes_in_order. Qed.
Print Assumptions c20_proxy_bytes_in_order.

Theorem c20_proxy_closes_both_and_calls_cb_twice : forall s1 s2 cbnil,
  let r := proxy s1 s2 cbnil in
  let fin := (wfails (sd_ws s2) (length (concat (sd_chunks s1))) || ends (sd_term s1)) ||
             (wfails (sd_ws s1) (length (concat (sd_chunks s2))) || ends (sd_term s2)) in
  (fin = true -> po_close1 r = 2 /\ po_close2 r = 2 /\ po_cb r = if cbnil then 0 else 2) /\
  (fin = false -> po_close1 r = 0 /\ po_close2 r = 0 /\ po_cb r = 0).
Proof. exact proxy_closes_and_calls_back. Qed.
Print Assumptions c20_proxy_closes_both_and_calls_cb_twice.

(* the boolean monitors (clauses 1..9) that are run on the implementation's observations
   accept every history of the model, for every config line and every event list *)
Theorem c20_io_model_satisfies_monitors : forall cfg evs,
  monitor IO.Spec.mon 0 (IO.Spec.minit cfg) [] evs (run_obs IO.Spec.step (IO.Spec.init cfg) evs) = [].
Proof. exact IO.Proofs.model_satisfies_monitors. Qed.
Print Assumptions c20_io_model_satisfies_monitors.
End Seek.

(* ================================================================== *)
(* unique.KeyedList / unique.KeyedMap                                    *)
Section UniqueProps.
Import Unique.Spec Unique.Proofs.
Open Scope N_scope.

(* for every value type, every cmp (no assumption on it), every constructor argument and
   every sequence of SetValues/AppendValues/RemoveValues/RemoveKeys calls with arbitrary
   arguments (duplicates inside one call included): the contents are strictly ascending by
   key, so no key occurs twice and the value found for a key is the only one stored *)
Theorem c20_unique_one_value_per_key :
  forall (V : Type) (cmp : N -> V -> V -> bool) (initial : list (N * V)) (ops : list (op V)),
  let c := run cmp (init_contents initial) ops in
  sortedb (keys c) = true /\ NoDup (keys c) /\
  (forall k v, In (k, v) c <-> lookup k c = Some v) /\
  (forall k v v', In (k, v) c -> In (k, v') c -> v = v').
Proof. exact unique_one_value_per_key. Qed.
Print Assumptions c20_unique_one_value_per_key.

(* every key holds the latest set that differed (per cmp) from the value held before it:
   after any sequence of calls the value of key k is the fold, over the calls and inside a
   call over the entries that mention k in call order, of [upd] (equal per cmp: keep the
   held value; otherwise: the new value); a SetValues that does not mention k and a Remove
   that mentions it clear it *)
Theorem c20_unique_holds_latest_differing :
  forall (V : Type) (cmp : N -> V -> V -> bool) (ops : list (op V)) (c : contents V) (k : N),
  lookup k (run cmp c ops) = fold_left (fun held o => key_effect cmp k o held) ops (lookup k c).
Proof. exact unique_holds_latest_differing. Qed.
Print Assumptions c20_unique_holds_latest_differing.

Theorem c20_unique_key_effect_of_one_call :
  forall (V : Type) (cmp : N -> V -> V -> bool) (c : contents V) (o : op V) (k : N),
  lookup k (fst (apply_op cmp c o)) = key_effect cmp k o (lookup k c).
Proof. exact unique_key_effect. Qed.
Print Assumptions c20_unique_key_effect_of_one_call.

(* the change notifications of a call, replayed STRICTLY on the previous contents (added
   only onto an absent key, changed only onto a present key whose value differs per cmp,
   removed only from a present key that holds exactly the notified value), reproduce the new
   contents exactly.  Needed: veq (the equality used to compare a removed value) reflexive;
   nothing about cmp. *)
Theorem c20_unique_notifications_replay :
  forall (V : Type) (cmp : N -> V -> V -> bool) (veq : V -> V -> bool),
  (forall v, veq v v = true) ->
  forall (c : contents V) (o : op V),
  replay_log cmp veq (snd (apply_op cmp c o)) c = Some (fst (apply_op cmp c o)).
Proof. exact unique_notifications_replay. Qed.
Print Assumptions c20_unique_notifications_replay.

(* ... and that hypothesis cannot be dropped *)
Theorem c20_unique_replay_without_veq_refl_refuted :
  let cmp := fun (_ : N) (a b : N) => N.eqb a b in
  let veq := fun (_ _ : N) => false in
  replay_log cmp veq (snd (apply_op cmp [(1, 5)] (ORemove [1]))) [(1, 5)] = None /\
  fst (apply_op cmp [(1, 5)] (ORemove [1])) = [].
Proof. exact replay_without_veq_refl_refuted. Qed.
Print Assumptions c20_unique_replay_without_veq_refl_refuted.

(* the boolean monitors (clauses 10..12) accept every history of the model *)
Theorem c20_unique_model_satisfies_monitors : forall cfg evs,
  monitor Unique.Spec.mon 0 (Unique.Spec.init cfg) [] evs (run_obs Unique.Spec.step (Unique.Spec.init cfg) evs) = [].
Proof. exact Unique.Proofs.model_satisfies_monitors. Qed.
Print Assumptions c20_unique_model_satisfies_monitors.
End UniqueProps.

(* ================================================================== *)
(* non-vacuity: the hypotheses are satisfiable and the checkers discriminate *)
Section Examples.
Import IO.Spec IO.Proofs.
Open Scope Z_scope.

(* a well-formed ioseek history with an overflowing SeekCurrent, an out-of-range SeekEnd and
   an invalid whence: the hypotheses of c20_seek_matches_section_reader hold for it *)
Example c20_example_seek_domain :
  let s := {| sk_size := 10; sk_off := 0 |} in
  let evs := [EvSeek 4 0; EvRead 8 3 EOther; EvSeek (two63 - 1) 1; EvSeek 5 2; EvSeek (-1) 2; EvSeek 0 7; EvRead 4 1 EEOF] in
  seek_inv s /\ wf_evs (sk_size s) (sk_off s) evs /\
  snd (seek_run s evs) =
    [ObSeek 4 ENil; ObRead 3 EOther 8 4; ObSeek 0 EOther; ObSeek 0 EEOF; ObSeek 9 ENil; ObSeek 0 EOther; ObRead 1 EEOF 4 9] /\
  sk_off (fst (seek_run s evs)) = 10.
Proof.
  cbv zeta. split; [unfold seek_inv, two63; cbn; lia|]. split; [|split; vm_compute; reflexivity].
  unfold wf_evs, ref_step, i64, two63. cbn. repeat split; lia.
Qed.

Open Scope N_scope.
(* the same through the codec: the extracted checker accepts the correct trace ... *)
Example c20_example_io_check_accepts :
  run_check_io [1; 10; 1] [[1; 4; 0]; [2; 8; 3; 2]; [1; 9223372036854775807; 1]; [1; 18446744073709551615; 2]]
                          [[4; 0; 4]; [3; 2; 8; 4; 7]; [0; 2; 7]; [9; 0; 9]] = [].
Proof. vm_compute. reflexivity. Qed.

(* ... and rejects a wrapper that stores the new offset before the range check (clause 3: the
   third opinion's position differs; the later Read starts at the wrong offset) *)
Example c20_example_io_check_rejects :
  run_check_io [1; 10; 0] [[1; 20; 0]; [2; 4; 0; 1]] [[0; 1]; [0; 1; 4; 20]] =
    [Mismatch 1 [0; 1; 4; 0] [0; 1; 4; 20]; PropFalse 20 2 1].
Proof. vm_compute. reflexivity. Qed.

(* D16 as a history: one Read returning 4 GiB + 5; the pinned code reported total 0 *)
Example c20_example_d16_history :
  run_check_io [2; 1; 1] [[1; 16; 4294967301; 0]] [[4294967301; 0; 1; 16; 4294967301]] = [] /\
  run_check_io [2; 1; 1] [[1; 16; 4294967301; 0]] [[4294967301; 0; 1; 16; 0]] =
    [Mismatch 0 [4294967301; 0; 1; 16; 4294967301] [4294967301; 0; 1; 16; 0]; PropFalse 20 4 0].
Proof. split; vm_compute; reflexivity. Qed.

(* closer: Read, Close (close func returns an error), Close again, Read after Close *)
Example c20_example_closer :
  run_check_io [3; 0; 1; 1] [[1; 5; 3; 0]; [2; 2]; [2; 0]; [1; 5; 3; 0]]
                            [[3; 0; 1; 5; 0]; [2; 1]; [0; 1]; [0; 1; 0; 0; 1]] = [] /\
  run_check_io [3; 0; 1; 1] [[2; 0]; [2; 0]] [[0; 1]; [0; 2]] = [Mismatch 1 [0; 1] [0; 2]; PropFalse 20 6 1].
Proof. split; vm_compute; reflexivity. Qed.

(* proxy: side 1 offers 3 + 9000 bytes then EOF, side 2 accepts only 5000 bytes (error after)
   and offers 2 bytes then blocks until Close *)
Example c20_example_proxy :
  IO.Spec.step StProxy [1; 0; 0; 0; 0; 2; 3; 9000; 2; 1; 5000; 1; 2] =
    Some (StProxy, [5000; hash (map (datab 1) (nseq 0 5000)); 2; hash (map (datab 2) (nseq 0 2)); 1; 1; 2]).
Proof. vm_compute. reflexivity. Qed.
End Examples.

Section ExamplesUnique.
Import Unique.Spec Unique.Proofs.
Open Scope N_scope.

(* KeyedList, cmp = payload equality: SetValues with the same key twice (the second differs
   from the first), a key set to an equal value, and a key that disappears *)
Example c20_example_unique_accepts :
  run_check_unique [0; 0; 1; 10; 2; 20; 3; 30]
    [[1; 1; 10; 4; 40; 4; 41]; [2; 4; 41; 5; 50; 5; 50]; [4; 9; 1; 1]]
    [[4; 4; 4; 40; 1; 4; 4; 41; 0; 2; 2; 20; 2; 3; 3; 30; 2;   2; 1; 4;   2; 1; 10; 4; 41];
     [1; 5; 5; 50; 1;   3; 1; 4; 5;   3; 1; 10; 4; 41; 5; 50];
     [1; 1; 1; 10; 2;   2; 4; 5;   2; 4; 41; 5; 50]] = [].
Proof. vm_compute. reflexivity. Qed.

(* a SetValues that forgets to remove a key which was not mentioned (clause 11) and whose
   log therefore does not replay to ... the contents it reports is consistent, so only 11 *)
Example c20_example_unique_rejects :
  run_check_unique [0; 0; 1; 10; 2; 20] [[1; 1; 10]] [[0;   2; 1; 2;   2; 1; 10; 2; 20]] =
    [Mismatch 0 [1; 2; 2; 20; 2; 1; 1; 1; 1; 10] [0; 2; 1; 2; 2; 1; 10; 2; 20]; PropFalse 20 11 0].
Proof. vm_compute. reflexivity. Qed.

(* a removal notified with the zero value instead of the stored one: clause 12 *)
Example c20_example_unique_rejects_zero_value :
  run_check_unique [0; 0; 1; 10] [[4; 1]] [[1; 1; 0; 0; 2;   0;   0]] =
    [Mismatch 0 [1; 1; 1; 10; 2; 0; 0] [1; 1; 0; 0; 2; 0; 0]; PropFalse 20 12 0].
Proof. vm_compute. reflexivity. Qed.
End ExamplesUnique.
