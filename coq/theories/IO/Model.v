(* C20 (IO part): executable models of ioseek.ReaderAtSeeker, iosizer.SizeReadWriter,
   iocloser.ReadCloser / WriteCloser and ioproxy.ProxyStreams.
   int64 arithmetic that can overflow in the Go code is written with an explicit [wrap64];
   the uint64 counter of iosizer wraps with [wrapu64].  Wrapped streams are ORACLES: every
   call event carries the (n, err) result the harness-owned wrapped stream returns.
   No proofs in this file. *)
From Util Require Import Common.Base.
Open Scope Z_scope.

Definition two63 : Z := 9223372036854775808.
Definition two64 : Z := 18446744073709551616.
(* two's complement int64 result of an addition carried out in Z *)
Definition wrap64 (z : Z) : Z := (z + two63) mod two64 - two63.
Definition wrapu64 (z : Z) : Z := z mod two64.

(* error kinds seen through the API: nil, io.EOF, any other error *)
Inductive err := ENil | EEOF | EOther.
Definition err_eqb (a b : err) : bool :=
  match a, b with ENil, ENil | EEOF, EEOF | EOther, EOther => true | _, _ => false end.

(* ------------------------------------------------------------------ *)
(* ioseek.ReaderAtSeeker *)
Record seek_st := { sk_size : Z; sk_off : Z }.

(* the three checks after the switch in Seek *)
Definition seek_to (s : seek_st) (newOff : Z) : seek_st * (Z * err) :=
  if newOff <? 0 then (s, (0, EOther))                 (* "negative position" *)
  else if sk_size s <? newOff then (s, (0, EEOF))      (* beyond the end: 0, io.EOF *)
  else ({| sk_size := sk_size s; sk_off := newOff |}, (newOff, ENil)).

(* Seek(offset, whence): io.SeekStart = 0, io.SeekCurrent = 1, io.SeekEnd = 2.
   r.offset + offset and r.size + offset are int64 additions: they wrap. *)
Definition seek (s : seek_st) (offset whence : Z) : seek_st * (Z * err) :=
  if whence =? 0 then seek_to s offset
  else if whence =? 1 then seek_to s (wrap64 (sk_off s + offset))
  else if whence =? 2 then seek_to s (wrap64 (sk_size s + offset))
  else (s, (0, EOther)).                               (* "invalid whence" *)

(* Read(p): n, err = ReadAt(p, r.offset); r.offset += int64(n); return n, err.
   (n, e) is what the wrapped ReadAt returns for this call.  Output: the returned (n, e) and
   the arguments (len p, off) the wrapped ReadAt received. *)
Definition seek_read (s : seek_st) (plen n : Z) (e : err) : seek_st * (Z * err * Z * Z) :=
  ({| sk_size := sk_size s; sk_off := wrap64 (sk_off s + n) |}, (n, e, plen, sk_off s)).

Inductive seek_ev := EvSeek (offset whence : Z) | EvRead (plen n : Z) (e : err).
Inductive seek_obs := ObSeek (pos : Z) (e : err) | ObRead (n : Z) (e : err) (plen_seen off_seen : Z).

Definition seek_step (s : seek_st) (ev : seek_ev) : seek_st * seek_obs :=
  match ev with
  | EvSeek o w => let '(s', (p, e)) := seek s o w in (s', ObSeek p e)
  | EvRead pl n e => let '(s', (n', e', pl', off')) := seek_read s pl n e in (s', ObRead n' e' pl' off')
  end.

Fixpoint seek_run (s : seek_st) (evs : list seek_ev) : seek_st * list seek_obs :=
  match evs with
  | [] => (s, [])
  | ev :: evs' => let '(s1, o) := seek_step s ev in
                  let '(s2, os) := seek_run s1 evs' in (s2, o :: os)
  end.

(* ------------------------------------------------------------------ *)
(* iosizer.SizeReadWriter, REPAIRED code (defect D16 fixed): total += n for every n > 0 *)
Record sizer_st := { sz_total : Z; sz_rd : bool; sz_wr : bool }.
Inductive dir := DRead | DWrite.
Definition sz_present (s : sizer_st) (d : dir) : bool := match d with DRead => sz_rd s | DWrite => sz_wr s end.

(* output: returned (n, err), whether the wrapped stream was called, len p it received *)
Definition sizer_io (s : sizer_st) (d : dir) (plen n : Z) (e : err) : sizer_st * (Z * err * bool * Z) :=
  if sz_present s d
  then ({| sz_total := if 0 <? n then wrapu64 (sz_total s + n) else sz_total s; sz_rd := sz_rd s; sz_wr := sz_wr s |},
        (n, e, true, plen))
  else (s, (0, EEOF, false, 0)).

(* the pinned code: if n > 0 && n <= math.MaxUint32 { total.Add(uint64(n)) } *)
Definition sizer_io_pinned (s : sizer_st) (d : dir) (plen n : Z) (e : err) : sizer_st * (Z * err * bool * Z) :=
  if sz_present s d
  then ({| sz_total := if (0 <? n) && (n <=? 4294967295) then wrapu64 (sz_total s + n) else sz_total s;
           sz_rd := sz_rd s; sz_wr := sz_wr s |},
        (n, e, true, plen))
  else (s, (0, EEOF, false, 0)).

Record sizer_ev := { se_dir : dir; se_plen : Z; se_n : Z; se_err : err }.

Fixpoint sizer_run (s : sizer_st) (evs : list sizer_ev) : sizer_st * list (Z * err * bool * Z) :=
  match evs with
  | [] => (s, [])
  | ev :: evs' => let '(s1, o) := sizer_io s (se_dir ev) (se_plen ev) (se_n ev) (se_err ev) in
                  let '(s2, os) := sizer_run s1 evs' in (s2, o :: os)
  end.
Fixpoint sizer_run_pinned (s : sizer_st) (evs : list sizer_ev) : sizer_st * list (Z * err * bool * Z) :=
  match evs with
  | [] => (s, [])
  | ev :: evs' => let '(s1, o) := sizer_io_pinned s (se_dir ev) (se_plen ev) (se_n ev) (se_err ev) in
                  let '(s2, os) := sizer_run_pinned s1 evs' in (s2, o :: os)
  end.

(* ------------------------------------------------------------------ *)
(* iocloser.ReadCloser / WriteCloser (the two files are the same code up to Read/Write).
   cl_open: the rd/wr field is non-nil; cl_fn: the close field is non-nil; cl_ran counts the
   runs of the close function. *)
Record closer_st := { cl_open : bool; cl_fn : bool; cl_ran : nat }.

Definition closer_io (s : closer_st) (plen n : Z) (e : err) : closer_st * (Z * err * bool * Z) :=
  if cl_open s then (s, (n, e, true, plen)) else (s, (0, EEOF, false, 0)).

(* Close: closeFn := w.close; w.rd = nil; w.close = nil; if closeFn != nil { return closeFn() }; return nil.
   [ce] is the error the close function returns if it runs. *)
Definition closer_close (s : closer_st) (ce : err) : closer_st * err :=
  ({| cl_open := false; cl_fn := false; cl_ran := if cl_fn s then S (cl_ran s) else cl_ran s |},
   if cl_fn s then ce else ENil).

Inductive closer_ev := CvIO (plen n : Z) (e : err) | CvClose (ce : err).
Inductive closer_obs := CoIO (n : Z) (e : err) (called : bool) (plen_seen : Z) | CoClose (e : err).

Definition closer_step (s : closer_st) (ev : closer_ev) : closer_st * closer_obs :=
  match ev with
  | CvIO pl n e => let '(s', (n', e', c, pl')) := closer_io s pl n e in (s', CoIO n' e' c pl')
  | CvClose ce => let '(s', e) := closer_close s ce in (s', CoClose e)
  end.

Fixpoint closer_run (s : closer_st) (evs : list closer_ev) : closer_st * list closer_obs :=
  match evs with
  | [] => (s, [])
  | ev :: evs' => let '(s1, o) := closer_step s ev in
                  let '(s2, os) := closer_run s1 evs' in (s2, o :: os)
  end.

(* ------------------------------------------------------------------ *)
(* ioproxy.ProxyStreams.  PARTIAL BY NATURE: io.CopyBuffer is Go's; what is modelled is its
   documented loop (no WriterTo/ReaderFrom shortcut):
     for { nr, er := src.Read(buf[:8192]); if nr > 0 { nw, ew := dst.Write(buf[:nr]);
           if ew != nil break; if nr != nw break (ErrShortWrite) }; if er != nil break }
   over scripted streams.  A stream's Read script is a list of chunks followed by a terminal
   (EOF, error, or "block until Close, then error"); reads and writes of a scripted stream
   do not depend on Close otherwise, so the two pumps only interact through termination. *)
Open Scope nat_scope.
Definition bufsize : nat := N.to_nat 8192%N.   (* literal in N: no large nat numerals *)

Inductive rterm := TEOF | TErr | TBlock.
(* write behaviour: accept everything / after k accepted bytes return (partial, error) /
   after k accepted bytes return (partial, nil): a short write *)
Inductive wscript := WAll | WErrAfter (k : nat) | WShortAfter (k : nat).

(* successive Read results for one scripted chunk with an 8192 byte buffer (a chunk of
   length 0 is one Read returning (0, nil)) *)
Fixpoint split_buf (fuel : nat) (c : list N) : list (list N) :=
  match fuel with
  | 0 => [c]
  | S f => if Nat.leb (length c) bufsize then [c] else firstn bufsize c :: split_buf f (skipn bufsize c)
  end.
Definition reads_of (chunks : list (list N)) : list (list N) :=
  concat (map (fun c => split_buf (length c) c) chunks).

(* writer state: bytes accepted so far (in order), sizes of the Write calls it received,
   remaining budget (None = unlimited) *)
Record wstate := { w_acc : list N; w_log : list nat; w_budget : option nat }.
Definition winit (ws : wscript) : wstate :=
  {| w_acc := []; w_log := [];
     w_budget := match ws with WAll => None | WErrAfter k | WShortAfter k => Some k end |}.

(* one Write(p): new state and whether the whole of p was accepted *)
Definition write (w : wstate) (p : list N) : wstate * bool :=
  match w_budget w with
  | None => ({| w_acc := w_acc w ++ p; w_log := w_log w ++ [length p]; w_budget := None |}, true)
  | Some b =>
    if Nat.leb (length p) b
    then ({| w_acc := w_acc w ++ p; w_log := w_log w ++ [length p]; w_budget := Some (b - length p) |}, true)
    else ({| w_acc := w_acc w ++ firstn b p; w_log := w_log w ++ [length p]; w_budget := Some 0 |}, false)
  end.

(* the copy loop over the Read results that precede the terminal; true = the loop ended by
   itself on a failed or short write *)
Fixpoint copy (reads : list (list N)) (w : wstate) : wstate * bool :=
  match reads with
  | [] => (w, false)
  | r :: rest =>
    match r with
    | [] => copy rest w                                  (* nr = 0, er = nil: read again *)
    | _ => let '(w', ok) := write w r in
           if ok then copy rest w' else (w', true)
    end
  end.

Record side := { sd_chunks : list (list N); sd_term : rterm; sd_ws : wscript }.

(* pump src -> dst: delivered bytes, Write sizes seen by dst, and whether the pump returns
   without the help of the other pump *)
Definition pump (src dst : side) : list N * list nat * bool :=
  let '(w, wfail) := copy (reads_of (sd_chunks src)) (winit (sd_ws dst)) in
  (w_acc w, w_log w, wfail || match sd_term src with TBlock => false | _ => true end).

Record proxy_out := { po_a : list N * list nat; po_b : list N * list nat;
                      po_close1 : nat; po_close2 : nat; po_cb : nat }.

(* ProxyStreams(s1, s2, cb): pump A copies s1 -> s2, pump B copies s2 -> s1; a pump that
   returns closes s1 and s2 (which releases a pump blocked in Read) and calls cb. *)
Definition proxy (s1 s2 : side) (cb_nil : bool) : proxy_out :=
  let '(da, la, ta) := pump s1 s2 in
  let '(db, lb, tb) := pump s2 s1 in
  let fin := ta || tb in
  {| po_a := (da, la); po_b := (db, lb);
     po_close1 := if fin then 2 else 0; po_close2 := if fin then 2 else 0;
     po_cb := if fin && negb cb_nil then 2 else 0 |}.
