(* C20 (IO part): codec (integer traces <-> model calls), the model-side step, and the
   property monitors.  The monitors are the property statement as boolean functions of what
   the IMPLEMENTATION returned (and of what the harness-owned wrapped streams saw); they are
   written against a specification-level state (a section reader's position in UNBOUNDED Z,
   a running sum, an "already closed" flag, closed forms for the proxy) and never call the
   model functions of Model.v.

   A history is a sequence of calls on ONE object, chosen by the config line:
     C 1 size sr      ioseek.ReaderAtSeeker over a scripted ReaderAt serving [size] bytes;
                      sr=1: io.SectionReader is run alongside (third opinion) and every
                      observation ends with the SectionReader's position
     C 2 rd wr        iosizer.SizeReadWriter (rd/wr = 0: nil reader/writer)
     C 3 kind rd fn   iocloser.ReadCloser (kind 0) / WriteCloser (kind 1); rd=0: nil stream, fn=0: nil close func
     C 4              ioproxy.ProxyStreams, one complete run per event
   int64 values travel as their two's complement uint64.  Errors: 0 nil, 1 io.EOF, 2 other.
   Events and observations:
     ioseek    E 1 offset whence        O pos err [srpos]          (pos is reported as 0 when err <> 0: the
                                                                     number returned with an error is not part of the property)
               E 2 plen n err           O n' err' plen_seen off_seen [srpos]     (n, err: what the wrapped ReadAt returns)
     iosizer   E 1|2 plen n err         O n' err' called plen_seen total         (1 Read, 2 Write)
               E 3                      O total
     iocloser  E 1 plen n err           O n' err' called plen_seen ran           (Read resp. Write)
               E 2 ce                   O err' ran                               (Close; ce: what the close func returns)
     ioproxy   E 1 cbnil sideA sideB    O deliveredA hashA deliveredB hashB closed1 closed2 callbacks   (closed: 1 iff Close was called at least once)
               side = term wkind wk nchunks size_1 .. size_nchunks   (term 0 EOF, 1 error, 2 block until Close;
               wkind 0 accept all, 1 error after wk bytes, 2 short write after wk bytes); direction A is s1 -> s2. *)
From Util Require Import Common.Base IO.Model.
Open Scope Z_scope.

Definition to_i64 (n : N) : Z := wrap64 (Z.of_N n).
Definition of_i64 (z : Z) : N := Z.to_N (z mod two64).
Definition dec_err (n : N) : option err :=
  match n with 0%N => Some ENil | 1%N => Some EEOF | 2%N => Some EOther | _ => None end.
Definition enc_err (e : err) : N := match e with ENil => 0%N | EEOF => 1%N | EOther => 2%N end.
Definition b2N (b : bool) : N := if b then 1%N else 0%N.
Definition nz (n : N) : bool := negb (N.eqb n 0).

(* ---------- proxy scripts ---------- *)
Record side_script := { ss_term : rterm; ss_ws : wscript; ss_sizes : list nat }.

(* byte j of the data that side [sd] (1 or 2) offers to its reader; positions are counted in N
   (binary), so that building the data is linear in its length *)
Definition datab (sd : N) (j : N) : N := ((j * 7 + sd * 13 + 1) mod 251)%N.
Fixpoint nseq (start : N) (len : nat) : list N :=
  match len with
  | O => []
  | S len' => start :: nseq (N.succ start) len'
  end.
Fixpoint mk_chunks (sd : N) (pos : N) (sizes : list nat) : list (list N) :=
  match sizes with
  | [] => []
  | k :: r => map (datab sd) (nseq pos k) :: mk_chunks sd (pos + N.of_nat k)%N r
  end.
Definition side_of (sd : N) (ss : side_script) : side :=
  {| sd_chunks := mk_chunks sd 0 (ss_sizes ss); sd_term := ss_term ss; sd_ws := ss_ws ss |}.

Definition hash (l : list N) : N := fold_left (fun h b => ((h * 31 + b + 1) mod 1000003)%N) l 0%N.

Definition dec_term (n : N) : option rterm :=
  match n with 0%N => Some TEOF | 1%N => Some TErr | 2%N => Some TBlock | _ => None end.
Definition dec_ws (kind k : N) : option wscript :=
  match kind with
  | 0%N => Some WAll | 1%N => Some (WErrAfter (N.to_nat k)) | 2%N => Some (WShortAfter (N.to_nat k))
  | _ => None
  end.
Definition small (n : N) : bool := N.leb n 65536.

(* side: term wkind wk nchunks size_1 .. size_nchunks ; returns the rest *)
Definition dec_side (l : list N) : option (side_script * list N) :=
  match l with
  | t :: wk :: k :: nch :: rest =>
    let c := N.to_nat nch in
    match dec_term t, dec_ws wk k with
    | Some tm, Some ws =>
      if small nch && small k && Nat.leb c (length rest) && forallb small (firstn c rest)
      then Some ({| ss_term := tm; ss_ws := ws; ss_sizes := map N.to_nat (firstn c rest) |}, skipn c rest)
      else None
    | _, _ => None
    end
  | _ => None
  end.

(* ---------- events ---------- *)
Inductive okind := KSeek | KSizer | KCloser | KProxy.

Inductive io_ev :=
| IESeek (offset whence : N)                      (* int64 values as uint64; see to_i64 *)
| IERead (plen n : N) (e : err)
| IEIO (d : dir) (plen n : N) (e : err)
| IETotal
| IEClose (ce : err)
| IEProxy (cbnil : bool) (a b : side_script).

Definition decode (k : okind) (e : list N) : option io_ev :=
  match k, e with
  | KSeek, [1%N; o; w] => Some (IESeek o w)
  | KSeek, [2%N; pl; n; er] => option_map (IERead pl n) (dec_err er)
  | KSizer, [1%N; pl; n; er] => option_map (IEIO DRead pl n) (dec_err er)
  | KSizer, [2%N; pl; n; er] => option_map (IEIO DWrite pl n) (dec_err er)
  | KSizer, [3%N] => Some IETotal
  | KCloser, [1%N; pl; n; er] => option_map (IEIO DRead pl n) (dec_err er)
  | KCloser, [2%N; ce] => option_map IEClose (dec_err ce)
  | KProxy, 1%N :: cbnil :: rest =>
    match dec_side rest with
    | Some (a, rest2) =>
      match dec_side rest2 with
      | Some (b, []) => Some (IEProxy (nz cbnil) a b)
      | _ => None
      end
    | None => None
    end
  | _, _ => None
  end.

(* ---------- model side ---------- *)
Inductive state :=
| StSeek (s : seek_st) (sr : bool)
| StSizer (s : sizer_st)
| StCloser (s : closer_st)
| StProxy
| StBad.

Definition init (cfg : list N) : state :=
  match cfg with
  | [1%N; size; sr] =>
    if Z.of_N size <? two63 then StSeek {| sk_size := Z.of_N size; sk_off := 0 |} (nz sr) else StBad
  | [2%N; rd; wr] => StSizer {| sz_total := 0; sz_rd := nz rd; sz_wr := nz wr |}
  | [3%N; _; rd; fn] => StCloser {| cl_open := nz rd; cl_fn := nz fn; cl_ran := 0 |}
  | [4%N] => StProxy
  | _ => StBad
  end.

Definition sr_field (sr : bool) (pos : Z) : list N := if sr then [of_i64 pos] else [].

(* one direction of a proxy run: number of bytes the destination accepted and their hash.
   (The sizes of the individual Write calls are an internal detail of the copy loop: not
   part of the property and not observed.) *)
Definition enc_dir (d : list N * list nat) : list N := [N.of_nat (length (fst d)); hash (fst d)].

(* the oracle's well-formedness (the recorded domain of ioseek): the wrapped ReaderAt serves
   exactly [size] bytes, so a call ReadAt(p, off) returns 0 <= n <= len p with off + n <= size *)
Definition oracle_wf (s : seek_st) (plen : N) (n : Z) : bool :=
  (0 <=? n) && (n <=? Z.of_N plen) && (sk_off s + n <=? sk_size s).

Definition step (st : state) (e : list N) : option (state * list N) :=
  match st with
  | StSeek s sr =>
    match decode KSeek e with
    | Some (IESeek o w) =>
      let '(s', (p, er)) := seek s (to_i64 o) (to_i64 w) in
      Some (StSeek s' sr, [of_i64 p; enc_err er] ++ sr_field sr (sk_off s'))
    | Some (IERead pl n er) =>
      if oracle_wf s pl (to_i64 n) then
        let '(s', (n', er', pl', off')) := seek_read s (Z.of_N pl) (to_i64 n) er in
        Some (StSeek s' sr, [of_i64 n'; enc_err er'; Z.to_N pl'; of_i64 off'] ++ sr_field sr (sk_off s'))
      else None
    | _ => None
    end
  | StSizer s =>
    match decode KSizer e with
    | Some (IEIO d pl n er) =>
      let '(s', (n', er', called, pl')) := sizer_io s d (Z.of_N pl) (to_i64 n) er in
      Some (StSizer s', [of_i64 n'; enc_err er'; b2N called; Z.to_N pl'; Z.to_N (sz_total s')])
    | Some IETotal => Some (st, [Z.to_N (sz_total s)])
    | _ => None
    end
  | StCloser s =>
    match decode KCloser e with
    | Some (IEIO _ pl n er) =>
      let '(s', (n', er', called, pl')) := closer_io s (Z.of_N pl) (to_i64 n) er in
      Some (StCloser s', [of_i64 n'; enc_err er'; b2N called; Z.to_N pl'; N.of_nat (cl_ran s')])
    | Some (IEClose ce) =>
      let '(s', er) := closer_close s ce in
      Some (StCloser s', [enc_err er; N.of_nat (cl_ran s')])
    | _ => None
    end
  | StProxy =>
    match decode KProxy e with
    | Some (IEProxy cbnil a b) =>
      let r := proxy (side_of 1 a) (side_of 2 b) cbnil in
      Some (StProxy, enc_dir (po_a r) ++ enc_dir (po_b r) ++
                     [b2N (Nat.ltb 0 (po_close1 r)); b2N (Nat.ltb 0 (po_close2 r)); N.of_nat (po_cb r)])
    | _ => None
    end
  | StBad => None
  end.

(* ---------- specification side: monitors, property 20, clauses 1..9 ---------- *)
Inductive mstate :=
| MSeek (size pos : Z) (sr : bool)      (* a bounded section reader: position in unbounded Z *)
| MSizer (rd wr : bool) (sum : Z)       (* sum of the byte counts returned so far *)
| MCloser (open fn : bool) (ran : N)    (* not yet closed / close func pending / runs so far *)
| MProxy
| MBad.

Definition minit (cfg : list N) : mstate :=
  match cfg with
  | [1%N; size; sr] => if Z.of_N size <? two63 then MSeek (Z.of_N size) 0 (nz sr) else MBad
  | [2%N; rd; wr] => MSizer (nz rd) (nz wr) 0
  | [3%N; _; rd; fn] => MCloser (nz rd) (nz fn) 0
  | [4%N] => MProxy
  | _ => MBad
  end.

(* the target of a Seek on a section reader, in unbounded Z *)
Definition spec_target (size pos offset whence : Z) : option Z :=
  if whence =? 0 then Some offset
  else if whence =? 1 then Some (pos + offset)
  else if whence =? 2 then Some (size + offset)
  else None.
Definition in_range (size : Z) (t : option Z) : option Z :=
  match t with Some t => if (0 <=? t) && (t <=? size) then Some t else None | None => None end.

Definition sr_ok (sr : bool) (pos : Z) (tail : list N) : bool :=
  if sr then match tail with [p] => to_i64 p =? pos | _ => false end
  else match tail with [] => true | _ => false end.

Definition fails (c : nat) (ok : bool) : list (nat * nat) := if ok then [] else [(20%nat, c)].

Definition mon_seek (size pos : Z) (sr : bool) (ev : io_ev) (o : list N) : mstate * list (nat * nat) :=
  match ev with
  | IESeek offset whence =>
    match o with
    | p :: er :: tail =>
      match in_range size (spec_target size pos (to_i64 offset) (to_i64 whence)) with
      | Some t =>     (* clause 1: an in-range seek moves exactly to the target *)
        (MSeek size t sr, fails 1 ((to_i64 p =? t) && N.eqb er 0) ++ fails 3 (sr_ok sr t tail))
      | None =>       (* clause 1: out of range / invalid whence fails; position unchanged (seen by clause 2 later) *)
        (MSeek size pos sr, fails 1 (negb (N.eqb er 0)) ++ fails 3 (sr_ok sr pos tail))
      end
    | _ => (MSeek size pos sr, [(20%nat, 1%nat)])
    end
  | IERead pl n0 er =>
    let n := to_i64 n0 in
    match o with
    | n' :: er' :: pl' :: off' :: tail =>
      (* clause 2: the wrapped ReadAt is called with (p, position), its result is returned
         unchanged, the position advances by the returned count *)
      (MSeek size (pos + n) sr,
       fails 2 ((to_i64 n' =? n) && N.eqb er' (enc_err er) && N.eqb pl' pl && (to_i64 off' =? pos))
       ++ fails 3 (sr_ok sr (pos + n) tail))
    | _ => (MSeek size (pos + n) sr, [(20%nat, 2%nat)])
    end
  | _ => (MSeek size pos sr, [])
  end.

Definition mon_sizer (rd wr : bool) (sum : Z) (ev : io_ev) (o : list N) : mstate * list (nat * nat) :=
  match ev with
  | IEIO d pl n0 er =>
    let n := to_i64 n0 in
    match o with
    | [n'; er'; called; pl'; total] =>
      let sum' := sum + Z.max 0 (to_i64 n') in
      let pass := if (match d with DRead => rd | DWrite => wr end)
                  then (to_i64 n' =? n) && N.eqb er' (enc_err er) && N.eqb called 1 && N.eqb pl' pl
                  else (to_i64 n' =? 0) && N.eqb er' 1 && N.eqb called 0 in
      (* clause 4: pass-through (nil stream: 0, EOF) and total = sum of returned counts (mod 2^64) *)
      (MSizer rd wr sum', fails 4 (pass && N.eqb total (Z.to_N (sum' mod two64))))
    | _ => (MSizer rd wr sum, [(20%nat, 4%nat)])
    end
  | IETotal =>
    match o with
    | [total] => (MSizer rd wr sum, fails 4 (N.eqb total (Z.to_N (sum mod two64))))
    | _ => (MSizer rd wr sum, [(20%nat, 4%nat)])
    end
  | _ => (MSizer rd wr sum, [])
  end.

Definition mon_closer (open fn : bool) (ran : N) (ev : io_ev) (o : list N) : mstate * list (nat * nat) :=
  match ev with
  | IEIO _ pl n0 er =>
    let n := to_i64 n0 in
    match o with
    | [n'; er'; called; pl'; ran'] =>
      (MCloser open fn ran,
       (if open
        then (* clause 5: before Close every call is passed through *)
          fails 5 ((to_i64 n' =? n) && N.eqb er' (enc_err er) && N.eqb called 1 && N.eqb pl' pl)
        else (* clause 7: after Close (or over a nil stream): 0, EOF, wrapped stream untouched *)
          fails 7 ((to_i64 n' =? 0) && N.eqb er' 1 && N.eqb called 0))
       ++ fails 6 (N.eqb ran' ran))
    | _ => (MCloser open fn ran, [(20%nat, 5%nat)])
    end
  | IEClose ce =>
    let ran2 := if fn then (ran + 1)%N else ran in
    match o with
    | [er'; ran'] =>
      (* clause 6: the close function runs on the first Close only (the error returned by
         Close is not part of the property; it is compared with the model only) *)
      (MCloser false false ran2, fails 6 (N.eqb ran' ran2))
    | _ => (MCloser false false ran2, [(20%nat, 6%nat)])
    end
  | _ => (MCloser open fn ran, [])
  end.

(* proxy: closed forms.  A writer that fails after k bytes receives min(total, k) bytes; a
   pump returns on its own iff its source ends (EOF/error) or its destination fails. *)
Definition total_of (ss : side_script) : nat := fold_right plus 0%nat (ss_sizes ss).
Definition budget_of (ws : wscript) (total : nat) : nat :=
  match ws with WAll => total | WErrAfter k | WShortAfter k => Nat.min total k end.
Definition self_terminates (src dst : side_script) : bool :=
  match ss_term src with TBlock => false | _ => true end ||
  match ss_ws dst with WAll => false | WErrAfter k | WShortAfter k => Nat.ltb k (total_of src) end.

Definition dec_dir (o : list N) : option (N * N * list N) :=
  match o with
  | d :: h :: rest => Some (d, h, rest)
  | _ => None
  end.

(* clause 8: in each direction the destination received, in order, exactly the first
   budget bytes of the source (all of them when the destination accepts everything) *)
Definition ok_dir (sd : N) (src dst : side_script) (delivered h : N) : bool :=
  let b := budget_of (ss_ws dst) (total_of src) in
  N.eqb delivered (N.of_nat b) && N.eqb h (hash (map (datab sd) (nseq 0 b))).

Definition mon_proxy (ev : io_ev) (o : list N) : list (nat * nat) :=
  match ev with
  | IEProxy cbnil a b =>
    match dec_dir o with
    | Some (da, ha, rest) =>
      match dec_dir rest with
      | Some (db, hb, [c1; c2; cb]) =>
        fails 8 (ok_dir 1 a b da ha && ok_dir 2 b a db hb) ++
        (* clause 9: both sides closed and the callback called twice (when some pump can
           return at all; two sides that both block forever keep the proxy running) *)
        fails 9 (if self_terminates a b || self_terminates b a
                 then N.leb 1 c1 && N.leb 1 c2 && N.eqb cb (if cbnil then 0 else 2)
                 else N.eqb c1 0 && N.eqb c2 0 && N.eqb cb 0)
      | _ => [(20%nat, 8%nat)]
      end
    | None => [(20%nat, 8%nat)]
    end
  | _ => []
  end.

Definition mon (m : mstate) (e o : list N) : mstate * list (nat * nat) :=
  match m with
  | MSeek size pos sr =>
    match decode KSeek e with Some ev => mon_seek size pos sr ev o | None => (m, []) end
  | MSizer rd wr sum =>
    match decode KSizer e with Some ev => mon_sizer rd wr sum ev o | None => (m, []) end
  | MCloser open fn ran =>
    match decode KCloser e with Some ev => mon_closer open fn ran ev o | None => (m, []) end
  | MProxy =>
    match decode KProxy e with Some ev => (MProxy, mon_proxy ev o) | None => (m, []) end
  | MBad => (MBad, [])
  end.

Definition run_check_io (cfg : list N) (evs obss : list (list N)) : list issue :=
  run_check step mon (init cfg) (minit cfg) evs obss.
