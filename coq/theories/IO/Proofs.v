(* C20 (IO part): all lemmas.  Stdlib only, no axioms. *)
From Util Require Import Common.Base IO.Model IO.Spec.
From Coq Require Import ZifyBool ZifyNat ZifyN.
Ltac Zify.zify_post_hook ::= Z.div_mod_to_equations.
Open Scope Z_scope.

(* ------------------------------------------------------------------ *)
(* int64 / uint64 arithmetic *)
Definition i64 (z : Z) : Prop := - two63 <= z < two63.

Lemma wrap64_id z : i64 z -> wrap64 z = z.
Proof. unfold i64, wrap64, two63, two64. intros H. lia. Qed.

Lemma wrap64_range z : i64 (wrap64 z).
Proof. unfold i64, wrap64, two63, two64. lia. Qed.

(* an addition that overflows upwards comes out negative *)
Lemma wrap64_over z : two63 <= z < two64 -> wrap64 z = z - two64 /\ wrap64 z < 0.
Proof. unfold wrap64, two63, two64. intros H. lia. Qed.

Lemma wrap64_under z : - two64 <= z < - two63 -> wrap64 z = z + two64 /\ 0 <= wrap64 z.
Proof. unfold wrap64, two63, two64. intros H. lia. Qed.

Lemma to_i64_range n : i64 (to_i64 n).
Proof. apply wrap64_range. Qed.

Lemma to_of_i64 z : i64 z -> to_i64 (of_i64 z) = z.
Proof.
  unfold to_i64, of_i64, i64, wrap64, two63, two64. intros H.
  rewrite Z2N.id by lia. lia.
Qed.

Lemma enc_dec_err n e : dec_err n = Some e -> enc_err e = n.
Proof.
  unfold dec_err. destruct n as [|[[p|p|]|[p|p|]|]]; intros H; inversion H; reflexivity.
Qed.

(* ------------------------------------------------------------------ *)
(* ioseek *)
Definition seek_inv (s : seek_st) : Prop := 0 <= sk_off s <= sk_size s /\ sk_size s < two63.

(* In-range target (computed in unbounded Z): the position moves exactly there.  No
   "the target does not overflow" hypothesis is needed: under the invariant an in-range
   target is representable. *)
Lemma seek_in_range s o w t :
  seek_inv s -> i64 o ->
  spec_target (sk_size s) (sk_off s) o w = Some t -> 0 <= t <= sk_size s ->
  seek s o w = ({| sk_size := sk_size s; sk_off := t |}, (t, ENil)).
Proof.
  intros [Hoff Hsz] Ho Ht Hr. unfold spec_target in Ht. unfold seek.
  assert (Hgo : forall x, x = t -> seek_to s x = ({| sk_size := sk_size s; sk_off := t |}, (t, ENil))).
  { intros x ->. unfold seek_to.
    destruct (Z.ltb_spec t 0) as [H|H]; [lia|].
    destruct (Z.ltb_spec (sk_size s) t) as [H2|H2]; [lia|]. reflexivity. }
  destruct (Z.eqb_spec w 0) as [Hw|Hw]; [inversion Ht; now apply Hgo|].
  destruct (Z.eqb_spec w 1) as [Hw1|Hw1].
  { inversion Ht; subst t. apply Hgo. apply wrap64_id. unfold i64, two63 in *. lia. }
  destruct (Z.eqb_spec w 2) as [Hw2|Hw2]; [|discriminate].
  inversion Ht; subst t. apply Hgo. apply wrap64_id. unfold i64, two63 in *. lia.
Qed.

(* Out-of-range target or invalid whence: the call fails and the state is unchanged.  This
   covers the overflowing additions: wrap-around never turns an out-of-range target into
   an in-range one. *)
Lemma seek_out_of_range s o w :
  seek_inv s -> i64 o ->
  in_range (sk_size s) (spec_target (sk_size s) (sk_off s) o w) = None ->
  fst (seek s o w) = s /\ snd (snd (seek s o w)) <> ENil /\ fst (snd (seek s o w)) = 0.
Proof.
  intros [Hoff Hsz] Ho Hr. unfold in_range, spec_target in Hr. unfold seek.
  assert (Hgo : forall x, x < 0 \/ sk_size s < x ->
                fst (seek_to s x) = s /\ snd (snd (seek_to s x)) <> ENil /\ fst (snd (seek_to s x)) = 0).
  { intros x Hx. unfold seek_to.
    destruct (Z.ltb_spec x 0) as [H|H]; [cbn; repeat split; discriminate|].
    destruct (Z.ltb_spec (sk_size s) x) as [H2|H2]; [cbn; repeat split; discriminate|]. lia. }
  destruct (Z.eqb_spec w 0) as [Hw|Hw].
  { apply Hgo. destruct (Z.leb_spec 0 o), (Z.leb_spec o (sk_size s)); cbn in Hr; try discriminate; lia. }
  destruct (Z.eqb_spec w 1) as [Hw1|Hw1].
  { apply Hgo.
    destruct (Z.leb_spec 0 (sk_off s + o)) as [H1|H1], (Z.leb_spec (sk_off s + o) (sk_size s)) as [H2|H2];
      cbn in Hr; try discriminate.
    - (* target beyond the end *)
      destruct (Z.lt_ge_cases (sk_off s + o) two63) as [Hs|Hs].
      + rewrite wrap64_id by (unfold i64, two63 in *; lia). lia.
      + left. apply wrap64_over. unfold i64, two63, two64 in *. lia.
    - rewrite wrap64_id by (unfold i64, two63 in *; lia). lia.
    - lia. }
  destruct (Z.eqb_spec w 2) as [Hw2|Hw2].
  { apply Hgo.
    destruct (Z.leb_spec 0 (sk_size s + o)) as [H1|H1], (Z.leb_spec (sk_size s + o) (sk_size s)) as [H2|H2];
      cbn in Hr; try discriminate.
    - destruct (Z.lt_ge_cases (sk_size s + o) two63) as [Hs|Hs].
      + rewrite wrap64_id by (unfold i64, two63 in *; lia). lia.
      + left. apply wrap64_over. unfold i64, two63, two64 in *. lia.
    - rewrite wrap64_id by (unfold i64, two63 in *; lia). lia.
    - lia. }
  cbn. repeat split. discriminate.
Qed.

(* reference machine: a bounded section reader whose position lives in unbounded Z *)
Inductive ref_obs := RSeekOk (t : Z) | RSeekFail | RRead (n off : Z).

Definition ref_step (size pos : Z) (ev : seek_ev) : Z * ref_obs :=
  match ev with
  | EvSeek o w =>
    match in_range size (spec_target size pos o w) with
    | Some t => (t, RSeekOk t)
    | None => (pos, RSeekFail)
    end
  | EvRead pl n e => (pos + n, RRead n pos)
  end.

Fixpoint ref_run (size pos : Z) (evs : list seek_ev) : Z * list ref_obs :=
  match evs with
  | [] => (pos, [])
  | ev :: evs' => let '(p1, o) := ref_step size pos ev in
                  let '(p2, os) := ref_run size p1 evs' in (p2, o :: os)
  end.

(* what a caller sees of the model's observations *)
Definition abs_obs (o : seek_obs) : ref_obs :=
  match o with
  | ObSeek p ENil => RSeekOk p
  | ObSeek _ _ => RSeekFail
  | ObRead n _ _ off => RRead n off
  end.

(* domain: Seek offsets are int64 values; the wrapped ReaderAt serves exactly [size] bytes *)
Fixpoint wf_evs (size pos : Z) (evs : list seek_ev) : Prop :=
  match evs with
  | [] => True
  | ev :: evs' =>
    match ev with
    | EvSeek o _ => i64 o
    | EvRead pl n _ => 0 <= n <= pl /\ pos + n <= size
    end /\ wf_evs size (fst (ref_step size pos ev)) evs'
  end.

Lemma in_range_bounds size t r : in_range size t = Some r -> 0 <= r <= size.
Proof.
  unfold in_range. destruct t as [t|]; [|discriminate].
  destruct (Z.leb_spec 0 t) as [A|A], (Z.leb_spec t size) as [B|B]; cbn; intros E; inversion E; subst; lia.
Qed.

Lemma in_range_some size t r : in_range size (Some t) = Some r -> r = t.
Proof. unfold in_range. destruct ((0 <=? t) && (t <=? size)); intros H; inversion H; reflexivity. Qed.

Lemma seek_step_refines s ev :
  seek_inv s -> wf_evs (sk_size s) (sk_off s) [ev] ->
  let '(s', o) := seek_step s ev in
  let '(p', ro) := ref_step (sk_size s) (sk_off s) ev in
  sk_size s' = sk_size s /\ sk_off s' = p' /\ abs_obs o = ro /\ seek_inv s'.
Proof.
  intros Hinv [Hwf _]. destruct ev as [o w|pl n e]; cbn [seek_step ref_step].
  - destruct (in_range (sk_size s) (spec_target (sk_size s) (sk_off s) o w)) as [t|] eqn:Hr.
    + pose proof (in_range_bounds _ _ _ Hr) as Hb.
      destruct (spec_target (sk_size s) (sk_off s) o w) as [t0|] eqn:Ht; [|discriminate].
      apply in_range_some in Hr. subst t0.
      rewrite (seek_in_range s o w t Hinv Hwf Ht Hb). cbn.
      split; [reflexivity|split; [reflexivity|split; [reflexivity|]]].
      unfold seek_inv in *. cbn. lia.
    + pose proof (seek_out_of_range s o w Hinv Hwf Hr) as (H1 & H2 & H3).
      destruct (seek s o w) as [s' [p er]]. cbn in *. subst s' p.
      split; [reflexivity|split; [reflexivity|split; [|exact Hinv]]].
      destruct er; [congruence| |]; reflexivity.
  - destruct Hinv as [Hoff Hsz]. cbn.
    rewrite wrap64_id by (unfold i64, two63 in *; lia).
    split; [reflexivity|split; [reflexivity|split; [reflexivity|]]].
    unfold seek_inv. cbn. lia.
Qed.

(* The whole-history statement: on every well-formed sequence of calls the wrapper is
   indistinguishable (position, success/failure of every Seek, count of every Read, offset
   handed to the wrapped ReadAt) from the bounded section reader, and 0 <= off <= size. *)
Lemma seek_refines_section_reader evs : forall s,
  seek_inv s -> wf_evs (sk_size s) (sk_off s) evs ->
  sk_off (fst (seek_run s evs)) = fst (ref_run (sk_size s) (sk_off s) evs) /\
  map abs_obs (snd (seek_run s evs)) = snd (ref_run (sk_size s) (sk_off s) evs) /\
  seek_inv (fst (seek_run s evs)) /\ sk_size (fst (seek_run s evs)) = sk_size s.
Proof.
  induction evs as [|ev evs IH]; intros s Hinv Hwf.
  - cbn. auto.
  - cbn [seek_run ref_run].
    pose proof (seek_step_refines s ev Hinv) as Hst.
    destruct Hwf as [Hwf1 Hwf2].
    specialize (Hst (conj Hwf1 I)).
    destruct (seek_step s ev) as [s1 o]. destruct (ref_step (sk_size s) (sk_off s) ev) as [p1 ro].
    destruct Hst as (Hsz & Hoff & Hab & Hinv1). cbn [fst] in Hwf2.
    specialize (IH s1 Hinv1). rewrite Hsz, Hoff in IH. specialize (IH Hwf2).
    destruct (seek_run s1 evs) as [s2 os]. destruct (ref_run (sk_size s) p1 evs) as [p2 ros].
    cbn [fst snd map] in *. destruct IH as (A & B & C & D).
    split; [exact A|split; [congruence|split; [exact C|congruence]]].
Qed.

(* the position moves only by returned counts and by successful seeks *)
Lemma seek_position_moves_only s ev :
  let '(s', o) := seek_step s ev in
  match o with
  | ObSeek p ENil => sk_off s' = p
  | ObSeek _ _ => s' = s
  | ObRead n _ pl off => off = sk_off s /\ sk_off s' = wrap64 (sk_off s + n)
  end.
Proof.
  destruct ev as [o w|pl n e]; cbn [seek_step].
  - unfold seek, seek_to.
    destruct (w =? 0); [|destruct (w =? 1); [|destruct (w =? 2)]];
      repeat match goal with |- context [if ?b then _ else _] => destruct b end; cbn; auto.
  - cbn. auto.
Qed.

(* faithful model of the overflowing case (outside the domain: position pushed past size by
   an ill-formed oracle): SeekCurrent with a huge offset wraps to a negative position and
   fails, exactly as the int64 addition in the Go code does *)
Lemma seek_overflow_wraps :
  seek {| sk_size := 10; sk_off := 10 |} (two63 - 1) 1 = ({| sk_size := 10; sk_off := 10 |}, (0, EOther)) /\
  wrap64 (10 + (two63 - 1)) = - two63 + 9.
Proof. split; reflexivity. Qed.

(* ------------------------------------------------------------------ *)
(* iosizer *)
Definition ret_n (o : Z * err * bool * Z) : Z := let '(n, _, _, _) := o in n.
Definition sum_ret (outs : list (Z * err * bool * Z)) : Z :=
  fold_right Z.add 0 (map (fun o => Z.max 0 (ret_n o)) outs).

Lemma wrapu64_add a b : wrapu64 (wrapu64 a + b) = wrapu64 (a + b).
Proof. unfold wrapu64. rewrite Zplus_mod_idemp_l. reflexivity. Qed.

(* total = (initial + sum of the returned counts) mod 2^64, over every sequence of calls *)
Lemma sizer_total_is_sum evs : forall s, 0 <= sz_total s < two64 ->
  sz_total (fst (sizer_run s evs)) = wrapu64 (sz_total s + sum_ret (snd (sizer_run s evs))) /\
  0 <= sz_total (fst (sizer_run s evs)) < two64.
Proof.
  induction evs as [|ev evs IH]; intros s Hs.
  - cbn. unfold sum_ret, wrapu64. cbn. unfold two64 in *. split; lia.
  - cbn [sizer_run]. unfold sizer_io.
    destruct (sz_present s (se_dir ev)) eqn:Hp.
    + set (s1 := {| sz_total := _; sz_rd := _; sz_wr := _ |}).
      assert (Hs1 : 0 <= sz_total s1 < two64).
      { subst s1. cbn [sz_total]. destruct (0 <? se_n ev); [|exact Hs]. unfold wrapu64, two64. lia. }
      specialize (IH s1 Hs1). destruct (sizer_run s1 evs) as [s2 os]. cbn [fst snd] in *.
      destruct IH as [IH IHr]. split; [|exact IHr].
      rewrite IH. unfold sum_ret. cbn [map fold_right ret_n]. subst s1. cbn [sz_total].
      destruct (Z.ltb_spec 0 (se_n ev)) as [H|H].
      * rewrite wrapu64_add. f_equal. unfold sum_ret. lia.
      * f_equal. unfold sum_ret. lia.
    + specialize (IH s Hs). destruct (sizer_run s evs) as [s2 os]. cbn [fst snd] in *.
      destruct IH as [IH IHr]. split; [|exact IHr].
      rewrite IH. unfold sum_ret. cbn [map fold_right ret_n]. f_equal; lia.
Qed.

(* a nil reader / writer: (0, EOF), wrapped stream not called, total unchanged *)
Lemma sizer_nil s d pl n e : sz_present s d = false -> sizer_io s d pl n e = (s, (0, EEOF, false, 0)).
Proof. intros H. unfold sizer_io. now rewrite H. Qed.

Lemma sizer_pass s d pl n e : sz_present s d = true ->
  snd (sizer_io s d pl n e) = (n, e, true, pl).
Proof. intros H. unfold sizer_io. now rewrite H. Qed.

(* defect D16: the pinned code skips any single transfer larger than MaxUint32 *)
Lemma sizer_pinned_refuted :
  let s0 := {| sz_total := 0; sz_rd := true; sz_wr := true |} in
  let ev := {| se_dir := DRead; se_plen := 16; se_n := 4294967301; se_err := ENil |} in
  sz_total (fst (sizer_run_pinned s0 [ev])) = 0 /\
  sum_ret (snd (sizer_run_pinned s0 [ev])) = 4294967301 /\
  sz_total (fst (sizer_run s0 [ev])) = 4294967301.
Proof. cbv. repeat split. Qed.

(* ------------------------------------------------------------------ *)
(* iocloser *)
Definition is_close (ev : closer_ev) : bool := match ev with CvClose _ => true | _ => false end.

Lemma closer_run_app evs1 : forall s evs2,
  closer_run s (evs1 ++ evs2) =
  (fst (closer_run (fst (closer_run s evs1)) evs2),
   snd (closer_run s evs1) ++ snd (closer_run (fst (closer_run s evs1)) evs2)).
Proof.
  induction evs1 as [|ev evs1 IH]; intros s evs2.
  - cbn. now destruct (closer_run s evs2).
  - cbn [app closer_run]. destruct (closer_step s ev) as [s1 o].
    rewrite IH. destruct (closer_run s1 evs1) as [s2 os]. cbn [fst snd].
    destruct (closer_run s2 evs2). reflexivity.
Qed.

(* before Close every call is passed through: same arguments in, same results out *)
Lemma closer_passes_until_close evs : forall s,
  cl_open s = true -> existsb is_close evs = false ->
  snd (closer_run s evs) =
    map (fun ev => match ev with CvIO pl n e => CoIO n e true pl | CvClose ce => CoClose ce end) evs /\
  fst (closer_run s evs) = s.
Proof.
  induction evs as [|ev evs IH]; intros s Ho Hc; [cbn; auto|].
  cbn [existsb] in Hc. apply orb_false_iff in Hc as [Hc1 Hc2].
  destruct ev as [pl n e|ce]; [|discriminate].
  cbn [closer_run closer_step]. unfold closer_io. rewrite Ho.
  specialize (IH s Ho Hc2). destruct (closer_run s evs) as [s2 os]. cbn [fst snd map] in *.
  destruct IH as [-> ->]. auto.
Qed.

Lemma closer_closed_stays evs : forall s,
  cl_open s = false -> cl_fn s = false ->
  fst (closer_run s evs) = s /\
  snd (closer_run s evs) =
    map (fun ev => match ev with CvIO _ _ _ => CoIO 0 EEOF false 0 | CvClose _ => CoClose ENil end) evs.
Proof.
  induction evs as [|ev evs IH]; intros s Ho Hf; [cbn; auto|].
  cbn [closer_run]. destruct ev as [pl n e|ce]; cbn [closer_step].
  - unfold closer_io. rewrite Ho.
    specialize (IH s Ho Hf). destruct (closer_run s evs) as [s2 os]. cbn [fst snd map] in *.
    destruct IH as [-> ->]. auto.
  - unfold closer_close. rewrite Hf.
    assert (Hs : {| cl_open := false; cl_fn := false; cl_ran := cl_ran s |} = s).
    { destruct s; cbn in *; subst; reflexivity. }
    rewrite Hs. specialize (IH s Ho Hf). destruct (closer_run s evs) as [s2 os]. cbn [fst snd map] in *.
    destruct IH as [-> ->]. auto.
Qed.

Lemma closer_ran_no_close evs : forall s,
  existsb is_close evs = false -> fst (closer_run s evs) = s.
Proof.
  induction evs as [|ev evs IH]; intros s Hc; [reflexivity|].
  cbn [existsb] in Hc. apply orb_false_iff in Hc as [Hc1 Hc2].
  destruct ev as [pl n e|ce]; [|discriminate].
  cbn [closer_run closer_step]. unfold closer_io.
  specialize (IH s Hc2).
  destruct (cl_open s); destruct (closer_run s evs) as [s2 os]; cbn [fst] in *; exact IH.
Qed.

(* the close function runs exactly once over any sequence that contains a Close (never
   when it is nil or no Close is called) *)
Lemma closer_fn_exactly_once evs s :
  cl_ran (fst (closer_run s evs)) =
  (cl_ran s + if cl_fn s && existsb is_close evs then 1 else 0)%nat.
Proof.
  revert s. induction evs as [|ev evs IH]; intros s.
  - cbn. rewrite andb_false_r. lia.
  - cbn [closer_run existsb]. destruct ev as [pl n e|ce]; cbn [closer_step is_close orb].
    + unfold closer_io. specialize (IH s).
      destruct (cl_open s); destruct (closer_run s evs) as [s2 os]; cbn [fst] in *; exact IH.
    + unfold closer_close. set (s1 := {| cl_open := false; cl_fn := false; cl_ran := _ |}).
      pose proof (closer_closed_stays evs s1 eq_refl eq_refl) as [Hs _].
      destruct (closer_run s1 evs) as [s2 os]. cbn [fst] in *. subst s2 s1. cbn [cl_ran].
      rewrite andb_true_r. destruct (cl_fn s); lia.
Qed.

(* after Close: every Read/Write returns (0, EOF) and the wrapped stream receives no call;
   every further Close returns nil without running anything *)
Lemma closer_eof_after_close evs1 ce evs2 s :
  let r := closer_run s (evs1 ++ CvClose ce :: evs2) in
  skipn (S (length evs1)) (snd r) =
    map (fun ev => match ev with CvIO _ _ _ => CoIO 0 EEOF false 0 | CvClose _ => CoClose ENil end) evs2.
Proof.
  cbn zeta. rewrite closer_run_app. cbn [snd].
  assert (Hl : forall evs s, length (snd (closer_run s evs)) = length evs).
  { induction evs as [|ev evs IH]; intros s0; [reflexivity|].
    cbn [closer_run]. destruct (closer_step s0 ev) as [s1 o]. specialize (IH s1).
    destruct (closer_run s1 evs). cbn [snd length] in *. now rewrite IH. }
  cbn [closer_run closer_step]. unfold closer_close.
  set (s0 := fst (closer_run s evs1)).
  set (s1 := {| cl_open := false; cl_fn := false; cl_ran := _ |}).
  pose proof (closer_closed_stays evs2 s1 eq_refl eq_refl) as [_ Ho].
  destruct (closer_run s1 evs2) as [s2 os]. cbn [snd] in *.
  replace (S (length evs1)) with (length (snd (closer_run s evs1) ++ [CoClose (if cl_fn s0 then ce else ENil)])).
  2:{ rewrite app_length, Hl. cbn. lia. }
  change (snd (closer_run s evs1) ++ CoClose (if cl_fn s0 then ce else ENil) :: os)
    with (snd (closer_run s evs1) ++ [CoClose (if cl_fn s0 then ce else ENil)] ++ os).
  rewrite app_assoc, skipn_app, skipn_all, Nat.sub_diag. cbn. exact Ho.
Qed.

(* ------------------------------------------------------------------ *)
(* ioproxy (about the MODELLED io.CopyBuffer loop; the real one is Go's) *)
Open Scope nat_scope.

Lemma bufsize_pos : 1 <= bufsize.
Proof. unfold bufsize. lia. Qed.
Lemma le_bufsize_N k : k <= bufsize -> N.leb (N.of_nat k) 8192 = true.
Proof. unfold bufsize. intros H. apply N.leb_le. lia. Qed.
Local Opaque bufsize.

Lemma skipn_len_app {A} (l x : list A) : skipn (length l) (l ++ x) = x.
Proof. induction l as [|a l IH]; [reflexivity|exact IH]. Qed.
Lemma firstn_len_app {A} (l x : list A) : firstn (length l) (l ++ x) = l.
Proof. induction l as [|a l IH]; [now destruct x|cbn; now rewrite IH]. Qed.
Lemma firstn_min_len {A} (l : list A) k : firstn (Nat.min (length l) k) l = firstn k l.
Proof.
  destruct (Nat.le_ge_cases k (length l)) as [H|H].
  - now rewrite Nat.min_r.
  - rewrite Nat.min_l by exact H. rewrite firstn_all. symmetry. now apply firstn_all2.
Qed.

Lemma split_buf_concat f : forall c, concat (split_buf f c) = c.
Proof.
  induction f as [|f IH]; intros c; cbn [split_buf].
  - cbn. apply app_nil_r.
  - destruct (Nat.leb (length c) bufsize); cbn [concat].
    + apply app_nil_r.
    + rewrite IH. apply firstn_skipn.
Qed.

Lemma reads_of_concat chunks : concat (reads_of chunks) = concat chunks.
Proof.
  unfold reads_of. induction chunks as [|c cs IH]; [reflexivity|].
  cbn [map concat]. now rewrite concat_app, split_buf_concat, IH.
Qed.

Lemma split_buf_small f : forall c, length c <= f -> Forall (fun r => length r <= bufsize) (split_buf f c).
Proof.
  pose proof bufsize_pos as Hb.
  induction f as [|f IH]; intros c H; cbn [split_buf].
  - constructor; [lia|constructor].
  - destruct (Nat.leb_spec (length c) bufsize) as [Hc|Hc].
    + constructor; [exact Hc|constructor].
    + constructor.
      * rewrite firstn_length. lia.
      * apply IH. rewrite skipn_length. lia.
Qed.

Lemma reads_of_small chunks : Forall (fun r => length r <= bufsize) (reads_of chunks).
Proof.
  unfold reads_of. induction chunks as [|c cs IH]; [constructor|].
  cbn [map concat]. apply Forall_app. split; [apply split_buf_small; lia|exact IH].
Qed.

Lemma copy_cons r rest w : r <> [] ->
  copy (r :: rest) w = (let '(w', ok) := write w r in if ok then copy rest w' else (w', true)).
Proof. destruct r; [congruence|reflexivity]. Qed.

Definition wlog_ok (w : wstate) : Prop := Forall (fun k => k <= bufsize) (w_log w).

(* the copy loop: the destination receives, in order, the first [budget] bytes of what the
   source offers; it stops by itself iff the destination fails (budget exceeded) *)
Lemma copy_spec reads : forall w,
  Forall (fun r => length r <= bufsize) reads -> wlog_ok w ->
  wlog_ok (fst (copy reads w)) /\
  match w_budget w with
  | None => w_acc (fst (copy reads w)) = w_acc w ++ concat reads /\ snd (copy reads w) = false
  | Some b => w_acc (fst (copy reads w)) = w_acc w ++ firstn b (concat reads) /\
              snd (copy reads w) = Nat.ltb b (length (concat reads))
  end.
Proof.
  induction reads as [|r rest IH]; intros w Hr Hw.
  - cbn [copy fst snd concat]. split; [exact Hw|].
    destruct (w_budget w); rewrite ?firstn_nil, app_nil_r; auto.
  - inversion Hr as [|r0 rest0 Hr1 Hr2]; subst.
    destruct r as [|x r'].
    + cbn [copy concat app]. apply IH; assumption.
    + rewrite copy_cons by discriminate. remember (x :: r') as r eqn:Er. clear Er x r'. unfold write.
      destruct (w_budget w) as [b|] eqn:Hb.
      * destruct (Nat.leb_spec (length r) b) as [Hle|Hgt]; cbv beta iota zeta.
        -- set (w1 := {| w_acc := _; w_log := _; w_budget := _ |}).
           assert (Hw1 : wlog_ok w1).
           { unfold wlog_ok. subst w1. cbn [w_log]. apply Forall_app. split; [exact Hw|]. constructor; [exact Hr1|constructor]. }
           specialize (IH w1 Hr2 Hw1). subst w1. cbn [w_budget w_acc] in IH.
           destruct IH as [IH1 [IH2 IH3]]. split; [exact IH1|]. split.
           ++ rewrite IH2. cbn [concat]. rewrite firstn_app, (firstn_all2 r) by exact Hle.
              now rewrite app_assoc.
           ++ rewrite IH3. cbn [concat]. rewrite app_length.
              destruct (Nat.ltb_spec (b - length r) (length (concat rest))), (Nat.ltb_spec b (length r + length (concat rest))); try reflexivity; lia.
        -- cbn [fst snd w_acc]. split.
           { unfold wlog_ok. cbn [w_log]. apply Forall_app. split; [exact Hw|]. constructor; [exact Hr1|constructor]. }
           split.
           ++ cbn [concat]. rewrite firstn_app. replace (b - length r) with 0 by lia.
              now rewrite firstn_O, app_nil_r.
           ++ cbn [concat]. rewrite app_length. symmetry. apply Nat.ltb_lt. lia.
      * cbv beta iota zeta. set (w1 := {| w_acc := _; w_log := _; w_budget := _ |}).
        assert (Hw1 : wlog_ok w1).
        { unfold wlog_ok. subst w1. cbn [w_log]. apply Forall_app. split; [exact Hw|]. constructor; [exact Hr1|constructor]. }
        specialize (IH w1 Hr2 Hw1). subst w1. cbn [w_budget w_acc] in IH.
        destruct IH as [IH1 [IH2 IH3]]. split; [exact IH1|]. split; [|exact IH3].
        rewrite IH2. cbn [concat]. now rewrite app_assoc.
Qed.

Definition wfails (ws : wscript) (total : nat) : bool :=
  match ws with WAll => false | WErrAfter k | WShortAfter k => Nat.ltb k total end.
Definition ends (t : rterm) : bool := match t with TBlock => false | _ => true end.

Lemma pump_spec src dst :
  let data := concat (sd_chunks src) in
  fst (fst (pump src dst)) = firstn (budget_of (sd_ws dst) (length data)) data /\
  Forall (fun k => k <= bufsize) (snd (fst (pump src dst))) /\
  snd (pump src dst) = wfails (sd_ws dst) (length data) || ends (sd_term src).
Proof.
  cbn zeta. unfold pump.
  pose proof (copy_spec (reads_of (sd_chunks src)) (winit (sd_ws dst)) (reads_of_small _)) as H.
  specialize (H ltac:(unfold wlog_ok, winit; cbn; constructor)).
  destruct (copy (reads_of (sd_chunks src)) (winit (sd_ws dst))) as [w fl]. cbn [fst snd] in *.
  rewrite reads_of_concat in H. destruct H as [H1 H2].
  split; [|split; [exact H1|]].
  - destruct (sd_ws dst) as [|k|k]; cbn [winit w_budget w_acc budget_of app] in *.
    + destruct H2 as [-> _]. now rewrite firstn_all.
    + destruct H2 as [-> _]. now rewrite firstn_min_len.
    + destruct H2 as [-> _]. now rewrite firstn_min_len.
  - unfold ends. destruct (sd_ws dst) as [|k|k]; cbn [winit w_budget wfails] in *; destruct H2 as [_ ->]; reflexivity.
Qed.

(* bytes are delivered in order in both directions: each destination holds exactly a prefix
   of what its source offered, and the whole of it when the destination accepts everything *)
Lemma proxy_bytes_in_order s1 s2 cbnil :
  let r := proxy s1 s2 cbnil in
  fst (po_a r) = firstn (budget_of (sd_ws s2) (length (concat (sd_chunks s1)))) (concat (sd_chunks s1)) /\
  fst (po_b r) = firstn (budget_of (sd_ws s1) (length (concat (sd_chunks s2)))) (concat (sd_chunks s2)) /\
  (sd_ws s2 = WAll -> fst (po_a r) = concat (sd_chunks s1)) /\
  (sd_ws s1 = WAll -> fst (po_b r) = concat (sd_chunks s2)).
Proof.
  cbn zeta. unfold proxy.
  pose proof (pump_spec s1 s2) as (A1 & _ & _). pose proof (pump_spec s2 s1) as (B1 & _ & _).
  destruct (pump s1 s2) as [[da la] ta]. destruct (pump s2 s1) as [[db lb] tb].
  cbn [fst snd po_a po_b] in *. subst da db.
  split; [reflexivity|split; [reflexivity|split]]; intros ->; cbn [budget_of]; apply firstn_all.
Qed.

(* if at least one pump can return by itself (its source ends or its destination fails),
   both sides are closed (by both pumps) and the callback runs exactly twice *)
Lemma proxy_closes_and_calls_back s1 s2 cbnil :
  let r := proxy s1 s2 cbnil in
  let fin := (wfails (sd_ws s2) (length (concat (sd_chunks s1))) || ends (sd_term s1)) ||
             (wfails (sd_ws s1) (length (concat (sd_chunks s2))) || ends (sd_term s2)) in
  (fin = true -> po_close1 r = 2 /\ po_close2 r = 2 /\ po_cb r = if cbnil then 0 else 2) /\
  (fin = false -> po_close1 r = 0 /\ po_close2 r = 0 /\ po_cb r = 0).
Proof.
  cbn zeta. unfold proxy.
  pose proof (pump_spec s1 s2) as (_ & _ & A). pose proof (pump_spec s2 s1) as (_ & _ & B).
  destruct (pump s1 s2) as [[da la] ta]. destruct (pump s2 s1) as [[db lb] tb].
  cbn [fst snd] in *. subst ta tb. cbn [po_close1 po_close2 po_cb].
  split; intros ->; cbn; destruct cbnil; auto.
Qed.

(* ------------------------------------------------------------------ *)
(* the monitors accept every observation the model produces, over whole histories *)
Lemma nseq_length len : forall start, length (nseq start len) = len.
Proof. induction len as [|len IH]; intros start; [reflexivity|]. cbn [nseq length]. now rewrite IH. Qed.

Lemma nseq_app a : forall start b, nseq start (a + b) = nseq start a ++ nseq (start + N.of_nat a)%N b.
Proof.
  induction a as [|a IH]; intros start b.
  - cbn [plus nseq app N.of_nat]. now rewrite N.add_0_r.
  - cbn [plus nseq app]. rewrite IH.
    replace (start + N.of_nat (S a))%N with (N.succ start + N.of_nat a)%N by lia. reflexivity.
Qed.

Lemma mk_chunks_concat sd sizes : forall pos,
  concat (mk_chunks sd pos sizes) = map (datab sd) (nseq pos (fold_right plus 0 sizes)).
Proof.
  induction sizes as [|k r IH]; intros pos; [reflexivity|].
  cbn [mk_chunks concat fold_right]. now rewrite IH, nseq_app, map_app.
Qed.

Lemma side_data_length sd ss : length (concat (sd_chunks (side_of sd ss))) = total_of ss.
Proof. unfold side_of, total_of. cbn [sd_chunks]. now rewrite mk_chunks_concat, map_length, nseq_length. Qed.

Lemma budget_le ws t : budget_of ws t <= t.
Proof. destruct ws; cbn; lia. Qed.

Lemma dec_enc_dir acc log rest :
  dec_dir (enc_dir (acc, log) ++ rest) = Some (N.of_nat (length acc), hash acc, rest).
Proof. reflexivity. Qed.

Lemma firstn_nseq n : forall start len, n <= len -> firstn n (nseq start len) = nseq start n.
Proof.
  induction n as [|n IH]; intros start len H; [reflexivity|].
  destruct len as [|len]; [lia|]. cbn. f_equal. apply IH. lia.
Qed.

Lemma model_ok_dir sd sd' a b :
  let p := pump (side_of sd a) (side_of sd' b) in
  ok_dir sd a b (N.of_nat (length (fst (fst p)))) (hash (fst (fst p))) = true.
Proof.
  cbn zeta. pose proof (pump_spec (side_of sd a) (side_of sd' b)) as (A & B & _).
  cbn zeta in A. rewrite side_data_length in A.
  destruct (pump (side_of sd a) (side_of sd' b)) as [[acc log] t]. cbn [fst snd] in *.
  unfold ok_dir. change (sd_ws (side_of sd' b)) with (ss_ws b) in A.
  pose proof (budget_le (ss_ws b) (total_of a)) as Hle.
  assert (Hacc : acc = map (datab sd) (nseq 0 (budget_of (ss_ws b) (total_of a)))).
  { rewrite A. unfold side_of. cbn [sd_chunks]. rewrite mk_chunks_concat. fold (total_of a).
    rewrite firstn_map, firstn_nseq by exact Hle. reflexivity. }
  rewrite <- Hacc. rewrite N.eqb_refl, andb_true_r.
  apply N.eqb_eq. f_equal. rewrite Hacc, map_length, nseq_length. reflexivity.
Qed.

Lemma self_terminates_spec sd sd' a b :
  self_terminates a b =
  wfails (sd_ws (side_of sd' b)) (length (concat (sd_chunks (side_of sd a)))) || ends (sd_term (side_of sd a)).
Proof.
  rewrite side_data_length. unfold self_terminates, wfails, ends, side_of. cbn [sd_ws sd_term].
  apply orb_comm.
Qed.

Lemma model_ok_proxy cbnil a b :
  let r := proxy (side_of 1 a) (side_of 2 b) cbnil in
  mon_proxy (IEProxy cbnil a b)
    (enc_dir (po_a r) ++ enc_dir (po_b r) ++ [b2N (Nat.ltb 0 (po_close1 r)); b2N (Nat.ltb 0 (po_close2 r)); N.of_nat (po_cb r)]) = [].
Proof.
  cbn zeta. unfold mon_proxy.
  pose proof (model_ok_dir 1 2 a b) as Ha. pose proof (model_ok_dir 2 1 b a) as Hb.
  pose proof (proxy_closes_and_calls_back (side_of 1 a) (side_of 2 b) cbnil) as Hc.
  cbn zeta in Ha, Hb, Hc.
  rewrite <- (self_terminates_spec 1 2 a b), <- (self_terminates_spec 2 1 b a) in Hc.
  unfold proxy in *.
  destruct (pump (side_of 1 a) (side_of 2 b)) as [[da la] ta].
  destruct (pump (side_of 2 b) (side_of 1 a)) as [[db lb] tb].
  cbn [po_a po_b po_close1 po_close2 po_cb fst snd] in *.
  rewrite dec_enc_dir, dec_enc_dir. rewrite Ha, Hb. cbn [andb fails app].
  destruct Hc as [Hc1 Hc2].
  destruct (self_terminates a b || self_terminates b a).
  - destruct (Hc1 eq_refl) as (E1 & E2 & E3). rewrite E1, E3. now destruct cbnil.
  - destruct (Hc2 eq_refl) as (E1 & E2 & E3). rewrite E1, E3. reflexivity.
Qed.

(* simulation between the model state and the specification state of the monitors *)
Open Scope Z_scope.
Inductive R : state -> mstate -> Prop :=
| RSeek s sr : seek_inv s -> R (StSeek s sr) (MSeek (sk_size s) (sk_off s) sr)
| RSizer s sum : sz_total s = wrapu64 sum -> R (StSizer s) (MSizer (sz_rd s) (sz_wr s) sum)
| RCloser s : R (StCloser s) (MCloser (cl_open s) (cl_fn s) (N.of_nat (cl_ran s)))
| RProxy : R StProxy MProxy
| RBad : R StBad MBad.

Lemma R_init cfg : R (init cfg) (minit cfg).
Proof.
  unfold init, minit.
  repeat (match goal with |- R (match ?x with _ => _ end) _ => is_var x; destruct x end); try apply RBad.
  - match goal with |- R (StCloser ?s) _ => apply (RCloser s) end.
  - apply RProxy.
  - match goal with |- R (StSizer ?s) _ => apply (RSizer s 0); reflexivity end.
  - match goal with |- context [Z.of_N ?a <? two63] => destruct (Z.ltb_spec (Z.of_N a) two63) as [H|H]; [|apply RBad];
      apply (RSeek {| sk_size := Z.of_N a; sk_off := 0 |}); unfold seek_inv; cbn; lia end.
Qed.

Lemma sr_ok_field sr pos : i64 pos -> sr_ok sr pos (sr_field sr pos) = true.
Proof.
  intros H. unfold sr_ok, sr_field. destruct sr; [|reflexivity].
  rewrite to_of_i64 by exact H. apply Z.eqb_refl.
Qed.

Lemma to_of_i64_0 : to_i64 (of_i64 0) = 0.
Proof. reflexivity. Qed.

Lemma sim_step st m e st' o :
  R st m -> step st e = Some (st', o) -> exists m', mon m e o = (m', []) /\ R st' m'.
Proof.
  intros HR Hst. destruct HR as [s sr Hinv|s sum Htot|s| |]; cbn [step mon] in *.
  - (* ioseek *)
    destruct (decode KSeek e) as [ev|]; [|discriminate].
    destruct ev as [o0 w0|pl n0 er| | | |]; try discriminate.
    + pose proof (to_i64_range o0) as Ho.
      cbn [mon_seek].
      destruct (in_range (sk_size s) (spec_target (sk_size s) (sk_off s) (to_i64 o0) (to_i64 w0))) as [t|] eqn:Hr.
      * pose proof (in_range_bounds _ _ _ Hr) as Hb.
        destruct (spec_target (sk_size s) (sk_off s) (to_i64 o0) (to_i64 w0)) as [t0|] eqn:Ht; [|discriminate].
        apply in_range_some in Hr. subst t0.
        rewrite (seek_in_range s _ _ t Hinv Ho Ht Hb) in Hst. inversion Hst; subst st' o. clear Hst.
        cbn [sk_off app]. destruct Hinv as [Hoff Hsz].
        assert (Hti : i64 t) by (unfold i64, two63 in *; lia).
        rewrite to_of_i64 by exact Hti. rewrite Z.eqb_refl. cbn [enc_err N.eqb andb fails app].
        rewrite sr_ok_field by exact Hti. cbn [fails].
        eexists. split; [reflexivity|].
        apply (RSeek {| sk_size := sk_size s; sk_off := t |}). unfold seek_inv. cbn. lia.
      * pose proof (seek_out_of_range s _ _ Hinv Ho Hr) as (H1 & H2 & H3).
        destruct (seek s (to_i64 o0) (to_i64 w0)) as [s' [p er]]. cbn [fst snd] in *. subst s' p.
        inversion Hst; subst st' o. clear Hst. cbn [app].
        assert (Hne : negb (N.eqb (enc_err er) 0) = true) by (destruct er; [congruence| |]; reflexivity).
        rewrite Hne. cbn [fails app].
        destruct Hinv as [Hoff Hsz].
        rewrite sr_ok_field by (unfold i64, two63 in *; lia). cbn [fails].
        eexists. split; [reflexivity|]. apply RSeek. split; assumption.
    + destruct (oracle_wf s pl (to_i64 n0)) eqn:Hwf; [|discriminate].
      unfold oracle_wf in Hwf. apply andb_true_iff in Hwf as [Hwf Hw3]. apply andb_true_iff in Hwf as [Hw1 Hw2].
      apply Z.leb_le in Hw1, Hw2, Hw3. destruct Hinv as [Hoff Hsz].
      cbn [seek_read] in Hst. inversion Hst; subst st' o. clear Hst.
      cbn [mon_seek sk_off app]. cbv zeta.
      rewrite (wrap64_id (sk_off s + to_i64 n0)) by (unfold i64, two63 in *; lia).
      rewrite (to_of_i64 (to_i64 n0)) by apply to_i64_range.
      rewrite (to_of_i64 (sk_off s)) by (unfold i64, two63 in *; lia).
      rewrite N2Z.id, !Z.eqb_refl, !N.eqb_refl. cbn [andb fails app].
      rewrite sr_ok_field by (unfold i64, two63 in *; lia). cbn [fails].
      eexists. split; [reflexivity|].
      apply (RSeek {| sk_size := sk_size s; sk_off := sk_off s + to_i64 n0 |}). unfold seek_inv. cbn. lia.
  - (* iosizer *)
    destruct (decode KSizer e) as [ev|]; [|discriminate].
    destruct ev as [| |d pl n0 er| | |]; try discriminate.
    + unfold sizer_io in Hst. cbn [mon_sizer]. cbv zeta.
      assert (Hp : (match d with DRead => sz_rd s | DWrite => sz_wr s end) = sz_present s d) by (destruct d; reflexivity).
      rewrite Hp. destruct (sz_present s d).
      * inversion Hst; subst st' o. clear Hst. cbn [sz_total].
        rewrite (to_of_i64 (to_i64 n0)) by apply to_i64_range.
        rewrite N2Z.id, Z.eqb_refl, !N.eqb_refl. cbn [b2N N.eqb Pos.eqb andb].
        set (tot := if 0 <? to_i64 n0 then _ else _).
        assert (Ht : tot = wrapu64 (sum + Z.max 0 (to_i64 n0))).
        { subst tot. destruct (Z.ltb_spec 0 (to_i64 n0)) as [H|H].
          - rewrite Htot, wrapu64_add. f_equal. lia.
          - rewrite Htot. f_equal. lia. }
        rewrite Ht. unfold wrapu64 at 1. rewrite N.eqb_refl. cbn [fails].
        eexists. split; [reflexivity|].
        apply (RSizer {| sz_total := wrapu64 (sum + Z.max 0 (to_i64 n0)); sz_rd := sz_rd s; sz_wr := sz_wr s |}). reflexivity.
      * inversion Hst; subst st' o. clear Hst.
        rewrite to_of_i64_0. cbn [Z.eqb enc_err b2N N.eqb Pos.eqb andb Z.max Z.compare].
        rewrite Z.add_0_r, Htot. unfold wrapu64. rewrite N.eqb_refl. cbn [fails].
        eexists. split; [reflexivity|]. apply RSizer. exact Htot.
    + inversion Hst; subst st' o. clear Hst. cbn [mon_sizer].
      rewrite Htot. unfold wrapu64. rewrite N.eqb_refl. cbn [fails].
      eexists. split; [reflexivity|]. apply RSizer. exact Htot.
  - (* iocloser *)
    destruct (decode KCloser e) as [ev|]; [|discriminate].
    destruct ev as [| |d pl n0 er| |ce|]; try discriminate.
    + unfold closer_io in Hst. cbn [mon_closer]. cbv zeta.
      pose proof (RCloser s) as HRs.
      destruct (cl_open s); inversion Hst; subst st' o; clear Hst.
      * rewrite (to_of_i64 (to_i64 n0)) by apply to_i64_range.
        rewrite N2Z.id, Z.eqb_refl, !N.eqb_refl. cbn [b2N N.eqb Pos.eqb andb fails app].
        eexists. split; [reflexivity|]. exact HRs.
      * rewrite to_of_i64_0, !N.eqb_refl. cbn [Z.eqb enc_err b2N N.eqb Pos.eqb andb fails app].
        eexists. split; [reflexivity|]. exact HRs.
    + unfold closer_close in Hst. inversion Hst; subst st' o; clear Hst. cbn [mon_closer cl_ran].
      destruct (cl_fn s).
      * replace (N.of_nat (S (cl_ran s))) with (N.of_nat (cl_ran s) + 1)%N by lia.
        rewrite N.eqb_refl. cbn [andb fails].
        eexists. split; [reflexivity|].
        replace (N.of_nat (cl_ran s) + 1)%N with (N.of_nat (S (cl_ran s))) by lia.
        apply (RCloser {| cl_open := false; cl_fn := false; cl_ran := S (cl_ran s) |}).
      * cbn [enc_err]. rewrite !N.eqb_refl. cbn [N.eqb andb fails].
        eexists. split; [reflexivity|].
        apply (RCloser {| cl_open := false; cl_fn := false; cl_ran := cl_ran s |}).
  - (* ioproxy *)
    destruct (decode KProxy e) as [ev|]; [|discriminate].
    destruct ev as [| | | | |cbnil a b]; try discriminate.
    inversion Hst; subst st' o; clear Hst.
    rewrite model_ok_proxy. eexists. split; [reflexivity|]. apply RProxy.
  - discriminate.
Qed.

(* generic: a simulation that keeps the monitor silent step by step keeps it silent on
   every history *)
Lemma monitor_silent evs : forall st m i reported,
  R st m -> monitor mon i m reported evs (run_obs step st evs) = [].
Proof.
  induction evs as [|e evs IH]; intros st m i reported HR; [reflexivity|].
  cbn [run_obs]. destruct (step st e) as [[st' o]|] eqn:Hs; [|reflexivity].
  destruct (sim_step _ _ _ _ _ HR Hs) as (m' & Hm & HR').
  cbn [monitor]. rewrite Hm. cbn [filter map app]. apply IH. exact HR'.
Qed.

Theorem model_satisfies_monitors cfg evs :
  monitor mon 0 (minit cfg) [] evs (run_obs step (init cfg) evs) = [].
Proof. apply monitor_silent, R_init. Qed.
