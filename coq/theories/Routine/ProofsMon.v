(* routine: the monitors of C04, C05 and C14 accept the model's own observations, for EVERY event list (no bound):
   whenever the schedule-level step function of Routine/Spec.v accepts the events, the monitors running on the
   observations the model itself produces report no false clause.

   Configurations: the theorem holds for every configuration line with at least one exit callback and (if a back-off
   is scripted) non-zero durations ([cfg_ok]).  Both restrictions are necessary, see Props_C14.v:
   - without exit callbacks the reference machine cannot learn which exits were recorded (clause 14/4 is then false on
     the model's own trace);
   - a zero back-off duration fires at once in the code, whereas the model fires timers only when the clock advances
     (clause 14/3 is then false on the model's own trace).  The harness generates neither. *)
From Util Require Import Common.Base Common.ListLemmas Routine.Model Routine.Proofs Routine.ProofsC05 Routine.ProofsC14 Routine.ProofsC14b
  Routine.Spec Routine.ProofsMonInv Routine.ProofsMonObs Routine.ProofsMonStep Routine.ProofsMonDef Routine.ProofsMonR Routine.ProofsMonNB
  Routine.ProofsMonEv Routine.ProofsMonBook Routine.ProofsMonBk.
Open Scope N_scope.

Lemma mon_step m h e h' o : AllInv (hs h) -> R m h -> hstep h e = Some (h', o) ->
  exists m', mon (Some m) e o = (Some m', []) /\ R m' h' /\ AllInv (hs h').
Proof.
  intros HA HR H. destruct (hstep_decomp _ _ _ _ H) as (s1 & ch & rets & ex & Hev & -> & ->).
  pose proof (hev_AllInv _ _ _ _ _ _ Hev HA) as HA'.
  assert (Hok : step_ok m h e s1 ch rets ex).
  { destruct Hev.
    - now apply ev_setctx.
    - now apply ev_setroutine.
    - now apply ev_restart.
    - now apply ev_setstate.
    - now apply ev_swap.
    - now apply ev_setsr.
    - now apply ev_getstate.
    - eapply ev_proceed; eauto.
    - eapply ev_return; eauto.
    - eapply ev_book; eauto.
    - now apply ev_leave.
    - now apply ev_advance.
    - now apply ev_cancelroot.
    - now apply ev_timer.
    - now apply ev_waitexited.
    - eapply ev_wsect; eauto.
    - eapply ev_wcancel; eauto.
    - eapply ev_werr; eauto. }
  destruct Hok as [HR' Hf]. exists (x_state m e (pobs_of rets (hmid h s1 ch ex))).
  unfold mon. rewrite (parse_obs_of e rets _ (hev_nrets _ _ _ _ _ _ Hev)), mon1_eq, Hf.
  split; [reflexivity|]. split; [exact HR' | exact HA'].
Qed.

Theorem model_satisfies_monitors_gen evs : forall h m i rep, AllInv (hs h) -> R m h ->
  monitor mon i (Some m) rep evs (run_obs step_opt (Some h) evs) = [].
Proof.
  induction evs as [|e evs IH]; intros h m i rep HA HR; [reflexivity|].
  cbn [run_obs step_opt]. destruct (hstep h e) as [[h' o]|] eqn:E; [|reflexivity].
  destruct (mon_step m h e h' o HA HR E) as (m' & Em & HR' & HA').
  cbn [monitor]. rewrite Em. cbn [filter map app]. now apply IH.
Qed.

(* configurations for which the monitors are meant: at least one exit callback, no zero back-off duration *)
Definition cfg_ok (cfg : list N) : bool :=
  match cfg with
  | _ :: _ :: ncbs :: hasbo :: _ :: script => nz ncbs && (negb (nz hasbo) || forallb nz script)
  | _ => true
  end.

Lemma init_R cfg h m : cfg_ok cfg = true -> hinit cfg = Some h -> minit cfg = Some m -> R m h /\ AllInv (hs h).
Proof.
  intros Hok Hh Hm. unfold hinit in Hh. unfold minit in Hm.
  destruct cfg as [|variant [|cmp [|ncbs [|hasbo [|exitg script]]]]]; try discriminate.
  inversion Hh; subst h. inversion Hm; subst m. clear Hh Hm.
  cbn [cfg_ok] in Hok. apply andb_true_iff in Hok as [Hn Hs].
  split.
  - constructor; cbn [hs hch hlog hexitg hexit m_sv m_ncb m_script m_idx m_ctx m_hasr m_sfn m_st m_clock m_ninst m_out m_chans
                      m_succ m_err m_curexit m_pending m_quiet m_cur m_exitg m_pend m_wcanc];
      try (match goal with |- _ = _ => reflexivity end).
    + cbn [init ncb]. unfold nz in Hn. apply negb_true_iff in Hn. apply N.eqb_neq in Hn. unfold n2n. lia.
    + intros i x Hx. destruct i; discriminate.
    + intros k j Hk. destruct k; discriminate.
    + intros d Hd. discriminate.
    + intros Hq. discriminate.
    + intros r i Hr. discriminate.
    + intros i Hi. discriminate.
    + intros i a b [].
  - apply init_AllInv. intros l Hl d Hd. destruct (nz hasbo); [|discriminate]. inversion Hl; subst l. cbn [negb orb] in Hs.
    rewrite forallb_forall in Hs. specialize (Hs d Hd). unfold nz in Hs. apply negb_true_iff in Hs. now apply N.eqb_neq in Hs.
Qed.

(* the monitors report nothing on the model's own observations, for every event list *)
Theorem model_satisfies_monitors cfg evs : cfg_ok cfg = true ->
  monitor mon 0 (minit cfg) [] evs (run_obs step_opt (hinit cfg) evs) = [].
Proof.
  intros Hok. destruct (hinit cfg) as [h|] eqn:Eh.
  - destruct (minit cfg) as [m|] eqn:Em.
    + destruct (init_R cfg h m Hok Eh Em) as [HR HA]. now apply model_satisfies_monitors_gen.
    + exfalso. unfold hinit in Eh. unfold minit in Em.
      destruct cfg as [|variant [|cmp [|ncbs [|hasbo [|exitg script]]]]]; discriminate.
  - destruct evs; reflexivity.
Qed.

Lemma list_eqb_refl l : list_eqb l l = true.
Proof. induction l as [|a t IH]; [reflexivity|]. cbn [list_eqb]. now rewrite N.eqb_refl, IH. Qed.

Lemma replay_own evs : forall s i, length (run_obs step_opt s evs) = length evs ->
  replay step_opt i s evs (run_obs step_opt s evs) = [].
Proof.
  induction evs as [|e evs IH]; intros s i Hl; [reflexivity|]. cbn [run_obs replay] in *.
  destruct (step_opt s e) as [[s' o]|]; [|discriminate Hl]. cbn [length] in Hl. rewrite list_eqb_refl. apply IH. lia.
Qed.

(* hence the whole checker accepts every history the model itself produces *)
Theorem model_run_check_clean cfg evs : cfg_ok cfg = true ->
  length (run_obs step_opt (hinit cfg) evs) = length evs -> run_check_routine0 cfg evs (run_obs step_opt (hinit cfg) evs) = [].
Proof.
  intros Hok Hl. unfold run_check_routine0, run_check. rewrite (replay_own evs (hinit cfg) 0 Hl), (model_satisfies_monitors cfg evs Hok). reflexivity.
Qed.

(* ---- hasbo = 2: the script comes from the model of the backoff package (constant kind) ---- *)
Lemma ceil_ms_mul k : Backoff.Model.ceil_ms (k * Backoff.Model.ms) = k.
Proof.
  unfold Backoff.Model.ceil_ms, Backoff.Model.ms.
  replace (k * 1000000 + 1000000 - 1)%N with (999999 + k * 1000000)%N by lia.
  rewrite N.div_add by discriminate. reflexivity.
Qed.

Lemma expand_real_constant v c n x d rest :
  expand (v :: c :: n :: 2 :: x :: d :: rest)%N =
  (v :: c :: n :: 1 :: x :: repeat (if N.eqb d 0 then 5000 else d) real_script_len)%N.
Proof.
  unfold expand, Backoff.Model.Construct. cbn [Backoff.Model.c_kind Backoff.Model.c_const]. rewrite N.eqb_refl.
  unfold Backoff.Model.bo_script, Backoff.Model.bo_script_ns. cbn [Backoff.Model.p_kind Backoff.Model.p_cint].
  rewrite map_repeat, ceil_ms_mul. reflexivity.
Qed.

Lemma expand_real_cfg_ok v c n x d rest : nz n = true -> cfg_ok (expand (v :: c :: n :: 2 :: x :: d :: rest)%N) = true.
Proof.
  intros Hn. rewrite expand_real_constant. unfold cfg_ok. rewrite Hn. cbn [andb nz negb N.eqb orb].
  apply forallb_forall. intros y Hy. apply repeat_spec in Hy. subst y.
  unfold nz. destruct (N.eqb_spec d 0) as [E|E]; [reflexivity|]. destruct (N.eqb_spec d 0); [contradiction|reflexivity].
Qed.

Theorem model_run_check_clean_real v c n x d rest evs : nz n = true ->
  let cfg := (v :: c :: n :: 2 :: x :: d :: rest)%N in
  length (run_obs step_opt (hinit (expand cfg)) evs) = length evs ->
  run_check_routine cfg evs (run_obs step_opt (hinit (expand cfg)) evs) = [].
Proof.
  intros Hn cfg Hl. unfold run_check_routine. apply model_run_check_clean; [apply expand_real_cfg_ok; exact Hn | exact Hl].
Qed.

(* ---- hasbo = 3: the empty backoff configuration = the package's default exponential back-off ---- *)
Definition default_expo_script : list N :=
  ([800; 1440; 2592; 4666; 8399; 15117] ++ repeat 20000 58)%N.

Lemma expand_real_default v c n x rest :
  expand (v :: c :: n :: 3 :: x :: rest)%N = (v :: c :: n :: 1 :: x :: default_expo_script)%N.
Proof.
  unfold expand.
  assert (E : (let c0 := {| Backoff.Model.c_kind := 0; Backoff.Model.c_init := 0; Backoff.Model.c_mult := 0;
                            Backoff.Model.c_max := 0; Backoff.Model.c_rf := 0; Backoff.Model.c_maxel := 0;
                            Backoff.Model.c_const := 0 |}%N in
               option_map (fun p => Backoff.Model.bo_script p real_script_len) (Backoff.Model.Construct c0))
              = Some default_expo_script) by (vm_compute; reflexivity).
  cbv zeta in E.
  destruct (Backoff.Model.Construct _) as [p|]; [|discriminate].
  cbn [option_map] in E. injection E as E. rewrite E. reflexivity.
Qed.

Lemma expand_real_default_cfg_ok v c n x rest : nz n = true -> cfg_ok (expand (v :: c :: n :: 3 :: x :: rest)%N) = true.
Proof.
  intros Hn. rewrite expand_real_default. unfold cfg_ok. rewrite Hn. vm_compute. reflexivity.
Qed.

Theorem model_run_check_clean_real_default v c n x rest evs : nz n = true ->
  let cfg := (v :: c :: n :: 3 :: x :: rest)%N in
  length (run_obs step_opt (hinit (expand cfg)) evs) = length evs ->
  run_check_routine cfg evs (run_obs step_opt (hinit (expand cfg)) evs) = [].
Proof.
  intros Hn cfg Hl. unfold run_check_routine. apply model_run_check_clean; [apply expand_real_default_cfg_ok; exact Hn | exact Hl].
Qed.
