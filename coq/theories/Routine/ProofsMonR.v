(* routine: the relation R between the monitor's state and the harness-level model state, and the clauses that follow
   from it in every state (C04, C05 and the pending-retry clause of C14).  Part of the proof of
   model_satisfies_monitors (ProofsMon.v). *)
From Util Require Import Common.Base Common.ListLemmas Routine.Model Routine.Proofs Routine.ProofsC05 Routine.ProofsC14 Routine.ProofsC14b
  Routine.Spec Routine.ProofsMonInv Routine.ProofsMonObs Routine.ProofsMonStep Routine.ProofsMonDef.
Open Scope N_scope.

Definition out_ok (pc : ipc) (v : N) : Prop :=
  match pc with
  | IGate0 | IWait | IWaitC => v = 1
  | IBook o => v = enc_out o
  | _ => True
  end.

Definition has_routine (s : st) : bool := match routine s with Some _ => true | None => false end.
Definition rsucc_cur (s : st) : bool := match routine s with Some r => rsucc (getr s r) | None => false end.
Definition rerr_cur (s : st) : bool := match routine s with Some r => negb (is_nil (rerr (getr s r))) | None => false end.
Definition curexit_of (s : st) : option N :=
  match routine s with
  | Some r => if rexited (getr s r) || rsucc (getr s r) then Some (enc_out (rerr (getr s r))) else None
  | None => None
  end.
Definition pending_ok (s : st) (d : N) : Prop :=
  kctx s <> 0%nat /\ exists r t x, routine s = Some r /\ rretry (getr s r) = Some t /\ nth_error (timers s) t = Some x /\ tdead x = d /\
                                  (tst x = TArmed \/ tst x = TFired).

Record R (m : mst) (h : hst) : Prop := {
  R_sv : m_sv m = sv (hs h);
  R_ncb : m_ncb m = ncb (hs h);
  R_ncb1 : (1 <= ncb (hs h))%nat;
  R_exitg : m_exitg m = hexitg h;
  R_bo : bo (hs h) = match m_script m with Some l => Some (l, m_idx m) | None => None end;
  R_ctx : m_ctx m = N.of_nat (kctx (hs h));
  R_st : m_st m = sval (hs h);
  R_sfn : m_sfn m = N.of_nat (sfn (hs h));
  R_clock : m_clock m = clock (hs h);
  R_hasr : m_hasr m = has_routine (hs h);
  R_ninst : m_ninst m = length (insts (hs h));
  R_outl : length (m_out m) = length (insts (hs h));
  R_out : forall i x, nth_error (insts (hs h)) i = Some x -> out_ok (ipcv x) (nth i (m_out m) 1);
  R_chl : length (m_chans m) = length (hch h);
  R_ch : forall k j, nth_error (hch h) k = Some (Some j) -> nth_error (m_chans m) k = Some (S j) /\ (j < length (insts (hs h)))%nat;
  R_succ : m_succ m = rsucc_cur (hs h);
  R_err : m_err m = rerr_cur (hs h);
  R_curexit : m_curexit m = curexit_of (hs h);
  R_pending : forall d, m_pending m = Some d -> pending_ok (hs h) d;
  R_quiet : m_quiet m = true -> forall i x, S i = length (insts (hs h)) -> nth_error (insts (hs h)) i = Some x ->
              rctx (getr (hs h) (irec x)) = Some i;
  R_cur1 : forall r i, routine (hs h) = Some r -> rctx (getr (hs h) r) = Some i -> m_cur m = Some i;
  R_cur2 : forall i, m_cur m = Some i -> exists x, nth_error (insts (hs h)) i = Some x /\ routine (hs h) = Some (irec x);
  R_pend : forall i a b, In (i, a, b) (m_pend m) -> b = true -> a = true;
  R_wcanc : m_wcanc m = map wcanc (waiters (hs h));
  R_hlog : hlog h = length (cblog (hs h));
  R_dead : m_dead m = map N.of_nat (dead (hs h));
}.

Lemma existsb_of_nat k l : existsb (N.eqb (N.of_nat k)) (map N.of_nat l) = existsb (Nat.eqb k) l.
Proof.
  induction l as [|a l IH]; [reflexivity|]. cbn [map existsb]. rewrite IH. f_equal.
  destruct (Nat.eqb_spec k a) as [->|Hne]; [apply N.eqb_refl|]. apply N.eqb_neq. lia.
Qed.

Lemma dead_rel m h : R m h -> x_is_dead m = root_dead (hs h) (kctx (hs h)).
Proof. intros HR. unfold x_is_dead, root_dead. rewrite (R_ctx _ _ HR), (R_dead _ _ HR). apply existsb_of_nat. Qed.

(* ------------------------------------------------------------------ *)
(* small facts about the monitors' helper functions *)
Lemma fails_true p c : fails p c true = []. Proof. reflexivity. Qed.

Lemma icode_ituple ex k x : icode_of (ituple ex k x) = if existsb (Nat.eqb k) ex then 6 else
  match ipcv x with IGate0 => 1 | IWait | IWaitC => 2 | IUser => 3 | IBook _ => 4 | IDone => 5 end.
Proof. unfold ituple. destruct (existsb (Nat.eqb k) ex); [reflexivity|]. destruct (ipcv x); reflexivity. Qed.

Lemma in_user_obs_ituple ex k x : in_user_obs (ituple ex k x) = true -> in_user x = true.
Proof.
  unfold in_user_obs. rewrite icode_ituple. destruct (existsb (Nat.eqb k) ex); [discriminate|].
  unfold in_user. destruct (ipcv x); try discriminate. reflexivity.
Qed.

Lemma cnt_in_user_obs ex l : forall k, (cnt in_user_obs (ituples ex k l) <= cnt in_user l)%nat.
Proof.
  induction l as [|x l IH]; intros k; [cbn; lia|]. cbn [ituples]. rewrite !cnt_cons. specialize (IH (S k)).
  destruct (in_user_obs (ituple ex k x)) eqn:E; [rewrite (in_user_obs_ituple _ _ _ E); cbn; lia | destruct (in_user x); cbn; lia].
Qed.

Lemma live_user_obs_ituple ex k x : live_user_obs (ituple ex k x) = true -> ipcv x = IUser /\ icanc x = false.
Proof.
  unfold live_user_obs, ituple. destruct (existsb (Nat.eqb k) ex); [discriminate|].
  destruct (ipcv x); try discriminate. cbn. destruct (icanc x); [discriminate | auto].
Qed.

Lemma all_before_over_intro n is :
  (forall i t, (i < n)%nat -> nth_error is i = Some t -> N.leb 4 (icode_of t) = true) -> all_before_over n is = true.
Proof.
  revert is. induction n as [|n IH]; intros is H; [reflexivity|]. destruct is as [|x r]; [reflexivity|]. cbn [all_before_over].
  rewrite (H 0%nat x) by (cbn; auto; lia). cbn [andb]. apply IH. intros i t Hi Ht. apply (H (S i) t); [lia | exact Ht].
Qed.

Lemma chans_ok_intro chans : forall marks is,
  (forall k c mk, nth_error chans k = Some c -> nth_error marks k = Some mk -> c = 2 -> all_before_over mk is = true) ->
  chans_ok chans marks is = true.
Proof.
  induction chans as [|c cr IH]; intros marks is H; [reflexivity|]. destruct marks as [|mk mr]; [reflexivity|]. cbn [chans_ok].
  rewrite IH by (intros k c' mk' Hc Hm; apply (H (S k) c' mk'); assumption).
  destruct (N.eqb_spec c 2) as [E|E]; [|reflexivity]. rewrite (H 0%nat c mk eq_refl eq_refl E). reflexivity.
Qed.

Lemma indexed_from_nth {A} (l : list A) : forall k i q, nth_error (indexed_from k l) i = Some q ->
  exists x, nth_error l i = Some x /\ q = ((k + i)%nat, x).
Proof.
  induction l as [|x l IH]; intros k i q H; [destruct i; discriminate|]. destruct i as [|i]; cbn in H.
  - inversion H. exists x. split; [reflexivity|]. now rewrite Nat.add_0_r.
  - destruct (IH (S k) i q H) as (y & Hy & ->). exists y. split; [exact Hy|]. f_equal. lia.
Qed.

Lemma forallb_nth {A} (f : A -> bool) l : (forall i x, nth_error l i = Some x -> f x = true) -> forallb f l = true.
Proof. intros H. apply forallb_forall. intros x Hx. destruct (In_nth_error _ _ Hx) as [i Hi]. eauto. Qed.

Lemma existsb_nth_false {A} (f : A -> bool) l : (forall i x, nth_error l i = Some x -> f x = false) -> existsb f l = false.
Proof.
  intros H. destruct (existsb f l) eqn:E; [|reflexivity]. apply existsb_exists in E as (x & Hx & Fx).
  destruct (In_nth_error _ _ Hx) as [i Hi]. rewrite (H i x Hi) in Fx. discriminate.
Qed.

(* ------------------------------------------------------------------ *)
(* clauses that hold in every state related to the monitor state *)
Section Static.
  Variables (m : mst) (h : hst).
  Hypothesis HR : R m h.
  Hypothesis HA : AllInv (hs h).
  Local Notation s := (hs h).
  Local Notation is := (ituples (hexit h) 0 (insts (hs h))).

  Lemma c04_1_ok : Nat.leb (cnt in_user_obs is) 1 = true.
  Proof.
    apply Nat.leb_le. pose proof (cnt_in_user_obs (hexit h) (insts s) 0) as H1.
    destruct HA as ((HI & _) & _). pose proof (InvI_at_most_one_in_user _ HI) as H2. lia.
  Qed.

  Lemma c04_2_ok : chans_ok (map (chcode s) (hch h)) (m_chans m) is = true.
  Proof.
    apply chans_ok_intro. intros k c mk Hc Hm E. rewrite nth_error_map in Hc.
    destruct (nth_error (hch h) k) as [oc|] eqn:Ek; [|discriminate]. cbn [option_map] in Hc. inversion Hc as [Hc']. clear Hc.
    unfold chcode in Hc'. destruct oc as [j|]; [|subst c; discriminate].
    destruct (R_ch _ _ HR k j Ek) as [Hk Hj]. rewrite Hk in Hm. inversion Hm; subst mk. clear Hm.
    destruct (iexit (geti s j)) eqn:Ex; [|subst c; discriminate].
    apply all_before_over_intro. intros i t Hi Ht.  rewrite nth_error_ituples in Ht.
    destruct (nth_error (insts s) i) as [y|] eqn:Ey; [|discriminate]. cbn [option_map] in Ht. inversion Ht; subst t.
    destruct HA as ((HI & _) & _).
    destruct (nth_error (insts s) j) as [xj|] eqn:Exj; [|apply nth_error_None in Exj; lia].
    unfold geti in Ex. rewrite (nth_error_nth _ _ inst0 Exj) in Ex.
    destruct (HI j xj Exj) as (_ & E2 & E3). rewrite E2 in Ex.
    assert (Hy : over y = true).
    { destruct (Nat.eq_dec i j) as [->|Hne]; [congruence|]. apply (E3 (or_introl Ex) i y); [lia | exact Ey]. }
    rewrite icode_ituple. destruct (existsb _ _); [reflexivity|]. unfold over in Hy. destruct (ipcv y); try discriminate; reflexivity.
  Qed.

  (* a live instance inside the user function, as seen through the observation *)
  Lemma live_obs_facts i t : nth_error is i = Some t -> live_user_obs t = true ->
    exists x, nth_error (insts s) i = Some x /\ t = (3, iarg x, N.of_nat (iroot x), 0) /\ icanc x = false /\ ipcv x = IUser.
  Proof.
    intros Ht Hl.  rewrite nth_error_ituples in Ht. destruct (nth_error (insts s) i) as [x|] eqn:Ex; [|discriminate].
    cbn [option_map] in Ht. inversion Ht; subst t. destruct (live_user_obs_ituple _ _ _ Hl) as [Hp Hc]. exists x.
    split; [reflexivity|]. split; [|auto]. unfold live_user_obs, ituple in *. destruct (existsb _ _); [discriminate|].
    rewrite Hp, Hc. reflexivity.
  Qed.

  Lemma live_is_current i x : nth_error (insts s) i = Some x -> icanc x = false ->
    exists r, routine s = Some r /\ rctx (getr s r) = Some i /\ kctx s <> 0%nat /\ iroot x = kctx s /\ S i = length (insts s) /\
              (sv s = true -> iarg x = sval s).
  Proof.
    intros Hx Hc. destruct HA as (_ & (C1 & _ & C3 & C4 & _) & _ & (CK' & _)).
    destruct (C1 i x Hx Hc) as (r & R1 & R2 & _ & R4 & R5 & R6 & _). exists r. repeat split; auto.
    - exact (CK' r i R1 R2).
    - intros Hv. destruct (C3 i x Hx) as [_ G]. rewrite G, R6. exact (proj1 (C4 Hv r R1)).
  Qed.

  Lemma c05_1_ok : forallb (fun kx => negb (live_user_obs (snd kx)) || Nat.eqb (fst kx) (length is - 1)) (indexed_from 0 is) = true.
  Proof.
    apply forallb_nth. intros i q Hq. destruct (indexed_from_nth _ _ _ _ Hq) as (t & Ht & ->). cbn [fst snd].
    destruct (live_user_obs t) eqn:El; [|reflexivity]. cbn [negb orb].
    destruct (live_obs_facts i t Ht El) as (x & Hx & _ & Hc & _).
    destruct (live_is_current i x Hx Hc) as (r & _ & _ & _ & _ & Hn & _).
    rewrite length_ituples. apply Nat.eqb_eq.  lia.
  Qed.

  Lemma c05_2_ok : negb (existsb live_user_obs is) || (nz (m_ctx m) && m_hasr m) = true.
  Proof.
    destruct (existsb live_user_obs is) eqn:E; [|reflexivity]. cbn [negb orb].
    apply existsb_exists in E as (t & Hin & El). destruct (In_nth_error _ _ Hin) as [i Ht].
    destruct (live_obs_facts i t Ht El) as (x & Hx & _ & Hc & _).
    destruct (live_is_current i x Hx Hc) as (r & Hr & _ & Hk & _).
    rewrite (R_ctx _ _ HR), (R_hasr _ _ HR). unfold has_routine.  rewrite Hr. unfold nz.
    destruct (N.eqb_spec (N.of_nat (kctx s)) 0) as [E0|E0]; [lia | reflexivity].
  Qed.

  Lemma c05_3_ok : forallb (fun x => let '(c, a, r, k) := x in
                              negb (live_user_obs x) || (N.eqb r (m_ctx m) && (negb (m_sv m) || N.eqb a (m_st m)))) is = true.
  Proof.
    apply forallb_nth. intros i t Ht. destruct (live_user_obs t) eqn:El; [|destruct t as [[[c a] r] k]; reflexivity].
    destruct (live_obs_facts i t Ht El) as (x & Hx & -> & Hc & _).
    destruct (live_is_current i x Hx Hc) as (r & _ & _ & _ & Hroot & _ & Harg).
    cbv beta iota. cbn [negb orb]. rewrite (R_ctx _ _ HR), (R_sv _ _ HR), (R_st _ _ HR).  rewrite Hroot, N.eqb_refl. cbn [andb].
    destruct (sv s) eqn:Ev; [|reflexivity]. cbn [negb orb]. rewrite (Harg eq_refl). apply N.eqb_refl.
  Qed.

  (* the retry that must come: once its deadline has passed its callback is parked *)
  Lemma c14_3_ok : match m_pending m with
                   | Some d => negb (N.leb d (m_clock m)) || negb (N.eqb (N.of_nat (cnt is_fired (timers s))) 0)
                   | None => true
                   end = true.
  Proof.
    destruct (m_pending m) as [d|] eqn:Ep; [|reflexivity].
    destruct (R_pending _ _ HR d Ep) as (_ & r & t & x & _ & _ & Hx & Hd & Hs).
    destruct (N.leb_spec d (m_clock m)) as [Hl|Hl]; [|reflexivity]. cbn [negb orb].
    destruct Hs as [Hs|Hs].
    - exfalso. destruct HA as (_ & _ & _ & (_ & _ & _ & T1' & _)). specialize (T1' t x Hx Hs). rewrite (R_clock _ _ HR) in Hl.  lia.
    - assert (0 < cnt is_fired (timers s))%nat by (eapply nth_error_cnt_pos; [exact Hx | unfold is_fired; now rewrite Hs]).
      destruct (N.eqb_spec (N.of_nat (cnt is_fired (timers s))) 0); [lia | reflexivity].
  Qed.
End Static.
