(* routine: codec, eager schedule, observations, and the monitors of C04, C05, C14.

   Config line:  C variant cmp ncb hasbo exitg d1 d2 ...  (variant 0 RoutineContainer, 1 StateRoutineContainer;
                 cmp 0 nil compare / 1 equality / 2 equality mod 2; ncb exit callbacks; exitg = 1: instances also park
                 after leaving their bookkeeping section (HoldLock exit gate); scripted back-off durations)
   Events:   1 c restart   SetContext (c = 0: nil)        2 f   SetRoutine (f = 0: nil)        3   RestartRoutine
             4 v  SetState   5 g  SwapValue   6 f  SetStateRoutine   7  GetState
             8 i enter  instance i leaves its first gate (enter: it entered the user function; only used when both
                        select cases were ready)          9 i o  the user function of instance i returns o
             10 i  bookkeeping section of instance i      11 d  advance the clock     12 k  k-th parked timer callback runs
             13 rinr  new WaitExited caller   14 a  its next section   15 a  cancel its context   16 a code  its error channel fires
             18 c  the owner of root context c cancels it (the container is not told)
   Outcomes: 0 nil, 1 context.Canceled ITSELF, e+2 error e.  The harness reports context.DeadlineExceeded as 97, the cause of a
   context cancelled with a cause as 98 and any other error (a wrapped Canceled, ...) as 99: the n-th WaitExited caller of a
   history gets a context of flavour n mod 4 (1: it ends like a deadline, 3: it is cancelled with a cause, 0 / 2: plain
   WithCancel) and the root contexts are 1, 5 plain, 2 ending like a deadline also for the contexts derived from it, 3 cancelled
   with a cause, 4 ending like a deadline on the root only.  The code under test returns / reports the literal context.Canceled
   for all of them (WaitExited of a caller whose context ended; the exit of an instance cancelled before it started), so the
   flavour is not part of the events; the clauses 14/4 and 14/5 judge the codes.
   Observation after every event:
     rets  ninst (code arg root canc)*  nchan status*  ndelta outcome*  nwait wcode*  nparked
     instance code 1 at first gate, 2 blocked, 3 in user code (then arg, root context, ctx.Err()!=nil), 4 parked before
     bookkeeping, 5 done, 6 parked after its bookkeeping section (the model has already run the section); channel status 0 nil, 1 open, 2 closed (every waitReturn handed out, in order);
     delta = exit-callback invocations during this event; wcode 1 at gate, 2 blocked, 3+o returned o. *)
From Util Require Import Common.Base Common.ListLemmas Routine.Model.
From Util Require Backoff.Model.
Open Scope N_scope.

Definition n2n := N.to_nat.
Definition enc_out (o : outcome) : N := match o with ONil => 0 | OCanc => 1 | OErr e => N.of_nat e + 2 end.
Definition dec_out (n : N) : outcome := match n with 0 => ONil | 1 => OCanc | _ => OErr (n2n n - 2) end.
Definition nb (x : bool) : N := if x then 1 else 0.
Definition nz (n : N) : bool := negb (N.eqb n 0).

Record hst := { hs : st; hch : list (option nat); hlog : nat; hexitg : bool; hexit : list nat (* instances parked at the exit gate *) }.

Definition hinit (cfg : list N) : option hst :=
  match cfg with
  | variant :: cmp :: ncbs :: hasbo :: exitg :: script =>
    Some {| hs := init (nz variant) (n2n cmp) (n2n ncbs) (if nz hasbo then Some script else None); hch := []; hlog := 0;
            hexitg := nz exitg; hexit := [] |}
  | _ => None
  end.

(* eager schedule: blocked instances that can go on do so (ascending: the chain only points backwards),
   then woken WaitExited callers run to their gate *)
Definition settle (s : st) : st :=
  let s1 := fold_left (fun s i => wake repaired s i true) (seq 0 (length (insts s))) s in
  fold_left wait_wake (seq 0 (length (waiters s1))) s1.

Definition icode (x : inst) : list N :=
  match ipcv x with
  | IGate0 => [1; 0; 0; 0]
  | IWait | IWaitC => [2; 0; 0; 0]
  | IUser => [3; iarg x; N.of_nat (iroot x); nb (icanc x)]
  | IBook _ => [4; 0; 0; 0]
  | IDone => [5; 0; 0; 0]
  end.
Definition chcode (s : st) (c : option nat) : N :=
  match c with None => 0 | Some j => if iexit (geti s j) then 2 else 1 end.
Definition wcode (w : waiter) : N :=
  match wpcv w with WGate => 1 | WBlocked _ => 2 | WRet o => 3 + enc_out o end.
Definition is_fired (t : timer) : bool := match tst t with TFired => true | _ => false end.

Definition icode_at (ex : list nat) (k : nat) (x : inst) : list N :=
  if existsb (Nat.eqb k) ex then [6; 0; 0; 0] else icode x.
Fixpoint icodes (ex : list nat) (k : nat) (l : list inst) : list N :=
  match l with [] => [] | x :: r => icode_at ex k x ++ icodes ex (S k) r end.

Definition obs_of (rets : list N) (h : hst) : list N :=
  let s := hs h in
  rets ++ [N.of_nat (length (insts s))] ++ icodes (hexit h) 0 (insts s)
       ++ [N.of_nat (length (hch h))] ++ map (chcode s) (hch h)
       ++ [N.of_nat (length (cblog s) - hlog h)] ++ map enc_out (skipn (hlog h) (cblog s))
       ++ [N.of_nat (length (waiters s))] ++ map wcode (waiters s)
       ++ [N.of_nat (cnt is_fired (timers s))].

(* fired timers, by deadline then creation *)
Fixpoint insert_t (ts : list timer) (t : nat) (l : list nat) : list nat :=
  match l with
  | [] => [t]
  | u :: r => if N.ltb (tdead (nth t ts timer0)) (tdead (nth u ts timer0)) then t :: l else u :: insert_t ts t r
  end.
Definition fired_sorted (ts : list timer) : list nat :=
  fold_left (fun acc t => if is_fired (nth t ts timer0) then insert_t ts t acc else acc) (seq 0 (length ts)) [].

Definition wr_code (w : option nat) : N := match w with None => 0 | Some _ => 1 end.

Definition hstep (h : hst) (e : list N) : option (hst * list N) :=
  let s := hs h in
  let finx (s' : st) (ch : list (option nat)) (rets : list N) (ex : list nat) :=
    let s'' := settle s' in
    let h' := {| hs := s''; hch := ch; hlog := hlog h; hexitg := hexitg h; hexit := ex |} in
    Some ({| hs := s''; hch := ch; hlog := length (cblog s''); hexitg := hexitg h; hexit := ex |}, obs_of rets h') in
  let fin (s' : st) (ch : list (option nat)) (rets : list N) := finx s' ch rets (hexit h) in
  match e with
  | [1; c; r] => let '(s', ch) := set_context repaired s (n2n c) (nz r) in fin s' (hch h) [nb ch]
  | [2; f] => if sv s then None else
              let '(s', (w, reset)) := set_routine_locked repaired s (n2n f) f in fin s' (hch h ++ [w]) [wr_code w; nb reset]
  | [3] => let '(s', r) := restart_routine repaired s in fin s' (hch h) [nb r]
  | [4; v] => if sv s then
                let '(s', (w, changed, reset, running)) := set_state_locked repaired s v in
                fin s' (hch h ++ [w]) [wr_code w; nb changed; nb reset; nb running]
              else None
  | [5; g] => if sv s then
                let '(s', (next, w, changed, reset, running)) := swap_value repaired s (n2n g) in
                fin s' (hch h ++ [w]) [next; wr_code w; nb changed; nb reset; nb running]
              else None
  | [6; f] => if sv s then
                let '(s', (w, reset, running)) := update_sr repaired (set_sfn s (n2n f)) in
                fin s' (hch h ++ [w]) [wr_code w; nb reset; nb running]
              else None
  | [7] => if sv s then fin s (hch h) [sval s] else None
  | [8; i; en] =>
    match nth_error (insts s) (n2n i) with
    | Some x => match ipcv x with IGate0 => fin (proceed repaired s (n2n i) (nz en)) (hch h) [] | _ => None end
    | None => None
    end
  | [9; i; o] =>
    match nth_error (insts s) (n2n i) with
    | Some x => match ipcv x with IUser => fin (fn_return s (n2n i) (dec_out o)) (hch h) [] | _ => None end
    | None => None
    end
  | [10; i] =>
    match nth_error (insts s) (n2n i) with
    | Some x => match ipcv x with
                | IBook _ => finx (bookkeep s (n2n i)) (hch h) [] (if hexitg h then hexit h ++ [n2n i] else hexit h)
                | _ => None
                end
    | None => None
    end
  | [17; i] =>
    if existsb (Nat.eqb (n2n i)) (hexit h) then finx s (hch h) [] (filter (fun k => negb (Nat.eqb k (n2n i))) (hexit h)) else None
  | [11; d] => fin (advance s d) (hch h) []
  | [18; c] => fin (cancel_root s (n2n c)) (hch h) []
  | [12; k] =>
    match nth_error (fired_sorted (timers s)) (n2n k) with
    | Some t => fin (timer_cb repaired s t) (hch h) []
    | None => None
    end
  | [13; rinr] => fin (step repaired s (EWaitExited (nz rinr))) (hch h) []
  | [14; a] =>
    match nth_error (waiters s) (n2n a) with
    | Some w => match wpcv w with WGate => fin (wait_section s (n2n a)) (hch h) [] | _ => None end
    | None => None
    end
  | [15; a] =>
    match nth_error (waiters s) (n2n a) with
    | Some w => match wpcv w with WRet _ => None | _ => if wcanc w then None else fin (wait_cancel s (n2n a)) (hch h) [] end
    | None => None
    end
  | [16; a; code] =>
    match nth_error (waiters s) (n2n a) with
    | Some w => match wpcv w with WBlocked _ => fin (wait_errch s (n2n a) (n2n code)) (hch h) [] | _ => None end
    | None => None
    end
  | _ => None
  end.

Definition step_opt (h : option hst) (e : list N) : option (option hst * list N) :=
  match h with
  | Some h => match hstep h e with Some (h', o) => Some (Some h', o) | None => None end
  | None => None
  end.

(* ------------------------------------------------------------------ *)
(* Monitors.  They see events and OBSERVED observations only. *)

Fixpoint take {A} (n : nat) (l : list A) : option (list A * list A) :=
  match n with
  | O => Some ([], l)
  | S n' => match l with x :: r => match take n' r with Some (a, b) => Some (x :: a, b) | None => None end | [] => None end
  end.

Fixpoint take_insts (n : nat) (l : list N) : option (list (N * N * N * N) * list N) :=
  match n with
  | O => Some ([], l)
  | S n' => match l with
            | c :: a :: r :: k :: rest =>
              match take_insts n' rest with Some (xs, rest') => Some ((c, a, r, k) :: xs, rest') | None => None end
            | _ => None
            end
  end.

Record pobs := { po_rets : list N; po_insts : list (N * N * N * N); po_chans : list N; po_delta : list N;
                 po_waits : list N; po_parked : N }.

Definition nrets (e : list N) : nat :=
  match e with
  | 1 :: _ => 1%nat | 2 :: _ => 2%nat | 3 :: _ => 1%nat | 4 :: _ => 4%nat | 5 :: _ => 5%nat | 6 :: _ => 3%nat | 7 :: _ => 1%nat
  | _ => 0%nat
  end.

Definition parse (e o : list N) : option pobs :=
  match take (nrets e) o with
  | Some (rets, ni :: r1) =>
    match take_insts (n2n ni) r1 with
    | Some (is, nc :: r2) =>
      match take (n2n nc) r2 with
      | Some (cs, nd :: r3) =>
        match take (n2n nd) r3 with
        | Some (ds, nw :: r4) =>
          match take (n2n nw) r4 with
          | Some (ws, [np]) => Some {| po_rets := rets; po_insts := is; po_chans := cs; po_delta := ds; po_waits := ws; po_parked := np |}
          | _ => None
          end
        | _ => None
        end
      | _ => None
      end
    | _ => None
    end
  | _ => None
  end.

Record mst := {
  m_sv : bool; m_ncb : nat; m_script : option (list N); m_idx : nat;
  m_ctx : N; m_hasr : bool; m_sfn : N; m_st : N; m_clock : N;
  m_ninst : nat;                      (* instances seen so far *)
  m_out : list N;                     (* per instance: the outcome its function returned (1 = Canceled until it returns) *)
  m_chans : list nat;                 (* per handed-out channel: instances existing when it was handed out *)
  m_succ : bool; m_err : bool;        (* the current routine's recorded exit status *)
  m_curexit : option N;               (* recorded exit of the current instance *)
  m_pending : option N;               (* deadline of the retry that must come *)
  m_quiet : bool;                     (* no API call / timer callback since the newest instance was spawned *)
  m_cur : option nat;                 (* the instance the reference machine regards as current *)
  m_exitg : bool;                     (* exit-gate configuration: reports may lag behind the recorded status, so the
                                         reference-machine clauses 14/1-4 are evaluated in the other configurations only *)
  m_pend : list (nat * bool * bool);  (* instances parked after their bookkeeping section: (instance, reported already, had to be reported) *)
  m_wcanc : list bool;                (* per waiter: cancelled *)
  m_dead : list N;                    (* root contexts cancelled by their owner *)
}.

Definition minit (cfg : list N) : option mst :=
  match cfg with
  | variant :: cmp :: ncbs :: hasbo :: exitg :: script =>
    Some {| m_sv := nz variant; m_ncb := n2n ncbs; m_script := if nz hasbo then Some script else None; m_idx := 0;
            m_ctx := 0; m_hasr := false; m_sfn := 0; m_st := 0; m_clock := 0; m_ninst := 0; m_out := []; m_chans := [];
            m_succ := false; m_err := false; m_curexit := None; m_pending := None; m_quiet := false; m_cur := None; m_exitg := nz exitg; m_pend := []; m_wcanc := []; m_dead := [] |}
  | _ => None
  end.

Definition icode_of (x : N * N * N * N) : N := let '(c, _, _, _) := x in c.
Definition fails (p c : nat) (ok : bool) : list (nat * nat) := if ok then [] else [(p, c)].

Definition in_user_obs (x : N * N * N * N) : bool := N.eqb (icode_of x) 3.
Definition live_user_obs (x : N * N * N * N) : bool := let '(c, _, _, k) := x in N.eqb c 3 && N.eqb k 0.

Fixpoint all_before_over (n : nat) (is : list (N * N * N * N)) : bool :=
  match n, is with
  | O, _ => true
  | S n', x :: r => N.leb 4 (icode_of x) && all_before_over n' r
  | S _, [] => true
  end.

Fixpoint chans_ok (chans : list N) (marks : list nat) (is : list (N * N * N * N)) : bool :=
  match chans, marks with
  | c :: cr, m :: mr => (if N.eqb c 2 then all_before_over m is else true) && chans_ok cr mr is
  | _, _ => true
  end.

Fixpoint indexed_from {A} (k : nat) (l : list A) : list (nat * A) :=
  match l with [] => [] | x :: r => (k, x) :: indexed_from (S k) r end.

Definition all_eq (v : N) (l : list N) : bool := forallb (N.eqb v) l.

Definition epoch_event (e : list N) (p : pobs) : bool :=
  match e with
  | 2 :: _ | 6 :: _ => true
  | 4 :: _ => match po_rets p with [_; ch; _; _] => nz ch | _ => false end
  | 5 :: _ => match po_rets p with [_; _; ch; _; _] => nz ch | _ => false end
  | _ => false
  end.

Definition mon1 (m : mst) (e : list N) (p : pobs) : mst * list (nat * nat) :=
  let is := po_insts p in
  let n := length is in
  let spawned := Nat.ltb (m_ninst m) n in
  let newest := (n - 1)%nat in
  (* ---- bookkeeping of what was asked for ---- *)
  let epoch := epoch_event e p in
  (* a root context cancelled by its owner counts as no context from the next entry point on that looks at it:
     SetRoutine / SetStateRoutine / a SetState or SwapValue that changes the state / RestartRoutine / a WaitExited section *)
  let is_dead := existsb (N.eqb (m_ctx m)) (m_dead m) in
  let forgets := (epoch || match e with [3] => true | [14; _] => true | _ => false end) && is_dead in
  let ctx0 := if forgets then 0 else m_ctx m in
  let ctx' := match e with [1; c; _] => c | _ => ctx0 end in
  let st' := match e with
             | [4; v] => match po_rets p with [_; ch; _; _] => if nz ch then v else m_st m | _ => m_st m end
             | [5; _] => match po_rets p with [nx; _; ch; _; _] => if nz ch then nx else m_st m | _ => m_st m end
             | _ => m_st m
             end in
  let sfn' := match e with [6; f] => f | _ => m_sfn m end in
  let hasr' := if m_sv m then nz sfn' && nz st'
               else match e with [2; f] => nz f | _ => m_hasr m end in
  let clock' := match e with [11; d] => m_clock m + d | _ => m_clock m end in
  let out' := (m_out m ++ repeat 1 (n - length (m_out m)))%list in
  let out'' := match e with [9; i; o] => set_nth out' (n2n i) o | _ => out' end in
  let chans' := match e with
                | 2 :: _ | 4 :: _ | 5 :: _ | 6 :: _ => (m_chans m ++ [m_ninst m])%list
                | _ => m_chans m
                end in
  let wcanc' := match e with
                | 13 :: _ => (m_wcanc m ++ [false])%list
                | [15; a] => set_nth (m_wcanc m) (n2n a) true
                | _ => m_wcanc m
                end in
  (* ---- C04 ---- *)
  let f4 := fails 4 1 (Nat.leb (cnt in_user_obs is) 1) ++ fails 4 2 (chans_ok (po_chans p) chans' is) in
  (* ---- C05 ---- *)
  let f5 := fails 5 1 (forallb (fun kx => negb (live_user_obs (snd kx)) || Nat.eqb (fst kx) newest) (indexed_from 0 is))
            ++ fails 5 2 (negb (existsb live_user_obs is) || (nz ctx' && hasr'))
            ++ fails 5 3 (forallb (fun x => let '(c, a, r, k) := x in
                                    negb (live_user_obs x) || (N.eqb r ctx' && (negb (m_sv m) || N.eqb a st'))) is) in
  (* ---- C14 ---- *)
  let is_restart := match e with [3] => true | _ => false end in
  let is_ctx_restart := match e with [1; _; r] => nz r | _ => false end in
  let is_timer := match e with 12 :: _ => true | _ => false end in
  let f14a := fails 14 1 (negb (spawned && m_succ m) || is_restart || epoch)
              ++ fails 14 2 (negb (spawned && m_err m) || is_restart || is_ctx_restart || is_timer || epoch) in
  (* exit reporting *)
  let delta := po_delta p in
  let is_book := match e with [10; _] => true | [17; _] => true | _ => false end in
  let book_i := match e with [10; i] => n2n i | [17; i] => n2n i | _ => 0%nat end in
  let my_out := nth book_i out'' 1 in
  let nodelta := match delta with [] => true | _ => false end in
  let must_report := Nat.eqb book_i newest && m_quiet m && Nat.ltb 0 (m_ncb m) in
  (* the instance is still parked after its section (code 6): the report may also come when it leaves that gate *)
  let parked_after := match e with [10; _] => N.eqb (icode_of (nth book_i is (0, 0, 0, 0))) 6 | _ => false end in
  let pend_entry := find (fun t => Nat.eqb (fst (fst t)) book_i) (m_pend m) in
  let f14e :=
    match e with
    | [10; _] =>
      fails 14 5 ((nodelta || (Nat.eqb (length delta) (m_ncb m) && all_eq my_out delta))
                  && (parked_after || negb must_report || negb nodelta))
    | [17; _] =>
      match pend_entry with
      | Some (_, reported, must) =>
        fails 14 5 ((nodelta || (negb reported && Nat.eqb (length delta) (m_ncb m) && all_eq my_out delta))
                    && (negb must || reported || negb nodelta))
      | None => fails 14 5 nodelta
      end
    | _ => fails 14 5 nodelta
    end in
  let pend' := match e with
               | [10; _] => if parked_after then (m_pend m ++ [(book_i, negb nodelta, must_report)])%list else m_pend m
               | [17; _] => filter (fun t => negb (Nat.eqb (fst (fst t)) book_i)) (m_pend m)
               | _ => m_pend m
               end in
  let clear_ctx := match e with [1; c; _] => N.eqb c 0 && nz (m_ctx m) | _ => false end in
  let cur' := if spawned then Some newest else if epoch || clear_ctx then None else m_cur m in
  let recorded := is_book && negb nodelta
                  && match m_cur m with Some c => Nat.eqb c book_i | None => false end in
  let rec_ok := recorded && N.eqb my_out 0 in
  let rec_err := recorded && negb (N.eqb my_out 0) in
  (* a success exit REPORTED to the exit callbacks resets the container's back-off, also when it is the exit of a routine
     that was replaced meanwhile ("the backoff being reset by a success": any success; the code resets the shared
     back-off in the bookkeeping of every record's latest instance).  The pending retry is not touched in that case. *)
  let rep_ok := is_book && negb nodelta && N.eqb my_out 0 in
  (* back-off bookkeeping of the reference machine *)
  let '(idx', pend_new) :=
    match m_script m with
    | Some l => if rec_ok then (0%nat, None)
                else if rec_err then (S (m_idx m), match nth_error l (m_idx m) with
                                                   | Some d => if nz ctx' then Some (clock' + d) else None   (* no context: no retry is due *)
                                                   | None => None
                                                   end)
                else ((if rep_ok then 0%nat else m_idx m), m_pending m)
    | None => (m_idx m, None)
    end in
  let clears := spawned || epoch || is_restart || is_ctx_restart || (match e with [1; c; _] => N.eqb c 0 | _ => false end) || forgets in
  let pending' := if rec_err then pend_new else if clears then None else pend_new in
  let f14c := fails 14 3 (match pending' with
                          | Some d => negb (N.leb d clock') || negb (N.eqb (po_parked p) 0)
                          | None => true
                          end) in
  (* WaitExited results *)
  let curexit0 := if spawned || epoch then None else m_curexit m in
  let f14w :=
    match e with
    | [14; a] =>
      match nth_error (po_waits p) (n2n a) with
      | Some wc =>
        if N.leb 3 wc then
          let o := wc - 3 in
          let expect := if nz ctx0 && m_hasr m then m_curexit m else None in
          fails 14 4 (match expect with
                      | Some x => N.eqb o x
                      | None => (N.eqb o 1 && nth (n2n a) (m_wcanc m) false) || (N.eqb o 0 && negb (nz ctx0 && m_hasr m))
                      end)
        else []
      | None => [(14, 4)]%nat
      end
    | _ => []
    end in
  let curexit' := if recorded then Some my_out else curexit0 in
  let succ' := if spawned || epoch then false else if rec_ok then true else m_succ m in
  let err' := if spawned || epoch then false else if rec_err then true else if rec_ok then false else m_err m in
  let api := match e with 1 :: _ | 2 :: _ | 3 :: _ | 4 :: _ | 5 :: _ | 6 :: _ | 12 :: _ => true | _ => false end in
  let quiet' := if spawned then true else if api then false else m_quiet m in
  ({| m_sv := m_sv m; m_ncb := m_ncb m; m_script := m_script m; m_idx := idx';
      m_ctx := ctx'; m_hasr := hasr'; m_sfn := sfn'; m_st := st'; m_clock := clock';
      m_ninst := n; m_out := out''; m_chans := chans';
      m_succ := if recorded then rec_ok else succ'; m_err := if recorded then rec_err else err';
      m_curexit := curexit'; m_pending := pending'; m_quiet := quiet'; m_cur := cur'; m_exitg := m_exitg m; m_pend := pend'; m_wcanc := wcanc';
      m_dead := match e with [18; c] => c :: m_dead m | _ => m_dead m end |},
   f4 ++ f5 ++ (if m_exitg m then [] else f14a) ++ f14e ++ (if m_exitg m then [] else f14c ++ f14w)).

Definition mon (m : option mst) (e o : list N) : option mst * list (nat * nat) :=
  match m with
  | None => (None, [])
  | Some m =>
    match parse e o with
    | Some p => let '(m', f) := mon1 m e p in (Some m', f)
    | None => (Some m, [(4, 9); (5, 9); (14, 9)]%nat)
    end
  end.

Definition run_check_routine0 (cfg : list N) (evs obss : list (list N)) : list issue :=
  run_check step_opt mon (hinit cfg) (minit cfg) evs obss.

(* hasbo = 2: the container is built with routine.WithRetry(conf), conf being the backoff package's CONSTANT kind with
   interval d ms (0 = unset: the package default).  The script is then not given by the harness but computed by the
   model of the backoff package (Backoff.Model: Construct, bo_script): 64 intervals, more than a history can use. *)
Definition real_script_len : nat := 64.
Definition expand (cfg : list N) : list N :=
  match cfg with
  | variant :: cmp :: ncbs :: 2 :: exitg :: d :: _ =>
    match Backoff.Model.Construct {| Backoff.Model.c_kind := 2; Backoff.Model.c_init := 0; Backoff.Model.c_mult := 0;
                                     Backoff.Model.c_max := 0; Backoff.Model.c_rf := 0; Backoff.Model.c_maxel := 0;
                                     Backoff.Model.c_const := d |} with
    | Some p => variant :: cmp :: ncbs :: 1 :: exitg :: Backoff.Model.bo_script p real_script_len
    | None => cfg
    end
  | variant :: cmp :: ncbs :: 3 :: exitg :: _ =>
    (* hasbo = 3: routine.WithRetry(&backoff.Backoff{}) - the EMPTY configuration: the package's default exponential back-off *)
    match Backoff.Model.Construct {| Backoff.Model.c_kind := 0; Backoff.Model.c_init := 0; Backoff.Model.c_mult := 0;
                                     Backoff.Model.c_max := 0; Backoff.Model.c_rf := 0; Backoff.Model.c_maxel := 0;
                                     Backoff.Model.c_const := 0 |} with
    | Some p => variant :: cmp :: ncbs :: 1 :: exitg :: Backoff.Model.bo_script p real_script_len
    | None => cfg
    end
  | _ => cfg
  end.

Definition run_check_routine (cfg : list N) (evs obss : list (list N)) : list issue :=
  run_check_routine0 (expand cfg) evs obss.
