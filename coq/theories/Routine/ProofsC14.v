(* routine, C14: exit status, restart rules and back-off.  Per-step facts of the model (they hold from EVERY state,
   hence along every event list) plus the invariants they need. *)
From Util Require Import Common.Base Common.ListLemmas Routine.Model Routine.Proofs.

Definition ninst (s : st) : nat := length (insts s).

(* events that are not API calls and not a timer callback *)
Definition passive (e : ev) : bool :=
  match e with
  | EProceed _ _ | EWake _ _ | EReturn _ _ | EBook _ | EAdvance _ | EWaitExited _ | EWSect _ | EWWake _ | EWCancel _ | EWErr _ _
  | ECancelRoot _ => true
  | _ => false
  end.

Lemma ninst_seti s i x : nth_error (insts s) i = Some x -> forall x', ninst (seti s i x') = ninst s.
Proof. intros _ x'. unfold ninst. rewrite insts_seti. apply length_set_nth. Qed.

Lemma bookkeep_frame s i : ninst (bookkeep s i) = ninst s /\ routine (bookkeep s i) = routine s /\ kctx (bookkeep s i) = kctx s.
Proof.
  unfold bookkeep. destruct (nth_error (insts s) i) as [x|] eqn:Ex; [|auto].
  destruct (ipcv x); auto.
  set (s0 := seti s i (with_pc x IDone)).
  assert (F0 : ninst s0 = ninst s /\ routine s0 = routine s /\ kctx s0 = kctx s) by (repeat split; eapply ninst_seti; eauto).
  destruct (rctx (getr s (irec x))) as [j|]; [|exact F0]. destruct (Nat.eqb j i); [|exact F0].
  destruct (stop_timer_other s0 (rretry (getr s (irec x)))) as [T1 [_ [T3 [_ T5]]]].
  assert (G : forall S, insts S = insts s0 -> routine S = routine s0 -> kctx S = kctx s0 -> forall y,
              ninst (do_bcast (set_cblog (setr S (irec x) y) (cblog (setr S (irec x) y) ++ repeat o (ncb (setr S (irec x) y))))) = ninst s /\
              routine (do_bcast (set_cblog (setr S (irec x) y) (cblog (setr S (irec x) y) ++ repeat o (ncb (setr S (irec x) y))))) = routine s /\
              kctx (do_bcast (set_cblog (setr S (irec x) y) (cblog (setr S (irec x) y) ++ repeat o (ncb (setr S (irec x) y))))) = kctx s).
  { intros S E1 E2 E3 y. destruct F0 as [A [B C]]. unfold ninst in *. cbn [insts routine kctx do_bcast set_b set_cblog setr set_recs].
    rewrite E1, E2, E3. auto. }
  destruct (bo s0) as [[l k]|].
  - destruct (is_nil o); [apply G; auto|].
    destruct (match routine (stop_timer s0 (rretry (getr s (irec x)))) with Some r' => Nat.eqb r' (irec x) | None => false end).
    + destruct (nth_error l k); apply G; auto.
    + apply G; auto.
  - apply G; auto.
Qed.

(* passive events never start an instance and never change which routine is set; the container's context changes only
   in that a WaitExited section forgets a root context that was cancelled by its owner *)
Lemma passive_no_spawn s e : passive e = true ->
  ninst (step repaired s e) = ninst s /\ routine (step repaired s e) = routine s /\
  (kctx (step repaired s e) = kctx s \/ (kctx (step repaired s e) = 0 /\ root_dead s (kctx s) = true)).
Proof.
  destruct e; cbn [passive step]; intros Hp; try discriminate.
  - unfold proceed. destruct (nth_error (insts s) i) as [x|] eqn:Ex; [|auto]. destruct (ipcv x); auto.
    destruct (iwait x); [destruct (pred_closed s x && icanc x); [destruct enter|destruct (pred_closed s x); [|destruct (icanc x); cbn [fx_wait repaired]]]|destruct (icanc x)];
      repeat split; auto; eapply ninst_seti; eauto.
  - unfold wake. destruct (nth_error (insts s) i) as [x|] eqn:Ex; [|auto]. destruct (ipcv x); auto.
    + destruct (pred_closed s x && icanc x); [destruct enter|destruct (pred_closed s x); [|destruct (icanc x); cbn [fx_wait repaired]]];
        auto; repeat split; auto; eapply ninst_seti; eauto.
    + destruct (pred_closed s x); auto. repeat split; auto; eapply ninst_seti; eauto.
  - unfold fn_return. destruct (nth_error (insts s) i) as [x|] eqn:Ex; [|auto]. destruct (ipcv x); auto.
    repeat split; auto; eapply ninst_seti; eauto.
  - destruct (bookkeep_frame s i) as (A & B & C). auto.
  - auto.
  - auto.
  - unfold wait_section. destruct (nth_error (waiters s) a) as [w|]; [|auto]. destruct (wpcv w); auto.
    assert (G : ninst (wait_sect_at (norm s) a w) = ninst (norm s) /\ routine (wait_sect_at (norm s) a w) = routine (norm s) /\
                kctx (wait_sect_at (norm s) a w) = kctx (norm s)).
    { unfold wait_sect_at. destruct (getch (b (norm s))) as [b' ch].
      destruct (match routine (norm s) with Some r => _ | None => _ end); [|destruct (wcanc w)]; auto. }
    destruct G as (G1 & G2 & G3). rewrite G1, G2, G3. unfold norm. destruct (root_dead s (kctx s)) eqn:Ed; auto.
  - unfold wait_wake. destruct (nth_error (waiters s) a) as [w|]; [|auto]. destruct (wpcv w); auto. destruct (closed (b s) ch); auto.
  - unfold wait_cancel. destruct (nth_error (waiters s) a) as [w|]; [|auto]. destruct (wpcv w); auto.
  - unfold wait_errch. destruct (nth_error (waiters s) a) as [w|]; [|auto]. destruct (wpcv w); auto.
  - unfold cancel_root, ninst. cbn [insts routine kctx set_insts set_dead]. rewrite map_length. auto.
Qed.

(* start without force on a record that succeeded does nothing *)
Lemma start_rec_succeeded s r ctx w : rsucc (getr s r) = true -> start_rec repaired s r ctx w false = s.
Proof. intros H. unfold start_rec. now rewrite H. Qed.

(* SetContext never re-runs a routine that returned nil *)
Lemma set_context_success_no_spawn s c restart r :
  InvI (insts s) -> routine s = Some r -> r < length (recs s) -> rsucc (getr s r) = true ->
  ninst (fst (set_context repaired s c restart)) = ninst s.
Proof.
  intros HI Hr Hrl Hs. unfold set_context.
  destruct (Nat.eqb (kctx s) c && negb restart); [reflexivity|].
  change (routine (set_kctx s c)) with (routine s). rewrite Hr.
  destruct (Nat.eqb (kctx s) c && is_nil (rerr (getr (set_kctx s c) r))); [reflexivity|].
  destruct (negb (is_nil (rerr (getr (set_kctx s c) r))) && negb restart && negb (Nat.eqb c 0)); [reflexivity|].
  cbn [fst].
  destruct (stop_rec_facts (set_kctx s c) r HI) as [_ [S2 [_ [_ [_ [_ [S7 _]]]]]]].
  destruct (S7 Hrl) as [_ [_ [_ [_ [Q _]]]]].
  destruct ((is_nil (rerr (getr (set_kctx s c) r)) || restart) && negb (Nat.eqb c 0)).
  - rewrite start_rec_succeeded by (rewrite Q; exact Hs). exact S2.
  - exact S2.
Qed.

(* SetContext without restart never re-runs a routine that exited with an error *)
Lemma set_context_error_no_spawn s c r :
  InvI (insts s) -> routine s = Some r -> is_nil (rerr (getr s r)) = false ->
  ninst (fst (set_context repaired s c false)) = ninst s.
Proof.
  intros HI Hr He. unfold set_context.
  destruct (Nat.eqb (kctx s) c && negb false); [reflexivity|].
  change (routine (set_kctx s c)) with (routine s). rewrite Hr.
  change (getr (set_kctx s c) r) with (getr s r). rewrite He. rewrite andb_false_r. cbn [negb andb orb].
  destruct (Nat.eqb c 0); cbn [negb fst]; [|reflexivity].
  destruct (stop_rec_facts (set_kctx s c) r HI) as [_ [S2 _]]. exact S2.
Qed.

(* and it keeps the pending retry (D4): the record is not touched at all *)
Lemma set_context_error_keeps_retry s c r :
  routine s = Some r -> is_nil (rerr (getr s r)) = false -> c <> 0 ->
  let s' := fst (set_context repaired s c false) in
  recs s' = recs s /\ timers s' = timers s /\ routine s' = routine s /\ kctx s' = c.
Proof.
  intros Hr He Hc. unfold set_context.
  destruct (Nat.eqb_spec (kctx s) c) as [E|E]; cbn [negb andb]; [cbn; auto|].
  change (routine (set_kctx s c)) with (routine s). rewrite Hr.
  change (getr (set_kctx s c) r) with (getr s r). rewrite He. cbn [negb andb].
  destruct (Nat.eqb_spec c 0); [contradiction|]. cbn. auto.
Qed.

(* ---- the exit callbacks ---- *)
Ltac fr := repeat (match goal with |- context [match ?x with _ => _ end] => destruct x end); cbn; auto.

Lemma cblog_cancel_inst s oi : cblog (cancel_inst s oi) = cblog s /\ ncb (cancel_inst s oi) = ncb s.
Proof. unfold cancel_inst. fr. Qed.
Lemma cblog_stop_timer s ot : cblog (stop_timer s ot) = cblog s /\ ncb (stop_timer s ot) = ncb s.
Proof. unfold stop_timer. fr. Qed.
Lemma cblog_stop_rec s r : cblog (stop_rec s r) = cblog s.
Proof.
  unfold stop_rec. cbn [cblog setr set_recs].
  destruct (cblog_stop_timer (cancel_inst s (rcancel (getr s r))) (rretry (getr s r))) as [A _].
  destruct (cblog_cancel_inst s (rcancel (getr s r))) as [B _]. congruence.
Qed.
Lemma cblog_start_rec fx s r ctx w force : cblog (start_rec fx s r ctx w force) = cblog s.
Proof.
  unfold start_rec. destruct (_ || _); [reflexivity|]. destruct (_ && _ && _ && _); [reflexivity|].
  cbn [cblog setr set_recs set_lastexit set_insts]. apply cblog_stop_rec.
Qed.
Lemma cblog_set_context s c restart : cblog (fst (set_context repaired s c restart)) = cblog s.
Proof.
  unfold set_context. destruct (_ && negb restart); [reflexivity|].
  change (routine (set_kctx s c)) with (routine s). destruct (routine s) as [r|]; [|reflexivity].
  destruct (_ && is_nil _); [reflexivity|]. destruct (_ && _ && _); [reflexivity|]. cbn [fst cblog do_bcast set_b].
  destruct (_ && negb (Nat.eqb c 0)); [rewrite cblog_start_rec|]; apply (cblog_stop_rec (set_kctx s c)).
Qed.
Lemma cblog_norm s : cblog (norm s) = cblog s. Proof. unfold norm. destruct (root_dead s (kctx s)); reflexivity. Qed.
Lemma cblog_set_routine_locked_n s f arg : cblog (fst (set_routine_locked_n repaired s f arg)) = cblog s.
Proof.
  unfold set_routine_locked_n. destruct (routine s) as [p|].
  - destruct (cblog_cancel_inst s (rcancel (getr s p))) as [A _].
    destruct (negb (Nat.eqb f 0)); cbn [fst cblog do_bcast set_b].
    + destruct (negb (Nat.eqb _ 0)); [rewrite cblog_start_rec|]; exact A.
    + destruct (_ && _); exact A.
  - destruct (negb (Nat.eqb f 0)); cbn [fst cblog do_bcast set_b]; [|reflexivity].
    destruct (negb (Nat.eqb _ 0)); [rewrite cblog_start_rec|]; reflexivity.
Qed.
Lemma cblog_set_routine_locked s f arg : cblog (fst (set_routine_locked repaired s f arg)) = cblog s.
Proof. unfold set_routine_locked. now rewrite cblog_set_routine_locked_n, cblog_norm. Qed.
Lemma cblog_restart_routine_n s : cblog (fst (restart_routine_n repaired s)) = cblog s.
Proof.
  unfold restart_routine_n. destruct (routine s) as [r|]; [|reflexivity].
  destruct (cblog_cancel_inst s (rcancel (getr s r))) as [A _].
  destruct (Nat.eqb _ 0); cbn [fst cblog do_bcast set_b]; [exact A|]. rewrite cblog_start_rec. exact A.
Qed.
Lemma cblog_restart_routine s : cblog (fst (restart_routine repaired s)) = cblog s.
Proof. unfold restart_routine. now rewrite cblog_restart_routine_n, cblog_norm. Qed.
Lemma cblog_update_sr s : cblog (fst (update_sr repaired s)) = cblog s.
Proof.
  unfold update_sr. pose proof (cblog_set_routine_locked s (if negb (Nat.eqb (sfn s) 0) && negb (N.eqb (sval s) 0) then sfn s else 0) (sval s)) as G.
  destruct (set_routine_locked repaired s _ (sval s)) as [s1 [w reset]]. exact G.
Qed.
Lemma cblog_set_state_locked s v : cblog (fst (set_state_locked repaired s v)) = cblog s.
Proof.
  unfold set_state_locked. destruct (state_equal _ _ _); [reflexivity|].
  pose proof (cblog_update_sr (set_sval s v)) as G. destruct (update_sr repaired (set_sval s v)) as [s1 [[w reset] running]]. exact G.
Qed.
Lemma cblog_swap_value s g : cblog (fst (swap_value repaired s g)) = cblog s.
Proof.
  unfold swap_value. destruct (negb _); [|reflexivity].
  pose proof (cblog_set_state_locked s (if Nat.eqb g 0 then sval s else swap_fn g (sval s))) as G.
  destruct (set_state_locked repaired s _) as [s1 [[[w ch] reset] running]]. exact G.
Qed.
Lemma cblog_timer_cb s t : cblog (timer_cb repaired s t) = cblog s.
Proof.
  unfold timer_cb. destruct (nth_error (timers s) t) as [x|]; [|reflexivity]. destruct (tst x); try reflexivity.
  cbn [cblog do_bcast set_b]. destruct (_ && _ && _ && _); [rewrite cblog_start_rec|]; reflexivity.
Qed.

(* only a bookkeeping section calls the exit callbacks *)
Lemma cblog_only_bookkeep s e : (forall i, e <> EBook i) -> cblog (step repaired s e) = cblog s.
Proof.
  intros Hn. destruct e; cbn [step].
  - apply cblog_set_context.
  - destruct (sv s); [reflexivity | apply cblog_set_routine_locked].
  - apply cblog_restart_routine.
  - destruct (sv s); [apply cblog_set_state_locked | reflexivity].
  - destruct (sv s); [apply cblog_swap_value | reflexivity].
  - destruct (sv s); [apply (cblog_update_sr (set_sfn s f)) | reflexivity].
  - unfold proceed. fr.
  - unfold wake. fr.
  - unfold fn_return. fr.
  - exfalso. exact (Hn i eq_refl).
  - reflexivity.
  - apply cblog_timer_cb.
  - reflexivity.
  - unfold wait_section. destruct (nth_error (waiters s) a) as [w|]; [|reflexivity]. destruct (wpcv w); try reflexivity.
    rewrite <- (cblog_norm s). unfold wait_sect_at. fr.
  - unfold wait_wake. fr.
  - unfold wait_cancel. fr.
  - unfold wait_errch. fr.
  - reflexivity.
Qed.

(* a bookkeeping section reports the instance's own outcome to every callback exactly once iff the instance is
   still the current one of its record, and reports nothing otherwise *)
Lemma bookkeep_reports s i x o :
  nth_error (insts s) i = Some x -> ipcv x = IBook o ->
  cblog (bookkeep s i) = if (match rctx (getr s (irec x)) with Some j => Nat.eqb j i | None => false end)
                         then cblog s ++ repeat o (ncb s) else cblog s.
Proof.
  intros Hx Hp. unfold bookkeep. rewrite Hx, Hp.
  destruct (rctx (getr s (irec x))) as [j|]; [|reflexivity]. destruct (Nat.eqb j i); [|reflexivity].
  set (s0 := seti s i (with_pc x IDone)).
  destruct (cblog_stop_timer s0 (rretry (getr s (irec x)))) as [A B].
  destruct (bo s0) as [[l k]|]; [|reflexivity].
  destruct (is_nil o); [cbn; rewrite A, B; reflexivity|].
  destruct (match routine (stop_timer s0 (rretry (getr s (irec x)))) with Some r' => Nat.eqb r' (irec x) | None => false end);
    [destruct (nth_error l k)|]; cbn; rewrite A, B; reflexivity.
Qed.

(* the status a bookkeeping section records, and the back-off: reset by a success, advanced by a failure *)
Lemma getr_bc S l r : getr (do_bcast (set_cblog S l)) r = getr S r. Proof. reflexivity. Qed.
Lemma bo_stop_timer s ot : bo (stop_timer s ot) = bo s. Proof. unfold stop_timer. fr. Qed.

Lemma bookkeep_records s i x o :
  nth_error (insts s) i = Some x -> ipcv x = IBook o -> rctx (getr s (irec x)) = Some i -> irec x < length (recs s) ->
  let y := getr (bookkeep s i) (irec x) in
  rerr y = o /\ rsucc y = is_nil o /\ rexited y = true /\ rexit y = None /\
  (forall l k, bo s = Some (l, k) -> bo (bookkeep s i) = Some (l, if is_nil o then 0 else if match routine s with Some r' => Nat.eqb r' (irec x) | None => false end then S k else k)).
Proof.
  intros Hx Hp Hc Hrl. unfold bookkeep. rewrite Hx, Hp, Hc, Nat.eqb_refl.
  set (s0 := seti s i (with_pc x IDone)).
  destruct (stop_timer_other s0 (rretry (getr s (irec x)))) as [T1 [T2 [T3 [T4 T5]]]].
  pose proof (bo_stop_timer s0 (rretry (getr s (irec x)))) as T6.
  assert (Hrl0 : irec x < length (recs (stop_timer s0 (rretry (getr s (irec x)))))) by (rewrite T4; exact Hrl).
  change (bo s0) with (bo s) in *. destruct (bo s) as [[l k]|] eqn:Eb; cbn zeta.
  - destruct (is_nil o) eqn:En.
    + rewrite getr_bc, getr_setr_same by exact Hrl0. cbn [rerr rsucc rexited rexit].
      repeat split; auto. intros l' k' E. inversion E; subst. reflexivity.
    + rewrite T3. change (routine s0) with (routine s).
      destruct (match routine s with Some r' => Nat.eqb r' (irec x) | None => false end).
      * destruct (nth_error l k).
        -- rewrite getr_bc, getr_setr_same by exact Hrl0. cbn [rerr rsucc rexited rexit].
           repeat split; auto. intros l' k' E. inversion E; subst. reflexivity.
        -- rewrite getr_bc, getr_setr_same by exact Hrl0. cbn [rerr rsucc rexited rexit].
           repeat split; auto. intros l' k' E. inversion E; subst. reflexivity.
      * rewrite getr_bc, getr_setr_same by exact Hrl0. cbn [rerr rsucc rexited rexit].
        repeat split; auto. intros l' k' E. inversion E; subst.
        cbn [bo do_bcast set_b set_cblog setr set_recs]. exact T6.
  - rewrite getr_bc, getr_setr_same by exact Hrl. cbn [rerr rsucc rexited rexit]. repeat split; auto. intros l' k' E. discriminate.
Qed.

(* WaitExited: what one section returns (the section first forgets a root context cancelled by its owner) *)
Lemma wait_sect_at_result s a w o :
  a < length (waiters s) ->
  wpcv (nth a (waiters (wait_sect_at s a w)) waiter0) = WRet o ->
  (exists r, routine s = Some r /\ kctx s <> 0 /\ (rexited (getr s r) = true \/ rsucc (getr s r) = true) /\ o = rerr (getr s r))
  \/ (wrinr w = true /\ (routine s = None \/ kctx s = 0) /\ o = ONil)
  \/ (wcanc w = true /\ o = OCanc).
Proof.
  intros Hl. unfold wait_sect_at.
  destruct (getch (b s)) as [b' ch].
  destruct (routine s) as [r|] eqn:Er.
  - destruct (Nat.eqb_spec (kctx s) 0) as [Ek|Ek]; cbn [negb].
    + destruct (wrinr w) eqn:Ei.
      * unfold setw. cbn [waiters set_waiters set_b]. rewrite nth_set_nth_same by exact Hl. cbn. intros E. inversion E. right. left. auto.
      * destruct (wcanc w) eqn:Ec; unfold setw; cbn [waiters set_waiters set_b]; rewrite nth_set_nth_same by exact Hl; cbn; intros E; inversion E. right. right. auto.
    + destruct (rexited (getr s r) || rsucc (getr s r)) eqn:Ex.
      * unfold setw. cbn [waiters set_waiters set_b]. rewrite nth_set_nth_same by exact Hl. cbn. intros E. inversion E. left.
        exists r. apply orb_true_iff in Ex. auto.
      * destruct (wcanc w) eqn:Ec; unfold setw; cbn [waiters set_waiters set_b]; rewrite nth_set_nth_same by exact Hl; cbn; intros E; inversion E. right. right. auto.
  - destruct (wrinr w) eqn:Ei.
    + unfold setw. cbn [waiters set_waiters set_b]. rewrite nth_set_nth_same by exact Hl. cbn. intros E. inversion E. right. left. auto.
    + destruct (wcanc w) eqn:Ec; unfold setw; cbn [waiters set_waiters set_b]; rewrite nth_set_nth_same by exact Hl; cbn; intros E; inversion E. right. right. auto.
Qed.

Lemma wait_section_result s a w o :
  nth_error (waiters s) a = Some w -> wpcv w = WGate ->
  wpcv (nth a (waiters (wait_section s a)) waiter0) = WRet o ->
  (exists r, routine s = Some r /\ kctx s <> 0 /\ root_dead s (kctx s) = false /\
             (rexited (getr s r) = true \/ rsucc (getr s r) = true) /\ o = rerr (getr s r))
  \/ (wrinr w = true /\ (routine s = None \/ kctx s = 0 \/ root_dead s (kctx s) = true) /\ o = ONil)
  \/ (wcanc w = true /\ o = OCanc).
Proof.
  intros Hw Hp. unfold wait_section. rewrite Hw, Hp. intros H.
  assert (Hl : a < length (waiters (norm s))) by (unfold norm; destruct (root_dead s (kctx s)); eapply nth_error_nth_len; eauto).
  destruct (wait_sect_at_result (norm s) a w o Hl H) as [(r & A & B & C & D) | [(A & B & C) | A]]; [| |auto].
  - left. exists r. unfold norm in *. destruct (root_dead s (kctx s)) eqn:Ed; [cbn in B; contradiction|]. auto.
  - right. left. split; [exact A|]. split; [|exact C]. unfold norm in B. destruct (root_dead s (kctx s)) eqn:Ed; [auto|].
    destruct B; auto.
Qed.

(* the retry: after the deadline the timer is fired, and its callback restarts the routine *)
Lemma advance_fires s d t x :
  nth_error (timers s) t = Some x -> tst x = TArmed -> (tdead x <= clock s + d)%N ->
  exists x', nth_error (timers (advance s d)) t = Some x' /\ tst x' = TFired /\ trec x' = trec x.
Proof.
  intros Hx Ha Hd. unfold advance. cbn [timers set_timers set_clock]. rewrite nth_error_map, Hx. cbn.
  unfold fire. rewrite Ha. destruct (N.leb_spec (tdead x) (clock s + d)); [|lia]. eexists. repeat split; reflexivity.
Qed.

Lemma timer_cb_restarts s t x r :
  nth_error (timers s) t = Some x -> tst x = TFired -> trec x = r ->
  routine s = Some r -> kctx s <> 0 -> rexited (getr s r) = true -> rretry (getr s r) = Some t -> rfn (getr s r) <> 0 ->
  ninst (timer_cb repaired s t) = S (ninst s).
Proof.
  intros Hx Hf Hr Hc Hk He Ht Hfn. unfold timer_cb. rewrite Hx, Hf.
  set (s1 := set_timers s _). change (getr s1 (trec x)) with (getr s (trec x)). rewrite Hr, Ht, Nat.eqb_refl.
  change (kctx s1) with (kctx s). change (routine s1) with (routine s). rewrite Hc, Nat.eqb_refl, He.
  destruct (Nat.eqb_spec (kctx s) 0); [contradiction|]. cbn [fx_timer repaired negb andb].
  unfold ninst. cbn [insts do_bcast set_b]. unfold start_rec.
  change (getr s1 r) with (getr s r). cbn [negb andb]. destruct (Nat.eqb_spec (rfn (getr s r)) 0); [contradiction|]. cbn [orb].
  cbn [insts setr set_recs set_lastexit set_insts]. rewrite app_length. cbn [length].
  assert (L : length (insts (stop_rec s1 r)) = length (insts s)).
  { unfold stop_rec. rewrite insts_setr.
    destruct (stop_timer_other (cancel_inst s1 (rcancel (getr s1 r))) (rretry (getr s1 r))) as [E1 _]. rewrite E1.
    unfold cancel_inst. destruct (rcancel (getr s1 r)) as [i|]; [|reflexivity].
    destruct (nth_error (insts s1) i); [|reflexivity]. rewrite insts_seti. apply length_set_nth. }
  rewrite L. lia.
Qed.
