(* routine: every kind of harness-level step preserves R and raises no clause (non-bookkeeping events).
   Part of the proof of model_satisfies_monitors (ProofsMon.v). *)
From Util Require Import Common.Base Common.ListLemmas Routine.Model Routine.Proofs Routine.ProofsC05 Routine.ProofsC14 Routine.ProofsC14b
  Routine.Spec Routine.ProofsMonInv Routine.ProofsMonObs Routine.ProofsMonStep Routine.ProofsMonDef Routine.ProofsMonR Routine.ProofsMonNB.
Open Scope N_scope.

Lemma nz_of_nat a : nz (N.of_nat a) = negb (Nat.eqb a 0).
Proof. unfold nz. destruct a; reflexivity. Qed.

Lemma of_nat_n2n c : N.of_nat (n2n c) = c. Proof. apply Nnat.N2Nat.id. Qed.

Lemma n2n_zero c : n2n c = 0%nat <-> c = 0.
Proof. unfold n2n. split; [intros H; apply Nnat.N2Nat.inj; now rewrite H | intros ->; reflexivity]. Qed.

Lemma enc_dec_out o : enc_out (dec_out o) = o.
Proof.
  unfold dec_out, enc_out. destruct o as [|q]; [reflexivity|]. destruct q; try reflexivity; unfold n2n; lia.
Qed.

(* the routine flag of the reference machine, when neither the function nor the state changes *)
Lemma hasr_same m h : R m h -> AllInv (hs h) ->
  (if m_sv m then nz (m_sfn m) && nz (m_st m) else m_hasr m) = has_routine (hs h).
Proof.
  intros HR (_ & _ & _ & (_ & _ & _ & _ & SV & _)). rewrite (R_sv _ _ HR). destruct (sv (hs h)) eqn:Ev; [|apply (R_hasr _ _ HR)].
  rewrite (R_sfn _ _ HR), (R_st _ _ HR), nz_of_nat. unfold has_routine. rewrite (SV Ev). reflexivity.
Qed.

Lemma hasr_sv_new s1 : AllInv (settle s1) -> sv s1 = true -> nz (N.of_nat (sfn s1)) && nz (sval s1) = has_routine s1.
Proof.
  intros (_ & _ & _ & (_ & _ & _ & _ & SV & _)) Ev. pose proof (quiet_settle s1) as Q.
  unfold SV1 in SV. rewrite (q_sv _ _ Q), (q_routine _ _ Q), (q_sfn _ _ Q), (q_sval _ _ Q) in SV.
  rewrite nz_of_nat. unfold has_routine. rewrite (SV Ev). reflexivity.
Qed.

(* ---- the per-instance outcome table ---- *)
Lemma out_pad_length (mo : list N) n : (length mo <= n)%nat -> length (mo ++ repeat 1 (n - length mo)) = n.
Proof. intros H. rewrite app_length, repeat_length. lia. Qed.

Section OutApi.
  Variables (m : mst) (h : hst) (s1 : st) (k : nat).
  Hypothesis HR : R m h.
  Hypothesis KEEP : forall i x, nth_error (insts (hs h)) i = Some x -> exists x1, nth_error (insts s1) i = Some x1 /\ ipcv x1 = ipcv x.
  Hypothesis NEW : forall i x1, (length (insts (hs h)) <= i)%nat -> nth_error (insts s1) i = Some x1 -> ipcv x1 = IGate0.
  Lemma out_api i x1 : nth_error (insts s1) i = Some x1 -> out_ok (ipcv x1) (nth i (m_out m ++ repeat 1 k) 1).
  Proof.
    intros Hx1. rewrite nth_pad. destruct (Nat.lt_ge_cases i (length (insts (hs h)))) as [Hl|Hl].
    - destruct (nth_error (insts (hs h)) i) as [x|] eqn:Ex; [|apply nth_error_None in Ex; lia].
      destruct (KEEP i x Ex) as (x1' & Hx1' & Ep). assert (x1' = x1) by congruence. subst x1'. rewrite Ep. apply (R_out _ _ HR i x Ex).
    - rewrite (NEW i x1 Hl Hx1). cbn. apply nth_overflow. rewrite (R_outl _ _ HR). exact Hl.
  Qed.
End OutApi.

Lemma inst_keep_pc l l' : inst_keep l l' -> forall i x, nth_error l i = Some x -> exists x1, nth_error l' i = Some x1 /\ ipcv x1 = ipcv x.
Proof. intros H i x Hx. destruct (H i x Hx) as (x1 & A & B & _). eauto. Qed.
Lemma inst_keep_rec l l' : inst_keep l l' -> forall i x, nth_error l i = Some x -> exists x1, nth_error l' i = Some x1 /\ irec x1 = irec x.
Proof. intros H i x Hx. destruct (H i x Hx) as (x1 & A & _ & B & _). eauto. Qed.

Lemma new_is_gate n s1 : (length (insts s1) = n \/ spawnB n s1) -> forall i x1, (n <= i)%nat -> nth_error (insts s1) i = Some x1 -> ipcv x1 = IGate0.
Proof.
  intros [L | (L & r & _ & _ & _ & _ & _ & _ & _ & _ & x & Hx & Hp & _)] i x1 Hi Hx1.
  - apply nth_error_nth_len in Hx1. lia.
  - assert (i = n) by (apply nth_error_nth_len in Hx1; lia). subst i. congruence.
Qed.

Lemma pending_ok_same s s1 d : recs s1 = recs s -> timers s1 = timers s -> routine s1 = routine s -> kctx s1 = kctx s ->
  pending_ok s d -> pending_ok s1 d.
Proof. intros A B C D. unfold pending_ok, getr. now rewrite A, B, C, D. Qed.

(* ------------------------------------------------------------------ *)
(* events that touch neither instances nor records (only timers, clock, waiters) *)
Section Light.
  Variables (m : mst) (h : hst) (e : list N) (s1 : st) (ch : list (option nat)) (rets : list N) (ex : list nat).
  Hypothesis HR : R m h.
  Hypothesis HA : AllInv (hs h).
  Hypothesis HA' : AllInv (settle s1).
  Local Notation s := (hs h).
  Local Notation p := (pobs_of rets (hmid h s1 ch ex)).
  Hypothesis Ei : insts s1 = insts s.
  Hypothesis Er : recs s1 = recs s.
  Hypothesis Ero : routine s1 = routine s.
  Hypothesis Ed : dead s1 = dead s.
  Hypothesis Eb : bo s1 = bo s.
  Hypothesis Ecb : cblog s1 = cblog s.
  Hypothesis Encb : ncb s1 = ncb s.
  Hypothesis Esv : sv s1 = sv s.
  Hypothesis Esfn : sfn s1 = sfn s.
  Hypothesis Esval : sval s1 = sval s.
  Hypothesis X2 : forall i a b, In (i, a, b) (x_pend m e p) -> In (i, a, b) (m_pend m).
  Hypothesis C_ctx : x_ctx m e p = N.of_nat (kctx s1).
  Hypothesis XD : match e with [18; c] => c :: m_dead m | _ => m_dead m end = m_dead m.
  Hypothesis X4 : x_st m e p = m_st m.
  Hypothesis X5 : x_sfn m e = m_sfn m.
  Hypothesis X6 : x_hasr m e p = (if m_sv m then nz (m_sfn m) && nz (m_st m) else m_hasr m).
  Hypothesis X7 : x_epoch e p = false.
  Hypothesis X8 : x_clear_ctx m e = false.
  Hypothesis X9 : x_out m e p = x_out' m p.
  Hypothesis X10 : x_nodelta p = true -> x_f14e m e p = [].
  Hypothesis CH : (ch = hch h /\ x_chans m e = m_chans m) \/ (ch = (hch h ++ [None])%list /\ x_chans m e = (m_chans m ++ [m_ninst m])%list).
  Hypothesis CK' : x_clock m e = clock s1.
  Hypothesis WC : x_wcanc m e = map wcanc (waiters s1).
  Hypothesis PEND : forall d, m_pending m = Some d -> x_clears m e p = false -> pending_ok s1 d.
  Hypothesis NW : m_exitg m = false -> x_f14w m e p = [].

  Lemma light_step_ok_gen : step_ok m h e s1 ch rets ex.
  Proof.
    assert (K : keepA s s1) by (apply keepA_ext; [now rewrite Ei | exact Ero | exact Er]).
    assert (Hn : x_n p = length (insts s)) by (rewrite x_n_obs, (q_ilen _ _ (quiet_settle s1)), Ei; reflexivity).
    apply nb_step_ok; try assumption.
    - intros i a b Hin. apply (R_pend _ _ HR i a b). now apply X2.
    - now rewrite X4, Esval, (R_st _ _ HR).
    - now rewrite X5, Esfn, (R_sfn _ _ HR).
    - rewrite X6, (hasr_same _ _ HR HA). unfold has_routine. now rewrite Ero.
    - left. split; [exact K | exact X7].
    - rewrite X8. discriminate.
    - rewrite XD, Ed. apply (R_dead _ _ HR).
    - intros i x Hx. exists x. rewrite Ei. auto.
    - intros i x1 Hx1. rewrite X9. unfold x_out'. rewrite nth_pad. rewrite Ei in Hx1. apply (R_out _ _ HR i x1 Hx1).
    - rewrite X9. unfold x_out'. rewrite Hn, Ei. apply out_pad_length. rewrite (R_outl _ _ HR). lia.
    - destruct CH as [C | [C1 C2]]; [now left|]. right. exists None. split; [exact C1|]. split; [exact C2|]. intros j Hj. discriminate.
    - intros _. split; [exact Er|]. intros i x1 Hx1. rewrite Ei in Hx1. eauto.
    - intros _ _ _. now rewrite Ei.
    - intros _ _ _ _ _. now rewrite Ei.
  Qed.
End Light.

Lemma light_step_ok m h e s1 ch rets ex :
  R m h -> AllInv (hs h) -> AllInv (settle s1) ->
  insts s1 = insts (hs h) -> recs s1 = recs (hs h) -> routine s1 = routine (hs h) -> kctx s1 = kctx (hs h) -> bo s1 = bo (hs h) ->
  cblog s1 = cblog (hs h) -> ncb s1 = ncb (hs h) -> sv s1 = sv (hs h) -> sfn s1 = sfn (hs h) -> sval s1 = sval (hs h) -> dead s1 = dead (hs h) ->
  x_is_book e = false -> x_pend m e (pobs_of rets (hmid h s1 ch ex)) = m_pend m -> x_ctx m e (pobs_of rets (hmid h s1 ch ex)) = m_ctx m ->
  match e with [18; c] => c :: m_dead m | _ => m_dead m end = m_dead m ->
  x_st m e (pobs_of rets (hmid h s1 ch ex)) = m_st m -> x_sfn m e = m_sfn m ->
  x_hasr m e (pobs_of rets (hmid h s1 ch ex)) = (if m_sv m then nz (m_sfn m) && nz (m_st m) else m_hasr m) ->
  x_epoch e (pobs_of rets (hmid h s1 ch ex)) = false -> x_clear_ctx m e = false ->
  x_out m e (pobs_of rets (hmid h s1 ch ex)) = x_out' m (pobs_of rets (hmid h s1 ch ex)) ->
  x_f14e m e (pobs_of rets (hmid h s1 ch ex)) = fails 14 5 (x_nodelta (pobs_of rets (hmid h s1 ch ex))) ->
  (ch = hch h /\ x_chans m e = m_chans m) \/ (ch = (hch h ++ [None])%list /\ x_chans m e = (m_chans m ++ [m_ninst m])%list) ->
  x_clock m e = clock s1 -> x_wcanc m e = map wcanc (waiters s1) ->
  (forall d, pending_ok (hs h) d -> pending_ok s1 d) ->
  (m_exitg m = false -> x_f14w m e (pobs_of rets (hmid h s1 ch ex)) = []) ->
  step_ok m h e s1 ch rets ex.
Proof.
  intros HR HA HA' E1 E2 E3 E4 E5 E6 E7 E8 E9 E10 E11 _ X2 X3 XD X4 X5 X6 X7 X8 X9 X10 CH CK' WC PEND NW.
  apply light_step_ok_gen; try assumption.
  - rewrite X2. auto.
  - now rewrite X3, E4, (R_ctx _ _ HR).
  - intros Hn. rewrite X10, Hn. reflexivity.
  - intros d Hd _. apply PEND. apply (R_pending _ _ HR d Hd).
Qed.

Lemma map_set_nth {A B} (f : A -> B) (l : list A) k v : map f (set_nth l k v) = set_nth (map f l) k (f v).
Proof. revert k. induction l as [|x l IH]; intros [|k]; cbn; try reflexivity. now rewrite IH. Qed.

Lemma set_nth_same {A} (l : list A) k v : nth_error l k = Some v -> set_nth l k v = l.
Proof. revert k. induction l as [|x l IH]; intros [|k] H; cbn in *; try discriminate; [now inversion H | now rewrite IH]. Qed.

Lemma map_set_nth_keep {A B} (f : A -> B) (l : list A) k w v : nth_error l k = Some w -> f v = f w -> map f (set_nth l k v) = map f l.
Proof. intros H E. rewrite map_set_nth, E. apply set_nth_same. now rewrite nth_error_map, H. Qed.

Lemma clears_false m e p : x_clears m e p = false ->
  x_spawned m p = false /\ x_epoch e p = false /\ x_is_restart e = false /\ x_is_ctx_restart e = false /\
  match e with [1; c; _] => N.eqb c 0 | _ => false end = false /\ x_forgets m e p = false.
Proof.
  unfold x_clears. intros H. repeat (apply orb_false_iff in H; destruct H as [H ?]). auto 10.
Qed.

(* ---- GetState ---- *)
Lemma ev_getstate m h : R m h -> AllInv (hs h) -> AllInv (settle (hs h)) -> step_ok m h [7] (hs h) (hch h) [sval (hs h)] (hexit h).
Proof.
  intros HR HA HA'. apply light_step_ok; try assumption; try reflexivity.
  - left. split; reflexivity.
  - apply (R_clock _ _ HR).
  - apply (R_wcanc _ _ HR).
  - auto.
Qed.

(* ---- the clock advances ---- *)
Lemma ev_advance m h d : R m h -> AllInv (hs h) -> AllInv (settle (advance (hs h) d)) ->
  step_ok m h [11; d] (advance (hs h) d) (hch h) [] (hexit h).
Proof.
  intros HR HA HA'. apply light_step_ok; try assumption; try reflexivity.
  - left. split; reflexivity.
  - cbn [x_clock]. unfold x_clock. rewrite (R_clock _ _ HR). reflexivity.
  - apply (R_wcanc _ _ HR).
  - intros d0 (Hk & r & t & x & A & B & C & D & E). split; [exact Hk|]. exists r, t, (fire (clock (hs h) + d) x).
    split; [exact A|]. split; [exact B|]. split; [unfold advance; cbn [timers set_timers set_clock]; now rewrite nth_error_map, C|].
    unfold fire. destruct E as [E|E]; rewrite E; [destruct (N.leb _ _); cbn; auto | cbn; auto].
Qed.

(* ---- a new WaitExited caller ---- *)
Lemma ev_waitexited m h rinr : R m h -> AllInv (hs h) -> AllInv (settle (step repaired (hs h) (EWaitExited (nz rinr)))) ->
  step_ok m h [13; rinr] (step repaired (hs h) (EWaitExited (nz rinr))) (hch h) [] (hexit h).
Proof.
  intros HR HA HA'. apply light_step_ok; try assumption; try reflexivity.
  - left. split; reflexivity.
  - apply (R_clock _ _ HR).
  - unfold x_wcanc. cbn [step waiters set_waiters]. rewrite map_app, (R_wcanc _ _ HR). reflexivity.
  - auto.
Qed.

(* ---- a WaitExited caller's context is cancelled ---- *)
Lemma ev_wcancel m h a w : R m h -> AllInv (hs h) -> AllInv (settle (wait_cancel (hs h) (n2n a))) ->
  nth_error (waiters (hs h)) (n2n a) = Some w -> (forall o, wpcv w <> WRet o) -> wcanc w = false ->
  step_ok m h [15; a] (wait_cancel (hs h) (n2n a)) (hch h) [] (hexit h).
Proof.
  intros HR HA HA' Hw Hn Hc.
  assert (E : exists w', wait_cancel (hs h) (n2n a) = setw (hs h) (n2n a) w' /\ wcanc w' = true).
  { unfold wait_cancel. rewrite Hw. destruct (wpcv w) eqn:Ep; [eexists; split; [reflexivity|reflexivity] | eexists; split; [reflexivity|reflexivity] |].
    exfalso. exact (Hn o eq_refl). }
  destruct E as (w' & E & Ec). rewrite E in *.
  apply light_step_ok; try assumption; try reflexivity.
  - left. split; reflexivity.
  - apply (R_clock _ _ HR).
  - unfold x_wcanc, setw. cbn [waiters set_waiters]. rewrite map_set_nth, Ec, (R_wcanc _ _ HR). reflexivity.
  - auto.
Qed.

(* ---- the error channel of a blocked WaitExited caller fires ---- *)
Lemma ev_werr m h a code w c : R m h -> AllInv (hs h) -> AllInv (settle (wait_errch (hs h) (n2n a) (n2n code))) ->
  nth_error (waiters (hs h)) (n2n a) = Some w -> wpcv w = WBlocked c ->
  step_ok m h [16; a; code] (wait_errch (hs h) (n2n a) (n2n code)) (hch h) [] (hexit h).
Proof.
  intros HR HA HA' Hw Hp.
  assert (E : exists w', wait_errch (hs h) (n2n a) (n2n code) = setw (hs h) (n2n a) w' /\ wcanc w' = wcanc w).
  { unfold wait_errch. rewrite Hw, Hp. eexists; split; reflexivity. }
  destruct E as (w' & E & Ec). rewrite E in *.
  apply light_step_ok; try assumption; try reflexivity.
  - left. split; reflexivity.
  - apply (R_clock _ _ HR).
  - unfold x_wcanc, setw. cbn [waiters set_waiters]. rewrite (map_set_nth_keep wcanc _ _ w w' Hw Ec). apply (R_wcanc _ _ HR).
  - auto.
Qed.

(* ---- a WaitExited caller runs its section ---- *)
Definition wres (s : st) (w : waiter) : option outcome :=
  match routine s with
  | Some r => if negb (Nat.eqb (kctx s) 0)
              then (let y := getr s r in if rexited y || rsucc y then Some (rerr y) else None)
              else (if wrinr w then Some ONil else None)
  | None => if wrinr w then Some ONil else None
  end.

Lemma wait_sect_at_exact s a w :
  exists w1, wait_sect_at s a w = setw (set_b s (fst (getch (b s)))) a w1 /\ wcanc w1 = wcanc w /\
             wpcv w1 = match wres s w with
                       | Some o => WRet o
                       | None => if wcanc w then WRet OCanc else WBlocked (snd (getch (b s)))
                       end.
Proof.
  unfold wait_sect_at. fold (wres s w). destruct (getch (b s)) as [b' c]. cbn [fst snd].
  destruct (wres s w) as [o|]; [eexists; split; [reflexivity|split; reflexivity]|].
  destruct (wcanc w) eqn:Ec; eexists; (split; [reflexivity|split; [|reflexivity]]); cbn [wcanc]; congruence.
Qed.

Lemma norm_frame s :
  insts (norm s) = insts s /\ recs (norm s) = recs s /\ routine (norm s) = routine s /\ dead (norm s) = dead s /\ bo (norm s) = bo s /\
  cblog (norm s) = cblog s /\ ncb (norm s) = ncb s /\ sv (norm s) = sv s /\ sfn (norm s) = sfn s /\ sval (norm s) = sval s /\
  clock (norm s) = clock s /\ waiters (norm s) = waiters s /\ timers (norm s) = timers s /\
  kctx (norm s) = (if root_dead s (kctx s) then 0%nat else kctx s).
Proof. unfold norm. destruct (root_dead s (kctx s)); repeat split; reflexivity. Qed.

Lemma ev_wsect m h a w : R m h -> AllInv (hs h) -> AllInv (settle (wait_section (hs h) (n2n a))) ->
  nth_error (waiters (hs h)) (n2n a) = Some w -> wpcv w = WGate ->
  step_ok m h [14; a] (wait_section (hs h) (n2n a)) (hch h) [] (hexit h).
Proof.
  intros HR HA HA' Hw Hp.
  assert (E0 : wait_section (hs h) (n2n a) = wait_sect_at (norm (hs h)) (n2n a) w) by (unfold wait_section; now rewrite Hw, Hp).
  destruct (norm_frame (hs h)) as (N1 & N2 & N3 & N4 & N5 & N6 & N7 & N8 & N9 & N10 & N11 & N12 & N13 & N14).
  destruct (wait_sect_at_exact (norm (hs h)) (n2n a) w) as (w1 & E & Ec & Ep). rewrite E0, E in *.
  set (S0 := norm (hs h)) in *.
  assert (Hfor : x_forgets m [14; a] (pobs_of [] (hmid h (setw (set_b S0 (fst (getch (b S0)))) (n2n a) w1) (hch h) (hexit h))) = root_dead (hs h) (kctx (hs h))).
  { unfold x_forgets. rewrite orb_true_r. cbn [andb]. apply (dead_rel _ _ HR). }
  assert (Hc0 : x_ctx0 m [14; a] (pobs_of [] (hmid h (setw (set_b S0 (fst (getch (b S0)))) (n2n a) w1) (hch h) (hexit h))) = N.of_nat (kctx S0)).
  { unfold x_ctx0. rewrite Hfor, N14, (R_ctx _ _ HR). destruct (root_dead (hs h) (kctx (hs h))); reflexivity. }
  apply light_step_ok_gen; try assumption; try reflexivity.
  - intros j a0 b0 Hin. exact Hin.
  - intros Hn. unfold x_f14e. rewrite Hn. reflexivity.
  - left. split; reflexivity.
  - change (x_clock m [14; a] = clock S0). rewrite N11. apply (R_clock _ _ HR).
  - unfold x_wcanc, setw. cbn [waiters set_waiters set_b]. fold S0. rewrite N12, (map_set_nth_keep wcanc _ _ w w1 Hw Ec). apply (R_wcanc _ _ HR).
  - intros d Hd Hcl. destruct (clears_false _ _ _ Hcl) as (_ & _ & _ & _ & _ & Hf). rewrite Hfor in Hf.
    assert (ES : S0 = hs h) by (unfold S0, norm; now rewrite Hf).
    apply (pending_ok_same (hs h)); try (rewrite ES; reflexivity). apply (R_pending _ _ HR d Hd).
  - (* clause 14/4 *)
    intros _. unfold x_f14w.
    set (s1 := setw (set_b S0 (fst (getch (b S0)))) (n2n a) w1) in *.
    change (po_waits (pobs_of [] (hmid h s1 (hch h) (hexit h)))) with (map wcode (waiters (settle s1))).
    pose proof (quiet_settle s1) as Q.
    assert (Hal : (n2n a < length (waiters (hs h)))%nat) by (eapply nth_error_nth_len; eauto).
    assert (H1 : nth_error (waiters s1) (n2n a) = Some w1).
    { unfold s1, setw. cbn [waiters set_waiters set_b]. rewrite N12. now apply nth_error_set_nth_same. }
    rewrite nth_error_map.
    destruct (nth_error (waiters (settle s1)) (n2n a)) as [w'|] eqn:E'.
    2:{ exfalso. apply nth_error_None in E'. rewrite (q_wlen _ _ Q) in E'. apply nth_error_nth_len in H1. lia. }
    cbn [option_map]. destruct (q_wait _ _ Q _ _ E') as (w0 & Hw0 & Hst & _). assert (w0 = w1) by congruence. subst w0.
    destruct (N.leb_spec 3 (wcode w')) as [Hge|Hlt]; [|reflexivity].
    assert (Hret : exists o, wpcv w' = WRet o /\ wpcv w1 = WRet o).
    { unfold wcode in Hge. destruct (wpcv w') as [|c|o] eqn:Ew'; [lia | lia |]. exists o. split; [reflexivity|].
      destruct Hst as [Hst | (c & _ & Hst)]; [congruence | discriminate]. }
    destruct Hret as (o & Ew' & Ew1). unfold wcode. rewrite Ew'.
    replace (3 + enc_out o - 3) with (enc_out o) by lia. cbv zeta.
    rewrite Hc0, (R_hasr _ _ HR), (R_curexit _ _ HR), (R_wcanc _ _ HR), nz_of_nat.
    assert (Hwc : nth (n2n a) (map wcanc (waiters (hs h))) false = wcanc w).
    { rewrite <- (nth_error_nth (map wcanc (waiters (hs h))) (n2n a) false (x := wcanc w)); [reflexivity|]. now rewrite nth_error_map, Hw. }
    rewrite Hwc. rewrite Ew1 in Ep. unfold wres, has_routine, curexit_of in *. rewrite N3 in Ep. unfold getr in *. rewrite N2 in Ep.
    destruct (routine (hs h)) as [r|].
    + destruct (Nat.eqb (kctx S0) 0); cbn [negb andb].
      * destruct (wrinr w); [inversion Ep; reflexivity|]. destruct (wcanc w); [inversion Ep; reflexivity | discriminate].
      * cbv zeta in Ep. destruct (rexited (nth r (recs (hs h)) rec0) || rsucc (nth r (recs (hs h)) rec0)).
        -- inversion Ep. now rewrite N.eqb_refl.
        -- destruct (wcanc w); [inversion Ep; reflexivity | discriminate].
    + rewrite andb_false_r. destruct (wrinr w); [inversion Ep; reflexivity|]. destruct (wcanc w); [inversion Ep; reflexivity | discriminate].
Qed.

(* ------------------------------------------------------------------ *)
(* one instance moves: it leaves its first gate, or its function returns *)
Section Inst.
  Variables (m : mst) (h : hst) (e : list N) (i : nat) (x x' : inst) (ex : list nat).
  Hypothesis HR : R m h.
  Hypothesis HA : AllInv (hs h).
  Local Notation s := (hs h).
  Local Notation s1 := (seti (hs h) i x').
  Hypothesis HA' : AllInv (settle s1).
  Local Notation p := (pobs_of [] (hmid h s1 (hch h) ex)).
  Hypothesis Hx : nth_error (insts s) i = Some x.
  Hypothesis Hrec : irec x' = irec x.
  Hypothesis X2 : forall j a b, In (j, a, b) (x_pend m e p) -> b = true -> a = true.
  Hypothesis X3 : x_ctx m e p = m_ctx m.
  Hypothesis XD : match e with [18; c] => c :: m_dead m | _ => m_dead m end = m_dead m.
  Hypothesis X4 : x_st m e p = m_st m.
  Hypothesis X5 : x_sfn m e = m_sfn m.
  Hypothesis X6 : x_hasr m e p = (if m_sv m then nz (m_sfn m) && nz (m_st m) else m_hasr m).
  Hypothesis X7 : x_epoch e p = false.
  Hypothesis X8 : x_clear_ctx m e = false.
  Hypothesis X9 : x_chans m e = m_chans m.
  Hypothesis X10 : x_nodelta p = true -> x_f14e m e p = [].
  Hypothesis X11 : x_clock m e = m_clock m.
  Hypothesis X12 : x_wcanc m e = m_wcanc m.
  Hypothesis X13 : x_api e = false.
  Hypothesis X14 : x_f14w m e p = [].
  Hypothesis OUT1 : out_ok (ipcv x') (nth i (x_out m e p) 1).
  Hypothesis OUT2 : forall k, k <> i -> nth k (x_out m e p) 1 = nth k (m_out m) 1.
  Hypothesis OUT3 : length (x_out m e p) = length (insts s).

  Lemma inst_step_ok_gen : step_ok m h e s1 (hch h) [] ex.
  Proof.
    assert (Hil : (i < length (insts s))%nat) by (eapply nth_error_nth_len; eauto).
    assert (Hnth : forall k y, nth_error (insts s1) k = Some y -> (k = i /\ y = x') \/ (k <> i /\ nth_error (insts s) k = Some y)).
    { intros k y Hk. rewrite insts_seti in Hk. destruct (Nat.eq_dec k i) as [->|Hne].
      - rewrite nth_error_set_nth_same in Hk by exact Hil. inversion Hk. now left.
      - rewrite nth_error_set_nth_other in Hk by exact Hne. now right. }
    assert (K : keepA s s1) by (apply keepA_ext; [rewrite insts_seti; apply length_set_nth | reflexivity | reflexivity]).
    apply nb_step_ok; try assumption; try reflexivity.
    - now rewrite X3, (R_ctx _ _ HR).
    - now rewrite X4, (R_st _ _ HR).
    - now rewrite X5, (R_sfn _ _ HR).
    - rewrite X11. apply (R_clock _ _ HR).
    - rewrite X6. apply (hasr_same _ _ HR HA).
    - left. split; [exact K | exact X7].
    - rewrite X8. discriminate.
    - rewrite XD. apply (R_dead _ _ HR).
    - intros k y Hy. rewrite insts_seti. destruct (Nat.eq_dec k i) as [->|Hne].
      + rewrite nth_error_set_nth_same by exact Hil. exists x'. split; [reflexivity|]. congruence.
      + rewrite nth_error_set_nth_other by exact Hne. eauto.
    - intros k y Hy. destruct (Hnth k y Hy) as [[-> ->] | [Hne Hy0]]; [exact OUT1|]. rewrite OUT2 by exact Hne. apply (R_out _ _ HR k y Hy0).
    - rewrite OUT3, insts_seti, length_set_nth. reflexivity.
    - left. split; [reflexivity | exact X9].
    - rewrite X12. apply (R_wcanc _ _ HR).
    - intros d Hd _. apply (R_pending _ _ HR d Hd).
    - intros _. split; [reflexivity|]. intros k y Hy. destruct (Hnth k y Hy) as [[-> ->] | [Hne Hy0]]; eauto.
    - intros _ _ _. rewrite insts_seti. apply length_set_nth.
    - intros _ _ _ _ _. rewrite insts_seti. apply length_set_nth.
    - intros _. exact X14.
  Qed.
End Inst.

Lemma inst_step_ok m h e i x x' :
  R m h -> AllInv (hs h) -> AllInv (settle (seti (hs h) i x')) -> nth_error (insts (hs h)) i = Some x -> irec x' = irec x ->
  let p := pobs_of [] (hmid h (seti (hs h) i x') (hch h) (hexit h)) in
  x_is_book e = false -> x_pend m e p = m_pend m -> x_ctx m e p = m_ctx m ->
  match e with [18; c] => c :: m_dead m | _ => m_dead m end = m_dead m -> x_st m e p = m_st m -> x_sfn m e = m_sfn m ->
  x_hasr m e p = (if m_sv m then nz (m_sfn m) && nz (m_st m) else m_hasr m) -> x_epoch e p = false -> x_clear_ctx m e = false ->
  x_chans m e = m_chans m -> x_f14e m e p = fails 14 5 (x_nodelta p) -> x_clock m e = m_clock m -> x_wcanc m e = m_wcanc m ->
  x_api e = false -> x_f14w m e p = [] ->
  out_ok (ipcv x') (nth i (x_out m e p) 1) -> (forall k, k <> i -> nth k (x_out m e p) 1 = nth k (m_out m) 1) ->
  length (x_out m e p) = length (insts (hs h)) ->
  step_ok m h e (seti (hs h) i x') (hch h) [] (hexit h).
Proof.
  intros HR HA HA' Hx Hrec p _ X2 X3 XD X4 X5 X6 X7 X8 X9 X10 X11 X12 X13 X14 O1 O2 O3.
  apply (inst_step_ok_gen m h e i x x' (hexit h)); try assumption.
  - intros j a b Hin. fold p in Hin. rewrite X2 in Hin. apply (R_pend _ _ HR j a b Hin).
  - intros Hn. fold p. fold p in Hn. rewrite X10, Hn. reflexivity.
Qed.

Lemma proceed_shape s i en x : nth_error (insts s) i = Some x -> ipcv x = IGate0 ->
  exists x', proceed repaired s i en = seti s i x' /\ irec x' = irec x /\
             (ipcv x' = IUser \/ ipcv x' = IBook OCanc \/ ipcv x' = IWait \/ ipcv x' = IWaitC).
Proof.
  intros Hx Hp. unfold proceed. rewrite Hx, Hp.
  destruct (iwait x); [destruct (pred_closed s x && icanc x); [destruct en|destruct (pred_closed s x); [|destruct (icanc x); cbn [fx_wait repaired]]]|destruct (icanc x)];
    eexists; (split; [reflexivity|]); cbn; auto.
Qed.

Lemma x_n_seti m h i x x' (Hx : nth_error (insts (hs h)) i = Some x) (HR : R m h) :
  x_n (pobs_of [] (hmid h (seti (hs h) i x') (hch h) (hexit h))) = length (m_out m).
Proof. rewrite x_n_obs, (q_ilen _ _ (quiet_settle _)), insts_seti, length_set_nth. symmetry. apply (R_outl _ _ HR). Qed.

Lemma ev_proceed m h i en x : R m h -> AllInv (hs h) -> AllInv (settle (proceed repaired (hs h) (n2n i) (nz en))) ->
  nth_error (insts (hs h)) (n2n i) = Some x -> ipcv x = IGate0 ->
  step_ok m h [8; i; en] (proceed repaired (hs h) (n2n i) (nz en)) (hch h) [] (hexit h).
Proof.
  intros HR HA HA' Hx Hp. destruct (proceed_shape (hs h) (n2n i) (nz en) x Hx Hp) as (x' & E & Er & Hpc). rewrite E in *.
  assert (Hn := x_n_seti m h (n2n i) x x' Hx HR).
  apply (inst_step_ok m h [8; i; en] (n2n i) x x'); try assumption; try reflexivity.
  - unfold x_out, x_out'. rewrite nth_pad. pose proof (R_out _ _ HR _ _ Hx) as Ho. rewrite Hp in Ho. cbn in Ho. rewrite Ho.
    destruct Hpc as [-> | [-> | [-> | ->]]]; cbn; auto.
  - intros k _. unfold x_out, x_out'. apply nth_pad.
  - unfold x_out, x_out'. rewrite Hn, Nat.sub_diag. cbn [repeat]. rewrite app_nil_r. apply (R_outl _ _ HR).
Qed.

Lemma ev_return m h i o x : R m h -> AllInv (hs h) -> AllInv (settle (fn_return (hs h) (n2n i) (dec_out o))) ->
  nth_error (insts (hs h)) (n2n i) = Some x -> ipcv x = IUser ->
  step_ok m h [9; i; o] (fn_return (hs h) (n2n i) (dec_out o)) (hch h) [] (hexit h).
Proof.
  intros HR HA HA' Hx Hp.
  assert (E : fn_return (hs h) (n2n i) (dec_out o) = seti (hs h) (n2n i) (with_over x (dec_out o))) by (unfold fn_return; now rewrite Hx, Hp).
  rewrite E in *. assert (Hn := x_n_seti m h (n2n i) x (with_over x (dec_out o)) Hx HR).
  assert (Hil : (n2n i < length (m_out m))%nat) by (rewrite (R_outl _ _ HR); eapply nth_error_nth_len; eauto).
  assert (Eo : x_out' m (pobs_of [] (hmid h (seti (hs h) (n2n i) (with_over x (dec_out o))) (hch h) (hexit h))) = m_out m).
  { unfold x_out'. rewrite Hn, Nat.sub_diag. cbn [repeat]. apply app_nil_r. }
  apply (inst_step_ok m h [9; i; o] (n2n i) x (with_over x (dec_out o))); try assumption; try reflexivity.
  - unfold x_out. rewrite Eo, nth_set_nth_same by exact Hil. cbn. symmetry. apply enc_dec_out.
  - intros k Hk. unfold x_out. rewrite Eo. now apply nth_set_nth_other.
  - unfold x_out. rewrite Eo, length_set_nth. apply (R_outl _ _ HR).
Qed.

(* ------------------------------------------------------------------ *)
(* API calls and timer callbacks that keep the routine: SetContext, RestartRoutine, a retry callback *)
Section Api.
  Variables (m : mst) (h : hst) (e : list N) (s1 : st) (rets : list N).
  Hypothesis HR : R m h.
  Hypothesis HA : AllInv (hs h).
  Hypothesis HA' : AllInv (settle s1).
  Local Notation s := (hs h).
  Local Notation p := (pobs_of rets (hmid h s1 (hch h) (hexit h))).
  Hypothesis FR : fr s s1.
  Hypothesis CLS : keepA s s1 \/ spawnB (length (insts s)) s1.
  Hypothesis Ero : routine s1 = routine s.
  Hypothesis X1 : x_is_book e = false.
  Hypothesis X2 : x_pend m e p = m_pend m.
  Hypothesis X4 : x_st m e p = m_st m.
  Hypothesis X5 : x_sfn m e = m_sfn m.
  Hypothesis X6 : x_hasr m e p = (if m_sv m then nz (m_sfn m) && nz (m_st m) else m_hasr m).
  Hypothesis X7 : x_epoch e p = false.
  Hypothesis X9 : x_chans m e = m_chans m.
  Hypothesis X10 : x_f14e m e p = fails 14 5 (x_nodelta p).
  Hypothesis X11 : x_clock m e = m_clock m.
  Hypothesis X12 : x_wcanc m e = m_wcanc m.
  Hypothesis X13 : x_api e = true.
  Hypothesis X14 : x_f14w m e p = [].
  Hypothesis X15 : x_out m e p = x_out' m p.
  Hypothesis XD : match e with [18; c] => c :: m_dead m | _ => m_dead m end = m_dead m.
  Hypothesis C_ctx : x_ctx m e p = N.of_nat (kctx s1).
  Hypothesis CLR : x_clear_ctx m e = true -> forall r, routine s1 = Some r -> rctx (getr s1 r) = None.
  Hypothesis PEND : forall d, m_pending m = Some d -> x_clears m e p = false -> pending_ok s1 d.
  Hypothesis NS1 : rsucc_cur s = true -> x_is_restart e = false -> length (insts s1) = length (insts s).
  Hypothesis NS2 : rerr_cur s = true -> x_is_restart e = false -> x_is_ctx_restart e = false -> x_is_timer e = false ->
                   length (insts s1) = length (insts s).

  Lemma api_step_ok : step_ok m h e s1 (hch h) rets (hexit h).
  Proof.
    destruct FR as ((A1 & A2 & A3 & A4 & A5 & A6 & A7 & A8 & A9 & A10) & _ & IK & IL).
    assert (Hlen : length (insts s1) = length (insts s) \/ spawnB (length (insts s)) s1) by (destruct CLS as [(L & _) | B]; auto).
    apply nb_step_ok; try assumption; try reflexivity.
    - rewrite X2. apply (R_pend _ _ HR).
    - now rewrite X4, A9, (R_st _ _ HR).
    - now rewrite X5, A8, (R_sfn _ _ HR).
    - rewrite X11, A5. apply (R_clock _ _ HR).
    - rewrite X6, (hasr_same _ _ HR HA). unfold has_routine. now rewrite Ero.
    - destruct CLS as [K | B]; [left; split; [exact K | exact X7] | right; left; exact B].
    - rewrite XD, A10. apply (R_dead _ _ HR).
    - now apply inst_keep_rec.
    - intros i x1 Hx1. rewrite X15. unfold x_out'. apply (out_api m h s1 _ HR); [now apply inst_keep_pc | now apply new_is_gate | exact Hx1].
    - rewrite X15. unfold x_out'. rewrite x_n_obs, (q_ilen _ _ (quiet_settle s1)). apply out_pad_length. rewrite (R_outl _ _ HR). exact IL.
    - left. split; [reflexivity | exact X9].
    - rewrite X12, A7. apply (R_wcanc _ _ HR).
    - rewrite X13. discriminate.
    - intros Hnd. rewrite X10, Hnd. reflexivity.
    - intros H1 H2 _. now apply NS1.
    - intros H1 H2 H3 H4 _. now apply NS2.
    - intros _. exact X14.
  Qed.
End Api.

Lemma x_spawned_eq m h s1 ch rets ex : R m h ->
  x_spawned m (pobs_of rets (hmid h s1 ch ex)) = Nat.ltb (length (insts (hs h))) (length (insts s1)).
Proof. intros HR. unfold x_spawned. rewrite x_n_obs, (R_ninst _ _ HR), (q_ilen _ _ (quiet_settle s1)). reflexivity. Qed.

Lemma In_insert_t ts t l u : In u (insert_t ts t l) -> u = t \/ In u l.
Proof.
  induction l as [|v l IH]; cbn [insert_t]; [intros [<-|[]]; auto|].
  destruct (N.ltb _ _); cbn [In]; [intros [<-|H]; auto|]. intros [<-|H]; [auto|]. destruct (IH H); auto.
Qed.

Lemma fired_sorted_fired ts k t : nth_error (fired_sorted ts) k = Some t -> is_fired (nth t ts timer0) = true /\ (t < length ts)%nat.
Proof.
  intros H. apply nth_error_In in H. unfold fired_sorted in H.
  assert (G : forall l acc, (forall u, In u acc -> is_fired (nth u ts timer0) = true /\ (u < length ts)%nat) ->
              (forall u, In u l -> (u < length ts)%nat) ->
              forall u, In u (fold_left (fun acc t => if is_fired (nth t ts timer0) then insert_t ts t acc else acc) l acc) ->
              is_fired (nth u ts timer0) = true /\ (u < length ts)%nat).
  { induction l as [|v l IH]; intros acc Ha Hl u Hu; [now apply Ha|]. cbn [fold_left] in Hu. apply (IH _) in Hu; [exact Hu | | intros w Hw; apply Hl; now right].
    intros w Hw. destruct (is_fired (nth v ts timer0)) eqn:Ef; [|now apply Ha].
    apply In_insert_t in Hw. destruct Hw as [->|Hw]; [split; [exact Ef | apply Hl; now left] | now apply Ha]. }
  apply (G (seq 0 (length ts)) [] ); [intros u [] | intros u Hu; apply in_seq in Hu; lia | exact H].
Qed.

(* a retry callback that starts nothing only marks its timer as run *)
Lemma timer_cb_nospawn s t : InvW s -> length (insts (timer_cb repaired s t)) = length (insts s) ->
  recs (timer_cb repaired s t) = recs s /\
  (forall u, u <> t -> nth_error (timers (timer_cb repaired s t)) u = nth_error (timers s) u).
Proof.
  intros HW HL. unfold timer_cb in *. destruct (nth_error (timers s) t) as [x|] eqn:Ex; [|auto]. destruct (tst x); auto.
  set (s1 := set_timers s _) in *.
  assert (G : recs s1 = recs s /\ forall u, u <> t -> nth_error (timers s1) u = nth_error (timers s) u).
  { split; [reflexivity|]. intros u Hu. unfold s1. cbn [timers set_timers]. now apply nth_error_set_nth_other. }
  destruct (_ && _ && _ && _) eqn:Ec; [|exact G].
  destruct (start_rec_cases' repaired s1 (trec x) (kctx s1) (rexit (getr s1 (trec x))) true) as [E | (_ & w' & E)]; rewrite E in *; [exact G|].
  exfalso. cbn [insts do_bcast set_b] in HL. rewrite insts_spawn, app_length, length_insts_stop_rec in HL. cbn in HL. change (insts s1) with (insts s) in HL. lia.
Qed.

(* ---- SetContext ---- *)
Lemma ev_setctx m h c r s1 chg : R m h -> AllInv (hs h) -> AllInv (settle s1) ->
  set_context repaired (hs h) (n2n c) (nz r) = (s1, chg) -> step_ok m h [1; c; r] s1 (hch h) [nb chg] (hexit h).
Proof.
  intros HR HA HA' E. assert (E1 : s1 = fst (set_context repaired (hs h) (n2n c) (nz r))) by (now rewrite E). subst s1. clear E.
  pose proof HA as ((HI & _ & _ & HW) & _ & HS & (_ & _ & T2' & _)).
  apply api_step_ok; try assumption; try reflexivity.
  - apply fr_set_context.
  - destruct (set_context_cls (hs h) (n2n c) (nz r) HW) as [K | [_ B]]; auto.
  - apply routine_set_context.
  - unfold x_ctx. now rewrite kctx_set_context, of_nat_n2n.
  - unfold x_clear_ctx. intros Hc r0 Hr0. apply andb_true_iff in Hc as [Hc Hk]. apply N.eqb_eq in Hc. subst c.
    rewrite routine_set_context in Hr0. rewrite (R_ctx _ _ HR), nz_of_nat in Hk. apply negb_true_iff, Nat.eqb_neq in Hk.
    apply set_context_clear; [exact Hk | exact Hr0|]. unfold InvW in HW. now rewrite Hr0 in HW.
  - intros d Hd Hcl. destruct (clears_false _ _ _ Hcl) as (_ & _ & _ & Hr & Hc & _). unfold x_is_ctx_restart in Hr.
    rewrite Hr. apply N.eqb_neq in Hc. assert (Hc' : n2n c <> 0%nat) by (intros Hz; apply n2n_zero in Hz; contradiction).
    destruct (R_pending _ _ HR d Hd) as (Hk & r0 & t & x & A & B & C & D).
    destruct (T2' r0 t B) as (_ & Hne & _).
    destruct (set_context_error_keeps_retry (hs h) (n2n c) r0 A Hne Hc') as (G1 & G2 & G3 & G4).
    split; [now rewrite G4|]. exists r0, t, x. unfold getr. rewrite G1, G2, G3. auto.
  - intros Hs _. unfold rsucc_cur in Hs. destruct (routine (hs h)) as [r0|] eqn:Er; [|discriminate].
    apply (set_context_success_no_spawn (hs h) (n2n c) (nz r) r0 HI Er); [|exact Hs]. unfold InvW in HW. now rewrite Er in HW.
  - intros He _ Hr _. unfold x_is_ctx_restart in Hr. rewrite Hr. unfold rerr_cur in He. destruct (routine (hs h)) as [r0|] eqn:Er; [|discriminate].
    apply negb_true_iff in He. exact (set_context_error_no_spawn (hs h) (n2n c) r0 HI Er He).
Qed.

(* ---- RestartRoutine ---- *)
Lemma ev_restart m h s1 r : R m h -> AllInv (hs h) -> AllInv (settle s1) ->
  restart_routine repaired (hs h) = (s1, r) -> step_ok m h [3] s1 (hch h) [nb r] (hexit h).
Proof.
  intros HR HA HA' E. assert (E1 : s1 = fst (restart_routine repaired (hs h))) by (now rewrite E). subst s1. clear E.
  pose proof HA as ((HI & _ & _ & HW) & _).
  apply api_step_ok; try assumption; try reflexivity.
  - apply fr_restart_routine.
  - destruct (restart_routine_cls (hs h) HW) as [K | [_ B]]; auto.
  - apply routine_restart_routine.
  - change (x_ctx m [3] ?P) with (if x_is_dead m then 0 else m_ctx m). rewrite kctx_restart_routine, (dead_rel _ _ HR).
    destruct (norm_frame (hs h)) as (_ & _ & _ & _ & _ & _ & _ & _ & _ & _ & _ & _ & _ & N14). rewrite N14, (R_ctx _ _ HR).
    destruct (root_dead (hs h) (kctx (hs h))); reflexivity.
  - discriminate.
  - intros d _ Hcl. destruct (clears_false _ _ _ Hcl) as (_ & _ & Hr & _). discriminate Hr.
  - intros _ Hr. discriminate Hr.
  - intros _ Hr. discriminate Hr.
Qed.

(* ---- a retry timer's callback ---- *)
Lemma ev_timer m h k t : R m h -> AllInv (hs h) -> AllInv (settle (timer_cb repaired (hs h) t)) ->
  nth_error (fired_sorted (timers (hs h))) (n2n k) = Some t ->
  step_ok m h [12; k] (timer_cb repaired (hs h) t) (hch h) [] (hexit h).
Proof.
  intros HR HA HA' Hk.
  pose proof HA as ((HI & _ & _ & HW) & _ & HS & (_ & T5' & T2' & _)).
  apply api_step_ok; try assumption; try reflexivity.
  - apply fr_timer_cb.
  - destruct (timer_cb_cls (hs h) t HW) as [K | [_ B]]; auto.
  - apply routine_timer_cb.
  - unfold x_ctx. rewrite kctx_timer_cb. apply (R_ctx _ _ HR).
  - discriminate.
  - intros d Hd Hcl. destruct (clears_false _ _ _ Hcl) as (Hsp & _). rewrite (x_spawned_eq _ _ _ _ _ _ HR) in Hsp.
    apply Nat.ltb_ge in Hsp.
    assert (HL : length (insts (timer_cb repaired (hs h) t)) = length (insts (hs h))).
    { destruct (fr_timer_cb (hs h) t) as (_ & _ & _ & L). lia. }
    destruct (R_pending _ _ HR d Hd) as (Hkc & r0 & t0 & x & A & B & C & D & F).
    destruct (T2' r0 t0 B) as (Hex & _ & x' & Hx' & Hrec). assert (x' = x) by congruence. subst x'.
    destruct (Nat.eq_dec t0 t) as [->|Hne].
    + exfalso. destruct (fired_sorted_fired _ _ _ Hk) as [Hf _]. rewrite (nth_error_nth _ _ timer0 C) in Hf.
      assert (Hfx : tst x = TFired) by (unfold is_fired in Hf; destruct (tst x); try discriminate; reflexivity).
      pose proof (timer_cb_restarts (hs h) t x r0 C Hfx Hrec A Hkc Hex B (T5' r0 A)) as G. unfold ninst in G. lia.
    + destruct (timer_cb_nospawn (hs h) t HW HL) as (G1 & G2).
      split; [now rewrite kctx_timer_cb|]. exists r0, t0, x. rewrite routine_timer_cb. unfold getr. rewrite G1, (G2 t0 Hne). auto.
  - intros Hs _. unfold rsucc_cur in Hs. destruct (routine (hs h)) as [r0|] eqn:Er; [|discriminate].
    exact (timer_cb_success_no_spawn (hs h) t r0 HS Er Hs).
  - intros _ _ _ Ht. discriminate Ht.
Qed.

(* ------------------------------------------------------------------ *)
(* a new epoch: SetRoutine, SetStateRoutine, SetState / SwapValue that change the state *)
Section Epoch.
  Variables (m : mst) (h : hst) (e : list N) (s0 s1 : st) (f : nat) (w : option nat) (rets : list N).
  Hypothesis HR : R m h.
  Hypothesis HA : AllInv (hs h).
  Hypothesis HA' : AllInv (settle s1).
  Local Notation s := (hs h).
  Local Notation p := (pobs_of rets (hmid h s1 (hch h ++ [w]) (hexit h))).
  (* s0 is s with the stored function / state replaced *)
  Hypothesis E0i : insts s0 = insts s.
  Hypothesis E0w : waiters s0 = waiters s.
  Hypothesis E0a : sv s0 = sv s /\ ncb s0 = ncb s /\ bo s0 = bo s /\ clock s0 = clock s /\ cblog s0 = cblog s /\ dead s0 = dead s.
  Hypothesis FR : fr s0 s1.
  Hypothesis CL : kctx s1 = kctx (norm s) /\ (routine s1 = None <-> f = 0%nat) /\
                  (spawnB (length (insts s)) s1 \/ freshC (length (insts s)) s1) /\
                  (forall j, w = Some j -> S j = length (insts s)).
  Hypothesis X1 : x_is_book e = false.
  Hypothesis X2 : x_pend m e p = m_pend m.
  Hypothesis X3 : x_ctx m e p = x_ctx0 m e p.
  Hypothesis XD : match e with [18; c] => c :: m_dead m | _ => m_dead m end = m_dead m.
  Hypothesis X7 : x_epoch e p = true.
  Hypothesis X8 : x_clear_ctx m e = false.
  Hypothesis X9 : x_chans m e = (m_chans m ++ [m_ninst m])%list.
  Hypothesis X10 : x_f14e m e p = fails 14 5 (x_nodelta p).
  Hypothesis X11 : x_clock m e = m_clock m.
  Hypothesis X12 : x_wcanc m e = m_wcanc m.
  Hypothesis X13 : x_api e = true.
  Hypothesis X14 : x_f14w m e p = [].
  Hypothesis X15 : x_out m e p = x_out' m p.
  Hypothesis C_st : x_st m e p = sval s1.
  Hypothesis C_sfn : x_sfn m e = N.of_nat (sfn s1).
  Hypothesis C_hasr : x_hasr m e p = has_routine s1.

  Lemma epoch_step_ok : step_ok m h e s1 (hch h ++ [w]) rets (hexit h).
  Proof.
    destruct FR as ((A1 & A2 & A3 & A4 & A5 & A6 & A7 & A8 & A9 & A10) & _ & IK & IL).
    destruct E0a as (B1 & B2 & B4 & B5 & B6 & B7). destruct CL as (K1 & K2 & K3 & K4).
    rewrite E0i in IK, IL.
    assert (Hlen : length (insts s1) = length (insts s) \/ spawnB (length (insts s)) s1) by (destruct K3 as [B | (L & _)]; auto).
    apply nb_step_ok; try assumption; try reflexivity.
    - rewrite X2. apply (R_pend _ _ HR).
    - congruence.
    - congruence.
    - congruence.
    - congruence.
    - rewrite X3, K1. unfold x_ctx0, x_forgets. rewrite X7. cbn [orb andb]. rewrite (dead_rel _ _ HR), (R_ctx _ _ HR).
      destruct (norm_frame s) as (_ & _ & _ & _ & _ & _ & _ & _ & _ & _ & _ & _ & _ & N14). rewrite N14.
      destruct (root_dead s (kctx s)); reflexivity.
    - rewrite X11, A5, B5. apply (R_clock _ _ HR).
    - destruct K3 as [B | C]; [right; left; exact B | right; right; split; [exact C | exact X7]].
    - rewrite X8. discriminate.
    - rewrite XD, A10, B7. apply (R_dead _ _ HR).
    - now apply inst_keep_rec.
    - intros i x1 Hx1. rewrite X15. unfold x_out'. apply (out_api m h s1 _ HR); [now apply inst_keep_pc | now apply new_is_gate | exact Hx1].
    - rewrite X15. unfold x_out'. rewrite x_n_obs, (q_ilen _ _ (quiet_settle s1)). apply out_pad_length. rewrite (R_outl _ _ HR). exact IL.
    - right. exists w. auto.
    - rewrite X12, A7, E0w. apply (R_wcanc _ _ HR).
    - intros d _ Hcl. destruct (clears_false _ _ _ Hcl) as (_ & He & _). congruence.
    - rewrite X13. discriminate.
    - intros Hnd. rewrite X10, Hnd. reflexivity.
    - intros _ _ He. congruence.
    - intros _ _ _ _ He. congruence.
    - intros _. exact X14.
  Qed.
End Epoch.

Lemma update_sr_cases s s1 w reset running : update_sr repaired s = (s1, (w, reset, running)) ->
  exists F, s1 = fst (set_routine_locked repaired s F (sval s)) /\ w = fst (snd (set_routine_locked repaired s F (sval s))).
Proof.
  unfold update_sr. intros H. exists (if negb (Nat.eqb (sfn s) 0) && negb (N.eqb (sval s) 0) then sfn s else 0%nat).
  destruct (set_routine_locked repaired s _ (sval s)) as [s1' [w' reset']] eqn:E.
  inversion H; subst. split; reflexivity.
Qed.

Lemma set_state_locked_cases s v s1 w changed reset running : set_state_locked repaired s v = (s1, (w, changed, reset, running)) ->
  (s1 = s /\ w = None /\ changed = false) \/
  (changed = true /\ exists F, s1 = do_bcast (fst (set_routine_locked repaired (set_sval s v) F v)) /\
                                w = fst (snd (set_routine_locked repaired (set_sval s v) F v))).
Proof.
  unfold set_state_locked. destruct (state_equal _ _ _); [intros H; inversion H; auto|].
  destruct (update_sr repaired (set_sval s v)) as [s1' [[w' reset'] running']] eqn:E. intros H. inversion H; subst.
  right. split; [reflexivity|]. destruct (update_sr_cases _ _ _ _ _ E) as (F & -> & ->). exists F. split; reflexivity.
Qed.

Lemma swap_value_cases s g s1 next w changed reset running : swap_value repaired s g = (s1, (next, w, changed, reset, running)) ->
  (s1 = s /\ w = None /\ changed = false) \/
  (changed = true /\ exists F, s1 = do_bcast (fst (set_routine_locked repaired (set_sval s next) F next)) /\
                                w = fst (snd (set_routine_locked repaired (set_sval s next) F next))).
Proof.
  unfold swap_value. destruct (negb _).
  - destruct (set_state_locked repaired s _) as [s1' [[[w' ch'] reset'] running']] eqn:E. intros H. inversion H; subst.
    destruct (set_state_locked_cases _ _ _ _ _ _ _ E) as [(-> & -> & ->) | (-> & F & -> & ->)]; [now left|].
    right. split; [reflexivity|]. exists F. split; reflexivity.
  - intros H. inversion H; subst. now left.
Qed.

(* what setRoutineLocked on a state with the same instances gives *)
Lemma epoch_facts s s0 F arg : Inv s -> insts s0 = insts s -> lastexit s0 = lastexit s -> routine s0 = routine s -> recs s0 = recs s ->
  kctx s0 = kctx s -> dead s0 = dead s ->
  let X := fst (set_routine_locked repaired s0 F arg) in
  fr s0 X /\ kctx X = kctx (norm s) /\ (routine X = None <-> F = 0%nat) /\
  (spawnB (length (insts s)) X \/ freshC (length (insts s)) X) /\
  (forall j, fst (snd (set_routine_locked repaired s0 F arg)) = Some j -> S j = length (insts s)).
Proof.
  intros HI A1 A2 A3 A4 A5 A6. assert (HI0 : Inv s0) by (now apply (Inv_ext s)).
  destruct (set_routine_locked_cls s0 F arg HI0) as (K1 & K2 & K3 & K4). rewrite A1 in K3, K4.
  split; [apply fr_set_routine_locked|]. split; [rewrite K1; unfold norm, root_dead; rewrite A5, A6; destruct (existsb _ _); [reflexivity | exact A5]|].
  split; [exact K2|]. split; [|exact K4].
  destruct K3 as [[_ B] | C]; auto.
Qed.

(* ---- SetRoutine ---- *)
Lemma ev_setroutine m h f s1 w reset : R m h -> AllInv (hs h) -> AllInv (settle s1) -> sv (hs h) = false ->
  set_routine_locked repaired (hs h) (n2n f) f = (s1, (w, reset)) ->
  step_ok m h [2; f] s1 (hch h ++ [w]) [wr_code w; nb reset] (hexit h).
Proof.
  intros HR HA HA' Hsv E.
  assert (E1 : s1 = fst (set_routine_locked repaired (hs h) (n2n f) f)) by (now rewrite E).
  assert (E2 : w = fst (snd (set_routine_locked repaired (hs h) (n2n f) f))) by (now rewrite E). clear E.
  pose proof HA as (HI & _).
  destruct (epoch_facts (hs h) (hs h) (n2n f) f HI eq_refl eq_refl eq_refl eq_refl eq_refl eq_refl) as (F1 & F2 & F3 & F4 & F5).
  rewrite <- E1 in F1, F2, F3, F4. rewrite <- E2 in F5.
  pose proof F1 as ((A1 & A2 & A3 & A4 & A5 & A6 & A7 & A8 & A9 & A10) & _).
  apply (epoch_step_ok m h [2; f] (hs h) s1 (n2n f) w); try assumption; try reflexivity; auto; try (repeat split; reflexivity).
  - unfold x_st. now rewrite A9, (R_st _ _ HR).
  - unfold x_sfn. now rewrite A8, (R_sfn _ _ HR).
  - unfold x_hasr. rewrite (R_sv _ _ HR), Hsv. unfold has_routine, nz.
    destruct (routine s1) as [r|] eqn:Er.
    + destruct (N.eqb_spec f 0) as [Ef|Ef]; [|reflexivity]. subst f. destruct F3 as [_ F3]. discriminate (F3 eq_refl).
    + destruct F3 as [F3 _]. specialize (F3 eq_refl). apply n2n_zero in F3. subst f. reflexivity.
Qed.

(* ---- SetStateRoutine ---- *)
Lemma ev_setsr m h f s1 w reset running : R m h -> AllInv (hs h) -> AllInv (settle s1) -> sv (hs h) = true ->
  update_sr repaired (set_sfn (hs h) (n2n f)) = (s1, (w, reset, running)) ->
  step_ok m h [6; f] s1 (hch h ++ [w]) [wr_code w; nb reset; nb running] (hexit h).
Proof.
  intros HR HA HA' Hsv E. destruct (update_sr_cases _ _ _ _ _ E) as (F & E1 & E2). clear E.
  pose proof HA as (HI & _).
  destruct (epoch_facts (hs h) (set_sfn (hs h) (n2n f)) F (sval (set_sfn (hs h) (n2n f))) HI eq_refl eq_refl eq_refl eq_refl eq_refl eq_refl) as (F1 & F2 & F3 & F4 & F5).
  rewrite <- E1 in F1, F2, F3, F4. rewrite <- E2 in F5.
  pose proof F1 as ((A1 & A2 & A3 & A4 & A5 & A6 & A7 & A8 & A9 & A10) & _).
  assert (C1 : x_st m [6; f] (pobs_of [wr_code w; nb reset; nb running] (hmid h s1 (hch h ++ [w]) (hexit h))) = sval s1).
  { unfold x_st. rewrite A9. apply (R_st _ _ HR). }
  assert (C2 : x_sfn m [6; f] = N.of_nat (sfn s1)) by (unfold x_sfn; rewrite A8; cbn [sfn set_sfn]; now rewrite of_nat_n2n).
  apply (epoch_step_ok m h [6; f] (set_sfn (hs h) (n2n f)) s1 F w); try assumption; try reflexivity; auto; try (repeat split; reflexivity).
  unfold x_hasr. rewrite (R_sv _ _ HR), Hsv, C1, C2. apply hasr_sv_new; [exact HA'|]. now rewrite A1.
Qed.

(* ---- SetState / SwapValue ---- *)
Lemma state_changed_ok m h e v F rets :
  R m h -> AllInv (hs h) -> sv (hs h) = true ->
  let s1 := do_bcast (fst (set_routine_locked repaired (set_sval (hs h) v) F v)) in
  let w := fst (snd (set_routine_locked repaired (set_sval (hs h) v) F v)) in
  AllInv (settle s1) ->
  x_is_book e = false -> x_pend m e (pobs_of rets (hmid h s1 (hch h ++ [w]) (hexit h))) = m_pend m ->
  x_ctx m e (pobs_of rets (hmid h s1 (hch h ++ [w]) (hexit h))) = x_ctx0 m e (pobs_of rets (hmid h s1 (hch h ++ [w]) (hexit h))) ->
  match e with [18; c] => c :: m_dead m | _ => m_dead m end = m_dead m ->
  x_epoch e (pobs_of rets (hmid h s1 (hch h ++ [w]) (hexit h))) = true -> x_clear_ctx m e = false ->
  x_chans m e = (m_chans m ++ [m_ninst m])%list ->
  x_f14e m e (pobs_of rets (hmid h s1 (hch h ++ [w]) (hexit h))) = fails 14 5 (x_nodelta (pobs_of rets (hmid h s1 (hch h ++ [w]) (hexit h)))) ->
  x_clock m e = m_clock m -> x_wcanc m e = m_wcanc m -> x_api e = true ->
  x_f14w m e (pobs_of rets (hmid h s1 (hch h ++ [w]) (hexit h))) = [] ->
  x_out m e (pobs_of rets (hmid h s1 (hch h ++ [w]) (hexit h))) = x_out' m (pobs_of rets (hmid h s1 (hch h ++ [w]) (hexit h))) ->
  x_st m e (pobs_of rets (hmid h s1 (hch h ++ [w]) (hexit h))) = v -> x_sfn m e = m_sfn m ->
  x_hasr m e (pobs_of rets (hmid h s1 (hch h ++ [w]) (hexit h))) =
    (if m_sv m then nz (x_sfn m e) && nz (x_st m e (pobs_of rets (hmid h s1 (hch h ++ [w]) (hexit h)))) else m_hasr m) ->
  step_ok m h e s1 (hch h ++ [w]) rets (hexit h).
Proof.
  intros HR HA Hsv s1 w HA' X1 X2 X3 XD X7 X8 X9 X10 X11 X12 X13 X14 X15 Xst Xsfn Xhasr.
  pose proof HA as (HI & _).
  destruct (epoch_facts (hs h) (set_sval (hs h) v) F v HI eq_refl eq_refl eq_refl eq_refl eq_refl eq_refl) as (F1 & F2 & F3 & F4 & F5).
  assert (F1' : fr (set_sval (hs h) v) s1) by (eapply fr_trans; [exact F1 | apply fr_do_bcast]).
  pose proof F1' as ((A1 & A2 & A3 & A4 & A5 & A6 & A7 & A8 & A9 & A10) & _).
  assert (C1 : x_st m e (pobs_of rets (hmid h s1 (hch h ++ [w]) (hexit h))) = sval s1) by (rewrite Xst, A9; reflexivity).
  assert (C2 : x_sfn m e = N.of_nat (sfn s1)) by (rewrite Xsfn, A8; apply (R_sfn _ _ HR)).
  apply (epoch_step_ok m h e (set_sval (hs h) v) s1 F w); try assumption; try reflexivity; auto; try (repeat split; reflexivity).
  rewrite Xhasr, (R_sv _ _ HR), Hsv, C1, C2. apply hasr_sv_new; [exact HA'|]. now rewrite A1.
Qed.

Lemma ev_setstate m h v s1 w changed reset running : R m h -> AllInv (hs h) -> AllInv (settle s1) -> sv (hs h) = true ->
  set_state_locked repaired (hs h) v = (s1, (w, changed, reset, running)) ->
  step_ok m h [4; v] s1 (hch h ++ [w]) [wr_code w; nb changed; nb reset; nb running] (hexit h).
Proof.
  intros HR HA HA' Hsv E. destruct (set_state_locked_cases _ _ _ _ _ _ _ E) as [(-> & -> & ->) | (-> & F & -> & ->)].
  - apply light_step_ok; try assumption; try reflexivity.
    + right. split; reflexivity.
    + apply (R_clock _ _ HR).
    + apply (R_wcanc _ _ HR).
    + auto.
  - apply (state_changed_ok m h [4; v] v F); try assumption; try reflexivity.
Qed.

Lemma ev_swap m h g s1 next w changed reset running : R m h -> AllInv (hs h) -> AllInv (settle s1) -> sv (hs h) = true ->
  swap_value repaired (hs h) (n2n g) = (s1, (next, w, changed, reset, running)) ->
  step_ok m h [5; g] s1 (hch h ++ [w]) [next; wr_code w; nb changed; nb reset; nb running] (hexit h).
Proof.
  intros HR HA HA' Hsv E. destruct (swap_value_cases _ _ _ _ _ _ _ _ E) as [(-> & -> & ->) | (-> & F & -> & ->)].
  - apply light_step_ok; try assumption; try reflexivity.
    + right. split; reflexivity.
    + apply (R_clock _ _ HR).
    + apply (R_wcanc _ _ HR).
    + auto.
  - apply (state_changed_ok m h [5; g] next F); try assumption; try reflexivity.
Qed.

(* ---- an instance parked after its bookkeeping section leaves the exit gate (the model ran the section before) ---- *)
Lemma ev_leave m h i : R m h -> AllInv (hs h) -> AllInv (settle (hs h)) ->
  step_ok m h [17; i] (hs h) (hch h) [] (filter (fun k => negb (Nat.eqb k (n2n i))) (hexit h)).
Proof.
  intros HR HA HA'. apply light_step_ok_gen; try assumption; try reflexivity.
  - intros j a b Hin. unfold x_pend in Hin. apply filter_In in Hin. apply Hin.
  - apply (R_ctx _ _ HR).
  - intros Hn. unfold x_f14e. rewrite Hn. cbn [orb andb negb].
    destruct (x_pend_entry m [17; i]) as [[[j reported] must]|] eqn:Ef; [|reflexivity].
    unfold x_pend_entry in Ef. apply find_some in Ef. destruct Ef as [Hin _].
    destruct must; [|reflexivity]. rewrite (R_pend _ _ HR j reported true Hin eq_refl). reflexivity.
  - left. split; reflexivity.
  - apply (R_clock _ _ HR).
  - apply (R_wcanc _ _ HR).
  - intros d Hd _. apply (R_pending _ _ HR d Hd).
Qed.

(* ---- the owner of a root context cancels it ---- *)
Lemma ev_cancelroot m h c : R m h -> AllInv (hs h) -> AllInv (settle (cancel_root (hs h) (n2n c))) ->
  step_ok m h [18; c] (cancel_root (hs h) (n2n c)) (hch h) [] (hexit h).
Proof.
  intros HR HA HA'.
  assert (L : length (insts (cancel_root (hs h) (n2n c))) = length (insts (hs h))) by (unfold cancel_root; cbn [insts set_insts]; apply map_length).
  assert (K : keepA (hs h) (cancel_root (hs h) (n2n c))) by (apply keepA_ext; [exact L | reflexivity | reflexivity]).
  assert (Hn : x_n (pobs_of [] (hmid h (cancel_root (hs h) (n2n c)) (hch h) (hexit h))) = length (insts (hs h)))
    by (rewrite x_n_obs, (q_ilen _ _ (quiet_settle _)); exact L).
  apply nb_step_ok; try assumption; try reflexivity.
  - apply (R_pend _ _ HR).
  - apply (R_ctx _ _ HR).
  - apply (R_st _ _ HR).
  - apply (R_sfn _ _ HR).
  - apply (R_clock _ _ HR).
  - change (x_hasr m [18; c] ?P) with (if m_sv m then nz (m_sfn m) && nz (m_st m) else m_hasr m). apply (hasr_same _ _ HR HA).
  - left. split; [exact K | reflexivity].
  - discriminate.
  - unfold cancel_root. cbn [dead set_insts set_dead map]. rewrite of_nat_n2n. f_equal. apply (R_dead _ _ HR).
  - intros i x Hx. unfold cancel_root. cbn [insts set_insts]. rewrite nth_error_map, Hx. cbn [option_map]. eexists. split; [reflexivity|].
    destruct (Nat.eqb (iroot x) (n2n c)); reflexivity.
  - intros i x1 Hx1. destruct (cancel_root_nth _ _ _ _ Hx1) as (x & Hx & _ & _ & _ & Hp & _). rewrite Hp.
    change (x_out m [18; c] ?P) with (x_out' m P). unfold x_out'. rewrite nth_pad. apply (R_out _ _ HR i x Hx).
  - change (x_out m [18; c] ?P) with (x_out' m P). unfold x_out'. rewrite Hn, L. apply out_pad_length. rewrite (R_outl _ _ HR). lia.
  - left. split; reflexivity.
  - apply (R_wcanc _ _ HR).
  - intros d Hd _. apply (pending_ok_same (hs h)); try reflexivity. apply (R_pending _ _ HR d Hd).
  - intros _. split; [reflexivity|]. intros i x1 Hx1. destruct (cancel_root_nth _ _ _ _ Hx1) as (x & Hx & Hr & _). eauto.
  - intros Hnd. unfold x_f14e. rewrite Hnd. reflexivity.
  - intros _ _ _. exact L.
  - intros _ _ _ _ _. exact L.
Qed.
