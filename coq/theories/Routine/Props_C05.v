(* C05 - routine: superseded instances are cancelled; the survivor has the latest context and state.
   Statements only; for every event list of the gate-level model (every API call is one critical section of the
   container's Broadcast, so concurrent calls are interleavings of these events; the lock discipline that justifies
   this granularity is C13's obligation, and the pinned code's violation of it was defect D5). *)
From Util Require Import Common.Base Common.ListLemmas Routine.Model Routine.Proofs Routine.ProofsC05 Routine.Spec Routine.ProofsMon.
Close Scope N_scope.

(* in every reachable state: an instance whose context is still live is THE current instance of the current routine
   record, the container has a context, the instance derives from exactly that context, and (state variant) it was
   given the currently stored, non-empty state *)
Theorem c05_live_instance_is_current : forall variant cmp ncb script es i x,
  let s := run repaired (init variant cmp ncb script) es in
  nth_error (insts s) i = Some x -> icanc x = false ->
  exists r, routine s = Some r /\ rctx (getr s r) = Some i /\ irec x = r /\
            kctx s <> 0 /\ iroot x = kctx s /\
            (sv s = true -> iarg x = sval s /\ sval s <> 0%N).
Proof. exact live_instance_is_current. Qed.
Print Assumptions c05_live_instance_is_current.

(* it is the only one *)
Theorem c05_at_most_one_live : forall variant cmp ncb script es,
  cnt live (insts (run repaired (init variant cmp ncb script) es)) <= 1.
Proof. exact at_most_one_live. Qed.
Print Assumptions c05_at_most_one_live.

(* when a call returns (after every event), every instance that is not the current one has a cancelled context *)
Theorem c05_superseded_is_cancelled : forall variant cmp ncb script es i x,
  let s := run repaired (init variant cmp ncb script) es in
  nth_error (insts s) i = Some x ->
  (forall r, routine s = Some r -> rctx (getr s r) <> Some i) -> icanc x = true.
Proof. exact superseded_is_cancelled. Qed.
Print Assumptions c05_superseded_is_cancelled.

(* no live instance unless the container has a context, a routine and (state variant) a non-empty state *)
Theorem c05_live_needs_context_routine_state : forall variant cmp ncb script es,
  let s := run repaired (init variant cmp ncb script) es in
  (kctx s = 0 \/ routine s = None \/ (sv s = true /\ sval s = 0%N)) ->
  forall i x, nth_error (insts s) i = Some x -> icanc x = true.
Proof. exact live_needs_context_routine_state. Qed.
Print Assumptions c05_live_needs_context_routine_state.

(* non-vacuity: a state container with a live instance carrying the latest state; after SetState(empty) none is live *)
Example c05_example_state :
  let s := run repaired (init true 1 1 None) [ESetCtx 1 false; ESetSR 1; ESetState 5; EProceed 0 true; ESetState 7; EProceed 1 false] in
  cnt live (insts s) = 1 /\ iarg (geti s 1) = 7%N /\ icanc (geti s 0) = true /\ iroot (geti s 1) = 1.
Proof. vm_compute. repeat split; reflexivity. Qed.
Example c05_example_empty_state :
  let s := run repaired (init true 1 1 None) [ESetCtx 1 false; ESetSR 1; ESetState 5; EProceed 0 true; ESetState 0] in
  cnt live (insts s) = 0 /\ routine s = None.
Proof. vm_compute. repeat split; reflexivity. Qed.

(* a root context cancelled by its OWNER (event ECancelRoot; the container is not told and keeps pointing at it until the
   next SetRoutine / SetState / RestartRoutine / WaitExited section forgets it): every instance context derives from
   the root that was current when the instance was started and is cancelled with it, so in every reachable state a live
   instance derives from a root that has not been cancelled, and that root is the container's current context *)
Theorem c05_live_instance_root_alive : forall variant cmp ncb script es i x,
  let s := run repaired (init variant cmp ncb script) es in
  nth_error (insts s) i = Some x -> icanc x = false -> root_dead s (iroot x) = false /\ root_dead s (kctx s) = false.
Proof. exact live_instance_root_alive. Qed.
Print Assumptions c05_live_instance_root_alive.

(* non-vacuity: the owner cancels the container's context: no instance is live afterwards, the container still holds the
   cancelled context, and RestartRoutine then forgets it and starts nothing *)
Example c05_example_owner_cancels :
  let s := run repaired (init false 1 1 None) [ESetCtx 1 false; ESetRoutine 1; EProceed 0 true; ECancelRoot 1] in
  cnt live (insts s) = 0 /\ in_user (geti s 0) = true /\ kctx s = 1 /\
  kctx (fst (restart_routine repaired s)) = 0 /\ length (insts (fst (restart_routine repaired s))) = 1 /\ snd (restart_routine repaired s) = false.
Proof. vm_compute. repeat split; reflexivity. Qed.

(* Monitors and model, for EVERY event list: whenever the schedule-level step function of Routine/Spec.v accepts the
   events, the monitors (clauses 5/1: a live instance seen inside the user function is the newest one, 5/2: it exists
   only if context, routine and state are set, 5/3: it carries the current root context and state; together with those
   of C04 and C14) running on the model's own observations report no false clause. *)
Theorem c05_model_satisfies_monitors : forall cfg evs, cfg_ok cfg = true ->
  monitor mon 0 (minit cfg) [] evs (run_obs step_opt (hinit cfg) evs) = [].
Proof. exact model_satisfies_monitors. Qed.
Print Assumptions c05_model_satisfies_monitors.
