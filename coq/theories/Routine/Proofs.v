(* routine: invariants of the gate-level model, for every event list (C04, C05, C14). *)
From Util Require Import Common.Base Common.ListLemmas Routine.Model.

(* ------------------------------------------------------------------ *)
(* frame facts: which components a setter touches *)
Ltac frame := intros; reflexivity.
Lemma insts_setr s r x : insts (setr s r x) = insts s. Proof. frame. Qed.
Lemma insts_set_timers s l : insts (set_timers s l) = insts s. Proof. frame. Qed.
Lemma insts_seti s i x : insts (seti s i x) = set_nth (insts s) i x. Proof. frame. Qed.
Lemma recs_seti s i x : recs (seti s i x) = recs s. Proof. frame. Qed.
Lemma recs_setr s r x : recs (setr s r x) = set_nth (recs s) r x. Proof. frame. Qed.
Lemma routine_setr s r x : routine (setr s r x) = routine s. Proof. frame. Qed.
Lemma routine_set_lastexit s x : routine (set_lastexit s x) = routine s. Proof. frame. Qed.
Lemma routine_set_insts s x : routine (set_insts s x) = routine s. Proof. frame. Qed.
Lemma recs_set_lastexit s x : recs (set_lastexit s x) = recs s. Proof. frame. Qed.
Lemma recs_set_insts s x : recs (set_insts s x) = recs s. Proof. frame. Qed.

Lemma getr_setr_same s r x : r < length (recs s) -> getr (setr s r x) r = x.
Proof. intros H. unfold getr. rewrite recs_setr. now apply nth_set_nth_same. Qed.
Lemma getr_setr_other s r x q : q <> r -> getr (setr s r x) q = getr s q.
Proof. intros H. unfold getr. rewrite recs_setr. now apply nth_set_nth_other. Qed.

(* ------------------------------------------------------------------ *)
(* The chain invariant (C04).  It only speaks about the list of instances. *)
Definition pred_idx (i : nat) : option nat := match i with 0 => None | S j => Some j end.

Definition inst_ok (l : list inst) (i : nat) (x : inst) : Prop :=
  iwait x = pred_idx i /\ iexit x = over x /\
  (over x = true \/ in_user x = true -> forall j y, j < i -> nth_error l j = Some y -> over y = true).

Definition InvI (l : list inst) : Prop := forall i x, nth_error l i = Some x -> inst_ok l i x.

Lemma InvI_nil : InvI []. Proof. intros [|i] x H; discriminate. Qed.

(* replacing instance i by x' : the wait channel is kept, over-ness does not decrease, and x' is fine *)
Lemma InvI_update l i x x' :
  InvI l -> nth_error l i = Some x ->
  iwait x' = iwait x -> (over x = true -> over x' = true) -> iexit x' = over x' ->
  (over x' = true \/ in_user x' = true -> forall j y, j < i -> nth_error l j = Some y -> over y = true) ->
  InvI (set_nth l i x').
Proof.
  intros HI Hx Hw Hmono Hex Hmine k y Hk.
  assert (Hil : i < length l) by (eapply nth_error_nth_len; eauto).
  destruct (Nat.eq_dec k i) as [->|Hne].
  - rewrite nth_error_set_nth_same in Hk by exact Hil. inversion Hk; subst y.
    destruct (HI i x Hx) as [H1 [H2 H3]].
    split; [congruence|]. split; [exact Hex|].
    intros Ho j z Hj Hz. rewrite nth_error_set_nth_other in Hz by lia. eapply Hmine; eauto.
  - rewrite nth_error_set_nth_other in Hk by exact Hne.
    destruct (HI k y Hk) as [H1 [H2 H3]]. split; [exact H1|]. split; [exact H2|].
    intros Ho j z Hj Hz. destruct (Nat.eq_dec j i) as [->|Hji].
    + rewrite nth_error_set_nth_same in Hz by exact Hil. inversion Hz; subst z.
      apply Hmono. eapply H3; eauto.
    + rewrite nth_error_set_nth_other in Hz by exact Hji. eapply H3; eauto.
Qed.

(* an update that keeps the shape (pc, wait channel, exit channel) *)
Lemma InvI_update_same_shape l i x x' :
  InvI l -> nth_error l i = Some x ->
  iwait x' = iwait x -> ipcv x' = ipcv x -> iexit x' = iexit x -> InvI (set_nth l i x').
Proof.
  intros HI Hx Hw Hp He. destruct (HI i x Hx) as [H1 [H2 H3]].
  assert (Ho : over x' = over x) by (unfold over; now rewrite Hp).
  assert (Hu : in_user x' = in_user x) by (unfold in_user; now rewrite Hp).
  apply (InvI_update l i x x' HI Hx Hw).
  - rewrite Ho. auto.
  - rewrite He, Ho. exact H2.
  - rewrite Ho, Hu. exact H3.
Qed.

Lemma InvI_app l x :
  InvI l -> iwait x = pred_idx (length l) -> ipcv x = IGate0 -> iexit x = false -> InvI (l ++ [x]).
Proof.
  intros HI Hw Hp He k y Hk.
  destruct (Nat.lt_ge_cases k (length l)) as [Hl|Hl].
  - rewrite nth_error_app1 in Hk by exact Hl. destruct (HI k y Hk) as [H1 [H2 H3]].
    split; [exact H1|]. split; [exact H2|]. intros Ho j z Hj Hz.
    rewrite nth_error_app1 in Hz by lia. eapply H3; eauto.
  - rewrite nth_error_app2 in Hk by exact Hl.
    destruct (k - length l) as [|d] eqn:E; simpl in Hk; [|destruct d; discriminate].
    inversion Hk; subst y. assert (k = length l) by lia. subst k.
    split; [exact Hw|]. split; [unfold over; now rewrite Hp, He|].
    unfold over, in_user. rewrite Hp. intros [H|H]; discriminate.
Qed.

(* what the chain invariant gives *)
Lemma InvI_pred_closed_all_over l i x :
  InvI l -> nth_error l i = Some x ->
  (match iwait x with Some j => iexit (nth j l inst0) | None => true end) = true ->
  forall j y, j < i -> nth_error l j = Some y -> over y = true.
Proof.
  intros HI Hx Hc j y Hj Hy. destruct (HI i x Hx) as [H1 _]. rewrite H1 in Hc.
  destruct i as [|p]; [lia|]. simpl in Hc.
  assert (Hp : p < length l) by (apply nth_error_nth_len in Hx; lia).
  destruct (nth_error l p) as [z|] eqn:Ez; [|apply nth_error_None in Ez; lia].
  rewrite (nth_error_nth l p inst0 Ez) in Hc.
  destruct (HI p z Ez) as [_ [G2 G3]]. rewrite G2 in Hc.
  destruct (Nat.eq_dec j p) as [->|Hne]; [congruence|]. eapply G3; eauto. lia.
Qed.

Lemma at_most_one_by_order {A} (P : A -> bool) (l : list A) :
  (forall i j x y, i < j -> nth_error l i = Some x -> nth_error l j = Some y -> P x = true -> P y = true -> False) ->
  cnt P l <= 1.
Proof.
  induction l as [|h t IH]; intros H; [unfold cnt; simpl; lia|].
  rewrite cnt_cons. destruct (P h) eqn:Eh; simpl.
  - assert (cnt P t = 0); [|lia]. apply cnt_zero_forall. intros a Ha.
    destruct (In_nth_error _ _ Ha) as [k Hk]. destruct (P a) eqn:Ea; [|reflexivity].
    exfalso. apply (H 0 (S k) h a); simpl; auto; lia.
  - apply IH. intros i j x y Hij Hx Hy. apply (H (S i) (S j) x y); simpl; auto; lia.
Qed.

Lemma InvI_at_most_one_in_user l : InvI l -> cnt in_user l <= 1.
Proof.
  intros HI. apply at_most_one_by_order. intros i j x y Hij Hx Hy Px Py.
  destruct (HI j y Hy) as [_ [_ H3]]. specialize (H3 (or_intror Py) i x Hij Hx).
  unfold over in H3. unfold in_user in Px. destruct (ipcv x); discriminate.
Qed.

(* ------------------------------------------------------------------ *)
(* The whole-state invariant. *)
Definition InvL (s : st) : Prop := lastexit s = pred_idx (length (insts s)).
Definition InvR (s : st) : Prop :=
  forall r j, routine s = Some r -> rexit (getr s r) = Some j -> S j = length (insts s).
Definition InvW (s : st) : Prop := match routine s with Some r => r < length (recs s) | None => True end.

Definition Inv (s : st) : Prop := InvI (insts s) /\ InvL s /\ InvR s /\ InvW s.

(* ---- helper operations ---- *)
Lemma cancel_inst_insts s oi :
  InvI (insts s) -> InvI (insts (cancel_inst s oi)) /\ length (insts (cancel_inst s oi)) = length (insts s).
Proof.
  intros HI. unfold cancel_inst. destruct oi as [i|]; [|auto].
  destruct (nth_error (insts s) i) as [x|] eqn:E; [|auto].
  rewrite insts_seti. split; [|apply length_set_nth].
  eapply InvI_update_same_shape; eauto.
Qed.

Lemma cancel_inst_other s oi :
  lastexit (cancel_inst s oi) = lastexit s /\ routine (cancel_inst s oi) = routine s /\
  recs (cancel_inst s oi) = recs s /\ kctx (cancel_inst s oi) = kctx s /\ timers (cancel_inst s oi) = timers s.
Proof. unfold cancel_inst. destruct oi as [i|]; [|auto]. destruct (nth_error (insts s) i); auto. Qed.

Lemma stop_timer_other s ot :
  insts (stop_timer s ot) = insts s /\ lastexit (stop_timer s ot) = lastexit s /\ routine (stop_timer s ot) = routine s /\
  recs (stop_timer s ot) = recs s /\ kctx (stop_timer s ot) = kctx s.
Proof.
  unfold stop_timer. destruct ot as [t|]; [|auto]. destruct (nth_error (timers s) t) as [x|]; [|auto].
  destruct (tst x); auto.
Qed.

(* stop_rec: instances keep their shape; only record r changes, and its rexit is kept *)
Lemma stop_rec_facts s r :
  InvI (insts s) ->
  let s' := stop_rec s r in
  InvI (insts s') /\ length (insts s') = length (insts s) /\ lastexit s' = lastexit s /\ routine s' = routine s /\
  kctx s' = kctx s /\ length (recs s') = length (recs s) /\
  (r < length (recs s) -> rexit (getr s' r) = rexit (getr s r) /\ rfn (getr s' r) = rfn (getr s r) /\ rarg (getr s' r) = rarg (getr s r)
                          /\ rerr (getr s' r) = rerr (getr s r) /\ rsucc (getr s' r) = rsucc (getr s r) /\ rexited (getr s' r) = rexited (getr s r)
                          /\ rctx (getr s' r) = None /\ rcancel (getr s' r) = None) /\
  (forall q, q <> r -> getr s' q = getr s q).
Proof.
  intros HI. unfold stop_rec. set (x := getr s r).
  destruct (cancel_inst_insts s (rcancel x) HI) as [C1 C2].
  destruct (cancel_inst_other s (rcancel x)) as [C3 [C4 [C5 [C6 C7]]]].
  set (s1 := cancel_inst s (rcancel x)) in *.
  destruct (stop_timer_other s1 (rretry x)) as [T1 [T2 [T3 [T4 T5]]]].
  set (s2 := stop_timer s1 (rretry x)) in *.
  cbn zeta. rewrite insts_setr, T1. split; [exact C1|]. split; [exact C2|].
  split; [cbn; congruence|]. split; [cbn; congruence|]. split; [cbn; congruence|].
  split; [rewrite recs_setr, length_set_nth; congruence|].
  split.
  - intros Hr. rewrite getr_setr_same by congruence. cbn. repeat split; reflexivity.
  - intros q Hq. rewrite getr_setr_other by exact Hq. unfold getr. congruence.
Qed.

(* start_rec on the current record with an admissible wait channel preserves the invariant *)
Lemma start_rec_inv s r ctx w force :
  Inv s -> routine s = Some r -> (forall j, w = Some j -> S j = length (insts s)) ->
  Inv (start_rec repaired s r ctx w force).
Proof.
  intros [HI [HL [HR HW]]] Hcur Hw. unfold start_rec.
  destruct ((negb force && rsucc (getr s r)) || Nat.eqb (rfn (getr s r)) 0); [exact (conj HI (conj HL (conj HR HW)))|].
  destruct (negb force && (match rctx (getr s r) with Some _ => true | None => false end) && negb (rexited (getr s r)) && ctx_live s (rctx (getr s r)));
    [exact (conj HI (conj HL (conj HR HW)))|].
  assert (Hrl : r < length (recs s)) by (unfold InvW in HW; now rewrite Hcur in HW).
  destruct (stop_rec_facts s r HI) as [S1 [S2 [S3 [S4 [S5 [S6 [S7 S8]]]]]]].
  set (s1 := stop_rec s r) in *. cbn zeta.
  set (n := length (insts s1)).
  set (w' := match w with Some _ => w | None => if fx_last repaired then lastexit s1 else None end).
  assert (Hw' : w' = pred_idx n).
  { unfold w', n. rewrite S2. destruct w as [j|].
    - rewrite <- (Hw j eq_refl). reflexivity.
    - unfold repaired. cbn [fx_last]. rewrite S3. exact HL. }
  split; [|split; [|split]].
  - (* InvI *) rewrite insts_setr. cbn [insts set_lastexit set_insts]. apply InvI_app; [exact S1 | exact Hw' | reflexivity | reflexivity].
  - (* InvL *) unfold InvL. rewrite insts_setr. cbn [lastexit insts setr set_recs set_lastexit set_insts]. rewrite app_length. cbn [length]. rewrite Nat.add_1_r. reflexivity.
  - (* InvR *) intros q j Hq Hj. assert (Hq' : routine s1 = Some q) by exact Hq. rewrite S4, Hcur in Hq'. inversion Hq'; subst q.
    rewrite getr_setr_same in Hj by (change (r < length (recs s1)); rewrite S6; exact Hrl). cbn [rexit] in Hj. inversion Hj; subst j.
    rewrite insts_setr. cbn [insts set_lastexit set_insts]. rewrite app_length. cbn [length]. lia.
  - (* InvW *) unfold InvW. rewrite routine_setr, routine_set_lastexit, routine_set_insts, S4, Hcur.
    rewrite recs_setr, length_set_nth, recs_set_lastexit, recs_set_insts, S6. exact Hrl.
Qed.

(* ---- generic preservation lemmas ---- *)
Lemma Inv_ext s s' :
  insts s' = insts s -> lastexit s' = lastexit s -> routine s' = routine s -> recs s' = recs s -> Inv s -> Inv s'.
Proof.
  intros E1 E2 E3 E4 [HI [HL [HR HW]]]. unfold Inv, InvL, InvR, InvW, getr in *. rewrite E1, E2, E3, E4. auto.
Qed.

Lemma Inv_seti s i x' :
  Inv s -> InvI (set_nth (insts s) i x') -> Inv (seti s i x').
Proof.
  intros [HI [HL [HR HW]]] HI'. unfold Inv, InvL, InvR, InvW, getr in *.
  rewrite insts_seti, recs_seti, length_set_nth. cbn [lastexit routine seti set_insts]. auto.
Qed.

Lemma Inv_setr s r x :
  Inv s -> (routine s = Some r -> forall j, rexit x = Some j -> S j = length (insts s)) -> Inv (setr s r x).
Proof.
  intros [HI [HL [HR HW]]] Hx. unfold Inv, InvL, InvR, InvW in *.
  rewrite insts_setr, routine_setr, recs_setr, length_set_nth. cbn [lastexit setr set_recs].
  split; [exact HI|]. split; [exact HL|]. split; [|exact HW].
  intros q j Hq Hj. destruct (Nat.eq_dec q r) as [->|Hne].
  - destruct (Nat.lt_ge_cases r (length (recs s))) as [Hl|Hl].
    + rewrite getr_setr_same in Hj by exact Hl. eapply Hx; eauto.
    + unfold getr in Hj. rewrite recs_setr, set_nth_oob in Hj by exact Hl. eapply HR; eauto.
  - rewrite getr_setr_other in Hj by exact Hne. eapply HR; eauto.
Qed.

Lemma Inv_cancel_inst s oi : Inv s -> Inv (cancel_inst s oi).
Proof.
  intros H. unfold cancel_inst. destruct oi as [i|]; [|exact H].
  destruct (nth_error (insts s) i) as [x|] eqn:E; [|exact H].
  apply Inv_seti; [exact H|]. destruct H as [HI _]. eapply InvI_update_same_shape; eauto.
Qed.

Lemma Inv_stop_timer s ot : Inv s -> Inv (stop_timer s ot).
Proof. destruct (stop_timer_other s ot) as [E1 [E2 [E3 [E4 _]]]]. intros H. apply (Inv_ext s); auto. Qed.

Lemma Inv_stop_rec s r : Inv s -> Inv (stop_rec s r).
Proof.
  intros H. unfold stop_rec. apply Inv_setr.
  - apply Inv_stop_timer, Inv_cancel_inst, H.
  - intros Hcur j Hj. cbn [rexit] in Hj.
    destruct (stop_timer_other (cancel_inst s (rcancel (getr s r))) (rretry (getr s r))) as [E1 [_ [E3 _]]].
    destruct (cancel_inst_other s (rcancel (getr s r))) as [_ [C4 _]].
    destruct H as [HI [_ [HR _]]]. destruct (cancel_inst_insts s (rcancel (getr s r)) HI) as [_ C2].
    rewrite E1, C2. eapply HR; eauto. rewrite E3, C4 in Hcur. exact Hcur.
Qed.

Lemma routine_stop_rec s r : routine (stop_rec s r) = routine s.
Proof.
  unfold stop_rec. rewrite routine_setr.
  destruct (stop_timer_other (cancel_inst s (rcancel (getr s r))) (rretry (getr s r))) as [_ [_ [E3 _]]].
  destruct (cancel_inst_other s (rcancel (getr s r))) as [_ [C4 _]]. congruence.
Qed.

Lemma Inv_do_bcast s : Inv s -> Inv (do_bcast s). Proof. intros H. apply (Inv_ext s); auto. Qed.

(* the wait channel handed to start by its callers is the current record's exit channel *)
Lemma InvR_wait s r : Inv s -> routine s = Some r -> forall j, rexit (getr s r) = Some j -> S j = length (insts s).
Proof. intros [_ [_ [HR _]]] Hc j Hj. eapply HR; eauto. Qed.

(* forgetting a root context cancelled by its owner *)
Lemma Inv_norm s : Inv s -> Inv (norm s).
Proof. intros H. unfold norm. destruct (root_dead s (kctx s)); [apply (Inv_ext s); auto | exact H]. Qed.
Lemma insts_norm s : insts (norm s) = insts s. Proof. unfold norm. destruct (root_dead s (kctx s)); reflexivity. Qed.
Lemma routine_norm s : routine (norm s) = routine s. Proof. unfold norm. destruct (root_dead s (kctx s)); reflexivity. Qed.
Lemma recs_norm s : recs (norm s) = recs s. Proof. unfold norm. destruct (root_dead s (kctx s)); reflexivity. Qed.

(* ---- API sections ---- *)
Lemma set_context_inv s c restart : Inv s -> Inv (fst (set_context repaired s c restart)).
Proof.
  intros H. unfold set_context.
  destruct (Nat.eqb (kctx s) c && negb restart); [exact H|].
  assert (H1 : Inv (set_kctx s c)) by (apply (Inv_ext s); auto).
  change (routine (set_kctx s c)) with (routine s).
  destruct (routine s) as [r|] eqn:Er; [|exact H1].
  destruct (Nat.eqb (kctx s) c && is_nil (rerr (getr (set_kctx s c) r))); [exact H1|].
  destruct (negb (is_nil (rerr (getr (set_kctx s c) r))) && negb restart && negb (Nat.eqb c 0)); [exact H1|].
  cbn [fst]. apply Inv_do_bcast.
  assert (H2 : Inv (stop_rec (set_kctx s c) r)) by (now apply Inv_stop_rec).
  destruct ((is_nil (rerr (getr (set_kctx s c) r)) || restart) && negb (Nat.eqb c 0)); [|exact H2].
  assert (Er2 : routine (stop_rec (set_kctx s c) r) = Some r) by (rewrite routine_stop_rec; exact Er).
  apply start_rec_inv; [exact H2 | exact Er2 | exact (InvR_wait _ r H2 Er2)].
Qed.

Lemma Inv_new_record s x :
  Inv s -> rexit x = None -> Inv (set_routine (set_recs s (recs s ++ [x])) (Some (length (recs s)))).
Proof.
  intros [HI [HL [HR HW]]] Hx. unfold Inv, InvL, InvR, InvW in *. cbn [insts lastexit routine recs set_routine set_recs].
  split; [exact HI|]. split; [exact HL|]. split.
  - intros q j Hq Hj. inversion Hq; subst q. unfold getr in Hj. cbn [recs set_routine set_recs] in Hj.
    rewrite app_nth2 in Hj by lia. rewrite Nat.sub_diag in Hj. cbn in Hj. congruence.
  - rewrite app_length. cbn. lia.
Qed.

Lemma Inv_clear_routine s : Inv s -> Inv (set_routine s None).
Proof.
  intros [HI [HL [HR HW]]]. unfold Inv, InvL, InvR, InvW in *. cbn [insts lastexit routine recs set_routine].
  split; [exact HI|]. split; [exact HL|]. split; [intros r j Hq; discriminate | exact I].
Qed.

Lemma set_routine_locked_n_inv s f arg : Inv s -> Inv (fst (set_routine_locked_n repaired s f arg)).
Proof.
  intros H. unfold set_routine_locked_n.
  (* phase 1: detach the previous record *)
  set (ph := match routine s with
             | Some p => _
             | None => (s, None, false)
             end).
  assert (Hph : Inv (fst (fst ph)) /\ routine (fst (fst ph)) = None /\
                (forall j, snd (fst ph) = Some j -> S j = length (insts (fst (fst ph))))).
  { unfold ph. destruct (routine s) as [p|] eqn:Ep.
    - cbn [fst snd]. split; [|split].
      + apply Inv_clear_routine. apply Inv_setr; [apply Inv_cancel_inst, H|].
        intros Hc j Hj. cbn [rexit] in Hj.
        destruct H as [HI [_ [HR _]]]. destruct (cancel_inst_insts s (rcancel (getr s p)) HI) as [_ C2].
        rewrite C2. eapply HR; eauto.
      + reflexivity.
      + intros j Hj.
        destruct H as [HI [_ [HR _]]]. destruct (cancel_inst_insts s (rcancel (getr s p)) HI) as [_ C2].
        cbn [insts set_routine]. rewrite insts_setr, C2. eapply HR; eauto.
    - cbn [fst snd]. split; [exact H|]. split; [exact Ep|]. intros; discriminate. }
  destruct ph as [[s1 prevExit] wasReset]. cbn [fst snd] in Hph. destruct Hph as [H1 [Hn Hp]].
  destruct (negb (Nat.eqb f 0)).
  - cbn [fst]. apply Inv_do_bcast.
    set (x := {| rfn := f; rarg := arg; rctx := None; rcancel := None; rexit := None; rerr := ONil; rsucc := false; rexited := false; rretry := None |}).
    assert (H2 : Inv (set_routine (set_recs s1 (recs s1 ++ [x])) (Some (length (recs s1))))) by (now apply Inv_new_record).
    destruct (negb (Nat.eqb (kctx (set_routine (set_recs s1 (recs s1 ++ [x])) (Some (length (recs s1))))) 0)); [|exact H2].
    apply start_rec_inv; [exact H2 | reflexivity | exact Hp].
  - cbn [fst]. destruct wasReset; [apply Inv_do_bcast|]; exact H1.
Qed.

Lemma set_routine_locked_inv s f arg : Inv s -> Inv (fst (set_routine_locked repaired s f arg)).
Proof. intros H. unfold set_routine_locked. now apply set_routine_locked_n_inv, Inv_norm. Qed.

Lemma restart_routine_n_inv s : Inv s -> Inv (fst (restart_routine_n repaired s)).
Proof.
  intros H. unfold restart_routine_n. destruct (routine s) as [r|] eqn:Er; [|exact H].
  set (x := getr s r).
  set (s1 := cancel_inst s (rcancel x)).
  assert (H1 : Inv s1) by (apply Inv_cancel_inst, H).
  assert (R1 : routine s1 = Some r) by (unfold s1; destruct (cancel_inst_other s (rcancel x)) as [_ [C _]]; congruence).
  assert (L1 : length (insts s1) = length (insts s)) by (destruct H as [HI _]; apply (cancel_inst_insts s (rcancel x) HI)).
  assert (X1 : getr s1 r = x) by (unfold s1, getr; destruct (cancel_inst_other s (rcancel x)) as [_ [_ [C _]]]; rewrite C; reflexivity).
  set (s2 := setr s1 r _).
  assert (H2 : Inv s2).
  { apply Inv_setr; [exact H1|]. intros _ j Hj. cbn [rexit] in Hj. rewrite L1. eapply InvR_wait; eauto. }
  destruct (Nat.eqb (kctx s2) 0); [exact H2|]. cbn [fst]. apply Inv_do_bcast.
  set (y := getr s2 r).
  apply start_rec_inv.
  - apply Inv_setr; [exact H2|]. intros _ j Hj. discriminate.
  - rewrite routine_setr. unfold s2. rewrite routine_setr. exact R1.
  - intros j Hj. rewrite insts_setr. unfold s2. rewrite insts_setr, L1.
    assert (Hrl : r < length (recs s1)).
    { destruct H1 as [_ [_ [_ HW]]]. unfold InvW in HW. now rewrite R1 in HW. }
    unfold y, s2 in Hj. rewrite getr_setr_same in Hj by exact Hrl. cbn [rexit] in Hj.
    eapply InvR_wait; eauto.
Qed.

Lemma restart_routine_inv s : Inv s -> Inv (fst (restart_routine repaired s)).
Proof. intros H. unfold restart_routine. now apply restart_routine_n_inv, Inv_norm. Qed.

Lemma update_sr_inv s : Inv s -> Inv (fst (update_sr repaired s)).
Proof.
  intros H. unfold update_sr.
  pose proof (set_routine_locked_inv s (if negb (Nat.eqb (sfn s) 0) && negb (N.eqb (sval s) 0) then sfn s else 0) (sval s) H) as G.
  destruct (set_routine_locked repaired s _ (sval s)) as [s1 [w reset]]. exact G.
Qed.

Lemma set_state_locked_inv s v : Inv s -> Inv (fst (set_state_locked repaired s v)).
Proof.
  intros H. unfold set_state_locked. destruct (state_equal (scmp s) (sval s) v); [exact H|].
  assert (H1 : Inv (set_sval s v)) by (apply (Inv_ext s); auto).
  pose proof (update_sr_inv _ H1) as G.
  destruct (update_sr repaired (set_sval s v)) as [s1 [[w reset] running]]. cbn [fst] in *. now apply Inv_do_bcast.
Qed.

Lemma swap_value_inv s g : Inv s -> Inv (fst (swap_value repaired s g)).
Proof.
  intros H. unfold swap_value.
  destruct (negb (N.eqb (if Nat.eqb g 0 then sval s else swap_fn g (sval s)) (sval s))); [|exact H].
  pose proof (set_state_locked_inv s (if Nat.eqb g 0 then sval s else swap_fn g (sval s)) H) as G.
  destruct (set_state_locked repaired s _) as [s1 [[[w changed] reset] running]]. exact G.
Qed.

(* ---- instance steps ---- *)
Lemma pred_closed_all_over s i x :
  InvI (insts s) -> nth_error (insts s) i = Some x -> pred_closed s x = true ->
  forall j y, j < i -> nth_error (insts s) j = Some y -> over y = true.
Proof. intros HI Hx Hc. eapply InvI_pred_closed_all_over; eauto. Qed.

Lemma Inv_enter s i x :
  Inv s -> nth_error (insts s) i = Some x -> ipcv x <> IUser -> over x = false -> pred_closed s x = true ->
  Inv (seti s i (with_pc x IUser)).
Proof.
  intros H Hx Hnu Hno Hc. apply Inv_seti; [exact H|]. destruct H as [HI _].
  destruct (HI i x Hx) as [_ [E2 _]].
  apply (InvI_update (insts s) i x _ HI Hx).
  - reflexivity.
  - rewrite Hno. discriminate.
  - cbn. rewrite E2. exact Hno.
  - intros _. eapply pred_closed_all_over; eauto.
Qed.

Lemma Inv_skip s i x o :
  Inv s -> nth_error (insts s) i = Some x -> pred_closed s x = true -> Inv (seti s i (with_over x o)).
Proof.
  intros H Hx Hc. apply Inv_seti; [exact H|]. destruct H as [HI _].
  apply (InvI_update (insts s) i x _ HI Hx).
  - reflexivity.
  - reflexivity.
  - reflexivity.
  - intros _. eapply pred_closed_all_over; eauto.
Qed.

Lemma Inv_block s i x p :
  Inv s -> nth_error (insts s) i = Some x -> over x = false -> (p = IWait \/ p = IWaitC) -> Inv (seti s i (with_pc x p)).
Proof.
  intros H Hx Hno Hp. apply Inv_seti; [exact H|]. destruct H as [HI _]. destruct (HI i x Hx) as [_ [E2 _]].
  apply (InvI_update (insts s) i x _ HI Hx).
  - reflexivity.
  - rewrite Hno. discriminate.
  - cbn. rewrite E2, Hno. destruct Hp as [-> | ->]; reflexivity.
  - destruct Hp as [-> | ->]; cbn; intros [G|G]; discriminate.
Qed.

Lemma pred_closed_none s x : iwait x = None -> pred_closed s x = true.
Proof. unfold pred_closed. now intros ->. Qed.

Lemma proceed_inv s i en : Inv s -> Inv (proceed repaired s i en).
Proof.
  intros H. unfold proceed. destruct (nth_error (insts s) i) as [x|] eqn:Ex; [|exact H].
  destruct (ipcv x) eqn:Ep; try exact H.
  assert (Hno : over x = false) by (unfold over; now rewrite Ep).
  assert (Hnu : ipcv x <> IUser) by (rewrite Ep; discriminate).
  destruct (iwait x) as [j|] eqn:Ew.
  - destruct (pred_closed s x) eqn:Ec; cbn [andb].
    + destruct (icanc x); [destruct en|]; try (now apply Inv_enter); now apply Inv_skip.
    + destruct (icanc x); cbn [fx_wait repaired]; apply Inv_block; auto.
  - destruct (icanc x); [apply Inv_skip | apply Inv_enter]; auto using pred_closed_none.
Qed.

Lemma wake_inv s i en : Inv s -> Inv (wake repaired s i en).
Proof.
  intros H. unfold wake. destruct (nth_error (insts s) i) as [x|] eqn:Ex; [|exact H].
  destruct (ipcv x) eqn:Ep; try exact H.
  - assert (Hno : over x = false) by (unfold over; now rewrite Ep).
    assert (Hnu : ipcv x <> IUser) by (rewrite Ep; discriminate).
    destruct (pred_closed s x) eqn:Ec; cbn [andb].
    + destruct (icanc x); [destruct en|]; try (now apply Inv_enter); now apply Inv_skip.
    + destruct (icanc x); cbn [fx_wait repaired]; [apply Inv_block; auto | exact H].
  - destruct (pred_closed s x) eqn:Ec; [now apply Inv_skip | exact H].
Qed.

Lemma fn_return_inv s i o : Inv s -> Inv (fn_return s i o).
Proof.
  intros H. unfold fn_return. destruct (nth_error (insts s) i) as [x|] eqn:Ex; [|exact H].
  destruct (ipcv x) eqn:Ep; try exact H.
  apply Inv_seti; [exact H|]. destruct H as [HI _]. destruct (HI i x Ex) as [_ [_ E3]].
  apply (InvI_update (insts s) i x _ HI Ex); try reflexivity. intros _. apply E3. right. unfold in_user. now rewrite Ep.
Qed.

Lemma Inv_done s i x o : Inv s -> nth_error (insts s) i = Some x -> ipcv x = IBook o -> Inv (seti s i (with_pc x IDone)).
Proof.
  intros H Hx Hp. apply Inv_seti; [exact H|]. destruct H as [HI _]. destruct (HI i x Hx) as [_ [E2 E3]].
  assert (Ho : over x = true) by (unfold over; now rewrite Hp).
  apply (InvI_update (insts s) i x _ HI Hx).
  - reflexivity.
  - reflexivity.
  - cbn. rewrite E2. exact Ho.
  - intros _. apply E3. now left.
Qed.

(* a record update that clears rexit keeps the invariant *)
Lemma Inv_setr_noexit s r x : Inv s -> rexit x = None -> Inv (setr s r x).
Proof. intros H Hx. apply Inv_setr; [exact H|]. intros _ j Hj. congruence. Qed.

Lemma Inv_set_bo s x : Inv s -> Inv (set_bo s x). Proof. intros H. apply (Inv_ext s); auto. Qed.
Lemma Inv_set_timers s x : Inv s -> Inv (set_timers s x). Proof. intros H. apply (Inv_ext s); auto. Qed.
Lemma Inv_set_cblog s x : Inv s -> Inv (set_cblog s x). Proof. intros H. apply (Inv_ext s); auto. Qed.

Lemma bookkeep_inv s i : Inv s -> Inv (bookkeep s i).
Proof.
  intros H. unfold bookkeep. destruct (nth_error (insts s) i) as [x|] eqn:Ex; [|exact H].
  destruct (ipcv x) eqn:Ep; try exact H.
  assert (H0 : Inv (seti s i (with_pc x IDone))) by (eapply Inv_done; eauto).
  set (s0 := seti s i (with_pc x IDone)) in *.
  destruct (rctx (getr s (irec x))) as [j|]; [|exact H0].
  destruct (Nat.eqb j i); [|exact H0].
  apply Inv_do_bcast, Inv_set_cblog.
  destruct (bo s0) as [[l k]|].
  - destruct (is_nil o).
    + apply Inv_setr_noexit; [apply Inv_set_bo, Inv_stop_timer, H0 | reflexivity].
    + destruct (match routine (stop_timer s0 (rretry (getr s (irec x)))) with Some r' => Nat.eqb r' (irec x) | None => false end).
      * destruct (nth_error l k).
        -- apply Inv_setr_noexit; [apply Inv_set_timers, Inv_set_bo, Inv_stop_timer, H0 | reflexivity].
        -- apply Inv_setr_noexit; [apply Inv_set_bo, Inv_stop_timer, H0 | reflexivity].
      * apply Inv_setr_noexit; [apply Inv_stop_timer, H0 | reflexivity].
  - apply Inv_setr_noexit; [exact H0 | reflexivity].
Qed.

Lemma timer_cb_inv s t : Inv s -> Inv (timer_cb repaired s t).
Proof.
  intros H. unfold timer_cb. destruct (nth_error (timers s) t) as [x|]; [|exact H].
  destruct (tst x); try exact H.
  apply Inv_do_bcast.
  set (s1 := set_timers s _).
  assert (H1 : Inv s1) by (now apply Inv_set_timers).
  destruct (match rretry (getr s1 (trec x)) with Some t' => Nat.eqb t' t | None => false end); cbn [fx_timer repaired andb]; [|exact H1].
  destruct (negb (Nat.eqb (kctx s1) 0)); cbn [andb]; [|exact H1].
  destruct (routine s1) as [r'|] eqn:Er; [|exact H1].
  destruct (Nat.eqb_spec r' (trec x)) as [->|]; cbn [andb]; [|exact H1].
  destruct (rexited (getr s1 (trec x))); [|exact H1].
  apply start_rec_inv; [exact H1 | exact Er | exact (InvR_wait _ _ H1 Er)].
Qed.

Lemma Inv_set_waiters s x : Inv s -> Inv (set_waiters s x). Proof. intros H. apply (Inv_ext s); auto. Qed.
Lemma Inv_set_b s x : Inv s -> Inv (set_b s x). Proof. intros H. apply (Inv_ext s); auto. Qed.

Lemma wait_sect_at_inv s a w : Inv s -> Inv (wait_sect_at s a w).
Proof.
  intros H. unfold wait_sect_at. destruct (getch (b s)) as [b' ch].
  destruct (match routine s with Some r => _ | None => _ end); [|destruct (wcanc w)]; unfold setw; now apply Inv_set_waiters, Inv_set_b.
Qed.

Lemma wait_section_inv s a : Inv s -> Inv (wait_section s a).
Proof.
  intros H. unfold wait_section. destruct (nth_error (waiters s) a) as [w|]; [|exact H].
  destruct (wpcv w); try exact H. now apply wait_sect_at_inv, Inv_norm.
Qed.

(* the owner cancels a root context: instances keep their shape *)
Lemma InvI_map_same_shape l (f : inst -> inst) :
  (forall x, iwait (f x) = iwait x /\ ipcv (f x) = ipcv x /\ iexit (f x) = iexit x) -> InvI l -> InvI (map f l).
Proof.
  intros Hf HI i y Hy. rewrite nth_error_map in Hy. destruct (nth_error l i) as [x|] eqn:Ex; [|discriminate]. inversion Hy; subst y.
  destruct (Hf x) as (A & B & C). destruct (HI i x Ex) as (H1 & H2 & H3).
  assert (Ho : forall z, over (f z) = over z) by (intros z; unfold over; now rewrite (proj1 (proj2 (Hf z)))).
  assert (Hu : forall z, in_user (f z) = in_user z) by (intros z; unfold in_user; now rewrite (proj1 (proj2 (Hf z)))).
  split; [congruence|]. split; [rewrite C, Ho; exact H2|]. rewrite Ho, Hu. intros Hc j z Hj Hz.
  rewrite nth_error_map in Hz. destruct (nth_error l j) as [z0|] eqn:Ez; [|discriminate]. inversion Hz; subst z. rewrite Ho. eapply H3; eauto.
Qed.

Lemma cancel_root_inv s c : Inv s -> Inv (cancel_root s c).
Proof.
  intros (HI & HL & HR & HW). unfold cancel_root, Inv, InvL, InvR, InvW, getr in *. cbn [insts lastexit routine recs set_insts set_dead].
  rewrite map_length. split; [|auto]. apply InvI_map_same_shape; [|exact HI]. intros x. destruct (Nat.eqb (iroot x) c); auto.
Qed.

Lemma step_inv s e : Inv s -> Inv (step repaired s e).
Proof.
  intros H. destruct e; cbn [step].
  - now apply set_context_inv.
  - destruct (sv s); [exact H | now apply set_routine_locked_inv].
  - now apply restart_routine_inv.
  - destruct (sv s); [now apply set_state_locked_inv | exact H].
  - destruct (sv s); [now apply swap_value_inv | exact H].
  - destruct (sv s); [|exact H]. apply update_sr_inv. apply (Inv_ext s); auto.
  - now apply proceed_inv.
  - now apply wake_inv.
  - now apply fn_return_inv.
  - now apply bookkeep_inv.
  - unfold advance. apply Inv_set_timers. apply (Inv_ext s); auto.
  - now apply timer_cb_inv.
  - now apply Inv_set_waiters.
  - now apply wait_section_inv.
  - unfold wait_wake. destruct (nth_error (waiters s) a) as [w|]; [|exact H]. destruct (wpcv w); try exact H.
    destruct (closed (b s) ch); [unfold setw; now apply Inv_set_waiters | exact H].
  - unfold wait_cancel. destruct (nth_error (waiters s) a) as [w|]; [|exact H].
    destruct (wpcv w); try exact H; unfold setw; now apply Inv_set_waiters.
  - unfold wait_errch. destruct (nth_error (waiters s) a) as [w|]; [|exact H].
    destruct (wpcv w); try exact H; unfold setw; now apply Inv_set_waiters.
  - now apply cancel_root_inv.
Qed.

Lemma init_inv v c n sc : Inv (init v c n sc).
Proof.
  unfold Inv, InvL, InvR, InvW, init. cbn [insts lastexit routine recs length pred_idx].
  split; [apply InvI_nil|]. split; [reflexivity|]. split; [intros r j Hq; discriminate | exact I].
Qed.

Theorem run_inv v c n sc es : Inv (run repaired (init v c n sc) es).
Proof. unfold run. apply fold_inv; [intros s e; apply step_inv | apply init_inv]. Qed.

(* ---- C04 ---- *)
Theorem at_most_one_in_user v c n sc es : cnt in_user (insts (run repaired (init v c n sc) es)) <= 1.
Proof. apply InvI_at_most_one_in_user. apply run_inv. Qed.

(* an exited channel that is closed: its instance and every earlier one have left user code *)
Theorem closed_exit_all_earlier_over v c n sc es j x :
  let s := run repaired (init v c n sc) es in
  nth_error (insts s) j = Some x -> iexit x = true ->
  forall k y, k <= j -> nth_error (insts s) k = Some y -> over y = true.
Proof.
  intros s Hx He k y Hk Hy. destruct (run_inv v c n sc es) as [HI _]. fold s in HI.
  destruct (HI j x Hx) as [_ [E2 E3]]. rewrite E2 in He.
  destruct (Nat.eq_dec k j) as [->|Hne]; [congruence|]. eapply E3; eauto. lia.
Qed.

(* the channel SetRoutine / SetState hand out is the exit channel of the newest instance *)
Theorem wait_return_is_newest v c n sc es f arg j :
  let s := run repaired (init v c n sc) es in
  fst (snd (set_routine_locked repaired s f arg)) = Some j -> S j = length (insts s).
Proof.
  intros s Hj. pose proof (Inv_norm _ (run_inv v c n sc es)) as H. fold s in H.
  unfold set_routine_locked, set_routine_locked_n in Hj. rewrite <- (insts_norm s).
  destruct (routine (norm s)) as [p|] eqn:Ep.
  - destruct (negb (Nat.eqb f 0)); cbn [fst snd] in Hj; eapply InvR_wait; eauto.
  - destruct (negb (Nat.eqb f 0)); cbn [fst snd] in Hj; discriminate.
Qed.

(* an instance enters the user function only when every earlier instance has left it *)
Theorem enter_only_after_all_earlier v c n sc es i x :
  let s := run repaired (init v c n sc) es in
  nth_error (insts s) i = Some x -> in_user x = true ->
  forall k y, k < i -> nth_error (insts s) k = Some y -> over y = true.
Proof.
  intros s Hx Hu k y Hk Hy. destruct (run_inv v c n sc es) as [HI _]. fold s in HI.
  destruct (HI i x Hx) as [_ [_ E3]]. eapply E3; eauto.
Qed.

(* the pinned code (before the D2 repair): a cancelled instance that still waits for its predecessor
   reports its exit at once, and the next instance overlaps the first *)
Definition pinned_d2 : fixes := {| fx_wait := false; fx_last := true; fx_timer := true |}.
Definition d2_witness : list ev :=
  [ESetCtx 1 false; ESetRoutine 1; EProceed 0 true; ERestart; EProceed 1 false; ERestart; EWake 1 true; EProceed 2 true].
Lemma d2_refuted : cnt in_user (insts (run pinned_d2 (init false 1 1 None) d2_witness)) = 2.
Proof. vm_compute. reflexivity. Qed.

Definition pinned_d3 : fixes := {| fx_wait := true; fx_last := false; fx_timer := true |}.
Definition d3_witness : list ev :=
  [ESetCtx 1 false; ESetRoutine 1; EProceed 0 true; ESetRoutine 0; ESetRoutine 2; EProceed 1 true].
Lemma d3_refuted : cnt in_user (insts (run pinned_d3 (init false 1 1 None) d3_witness)) = 2.
Proof. vm_compute. reflexivity. Qed.
