(* routine.RoutineContainer / StateRoutineContainer at gate granularity (C04, C05, C14).
   Model of the REPAIRED code (fix commits D2, D3, D4, D5, D20 in /repo); the pinned variants of the
   chain defects and of the stale retry callback are kept as switches ([fx_wait], [fx_last], [fx_timer])
   for the _refuted theorems.

   Actors: API calls are single critical sections of the container's Broadcast (one event each);
   every `go r.execute(...)` is an INSTANCE with program counter
       IGate0 -> (IWait | IWaitC) -> IUser -> IBook o -> IDone
   (gate before the first select; blocked on predecessor / cancelled-but-waiting-for-predecessor;
   inside the user function; parked before the bookkeeping section with outcome o; done);
   retry timers (armed / fired / stopped / ran), whose callback is its own section; WaitExited
   callers.  Contexts: root contexts are numbers (0 = nil); their owner may cancel them
   ([ECancelRoot]: the set [dead]; every instance context derived from the root is cancelled with it, the container
   keeps pointing at the cancelled context until an entry point forgets it, [norm]); the context of an instance is
   identified with the instance, its cancellation is the flag [icanc].  Channels: the exited channel of instance i is identified
   with i, [iexit] says whether it is closed.  No proofs in this file. *)
From Util Require Import Common.Base Common.ListLemmas.

Inductive outcome := ONil | OCanc | OErr (e : nat).
Definition outcome_eqb (a b : outcome) : bool :=
  match a, b with
  | ONil, ONil | OCanc, OCanc => true
  | OErr x, OErr y => Nat.eqb x y
  | _, _ => false
  end.
Definition is_nil (o : outcome) : bool := match o with ONil => true | _ => false end.

Inductive ipc := IGate0 | IWait | IWaitC | IUser | IBook (o : outcome) | IDone.

Record inst := { irec : nat; iwait : option nat; ipcv : ipc; icanc : bool; iexit : bool; iarg : N; iroot : nat }.

Record rec := { rfn : nat; rarg : N; rctx : option nat; rcancel : option nat; rexit : option nat;
                rerr : outcome; rsucc : bool; rexited : bool; rretry : option nat }.

Inductive tstate := TArmed | TFired | TStopped | TRan.
Record timer := { trec : nat; tdead : N; tst : tstate }.

Inductive wpc := WGate | WBlocked (ch : nat) | WRet (o : outcome).
Record waiter := { wpcv : wpc; wrinr : bool; wcanc : bool }.

Record fixes := { fx_wait : bool; fx_last : bool; fx_timer : bool }.
Definition repaired : fixes := {| fx_wait := true; fx_last := true; fx_timer := true |}.

Record st := {
  kctx : nat;                       (* container context, 0 = nil *)
  routine : option nat;             (* current record *)
  lastexit : option nat;            (* lastExitedCh *)
  bo : option (list N * nat);       (* scripted back-off: durations, next index *)
  ncb : nat;                        (* number of exit callbacks *)
  b : bc;
  recs : list rec;
  insts : list inst;
  timers : list timer;
  clock : N;
  cblog : list outcome;             (* exit callback invocations, oldest first *)
  waiters : list waiter;
  (* state variant *)
  sv : bool; sval : N; sfn : nat; scmp : nat;
  dead : list nat;                  (* root contexts cancelled by their owner *)
}.

Definition init (variant : bool) (cmp ncbs : nat) (script : option (list N)) : st :=
  {| kctx := 0; routine := None; lastexit := None;
     bo := match script with Some l => Some (l, 0) | None => None end; ncb := ncbs; b := bc0;
     recs := []; insts := []; timers := []; clock := 0%N; cblog := []; waiters := [];
     sv := variant; sval := 0%N; sfn := 0; scmp := cmp; dead := [] |}.

(* ---------- small setters (keep terms small in proofs) ---------- *)
Definition set_recs (s : st) (l : list rec) : st :=
  {| kctx := kctx s; routine := routine s; lastexit := lastexit s; bo := bo s; ncb := ncb s; b := b s; recs := l;
     insts := insts s; timers := timers s; clock := clock s; cblog := cblog s; waiters := waiters s;
     sv := sv s; sval := sval s; sfn := sfn s; scmp := scmp s; dead := dead s |}.
Definition set_insts (s : st) (l : list inst) : st :=
  {| kctx := kctx s; routine := routine s; lastexit := lastexit s; bo := bo s; ncb := ncb s; b := b s; recs := recs s;
     insts := l; timers := timers s; clock := clock s; cblog := cblog s; waiters := waiters s;
     sv := sv s; sval := sval s; sfn := sfn s; scmp := scmp s; dead := dead s |}.
Definition set_timers (s : st) (l : list timer) : st :=
  {| kctx := kctx s; routine := routine s; lastexit := lastexit s; bo := bo s; ncb := ncb s; b := b s; recs := recs s;
     insts := insts s; timers := l; clock := clock s; cblog := cblog s; waiters := waiters s;
     sv := sv s; sval := sval s; sfn := sfn s; scmp := scmp s; dead := dead s |}.
Definition set_waiters (s : st) (l : list waiter) : st :=
  {| kctx := kctx s; routine := routine s; lastexit := lastexit s; bo := bo s; ncb := ncb s; b := b s; recs := recs s;
     insts := insts s; timers := timers s; clock := clock s; cblog := cblog s; waiters := l;
     sv := sv s; sval := sval s; sfn := sfn s; scmp := scmp s; dead := dead s |}.
Definition set_b (s : st) (x : bc) : st :=
  {| kctx := kctx s; routine := routine s; lastexit := lastexit s; bo := bo s; ncb := ncb s; b := x; recs := recs s;
     insts := insts s; timers := timers s; clock := clock s; cblog := cblog s; waiters := waiters s;
     sv := sv s; sval := sval s; sfn := sfn s; scmp := scmp s; dead := dead s |}.
Definition set_kctx (s : st) (c : nat) : st :=
  {| kctx := c; routine := routine s; lastexit := lastexit s; bo := bo s; ncb := ncb s; b := b s; recs := recs s;
     insts := insts s; timers := timers s; clock := clock s; cblog := cblog s; waiters := waiters s;
     sv := sv s; sval := sval s; sfn := sfn s; scmp := scmp s; dead := dead s |}.
Definition set_routine (s : st) (r : option nat) : st :=
  {| kctx := kctx s; routine := r; lastexit := lastexit s; bo := bo s; ncb := ncb s; b := b s; recs := recs s;
     insts := insts s; timers := timers s; clock := clock s; cblog := cblog s; waiters := waiters s;
     sv := sv s; sval := sval s; sfn := sfn s; scmp := scmp s; dead := dead s |}.
Definition set_lastexit (s : st) (x : option nat) : st :=
  {| kctx := kctx s; routine := routine s; lastexit := x; bo := bo s; ncb := ncb s; b := b s; recs := recs s;
     insts := insts s; timers := timers s; clock := clock s; cblog := cblog s; waiters := waiters s;
     sv := sv s; sval := sval s; sfn := sfn s; scmp := scmp s; dead := dead s |}.
Definition set_bo (s : st) (x : option (list N * nat)) : st :=
  {| kctx := kctx s; routine := routine s; lastexit := lastexit s; bo := x; ncb := ncb s; b := b s; recs := recs s;
     insts := insts s; timers := timers s; clock := clock s; cblog := cblog s; waiters := waiters s;
     sv := sv s; sval := sval s; sfn := sfn s; scmp := scmp s; dead := dead s |}.
Definition set_clock (s : st) (x : N) : st :=
  {| kctx := kctx s; routine := routine s; lastexit := lastexit s; bo := bo s; ncb := ncb s; b := b s; recs := recs s;
     insts := insts s; timers := timers s; clock := x; cblog := cblog s; waiters := waiters s;
     sv := sv s; sval := sval s; sfn := sfn s; scmp := scmp s; dead := dead s |}.
Definition set_cblog (s : st) (x : list outcome) : st :=
  {| kctx := kctx s; routine := routine s; lastexit := lastexit s; bo := bo s; ncb := ncb s; b := b s; recs := recs s;
     insts := insts s; timers := timers s; clock := clock s; cblog := x; waiters := waiters s;
     sv := sv s; sval := sval s; sfn := sfn s; scmp := scmp s; dead := dead s |}.
Definition set_sval (s : st) (x : N) : st :=
  {| kctx := kctx s; routine := routine s; lastexit := lastexit s; bo := bo s; ncb := ncb s; b := b s; recs := recs s;
     insts := insts s; timers := timers s; clock := clock s; cblog := cblog s; waiters := waiters s;
     sv := sv s; sval := x; sfn := sfn s; scmp := scmp s; dead := dead s |}.
Definition set_sfn (s : st) (x : nat) : st :=
  {| kctx := kctx s; routine := routine s; lastexit := lastexit s; bo := bo s; ncb := ncb s; b := b s; recs := recs s;
     insts := insts s; timers := timers s; clock := clock s; cblog := cblog s; waiters := waiters s;
     sv := sv s; sval := sval s; sfn := x; scmp := scmp s; dead := dead s |}.

Definition set_dead (s : st) (x : list nat) : st :=
  {| kctx := kctx s; routine := routine s; lastexit := lastexit s; bo := bo s; ncb := ncb s; b := b s; recs := recs s;
     insts := insts s; timers := timers s; clock := clock s; cblog := cblog s; waiters := waiters s;
     sv := sv s; sval := sval s; sfn := sfn s; scmp := scmp s; dead := x |}.

(* k.ctx.Err() != nil: the root context was cancelled by its owner *)
Definition root_dead (s : st) (c : nat) : bool := existsb (Nat.eqb c) (dead s).
(* if k.ctx != nil && k.ctx.Err() != nil { k.ctx = nil } *)
Definition norm (s : st) : st := if root_dead s (kctx s) then set_kctx s 0 else s.

Definition rec0 : rec := {| rfn := 0; rarg := 0%N; rctx := None; rcancel := None; rexit := None;
                            rerr := ONil; rsucc := false; rexited := false; rretry := None |}.
Definition inst0 : inst := {| irec := 0; iwait := None; ipcv := IDone; icanc := true; iexit := true; iarg := 0%N; iroot := 0 |}.
Definition timer0 : timer := {| trec := 0; tdead := 0%N; tst := TRan |}.
Definition waiter0 : waiter := {| wpcv := WRet ONil; wrinr := false; wcanc := false |}.

Definition getr (s : st) (r : nat) : rec := nth r (recs s) rec0.
Definition geti (s : st) (i : nat) : inst := nth i (insts s) inst0.

Definition with_pc (x : inst) (p : ipc) : inst :=
  {| irec := irec x; iwait := iwait x; ipcv := p; icanc := icanc x; iexit := iexit x; iarg := iarg x; iroot := iroot x |}.
Definition with_canc (x : inst) : inst :=
  {| irec := irec x; iwait := iwait x; ipcv := ipcv x; icanc := true; iexit := iexit x; iarg := iarg x; iroot := iroot x |}.
(* the function returned / was skipped: cancel(); close(exitedCh); parked before the bookkeeping section *)
Definition with_over (x : inst) (o : outcome) : inst :=
  {| irec := irec x; iwait := iwait x; ipcv := IBook o; icanc := true; iexit := true; iarg := iarg x; iroot := iroot x |}.

Definition seti (s : st) (i : nat) (x : inst) : st := set_insts s (set_nth (insts s) i x).
Definition setr (s : st) (r : nat) (x : rec) : st := set_recs s (set_nth (recs s) r x).

(* cancel the context of instance i (if any) *)
Definition cancel_inst (s : st) (oi : option nat) : st :=
  match oi with
  | Some i => match nth_error (insts s) i with Some x => seti s i (with_canc x) | None => s end
  | None => s
  end.

Definition stop_timer (s : st) (ot : option nat) : st :=
  match ot with
  | Some t => match nth_error (timers s) t with
              | Some x => match tst x with
                          | TArmed => set_timers s (set_nth (timers s) t {| trec := trec x; tdead := tdead x; tst := TStopped |})
                          | _ => s
                          end
              | None => s
              end
  | None => s
  end.

(* runningRoutine.stop() *)
Definition stop_rec (s : st) (r : nat) : st :=
  let x := getr s r in
  let s1 := cancel_inst s (rcancel x) in
  let s2 := stop_timer s1 (rretry x) in
  setr s2 r {| rfn := rfn x; rarg := rarg x; rctx := None; rcancel := None; rexit := rexit x;
               rerr := rerr x; rsucc := rsucc x; rexited := rexited x; rretry := None |}.

(* r.ctx.Err() == nil *)
Definition ctx_live (s : st) (oi : option nat) : bool :=
  match oi with Some i => negb (icanc (geti s i)) | None => false end.

(* runningRoutine.start(ctx, waitCh, forceRestart) *)
Definition start_rec (fx : fixes) (s : st) (r : nat) (ctx : nat) (waitCh : option nat) (force : bool) : st :=
  let x := getr s r in
  if (negb force && rsucc x) || Nat.eqb (rfn x) 0 then s
  else if negb force && (match rctx x with Some _ => true | None => false end) && negb (rexited x) && ctx_live s (rctx x) then s
  else
    let s1 := stop_rec s r in
    let w := match waitCh with Some _ => waitCh | None => if fx_last fx then lastexit s1 else None end in
    let n := length (insts s1) in
    let x1 := getr s1 r in
    let s2 := set_insts s1 (insts s1 ++ [{| irec := r; iwait := w; ipcv := IGate0; icanc := root_dead s1 ctx; iexit := false;
                                            iarg := rarg x1; iroot := ctx |}]) in
    let s3 := set_lastexit s2 (Some n) in
    setr s3 r {| rfn := rfn x1; rarg := rarg x1; rctx := Some n; rcancel := Some n; rexit := Some n;
                 rerr := ONil; rsucc := false; rexited := false; rretry := None |}.

Definition do_bcast (s : st) : st := set_b s (bcast (b s)).

(* ---------- API sections ---------- *)

(* SetContext(ctx, restart) -> changed *)
Definition set_context (fx : fixes) (s : st) (c : nat) (restart : bool) : st * bool :=
  let same := Nat.eqb (kctx s) c in
  if same && negb restart then (s, false)
  else
    let s1 := set_kctx s c in
    match routine s1 with
    | None => (s1, false)
    | Some r =>
      let x := getr s1 r in
      if same && is_nil (rerr x) then (s1, false)
      else if negb (is_nil (rerr x)) && negb restart && negb (Nat.eqb c 0) then (s1, false)   (* D4 repair *)
      else
        let s2 := stop_rec s1 r in
        let s3 := if (is_nil (rerr x) || restart) && negb (Nat.eqb c 0)
                  then start_rec fx s2 r c (rexit (getr s2 r)) false else s2 in
        (do_bcast s3, true)
    end.

(* setRoutineLocked(routine) -> (waitReturn, reset); f = 0 is the nil routine, arg the captured state *)
Definition set_routine_locked_n (fx : fixes) (s : st) (f : nat) (arg : N) : st * (option nat * bool) :=
  let '(s1, prevExit, wasReset) :=
    match routine s with
    | Some p =>
      let x := getr s p in
      let s' := cancel_inst s (rcancel x) in
      let s'' := setr s' p {| rfn := rfn x; rarg := rarg x; rctx := rctx x; rcancel := None; rexit := rexit x;
                              rerr := rerr x; rsucc := rsucc x; rexited := rexited x; rretry := rretry x |} in
      (set_routine s'' None, rexit x, negb (Nat.eqb (kctx s) 0) && negb (rexited x))
    | None => (s, None, false)
    end in
  if negb (Nat.eqb f 0) then
    let r := length (recs s1) in
    let s2 := set_recs s1 (recs s1 ++ [{| rfn := f; rarg := arg; rctx := None; rcancel := None; rexit := None;
                                          rerr := ONil; rsucc := false; rexited := false; rretry := None |}]) in
    let s3 := set_routine s2 (Some r) in
    let s4 := if negb (Nat.eqb (kctx s3) 0) then start_rec fx s3 r (kctx s3) prevExit false else s3 in
    (do_bcast s4, (prevExit, wasReset))
  else ((if wasReset then do_bcast s1 else s1), (prevExit, wasReset)).

(* the entry point first forgets a root context that was cancelled by its owner *)
Definition set_routine_locked (fx : fixes) (s : st) (f : nat) (arg : N) : st * (option nat * bool) :=
  set_routine_locked_n fx (norm s) f arg.

(* restartRoutineLocked(false) -> restarted *)
Definition restart_routine_n (fx : fixes) (s : st) : st * bool :=
  match routine s with
  | None => (s, false)
  | Some r =>
    let x := getr s r in
    let s1 := cancel_inst s (rcancel x) in
    let s2 := setr s1 r {| rfn := rfn x; rarg := rarg x; rctx := rctx x; rcancel := None; rexit := rexit x;
                           rerr := rerr x; rsucc := rsucc x; rexited := rexited x; rretry := rretry x |} in
    if Nat.eqb (kctx s2) 0 then (s2, false)
    else
      let y := getr s2 r in
      let s3 := setr s2 r {| rfn := rfn y; rarg := rarg y; rctx := rctx y; rcancel := rcancel y; rexit := None;
                             rerr := rerr y; rsucc := rsucc y; rexited := rexited y; rretry := rretry y |} in
      (do_bcast (start_rec fx s3 r (kctx s3) (rexit y) true), true)
  end.

Definition restart_routine (fx : fixes) (s : st) : st * bool := restart_routine_n fx (norm s).

Definition get_running (s : st) : bool :=
  negb (Nat.eqb (kctx s) 0) && negb (root_dead s (kctx s)) && match routine s with Some r => negb (rexited (getr s r)) | None => false end.

(* updateStateRoutineLocked -> (waitReturn, reset, running) *)
Definition update_sr (fx : fixes) (s : st) : st * (option nat * bool * bool) :=
  let f := if negb (Nat.eqb (sfn s) 0) && negb (N.eqb (sval s) 0) then sfn s else 0 in
  let '(s1, (w, reset)) := set_routine_locked fx s f (sval s) in
  (s1, (w, reset, get_running s1)).

Definition state_equal (cmp : nat) (a c : N) : bool :=
  match cmp with
  | 0 => false                      (* compare == nil: always changed *)
  | 1 => N.eqb a c
  | _ => N.eqb (a mod 2) (c mod 2)
  end.

(* setStateLocked -> (waitReturn, changed, reset, running) *)
Definition set_state_locked (fx : fixes) (s : st) (v : N) : st * (option nat * bool * bool * bool) :=
  if state_equal (scmp s) (sval s) v then (s, (None, false, false, false))
  else
    let '(s1, (w, reset, running)) := update_sr fx (set_sval s v) in
    (do_bcast s1, (w, true, reset, running)).

Definition swap_fn (g : nat) (v : N) : N :=
  match g with
  | 1 => (v + 1)%N
  | 2 => 0%N
  | 3 => v
  | _ => (v + 2)%N
  end.

(* SwapValue(cb) -> (nextState, waitReturn, changed, reset, running); g = 0 is the nil callback *)
Definition swap_value (fx : fixes) (s : st) (g : nat) : st * (N * option nat * bool * bool * bool) :=
  let before := sval s in
  let next := if Nat.eqb g 0 then before else swap_fn g before in
  if negb (N.eqb next before) then
    let '(s1, (w, changed, reset, running)) := set_state_locked fx s next in
    (s1, ((if changed then next else before), w, changed, reset, running))
  else (s, (next, None, false, false, get_running s)).

(* ---------- instances ---------- *)
Definition pred_closed (s : st) (x : inst) : bool :=
  match iwait x with Some j => iexit (geti s j) | None => true end.

(* the first select of execute, from the gate; [enter] resolves the choice when both cases are ready *)
Definition proceed (fx : fixes) (s : st) (i : nat) (enter : bool) : st :=
  match nth_error (insts s) i with
  | None => s
  | Some x =>
    match ipcv x with
    | IGate0 =>
      match iwait x with
      | None => if icanc x then seti s i (with_over x OCanc) else seti s i (with_pc x IUser)
      | Some _ =>
        let pc := pred_closed s x in
        if pc && icanc x then (if enter then seti s i (with_pc x IUser) else seti s i (with_over x OCanc))
        else if pc then seti s i (with_pc x IUser)
        else if icanc x then (if fx_wait fx then seti s i (with_pc x IWaitC) else seti s i (with_over x OCanc))
        else seti s i (with_pc x IWait)
      end
    | _ => s
    end
  end.

(* a blocked instance wakes up *)
Definition wake (fx : fixes) (s : st) (i : nat) (enter : bool) : st :=
  match nth_error (insts s) i with
  | None => s
  | Some x =>
    match ipcv x with
    | IWait =>
      let pc := pred_closed s x in
      if pc && icanc x then (if enter then seti s i (with_pc x IUser) else seti s i (with_over x OCanc))
      else if pc then seti s i (with_pc x IUser)
      else if icanc x then (if fx_wait fx then seti s i (with_pc x IWaitC) else seti s i (with_over x OCanc))
      else s
    | IWaitC => if pred_closed s x then seti s i (with_over x OCanc) else s
    | _ => s
    end
  end.

(* the user function returns o: cancel(); close(exitedCh); park before the bookkeeping section *)
Definition fn_return (s : st) (i : nat) (o : outcome) : st :=
  match nth_error (insts s) i with
  | Some x => match ipcv x with IUser => seti s i (with_over x o) | _ => s end
  | None => s
  end.

Definition next_backoff (bo : option (list N * nat)) : option N * option (list N * nat) :=
  match bo with
  | Some (l, k) => (nth_error l k, Some (l, S k))
  | None => (None, None)
  end.

(* the bookkeeping section of execute *)
Definition bookkeep (s : st) (i : nat) : st :=
  match nth_error (insts s) i with
  | None => s
  | Some x =>
    match ipcv x with
    | IBook o =>
      let r := irec x in
      let y := getr s r in
      let s0 := seti s i (with_pc x IDone) in
      match rctx y with
      | Some j =>
        if Nat.eqb j i then
          let succ := is_nil o in
          let s1 := match bo s0 with
                    | None => setr s0 r {| rfn := rfn y; rarg := rarg y; rctx := rctx y; rcancel := rcancel y; rexit := None;
                                           rerr := o; rsucc := succ; rexited := true; rretry := rretry y |}
                    | Some (l, k) =>
                      let s' := stop_timer s0 (rretry y) in
                      if succ then
                        setr (set_bo s' (Some (l, 0))) r
                             {| rfn := rfn y; rarg := rarg y; rctx := rctx y; rcancel := rcancel y; rexit := None;
                                rerr := o; rsucc := true; rexited := true; rretry := None |}
                      else if match routine s' with Some r' => Nat.eqb r' r | None => false end then
                        match nth_error l k with
                        | Some d =>
                          let t := length (timers s') in
                          let s'' := set_timers (set_bo s' (Some (l, S k)))
                                                (timers s' ++ [{| trec := r; tdead := (clock s' + d)%N; tst := TArmed |}]) in
                          setr s'' r {| rfn := rfn y; rarg := rarg y; rctx := rctx y; rcancel := rcancel y; rexit := None;
                                        rerr := o; rsucc := false; rexited := true; rretry := Some t |}
                        | None =>
                          setr (set_bo s' (Some (l, S k))) r
                               {| rfn := rfn y; rarg := rarg y; rctx := rctx y; rcancel := rcancel y; rexit := None;
                                  rerr := o; rsucc := false; rexited := true; rretry := None |}
                        end
                      else
                        setr s' r {| rfn := rfn y; rarg := rarg y; rctx := rctx y; rcancel := rcancel y; rexit := None;
                                     rerr := o; rsucc := false; rexited := true; rretry := None |}
                    end in
          do_bcast (set_cblog s1 (cblog s1 ++ repeat o (ncb s1)))
        else s0
      | None => s0
      end
    | _ => s
    end
  end.

(* ---------- timers ---------- *)
Definition fire (clk : N) (t : timer) : timer :=
  match tst t with
  | TArmed => if N.leb (tdead t) clk then {| trec := trec t; tdead := tdead t; tst := TFired |} else t
  | _ => t
  end.
Definition advance (s : st) (d : N) : st :=
  let clk := (clock s + d)%N in
  set_timers (set_clock s clk) (map (fire clk) (timers s)).

(* the retry timer callback's section *)
Definition timer_cb (fx : fixes) (s : st) (t : nat) : st :=
  match nth_error (timers s) t with
  | Some x =>
    match tst x with
    | TFired =>
      let s1 := set_timers s (set_nth (timers s) t {| trec := trec x; tdead := tdead x; tst := TRan |}) in
      let r := trec x in
      let y := getr s1 r in
      let mine := if fx_timer fx then match rretry y with Some t' => Nat.eqb t' t | None => false end else true in   (* D20 repair *)
      let s2 := if mine && negb (Nat.eqb (kctx s1) 0) && (match routine s1 with Some r' => Nat.eqb r' r | None => false end) && rexited y
                then start_rec fx s1 r (kctx s1) (rexit y) true else s1 in
      do_bcast s2
    | _ => s
    end
  | None => s
  end.

(* ---------- WaitExited ---------- *)
Definition setw (s : st) (a : nat) (w : waiter) : st := set_waiters s (set_nth (waiters s) a w).

(* the section of one WaitExited iteration, the waiter w being at its gate; the context is normalised first *)
Definition wait_sect_at (s : st) (a : nat) (w : waiter) : st :=
  let res :=
    match routine s with
    | Some r => if negb (Nat.eqb (kctx s) 0)
                then (let y := getr s r in if rexited y || rsucc y then Some (rerr y) else None)
                else (if wrinr w then Some ONil else None)
    | None => if wrinr w then Some ONil else None
    end in
  let '(b', ch) := getch (b s) in
  let s1 := set_b s b' in
  match res with
  | Some o => setw s1 a {| wpcv := WRet o; wrinr := wrinr w; wcanc := wcanc w |}
  | None => if wcanc w then setw s1 a {| wpcv := WRet OCanc; wrinr := wrinr w; wcanc := true |}
            else setw s1 a {| wpcv := WBlocked ch; wrinr := wrinr w; wcanc := wcanc w |}
  end.

Definition wait_section (s : st) (a : nat) : st :=
  match nth_error (waiters s) a with
  | Some w => match wpcv w with WGate => wait_sect_at (norm s) a w | _ => s end
  | None => s
  end.

Definition wait_wake (s : st) (a : nat) : st :=
  match nth_error (waiters s) a with
  | Some w => match wpcv w with
              | WBlocked ch => if closed (b s) ch then setw s a {| wpcv := WGate; wrinr := wrinr w; wcanc := wcanc w |} else s
              | _ => s
              end
  | None => s
  end.

Definition wait_cancel (s : st) (a : nat) : st :=
  match nth_error (waiters s) a with
  | Some w => match wpcv w with
              | WBlocked _ => setw s a {| wpcv := WRet OCanc; wrinr := wrinr w; wcanc := true |}
              | WRet _ => s
              | WGate => setw s a {| wpcv := WGate; wrinr := wrinr w; wcanc := true |}
              end
  | None => s
  end.

(* the error channel delivers: code 0 closed -> Canceled, 1 a nil error, e+2 error e; only a blocked waiter receives *)
Definition wait_errch (s : st) (a : nat) (code : nat) : st :=
  match nth_error (waiters s) a with
  | Some w => match wpcv w with
              | WBlocked _ =>
                let o := match code with 0 => OCanc | 1 => ONil | S (S e) => OErr e end in
                setw s a {| wpcv := WRet o; wrinr := wrinr w; wcanc := wcanc w |}
              | _ => s
              end
  | None => s
  end.

(* ---------- the environment: the owner of root context c cancels it ---------- *)
(* every instance context derived from it is cancelled with it (context.WithCancel children, synchronously); the
   container keeps pointing at the cancelled context until an entry point normalises it *)
Definition cancel_root (s : st) (c : nat) : st :=
  set_insts (set_dead s (c :: dead s)) (map (fun x => if Nat.eqb (iroot x) c then with_canc x else x) (insts s)).

(* ---------- events ---------- *)
Inductive ev :=
| ESetCtx (c : nat) (restart : bool)
| ESetRoutine (f : nat)
| ERestart
| ESetState (v : N)
| ESwap (g : nat)
| ESetSR (f : nat)
| EProceed (i : nat) (enter : bool)
| EWake (i : nat) (enter : bool)
| EReturn (i : nat) (o : outcome)
| EBook (i : nat)
| EAdvance (d : N)
| ETimerCb (t : nat)
| EWaitExited (rinr : bool)
| EWSect (a : nat)
| EWWake (a : nat)
| EWCancel (a : nat)
| EWErr (a : nat) (code : nat)
| ECancelRoot (c : nat).

Definition step (fx : fixes) (s : st) (e : ev) : st :=
  match e with
  | ESetCtx c r => fst (set_context fx s c r)
  | ESetRoutine f => if sv s then s else fst (set_routine_locked fx s f (N.of_nat f))
  | ERestart => fst (restart_routine fx s)
  | ESetState v => if sv s then fst (set_state_locked fx s v) else s
  | ESwap g => if sv s then fst (swap_value fx s g) else s
  | ESetSR f => if sv s then fst (update_sr fx (set_sfn s f)) else s
  | EProceed i en => proceed fx s i en
  | EWake i en => wake fx s i en
  | EReturn i o => fn_return s i o
  | EBook i => bookkeep s i
  | EAdvance d => advance s d
  | ETimerCb t => timer_cb fx s t
  | EWaitExited rinr => set_waiters s (waiters s ++ [{| wpcv := WGate; wrinr := rinr; wcanc := false |}])
  | EWSect a => wait_section s a
  | EWWake a => wait_wake s a
  | EWCancel a => wait_cancel s a
  | EWErr a c => wait_errch s a c
  | ECancelRoot c => cancel_root s c
  end.

Definition run (fx : fixes) (s0 : st) (es : list ev) : st := fold_left (step fx) es s0.

(* ---------- derived notions ---------- *)
Definition over (x : inst) : bool := match ipcv x with IBook _ | IDone => true | _ => false end.
Definition in_user (x : inst) : bool := match ipcv x with IUser => true | _ => false end.
Definition live (x : inst) : bool := negb (icanc x).
